#!/usr/bin/env python3
"""triage.py PROP [seed] — tabulate the replays of the last run of a property."""
import glob, json, sys, collections
prop = sys.argv[1]
tab = collections.Counter()
ex = {}
for f in sorted(glob.glob('/verif/replays/%s-*-*.json' % prop)):
    try:
        g = json.load(open(f))[0]
    except Exception:
        continue
    v = g.get('verdict')
    if not v:
        k = ('crash', '')
    else:
        d = v['first_differing_op_per_case']
        kinds = []
        for ci, c in enumerate(g['cases']):
            k = d[ci] if ci < len(d) else 0
            kinds.append(c['ops'][k-1]['kind'] if k else '-')
        k = ('mon-fail' if not v['monitor_holds'] else 'mon-ok', ','.join(kinds))
    tab[k] += 1
    ex.setdefault(k, f)
for k, n in sorted(tab.items()):
    print(n, k, ex[k])
