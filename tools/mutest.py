#!/usr/bin/env python3
"""mutest.py <ID> <n> <prop> [<prop> ...] — confirm a sub-agent's change (suite passes, demo fails with it and
passes without it) in its scratch worktree, then apply it to /repo, run the given checks, and undo it."""
import json, os, subprocess, sys, shutil, re
ID, n = sys.argv[1], sys.argv[2]
props = sys.argv[3:]
wt = "/tmp/mut/%s" % ID
out = "/tmp/mut/%s-out" % ID
diff = os.path.join(out, "change%s.diff" % n)
if os.path.exists(os.path.join(out, "change%s.rebased.diff" % n)):
    diff = os.path.join(out, "change%s.rebased.diff" % n)  # the same change, re-applied by hand on the current /repo HEAD
    res_rebased = True
demo = os.path.join(out, "demo%s_test.go" % n)
env = dict(os.environ, GOFLAGS="-mod=mod", GOPROXY="off")
env.pop("GOTOOLCHAIN", None); env.pop("GOSUMDB", None)
def sh(cmd, cwd=None, timeout=1800):
    r = subprocess.run(cmd, cwd=cwd, env=env, shell=isinstance(cmd, str), stdout=subprocess.PIPE, stderr=subprocess.STDOUT, text=True, timeout=timeout)
    return r.returncode, r.stdout
res = {"id": ID, "change": n, "rebased": os.path.basename(diff)}
if not os.path.isdir(wt):
    sh("git -C /repo worktree add -q --detach %s HEAD" % wt)
sh("git checkout -q -- . && git clean -fdq", cwd=wt)
sh("git checkout -q --detach %s" % subprocess.run("git -C /repo rev-parse HEAD", shell=True, stdout=subprocess.PIPE, text=True).stdout.strip(), cwd=wt)
ddir = "."
if os.path.exists(os.path.join(out, "demo%s.dir" % n)):
    ddir = open(os.path.join(out, "demo%s.dir" % n)).read().strip() or "."
demo_dst = os.path.join(wt, ddir, "zz_demo_%s_test.go" % n)
shutil.copy(demo, demo_dst)
pkg = re.search(r"^package (\w+)", open(demo).read(), re.M).group(1)
tests = "|".join(re.findall(r"^func (Test\w+)", open(demo).read(), re.M))
rc, o = sh(["go", "test", "-count=1", "-run", "^(%s)$" % tests, "."], cwd=os.path.join(wt, ddir))
res["demo_without_change_passes"] = rc == 0
if rc != 0: res["demo_without_log"] = o[-1500:]
rc, o = sh(["git", "apply", diff], cwd=wt)
res["applies_to_head"] = rc == 0
if rc == 0:
    rc, o = sh(["go", "test", "-count=1", "-run", "^(%s)$" % tests, "."], cwd=os.path.join(wt, ddir))
    res["demo_with_change_fails"] = rc != 0
    os.remove(demo_dst)
    ok = True
    for m in [".", "http", "chi", "gin", "echo", "fiber"]:
        rc, o = sh("go build ./... && go test -vet=off -count=1 ./...", cwd=os.path.join(wt, m))
        if rc != 0:
            ok = False; res["suite_log"] = o[-1500:]
    res["suite_passes_with_change"] = ok
else:
    res["apply_log"] = o[-800:]
sh("git checkout -q -- . && git clean -fdq", cwd=wt)
if res.get("applies_to_head") and props:
    rc, o = sh(["git", "-C", "/repo", "apply", diff])
    assert rc == 0, o
    try:
        res["checks"] = {}
        for p in props:
            rc, o = sh(["/verif/check", p], cwd="/verif", timeout=3000)
            lines = [l for l in o.split("\n") if l.startswith("VIOLATION") or l.startswith("KNOWN") or "died" in l]
            res["checks"][p] = {"exit": rc, "violations": len([l for l in lines if l.startswith("VIOLATION")]),
                                "with_failing_input": len([l for l in lines if l.startswith("VIOLATION") and "no-failing-input-found" not in l]),
                                "first": lines[:2]}
    finally:
        sh("git -C /repo checkout -- .")
print(json.dumps(res, indent=1))
