#!/usr/bin/env python3
"""importseed.py <outdir-root> <n> ... — copy sub-agent deliverables <root>/<ID>-out/change<n>.{diff,md}, demo<n>_test.go
(and demo<n>.dir) into /verif/seeded/<ID>-<n>/ as patch.diff, demo_test.go, demo.dir and a meta.json stub;
tools/reseed.py then confirms them and runs the checks."""
import json, os, shutil, sys
root = sys.argv[1]; ns = sys.argv[2:]
extra = {"C01": ["C02", "C04"], "C02": ["C01", "C09"], "C03": ["C04"], "C04": ["C01", "C17"], "C05": ["C06"], "C06": ["C05", "C19"], "C07": ["C08"], "C08": ["C07"],
         "C09": ["C02", "C13"], "C10": ["C12", "C14"], "C11": ["C12", "C10"], "C12": ["C11", "C10"], "C13": ["C12", "C14"], "C14": ["C10", "C13"],
         "C15": ["C10"], "C16": [], "C17": ["C04", "C20"], "C18": ["C04"], "C19": ["C05", "C06"], "C20": ["C17", "C15"]}
for d in sorted(os.listdir(root)):
    if not d.endswith("-out"):
        continue
    ID = d[:-4]
    for n in ns:
        src = os.path.join(root, d)
        if not os.path.exists(os.path.join(src, "change%s.diff" % n)):
            print("missing", ID, n); continue
        dst = "/verif/seeded/%s-%s" % (ID, n)
        os.makedirs(dst, exist_ok=True)
        shutil.copy(os.path.join(src, "change%s.diff" % n), os.path.join(dst, "patch.diff"))
        shutil.copy(os.path.join(src, "demo%s_test.go" % n), os.path.join(dst, "demo_test.go"))
        if os.path.exists(os.path.join(src, "demo%s.dir" % n)):
            shutil.copy(os.path.join(src, "demo%s.dir" % n), os.path.join(dst, "demo.dir"))
        md = open(os.path.join(src, "change%s.md" % n)).read() if os.path.exists(os.path.join(src, "change%s.md" % n)) else ""
        json.dump({"breaks_property": ID, "what_and_what_it_needs_to_manifest": md.strip(), "confirmed": {}, "ran": [],
                   "checks_run": {p: {} for p in [ID] + extra.get(ID, [])}, "caught_by": []}, open(os.path.join(dst, "meta.json"), "w"), indent=1)
        print("imported", ID, n)
