#!/usr/bin/env python3
"""Writes /verif/MANIFEST.json from the table below (kept in one place so that it stays valid)."""
import json, os
ROOT = os.path.dirname(os.path.dirname(os.path.abspath(__file__)))
CLAIMED = json.load(open(os.path.join(ROOT, "tools", "claims.json")))
props = [json.loads(l) for l in open(os.path.join(ROOT, "properties.jsonl"))]
checks = []
na = []
for p in props:
    pid = p["id"]
    c = CLAIMED.get(pid)
    if not c:
        na.append({"property_id": pid, "reason": "check not yet committed: the machinery for this property is under construction (DESIGN.md section 8); it is not claimed until its check runs"})
        continue
    checks.append({
        "property_id": pid,
        "quick_cmd": "./check %s --tier quick" % pid,
        "thorough_cmd": "./check %s --tier thorough" % pid,
        "evidence_file": "/verif/evidence/%s.json" % pid,
        "replay_cmd_template": "./check %s --replay {path}" % pid,
        "engine": "coq-model+correspondence",
        "level_claimed": {"category": "proof", "text": c["text"], "design_ref": c.get("design_ref", "DESIGN.md section 5, " + pid)},
        "level_note": c["note"],
        "technique": c["technique"],
    })
m = {
    "version": 1,
    "setup_cmd": "./setup.sh",
    "hooks": {
        "guard": "verif",
        "enable": "go build -tags verif -overlay harness/overlay.json (the overlay maps the non-existent /repo/zz_verif_export.go to harness/overlay/zz_verif_export.go: add-only observers and type aliases, package godi, //go:build verif); nothing is committed in /repo for it",
        "baseline_off_cmd": "/verif/baseline.sh",
        "source_commits": [],
        "add_only": True,
    },
    "engines": [
        {"name": "coq-model+correspondence", "path": "coq/ + harness/ + check",
         "serves_properties": [c["property_id"] for c in checks],
         "kind_free_text": "hand-written executable Gallina model of the container with theorems (coq/theories), tied to /repo on every run by differential execution: the Go harness runs generated cases on the real container, coqc evaluates the model and the boolean monitors on the same cases (vm_compute) and compares"},
    ],
    "checks": checks,
    "not_applicable": na,
    "notes": "See DESIGN.md. known_findings.json lists recorded findings and the defects repaired by fix: commits.",
}
json.dump(m, open(os.path.join(ROOT, "MANIFEST.json"), "w"), indent=1)
print("claimed:", [c["property_id"] for c in checks], "not yet:", [x["property_id"] for x in na])
