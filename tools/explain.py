#!/usr/bin/env python3
"""explain.py REPLAY.json — show, for each case of a replay file, the first operation on which
the model and the observed trace differ: the operation, the observed step, the model's step."""
import json, os, re, subprocess, sys, tempfile
ROOT = os.path.dirname(os.path.dirname(os.path.abspath(__file__)))
BIN = os.path.join(ROOT, "harness", "bin", "harness")
groups = json.load(open(sys.argv[1]))
for g in groups:
    diffs = g.get("verdict", {}).get("first_differing_op_per_case", [])
    print("verdict:", g.get("verdict"))
    with tempfile.TemporaryDirectory() as d:
        json.dump([g], open(os.path.join(d, "in.json"), "w"))
        r = subprocess.run([BIN, "gallina", "-in", os.path.join(d, "in.json")], stdout=subprocess.PIPE, text=True)
        terms = json.loads(r.stdout)
        mon = os.environ.get("MON")
        for ci, c in enumerate(g["cases"]):
            if mon:
                v = os.path.join(d, "m.v")
                open(v, "w").write("From Godi Require Import Base Model Check Monitors.\nEval vm_compute in (mon_first step_%s 1 ms_init %s %s).\n" % (mon, terms[ci]["ops"], terms[ci]["trace"]))
                out = subprocess.run(["coqc", "-Q", os.path.join(ROOT, "coq", "theories"), "Godi", v], cwd=d, stdout=subprocess.PIPE, stderr=subprocess.STDOUT, text=True).stdout
                m = re.search(r"= (\d+)", out)
                k = int(m.group(1)) if m else 0
                print("case %d: monitor %s first fails at step %d" % (ci, mon, k))
                lo = max(0, k - 1 - int(os.environ.get("CTX", "0")))
                for j in range(lo, k):
                    print("  op[%d]  :" % (j+1), json.dumps(c["ops"][j])[:1500])
                    print("  observed:", json.dumps(c["trace"][j])[:1500])
                continue
            k = diffs[ci] if ci < len(diffs) else 0
            if k == 0:
                continue
            v = os.path.join(d, "x.v")
            open(v, "w").write("From Godi Require Import Base Model Check.\nEval vm_compute in (nth %d (run_guided init_world %s %s) ([], RUnit)).\n" % (k - 1, terms[ci]["ops"], terms[ci]["trace"]))
            out = subprocess.run(["coqc", "-Q", os.path.join(ROOT, "coq", "theories"), "Godi", v], cwd=d, stdout=subprocess.PIPE, stderr=subprocess.STDOUT, text=True).stdout
            print("case %d (%s): first difference at op %d" % (ci, c.get("name"), k))
            lo = max(0, k - 1 - int(os.environ.get("CTX", "0")))
            for j in range(lo, k):
                print("  op[%d]  :" % (j+1), json.dumps(c["ops"][j])[:1500])
                print("  observed:", json.dumps(c["trace"][j])[:1500])
            print("  model   :", " ".join(out.split())[:1500])
