#!/usr/bin/env python3
"""shrink.py <property> <replay.json> [seconds] — minimise a failing single-case replay: greedily drop operations (last
to first, then again until nothing more can go) as long as `./check <property> --replay` still reports a violation
of the same kind (with a failing input / correspondence only). Writes <replay>.min.json and prints its path."""
import json, os, subprocess, sys, time, copy
ROOT = os.path.dirname(os.path.dirname(os.path.abspath(__file__)))
prop, path = sys.argv[1], sys.argv[2]
budget = float(sys.argv[3]) if len(sys.argv) > 3 else 300.0
t0 = time.time()
data = json.load(open(path))
if not (isinstance(data, list) and len(data) == 1 and len(data[0].get("cases", [])) == 1 and "ops" in data[0]["cases"][0]):
    print("not a single-case container replay: left as it is"); sys.exit(0)
def verdict(d):
    tmp = path + ".try.json"
    json.dump(d, open(tmp, "w"))
    r = subprocess.run([os.path.join(ROOT, "check"), prop, "--replay", tmp], cwd=ROOT, stdout=subprocess.PIPE, stderr=subprocess.STDOUT, text=True)
    os.remove(tmp)
    lines = [l for l in r.stdout.split("\n") if l.startswith("VIOLATION")]
    if not lines:
        return None
    return "corr" if all("no-failing-input-found" in l for l in lines) else "input"
def strip(d):
    d = copy.deepcopy(d)
    for c in d[0]["cases"]:
        c.pop("trace", None); c.pop("crash", None)
    return d
data = strip(data)
want = verdict(data)
if want is None:
    print("the replay does not fail any more"); sys.exit(0)
ops = data[0]["cases"][0]["ops"]
changed = True
while changed and time.time() - t0 < budget:
    changed = False
    i = len(ops) - 1
    while i >= 0 and time.time() - t0 < budget:
        cand = copy.deepcopy(data)
        del cand[0]["cases"][0]["ops"][i]
        if verdict(cand) == want:
            data = cand; ops = data[0]["cases"][0]["ops"]; changed = True
        i -= 1
out = path[:-5] + ".min.json" if path.endswith(".json") else path + ".min.json"
json.dump(data, open(out, "w"), indent=1)
print(out, "(%d operations, verdict kind: %s)" % (len(ops), want))
