#!/usr/bin/env python3
"""mkseeded.py — copies the sub-agents' confirmed changes from /tmp/mut/<ID>-out into /verif/seeded/<ID>-<n>/
(patch.diff, the demonstration test, meta.json with what was run and which checks caught it)."""
import json, os, shutil, re
ROOT = "/verif/seeded"
latest = {}
for l in open("/tmp/mut/results.jsonl"):
    r = json.loads(l)
    if "id" not in r:
        continue
    key = (r["id"], r["change"])
    prev = latest.get(key)
    # later runs supersede earlier ones per check
    if prev:
        prev.setdefault("checks", {}).update(r.get("checks", {}))
        for k in ("demo_without_change_passes", "demo_with_change_fails", "suite_passes_with_change", "applies_to_head"):
            prev[k] = r.get(k, prev.get(k))
    else:
        latest[key] = r
os.makedirs(ROOT, exist_ok=True)
for (ID, n), r in sorted(latest.items()):
    confirmed = r.get("applies_to_head") and r.get("demo_without_change_passes") and r.get("demo_with_change_fails") and r.get("suite_passes_with_change")
    if not confirmed:
        print("not confirmed:", ID, n, r)
        continue
    src = "/tmp/mut/%s-out" % ID
    dst = os.path.join(ROOT, "%s-%s" % (ID, n))
    os.makedirs(dst, exist_ok=True)
    pd = os.path.join(src, "change%s.rebased.diff" % n)
    if not os.path.exists(pd):
        pd = os.path.join(src, "change%s.diff" % n)
    shutil.copy(pd, os.path.join(dst, "patch.diff"))
    shutil.copy(os.path.join(src, "demo%s_test.go" % n), os.path.join(dst, "demo_test.go"))
    if os.path.exists(os.path.join(src, "demo%s.dir" % n)):
        shutil.copy(os.path.join(src, "demo%s.dir" % n), os.path.join(dst, "demo.dir"))
    md = open(os.path.join(src, "change%s.md" % n)).read() if os.path.exists(os.path.join(src, "change%s.md" % n)) else ""
    caught = {p: v for p, v in r.get("checks", {}).items() if v["violations"] > 0}
    meta = {
        "breaks_property": ID,
        "what_and_what_it_needs_to_manifest": md.strip(),
        "confirmed": {"applies_to_repo_head": True, "existing_suite_passes_with_change_all_six_modules": True,
                      "demo_fails_with_change": True, "demo_passes_without_change": True},
        "ran": ["tools/mutest.py %s %s %s  (applies patch.diff to a scratch worktree: demo without/with the change, suite in all six modules; then `git -C /repo apply`, ./check <prop>, `git -C /repo checkout -- .`)" % (ID, n, " ".join(r.get("checks", {}).keys()))],
        "checks_run": {p: {"exit": v["exit"], "violation_lines": v["violations"], "with_failing_input": v["with_failing_input"]} for p, v in r.get("checks", {}).items()},
        "caught_by": sorted(caught.keys()),
    }
    json.dump(meta, open(os.path.join(dst, "meta.json"), "w"), indent=1)
    print(ID, n, "caught by", sorted(caught.keys()) or "NOTHING")
