#!/usr/bin/env python3
"""reseed.py [<id> ...] — re-confirm the kept changes in /verif/seeded/<id>/ against /repo's current HEAD and re-run the
checks against them.  Per change: in a scratch worktree under /tmp (removed afterwards) the demonstration must pass
without the change and fail with it, and the repository's suite (six modules) must pass with it; then the change is
applied to /repo (git apply), the checks named in meta.json are run, and /repo is restored (git checkout -- .).
Writes the outcome back into meta.json.  Never run anything else against /repo or edit /verif while this runs."""
import json, os, re, shutil, subprocess, sys
VERIF = os.environ.get("RESEED_VERIF", "/verif")   # a scratch copy of /verif (its check path-edited) and
REPO = os.environ.get("RESEED_REPO", "/repo")      # a scratch worktree can stand in while /repo is in use
ROOT = VERIF + "/seeded"
env = dict(os.environ, GOFLAGS="-mod=mod", GOPROXY="off")
env.pop("GOTOOLCHAIN", None); env.pop("GOSUMDB", None)
def sh(cmd, cwd=None, timeout=3000):
    r = subprocess.run(cmd, cwd=cwd, env=env, shell=isinstance(cmd, str), stdout=subprocess.PIPE, stderr=subprocess.STDOUT, text=True, timeout=timeout)
    return r.returncode, r.stdout
RECHECK = os.environ.get("RESEED_RECHECK") == "1"   # skip the confirmation (kept from the last full run): apply, run the checks, undo
ids = sys.argv[1:] or sorted(os.listdir(ROOT))
head = subprocess.run("git -C %s rev-parse --short HEAD" % REPO, shell=True, stdout=subprocess.PIPE, text=True).stdout.strip()
assert subprocess.run("git -C %s status --porcelain" % REPO, shell=True, stdout=subprocess.PIPE, text=True).stdout.strip() == "", "/repo is not clean"
for sid in ids:
    d = os.path.join(ROOT, sid)
    meta = json.load(open(os.path.join(d, "meta.json")))
    patch = os.path.join(d, "patch.diff")
    demo = os.path.join(d, "demo_test.go")
    ddir = open(os.path.join(d, "demo.dir")).read().strip() if os.path.exists(os.path.join(d, "demo.dir")) else "."
    if RECHECK:
        res = meta.get("confirmed") or {}
        ok = all(res.get(k) for k in ("demo_passes_without_change", "applies_to_repo_head", "demo_fails_with_change", "existing_suite_passes_with_change_all_six_modules"))
        if not ok or meta.get("superseded_by"):
            print(sid, "skipped (not a confirmed change)", flush=True); continue
        rc, o = sh(["git", "-C", REPO, "apply", "--check", patch])
        if rc != 0:
            meta["recheck_note"] = "does not apply to %s any more (confirmed at %s)" % (head, meta.get("confirmed_at_repo_head"))
            json.dump(meta, open(os.path.join(d, "meta.json"), "w"), indent=1)
            print(sid, "does not apply any more", flush=True); continue
        rc, o = sh(["git", "-C", REPO, "apply", patch])
        try:
            runs = {}
            primary = meta["breaks_property"]
            props = [primary] + [p for p in (list(meta.get("checks_run", {}).keys())) if p != primary]
            for p in props:
                if p != primary and runs.get(primary, {}).get("exit") == 1 and runs[primary]["violation_lines"] > 0:
                    break
                rc, o = sh([VERIF + "/check", p], cwd=VERIF)
                lines = [l for l in o.split("\n") if l.startswith("VIOLATION")]
                more = re.search(r"\((\d+) further violations", o)
                runs[p] = {"exit": rc, "violation_lines": len(lines) + (int(more.group(1)) if more else 0),
                           "with_failing_input": len([l for l in lines if "no-failing-input-found" not in l])}
            meta["checks_run"] = runs
            meta["caught_by"] = sorted(p for p, v in runs.items() if v["exit"] != 0 and v["violation_lines"] > 0)
            meta["rechecked_at_repo_head"] = head
            meta.pop("recheck_note", None)
        finally:
            sh("git -C %s checkout -- ." % REPO)
        json.dump(meta, open(os.path.join(d, "meta.json"), "w"), indent=1)
        print(sid, "recheck: caught by", meta.get("caught_by"), flush=True)
        continue
    wt = "/tmp/reseed_wt"
    sh("git -C %s worktree remove --force %s" % (REPO, wt))
    rc, o = sh("git -C %s worktree add -q --detach %s HEAD" % (REPO, wt))
    res = {}
    try:
        demo_dst = os.path.join(wt, ddir, "zz_demo_test.go")
        shutil.copy(demo, demo_dst)
        tests = "|".join(re.findall(r"^func (Test\w+)", open(demo).read(), re.M))
        rc, o = sh(["go", "test", "-count=1", "-run", "^(%s)$" % tests, "."], cwd=os.path.join(wt, ddir))
        res["demo_passes_without_change"] = rc == 0
        rc, o = sh(["git", "apply", patch], cwd=wt)
        res["applies_to_repo_head"] = rc == 0
        if rc == 0:
            rc, o = sh(["go", "test", "-count=1", "-run", "^(%s)$" % tests, "."], cwd=os.path.join(wt, ddir))
            res["demo_fails_with_change"] = rc != 0
            os.remove(demo_dst)
            ok = True
            for m in [".", "http", "chi", "gin", "echo", "fiber"]:
                rc, o = sh("go build ./... && go test -vet=off -count=1 ./...", cwd=os.path.join(wt, m))
                ok = ok and rc == 0
            res["existing_suite_passes_with_change_all_six_modules"] = ok
    finally:
        sh("git -C %s worktree remove --force %s" % (REPO, wt))
    meta["confirmed"] = res
    meta["confirmed_at_repo_head"] = head
    props = list(meta.get("checks_run", {}).keys()) or [meta["breaks_property"]]
    if all(res.get(k) for k in ("demo_passes_without_change", "applies_to_repo_head", "demo_fails_with_change", "existing_suite_passes_with_change_all_six_modules")):
        rc, o = sh(["git", "-C", REPO, "apply", patch])
        assert rc == 0, o
        try:
            runs = {}
            primary = meta["breaks_property"]
            props = [primary] + [p for p in props if p != primary]
            for p in props:
                if p != primary and runs.get(primary, {}).get("exit") == 1 and runs[primary]["violation_lines"] > 0:
                    break  # caught by its own property's check: the other checks are run only for a miss
                rc, o = sh([VERIF + "/check", p], cwd=VERIF)
                lines = [l for l in o.split("\n") if l.startswith("VIOLATION")]
                more = re.search(r"\((\d+) further violations", o)
                runs[p] = {"exit": rc, "violation_lines": len(lines) + (int(more.group(1)) if more else 0),
                           "with_failing_input": len([l for l in lines if "no-failing-input-found" not in l])}
            meta["checks_run"] = runs
            meta["caught_by"] = sorted(p for p, v in runs.items() if v["exit"] != 0 and v["violation_lines"] > 0)
            meta["ran"] = ["tools/reseed.py %s  (scratch worktree: demo without/with the change, suite in all six modules; then `git -C /repo apply patch.diff`, ./check %s, `git -C /repo checkout -- .`)" % (sid, " ".join(props))]
        finally:
            sh("git -C %s checkout -- ." % REPO)
    else:
        meta["caught_by"] = []
        meta["note"] = "not confirmed at this HEAD: " + json.dumps(res)
    json.dump(meta, open(os.path.join(d, "meta.json"), "w"), indent=1)
    print(sid, json.dumps(res), "caught by", meta.get("caught_by"), flush=True)
