#!/usr/bin/env python3
"""Regenerates the table of seeded changes at the end of DESIGN.md from seeded/*/meta.json."""
import glob, json, os, re
ROOT = os.path.dirname(os.path.dirname(os.path.abspath(__file__)))
rows = []
for d in sorted(glob.glob(os.path.join(ROOT, "seeded", "*"))):
    mp = os.path.join(d, "meta.json")
    if not os.path.exists(mp):
        continue
    m = json.load(open(mp))
    what = m["what_and_what_it_needs_to_manifest"].replace("\n", " ")
    what = re.sub(r"\s+", " ", what)
    first = what.split(". ")[0][:230]
    runs = ", ".join("%s: %d lines (%d with failing input)" % (p, v["violation_lines"], v["with_failing_input"]) for p, v in sorted(m["checks_run"].items()))
    rows.append("| `seeded/%s` | %s | %s | %s |" % (os.path.basename(d), m["breaks_property"], ", ".join(m["caught_by"]) or "**none**", runs))
table = ["", "## Appendix: seeded changes and the checks that catch them", "",
         "Produced by fresh sub-agents that saw only the text of one property and a scratch worktree; each change",
         "compiles, passes the existing suite in all six modules, and comes with a demonstration test that fails with it",
         "and passes without it (re-confirmed by `tools/mutest.py`). Applied to `/repo`, checked, and undone again.",
         "The quick tier was used throughout (default seed). \"lines\" = VIOLATION lines printed (capped at 12 per run).", "",
         "| change | property | caught by | runs |", "|---|---|---|---|"] + rows + [""]
path = os.path.join(ROOT, "DESIGN.md")
s = open(path).read()
i = s.find("\n## Appendix: seeded changes and the checks that catch them")
if i >= 0:
    s = s[:i]
open(path, "w").write(s.rstrip("\n") + "\n" + "\n".join(table))
print(len(rows), "rows")
