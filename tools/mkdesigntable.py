#!/usr/bin/env python3
"""Regenerates the table of seeded changes at the end of DESIGN.md from seeded/*/meta.json."""
import glob, json, os, re
ROOT = os.path.dirname(os.path.dirname(os.path.abspath(__file__)))
rows = []
for d in sorted(glob.glob(os.path.join(ROOT, "seeded", "*"))):
    mp = os.path.join(d, "meta.json")
    if not os.path.exists(mp):
        continue
    m = json.load(open(mp))
    what = m["what_and_what_it_needs_to_manifest"].replace("\n", " ")
    what = re.sub(r"\s+", " ", what)
    first = what.split(". ")[0][:230]
    runs = ", ".join("%s: %d lines (%d with failing input)" % (p, v["violation_lines"], v["with_failing_input"]) for p, v in sorted(m["checks_run"].items()) if v)
    caught = ", ".join(m["caught_by"]) or "**none**"
    if m.get("superseded_by"):
        caught, runs = "(superseded)", "the code it edited was restructured by later repairs; kept against the current tree as " + m["superseded_by"]
    elif m.get("confirmed") and not all(m["confirmed"].get(k) for k in ("demo_passes_without_change", "applies_to_repo_head", "demo_fails_with_change", "existing_suite_passes_with_change_all_six_modules")):
        caught, runs = "(not a confirmed change at the current HEAD)", m.get("note") or "its demonstration no longer fails with the change applied (a later repair changed the behaviour it relied on); kept for the record, not counted"
    elif m.get("recheck_note"):
        caught, runs = "(does not apply to the current HEAD)", m["recheck_note"] + ": a later repair edited the same lines; kept for the record, not counted"
    rows.append("| `seeded/%s` | %s | %s | %s |" % (os.path.basename(d), m["breaks_property"], caught, runs))
table = ["", "## Appendix: seeded changes and the checks that catch them", "",
         "Produced by fresh sub-agents that saw only the text of one property and a scratch worktree; each change",
         "compiles, passes the existing suite in all six modules, and comes with a demonstration test that fails with it",
         "and passes without it (re-confirmed against the current `/repo` HEAD by `tools/reseed.py`, which also applies the",
         "change to `/repo`, runs the property's own check - and further checks only when that one misses - and undoes it).",
         "The quick tier was used throughout (default seed). \"lines\" = VIOLATION lines printed (capped at 12 per run).", "",
         "| change | property | caught by | runs |", "|---|---|---|---|"] + rows + [""]
path = os.path.join(ROOT, "DESIGN.md")
s = open(path).read()
i = s.find("\n## Appendix: seeded changes and the checks that catch them")
if i >= 0:
    s = s[:i]
open(path, "w").write(s.rstrip("\n") + "\n" + "\n".join(table))
print(len(rows), "rows")
