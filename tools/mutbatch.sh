#!/bin/sh
# usage: mutbatch.sh "ID n props..." ...   — runs mutest sequentially, appends to /tmp/mut/results.jsonl
for spec in "$@"; do
  set -- $spec
  /verif/tools/mutest.py "$@" > /tmp/mut/last.json 2>&1
  python3 - <<PY
import json
try:
    r=json.load(open('/tmp/mut/last.json'))
except Exception as e:
    r={"spec":"$spec","error":open('/tmp/mut/last.json').read()[-800:]}
open('/tmp/mut/results.jsonl','a').write(json.dumps(r)+"\n")
PY
done
