#!/usr/bin/env python3
"""gexplain.py REPLAY.json — for a graph-harness replay: the first step on which the component and the
reference digraph disagree, what was observed and what the reference says."""
import json, os, subprocess, sys, tempfile
ROOT = os.path.dirname(os.path.dirname(os.path.abspath(__file__)))
def gl(l): return "[" + "; ".join(str(x) for x in l) + "]"
def gop(o):
    k = o["kind"]
    if k == "add": return "(GAdd %d %s)" % (o.get("u", 0), gl(o.get("deps") or []))
    if k == "deferred": return "(GAddDeferred %d %s)" % (o.get("u", 0), gl(o.get("deps") or []))
    if k == "detect": return "GDetect"
    if k == "remove": return "(GRemove %d)" % o.get("u", 0)
    return "GClear"
for c in json.load(open(sys.argv[1])):
    k = c.get("verdict", {}).get("first_differing_op_per_case", [0])[0]
    print("npool", c["npool"], "first difference at step", k)
    for j, o in enumerate(c["ops"][:k]):
        print("  op[%d]" % (j + 1), gop(o))
    print("  observed:", json.dumps(c["obs"][k - 1]))
    ops = "[" + "; ".join(gop(o) for o in c["ops"][:k]) + "]"
    v = ("From Godi Require Import Base GraphSpec.\nDefinition g := fold_left (fun g o => fst (gstep g o)) %s dg_empty.\n"
         "Eval vm_compute in (dg_nodes g, dg_edges g, (\"acyclic\", acyclic g), (\"roots\", q_roots g), (\"leaves\", q_leaves g), "
         "(\"dependents\", map (q_dependents g) (seq 0 %d)), (\"trans\", map (q_transitive g) (seq 0 %d)), (\"depth\", map (q_depth g) (seq 0 %d))).\n") % (ops, c["npool"], c["npool"], c["npool"])
    with tempfile.TemporaryDirectory() as d:
        open(os.path.join(d, "x.v"), "w").write("Require Import String. Open Scope string_scope.\n" + v)
        out = subprocess.run(["coqc", "-Q", os.path.join(ROOT, "coq", "theories"), "Godi", "x.v"], cwd=d, stdout=subprocess.PIPE, stderr=subprocess.STDOUT, text=True).stdout
        print("  reference:", " ".join(out.split())[:1500])
