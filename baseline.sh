#!/bin/sh
# Runs the repository's own test suite (all six Go modules) with the verif guard OFF.
# Nothing of /verif is involved: the hooks live in an overlay file that is only injected by
# /verif/check, so the guard-off baseline is the plain `go test`.
export GOFLAGS=-mod=mod GOPROXY=off
unset GOTOOLCHAIN GOSUMDB
rc=0
for m in . http chi gin echo fiber; do
  (cd /repo/$m && go test -vet=off -count=1 -timeout 25m ./...) || rc=1
done
exit $rc
