(* Check.v — what the per-run generated files evaluate: decidable equalities, the canonical
   form of traces, the observation-guided run of the model (correspondence) and the
   per-property check functions. Definitions only. *)
From Godi Require Import Base Model.

Fixpoint list_eqb {A} (eqb : A -> A -> bool) (a b : list A) : bool :=
  match a, b with
  | [], [] => true
  | x :: a', y :: b' => eqb x y && list_eqb eqb a' b'
  | _, _ => false
  end.

Definition aval_eqb (a b : aval) : bool :=
  match a, b with
  | AInst i, AInst j => inst_eqb i j
  | AList l, AList m => list_eqb inst_eqb l m
  | AScope h, AScope k => h =? k
  | ACtx h, ACtx k => h =? k
  | AProv, AProv => true
  | AZero, AZero => true
  | _, _ => false
  end.
Definition outcome_eqb (a b : outcome) : bool :=
  match a, b with
  | OOk, OOk | OErr, OErr | OPanic, OPanic | ONil, ONil | OCancelBuild, OCancelBuild => true
  | _, _ => false
  end.
(* the number of errors a DisposalError aggregates depends on who closed a nested scope
   first; only "disposal error or not" is compared *)
Definition eclass_eqb (a b : eclass) : bool :=
  match a, b with
  | ENotFound, ENotFound | EScopeDisposed, EScopeDisposed | EProviderDisposed, EProviderDisposed
  | ECircular, ECircular | ELifetime, ELifetime | EAlready, EAlready | ENilInst, ENilInst
  | EValidation, EValidation | ETypeMismatch, ETypeMismatch | ESingletonNotInit, ESingletonNotInit
  | EKeyNil, EKeyNil | ETypeNil, ETypeNil | EOther, EOther | EPanicked, EPanicked | ECancelled, ECancelled => true
  | ECtorErr x, ECtorErr y => x =? y
  | ECtorPanic x, ECtorPanic y => x =? y
  | EDisposal _, EDisposal _ => true
  | _, _ => false
  end.
Definition descinfo_eqb (a b : ty * key * grp * lifetime) : bool :=
  let '(t1, k1, g1, l1) := a in let '(t2, k2, g2, l2) := b in
  (t1 =? t2) && key_eqb k1 k2 && (g1 =? g2) && life_eqb l1 l2.
Definition result_eqb (a b : result) : bool :=
  match a, b with
  | RUnit, RUnit => true
  | RVal x, RVal y => aval_eqb x y
  | RScope h, RScope k => h =? k
  | RBool x, RBool y => Bool.eqb x y
  | RCount x, RCount y => x =? y
  | RDescs l, RDescs m => list_eqb descinfo_eqb l m
  | RStats t l, RStats t' l' => (t =? t') && list_eqb (fun '(a, b, c) '(a', b', c') => (a =? a') && (b =? b') && (c =? c')) l l'
  | RErr c ms, RErr d ns => eclass_eqb c d && list_eqb Nat.eqb ms ns
  | _, _ => false
  end.
Definition event_eqb (a b : event) : bool :=
  match a, b with
  | EvCtor r i args o, EvCtor r' i' args' o' =>
      (r =? r') && (i =? i') && list_eqb aval_eqb args args' && outcome_eqb o o'
  | EvClosed i ok own, EvClosed i' ok' own' => inst_eqb i i' && Bool.eqb ok ok' && (own =? own')
  | EvCycle p, EvCycle q => list_eqb ident_eqb p q
  | EvCancel, EvCancel => true
  | _, _ => false
  end.

(* ---------------------------------------------------------------- canonical form
   within one operation constructor events come first and Close calls follow; Close calls of
   different owners may interleave in any order (sibling scopes, watcher goroutines), so the
   canonical form lists them owner by owner, keeping each owner's own order *)
Definition is_ctor (e : event) : bool := match e with EvCtor _ _ _ _ => true | _ => false end.
Definition is_closed (e : event) : bool := match e with EvClosed _ _ _ => true | _ => false end.
Definition ev_owner (e : event) : nat := match e with EvClosed _ _ o => o | _ => 0 end.
Fixpoint insert_by_owner (e : event) (l : list event) : list event :=
  match l with
  | [] => [e]
  | x :: l' => if ev_owner e <? ev_owner x then e :: l else x :: insert_by_owner e l'
  end.
Definition sort_by_owner (l : list event) : list event := fold_left (fun acc e => insert_by_owner e acc) l [].
Definition canon_events (evs : list event) : list event :=
  filter is_ctor evs ++ sort_by_owner (filter is_closed evs).   (* EvCycle is an annotation: dropped *)
Definition step_eqb (a b : list event * result) : bool :=
  list_eqb event_eqb (canon_events (fst a)) (canon_events (fst b)) && result_eqb (snd a) (snd b).

(* ---------------------------------------------------------------- observation-guided run
   the singleton that a failing Build was about to construct when an argument failed is not
   observable; the model is run with every candidate appended to the oracle and the first one
   that reproduces the observation is taken (an existential acceptor) *)
Definition singleton_rids (c : coll) : list nat :=
  nodup_nat (map ds_rid (filter (fun d => life_eqb (ds_life d) Singleton) c)).
Definition build_candidates (w : world) (o : op) (ob : list event * result) : list op :=
  match o, snd ob with
  | OBuild ord, RErr _ _ => o :: map (fun x => OBuild (ord ++ [x])) (singleton_rids (w_coll w))
  | _, _ => [o]
  end.
Definition step_obs (w : world) (o : op) (ob : list event * result) : world * (list event * result) :=
  let try := fun o' => let '(w1, evs, r) := step w o' in (w1, (evs, r)) in
  match find (fun o' => step_eqb (snd (try o')) ob) (build_candidates w o ob) with
  | Some o' => try o'
  | None => try o
  end.
Fixpoint run_guided (w : world) (ops : list op) (obs : trace) : trace :=
  match ops, obs with
  | [], _ => []
  | o :: ops', [] => let '(w1, evs, r) := step w o in (evs, r) :: run_guided w1 ops' []
  | o :: ops', ob :: obs' => let '(w1, m) := step_obs w o ob in m :: run_guided w1 ops' obs'
  end.

(* index (from 1) of the first operation on which model and observation differ; 0 = none *)
Fixpoint first_diff (n : nat) (m obs : trace) : nat :=
  match m, obs with
  | [], [] => 0
  | a :: m', b :: obs' => if step_eqb a b then first_diff (S n) m' obs' else n
  | _, _ => n
  end.
Definition corr (ops : list op) (obs : trace) : nat := first_diff 1 (run_guided init_world ops obs) obs.

(* ---------------------------------------------------------------- C20: module twins *)
Fixpoint flatten_module (m : module) : list op :=
  match m with
  | MNil => []
  | MAdd r => [OAdd r]
  | MRemove t => [ORemove t]
  | MRemoveKeyed t n => [ORemoveKeyed t n]
  | MModule _ ms => flat_map flatten_module ms
  end.
Definition flatten_modules (ms : list module) : list op := flat_map flatten_module ms.

(* names of the modules enclosing the k-th flattened entry, outermost first (independent of apply_module) *)
Fixpoint path_in (m : module) (k : nat) : list nat :=
  match m with
  | MModule name ms =>
      name :: (fix go (ms : list module) (k : nat) : list nat :=
                 match ms with
                 | [] => []
                 | m' :: rest =>
                     let n := length (flatten_module m') in
                     if k <? n then path_in m' k else go rest (k - n)
                 end) ms k
  | _ => []
  end.
Fixpoint path_to (ms : list module) (k : nat) : list nat :=
  match ms with
  | [] => []
  | m :: rest =>
      let n := length (flatten_module m) in
      if k <? n then path_in m k else path_to rest (k - n)
  end.

Definition op_same (a b : op) : bool :=
  match a, b with
  | OAdd r, OAdd r' => r_id r =? r_id r'
  | ORemove t, ORemove t' => t =? t'
  | ORemoveKeyed t n, ORemoveKeyed t' n' => (t =? t') && (n =? n')
  | _, _ => false
  end.
(* ---------------------------------------------------------------- object-graph shapes
   two runs of equivalent configurations may construct independent services in a different
   order, so instances carry different invocation numbers; what must coincide is the shape of
   the object graph: who was built from what.  The shape of an instance is the registration and
   output that produced it together with the shapes of the arguments of that construction. *)
Definition find_ctor (hist : list event) (rid inv : nat) : option (list aval) :=
  match find (fun e => match e with EvCtor r i _ _ => (r =? rid) && (i =? inv) | _ => false end) hist with
  | Some (EvCtor _ _ args _) => Some args
  | _ => None
  end.
Fixpoint inst_shape (fuel : nat) (hist : list event) (i : inst) : list nat :=
  match fuel with
  | 0 => [0]
  | S f =>
      match i with
      | IVoid => [1]
      | IObj rid inv out dyn =>
          match find_ctor hist rid inv with
          | Some args =>
              2 :: rid :: out :: dyn ::
                flat_map (fun a => match a with
                                   | AInst j => inst_shape f hist j
                                   | AList l => 5 :: flat_map (inst_shape f hist) l ++ [6]
                                   | AScope h => [7; h]
                                   | ACtx h => [8; h]
                                   | AProv => [9]
                                   | AZero => [10]
                                   end) args ++ [3]
          | None => [4; rid; out; dyn]
          end
      end
  end.
Definition shape_fuel : nat := 40.
Definition aval_shape (hist : list event) (a : aval) : list nat :=
  match a with
  | AInst j => inst_shape shape_fuel hist j
  | AList l => 5 :: flat_map (inst_shape shape_fuel hist) l ++ [6]
  | AScope h => [7; h]
  | ACtx h => [8; h]
  | AProv => [9]
  | AZero => [10]
  end.
Definition outcome_code (o : outcome) : nat := match o with OOk => 0 | OErr => 1 | OPanic => 2 | ONil => 3 | OCancelBuild => 4 end.
Definition event_shape (hist : list event) (e : event) : list nat :=
  match e with
  | EvCtor rid _ args o => 11 :: rid :: outcome_code o :: flat_map (aval_shape hist) args
  | EvClosed i ok own => 12 :: (if ok then 1 else 0) :: own :: inst_shape shape_fuel hist i
  | EvCycle _ => [13]
  | EvCancel => [14]
  end.
Definition shape_eqb := list_eqb Nat.eqb.
Definition count_shape (x : list nat) (l : list (list nat)) : nat := length (filter (shape_eqb x) l).
Definition same_shapes (a b : list (list nat)) : bool :=
  (length a =? length b) && forallb (fun x => count_shape x a =? count_shape x b) a.
Definition result_shape_eqb (h1 h2 : list event) (a b : result) : bool :=
  match a, b with
  | RVal x, RVal y => shape_eqb (aval_shape h1 x) (aval_shape h2 y)
  | _, _ => result_eqb a b
  end.
(* two traces are equivalent when, step by step, the results have the same shape and the events
   have the same shapes up to order *)
Fixpoint traces_equiv (h1 h2 : list event) (t1 t2 : trace) : bool :=
  match t1, t2 with
  | [], [] => true
  | (e1, r1) :: t1', (e2, r2) :: t2' =>
      let h1' := h1 ++ e1 in let h2' := h2 ++ e2 in
      same_shapes (map (event_shape h1') (filter (fun e => negb (match e with EvCycle _ | EvCancel => true | _ => false end)) e1))
                  (map (event_shape h2') (filter (fun e => negb (match e with EvCycle _ | EvCancel => true | _ => false end)) e2))
      && result_shape_eqb h1' h2' r1 r2 && traces_equiv h1' h2' t1' t2'
  | _, _ => false
  end.

Definition is_unit (s : list event * result) : bool := match snd s with RUnit => true | _ => false end.
Definition twin_ok (ops_mod : list op) (obs_mod : trace) (ops_flat : list op) (obs_flat : trace) : bool :=
  match ops_mod, obs_mod with
  | OModules ms :: tail_ops, (_, r0) :: tail_mod =>
      let nflat := length ops_flat - length tail_ops in
      let flats := firstn nflat obs_flat in
      let tail_flat := skipn nflat obs_flat in
      let all := flatten_modules ms in
      list_eqb op_same (firstn nflat ops_flat) (firstn nflat all) &&
      traces_equiv [] [] tail_mod tail_flat &&
      match r0 with
      | RUnit => (nflat =? length all) && forallb is_unit flats
      | RErr c names =>
          match rev flats with
          | (_, RErr c' []) :: before =>
              eclass_eqb c c' && forallb is_unit before && list_eqb Nat.eqb names (path_to ms (nflat - 1))
          | _ => false
          end
      | _ => false
      end
  | _, _ => false
  end.

