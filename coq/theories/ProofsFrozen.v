(* ProofsFrozen.v — C14 over histories: a scope that has been closed is never written again.  Whatever happens
   afterwards - resolutions anywhere, new scopes and their initializers, closes of other scopes or of the
   provider, cancellations, further Builds - the closed scope's record (cache, disposal list, flags) stays exactly
   what Close left: empty (C14_closed_scope_holds_nothing). *)
From Godi Require Import Base Model ProofsRuntime ProofsClosed ProofsGen ProofsFrame.

Definition frozen_at (s : scope_st) (p : prov) (k : nat) : Prop := get_scope p k = s /\ sc_open s = false.

Lemma frozen_closed s p k : frozen_at s p k -> closed_at p k.
Proof. intros [E H]. unfold closed_at. rewrite E. exact H. Qed.

Lemma frozen_upd_scope s p h f k : h <> k -> frozen_at s p k -> frozen_at s (upd_scope p h f) k.
Proof. intros Hne [E H]. split; [rewrite get_scope_upd_scope_other by exact Hne; exact E|exact H]. Qed.

Lemma close_scope_frozen s : forall fuel ord p h k, frozen_at s p k -> frozen_at s (fst (fst (close_scope fuel ord p h))) k.
Proof.
  induction fuel as [|f IH]; intros ord p h k Hf; cbn [close_scope]; [exact Hf|].
  destruct (negb (sc_open (get_scope p h))) eqn:Ho; [exact Hf|].
  assert (Hne : h <> k).
  { intros ->. destruct Hf as [E H]. rewrite E, H in Ho. discriminate. }
  set (p0 := upd_scope p h _).
  assert (Hf0 : frozen_at s p0 k) by (unfold p0; apply frozen_upd_scope; assumption).
  assert (Hfold : forall ks acc, frozen_at s (fst (fst acc)) k ->
            frozen_at s (fst (fst (fold_left (fun '(pa, ea, na) k0 =>
                     let '(pb, eb, nb) := close_scope f ord pa k0 in (pb, ea ++ eb, if nb =? 0 then na else S na)) ks acc))) k).
  { induction ks as [|k0 ks IHk]; intros [[pa ea] na] Hacc; cbn [fold_left]; [exact Hacc|].
    apply IHk. pose proof (IH ord pa k0 k Hacc) as Hk. destruct (close_scope f ord pa k0) as [[pb eb] nb]. exact Hk. }
  specialize (Hfold (nodup_nat (order_by ord (open_children p0 h))) (p0, [], 0) Hf0).
  destruct (fold_left _ _ (p0, [], 0)) as [[p1 evs1] n1]. cbn [fst] in Hfold.
  destruct (close_insts (p_descs p1) h (sc_disp (get_scope p1 h))) as [evs2 n2]. cbn [fst].
  apply frozen_upd_scope; assumption.
Qed.

Lemma close_provider_frozen s ord p k : frozen_at s p k -> frozen_at s (fst (fst (close_provider ord p))) k.
Proof.
  intros Hf. unfold close_provider. destruct (negb (p_open p)); [exact Hf|].
  set (p0 := mkProv _ _ _ _ false).
  assert (Hf0 : frozen_at s p0 k) by exact Hf.
  assert (Hfold : forall ks acc, frozen_at s (fst (fst acc)) k ->
            frozen_at s (fst (fst (fold_left (fun '(pa, ea, na) k0 =>
                 let '(pb, eb, nb) := close_scope (scope_fuel pa) ord pa k0 in (pb, ea ++ eb, if nb =? 0 then na else S na)) ks acc))) k).
  { induction ks as [|k0 ks IHk]; intros [[pa ea] na] Hacc; cbn [fold_left]; [exact Hacc|].
    apply IHk. pose proof (close_scope_frozen s (scope_fuel pa) ord pa k0 k Hacc) as Hk.
    destruct (close_scope (scope_fuel pa) ord pa k0) as [[pb eb] nb]. exact Hk. }
  specialize (Hfold (nodup_nat (order_by ord (open_scopes p0))) (p0, [], 0) Hf0).
  destruct (fold_left _ _ (p0, [], 0)) as [[p1 evs1] n1]. cbn [fst] in Hfold.
  pose proof (close_scope_frozen s (scope_fuel p1) ord p1 0 k Hfold) as H2.
  destruct (close_scope (scope_fuel p1) ord p1 0) as [[p2 evs2] n2]. cbn [fst] in H2.
  destruct (close_insts (p_descs p2) OWNER_PROV (p_sdisp p2)) as [evs3 n3]. cbn [fst]. exact H2.
Qed.

Lemma cancel_prov_frozen s c ord p k : frozen_at s p k -> frozen_at s (fst (cancel_prov c ord p)) k.
Proof.
  intros Hf. unfold cancel_prov.
  assert (H : forall ks acc, frozen_at s (fst (fst acc)) k -> frozen_at s (fst (fst (fold_left (fun '(pa, ea, na) k0 =>
               let '(pb, eb, nb) := close_scope (scope_fuel pa) ord pa k0 in (pb, ea ++ eb, na + nb)) ks acc))) k).
  { induction ks as [|k0 ks' IH]; intros [[pa ea] na] Hacc; cbn [fold_left]; [exact Hacc|].
    apply IH. pose proof (close_scope_frozen s (scope_fuel pa) ord pa k0 k Hacc) as Hk.
    destruct (close_scope (scope_fuel pa) ord pa k0) as [[pb eb] nb]. exact Hk. }
  match goal with |- context [fold_left ?f ?ks (p, [], 0)] => specialize (H ks (p, [], 0) Hf); destruct (fold_left f ks (p, [], 0)) as [[p' evs] n] end.
  exact H.
Qed.

(* initializers of a new scope h write scope h only *)
Lemma run_inits_leaves_other_scopes ds : Forall (fun d => is_initializer d = true) ds ->
  forall rs h k, h <> k -> get_scope (rs_p (fst (run_inits rs h ds))) k = get_scope (rs_p rs) k.
Proof.
  induction ds as [|d ds IH]; intros Hf rs h k Hne; cbn [run_inits]; [reflexivity|].
  inversion Hf as [|x l Hd Hrest]; subst.
  destruct (lookup_i (sc_cache (get_scope (rs_p rs) h)) (ds_ident d)); [apply IH; assumption|].
  assert (Hl : ds_life d <> Singleton).
  { unfold is_initializer in Hd. apply andb_prop in Hd. destruct Hd as [Hd _]. destruct (ds_life d); cbn in Hd; congruence. }
  assert (H1 : get_scope (rs_p (fst (create_top rs h d))) k = get_scope (rs_p rs) k).
  { unfold create_top.
    apply (g_create h (fun r => get_scope (rs_p r) k = get_scope (rs_p rs) k)); try reflexivity; try exact Hl.
    - intros r n i H. cbn [rs_p with_p]. rewrite get_scope_cache_set_other by exact Hne. exact H.
    - intros r i H. cbn [rs_p with_p]. rewrite get_scope_track_scope_other by exact Hne. exact H.
    - intros r rid args o H. exact H.
    - intros r H. exact H.
    - intros r d0 H. apply (gen_resolve h (fun r => get_scope (rs_p r) k = get_scope (rs_p rs) k)); try exact H.
      + intros r0 n i H0. cbn [rs_p with_p]. rewrite get_scope_cache_set_other by exact Hne. exact H0.
      + intros r0 i H0. cbn [rs_p with_p]. rewrite get_scope_track_scope_other by exact Hne. exact H0.
      + intros r0 rid args o H0. exact H0.
      + intros r0 H0. exact H0. }
  destruct (create_top rs h d) as [rs1 [a|e|]]; cbn [fst] in *; try exact H1.
  rewrite IH by assumption. exact H1.
Qed.

Definition frozen_in (s : scope_st) (w : world) (pi k : nat) : Prop :=
  pi < length (w_provs w) /\ k < length (p_scopes (get_prov w pi)) /\ frozen_at s (get_prov w pi) k.

Lemma frozen_in_same_provs s w w' pi k : w_provs w' = w_provs w -> frozen_in s w pi k -> frozen_in s w' pi k.
Proof. intros E H. unfold frozen_in, get_prov in *. rewrite E. exact H. Qed.

Lemma frozen_in_set s w i p invs pi k :
  (i = pi -> length (p_scopes (get_prov w pi)) <= length (p_scopes p) /\ frozen_at s p k) ->
  frozen_in s w pi k ->
  frozen_in s (mkWorld (w_coll w) (w_void w) (upd_nth (w_provs w) i (fun _ => p)) invs (w_cancelled w)) pi k.
Proof.
  intros Hp (H1 & H2 & H3). unfold frozen_in. cbn [w_provs]. rewrite upd_nth_length. split; [exact H1|].
  destruct (Nat.lt_ge_cases i (length (w_provs w))) as [Hi|Hi].
  - assert (E : get_prov (mkWorld (w_coll w) (w_void w) (upd_nth (w_provs w) i (fun _ => p)) invs (w_cancelled w)) pi =
                if i =? pi then p else get_prov w pi).
    { unfold get_prov; cbn [w_provs]. destruct (i =? pi) eqn:E.
      - apply Nat.eqb_eq in E. subst. rewrite nth_upd_nth_same by exact Hi. reflexivity.
      - apply Nat.eqb_neq in E. apply nth_upd_nth_other. exact E. }
    rewrite E. destruct (i =? pi) eqn:Ei.
    + apply Nat.eqb_eq in Ei. destruct (Hp Ei) as [Hl Hf]. split; [lia|exact Hf].
    + split; assumption.
  - unfold get_prov in *; cbn [w_provs]. rewrite nth_upd_nth_oob by exact Hi. split; assumption.
Qed.

Theorem step_keeps_frozen s w o pi k : k <> 0 -> frozen_in s w pi k -> frozen_in s (fst (fst (step w o))) pi k.
Proof.
  intros Hk0 Hc. pose proof Hc as (Hpi & Hk & Hfz). destruct o; cbn [step].
  - destruct (add_service _ _ _) as [[c' v'] e]. apply (frozen_in_same_provs s w); [reflexivity|exact Hc].
  - apply (frozen_in_same_provs s w); [reflexivity|exact Hc].
  - apply (frozen_in_same_provs s w); [reflexivity|exact Hc].
  - destruct (apply_modules _ _) as [[c' v'] e]. apply (frozen_in_same_provs s w); [reflexivity|exact Hc].
  - exact Hc.
  - exact Hc.
  - exact Hc.
  - exact Hc.
  - destruct (build (w_coll w) (w_invs w) ord) as [[invs evs] [p|e]]; cbn [fst].
    + unfold frozen_in, get_prov in *; cbn [w_provs]. rewrite app_length. rewrite app_nth1 by exact Hpi. repeat split; [lia|exact Hk|apply Hfz|apply Hfz].
    + apply (frozen_in_same_provs s w); [reflexivity|exact Hc].
  - (* CreateScope *)
    unfold create_scope.
    destruct (negb (handle_ok (get_prov w p) parent)); [exact Hc|].
    destruct ((parent =? 0) && negb (p_open (get_prov w p))); [exact Hc|].
    destruct (negb (parent =? 0) && negb (sc_open (get_scope (get_prov w p) parent))); [exact Hc|].
    set (hn := length (p_scopes (get_prov w p))).
    set (p1 := mkProv _ (p_scopes (get_prov w p) ++ _) _ _ _).
    match goal with |- context [run_inits ?a ?b ?c] =>
      pose proof (run_inits_shape c a b) as Hsh;
      assert (Hfr : p = pi -> get_scope (rs_p (fst (run_inits a b c))) k = get_scope p1 k)
    end.
    { intros ->. apply run_inits_leaves_other_scopes; [apply Forall_forall; intros x Hx; apply filter_In in Hx; exact (proj2 Hx)|].
      unfold hn. lia. }
    match goal with |- context [run_inits ?a ?b ?c] => destruct (run_inits a b c) as [rs [r|]] end; cbn [fst rs_p] in *.
    + pose proof (close_scope_len (scope_fuel (rs_p rs)) [] (rs_p rs) hn) as Hl.
      pose proof (close_scope_frozen s (scope_fuel (rs_p rs)) [] (rs_p rs) hn k) as Hm.
      destruct (close_scope _ _ _ _) as [[p2 evs2] n2]. cbn [fst] in *.
      apply frozen_in_set; [|exact Hc]. intros ->. cbn [p_scopes]. rewrite firstn_length, Hl, (shape_len _ _ Hsh). unfold p1; cbn [p_scopes]. rewrite app_length. cbn [length].
      split; [fold hn; lia|].
      assert (Hfz1 : frozen_at s (rs_p rs) k).
      { destruct Hfz as [E H]. split; [|exact H]. rewrite (Hfr eq_refl). unfold p1, get_scope; cbn [p_scopes]. rewrite app_nth1 by exact Hk. exact E. }
      specialize (Hm Hfz1). destruct Hm as [E H]. split; [|exact H].
      unfold get_scope; cbn [p_scopes]. rewrite <- E. unfold get_scope.
      rewrite <- (firstn_skipn hn (p_scopes p2)) at 2. rewrite app_nth1; [reflexivity|]. rewrite firstn_length, Hl, (shape_len _ _ Hsh). unfold p1; cbn [p_scopes]. rewrite app_length. cbn [length]. fold hn. lia.
    + apply frozen_in_set; [|exact Hc]. intros ->. rewrite (shape_len _ _ Hsh). unfold p1; cbn [p_scopes]. rewrite app_length. cbn [length]. split; [fold hn; lia|].
      destruct Hfz as [E H]. split; [|exact H]. rewrite (Hfr eq_refl). unfold p1, get_scope; cbn [p_scopes]. rewrite app_nth1 by exact Hk. exact E.
  - (* Resolve *)
    destruct (t =? T_NIL); [destruct (disposed_check _ _); exact Hc|].
    unfold do_resolve. destruct (negb (handle_ok (get_prov w p) h)); [exact Hc|].
    destruct (disposed_check (get_prov w p) h) eqn:Hd; [exact Hc|].
    pose proof (resolve_req_shape (mkRs (w_invs w) (get_prov w p) []) h t (name_key n)) as Hsh.
    pose proof (request_leaves_other_scopes (mkRs (w_invs w) (get_prov w p) []) h t (name_key n) k) as Hfr.
    destruct (resolve_req _ _ _ _) as [rs r]. cbn [fst rs_p] in *.
    apply frozen_in_set; [|exact Hc]. intros ->. rewrite (shape_len _ _ Hsh). split; [lia|].
    destruct Hfz as [E H]. split; [|exact H]. rewrite Hfr; [exact E|].
    intros ->. unfold disposed_check in Hd. destruct (k =? 0) eqn:Ek; [apply Nat.eqb_eq in Ek; contradiction|]. rewrite E, H in Hd. discriminate.
  - destruct (t =? T_NIL); [destruct (disposed_check _ _); exact Hc|].
    destruct (g =? 0); [destruct (disposed_check _ _); exact Hc|].
    unfold do_resolve. destruct (negb (handle_ok (get_prov w p) h)); [exact Hc|].
    destruct (disposed_check (get_prov w p) h) eqn:Hd; [exact Hc|].
    pose proof (resolve_group_shape (mkRs (w_invs w) (get_prov w p) []) h t g) as Hsh.
    pose proof (group_request_leaves_other_scopes (mkRs (w_invs w) (get_prov w p) []) h t g k) as Hfr.
    destruct (resolve_group _ _ _ _) as [rs r]. cbn [fst rs_p] in *.
    apply frozen_in_set; [|exact Hc]. intros ->. rewrite (shape_len _ _ Hsh). split; [lia|].
    destruct Hfz as [E H]. split; [|exact H]. rewrite Hfr; [exact E|].
    intros ->. unfold disposed_check in Hd. destruct (k =? 0) eqn:Ek; [apply Nat.eqb_eq in Ek; contradiction|]. rewrite E, H in Hd. discriminate.
  - (* Close *)
    destruct (negb (handle_ok (get_prov w p) h) || (h =? 0)); [exact Hc|].
    pose proof (close_scope_len (scope_fuel (get_prov w p)) ord (get_prov w p) h) as Hl.
    pose proof (close_scope_frozen s (scope_fuel (get_prov w p)) ord (get_prov w p) h k) as Hm.
    destruct (close_scope _ _ _ _) as [[pv' evs] n]. cbn [fst] in *. unfold set_prov.
    apply frozen_in_set; [|exact Hc]. intros ->. split; [lia|apply Hm; exact Hfz].
  - (* CloseProvider *)
    pose proof (close_provider_len ord (get_prov w p)) as Hl.
    pose proof (close_provider_frozen s ord (get_prov w p) k) as Hm.
    destruct (close_provider ord (get_prov w p)) as [[pv' evs] n]. cbn [fst] in *. unfold set_prov.
    apply frozen_in_set; [|exact Hc]. intros ->. split; [lia|apply Hm; exact Hfz].
  - (* Cancel *)
    pose proof (cancel_fold_provs c ord (w_provs w) [] []) as Hf.
    destruct (fold_left _ (w_provs w) ([], [])) as [provs evs]. cbn [fst app] in Hf. subst provs. cbn [fst].
    unfold frozen_in, get_prov in *; cbn [w_provs]. rewrite map_length. split; [exact Hpi|].
    rewrite (nth_indep _ closed_prov (fst (cancel_prov c ord closed_prov))) by (rewrite map_length; exact Hpi).
    rewrite (map_nth (fun pv => fst (cancel_prov c ord pv))).
    split; [rewrite cancel_prov_len; exact Hk|apply cancel_prov_frozen; exact Hfz].
  - exact Hc.
  - exact Hc.
  - exact Hc.
  - exact Hc.
Qed.

Theorem closed_scope_is_frozen ops : forall s w pi k, k <> 0 -> frozen_in s w pi k -> frozen_in s (fst (run_from w ops)) pi k.
Proof.
  induction ops as [|o ops IH]; intros s w pi k Hk Hc; cbn [run_from]; [exact Hc|].
  pose proof (step_keeps_frozen s w o pi k Hk Hc) as H1.
  destruct (step w o) as [[w1 evs] r]. cbn [fst] in H1.
  specialize (IH s w1 pi k Hk H1). destruct (run_from w1 ops) as [w2 tr]. exact IH.
Qed.

(* non-vacuity: after Build, CreateScope and Close the closed scope meets the premise (and is empty) *)
Example a_closed_scope_is_frozen :
  let r1 := mkReg 1 Scoped (FCtor false [] [9] false) 0 0 [] [] [9] [false] 0 in
  let w := fst (run_from init_world [OAdd r1; OBuild []; OCreateScope 0 0 0; OResolve 0 1 9 0; OClose 0 1 []]) in
  frozen_in (mkScope 0 0 [] [] false) w 0 1.
Proof. vm_compute. repeat split; lia. Qed.
