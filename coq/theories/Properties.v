(* Properties.v — the property theorems, and nothing else.  Each is closed by [exact] of a lemma
   proved in the Proofs* files and followed by Print Assumptions. *)
From Coq Require Import Permutation.
From Godi Require Import Base GDfs GKahn GKahnComplete GraphSpec Conc Web Model Check ProofsGraph ProofsConc ProofsWeb ProofsRegistry ProofsRuntime ProofsClosed ProofsTerm ProofsWf ProofsSingle ProofsOutputs ProofsFresh ProofsGen ProofsFrame ProofsFrozen ProofsOnce ProofsConserve ProofsOnceWorld ProofsCloses ProofsOrder ProofsStable ProofsCalls ProofsAccepted ProofsCascade ProofsErrIff ProofsBuildOnce ProofsForeign.

(* ---------------------------------------------------------------- C01 *)
Theorem C01_resolving_a_singleton_is_a_table_read : forall fuel rs h d,
  ds_life d = Singleton ->
  resolve_d (S fuel) rs h d =
  (rs, match lookup_i (p_single (rs_p rs)) (ds_ident d) with
       | Some i => ROkV (aval_of i)
       | None => RFail ESingletonNotInit
       end).
Proof. exact resolve_singleton_pure. Qed.
Print Assumptions C01_resolving_a_singleton_is_a_table_read.

Theorem C01_same_instance_in_every_scope : forall fuel rs h1 h2 d,
  ds_life d = Singleton -> snd (resolve_d (S fuel) rs h1 d) = snd (resolve_d (S fuel) rs h2 d).
Proof. exact singleton_same_in_every_scope. Qed.
Print Assumptions C01_same_instance_in_every_scope.

(* "the constructor behind each singleton registration has run exactly once (during Build) and never runs again":
   no resolution, in any scope, writes the singleton table or the provider's disposal list ... *)
Theorem C01_resolution_never_constructs_a_singleton : forall fuel rs h d,
  singles (rs_p (fst (resolve_d fuel rs h d))) = singles (rs_p rs).
Proof. exact resolution_leaves_singletons. Qed.
Print Assumptions C01_resolution_never_constructs_a_singleton.

(* ... so the answer for a singleton is the same before and after any other resolution, from any scope ... *)
Theorem C01_singleton_answer_is_stable : forall fuel rs h d fuel' h' d' fuel'' h'',
  ds_life d = Singleton ->
  snd (resolve_d (S fuel'') (fst (resolve_d fuel' rs h' d')) h'' d) = snd (resolve_d (S fuel) rs h d).
Proof. exact singleton_answer_is_stable. Qed.
Print Assumptions C01_singleton_answer_is_stable.

(* ... and over every history of operations - registrations, further Builds, scope creation with its initializers,
   resolutions, scope closes, context cancellations, closes of other providers - a provider's singleton table
   and disposal list stay exactly what its Build made them, until that provider itself is closed *)
Theorem C01_singletons_fixed_over_every_history : forall ops w pi,
  pi < length (w_provs w) -> Forall (fun o => not_own_close o pi) ops -> keeps w (fst (run_from w ops)) pi.
Proof. exact singletons_fixed_over_histories. Qed.
Print Assumptions C01_singletons_fixed_over_every_history.

(* "constructed exactly once per provider, inside Build": Build runs the constructor of a singleton registration at most
   once per registration call - for every order the oracle prescribes, whether Build succeeds or fails at any point,
   whatever the outputs are (all of them nil included) - and no resolution, of anything, in any scope, ever runs one *)
Theorem C01_build_runs_each_singleton_call_at_most_once : forall c, rids_wf c -> NoDup (map ds_ident c) ->
  forall invs ord invs' evs res, build c invs ord = (invs', evs, res) ->
  forall r, singleton_rid c r -> cnt r evs <= length (all_calls c r).
Proof. exact build_runs_each_singleton_call_at_most_once. Qed.
Print Assumptions C01_build_runs_each_singleton_call_at_most_once.

Theorem C01_no_resolution_runs_a_singleton_constructor : forall c, rids_wf c ->
  forall r, singleton_rid c r ->
  forall fuel rs h d, p_descs (rs_p rs) = c -> In d c -> cnt r (rs_ev (fst (resolve_d fuel rs h d))) = cnt r (rs_ev rs).
Proof. exact resolution_never_runs_a_singleton_constructor. Qed.
Print Assumptions C01_no_resolution_runs_a_singleton_constructor.

(* ---------------------------------------------------------------- C02 *)
Theorem C02_cached_scoped_instance_is_returned : forall fuel rs h d i,
  ds_life d = Scoped -> lookup_i (sc_cache (get_scope (rs_p rs) h)) (ds_ident d) = Some i ->
  resolve_d (S fuel) rs h d = (rs, ROkV (aval_of i)).
Proof. exact resolve_scoped_cached. Qed.
Print Assumptions C02_cached_scoped_instance_is_returned.

(* "two different scopes never share a scoped instance": a resolution in scope h - with everything it constructs
   on the way - writes scope h only; every other scope of the provider is left exactly as it was *)
Theorem C02_resolution_writes_its_own_scope_only : forall fuel rs h d k, h <> k ->
  get_scope (rs_p (fst (resolve_d fuel rs h d))) k = get_scope (rs_p rs) k.
Proof. exact resolution_leaves_other_scopes. Qed.
Print Assumptions C02_resolution_writes_its_own_scope_only.

(* "within one scope every resolution of a scoped registration returns one and the same instance" (one goroutine):
   whatever is resolved in a scope - with everything that is constructed on the way - what the scope already
   answered it keeps answering.  No acyclicity is needed: a resolution writes a cache key only when it found it
   absent or when the key belongs to another output / interface of the registration call under construction, and
   the outputs and interfaces of one call are cached together. *)
Theorem C02_cached_answers_are_stable_whatever_is_resolved : forall c fuel rs h d,
  calls_wf c -> p_descs (rs_p rs) = c -> h < length (p_scopes (rs_p rs)) -> together c (rs_p rs) h -> In d c ->
  (forall n i, lookup_i (cache_of (rs_p rs) h) n = Some i -> lookup_i (cache_of (rs_p (fst (resolve_d fuel rs h d))) h) n = Some i) /\
  together c (rs_p (fst (resolve_d fuel rs h d))) h.
Proof. exact cached_answers_are_stable. Qed.
Print Assumptions C02_cached_answers_are_stable_whatever_is_resolved.

Theorem C02_scoped_instance_is_the_same_forever : forall c fuel fuel' rs h d d' i,
  calls_wf c -> p_descs (rs_p rs) = c -> h < length (p_scopes (rs_p rs)) -> together c (rs_p rs) h -> In d c -> In d' c ->
  ds_life d = Scoped -> lookup_i (cache_of (rs_p rs) h) (ds_ident d) = Some i ->
  snd (resolve_d (S fuel') (fst (resolve_d fuel rs h d')) h d) = ROkV (aval_of i).
Proof. exact scoped_instance_is_the_same_forever. Qed.
Print Assumptions C02_scoped_instance_is_the_same_forever.

(* the premise [calls_wf] is an invariant of the registry: it holds after every history of registrations (no As on an
   initializer), removals and modules; a scope that has answered nothing yet has its
   calls "together" *)
Theorem C02_registries_built_by_histories_have_wellformed_calls : forall ops,
  Forall op_calls_ok ops -> calls_wf (w_coll (fst (run_from init_world ops))).
Proof. exact calls_wf_after_every_history. Qed.
Print Assumptions C02_registries_built_by_histories_have_wellformed_calls.

Theorem C02_a_fresh_scope_has_its_calls_together : forall c p h, cache_of p h = [] -> together c p h.
Proof. exact together_empty. Qed.
Print Assumptions C02_a_fresh_scope_has_its_calls_together.

(* under concurrency the statement is FALSE of the code as it is (finding F13, kept as a known finding): two
   goroutines that resolve one scoped service in one scope can both construct it.  Decided by computation on
   the interleaving model; the same schedule is replayed on the implementation by the C02 check. *)
Theorem C02_concurrent_uniqueness_refuted :
  exists sched, let s := Conc.run (Conc.init [0; 0]) sched in
    Conc.get (c_results s) 0 = Some (CRInst 0) /\ Conc.get (c_results s) 1 = Some (CRInst 1) /\
    thread_done s 0 = true /\ thread_done s 1 = true.
Proof. exact scoped_unique_concurrent_refuted. Qed.
Print Assumptions C02_concurrent_uniqueness_refuted.

(* ---------------------------------------------------------------- C03 *)
Theorem C03_transient_constructed_at_every_request : forall fuel rs h d,
  ds_life d = Transient -> resolve_d (S fuel) rs h d = create (resolve_d fuel) rs h d.
Proof. exact resolve_transient_constructs. Qed.
Print Assumptions C03_transient_constructed_at_every_request.

(* "every request constructs a new instance": every construction takes the next invocation number of its
   registration, numbers never go down, so what a transient request hands out was made by an invocation that had
   not happened before the request and has happened after it *)
Theorem C03_invocation_numbers_never_go_down : forall fuel rs h d,
  inv_le (rs_invs rs) (rs_invs (fst (resolve_d fuel rs h d))).
Proof. exact invocations_monotone. Qed.
Print Assumptions C03_invocation_numbers_never_go_down.

Theorem C03_transient_request_constructs_a_new_instance : forall fuel rs h d rs' i,
  ds_life d = Transient ->
  (forall t, r_form (ds_reg d) <> FInst t) ->
  resolve_d (S fuel) rs h d = (rs', ROkV (AInst i)) ->
  i = IVoid \/
  exists inv k dyn, i = IObj (ds_rid d) inv k dyn /\
    get_inv (rs_invs rs) (ds_rid d) <= inv < get_inv (rs_invs rs') (ds_rid d).
Proof. exact transient_request_constructs_a_new_instance. Qed.
Print Assumptions C03_transient_request_constructs_a_new_instance.

(* ---------------------------------------------------------------- C04 *)
Theorem C04_lookup_is_exact : forall c t k d,
  find_service c t k = Some d -> In d c /\ in_services d = true /\ ds_ty d = t /\ ds_key d = k.
Proof. exact find_service_some. Qed.
Print Assumptions C04_lookup_is_exact.

(* "resolvable under exactly those identities and no others": the outputs of a multi-output constructor are
   stored under the descriptors that the same registration call created for them, and an identity that none of
   those descriptors carries - for instance one that was removed from the registration and taken by another
   constructor - keeps its answers, in the singleton table and in every scope *)
Theorem C04_outputs_go_to_their_own_descriptors : forall c d k sd,
  output_desc c d k = Some sd -> In sd c /\ ds_rid sd = ds_rid d /\ ds_call sd = ds_call d /\ ds_out sd = k.
Proof. exact fan_out_targets_are_the_registrations_own. Qed.
Print Assumptions C04_outputs_go_to_their_own_descriptors.

Theorem C04_outputs_written_under_no_other_identity : forall ks p h d inv h' n,
  (forall sd, In sd (p_descs p) -> same_call sd d -> ds_ident sd <> n) ->
  answers (fan_out p h d inv ks) h' n = answers p h' n.
Proof. exact fan_out_writes_only_its_own_identities. Qed.
Print Assumptions C04_outputs_written_under_no_other_identity.

(* ---------------------------------------------------------------- C05 *)
Theorem C05_reported_cycle_is_real : forall g nodes starts n,
  detect g nodes starts = Some n -> on_cycle g n.
Proof. exact detect_sound. Qed.
Print Assumptions C05_reported_cycle_is_real.

Theorem C05_cycle_verdict_exact : forall g nodes,
  (forall u v, In u nodes -> In v (g u) -> In v nodes) ->
  forall starts, (forall u, In u starts <-> In u nodes) ->
  (detect g nodes starts = None <-> forall u, In u nodes -> ~ on_cycle g u).
Proof. exact detect_exact. Qed.
Print Assumptions C05_cycle_verdict_exact.

Theorem C05_build_rejects_cycles : forall c invs ord,
  has_cycle c = true -> build c invs ord = (invs, [], inr ECircular).
Proof. exact build_rejects_cycle. Qed.
Print Assumptions C05_build_rejects_cycles.

(* "consequently every resolution on a successfully built provider terminates": on a well-formed registration
   set whose dependency graph (groups expanded) passed the cycle check, the fuelled resolution never reports
   exhaustion once the fuel exceeds a bound that depends on the set only - for every state, scope and request *)
Theorem C05_acyclic_sets_resolve_in_bounded_depth : forall c, wf_coll c -> has_cycle c = false ->
  exists N, forall fuel rs h d, N <= fuel -> p_descs (rs_p rs) = c -> In d c -> snd (resolve_d fuel rs h d) <> RFuel.
Proof. exact acyclic_collection_terminates. Qed.
Print Assumptions C05_acyclic_sets_resolve_in_bounded_depth.

Theorem C05_a_decreasing_rank_bounds_the_recursion : forall c (rank : desc -> nat),
  (forall d d', In d c -> callee c d d' -> rank d' < rank d) ->
  forall fuel rs h d, p_descs (rs_p rs) = c -> In d c -> rank d < fuel -> snd (resolve_d fuel rs h d) <> RFuel.
Proof. exact resolve_never_out_of_fuel. Qed.
Print Assumptions C05_a_decreasing_rank_bounds_the_recursion.

(* the well-formedness premise above is an invariant of the registry: it holds after EVERY history of calls *)
Theorem C05_registry_well_formed_after_every_history : forall ops,
  wf_coll (w_coll (fst (run_from init_world ops))).
Proof. exact wf_after_every_history. Qed.
Print Assumptions C05_registry_well_formed_after_every_history.

Theorem C05_accepted_histories_resolve_in_bounded_depth : forall ops,
  let c := w_coll (fst (run_from init_world ops)) in
  has_cycle c = false ->
  exists N, forall fuel rs h d, N <= fuel -> p_descs (rs_p rs) = c -> In d c -> snd (resolve_d fuel rs h d) <> RFuel.
Proof. exact accepted_histories_resolve_in_bounded_depth. Qed.
Print Assumptions C05_accepted_histories_resolve_in_bounded_depth.

Theorem C05_reference_verdict_exact_on_every_history : forall ops,
  acyclic (grun ops) = true <-> forall u, In u (dg_nodes (grun ops)) -> ~ on_cycle (GraphSpec.succ (grun ops)) u.
Proof. exact acyclic_exact_on_histories. Qed.
Print Assumptions C05_reference_verdict_exact_on_every_history.

(* ---------------------------------------------------------------- C06 *)
(* Kahn's algorithm as coded (counters, FIFO queue, Dependents in any order, initial queue in any
   order): whenever it emits as many nodes as there are, the result lists every node exactly once
   with all dependencies of a node before it *)
Theorem C06_topological_sort_sound : forall (nodes : list nat) (deps dependents : nat -> list nat),
  (forall c d, In c nodes -> In d (dependents c) -> In d nodes) ->
  (forall c d, In c nodes -> In d nodes -> occ (dependents c) d = occ (deps d) c) ->
  forall (fuel : nat) (q0 : list nat),
  NoDup q0 -> (forall x, In x q0 -> In x nodes /\ deps x = nil) ->
  let r := loop dependents fuel (cnt0 deps) q0 nil in
  length r = length nodes -> NoDup nodes -> Permutation r nodes /\ ordered deps r.
Proof. exact kahn_sound. Qed.
Print Assumptions C06_topological_sort_sound.

(* and on an acyclic graph it cannot get stuck before every node is emitted *)
Theorem C06_acyclic_graphs_are_sorted_completely : forall (nodes : list nat) (deps : nat -> list nat),
  (forall n d, In n nodes -> In d (deps n) -> In d nodes) ->
  forall L res, topo_closed deps L -> (forall n, In n nodes -> In n L) ->
  (forall n, In n nodes -> unmet deps n res = 0 -> In n res) ->
  forall n, In n nodes -> In n res.
Proof. exact not_stuck. Qed.
Print Assumptions C06_acyclic_graphs_are_sorted_completely.
Theorem C06_acyclic_graphs_have_a_certificate : forall (nodes : list nat) (g : nat -> list nat),
  (forall u v, In u nodes -> In v (g u) -> In v nodes) ->
  (forall u, In u nodes -> ~ on_cycle g u) ->
  exists L, topo_closed g L /\ (forall u, In u nodes -> In u L).
Proof. exact acyclic_certificate. Qed.
Print Assumptions C06_acyclic_graphs_have_a_certificate.

Theorem C06_accepted_order_is_topological : forall g l, valid_topo g l = true ->
  NoDup l /\ (forall u, In u l <-> In u (dg_nodes g)) /\
  forall u d, In u (dg_nodes g) -> In d (GraphSpec.succ g u) -> index_nat d l < index_nat u l.
Proof. exact valid_topo_sound. Qed.
Print Assumptions C06_accepted_order_is_topological.

(* ---------------------------------------------------------------- C07 *)
Theorem C07_build_rejects_captive_dependencies : forall c invs ord,
  has_cycle c = false -> lifetime_conflict c = true -> build c invs ord = (invs, [], inr ELifetime).
Proof. exact build_rejects_captive. Qed.
Print Assumptions C07_build_rejects_captive_dependencies.

(* "If Build succeeds, no singleton and no transient can ever be constructed with an instance of a scoped
   registration": on a registry that passed the lifetime validation, every resolution - of anything, in any scope,
   from any state whose singleton table holds no such instance - keeps the singleton table free of them, logs no
   constructor call of a singleton or transient registration that received one (directly, in a group slice, under a
   key, through an alias or a parameter object), and answers a request for a singleton or transient with none.
   [CInv c rs]: the singleton table of rs holds no instance of a scoped registration of c and every constructor call
   logged so far for a non-scoped registration of c received none. *)
Theorem C07_no_singleton_or_transient_is_built_from_a_scoped_instance : forall c,
  lifetime_conflict c = false -> rids_wf c ->
  forall fuel rs h d, p_descs (rs_p rs) = c -> CInv c rs -> In d c ->
  CInv c (fst (resolve_d fuel rs h d)) /\
  (ds_life d <> Scoped -> forall a, snd (resolve_d fuel rs h d) = ROkV a -> ns_aval c a).
Proof. exact accepted_registry_has_no_captive_instance. Qed.
Print Assumptions C07_no_singleton_or_transient_is_built_from_a_scoped_instance.

(* Build itself establishes that state: the provider it returns has such a singleton table, and every constructor
   call made during Build meets the same condition *)
Theorem C07_build_captures_nothing : forall c invs ord invs' evs p, rids_wf c ->
  build c invs ord = (invs', evs, inl p) ->
  lifetime_conflict c = false /\ p_descs p = c /\ inv_p c p /\ Forall (ev_ok c) evs.
Proof. exact build_makes_no_captive. Qed.
Print Assumptions C07_build_captures_nothing.

(* the premise (an instance names its registration by id: one lifetime per id) holds of the registry after every
   history that adds registrations from a set with that property *)
Theorem C07_one_lifetime_per_id_after_every_history : forall (Rs : reg -> Prop) ops,
  ids_one_lifetime Rs -> Forall (op_regs_ok Rs) ops -> rids_wf (w_coll (fst (run_from init_world ops))).
Proof. exact rids_wf_after_every_history. Qed.
Print Assumptions C07_one_lifetime_per_id_after_every_history.

(* ---------------------------------------------------------------- C08 *)
Theorem C08_build_rejects_missing_dependencies : forall c invs ord,
  has_cycle c = false -> lifetime_conflict c = false -> missing_required c = true ->
  build c invs ord = (invs, [], inr ENotFound).
Proof. exact build_rejects_missing. Qed.
Print Assumptions C08_build_rejects_missing_dependencies.

(* "If Build succeeds, resolving any registered service never fails with 'service not found'": on a registry that
   passed the missing-dependency validation, no resolution of a registered service - in any scope, from any state,
   at any depth of the dependency chain, with any fuel - answers NotFound *)
Theorem C08_accepted_registry_never_answers_not_found : forall c, missing_required c = false -> opt_wf c ->
  forall fuel rs h d, p_descs (rs_p rs) = c -> In d c -> snd (resolve_d fuel rs h d) <> RFail ENotFound.
Proof. exact accepted_registry_never_answers_not_found. Qed.
Print Assumptions C08_accepted_registry_never_answers_not_found.

Theorem C08_registered_request_is_found : forall c, missing_required c = false -> opt_wf c ->
  forall rs h t k d, p_descs (rs_p rs) = c -> find_service c t k = Some d -> snd (resolve_req rs h t k) <> RFail ENotFound.
Proof. exact registered_request_is_found. Qed.
Print Assumptions C08_registered_request_is_found.

Theorem C08_group_request_is_found : forall c, missing_required c = false -> opt_wf c ->
  forall rs h t g, p_descs (rs_p rs) = c -> snd (resolve_group rs h t g) <> RFail ENotFound.
Proof. exact group_request_is_found. Qed.
Print Assumptions C08_group_request_is_found.

(* the premise (`optional` exists on fields of parameter objects only) holds of the registry after every history of
   registrations that have it *)
Theorem C08_optional_only_in_objects_after_every_history : forall ops,
  Forall (op_regs_ok reg_opt_wf) ops -> opt_wf (w_coll (fst (run_from init_world ops))).
Proof. exact opt_wf_after_every_history. Qed.
Print Assumptions C08_optional_only_in_objects_after_every_history.

(* ---------------------------------------------------------------- C09 *)
(* for every number of resolving, scope-creating and closing threads, every program they run (well-formed or not)
   and every interleaving: identities stay unique and bounded, so no instance is ever in two hands at once *)
Theorem C09_instances_never_shared_between_owners : forall sched s, ProofsConc.Inv s -> ProofsConc.Inv (Conc.run s sched).
Proof. exact run_inv. Qed.
Print Assumptions C09_instances_never_shared_between_owners.

Theorem C09_gate_schedules_are_interleavings : forall sched s, exists sch, run_gates s sched = Conc.run s sch.
Proof. exact run_gates_is_run. Qed.
Print Assumptions C09_gate_schedules_are_interleavings.

(* ---------------------------------------------------------------- C10 *)
Theorem C10_no_instance_closed_twice_under_any_interleaving : forall s sched,
  fresh_state s -> NoDup (c_closed (Conc.run s sched)).
Proof. exact no_double_close. Qed.
Print Assumptions C10_no_instance_closed_twice_under_any_interleaving.

Theorem C10_close_closes_each_exactly_once : forall c own l,
  map closed_inst (fst (close_insts c own l)) = map Some l.
Proof. exact close_insts_exact. Qed.
Print Assumptions C10_close_closes_each_exactly_once.

(* "closed exactly once", the ownership half: the disposal lists of a provider and of all its scopes never hold an
   instance twice, and every instance they hold was made by an invocation that has been counted - an invariant of
   every resolution, for every registration set without disposable instance values (those are not created by the
   container).  A Close then closes exactly the entries of the lists it takes (C10_close_closes_each_exactly_once). *)
Theorem C10_every_constructed_instance_is_owned_exactly_once : forall c F,
  (forall d, In d c -> desc_ok d) ->
  forall fuel rs h d, In d c -> Once c F rs -> Once c F (fst (resolve_d fuel rs h d)).
Proof. exact resolution_lists_each_instance_once. Qed.
Print Assumptions C10_every_constructed_instance_is_owned_exactly_once.

(* a Close closes what was owned and nothing else: the instances closed by a scope's Close (with all its descendants),
   together with the instances still listed afterwards, are exactly - as a multiset - the instances listed before *)
Theorem C10_closing_moves_instances_from_the_lists_to_the_events : forall fuel ord p h,
  conserves p (close_scope fuel ord p h).
Proof. exact close_scope_conserves. Qed.
Print Assumptions C10_closing_moves_instances_from_the_lists_to_the_events.

Theorem C10_provider_close_moves_instances_from_the_lists_to_the_events : forall ord p,
  conserves p (close_provider ord p).
Proof. exact close_provider_conserves. Qed.
Print Assumptions C10_provider_close_moves_instances_from_the_lists_to_the_events.

(* ... and everything that was owned: a scope's Close closes every instance the scope owns, the provider's Close
   every singleton it owns ("when the scope that created them is closed ... singletons when the provider is closed") *)
Theorem C10_close_closes_everything_the_scope_owns : forall fuel ord p h i,
  h < length (p_scopes p) -> sc_open (get_scope p h) = true -> In i (sc_disp (get_scope p h)) ->
  In i (closed_of (snd (fst (close_scope (S fuel) ord p h)))).
Proof. exact close_closes_everything_the_scope_owns. Qed.
Print Assumptions C10_close_closes_everything_the_scope_owns.

Theorem C10_provider_close_closes_every_singleton_it_owns : forall ord p i,
  p_open p = true -> In i (p_sdisp p) -> In i (closed_of (snd (fst (close_provider ord p)))).
Proof. exact provider_close_closes_every_singleton_it_owns. Qed.
Print Assumptions C10_provider_close_closes_every_singleton_it_owns.

(* the statement itself, over every history of the sequential model: whatever is registered (no disposable instance
   values: those are not created by the container), built, resolved, created, closed or cancelled, in whatever order,
   with whatever faults - no instance is closed twice, and nothing that is still owned has been closed *)
Theorem C10_no_instance_is_closed_twice_over_any_history : forall ops, Forall op_inst_ok ops ->
  NoDup (closed_in_trace (snd (run_from init_world ops))).
Proof. exact no_instance_is_closed_twice. Qed.
Print Assumptions C10_no_instance_is_closed_twice_over_any_history.

Theorem C10_nothing_still_owned_has_been_closed : forall ops i, Forall op_inst_ok ops ->
  In i (all_tracked (w_provs (fst (run_from init_world ops)))) -> ~ In i (closed_in_trace (snd (run_from init_world ops))).
Proof. exact nothing_owned_is_already_closed. Qed.
Print Assumptions C10_nothing_still_owned_has_been_closed.

(* "and not before": a resolution closes nothing - every event it logs is a constructor invocation (or the
   notice of a cancelled Build) - and the scope's disposal list only grows: what is owned stays owned until a Close *)
Theorem C10_resolution_closes_nothing : forall fuel rs h d,
  exists l, rs_ev (fst (resolve_d fuel rs h d)) = l ++ rs_ev rs /\ Forall construction_event l.
Proof. exact resolution_closes_nothing. Qed.
Print Assumptions C10_resolution_closes_nothing.

Theorem C10_owned_instances_stay_owned_until_close : forall fuel rs h d k,
  exists l, sc_disp (get_scope (rs_p (fst (resolve_d fuel rs h d))) k) = l ++ sc_disp (get_scope (rs_p rs) k).
Proof. exact resolution_only_adds_owned_instances. Qed.
Print Assumptions C10_owned_instances_stay_owned_until_close.

(* ---------------------------------------------------------------- C11 *)
(* "reverse order of creation, children before parents, singletons last": a scope's Close first disposes everything of
   its descendants and then its own instances, in the order of its disposal list - which is newest first, every newly
   owned instance being put at its head - and the provider's Close disposes every scope first and its singletons last *)
Theorem C11_scope_close_disposes_descendants_first_then_its_own : forall fuel ord p h,
  h < length (p_scopes p) -> sc_open (get_scope p h) = true ->
  exists before descs',
    snd (fst (close_scope (S fuel) ord p h)) = before ++ fst (close_insts descs' h (sc_disp (get_scope p h))).
Proof. exact scope_close_disposes_descendants_first. Qed.
Print Assumptions C11_scope_close_disposes_descendants_first_then_its_own.

Theorem C11_provider_close_disposes_singletons_last : forall ord p,
  p_open p = true ->
  exists before descs',
    snd (fst (close_provider ord p)) = before ++ fst (close_insts descs' OWNER_PROV (p_sdisp p)).
Proof. exact provider_close_disposes_singletons_last. Qed.
Print Assumptions C11_provider_close_disposes_singletons_last.

Theorem C11_a_list_is_disposed_in_its_own_order : forall c own l,
  map closed_inst (fst (close_insts c own l)) = map Some l.
Proof. exact close_insts_exact. Qed.
Print Assumptions C11_a_list_is_disposed_in_its_own_order.

Theorem C11_resolution_never_restructures_scopes : forall fuel rs h d sh,
  scopes_shape (rs_p rs) = sh -> scopes_shape (rs_p (fst (resolve_d fuel rs h d))) = sh.
Proof. exact resolve_keeps_shape. Qed.
Print Assumptions C11_resolution_never_restructures_scopes.

(* ---------------------------------------------------------------- C12 *)
Theorem C12_scope_close_idempotent : forall fuel ord p h,
  sc_open (get_scope p h) = false -> close_scope fuel ord p h = (p, [], 0).
Proof. exact close_scope_idempotent. Qed.
Print Assumptions C12_scope_close_idempotent.

Theorem C12_provider_close_idempotent : forall ord p,
  p_open p = false -> close_provider ord p = (p, [], 0).
Proof. exact close_provider_idempotent. Qed.
Print Assumptions C12_provider_close_idempotent.

Theorem C12_errors_counted_exactly : forall c own l,
  snd (close_insts c own l) =
  length (filter (fun e => match e with EvClosed _ ok _ => negb ok | _ => false end) (fst (close_insts c own l))).
Proof. exact close_insts_errors. Qed.
Print Assumptions C12_errors_counted_exactly.

(* "returns a disposal error exactly when at least one failed": a scope's Close (with all its descendants, in every
   visiting order), the provider's Close, and the two operations *)
Theorem C12_scope_close_reports_an_error_iff_a_close_failed : forall fuel ord p h,
  snd (close_scope fuel ord p h) = 0 <-> none_failed (snd (fst (close_scope fuel ord p h))).
Proof. exact close_scope_error_iff. Qed.
Print Assumptions C12_scope_close_reports_an_error_iff_a_close_failed.

Theorem C12_provider_close_reports_an_error_iff_a_close_failed : forall ord p,
  snd (close_provider ord p) = 0 <-> none_failed (snd (fst (close_provider ord p))).
Proof. exact close_provider_error_iff. Qed.
Print Assumptions C12_provider_close_reports_an_error_iff_a_close_failed.

Theorem C12_close_answers_nil_iff_no_close_failed : forall w pi h ord,
  handle_ok (get_prov w pi) h = true -> h <> 0 ->
  let '(w', evs, r) := step w (OClose pi h ord) in
  (r = RUnit <-> none_failed evs) /\ (r <> RUnit -> exists n, n <> 0 /\ r = RErr (EDisposal n) []).
Proof. exact close_answers_error_iff_some_close_failed. Qed.
Print Assumptions C12_close_answers_nil_iff_no_close_failed.

Theorem C12_provider_close_answers_nil_iff_no_close_failed : forall w pi ord,
  let '(w', evs, r) := step w (OCloseProvider pi ord) in
  (r = RUnit <-> none_failed evs) /\ (r <> RUnit -> exists n, n <> 0 /\ r = RErr (EDisposal n) []).
Proof. exact provider_close_answers_error_iff_some_close_failed. Qed.
Print Assumptions C12_provider_close_answers_nil_iff_no_close_failed.

Theorem C12_concurrent_closes_close_nothing_twice : forall kinds sched,
  NoDup (c_closed (Conc.run (Conc.init kinds) sched)).
Proof. exact no_double_close_init. Qed.
Print Assumptions C12_concurrent_closes_close_nothing_twice.

(* ---------------------------------------------------------------- C13 *)
Theorem C13_closed_scope_refuses_resolution : forall w pi h t n,
  h <> 0 -> handle_ok (get_prov w pi) h = true -> sc_open (get_scope (get_prov w pi) h) = false -> t <> T_NIL ->
  step w (OResolve pi h t n) = (w, [], RErr EScopeDisposed []).
Proof. exact closed_scope_refuses. Qed.
Print Assumptions C13_closed_scope_refuses_resolution.

Theorem C13_closed_scope_refuses_child_scopes : forall w pi h ctx,
  h <> 0 -> handle_ok (get_prov w pi) h = true -> sc_open (get_scope (get_prov w pi) h) = false ->
  step w (OCreateScope pi h ctx) = (w, [], RErr EScopeDisposed []).
Proof. exact closed_scope_refuses_children. Qed.
Print Assumptions C13_closed_scope_refuses_child_scopes.

Theorem C13_closed_provider_refuses : forall w pi t n,
  handle_ok (get_prov w pi) 0 = true -> p_open (get_prov w pi) = false -> t <> T_NIL ->
  step w (OResolve pi 0 t n) = (w, [], RErr EProviderDisposed []).
Proof. exact closed_provider_refuses. Qed.
Print Assumptions C13_closed_provider_refuses.

(* over whole histories: once closed, closed for ever - whatever operations come in between *)
Theorem C13_closed_stays_closed_over_every_history : forall ops w pi k,
  closed_in w pi k -> closed_in (fst (run_from w ops)) pi k.
Proof. exact closed_stays_closed. Qed.
Print Assumptions C13_closed_stays_closed_over_every_history.

Theorem C13_closed_scope_refuses_for_ever : forall ops w pi h t n,
  h <> 0 -> t <> T_NIL -> closed_in w pi h ->
  let w' := fst (run_from w ops) in step w' (OResolve pi h t n) = (w', [], RErr EScopeDisposed []).
Proof. exact closed_scope_refuses_forever. Qed.
Print Assumptions C13_closed_scope_refuses_for_ever.

Theorem C13_close_closes : forall w pi h ord,
  pi < length (w_provs w) -> h <> 0 -> h < length (p_scopes (get_prov w pi)) ->
  closed_in (fst (fst (step w (OClose pi h ord)))) pi h.
Proof. exact close_makes_closed. Qed.
Print Assumptions C13_close_closes.

(* "closing a scope closes all its descendants": after every history, Close on a scope leaves that scope and every scope
   below it closed - for every order in which the children are visited - and closes nothing that is not below it *)
Theorem C13_close_closes_all_descendants_and_nothing_else : forall ops pi h ord,
  let w := fst (run_from init_world ops) in
  pi < length (w_provs w) -> h <> 0 -> h < length (p_scopes (get_prov w pi)) ->
  let w' := fst (fst (step w (OClose pi h ord))) in
  (forall k, below (parents (get_prov w pi)) h k -> closed_in w' pi k) /\
  (forall k, closed_in w' pi k -> closed_in w pi k \/ below (parents (get_prov w pi)) h k).
Proof. exact close_cascades_after_every_history. Qed.
Print Assumptions C13_close_closes_all_descendants_and_nothing_else.

(* "closing the provider closes every scope and makes the provider itself fail" *)
Theorem C13_provider_close_closes_every_scope : forall ops pi ord,
  let w := fst (run_from init_world ops) in
  pi < length (w_provs w) -> p_open (get_prov w pi) = true ->
  let w' := fst (fst (step w (OCloseProvider pi ord))) in
  p_open (get_prov w' pi) = false /\ forall k, k < length (p_scopes (get_prov w pi)) -> closed_in w' pi k.
Proof. exact provider_close_closes_all_after_every_history. Qed.
Print Assumptions C13_provider_close_closes_every_scope.

(* "cancelling the context a scope was created with closes that scope" (and, by the first theorem, what is below it) *)
Theorem C13_cancellation_closes_the_scopes_of_that_context : forall ops c ord pi k,
  let w := fst (run_from init_world ops) in
  pi < length (w_provs w) -> k <> 0 -> k < length (p_scopes (get_prov w pi)) -> sc_ctx (get_scope (get_prov w pi) k) = c ->
  closed_in (fst (fst (step w (OCancel c ord)))) pi k.
Proof. exact cancellation_closes_after_every_history. Qed.
Print Assumptions C13_cancellation_closes_the_scopes_of_that_context.

(* the scope tables of all providers of every reachable world are forests: every scope was created after its parent,
   nothing is open below something closed, the root scope is open as long as the provider is *)
Theorem C13_scope_tables_are_forests_over_every_history : forall ops, Forests (fst (run_from init_world ops)).
Proof. exact (fun ops => forests_over_histories ops init_world forests_init). Qed.
Print Assumptions C13_scope_tables_are_forests_over_every_history.

(* ---------------------------------------------------------------- C14 *)
Theorem C14_closed_scope_holds_nothing : forall fuel ord p h,
  h < length (p_scopes p) -> sc_open (get_scope p h) = true ->
  let s' := get_scope (fst (fst (close_scope (S fuel) ord p h))) h in
  sc_cache s' = [] /\ sc_disp s' = [] /\ sc_open s' = false.
Proof. exact close_scope_releases. Qed.
Print Assumptions C14_closed_scope_holds_nothing.

(* ... and stays so: over every history a closed scope (other than the root) is never written again - its record
   is exactly what Close left, whatever is resolved, created, closed, cancelled or built afterwards *)
Theorem C14_closed_scope_is_never_written_again : forall ops s w pi k,
  k <> 0 -> frozen_in s w pi k -> frozen_in s (fst (run_from w ops)) pi k.
Proof. exact closed_scope_is_frozen. Qed.
Print Assumptions C14_closed_scope_is_never_written_again.

(* "neither the provider nor the parent scope keeps the scope": a closed scope is in no list of open scopes or open
   children, whatever happens afterwards *)
Theorem C14_closed_scope_is_tracked_nowhere_for_ever : forall ops w pi h,
  closed_in w pi h ->
  let p := get_prov (fst (run_from w ops)) pi in ~ In h (open_scopes p) /\ forall q, ~ In h (open_children p q).
Proof. exact closed_scope_untracked_for_ever. Qed.
Print Assumptions C14_closed_scope_is_tracked_nowhere_for_ever.

Theorem C14_failed_scope_creation_leaves_no_scope : forall w pi parent ctx w' evs c mods,
  pi < length (w_provs w) ->
  create_scope w pi parent ctx = (w', evs, RErr c mods) ->
  length (p_scopes (get_prov w' pi)) = length (p_scopes (get_prov w pi)).
Proof. exact failed_create_scope_leaves_no_scope. Qed.
Print Assumptions C14_failed_scope_creation_leaves_no_scope.

Theorem C14_close_never_grows_the_scope_table : forall fuel ord p h,
  length (p_scopes (fst (fst (close_scope fuel ord p h)))) = length (p_scopes p).
Proof. exact close_scope_len. Qed.
Print Assumptions C14_close_never_grows_the_scope_table.

(* ---------------------------------------------------------------- C15 *)
Theorem C15_failing_constructor_reported_as_itself : forall recd rs h d io ps rets er rs1 args,
  r_form (ds_reg d) = FCtor io ps rets er ->
  args_loop recd rs h io ps [] = (rs1, inl args) ->
  let inv := get_inv (rs_invs rs1) (r_id (ds_reg d)) in
  match effective_outcome (ds_reg d) inv with
  | OErr => snd (create recd rs h d) = RFail (ECtorErr (r_id (ds_reg d)))
  | OPanic => snd (create recd rs h d) = RFail (ECtorPanic (r_id (ds_reg d)))
  | ONil => snd (create recd rs h d) = RFail EValidation
  | OOk | OCancelBuild => True
  end.
Proof. exact create_reports_own_failure. Qed.
Print Assumptions C15_failing_constructor_reported_as_itself.

Theorem C15_failed_construction_caches_nothing : forall recd rs h d io ps rets er rs1 args,
  r_form (ds_reg d) = FCtor io ps rets er ->
  args_loop recd rs h io ps [] = (rs1, inl args) ->
  effective_outcome (ds_reg d) (get_inv (rs_invs rs1) (r_id (ds_reg d))) <> OOk ->
  rs_p (fst (create recd rs h d)) = rs_p rs1.
Proof. exact create_failure_caches_nothing. Qed.
Print Assumptions C15_failed_construction_caches_nothing.

(* ---------------------------------------------------------------- C16 *)
(* for each of the five integrations, every number of configured middlewares, every option combination and
   every exit path *)
Theorem C16_scope_closed_exactly_once : forall s, valid_scen s ->
  count_w WClosed (mw_trace s) = match w_exit s with XCreateFail => 0 | _ => 1 end.
Proof. exact closed_exactly_once. Qed.
Print Assumptions C16_scope_closed_exactly_once.

Theorem C16_middlewares_in_configuration_order : forall s, valid_scen s ->
  filter is_mw (mw_trace s) =
  map WMw (seq 0 (match w_exit s with XMwErr i => S i | XCreateFail => 0 | _ => w_nmw s end)).
Proof. exact middlewares_in_order. Qed.
Print Assumptions C16_middlewares_in_configuration_order.

Theorem C16_handler_or_error_handler : forall s, valid_scen s ->
  (count_w WHandler (mw_trace s), count_w WErrHandler (mw_trace s)) =
  match w_exit s with XMwErr _ | XCreateFail => (0, 1) | _ => (1, 0) end.
Proof. exact handler_or_error_handler. Qed.
Print Assumptions C16_handler_or_error_handler.

Theorem C16_closed_after_the_last_callback : forall s, valid_scen s -> after_closed (mw_trace s) = true.
Proof. exact closed_after_callbacks. Qed.
Print Assumptions C16_closed_after_the_last_callback.

Theorem C16_model_meets_the_monitor : forall s, valid_scen s -> holds_request s (mw_trace s) = true.
Proof. exact model_meets_request_property. Qed.
Print Assumptions C16_model_meets_the_monitor.

Theorem C16_handle_runs_method_iff_resolved : forall s,
  In HMethod (handle_trace s) <-> h_scope s = true /\ h_registered s = true.
Proof. exact handle_method_iff. Qed.
Print Assumptions C16_handle_runs_method_iff_resolved.

Theorem C16_handle_otherwise_exactly_one_error_handler : forall s,
  ~ In HMethod (handle_trace s) -> handle_trace s = [HScopeErr] \/ handle_trace s = [HResolutionErr].
Proof. exact handle_exactly_one_error_handler. Qed.
Print Assumptions C16_handle_otherwise_exactly_one_error_handler.

Theorem C16_handle_swallows_panics_iff_recovery : forall s,
  h_scope s = true -> h_registered s = true -> h_exit s = HPanic ->
  (In HPanicHandler (handle_trace s) <-> h_recovery s = true) /\ (In HPanicEscaped (handle_trace s) <-> h_recovery s = false).
Proof. exact handle_panic_swallowed_iff. Qed.
Print Assumptions C16_handle_swallows_panics_iff_recovery.

(* requests answered by an integration's default error handler (not instrumented in the harness) are read without the
   user error handler's event; the model's trace minus that event meets that reading, for every scenario *)
Theorem C16_model_meets_the_default_handler_reading : forall s, valid_scen s ->
  holds_request_default s (filter not_errh (mw_trace s)) = true.
Proof. exact model_meets_default_handler_reading. Qed.
Print Assumptions C16_model_meets_the_default_handler_reading.

(* ---------------------------------------------------------------- C17 *)
Theorem C17_rejected_registration_is_atomic : forall c v r c' v' e,
  add_service c v r = (c', v', Some e) -> c' = c.
Proof. exact add_service_atomic. Qed.
Print Assumptions C17_rejected_registration_is_atomic.

Theorem C17_one_registration_per_identity : forall ops w,
  coll_inv (w_coll w) -> coll_inv (w_coll (fst (run_from w ops))).
Proof. exact registry_invariant. Qed.
Print Assumptions C17_one_registration_per_identity.

(* "a group accumulates members in call order": after every history the members of every group carry the
   numbers 1..n in registration order, and a registration into a group appends exactly one member *)
Theorem C17_groups_numbered_in_call_order : forall ops w,
  numbered (w_coll w) -> numbered (w_coll (fst (run_from w ops))).
Proof. exact groups_numbered_in_call_order. Qed.
Print Assumptions C17_groups_numbered_in_call_order.

Theorem C17_group_registration_appends : forall c d c', ds_key d = KNone -> ds_grp d <> 0 -> register c d = inl c' ->
  exists m, c' = c ++ [m] /\ ds_reg m = ds_reg d /\
            group_members c' (ds_ty d) (ds_grp d) = group_members c (ds_ty d) (ds_grp d) ++ [m] /\
            forall t g, (t, g) <> (ds_ty d, ds_grp d) -> group_members c' t g = group_members c t g.
Proof. exact group_registration_appends. Qed.
Print Assumptions C17_group_registration_appends.

Theorem C17_removed_identity_is_gone : forall c t k,
  uniq c -> find_service (remove_service c t k) t k = None.
Proof. exact remove_service_gone. Qed.
Print Assumptions C17_removed_identity_is_gone.

Theorem C17_built_providers_unaffected_by_collection_calls : forall w o,
  is_coll_op o = true ->
  let w' := fst (fst (step w o)) in
  w_provs w' = w_provs w /\ w_invs w' = w_invs w /\ w_cancelled w' = w_cancelled w /\ snd (fst (step w o)) = [].
Proof. exact coll_ops_leave_providers. Qed.
Print Assumptions C17_built_providers_unaffected_by_collection_calls.

(* "a provider that has been built is unaffected by later changes to the collection", and the converse a rebuilt provider
   needs: a Build runs the constructors of the registrations the collection holds at that moment and of no other (nothing
   of a registration removed before this Build, whatever an earlier Build saw), the provider it appends holds exactly
   that collection, and that provider's resolutions run only constructors of registrations in it *)
Theorem C17_build_runs_only_what_the_collection_holds : forall w ord r,
  (forall d, In d (w_coll w) -> ds_rid d <> r) ->
  cnt r (snd (fst (step w (OBuild ord)))) = 0.
Proof. exact world_build_runs_only_what_the_collection_holds. Qed.
Print Assumptions C17_build_runs_only_what_the_collection_holds.

Theorem C17_build_appends_a_provider_of_the_current_collection : forall w ord n,
  snd (step w (OBuild ord)) = RCount n ->
  let w' := fst (fst (step w (OBuild ord))) in
  n = length (w_provs w) /\ p_descs (get_prov w' n) = w_coll w /\ w_coll w' = w_coll w.
Proof. exact world_build_appends_a_provider_of_the_current_collection. Qed.
Print Assumptions C17_build_appends_a_provider_of_the_current_collection.

Theorem C17_resolution_runs_only_what_the_provider_was_built_from : forall w pi h t n r,
  (forall d, In d (p_descs (get_prov w pi)) -> ds_rid d <> r) ->
  cnt r (snd (fst (step w (OResolve pi h t n)))) = 0.
Proof. exact world_resolution_runs_only_what_the_provider_was_built_from. Qed.
Print Assumptions C17_resolution_runs_only_what_the_provider_was_built_from.

Theorem C17_group_resolution_runs_only_what_the_provider_was_built_from : forall w pi h t g r,
  (forall d, In d (p_descs (get_prov w pi)) -> ds_rid d <> r) ->
  cnt r (snd (fst (step w (OResolveGroup pi h t g)))) = 0.
Proof. exact world_group_resolution_runs_only_what_the_provider_was_built_from. Qed.
Print Assumptions C17_group_resolution_runs_only_what_the_provider_was_built_from.

(* ---------------------------------------------------------------- C18 *)
Theorem C18_context_is_the_scopes_own : forall recd rs h, req recd rs h T_CTX KNone = (rs, ROkV (ACtx h)).
Proof. exact builtin_ctx. Qed.
Print Assumptions C18_context_is_the_scopes_own.
Theorem C18_scope_is_that_very_scope : forall recd rs h, req recd rs h T_SCOPE KNone = (rs, ROkV (AScope h)).
Proof. exact builtin_scope. Qed.
Print Assumptions C18_scope_is_that_very_scope.
Theorem C18_provider_is_the_root_provider : forall recd rs h, req recd rs h T_PROV KNone = (rs, ROkV AProv).
Proof. exact builtin_prov. Qed.
Print Assumptions C18_provider_is_the_root_provider.
Theorem C18_reserved_types_never_registered : forall ops w,
  coll_inv (w_coll w) -> coll_inv (w_coll (fst (run_from w ops))).
Proof. exact registry_invariant. Qed.
Print Assumptions C18_reserved_types_never_registered.

(* ---------------------------------------------------------------- C19 *)
Theorem C19_reference_closed_on_every_history : forall ops, wf (grun ops).
Proof. exact reference_always_closed. Qed.
Print Assumptions C19_reference_closed_on_every_history.

Theorem C19_rejected_add_leaves_graph_unchanged : forall g u ds,
  snd (gstep g (GAdd u ds)) = false -> fst (gstep g (GAdd u ds)) = g.
Proof. exact rejected_add_unchanged. Qed.
Print Assumptions C19_rejected_add_leaves_graph_unchanged.

Theorem C19_accepted_add_closes_no_cycle : forall g u ds,
  snd (gstep g (GAdd u ds)) = true -> cycle_from (fst (gstep g (GAdd u ds))) u = false.
Proof. exact accepted_add_no_cycle_through. Qed.
Print Assumptions C19_accepted_add_closes_no_cycle.

Theorem C19_acyclicity_answer_exact : forall g, wf g ->
  (acyclic g = true <-> forall u, In u (dg_nodes g) -> ~ on_cycle (GraphSpec.succ g) u).
Proof. exact acyclic_exact. Qed.
Print Assumptions C19_acyclicity_answer_exact.

(* ---------------------------------------------------------------- C20 *)
Theorem C20_modules_are_their_flat_calls : forall ms st,
  apply_modules ms st = run_flat st (flat_map flat_entries ms).
Proof. exact apply_modules_flat. Qed.
Print Assumptions C20_modules_are_their_flat_calls.

Theorem C20_same_as_direct_calls_first_failure_stops_error_wrapped : forall st l,
  fst (run_flat st l) = fst (run_direct st (map snd l)) /\
  match snd (run_flat st l), snd (run_direct st (map snd l)) with
  | None, None => True
  | Some (e, ns), Some (e', k) => e = e' /\ nth_error (map fst l) k = Some ns
  | _, _ => False
  end.
Proof. exact run_flat_direct. Qed.
Print Assumptions C20_same_as_direct_calls_first_failure_stops_error_wrapped.
