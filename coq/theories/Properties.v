(* Properties.v — the property theorems, and nothing else.  Each is closed by [exact] of a lemma
   proved in the Proofs* files and followed by Print Assumptions. *)
From Godi Require Import Base GDfs Model Check ProofsRegistry ProofsRuntime.

(* ---------------------------------------------------------------- C01 *)
Theorem C01_resolving_a_singleton_is_a_table_read : forall fuel rs h d,
  ds_life d = Singleton ->
  resolve_d (S fuel) rs h d =
  (rs, match lookup_i (p_single (rs_p rs)) (ds_ident d) with
       | Some i => ROkV (AInst i)
       | None => RFail ESingletonNotInit
       end).
Proof. exact resolve_singleton_pure. Qed.
Print Assumptions C01_resolving_a_singleton_is_a_table_read.

Theorem C01_same_instance_in_every_scope : forall fuel rs h1 h2 d,
  ds_life d = Singleton -> snd (resolve_d (S fuel) rs h1 d) = snd (resolve_d (S fuel) rs h2 d).
Proof. exact singleton_same_in_every_scope. Qed.
Print Assumptions C01_same_instance_in_every_scope.

(* ---------------------------------------------------------------- C02 *)
Theorem C02_cached_scoped_instance_is_returned : forall fuel rs h d i,
  ds_life d = Scoped -> lookup_i (sc_cache (get_scope (rs_p rs) h)) (ds_ident d) = Some i ->
  resolve_d (S fuel) rs h d = (rs, ROkV (AInst i)).
Proof. exact resolve_scoped_cached. Qed.
Print Assumptions C02_cached_scoped_instance_is_returned.

(* ---------------------------------------------------------------- C03 *)
Theorem C03_transient_constructed_at_every_request : forall fuel rs h d,
  ds_life d = Transient -> resolve_d (S fuel) rs h d = create (resolve_d fuel) rs h d.
Proof. exact resolve_transient_constructs. Qed.
Print Assumptions C03_transient_constructed_at_every_request.

(* ---------------------------------------------------------------- C04 *)
Theorem C04_lookup_is_exact : forall c t k d,
  find_service c t k = Some d -> In d c /\ in_services d = true /\ ds_ty d = t /\ ds_key d = k.
Proof. exact find_service_some. Qed.
Print Assumptions C04_lookup_is_exact.

(* ---------------------------------------------------------------- C05 *)
Theorem C05_reported_cycle_is_real : forall g nodes starts n,
  detect g nodes starts = Some n -> on_cycle g n.
Proof. exact detect_sound. Qed.
Print Assumptions C05_reported_cycle_is_real.

Theorem C05_cycle_verdict_exact : forall g nodes,
  (forall u v, In u nodes -> In v (g u) -> In v nodes) ->
  forall starts, (forall u, In u starts <-> In u nodes) ->
  (detect g nodes starts = None <-> forall u, In u nodes -> ~ on_cycle g u).
Proof. exact detect_exact. Qed.
Print Assumptions C05_cycle_verdict_exact.

Theorem C05_build_rejects_cycles : forall c invs ord,
  has_cycle c = true -> build c invs ord = (invs, [], inr ECircular).
Proof. exact build_rejects_cycle. Qed.
Print Assumptions C05_build_rejects_cycles.

(* ---------------------------------------------------------------- C07 *)
Theorem C07_build_rejects_captive_dependencies : forall c invs ord,
  has_cycle c = false -> lifetime_conflict c = true -> build c invs ord = (invs, [], inr ELifetime).
Proof. exact build_rejects_captive. Qed.
Print Assumptions C07_build_rejects_captive_dependencies.

(* ---------------------------------------------------------------- C08 *)
Theorem C08_build_rejects_missing_dependencies : forall c invs ord,
  has_cycle c = false -> lifetime_conflict c = false -> missing_required c = true ->
  build c invs ord = (invs, [], inr ENotFound).
Proof. exact build_rejects_missing. Qed.
Print Assumptions C08_build_rejects_missing_dependencies.

(* ---------------------------------------------------------------- C10 *)
Theorem C10_close_closes_each_exactly_once : forall c own l,
  map closed_inst (fst (close_insts c own l)) = map Some l.
Proof. exact close_insts_exact. Qed.
Print Assumptions C10_close_closes_each_exactly_once.

(* ---------------------------------------------------------------- C11 *)
Theorem C11_resolution_never_restructures_scopes : forall fuel rs h d sh,
  scopes_shape (rs_p rs) = sh -> scopes_shape (rs_p (fst (resolve_d fuel rs h d))) = sh.
Proof. exact resolve_keeps_shape. Qed.
Print Assumptions C11_resolution_never_restructures_scopes.

(* ---------------------------------------------------------------- C12 *)
Theorem C12_scope_close_idempotent : forall fuel ord p h,
  sc_open (get_scope p h) = false -> close_scope fuel ord p h = (p, [], 0).
Proof. exact close_scope_idempotent. Qed.
Print Assumptions C12_scope_close_idempotent.

Theorem C12_provider_close_idempotent : forall ord p,
  p_open p = false -> close_provider ord p = (p, [], 0).
Proof. exact close_provider_idempotent. Qed.
Print Assumptions C12_provider_close_idempotent.

Theorem C12_errors_counted_exactly : forall c own l,
  snd (close_insts c own l) =
  length (filter (fun e => match e with EvClosed _ ok _ => negb ok | _ => false end) (fst (close_insts c own l))).
Proof. exact close_insts_errors. Qed.
Print Assumptions C12_errors_counted_exactly.

(* ---------------------------------------------------------------- C13 *)
Theorem C13_closed_scope_refuses_resolution : forall w pi h t n,
  h <> 0 -> handle_ok (get_prov w pi) h = true -> sc_open (get_scope (get_prov w pi) h) = false -> t <> T_NIL ->
  step w (OResolve pi h t n) = (w, [], RErr EScopeDisposed []).
Proof. exact closed_scope_refuses. Qed.
Print Assumptions C13_closed_scope_refuses_resolution.

Theorem C13_closed_scope_refuses_child_scopes : forall w pi h ctx,
  h <> 0 -> handle_ok (get_prov w pi) h = true -> sc_open (get_scope (get_prov w pi) h) = false ->
  step w (OCreateScope pi h ctx) = (w, [], RErr EScopeDisposed []).
Proof. exact closed_scope_refuses_children. Qed.
Print Assumptions C13_closed_scope_refuses_child_scopes.

Theorem C13_closed_provider_refuses : forall w pi t n,
  handle_ok (get_prov w pi) 0 = true -> p_open (get_prov w pi) = false -> t <> T_NIL ->
  step w (OResolve pi 0 t n) = (w, [], RErr EProviderDisposed []).
Proof. exact closed_provider_refuses. Qed.
Print Assumptions C13_closed_provider_refuses.

(* ---------------------------------------------------------------- C15 *)
Theorem C15_failing_constructor_reported_as_itself : forall recd rs h d io ps rets er rs1 args,
  r_form (ds_reg d) = FCtor io ps rets er ->
  args_loop recd rs h io ps [] = (rs1, inl args) ->
  let inv := get_inv (rs_invs rs1) (r_id (ds_reg d)) in
  match effective_outcome (ds_reg d) inv with
  | OErr => snd (create recd rs h d) = RFail (ECtorErr (r_id (ds_reg d)))
  | OPanic => snd (create recd rs h d) = RFail (ECtorPanic (r_id (ds_reg d)))
  | ONil => snd (create recd rs h d) = RFail EValidation
  | OOk => True
  end.
Proof. exact create_reports_own_failure. Qed.
Print Assumptions C15_failing_constructor_reported_as_itself.

Theorem C15_failed_construction_caches_nothing : forall recd rs h d io ps rets er rs1 args,
  r_form (ds_reg d) = FCtor io ps rets er ->
  args_loop recd rs h io ps [] = (rs1, inl args) ->
  effective_outcome (ds_reg d) (get_inv (rs_invs rs1) (r_id (ds_reg d))) <> OOk ->
  rs_p (fst (create recd rs h d)) = rs_p rs1.
Proof. exact create_failure_caches_nothing. Qed.
Print Assumptions C15_failed_construction_caches_nothing.

(* ---------------------------------------------------------------- C17 *)
Theorem C17_rejected_registration_is_atomic : forall c v r c' v' e,
  add_service c v r = (c', v', Some e) -> c' = c.
Proof. exact add_service_atomic. Qed.
Print Assumptions C17_rejected_registration_is_atomic.

Theorem C17_one_registration_per_identity : forall ops w,
  coll_inv (w_coll w) -> coll_inv (w_coll (fst (run_from w ops))).
Proof. exact registry_invariant. Qed.
Print Assumptions C17_one_registration_per_identity.

Theorem C17_removed_identity_is_gone : forall c t k,
  uniq c -> find_service (remove_service c t k) t k = None.
Proof. exact remove_service_gone. Qed.
Print Assumptions C17_removed_identity_is_gone.

Theorem C17_built_providers_unaffected_by_collection_calls : forall w o,
  is_coll_op o = true ->
  let w' := fst (fst (step w o)) in
  w_provs w' = w_provs w /\ w_invs w' = w_invs w /\ w_cancelled w' = w_cancelled w /\ snd (fst (step w o)) = [].
Proof. exact coll_ops_leave_providers. Qed.
Print Assumptions C17_built_providers_unaffected_by_collection_calls.

(* ---------------------------------------------------------------- C18 *)
Theorem C18_context_is_the_scopes_own : forall recd rs h, req recd rs h T_CTX KNone = (rs, ROkV (ACtx h)).
Proof. exact builtin_ctx. Qed.
Print Assumptions C18_context_is_the_scopes_own.
Theorem C18_scope_is_that_very_scope : forall recd rs h, req recd rs h T_SCOPE KNone = (rs, ROkV (AScope h)).
Proof. exact builtin_scope. Qed.
Print Assumptions C18_scope_is_that_very_scope.
Theorem C18_provider_is_the_root_provider : forall recd rs h, req recd rs h T_PROV KNone = (rs, ROkV AProv).
Proof. exact builtin_prov. Qed.
Print Assumptions C18_provider_is_the_root_provider.
Theorem C18_reserved_types_never_registered : forall ops w,
  coll_inv (w_coll w) -> coll_inv (w_coll (fst (run_from w ops))).
Proof. exact registry_invariant. Qed.
Print Assumptions C18_reserved_types_never_registered.

(* ---------------------------------------------------------------- C20 *)
Theorem C20_modules_are_their_flat_calls : forall ms st,
  apply_modules ms st = run_flat st (flat_map flat_entries ms).
Proof. exact apply_modules_flat. Qed.
Print Assumptions C20_modules_are_their_flat_calls.

Theorem C20_same_as_direct_calls_first_failure_stops_error_wrapped : forall st l,
  fst (run_flat st l) = fst (run_direct st (map snd l)) /\
  match snd (run_flat st l), snd (run_direct st (map snd l)) with
  | None, None => True
  | Some (e, ns), Some (e', k) => e = e' /\ nth_error (map fst l) k = Some ns
  | _, _ => False
  end.
Proof. exact run_flat_direct. Qed.
Print Assumptions C20_same_as_direct_calls_first_failure_stops_error_wrapped.
