(* ProofsStable.v — C02 on the sequential model: within one scope, the instance cached for an identity stays the
   answer - whatever is resolved afterwards, in this scope or any other, never replaces it.  The proof needs no
   acyclicity: a resolution writes a cache key only when it found that key absent, or when the key belongs to another
   output / interface of the registration call it is constructing - and the outputs and interfaces of one call are
   always cached together (the invariant [together]). *)
From Godi Require Import Base Model ProofsRuntime ProofsClosed ProofsTerm ProofsGen ProofsFrame ProofsOutputs.

Definition same_call (x y : desc) : Prop := ds_rid x = ds_rid y /\ ds_call x = ds_call y.
Definition cache_of (p : prov) (h : nat) : list (ident * inst) := sc_cache (get_scope p h).
Definition cached (p : prov) (h : nat) (x : desc) : Prop := lookup_i (cache_of p h) (ds_ident x) <> None.

(* the registry as addService builds it: identities unique; every descriptor of a multi-output call is found under its
   output number; the interfaces of a single-output call are each other's aliases *)
Definition arity (r : reg) : nat :=
  match r_form r with FCtor _ _ ts _ => length ts | FResult _ _ fs _ => length fs | FInst _ => 1 end.
Definition multi (r : reg) : bool :=
  match r_form r with FCtor _ _ (_ :: _ :: _) _ => true | FResult _ _ _ _ => true | _ => false end.
Definition calls_wf (c : coll) : Prop :=
  NoDup (map ds_ident c) /\
  (forall d x, In d c -> In x c -> same_call x d -> multi (ds_reg d) = true ->
     output_desc c d (ds_out x) = Some x /\ ds_out x < arity (ds_reg d)) /\
  (forall d x, In d c -> In x c -> same_call x d -> ds_reg x = ds_reg d) /\
  (forall d x io ps e, In d c -> In x c -> same_call x d -> r_form (ds_reg d) = FCtor io ps [] e -> x = d).

Definition stable (base : list (ident * inst)) (now : list (ident * inst)) : Prop :=
  forall n i, lookup_i base n = Some i -> lookup_i now n = Some i.
Definition together (c : coll) (p : prov) (h : nat) : Prop :=
  forall x y, In x c -> In y c -> same_call x y -> (cached p h x <-> cached p h y).

Definition St (c : coll) (h : nat) (base : list (ident * inst)) (rs : rstate) : Prop :=
  p_descs (rs_p rs) = c /\ h < length (p_scopes (rs_p rs)) /\ stable base (cache_of (rs_p rs) h) /\ together c (rs_p rs) h.

Lemma descs_track_scope_s p h i : p_descs (track_scope p h i) = p_descs p.
Proof. unfold track_scope, upd_scope. destruct (inst_disposable i); reflexivity. Qed.

(* ------------------------------------------------------------------ the cache of scope h under the primitives *)
Lemma len_cache_set p h n i : length (p_scopes (cache_set p h n i)) = length (p_scopes p).
Proof. unfold cache_set, upd_scope; cbn [p_scopes]. apply upd_nth_length. Qed.
Lemma len_track_scope p h i : length (p_scopes (track_scope p h i)) = length (p_scopes p).
Proof. unfold track_scope, upd_scope. destruct (inst_disposable i); cbn [p_scopes]; [apply upd_nth_length|reflexivity]. Qed.
Lemma cache_cache_set p h n i : h < length (p_scopes p) -> cache_of (cache_set p h n i) h = (n, i) :: cache_of p h.
Proof. intros H. unfold cache_of, cache_set. rewrite get_scope_upd_scope_same by exact H. reflexivity. Qed.
Lemma cache_track_scope p h i : cache_of (track_scope p h i) h = cache_of p h.
Proof.
  unfold cache_of, track_scope. destruct (inst_disposable i); [|reflexivity].
  destruct (Nat.lt_ge_cases h (length (p_scopes p))) as [Hl|Hl].
  - rewrite get_scope_upd_scope_same by exact Hl. reflexivity.
  - unfold get_scope, upd_scope; cbn [p_scopes]. rewrite nth_upd_nth_oob by exact Hl. reflexivity.
Qed.

(* what a construction in scope h may do to the provider: add cache entries for some keys, keep everything else *)
Definition adds (keys : list ident) (h : nat) (p p' : prov) : Prop :=
  p_descs p' = p_descs p /\ length (p_scopes p') = length (p_scopes p) /\
  exists entries, map fst entries = keys /\ cache_of p' h = entries ++ cache_of p h.

Lemma adds_refl h p : adds [] h p p.
Proof. repeat split. exists []. split; reflexivity. Qed.
Lemma adds_trans k1 k2 h p1 p2 p3 : adds k1 h p1 p2 -> adds k2 h p2 p3 -> adds (k2 ++ k1) h p1 p3.
Proof.
  intros (Hd1 & Hl1 & e1 & Hk1 & Hc1) (Hd2 & Hl2 & e2 & Hk2 & Hc2). repeat split; try congruence.
  exists (e2 ++ e1). split; [rewrite map_app; congruence|]. rewrite Hc2, Hc1, app_assoc. reflexivity.
Qed.
Lemma adds_store_scoped h p n i : h < length (p_scopes p) -> adds [n] h p (store Scoped p h n i).
Proof.
  intros Hl. unfold store. repeat split.
  - rewrite descs_track_scope_s. reflexivity.
  - rewrite len_track_scope, len_cache_set. reflexivity.
  - exists [(n, i)]. split; [reflexivity|]. rewrite cache_track_scope, cache_cache_set by exact Hl. reflexivity.
Qed.
Lemma adds_share_scoped h p n i : h < length (p_scopes p) -> adds [n] h p (share Scoped p h n i).
Proof.
  intros Hl. unfold share. repeat split; [apply len_cache_set|].
  exists [(n, i)]. split; [reflexivity|]. rewrite cache_cache_set by exact Hl. reflexivity.
Qed.
Lemma adds_drop_scoped h p i : adds [] h p (drop_output p h Scoped i).
Proof.
  unfold drop_output. repeat split; [apply descs_track_scope_s|apply len_track_scope|].
  exists []. split; [reflexivity|]. rewrite cache_track_scope. reflexivity.
Qed.

Lemma adds_share_all h l i : forall p, h < length (p_scopes p) ->
  exists keys, adds keys h p (fold_left (fun p a => share Scoped p h (ds_ident a) i) l p) /\
               (forall k, In k keys <-> In k (map ds_ident l)).
Proof.
  induction l as [|a l IH]; intros p Hl; cbn [fold_left map].
  - exists []. split; [apply adds_refl|tauto].
  - pose proof (adds_share_scoped h p (ds_ident a) i Hl) as Ha.
    assert (Hl' : h < length (p_scopes (share Scoped p h (ds_ident a) i))) by (destruct Ha as (_ & E & _); rewrite E; exact Hl).
    destruct (IH _ Hl') as [keys [Hk Hin]].
    exists (keys ++ [ds_ident a]). split; [exact (adds_trans _ _ _ _ _ _ Ha Hk)|].
    intros k. rewrite in_app_iff, Hin. cbn [In]. tauto.
Qed.

Lemma fan_out_adds h d inv ks : ds_life d = Scoped -> forall p, h < length (p_scopes p) ->
  exists keys, adds keys h p (fan_out p h d inv ks) /\
               (forall k, In k keys <-> exists j sd, In j ks /\ output_desc (p_descs p) d j = Some sd /\ ds_ident sd = k).
Proof.
  intros Hlife. induction ks as [|j rest IH]; intros p Hl; cbn [fan_out].
  - exists []. split; [apply adds_refl|]. intros k. split; [intros []|intros (j & sd & [] & _)].
  - rewrite Hlife. cbn [life_eqb andb]. rewrite andb_false_r.
    destruct (output_desc (p_descs p) d j) as [sd|] eqn:Ho.
    + pose proof (adds_store_scoped h p (ds_ident sd) (out_inst (ds_reg d) inv j) Hl) as Ha.
      assert (Hl' : h < length (p_scopes (store Scoped p h (ds_ident sd) (out_inst (ds_reg d) inv j)))) by (destruct Ha as (_ & E & _); rewrite E; exact Hl).
      destruct (IH _ Hl') as [keys [Hk Hin]]. destruct Ha as (Hd & Ha').
      exists (keys ++ [ds_ident sd]). split; [exact (adds_trans _ _ _ _ _ _ (conj Hd Ha') Hk)|].
      intros k. rewrite in_app_iff, Hin. rewrite Hd. cbn [In]. split.
      * intros [(j' & sd' & Hj & Ho' & E)|[<-|[]]]; [exists j', sd'; cbn [In]; auto|exists j, sd; cbn [In]; auto].
      * intros (j' & sd' & [<-|Hj] & Ho' & E); [right; left; congruence|left; exists j', sd'; auto].
    + pose proof (adds_drop_scoped h p (out_inst (ds_reg d) inv j)) as Ha.
      assert (Hl' : h < length (p_scopes (drop_output p h Scoped (out_inst (ds_reg d) inv j)))) by (destruct Ha as (_ & E & _); rewrite E; exact Hl).
      destruct (IH _ Hl') as [keys [Hk Hin]]. destruct Ha as (Hd & Ha').
      exists (keys ++ []). split; [exact (adds_trans _ _ _ _ _ _ (conj Hd Ha') Hk)|].
      intros k. rewrite app_nil_r, Hin, Hd. split.
      * intros (j' & sd' & Hj & Ho' & E). exists j', sd'. cbn [In]. auto.
      * intros (j' & sd' & [<-|Hj] & Ho' & E); [congruence|exists j', sd'; auto].
Qed.

(* ------------------------------------------------------------------ lookups under additions *)
Lemma lookup_app_notin (e l : list (ident * inst)) n : ~ In n (map fst e) -> lookup_i (e ++ l) n = lookup_i l n.
Proof.
  induction e as [|[m v] e IH]; cbn [app map fst lookup_i In]; [reflexivity|]. intros H.
  destruct (ident_eqb m n) eqn:E; [apply ident_eqb_eq in E; subst; exfalso; apply H; left; reflexivity|].
  apply IH. intros Hin. apply H. right. exact Hin.
Qed.
Lemma lookup_app_in (e l : list (ident * inst)) n : In n (map fst e) -> lookup_i (e ++ l) n <> None.
Proof.
  induction e as [|[m v] e IH]; cbn [app map fst lookup_i In]; [tauto|]. intros [->|H].
  - rewrite (proj2 (ident_eqb_eq n n) eq_refl). discriminate.
  - destruct (ident_eqb m n); [discriminate|apply IH; exact H].
Qed.

Section Stable.
  Variable c : coll.
  Hypothesis Hwf : calls_wf c.
  Variable h : nat.
  Variable base : list (ident * inst).

  (* the heart: adding exactly the identities of one registration call, none of which had an answer in [base] *)
  Lemma St_after_adds rs1 p2 keys d :
    St c h base rs1 -> In d c -> adds keys h (rs_p rs1) p2 ->
    (forall k, In k keys <-> exists x, In x c /\ same_call x d /\ ds_ident x = k) ->
    (forall k, In k keys -> lookup_i base k = None) ->
    St c h base (with_p rs1 p2).
  Proof.
    intros (Hd1 & Hl1 & Hst & Htg) Hd (Hdd & Hlen & entries & Hk & Hc) Hkeys Hnone.
    unfold St; cbn [rs_p with_p]. split; [congruence|]. split; [lia|]. split.
    - intros n i Hb. rewrite Hc. assert (Hn : ~ In n (map fst entries)).
      { rewrite Hk. intros Hin. rewrite (Hnone n Hin) in Hb. discriminate. }
      rewrite lookup_app_notin by exact Hn. apply Hst. exact Hb.
    - destruct Hwf as (Hnd & _).
      assert (Hfriend : forall x, In x c -> (In (ds_ident x) keys <-> same_call x d)).
      { intros x Hx. rewrite Hkeys. split.
        - intros (x' & Hx' & Hsc & E). assert (x' = x); [|subst; exact Hsc].
          clear -Hnd Hx Hx' E. induction c as [|a l IH]; [destruct Hx|]. cbn [map] in Hnd. inversion Hnd as [|? ? Ha Hl]; subst.
          destruct Hx as [->|Hx], Hx' as [->|Hx']; try reflexivity.
          + exfalso. apply Ha. rewrite <- E. apply in_map. exact Hx'.
          + exfalso. apply Ha. rewrite E. apply in_map. exact Hx.
          + apply IH; assumption.
        - intros Hsc. exists x. auto. }
      intros x y Hx Hy Hxy. unfold cached. rewrite Hc.
      assert (Hboth : same_call x d <-> same_call y d).
      { unfold same_call in *. destruct Hxy as [E1 E2]. rewrite E1, E2. tauto. }
      destruct (in_dec (fun a b => match ident_eqb a b as r return (ident_eqb a b = r -> {a = b} + {a <> b}) with
                                   | true => fun E => left (proj1 (ident_eqb_eq a b) E)
                                   | false => fun E => right (fun H => eq_ind true (fun b0 => if b0 then True else False) I false (eq_trans (eq_sym (proj2 (ident_eqb_eq a b) H)) E))
                                   end eq_refl) (ds_ident x) keys) as [Hin|Hout].
      + assert (Hy' : In (ds_ident y) keys) by (apply Hfriend; [exact Hy|]; apply Hboth; apply Hfriend; assumption).
        split; intros _; apply lookup_app_in; rewrite Hk; assumption.
      + assert (Hy' : ~ In (ds_ident y) keys) by (intros H; apply Hout; apply Hfriend; [exact Hx|]; apply Hboth; apply Hfriend; assumption).
        rewrite !lookup_app_notin by (rewrite Hk; assumption). apply Htg; assumption.
  Qed.
End Stable.

(* ------------------------------------------------------------------ generic passage through the argument loops *)
Section WithDescs.
  Variable c : coll.
  Variable h : nat.
  Variable Q : rstate -> Prop.
  Hypothesis Q_descs : forall rs, Q rs -> p_descs (rs_p rs) = c.
  Variable recd : rstate -> nat -> desc -> rstate * rres.
  Hypothesis recd_Q : forall rs d, In d c -> Q rs -> Q (fst (recd rs h d)).

  Lemma q_req rs t k : Q rs -> Q (fst (req recd rs h t k)).
  Proof.
    intros H. pose proof (Q_descs rs H) as Hd. unfold req.
    assert (Hfs : forall k', match find_service (p_descs (rs_p rs)) t k' with Some d => Q (fst (recd rs h d)) | None => True end).
    { intros k'. destruct (find_service (p_descs (rs_p rs)) t k') as [d|] eqn:Hf; [|exact I].
      apply recd_Q; [|exact H]. unfold find_service in Hf. apply find_some in Hf. rewrite <- Hd. exact (proj1 Hf). }
    destruct k.
    - destruct (builtin h t); [exact H|]. specialize (Hfs KNone). destruct (find_service _ t KNone); [exact Hfs|exact H].
    - specialize (Hfs (KName n)). destruct (find_service _ t (KName n)); [exact Hfs|exact H].
    - specialize (Hfs (KIdx n)). destruct (find_service _ t (KIdx n)); [exact Hfs|exact H].
    - specialize (Hfs (KVoid n)). destruct (find_service _ t (KVoid n)); [exact Hfs|exact H].
  Qed.
  Lemma q_group_loop ms : forall rs acc, (forall m, In m ms -> In m c) -> Q rs -> Q (fst (group_loop recd rs h ms acc)).
  Proof.
    induction ms as [|m ms IH]; intros rs acc Hin H; cbn [group_loop]; [exact H|].
    pose proof (recd_Q rs m (Hin m (or_introl eq_refl)) H) as H1.
    destruct (recd rs h m) as [rs1 [a|e|]]; cbn [fst] in *; try exact H1.
    destruct a; try exact H1; (apply IH; [intros x Hx; apply Hin; right; exact Hx|exact H1]).
  Qed.
  Lemma q_dep_value rs d : Q rs -> Q (fst (dep_value recd rs h d)).
  Proof.
    intros H. unfold dep_value. destruct (d_group d =? 0); [apply q_req; exact H|].
    unfold group_value. apply q_group_loop; [|exact H].
    intros m Hm. unfold group_members in Hm. apply filter_In in Hm. rewrite <- (Q_descs rs H). exact (proj1 Hm).
  Qed.
  Lemma q_args_loop ps : forall rs inobj acc, Q rs -> Q (fst (args_loop recd rs h inobj ps acc)).
  Proof.
    induction ps as [|[d|] ps IH]; intros rs inobj acc H; cbn [args_loop]; [exact H| |apply IH; exact H].
    pose proof (q_dep_value rs d H) as H1.
    destruct (dep_value recd rs h d) as [rs1 [a|e|]]; cbn [fst] in *.
    - apply IH; exact H1.
    - destruct (inobj && d_opt d); [apply IH|]; exact H1.
    - exact H1.
  Qed.
End WithDescs.

(* ------------------------------------------------------------------ which keys a construction writes *)
Lemma friends_single c d : In d c ->
  forall k, In k (map ds_ident (aliases_of c d) ++ [ds_ident d]) <-> exists x, In x c /\ same_call x d /\ ds_ident x = k.
Proof.
  intros Hd k. rewrite in_app_iff. cbn [In]. split.
  - intros [Hin|[<-|[]]].
    + apply in_map_iff in Hin. destruct Hin as [x [<- Hx]]. unfold aliases_of in Hx. apply filter_In in Hx. destruct Hx as [Hx Hb].
      apply andb_prop in Hb. destruct Hb as [Hb _]. apply andb_prop in Hb. destruct Hb as [H1 H2]. apply Nat.eqb_eq in H1, H2.
      exists x. repeat split; assumption.
    + exists d. repeat split; [exact Hd].
  - intros (x & Hx & [H1 H2] & <-). destruct (ident_eqb (ds_ident x) (ds_ident d)) eqn:E.
    + right. left. symmetry. apply ident_eqb_eq. exact E.
    + left. apply in_map. unfold aliases_of. apply filter_In. split; [exact Hx|].
      rewrite (proj2 (Nat.eqb_eq _ _) H1), (proj2 (Nat.eqb_eq _ _) H2), E. reflexivity.
Qed.

Lemma friends_multi c d : calls_wf c -> In d c -> multi (ds_reg d) = true ->
  forall k, (exists j sd, In j (seq 0 (arity (ds_reg d))) /\ output_desc c d j = Some sd /\ ds_ident sd = k) <->
            (exists x, In x c /\ same_call x d /\ ds_ident x = k).
Proof.
  intros (_ & H2 & _) Hd Hm k. split.
  - intros (j & sd & _ & Ho & E). destruct (output_desc_some c d j sd Ho) as (Hin & [E1 E2] & _).
    exists sd. repeat split; assumption.
  - intros (x & Hx & Hsc & E). destruct (H2 d x Hd Hx Hsc Hm) as [Ho Hlt].
    exists (ds_out x), x. split; [apply in_seq; lia|]. split; assumption.
Qed.

(* a transient construction writes no cache entry *)
Lemma adds_nil_trans h p1 p2 p3 : adds [] h p1 p2 -> adds [] h p2 p3 -> adds [] h p1 p3.
Proof. intros H1 H2. exact (adds_trans [] [] h p1 p2 p3 H1 H2). Qed.
Lemma adds_track h p i : adds [] h p (track_scope p h i).
Proof.
  repeat split; [apply descs_track_scope_s|apply len_track_scope|].
  exists []. split; [reflexivity|]. rewrite cache_track_scope. reflexivity.
Qed.
Lemma fan_out_transient h d inv ks : ds_life d = Transient -> forall p, adds [] h p (fan_out p h d inv ks).
Proof.
  intros Hl. induction ks as [|j rest IH]; intros p; cbn [fan_out]; [apply adds_refl|].
  rewrite Hl. cbn [life_eqb]. rewrite andb_false_r.
  destruct (output_desc (p_descs p) d j).
  - eapply adds_nil_trans; [|apply IH]. unfold store. apply adds_track.
  - eapply adds_nil_trans; [|apply IH]. unfold drop_output. apply adds_track.
Qed.
Lemma drop_only_adds_nothing h d inv ks : ds_life d <> Singleton -> forall p, adds [] h p (drop_only p h d inv ks).
Proof.
  intros Hl. induction ks as [|j rest IH]; intros p; cbn [drop_only]; [apply adds_refl|].
  destruct (output_desc (p_descs p) d j); [apply IH|].
  eapply adds_nil_trans; [|apply IH]. unfold drop_output. destruct (ds_life d); [congruence| |]; apply adds_track.
Qed.
Lemma share_all_transient h l i p : fold_left (fun p a => share Transient p h (ds_ident a) i) l p = p.
Proof. revert p; induction l as [|a l IH]; intros p; cbn [fold_left share]; [reflexivity|apply IH]. Qed.

Lemma St_keeps c h base rs1 p2 : St c h base rs1 -> adds [] h (rs_p rs1) p2 -> St c h base (with_p rs1 p2).
Proof.
  intros (Hd1 & Hl1 & Hst & Htg) (Hdd & Hlen & entries & Hk & Hc).
  destruct entries; [|discriminate]. cbn [app] in Hc.
  unfold St; cbn [rs_p with_p]. split; [congruence|]. split; [lia|]. split.
  - intros n i Hb. rewrite Hc. apply Hst. exact Hb.
  - intros x y Hx Hy Hxy. unfold cached. rewrite Hc. apply Htg; assumption.
Qed.
Lemma St_log c h base rs e : St c h base rs -> St c h base (log rs e).
Proof. intros H; exact H. Qed.
Lemma St_bump c h base rs rid e : St c h base rs -> St c h base (log (mkRs (bump_inv (rs_invs rs) rid) (rs_p rs) (rs_ev rs)) e).
Proof. intros H; exact H. Qed.

Section Create.
  Variable c : coll.
  Hypothesis Hwf : calls_wf c.
  Variable h : nat.
  Variable base : list (ident * inst).
  Variable recd : rstate -> nat -> desc -> rstate * rres.
  Hypothesis recd_St : forall rs d, In d c -> St c h base rs -> St c h base (fst (recd rs h d)).

  (* none of the identities of d's registration call has an answer in [base], because d itself has none now *)
  Lemma friends_absent rs d : St c h base rs -> In d c -> lookup_i (cache_of (rs_p rs) h) (ds_ident d) = None ->
    forall x, In x c -> same_call x d -> lookup_i base (ds_ident x) = None.
  Proof.
    intros (_ & _ & Hst & Htg) Hd Hnone x Hx Hsc.
    destruct (lookup_i base (ds_ident x)) as [i|] eqn:E; [|reflexivity]. exfalso.
    assert (Hcx : cached (rs_p rs) h x) by (unfold cached; rewrite (Hst _ _ E); discriminate).
    apply (Htg x d Hx Hd Hsc) in Hcx. apply Hcx. exact Hnone.
  Qed.

  Lemma create_St rs d : In d c -> St c h base rs -> ds_life d <> Singleton ->
    (ds_life d = Scoped -> lookup_i (cache_of (rs_p rs) h) (ds_ident d) = None) ->
    St c h base (fst (create recd rs h d)).
  Proof.
    intros Hd H Hns Hnone.
    assert (Hdescs : forall rs0, St c h base rs0 -> p_descs (rs_p rs0) = c) by (intros rs0 (E & _); exact E).
    (* the store phase, for every shape, from a state rs1 reached through the arguments *)
    assert (Hsingle : forall rs1 i, St c h base rs1 ->
              St c h base (with_p rs1 (fold_left (fun p a => share (ds_life d) p h (ds_ident a) i) (aliases_of (p_descs (store (ds_life d) (rs_p rs1) h (ds_ident d) i)) d)
                                                 (store (ds_life d) (rs_p rs1) h (ds_ident d) i)))).
    { intros rs1 i H1. pose proof H1 as (Hd1 & Hl1 & _).
      destruct (ds_life d) eqn:El; [congruence| |].
      - (* scoped *)
        pose proof (adds_store_scoped h (rs_p rs1) (ds_ident d) i Hl1) as Ha.
        assert (Hl2 : h < length (p_scopes (store Scoped (rs_p rs1) h (ds_ident d) i))) by (destruct Ha as (_ & E & _); rewrite E; exact Hl1).
        destruct (adds_share_all h (aliases_of (p_descs (store Scoped (rs_p rs1) h (ds_ident d) i)) d) i _ Hl2) as [keys [Hk Hin]].
        apply (St_after_adds c Hwf h base rs1 _ (keys ++ [ds_ident d]) d H1 Hd (adds_trans _ _ _ _ _ _ Ha Hk)).
        + intros k. rewrite <- (friends_single c d Hd k). rewrite !in_app_iff, Hin.
          destruct Ha as (Hdd & _). rewrite Hdd, Hd1. reflexivity.
        + intros k Hk'. assert (Hfr : exists x, In x c /\ same_call x d /\ ds_ident x = k).
          { apply (friends_single c d Hd k). rewrite in_app_iff in *. rewrite Hin in Hk'. destruct Ha as (Hdd & _). rewrite Hdd, Hd1 in Hk'. exact Hk'. }
          destruct Hfr as (x & Hx & Hsc & <-). exact (friends_absent rs d H Hd (Hnone eq_refl) x Hx Hsc).
      - (* transient *)
        rewrite share_all_transient. apply St_keeps; [exact H1|]. unfold store. apply adds_track. }
    assert (Hfan : forall rs1 inv n, St c h base rs1 -> multi (ds_reg d) = true -> n = arity (ds_reg d) ->
              St c h base (with_p rs1 (fan_out (rs_p rs1) h d inv (seq 0 n)))).
    { intros rs1 inv n H1 Hm ->. pose proof H1 as (Hd1 & Hl1 & _).
      destruct (ds_life d) eqn:El; [congruence| |].
      - destruct (fan_out_adds h d inv (seq 0 (arity (ds_reg d))) El (rs_p rs1) Hl1) as [keys [Hk Hin]].
        apply (St_after_adds c Hwf h base rs1 _ keys d H1 Hd Hk).
        + intros k. rewrite Hin, Hd1. apply friends_multi; assumption.
        + intros k Hk'. apply Hin in Hk'. rewrite Hd1 in Hk'. apply (friends_multi c d Hwf Hd Hm k) in Hk'.
          destruct Hk' as (x & Hx & Hsc & <-). exact (friends_absent rs d H Hd (Hnone eq_refl) x Hx Hsc).
      - apply St_keeps; [exact H1|]. apply fan_out_transient. exact El. }
    unfold create.
    destruct (r_form (ds_reg d)) as [t|io0 ps1 rets er|io0 ps1 fs er] eqn:Hf.
    - cbn [fst]. unfold set_instance. apply Hsingle. exact H.
    - destruct (reg_params (ds_reg d)) as [inobj ps0].
      pose proof (q_args_loop c h (St c h base) Hdescs recd recd_St ps0 rs inobj [] H) as H1.
      destruct (args_loop recd rs h inobj ps0 []) as [rs1 [args|e]]; cbn [fst] in *; [|exact H1].
      set (inv := get_inv (rs_invs rs1) (r_id (ds_reg d))).
      set (rs2' := log (mkRs (bump_inv (rs_invs rs1) (r_id (ds_reg d))) (rs_p rs1) (rs_ev rs1)) (EvCtor (r_id (ds_reg d)) inv args (effective_outcome (ds_reg d) inv))).
      assert (H3 : St c h base (if cancels (ds_reg d) inv then log rs2' EvCancel else rs2')) by (destruct (cancels (ds_reg d) inv); exact H1).
      set (rs2 := if cancels (ds_reg d) inv then log rs2' EvCancel else rs2') in *.
      destruct (effective_outcome (ds_reg d) inv); cbn [fst]; try exact H3.
      destruct rets as [|t0 [|t1 ts]]; cbn [fst]; unfold set_instance.
      + (* an initializer: its call has no other descriptor *)
        pose proof Hwf as (_ & _ & _ & H4).
        pose proof H3 as (Hd3 & Hl3 & _).
        destruct (ds_life d) eqn:El; [congruence| |].
        * pose proof (adds_store_scoped h (rs_p rs2) (ds_ident d) IVoid Hl3) as Ha.
          apply (St_after_adds c Hwf h base rs2 _ [ds_ident d] d H3 Hd Ha).
          -- intros k. cbn [In]. split.
             ++ intros [<-|[]]. exists d. repeat split; exact Hd.
             ++ intros (x & Hx & Hsc & <-). left. rewrite (H4 d x io0 ps1 er Hd Hx Hsc Hf). reflexivity.
          -- intros k [<-|[]]. exact (friends_absent rs d H Hd (Hnone eq_refl) d Hd (conj eq_refl eq_refl)).
        * apply St_keeps; [exact H3|]. unfold store. apply adds_track.
      + apply Hsingle. exact H3.
      + apply Hfan; [exact H3|unfold multi; rewrite Hf; reflexivity|unfold arity; rewrite Hf; reflexivity].
    - destruct (reg_params (ds_reg d)) as [inobj ps0].
      pose proof (q_args_loop c h (St c h base) Hdescs recd recd_St ps0 rs inobj [] H) as H1.
      destruct (args_loop recd rs h inobj ps0 []) as [rs1 [args|e]]; cbn [fst] in *; [|exact H1].
      set (inv := get_inv (rs_invs rs1) (r_id (ds_reg d))).
      set (rs2' := log (mkRs (bump_inv (rs_invs rs1) (r_id (ds_reg d))) (rs_p rs1) (rs_ev rs1)) (EvCtor (r_id (ds_reg d)) inv args (effective_outcome (ds_reg d) inv))).
      assert (H3 : St c h base (if cancels (ds_reg d) inv then log rs2' EvCancel else rs2')) by (destruct (cancels (ds_reg d) inv); exact H1).
      set (rs2 := if cancels (ds_reg d) inv then log rs2' EvCancel else rs2') in *.
      destruct (effective_outcome (ds_reg d) inv); cbn [fst]; try exact H3.
      match goal with |- context [stores_any ?a ?b ?c] => destruct (stores_any a b c) end; cbn [fst].
      + apply Hfan; [exact H3|unfold multi; rewrite Hf; reflexivity|unfold arity; rewrite Hf; reflexivity].
      + apply St_keeps; [exact H3|]. apply drop_only_adds_nothing. exact Hns.
  Qed.
End Create.

Theorem resolve_St c (Hwf : calls_wf c) h base : forall fuel rs d, In d c -> St c h base rs -> St c h base (fst (resolve_d fuel rs h d)).
Proof.
  induction fuel as [|f IH]; intros rs d Hd H; cbn [resolve_d]; [exact H|].
  destruct (ds_life d) eqn:El.
  - destruct (lookup_i (p_single (rs_p rs)) (ds_ident d)); exact H.
  - destruct (lookup_i (sc_cache (get_scope (rs_p rs) h)) (ds_ident d)) eqn:Hc; [exact H|].
    apply (create_St c Hwf h base (resolve_d f)); [intros rs0 d0 Hd0 H0; apply IH; assumption|exact Hd|exact H|congruence|intros _; exact Hc].
  - apply (create_St c Hwf h base (resolve_d f)); [intros rs0 d0 Hd0 H0; apply IH; assumption|exact Hd|exact H|congruence|congruence].
Qed.

(* C02, sequential: whatever is resolved in scope h, what the scope already answered it keeps answering *)
Theorem cached_answers_are_stable c fuel rs h d :
  calls_wf c -> p_descs (rs_p rs) = c -> h < length (p_scopes (rs_p rs)) -> together c (rs_p rs) h -> In d c ->
  (forall n i, lookup_i (cache_of (rs_p rs) h) n = Some i -> lookup_i (cache_of (rs_p (fst (resolve_d fuel rs h d))) h) n = Some i) /\
  together c (rs_p (fst (resolve_d fuel rs h d))) h.
Proof.
  intros Hwf Hd Hl Htg Hin.
  assert (H0 : St c h (cache_of (rs_p rs) h) rs) by (unfold St; split; [exact Hd|]; split; [exact Hl|]; split; [intros n i E; exact E|exact Htg]).
  destruct (resolve_St c Hwf h (cache_of (rs_p rs) h) fuel rs d Hin H0) as (_ & _ & Hst & Htg'). split; assumption.
Qed.

(* a scope that has answered nothing yet has its calls "together" *)
Lemma together_empty c p h : cache_of p h = [] -> together c p h.
Proof. intros E x y _ _ _. unfold cached. rewrite E. cbn. tauto. Qed.

(* hence: once a scoped service has been resolved in a scope, every later resolution of it in that scope - whatever was
   resolved in between, in that scope - returns the same instance *)
Theorem scoped_instance_is_the_same_forever c fuel fuel' rs h d d' i :
  calls_wf c -> p_descs (rs_p rs) = c -> h < length (p_scopes (rs_p rs)) -> together c (rs_p rs) h -> In d c -> In d' c ->
  ds_life d = Scoped -> lookup_i (cache_of (rs_p rs) h) (ds_ident d) = Some i ->
  snd (resolve_d (S fuel') (fst (resolve_d fuel rs h d')) h d) = ROkV (aval_of i).
Proof.
  intros Hwf Hd Hl Htg Hin Hin' Hlife Hc.
  destruct (cached_answers_are_stable c fuel rs h d' Hwf Hd Hl Htg Hin') as [Hst _].
  specialize (Hst _ _ Hc). unfold cache_of in Hst.
  rewrite (resolve_scoped_cached fuel' _ h d i Hlife Hst). reflexivity.
Qed.

(* non-vacuity: the registry built by two registration calls - a scoped multi-return constructor and a scoped
   service under two interfaces - meets [calls_wf] *)
Example a_registry_with_wellformed_calls :
  let r1 := mkReg 1 Scoped (FCtor false [] [0; 9] false) 0 0 [] [] [0; 9] [false; false] 0 in
  let r2 := mkReg 2 Scoped (FCtor false [] [3] false) 0 0 [16; 17] [] [3] [false] 0 in
  let c := w_coll (fst (run_from init_world [OAdd r1; OAdd r2])) in
  length c = 4 /\ calls_wf c.
Proof.
  cbv zeta. vm_compute w_coll. split; [reflexivity|]. unfold calls_wf. split; [|split; [|split]].
  - repeat constructor; cbn; intuition discriminate.
  - intros d x Hd Hx [H1 H2] Hm. cbn in Hd, Hx.
    repeat (destruct Hd as [<-|Hd]; [|]); try contradiction; cbn in Hm; try discriminate;
      repeat (destruct Hx as [<-|Hx]; [|]); try contradiction; cbn in H1, H2; try discriminate; cbn; split; (reflexivity || lia).
  - intros d x Hd Hx [H1 H2]. cbn in Hd, Hx.
    repeat (destruct Hd as [<-|Hd]; [|]); try contradiction;
      repeat (destruct Hx as [<-|Hx]; [|]); try contradiction; cbn in H1, H2; try discriminate; reflexivity.
  - intros d x io ps e Hd Hx _ Hf. cbn in Hd.
    repeat (destruct Hd as [<-|Hd]; [|]); try contradiction; cbn in Hf; discriminate.
Qed.
