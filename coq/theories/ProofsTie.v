(* ProofsTie.v — what a passed correspondence means.  [corr ops obs = 0] is computed for every generated case on
   every run; this file proves that it says: the observed trace is, step for step and up to the canonical order
   of the Closed events of one step, a trace of the model on the same operations - where the creation-order
   oracle of a failing Build may have been extended by the one singleton that Build was about to construct
   (unobservable).  So every theorem about [run_from] speaks about the behaviour that was observed. *)
From Godi Require Import Base Model Check.

Definition oracle_variant (o o' : op) : Prop :=
  o' = o \/ exists ord x, o = OBuild ord /\ o' = OBuild (ord ++ [x]).
Definition steps_agree (m obs : trace) : Prop := Forall2 (fun a b => step_eqb a b = true) m obs.

Lemma first_diff_zero : forall m obs n, n <> 0 -> first_diff n m obs = 0 -> steps_agree m obs.
Proof.
  induction m as [|a m IH]; intros [|b obs] n Hn H; cbn [first_diff] in H; try congruence.
  - constructor.
  - destruct (step_eqb a b) eqn:E; [|congruence]. constructor; [exact E|]. apply (IH obs (S n)); [discriminate|exact H].
Qed.

Lemma candidates_are_variants w o ob o' : In o' (build_candidates w o ob) -> oracle_variant o o'.
Proof.
  unfold build_candidates. destruct o; try (intros [<-|[]]; left; reflexivity).
  destruct (snd ob); try (intros [<-|[]]; left; reflexivity).
  intros [<-|Hin]; [left; reflexivity|]. apply in_map_iff in Hin. destruct Hin as [x [<- _]].
  right. exists ord, x. split; reflexivity.
Qed.

Lemma step_obs_is_a_step w o ob : exists o', oracle_variant o o' /\
  step_obs w o ob = (let '(w1, evs, r) := step w o' in (w1, (evs, r))).
Proof.
  unfold step_obs.
  destruct (find _ (build_candidates w o ob)) as [o'|] eqn:Hf.
  - exists o'. split; [|reflexivity]. apply find_some in Hf. destruct Hf as [Hin _]. exact (candidates_are_variants w o ob o' Hin).
  - exists o. split; [left; reflexivity|reflexivity].
Qed.

Lemma guided_is_a_run : forall ops obs w, exists ops',
  Forall2 oracle_variant ops ops' /\ run_guided w ops obs = snd (run_from w ops').
Proof.
  induction ops as [|o ops IH]; intros obs w.
  - exists []. split; [constructor|reflexivity].
  - destruct obs as [|ob obs]; cbn [run_guided].
    + destruct (step w o) as [[w1 evs] r] eqn:Es. destruct (IH [] w1) as [ops' [Hv He]].
      exists (o :: ops'). split; [constructor; [left; reflexivity|exact Hv]|].
      cbn [run_from]. rewrite Es. destruct (run_from w1 ops') as [w2 tr]. cbn [snd] in *. rewrite He. reflexivity.
    + destruct (step_obs_is_a_step w o ob) as [o' [Hv Hs]]. rewrite Hs.
      destruct (step w o') as [[w1 evs] r] eqn:Es. destruct (IH obs w1) as [ops' [Hvs He]].
      exists (o' :: ops'). split; [constructor; assumption|].
      cbn [run_from]. rewrite Es. destruct (run_from w1 ops') as [w2 tr]. cbn [snd] in *. rewrite He. reflexivity.
Qed.

Theorem passed_correspondence_is_a_model_trace ops obs :
  corr ops obs = 0 ->
  exists ops', Forall2 oracle_variant ops ops' /\ steps_agree (snd (run_from init_world ops')) obs.
Proof.
  unfold corr. intros H.
  destruct (guided_is_a_run ops obs init_world) as [ops' [Hv He]].
  exists ops'. split; [exact Hv|]. rewrite <- He. apply (first_diff_zero _ _ 1); [discriminate|exact H].
Qed.

Print Assumptions passed_correspondence_is_a_model_trace.
