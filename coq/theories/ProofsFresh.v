(* ProofsFresh.v — C03 (and the "may be retried" half of C02/C15): every construction takes the next invocation
   number of its registration; numbers never go down; so the instance a transient request constructs carries a
   number no earlier instance of that registration carries - it is a new instance, for every request. *)
From Godi Require Import Base Model ProofsRuntime.

Definition inv_le (a b : list (nat * nat)) : Prop := forall rid, get_inv a rid <= get_inv b rid.
Lemma inv_le_refl a : inv_le a a. Proof. intros rid; lia. Qed.
Lemma inv_le_trans a b c : inv_le a b -> inv_le b c -> inv_le a c.
Proof. intros H1 H2 rid. specialize (H1 rid). specialize (H2 rid). lia. Qed.

Lemma get_inv_bump_same l rid : get_inv (bump_inv l rid) rid = S (get_inv l rid).
Proof.
  induction l as [|[r n] l IH]; cbn [bump_inv get_inv].
  - rewrite Nat.eqb_refl. reflexivity.
  - destruct (r =? rid) eqn:E; cbn [get_inv]; rewrite E; [reflexivity|exact IH].
Qed.
Lemma get_inv_bump_other l rid rid' : rid <> rid' -> get_inv (bump_inv l rid) rid' = get_inv l rid'.
Proof.
  intros Hne. induction l as [|[r n] l IH]; cbn [bump_inv get_inv].
  - destruct (rid =? rid') eqn:E; [apply Nat.eqb_eq in E; contradiction|reflexivity].
  - destruct (r =? rid) eqn:E; cbn [get_inv].
    + apply Nat.eqb_eq in E. subst r. destruct (rid =? rid') eqn:E2; [apply Nat.eqb_eq in E2; contradiction|reflexivity].
    + destruct (r =? rid'); [reflexivity|exact IH].
Qed.
Lemma inv_le_bump l rid : inv_le l (bump_inv l rid).
Proof.
  intros rid'. destruct (Nat.eq_dec rid rid') as [->|Hne]; [rewrite get_inv_bump_same; lia|rewrite get_inv_bump_other by exact Hne; lia].
Qed.

(* a predicate on the invocation table that survives every construction survives every resolution *)
Section Invs.
  Variable Q : list (nat * nat) -> Prop.
  Hypothesis Q_bump : forall l rid, Q l -> Q (bump_inv l rid).
  Definition Qrs (rs : rstate) : Prop := Q (rs_invs rs).

  Section WithRec.
    Variable recd : rstate -> nat -> desc -> rstate * rres.
    Hypothesis recd_Q : forall rs h d, Qrs rs -> Qrs (fst (recd rs h d)).

    Lemma req_Q rs h t k : Qrs rs -> Qrs (fst (req recd rs h t k)).
    Proof.
      intros H. unfold req.
      destruct k; try (destruct (find_service (p_descs (rs_p rs)) t _); [apply recd_Q|]; exact H).
      destruct (builtin h t); [exact H|]. destruct (find_service (p_descs (rs_p rs)) t KNone); [apply recd_Q|]; exact H.
    Qed.
    Lemma group_loop_Q ms : forall rs h acc, Qrs rs -> Qrs (fst (group_loop recd rs h ms acc)).
    Proof.
      induction ms as [|m ms IH]; intros rs h acc H; cbn [group_loop]; [exact H|].
      pose proof (recd_Q rs h m H) as H1.
      destruct (recd rs h m) as [rs1 [a|e|]]; cbn [fst] in *; try exact H1.
      destruct a; try exact H1; apply IH; exact H1.
    Qed.
    Lemma dep_value_Q rs h d : Qrs rs -> Qrs (fst (dep_value recd rs h d)).
    Proof.
      intros H. unfold dep_value. destruct (d_group d =? 0); [apply req_Q; exact H|].
      unfold group_value. apply group_loop_Q. exact H.
    Qed.
    Lemma args_loop_Q ps : forall rs h inobj acc, Qrs rs -> Qrs (fst (args_loop recd rs h inobj ps acc)).
    Proof.
      induction ps as [|[d|] ps IH]; intros rs h inobj acc H; cbn [args_loop]; [exact H| |apply IH; exact H].
      pose proof (dep_value_Q rs h d H) as H1.
      destruct (dep_value recd rs h d) as [rs1 [a|e|]]; cbn [fst] in *.
      - apply IH; exact H1.
      - destruct (inobj && d_opt d); [apply IH|]; exact H1.
      - exact H1.
    Qed.
    Lemma create_Q rs h d : Qrs rs -> Qrs (fst (create recd rs h d)).
    Proof.
      intros H. unfold create.
      destruct (r_form (ds_reg d)) as [t|io0 ps1 rets er|io0 ps1 fs er] eqn:Hf.
      - exact H.
      - destruct (reg_params (ds_reg d)) as [inobj ps0].
        pose proof (args_loop_Q ps0 rs h inobj [] H) as H1.
        destruct (args_loop recd rs h inobj ps0 []) as [rs1 [args|e]]; cbn [fst] in *; [|exact H1].
        assert (H2 : Q (bump_inv (rs_invs rs1) (r_id (ds_reg d)))) by (apply Q_bump; exact H1).
        destruct (cancels (ds_reg d) (get_inv (rs_invs rs1) (r_id (ds_reg d))));
        (destruct (effective_outcome (ds_reg d) (get_inv (rs_invs rs1) (r_id (ds_reg d)))); cbn [fst]; try exact H2;
         destruct rets as [|t0 [|t1 ts]]; exact H2).
      - destruct (reg_params (ds_reg d)) as [inobj ps0].
        pose proof (args_loop_Q ps0 rs h inobj [] H) as H1.
        destruct (args_loop recd rs h inobj ps0 []) as [rs1 [args|e]]; cbn [fst] in *; [|exact H1].
        assert (H2 : Q (bump_inv (rs_invs rs1) (r_id (ds_reg d)))) by (apply Q_bump; exact H1).
        destruct (cancels (ds_reg d) (get_inv (rs_invs rs1) (r_id (ds_reg d))));
        (destruct (effective_outcome (ds_reg d) (get_inv (rs_invs rs1) (r_id (ds_reg d)))); cbn [fst]; try exact H2;
         match goal with |- context [stores_any ?a ?b ?c] => destruct (stores_any a b c) end; exact H2).
    Qed.
  End WithRec.

  Theorem resolve_Q : forall fuel rs h d, Qrs rs -> Qrs (fst (resolve_d fuel rs h d)).
  Proof.
    induction fuel as [|f IH]; intros rs h d H; cbn [resolve_d]; [exact H|].
    destruct (ds_life d).
    - destruct (lookup_i (p_single (rs_p rs)) (ds_ident d)); exact H.
    - destruct (lookup_i (sc_cache (get_scope (rs_p rs) h)) (ds_ident d)); [exact H|]. apply create_Q; [exact IH|exact H].
    - apply create_Q; [exact IH|exact H].
  Qed.
End Invs.

(* invocation numbers never go down *)
Theorem invocations_monotone fuel rs h d : inv_le (rs_invs rs) (rs_invs (fst (resolve_d fuel rs h d))).
Proof.
  apply (resolve_Q (fun l => inv_le (rs_invs rs) l)).
  - intros l rid H. eapply inv_le_trans; [exact H|apply inv_le_bump].
  - apply inv_le_refl.
Qed.
Lemma args_monotone fuel rs h inobj ps : inv_le (rs_invs rs) (rs_invs (fst (args_loop (resolve_d fuel) rs h inobj ps []))).
Proof.
  apply (args_loop_Q (fun l => inv_le (rs_invs rs) l) (resolve_d fuel)).
  - intros rs0 h0 d0 H. apply (resolve_Q (fun l => inv_le (rs_invs rs) l)); [|exact H].
    intros l rid Hl. eapply inv_le_trans; [exact Hl|apply inv_le_bump].
  - apply inv_le_refl.
Qed.

Lemma args_loop_failure recd ps : forall rs h inobj acc rs1 e,
  args_loop recd rs h inobj ps acc = (rs1, inr e) -> forall a, e <> ROkV a.
Proof.
  induction ps as [|[d|] ps IH]; intros rs h inobj acc rs1 e; cbn [args_loop]; [discriminate| |apply IH].
  destruct (dep_value recd rs h d) as [rs2 [a|e0|]].
  - apply IH.
  - destruct (inobj && d_opt d); [apply IH|]. intros E; inversion E; subst. discriminate.
  - intros E; inversion E; subst. discriminate.
Qed.

(* what a constructor-backed transient request hands out was made by an invocation that had not happened before
   the request and has happened after it *)
Theorem transient_request_constructs_a_new_instance fuel rs h d rs' i :
  ds_life d = Transient ->
  (forall t, r_form (ds_reg d) <> FInst t) ->
  resolve_d (S fuel) rs h d = (rs', ROkV (AInst i)) ->
  i = IVoid \/
  exists inv k dyn, i = IObj (ds_rid d) inv k dyn /\
    get_inv (rs_invs rs) (ds_rid d) <= inv < get_inv (rs_invs rs') (ds_rid d).
Proof.
  intros Hl Hni. cbn [resolve_d]. rewrite Hl. unfold create, ds_rid.
  destruct (r_form (ds_reg d)) as [t|io0 ps1 rets er|io0 ps1 fs er] eqn:Hf; [exfalso; exact (Hni t eq_refl)| |].
  - destruct (reg_params (ds_reg d)) as [inobj ps0].
    pose proof (args_monotone fuel rs h inobj ps0) as Hm.
    destruct (args_loop (resolve_d fuel) rs h inobj ps0 []) as [rs1 [args|e]] eqn:Ea; cbn [fst] in Hm;
      [|intros E; inversion E; subst; exfalso; exact (args_loop_failure _ _ _ _ _ _ _ _ Ea _ eq_refl)].
    specialize (Hm (r_id (ds_reg d))).
    destruct (cancels (ds_reg d) (get_inv (rs_invs rs1) (r_id (ds_reg d))));
    (destruct (effective_outcome (ds_reg d) (get_inv (rs_invs rs1) (r_id (ds_reg d)))); try discriminate;
     destruct rets as [|t0 [|t1 ts]];
     [intros E; inversion E; subst; clear E; left; reflexivity
     |intros E; inversion E; subst; clear E; right; unfold out_inst; do 3 eexists; split; [reflexivity|]; cbn [rs_invs with_p log]; rewrite get_inv_bump_same; lia
     |unfold aval_of, out_inst; destruct (nth_default 0 (r_dyn (ds_reg d)) (ds_out d) =? T_NILOUT); intros E; inversion E; subst; clear E;
      right; do 3 eexists; split; [reflexivity|]; cbn [rs_invs with_p log]; rewrite get_inv_bump_same; lia]).
  - destruct (reg_params (ds_reg d)) as [inobj ps0].
    pose proof (args_monotone fuel rs h inobj ps0) as Hm.
    destruct (args_loop (resolve_d fuel) rs h inobj ps0 []) as [rs1 [args|e]] eqn:Ea; cbn [fst] in Hm;
      [|intros E; inversion E; subst; exfalso; exact (args_loop_failure _ _ _ _ _ _ _ _ Ea _ eq_refl)].
    specialize (Hm (r_id (ds_reg d))).
    destruct (cancels (ds_reg d) (get_inv (rs_invs rs1) (r_id (ds_reg d))));
    (destruct (effective_outcome (ds_reg d) (get_inv (rs_invs rs1) (r_id (ds_reg d)))); try discriminate;
     match goal with |- context [stores_any ?a ?b ?c] => destruct (stores_any a b c) end; try discriminate;
     unfold aval_of, out_inst; destruct (nth_default 0 (r_dyn (ds_reg d)) (ds_out d) =? T_NILOUT); intros E; inversion E; subst; clear E;
     right; do 3 eexists; split; [reflexivity|]; cbn [rs_invs with_p log]; rewrite get_inv_bump_same; lia).
Qed.
