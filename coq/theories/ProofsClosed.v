(* ProofsClosed.v — "closed means closed" over whole histories (C13): once a scope (or a provider) is closed,
   it stays closed under every later operation, and therefore every later use is refused. *)
From Godi Require Import Base Model Check ProofsRuntime.

Definition closed_at (p : prov) (k : nat) : Prop := sc_open (get_scope p k) = false.

Lemma get_scope_upd_scope_other p h f k : h <> k -> get_scope (upd_scope p h f) k = get_scope p k.
Proof. intros H. unfold get_scope, upd_scope; cbn [p_scopes]. apply nth_upd_nth_other. exact H. Qed.

Lemma closed_upd_scope p h f k :
  (forall s, sc_open s = false -> sc_open (f s) = false) -> closed_at p k -> closed_at (upd_scope p h f) k.
Proof.
  intros Hf Hc. unfold closed_at in *. destruct (Nat.eq_dec h k) as [->|Hne].
  - unfold get_scope, upd_scope in *; cbn [p_scopes].
    destruct (Nat.lt_ge_cases k (length (p_scopes p))) as [Hlt|Hge].
    + rewrite nth_upd_nth_same by exact Hlt. apply Hf. exact Hc.
    + rewrite nth_upd_nth_oob by exact Hge. exact Hc.
  - rewrite get_scope_upd_scope_other by exact Hne. exact Hc.
Qed.

(* Close never reopens anything *)
Lemma close_scope_mono : forall fuel ord p h k,
  closed_at p k -> closed_at (fst (fst (close_scope fuel ord p h))) k.
Proof.
  induction fuel as [|f IH]; intros ord p h k Hc; cbn [close_scope]; [exact Hc|].
  destruct (negb (sc_open (get_scope p h))); [exact Hc|].
  set (p0 := upd_scope p h _).
  assert (Hc0 : closed_at p0 k) by (unfold p0; apply closed_upd_scope; [intros s _; reflexivity|exact Hc]).
  assert (Hfold : forall ks acc, closed_at (fst (fst acc)) k ->
            closed_at (fst (fst (fold_left (fun '(pa, ea, na) k0 =>
                     let '(pb, eb, nb) := close_scope f ord pa k0 in (pb, ea ++ eb, if nb =? 0 then na else S na)) ks acc))) k).
  { induction ks as [|k0 ks IHk]; intros [[pa ea] na] Hacc; cbn [fold_left]; [exact Hacc|].
    apply IHk. pose proof (IH ord pa k0 k Hacc) as Hk. destruct (close_scope f ord pa k0) as [[pb eb] nb]. exact Hk. }
  specialize (Hfold (nodup_nat (order_by ord (open_children p0 h))) (p0, [], 0) Hc0).
  destruct (fold_left _ _ (p0, [], 0)) as [[p1 evs1] n1]. cbn [fst] in Hfold.
  destruct (close_insts (p_descs p1) h (sc_disp (get_scope p1 h))) as [evs2 n2]. cbn [fst].
  apply closed_upd_scope; [intros s _; reflexivity|exact Hfold].
Qed.

(* the scope that is closed is closed afterwards *)
Lemma close_scope_closes fuel ord p h : closed_at (fst (fst (close_scope (S fuel) ord p h))) h.
Proof.
  destruct (sc_open (get_scope p h)) eqn:Ho.
  - destruct (Nat.lt_ge_cases h (length (p_scopes p))) as [Hlt|Hge].
    + pose proof (close_scope_releases fuel ord p h Hlt Ho) as (_ & _ & H). exact H.
    + unfold get_scope in Ho. rewrite nth_overflow in Ho by exact Hge. discriminate.
  - rewrite close_scope_idempotent by exact Ho. exact Ho.
Qed.

Lemma closed_fold_close (f : prov -> nat) ord ks : forall acc k,
  closed_at (fst (fst acc)) k ->
  closed_at (fst (fst (fold_left (fun '(pa, ea, na) k0 =>
        let '(pb, eb, nb) := close_scope (f pa) ord pa k0 in (pb, ea ++ eb, if nb =? 0 then na else S na)) ks acc))) k.
Proof.
  induction ks as [|k0 ks IH]; intros [[pa ea] na] k Hacc; cbn [fold_left]; [exact Hacc|].
  apply IH. pose proof (close_scope_mono (f pa) ord pa k0 k Hacc) as Hk.
  destruct (close_scope (f pa) ord pa k0) as [[pb eb] nb]. exact Hk.
Qed.

Lemma close_provider_mono ord p k : closed_at p k -> closed_at (fst (fst (close_provider ord p))) k.
Proof.
  intros Hc. unfold close_provider. destruct (negb (p_open p)); [exact Hc|].
  set (p0 := mkProv _ _ _ _ false).
  assert (Hc0 : closed_at p0 k) by exact Hc.
  pose proof (closed_fold_close scope_fuel ord (nodup_nat (order_by ord (open_scopes p0))) (p0, [], 0) k Hc0) as Hf.
  destruct (fold_left _ _ (p0, [], 0)) as [[p1 evs1] n1]. cbn [fst] in Hf.
  pose proof (close_scope_mono (scope_fuel p1) ord p1 0 k Hf) as H2.
  destruct (close_scope (scope_fuel p1) ord p1 0) as [[p2 evs2] n2]. cbn [fst] in H2.
  destruct (close_insts (p_descs p2) OWNER_PROV (p_sdisp p2)) as [evs3 n3]. cbn [fst]. exact H2.
Qed.

(* resolution keeps every open flag *)
Lemma shape_closed p p' k : scopes_shape p' = scopes_shape p -> closed_at p k -> closed_at p' k.
Proof.
  unfold closed_at, get_scope, scopes_shape. intros Hs Hc.
  assert (E : nth k (map (fun s => (sc_parent s, sc_ctx s, sc_open s)) (p_scopes p')) (0, 0, false) =
              nth k (map (fun s => (sc_parent s, sc_ctx s, sc_open s)) (p_scopes p)) (0, 0, false)) by (rewrite Hs; reflexivity).
  rewrite !(map_nth (fun s => (sc_parent s, sc_ctx s, sc_open s)) _ (mkScope 0 0 [] [] false)) in E.
  inversion E. congruence.
Qed.

Lemma resolve_req_shape rs h t key : scopes_shape (rs_p (fst (resolve_req rs h t key))) = scopes_shape (rs_p rs).
Proof.
  apply (resolve_req_preserves (fun p => scopes_shape p = scopes_shape (rs_p rs))); try reflexivity; intros.
  - rewrite shape_cache_set; assumption.
  - rewrite shape_track_scope; assumption.
  - rewrite shape_single_set; assumption.
  - rewrite shape_track_single; assumption.
Qed.
Lemma resolve_group_shape rs h t g : scopes_shape (rs_p (fst (resolve_group rs h t g))) = scopes_shape (rs_p rs).
Proof.
  apply (resolve_group_preserves (fun p => scopes_shape p = scopes_shape (rs_p rs))); try reflexivity; intros.
  - rewrite shape_cache_set; assumption.
  - rewrite shape_track_scope; assumption.
  - rewrite shape_single_set; assumption.
  - rewrite shape_track_single; assumption.
Qed.
Lemma run_inits_shape ds rs h : scopes_shape (rs_p (fst (run_inits rs h ds))) = scopes_shape (rs_p rs).
Proof.
  apply (run_inits_preserves (fun p => scopes_shape p = scopes_shape (rs_p rs))); try reflexivity; intros.
  - rewrite shape_cache_set; assumption.
  - rewrite shape_track_scope; assumption.
  - rewrite shape_single_set; assumption.
  - rewrite shape_track_single; assumption.
Qed.

(* ------------------------------------------------------------------ per operation *)
Definition scope_closed_in (w : world) (pi k : nat) : Prop := pi < length (w_provs w) /\ closed_at (get_prov w pi) k.

Lemma get_prov_set w i p j : i < length (w_provs w) ->
  get_prov (mkWorld (w_coll w) (w_void w) (upd_nth (w_provs w) i (fun _ => p)) (w_invs w) (w_cancelled w)) j =
  if i =? j then p else get_prov w j.
Proof.
  intros Hi. unfold get_prov; cbn [w_provs]. destruct (i =? j) eqn:E.
  - apply Nat.eqb_eq in E. subst. rewrite nth_upd_nth_same by exact Hi. reflexivity.
  - apply Nat.eqb_neq in E. apply nth_upd_nth_other. exact E.
Qed.

Definition closed_in (w : world) (pi k : nat) : Prop :=
  pi < length (w_provs w) /\ k < length (p_scopes (get_prov w pi)) /\ closed_at (get_prov w pi) k.

Lemma shape_len p p' : scopes_shape p' = scopes_shape p -> length (p_scopes p') = length (p_scopes p).
Proof. unfold scopes_shape. intros H. apply (f_equal (@length _)) in H. rewrite !map_length in H. exact H. Qed.

(* replacing provider i by one that is at least as long and keeps k closed *)
Lemma closed_in_set w i p pi k :
  i < length (w_provs w) ->
  (i = pi -> length (p_scopes (get_prov w pi)) <= length (p_scopes p) /\ (closed_at (get_prov w pi) k -> closed_at p k)) ->
  closed_in w pi k ->
  closed_in (mkWorld (w_coll w) (w_void w) (upd_nth (w_provs w) i (fun _ => p)) (w_invs w) (w_cancelled w)) pi k.
Proof.
  intros Hi Hp (H1 & H2 & H3). unfold closed_in. cbn [w_provs]. rewrite upd_nth_length. split; [exact H1|].
  rewrite get_prov_set by exact Hi. destruct (i =? pi) eqn:E.
  - apply Nat.eqb_eq in E. destruct (Hp E) as [Hl Hc]. split; [lia|apply Hc; exact H3].
  - split; assumption.
Qed.

Lemma closed_in_same_provs w w' pi k : w_provs w' = w_provs w -> closed_in w pi k -> closed_in w' pi k.
Proof. intros E (H1 & H2 & H3). unfold closed_in, get_prov in *. rewrite E. auto. Qed.

Lemma closed_app_scope p s k : k < length (p_scopes p) -> closed_at p k ->
  closed_at (mkProv (p_descs p) (p_scopes p ++ [s]) (p_single p) (p_sdisp p) (p_open p)) k.
Proof. intros Hk Hc. unfold closed_at, get_scope in *; cbn [p_scopes]. rewrite app_nth1 by exact Hk. exact Hc. Qed.

Lemma closed_firstn p n k : k < n -> closed_at p k ->
  closed_at (mkProv (p_descs p) (firstn n (p_scopes p)) (p_single p) (p_sdisp p) (p_open p)) k.
Proof.
  intros Hk Hc. unfold closed_at, get_scope in *; cbn [p_scopes].
  destruct (Nat.lt_ge_cases k (length (p_scopes p))) as [Hlt|Hge].
  - rewrite <- (firstn_skipn n (p_scopes p)) in Hc at 1. rewrite app_nth1 in Hc; [exact Hc|]. rewrite firstn_length. lia.
  - rewrite nth_overflow; [reflexivity|]. rewrite firstn_length. lia.
Qed.

Lemma len_fold_close (f : prov -> nat) ord ks : forall acc,
  length (p_scopes (fst (fst (fold_left (fun '(pa, ea, na) k0 =>
        let '(pb, eb, nb) := close_scope (f pa) ord pa k0 in (pb, ea ++ eb, if nb =? 0 then na else S na)) ks acc)))) =
  length (p_scopes (fst (fst acc))).
Proof.
  induction ks as [|k0 ks IH]; intros [[pa ea] na]; cbn [fold_left]; [reflexivity|].
  rewrite IH. pose proof (close_scope_len (f pa) ord pa k0) as Hk.
  destruct (close_scope (f pa) ord pa k0) as [[pb eb] nb]. exact Hk.
Qed.

Lemma close_provider_len ord p : length (p_scopes (fst (fst (close_provider ord p)))) = length (p_scopes p).
Proof.
  unfold close_provider. destruct (negb (p_open p)); [reflexivity|].
  set (p0 := mkProv _ _ _ _ false).
  pose proof (len_fold_close scope_fuel ord (nodup_nat (order_by ord (open_scopes p0))) (p0, [], 0)) as Hf.
  destruct (fold_left _ _ (p0, [], 0)) as [[p1 evs1] n1]. cbn [fst] in Hf.
  pose proof (close_scope_len (scope_fuel p1) ord p1 0) as H2.
  destruct (close_scope (scope_fuel p1) ord p1 0) as [[p2 evs2] n2]. cbn [fst] in H2.
  destruct (close_insts (p_descs p2) OWNER_PROV (p_sdisp p2)) as [evs3 n3]. cbn [fst p_scopes]. rewrite H2, Hf. reflexivity.
Qed.

(* cancelling a context: per provider a fold of Close calls *)
Lemma cancel_prov_len c ord p : length (p_scopes (fst (cancel_prov c ord p))) = length (p_scopes p).
Proof.
  unfold cancel_prov.
  set (ks := nodup_nat (order_by ord (filter (fun k => sc_ctx (get_scope p k) =? c) (open_scopes p)))).
  assert (H : forall acc, length (p_scopes (fst (fst (fold_left (fun '(pa, ea, na) k =>
               let '(pb, eb, nb) := close_scope (scope_fuel pa) ord pa k in (pb, ea ++ eb, na + nb)) ks acc)))) = length (p_scopes (fst (fst acc)))).
  { induction ks as [|k0 ks' IH]; intros [[pa ea] na]; cbn [fold_left]; [reflexivity|].
    rewrite IH. pose proof (close_scope_len (scope_fuel pa) ord pa k0) as Hk.
    destruct (close_scope (scope_fuel pa) ord pa k0) as [[pb eb] nb]. exact Hk. }
  specialize (H (p, [], 0)). destruct (fold_left _ ks (p, [], 0)) as [[p' evs] n]. exact H.
Qed.
Lemma cancel_prov_mono c ord p k : closed_at p k -> closed_at (fst (cancel_prov c ord p)) k.
Proof.
  intros Hc. unfold cancel_prov.
  set (ks := nodup_nat (order_by ord (filter (fun k => sc_ctx (get_scope p k) =? c) (open_scopes p)))).
  assert (H : forall acc, closed_at (fst (fst acc)) k -> closed_at (fst (fst (fold_left (fun '(pa, ea, na) k0 =>
               let '(pb, eb, nb) := close_scope (scope_fuel pa) ord pa k0 in (pb, ea ++ eb, na + nb)) ks acc))) k).
  { induction ks as [|k0 ks' IH]; intros [[pa ea] na] Hacc; cbn [fold_left]; [exact Hacc|].
    apply IH. pose proof (close_scope_mono (scope_fuel pa) ord pa k0 k Hacc) as Hk.
    destruct (close_scope (scope_fuel pa) ord pa k0) as [[pb eb] nb]. exact Hk. }
  specialize (H (p, [], 0) Hc). destruct (fold_left _ ks (p, [], 0)) as [[p' evs] n]. exact H.
Qed.
Lemma cancel_fold_provs c ord l : forall acc ea,
  fst (fold_left (fun '(acc, ea) pv => let '(pv', eb) := cancel_prov c ord pv in (acc ++ [pv'], ea ++ eb)) l (acc, ea)) =
  acc ++ map (fun pv => fst (cancel_prov c ord pv)) l.
Proof.
  induction l as [|pv l IH]; intros acc ea; cbn [fold_left map]; [rewrite app_nil_r; reflexivity|].
  destruct (cancel_prov c ord pv) as [pv' eb] eqn:E. rewrite IH. rewrite <- app_assoc. cbn [app fst]. reflexivity.
Qed.

Lemma step_keeps_closed w o pi k : closed_in w pi k -> closed_in (fst (fst (step w o))) pi k.
Proof.
  intros Hc. pose proof Hc as (Hpi & Hk & Hcl). destruct o; cbn [step].
  - destruct (add_service _ _ _) as [[c' v'] e]. apply (closed_in_same_provs w); [reflexivity|exact Hc].
  - apply (closed_in_same_provs w); [reflexivity|exact Hc].
  - apply (closed_in_same_provs w); [reflexivity|exact Hc].
  - destruct (apply_modules _ _) as [[c' v'] e]. apply (closed_in_same_provs w); [reflexivity|exact Hc].
  - exact Hc.
  - exact Hc.
  - exact Hc.
  - exact Hc.
  - (* Build: a new provider is appended, or nothing changes *)
    destruct (build (w_coll w) (w_invs w) ord) as [[invs evs] [p|e]]; cbn [fst].
    + unfold closed_in, get_prov in *; cbn [w_provs]. rewrite app_length. rewrite app_nth1 by exact Hpi. repeat split; [lia|exact Hk|exact Hcl].
    + apply (closed_in_same_provs w); [reflexivity|exact Hc].
  - (* CreateScope *)
    unfold create_scope.
    destruct (negb (handle_ok (get_prov w p) parent)); [exact Hc|].
    destruct ((parent =? 0) && negb (p_open (get_prov w p))); [exact Hc|].
    destruct (negb (parent =? 0) && negb (sc_open (get_scope (get_prov w p) parent))); [exact Hc|].
    destruct (Nat.lt_ge_cases p (length (w_provs w))) as [Hp|Hp].
    2:{ (* provider index out of range: the update is the identity *)
        match goal with |- context [run_inits ?a ?b ?c] => destruct (run_inits a b c) as [rs [r|]] end.
        - destruct (close_scope _ _ _ _) as [[p2 evs2] n2]. cbn [fst].
          unfold closed_in, get_prov in *; cbn [w_provs]. rewrite nth_upd_nth_oob by exact Hp. auto.
        - cbn [fst]. unfold closed_in, get_prov in *; cbn [w_provs]. rewrite nth_upd_nth_oob by exact Hp. auto. }
    match goal with |- context [run_inits ?a ?b ?c] => pose proof (run_inits_shape c a b) as Hsh; destruct (run_inits a b c) as [rs [r|]] end;
      cbn [fst rs_p] in Hsh.
    + (* failed creation: the new scope is closed and cut off *)
      pose proof (close_scope_len (scope_fuel (rs_p rs)) [] (rs_p rs) (length (p_scopes (get_prov w p)))) as Hl.
      pose proof (close_scope_mono (scope_fuel (rs_p rs)) [] (rs_p rs) (length (p_scopes (get_prov w p))) k) as Hm.
      destruct (close_scope _ _ _ _) as [[p2 evs2] n2]. cbn [fst] in *.
      apply closed_in_set; [exact Hp| |exact Hc].
      intros ->. cbn [p_scopes]. rewrite firstn_length. rewrite Hl. rewrite (shape_len _ _ Hsh). cbn [p_scopes]. rewrite app_length. cbn [length].
      split; [lia|]. intros Hcl'. apply closed_firstn; [exact Hk|]. apply Hm.
      eapply shape_closed; [exact Hsh|]. apply closed_app_scope; assumption.
    + apply closed_in_set; [exact Hp| |exact Hc].
      intros ->. rewrite (shape_len _ _ Hsh). cbn [p_scopes]. rewrite app_length. cbn [length]. split; [lia|].
      intros Hcl'. eapply shape_closed; [exact Hsh|]. apply closed_app_scope; assumption.
  - (* Resolve *)
    destruct (t =? T_NIL); [destruct (disposed_check _ _); exact Hc|].
    unfold do_resolve. destruct (negb (handle_ok (get_prov w p) h)); [exact Hc|]. destruct (disposed_check _ _); [exact Hc|].
    pose proof (resolve_req_shape (mkRs (w_invs w) (get_prov w p) []) h t (name_key n)) as Hsh.
    destruct (resolve_req _ _ _ _) as [rs r]. cbn [fst rs_p] in *.
    destruct (Nat.lt_ge_cases p (length (w_provs w))) as [Hp|Hp].
    + apply closed_in_set; [exact Hp| |exact Hc]. intros ->. rewrite (shape_len _ _ Hsh). split; [lia|]. intros Hcl'. eapply shape_closed; eauto.
    + unfold closed_in, get_prov in *; cbn [w_provs]. rewrite nth_upd_nth_oob by exact Hp. auto.
  - destruct (t =? T_NIL); [destruct (disposed_check _ _); exact Hc|].
    destruct (g =? 0); [destruct (disposed_check _ _); exact Hc|].
    unfold do_resolve. destruct (negb (handle_ok (get_prov w p) h)); [exact Hc|]. destruct (disposed_check _ _); [exact Hc|].
    pose proof (resolve_group_shape (mkRs (w_invs w) (get_prov w p) []) h t g) as Hsh.
    destruct (resolve_group _ _ _ _) as [rs r]. cbn [fst rs_p] in *.
    destruct (Nat.lt_ge_cases p (length (w_provs w))) as [Hp|Hp].
    + apply closed_in_set; [exact Hp| |exact Hc]. intros ->. rewrite (shape_len _ _ Hsh). split; [lia|]. intros Hcl'. eapply shape_closed; eauto.
    + unfold closed_in, get_prov in *; cbn [w_provs]. rewrite nth_upd_nth_oob by exact Hp. auto.
  - (* Close *)
    destruct (negb (handle_ok (get_prov w p) h) || (h =? 0)); [exact Hc|].
    pose proof (close_scope_len (scope_fuel (get_prov w p)) ord (get_prov w p) h) as Hl.
    pose proof (close_scope_mono (scope_fuel (get_prov w p)) ord (get_prov w p) h k) as Hm.
    destruct (close_scope _ _ _ _) as [[pv' evs] n]. cbn [fst] in *. unfold set_prov.
    destruct (Nat.lt_ge_cases p (length (w_provs w))) as [Hp|Hp].
    + apply closed_in_set; [exact Hp| |exact Hc]. intros ->. split; [lia|exact Hm].
    + unfold closed_in, get_prov in *; cbn [w_provs]. rewrite nth_upd_nth_oob by exact Hp. auto.
  - (* CloseProvider *)
    pose proof (close_provider_len ord (get_prov w p)) as Hl.
    pose proof (close_provider_mono ord (get_prov w p) k) as Hm.
    destruct (close_provider ord (get_prov w p)) as [[pv' evs] n]. cbn [fst] in *. unfold set_prov.
    destruct (Nat.lt_ge_cases p (length (w_provs w))) as [Hp|Hp].
    + apply closed_in_set; [exact Hp| |exact Hc]. intros ->. split; [lia|exact Hm].
    + unfold closed_in, get_prov in *; cbn [w_provs]. rewrite nth_upd_nth_oob by exact Hp. auto.
  - (* Cancel *)
    pose proof (cancel_fold_provs c ord (w_provs w) [] []) as Hf.
    destruct (fold_left _ (w_provs w) ([], [])) as [provs evs]. cbn [fst app] in Hf. subst provs. cbn [fst].
    unfold closed_in, get_prov in *; cbn [w_provs]. rewrite map_length. split; [exact Hpi|].
    rewrite (nth_indep _ closed_prov (fst (cancel_prov c ord closed_prov))) by (rewrite map_length; exact Hpi).
    rewrite (map_nth (fun pv => fst (cancel_prov c ord pv))).
    split; [rewrite cancel_prov_len; exact Hk|apply cancel_prov_mono; exact Hcl].
  - exact Hc.
  - exact Hc.
  - exact Hc.
  - exact Hc.
Qed.

(* ------------------------------------------------------------------ over whole histories *)
Theorem closed_stays_closed ops : forall w pi k, closed_in w pi k -> closed_in (fst (run_from w ops)) pi k.
Proof.
  induction ops as [|o ops IH]; intros w pi k Hc; cbn [run_from]; [exact Hc|].
  pose proof (step_keeps_closed w o pi k Hc) as H1.
  destruct (step w o) as [[w1 evs] r]. cbn [fst] in H1.
  specialize (IH w1 pi k H1). destruct (run_from w1 ops) as [w2 tr]. exact IH.
Qed.

(* hence: whatever happens in between, a later resolution on a closed scope is refused and changes nothing *)
Corollary closed_scope_refuses_forever ops w pi h t n :
  h <> 0 -> t <> T_NIL -> closed_in w pi h ->
  let w' := fst (run_from w ops) in step w' (OResolve pi h t n) = (w', [], RErr EScopeDisposed []).
Proof.
  intros Hh Ht Hc w'. destruct (closed_stays_closed ops w pi h Hc) as (H1 & H2 & H3).
  apply closed_scope_refuses; try assumption. unfold handle_ok. apply Nat.ltb_lt. exact H2.
Qed.

(* and Close does close: after Close on an open handle the scope is closed in the sense above *)
Theorem close_makes_closed w pi h ord :
  pi < length (w_provs w) -> h <> 0 -> h < length (p_scopes (get_prov w pi)) ->
  closed_in (fst (fst (step w (OClose pi h ord)))) pi h.
Proof.
  intros Hpi Hh Hlt. cbn [step]. unfold handle_ok.
  assert ((h <? length (p_scopes (get_prov w pi))) = true) as -> by (apply Nat.ltb_lt; exact Hlt).
  destruct (h =? 0) eqn:E; [apply Nat.eqb_eq in E; contradiction|]. cbn [negb orb].
  pose proof (close_scope_len (scope_fuel (get_prov w pi)) ord (get_prov w pi) h) as Hl.
  pose proof (close_scope_closes (length (p_scopes (get_prov w pi))) ord (get_prov w pi) h) as Hcl.
  unfold scope_fuel in *. destruct (close_scope (S (length (p_scopes (get_prov w pi)))) ord (get_prov w pi) h) as [[pv' evs] n]. cbn [fst] in *.
  unfold closed_in, set_prov. cbn [w_provs]. rewrite upd_nth_length. split; [exact Hpi|].
  rewrite get_prov_set by exact Hpi. rewrite Nat.eqb_refl. split; [lia|exact Hcl].
Qed.
