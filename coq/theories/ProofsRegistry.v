(* ProofsRegistry.v — theorems about the registry part of the model: modules are transparent
   (C20), the registry is exact and atomic (C17), reserved types are never registered (C18). *)
From Godi Require Import Base Model Check.

(* ------------------------------------------------------------------ small facts *)
Lemma key_eqb_refl k : key_eqb k k = true.
Proof. destruct k; cbn; auto using Nat.eqb_refl. Qed.
Lemma key_eqb_eq a b : key_eqb a b = true <-> a = b.
Proof.
  split; [|intros ->; apply key_eqb_refl].
  destruct a, b; cbn; try discriminate; try reflexivity; intros H; apply Nat.eqb_eq in H; subst; reflexivity.
Qed.

(* a custom induction principle for the nested module tree *)
Section ModuleInd.
  Variable P : module -> Prop.
  Hypothesis Hnil : P MNil.
  Hypothesis Hadd : forall r, P (MAdd r).
  Hypothesis Hrem : forall t, P (MRemove t).
  Hypothesis Hremk : forall t n, P (MRemoveKeyed t n).
  Hypothesis Hmod : forall n ms, Forall P ms -> P (MModule n ms).
  Fixpoint module_ind' (m : module) : P m :=
    match m with
    | MNil => Hnil
    | MAdd r => Hadd r
    | MRemove t => Hrem t
    | MRemoveKeyed t n => Hremk t n
    | MModule n ms => Hmod n ms ((fix go (l : list module) : Forall P l :=
                                    match l with
                                    | [] => Forall_nil P
                                    | x :: l' => Forall_cons x (module_ind' x) (go l')
                                    end) ms)
    end.
End ModuleInd.

(* ------------------------------------------------------------------ C20: modules are flat lists *)
Definition cstate := (coll * nat)%type.

(* one direct call on the collection *)
Definition direct_call (st : cstate) (o : op) : cstate * option eclass :=
  match o with
  | OAdd r => let '(c', v', e) := add_service (fst st) (snd st) r in ((c', v'), e)
  | ORemove t => ((remove_service (fst st) t KNone, snd st), None)
  | ORemoveKeyed t n => ((remove_service (fst st) t (name_key n), snd st), None)
  | _ => (st, None)
  end.

(* the flat reading of a module: its calls left to right, each with the names of the enclosing modules *)
Fixpoint flat_entries (m : module) : list (list nat * op) :=
  match m with
  | MNil => []
  | MAdd r => [([], OAdd r)]
  | MRemove t => [([], ORemove t)]
  | MRemoveKeyed t n => [([], ORemoveKeyed t n)]
  | MModule name ms => map (fun p => (name :: fst p, snd p)) (flat_map flat_entries ms)
  end.

Fixpoint run_flat (st : cstate) (l : list (list nat * op)) : cstate * option (eclass * list nat) :=
  match l with
  | [] => (st, None)
  | (ns, o) :: l' =>
      match direct_call st o with
      | (st', None) => run_flat st' l'
      | (st', Some e) => (st', Some (e, ns))
      end
  end.

Lemma run_flat_app st l1 l2 :
  run_flat st (l1 ++ l2) = match run_flat st l1 with
                           | (st', None) => run_flat st' l2
                           | r => r
                           end.
Proof.
  revert st; induction l1 as [|[ns o] l1 IH]; intros st; cbn [app run_flat]; [reflexivity|].
  destruct (direct_call st o) as [st' [e|]]; [reflexivity|apply IH].
Qed.

Lemma run_flat_map name st l :
  run_flat st (map (fun p => (name :: fst p, snd p)) l) =
  match run_flat st l with
  | (st', Some (e, ns)) => (st', Some (e, name :: ns))
  | (st', None) => (st', None)
  end.
Proof.
  revert st; induction l as [|[ns o] l IH]; intros st; cbn [map run_flat fst snd]; [reflexivity|].
  destruct (direct_call st o) as [st' [e|]]; [reflexivity|apply IH].
Qed.

Lemma surj_st (st : cstate) : (fst st, snd st) = st.
Proof. destruct st; reflexivity. Qed.

Theorem apply_module_flat : forall m st, apply_module m st = run_flat st (flat_entries m).
Proof.
  induction m as [| r | t | t n | name ms IH] using module_ind'; intros st;
    cbn [apply_module flat_entries run_flat direct_call].
  - reflexivity.
  - destruct (add_service (fst st) (snd st) r) as [[c' v'] [e|]]; reflexivity.
  - reflexivity.
  - reflexivity.
  - rewrite run_flat_map.
    revert st. induction IH as [|x l Hx Hl IHl]; intros st; cbn [flat_map run_flat]; [reflexivity|].
    rewrite run_flat_app, <- Hx.
    destruct (apply_module x st) as [st' [[e ns]|]]; [reflexivity|]. apply IHl.
Qed.

Theorem apply_modules_flat : forall ms st, apply_modules ms st = run_flat st (flat_map flat_entries ms).
Proof.
  induction ms as [|x l IH]; intros st; cbn [apply_modules flat_map]; [reflexivity|].
  rewrite run_flat_app, <- apply_module_flat.
  destruct (apply_module x st) as [st' [[e ns]|]]; [reflexivity|apply IH].
Qed.

(* the calls themselves are what Check.flatten_modules lists; the names are what Check.path_to computes *)
Lemma flat_entries_ops m : map snd (flat_entries m) = flatten_module m.
Proof.
  induction m as [| r | t | t n | name ms IH] using module_ind'; cbn [flat_entries flatten_module map snd]; try reflexivity.
  rewrite map_map. cbn [snd].
  induction IH as [|x l Hx Hl IHl]; cbn [flat_map]; [reflexivity|].
  rewrite map_app. change (fun x0 : list nat * op => snd x0) with (@snd (list nat) op) in *.
  rewrite Hx, IHl. reflexivity.
Qed.
Lemma flat_entries_ops_list ms : map snd (flat_map flat_entries ms) = flatten_modules ms.
Proof.
  unfold flatten_modules. induction ms as [|m ms IH]; cbn [flat_map]; [reflexivity|].
  rewrite map_app, flat_entries_ops, IH. reflexivity.
Qed.

(* direct registration: the same calls issued one by one, stopping at the first failure *)
Fixpoint run_direct (st : cstate) (l : list op) : cstate * option (eclass * nat) :=
  match l with
  | [] => (st, None)
  | o :: l' =>
      match direct_call st o with
      | (st', None) =>
          match run_direct st' l' with
          | (st'', Some (e, k)) => (st'', Some (e, S k))
          | r => r
          end
      | (st', Some e) => (st', Some (e, 0))
      end
  end.

Lemma run_flat_direct st l :
  fst (run_flat st l) = fst (run_direct st (map snd l)) /\
  match snd (run_flat st l), snd (run_direct st (map snd l)) with
  | None, None => True
  | Some (e, ns), Some (e', k) => e = e' /\ nth_error (map fst l) k = Some ns
  | _, _ => False
  end.
Proof.
  revert st; induction l as [|[ns o] l IH]; intros st; cbn [run_flat run_direct map snd fst]; [split; exact I || reflexivity|].
  destruct (direct_call st o) as [st' [e|]]; cbn [fst snd].
  - split; [reflexivity|split; reflexivity].
  - specialize (IH st'). destruct IH as [IH1 IH2].
    destruct (run_flat st' l) as [s1 [[e1 ns1]|]], (run_direct st' (map snd l)) as [s2 [[e2 k2]|]];
      cbn [fst snd] in *; try contradiction; split; auto.
Qed.

(* ------------------------------------------------------------------ C17: atomic, unique, removable *)
Lemma add_service_atomic c v r c' v' e : add_service c v r = (c', v', Some e) -> c' = c.
Proof.
  unfold add_service.
  destruct ((r_bad r =? 1) || (r_bad r =? 6)); [intros H; inversion H; reflexivity|].
  destruct ((negb (r_name r =? 0) && negb (r_group r =? 0)) || negb (r_bad r =? 0)); [intros H; inversion H; reflexivity|].
  destruct (is_void r && negb (r_group r =? 0)); [intros H; inversion H; reflexivity|].
  destruct (is_reserved (form_type (r_form r))); [intros H; inversion H; reflexivity|].
  destruct (run_steps c (add_steps r (S v))); intros H; inversion H; reflexivity.
Qed.

Lemma NoDup_app_intro {A} (a b : list A) :
  NoDup a -> NoDup b -> (forall x, In x a -> In x b -> False) -> NoDup (a ++ b).
Proof.
  induction a as [|x a IH]; intros Ha Hb Hd; cbn; [exact Hb|].
  inversion Ha; subst. constructor.
  - intros Hin. apply in_app_or in Hin. destruct Hin as [Hin|Hin]; [contradiction|]. exact (Hd x (or_introl eq_refl) Hin).
  - apply IH; [assumption|assumption|]. intros y Hy Hy'. exact (Hd y (or_intror Hy) Hy').
Qed.

Definition skey (d : desc) : ty * key := (ds_ty d, ds_key d).
Definition services (c : coll) : list desc := filter in_services c.
Definition uniq (c : coll) : Prop := NoDup (map skey (services c)).

Lemma find_service_none c t k :
  find_service c t k = None -> ~ In (t, k) (map skey (services c)).
Proof.
  unfold find_service, services. induction c as [|d c IH]; cbn [find filter map]; [intros _ []|].
  destruct (in_services d) eqn:Hs; cbn [andb].
  - destruct ((ds_ty d =? t) && key_eqb (ds_key d) k) eqn:Hm; [discriminate|].
    intros Hf [Heq|Hin]; [|exact (IH Hf Hin)].
    unfold skey in Heq. inversion Heq; subst. rewrite Nat.eqb_refl, key_eqb_refl in Hm. discriminate.
  - exact IH.
Qed.

Lemma find_service_some c t k d :
  find_service c t k = Some d -> In d c /\ in_services d = true /\ ds_ty d = t /\ ds_key d = k.
Proof.
  unfold find_service. intros H. apply find_some in H. destruct H as [Hin Hb].
  apply andb_prop in Hb. destruct Hb as [Hb Hk]. apply andb_prop in Hb. destruct Hb as [Hs Ht].
  apply Nat.eqb_eq in Ht. apply key_eqb_eq in Hk. auto.
Qed.

Lemma services_app c1 c2 : services (c1 ++ c2) = services c1 ++ services c2.
Proof. apply filter_app. Qed.

Lemma register_uniq c d c' : uniq c -> register c d = inl c' -> uniq c'.
Proof.
  unfold register, uniq. intros Hu.
  destruct (is_reserved (ds_ty d)); [discriminate|].
  assert (Hsvc : match find_service c (ds_ty d) (ds_key d) with Some _ => inr EAlready | None => inl (c ++ [d]) end = inl c' ->
                 in_services d = true -> NoDup (map skey (services c'))).
  { destruct (find_service c (ds_ty d) (ds_key d)) eqn:Hf; [discriminate|].
    intros H Hs; inversion H; subst. rewrite services_app, map_app. cbn [services filter]. rewrite Hs. cbn [map].
    apply NoDup_app_intro; [exact Hu|constructor; [intros []|constructor]|].
    intros x Hx [<-|[]]. exact (find_service_none _ _ _ Hf Hx). }
  destruct (ds_key d) eqn:Hk.
  - destruct (ds_grp d =? 0).
    + intros H; apply Hsvc; [exact H|unfold in_services; rewrite Hk; reflexivity].
    + intros H; inversion H; subst. rewrite services_app, map_app. cbn [services filter in_services ds_key map].
      rewrite app_nil_r. exact Hu.
  - intros H; apply Hsvc; [exact H|unfold in_services; rewrite Hk; reflexivity].
  - destruct (find_service c (ds_ty d) (KIdx n)); [discriminate|].
    intros H; inversion H; subst. rewrite services_app, map_app. cbn [services filter]. unfold in_services. rewrite Hk.
    cbn [map]. rewrite app_nil_r. exact Hu.
  - intros H; apply Hsvc; [exact H|unfold in_services; rewrite Hk; reflexivity].
Qed.

Lemma run_steps_uniq steps : forall c c', uniq c -> run_steps c steps = inl c' -> uniq c'.
Proof.
  induction steps as [|[d|e] rest IH]; intros c c' Hu; cbn [run_steps].
  - intros H; inversion H; subst; exact Hu.
  - destruct (register c d) as [c1|e] eqn:Hr; [|discriminate]. apply IH. eapply register_uniq; eauto.
  - discriminate.
Qed.

Lemma add_service_uniq c v r : uniq c -> uniq (fst (fst (add_service c v r))).
Proof.
  intros Hu. unfold add_service.
  destruct ((r_bad r =? 1) || (r_bad r =? 6)); [exact Hu|].
  destruct ((negb (r_name r =? 0) && negb (r_group r =? 0)) || negb (r_bad r =? 0)); [exact Hu|].
  destruct (is_void r && negb (r_group r =? 0)); [exact Hu|].
  destruct (is_reserved (form_type (r_form r))); [exact Hu|].
  destruct (run_steps c (add_steps r (S v))) eqn:Hs; cbn [fst]; [|exact Hu].
  eapply run_steps_uniq; eauto.
Qed.

(* removal keeps a sublist *)
Lemma remove_service_rm c t k : remove_service c t k = match find_service c t k with None => c | Some _ => rm t k c end.
Proof. reflexivity. Qed.

Lemma services_cons d c : services (d :: c) = if in_services d then d :: services c else services c.
Proof. reflexivity. Qed.

Lemma rm_services_incl t k c x : In x (map skey (services (rm t k c))) -> In x (map skey (services c)).
Proof.
  induction c as [|d c IH]; cbn [rm]; [auto|].
  destruct (in_services d && (ds_ty d =? t) && key_eqb (ds_key d) k) eqn:Hm.
  - rewrite services_cons. destruct (in_services d); [intros H; right; exact H|auto].
  - rewrite !services_cons. destruct (in_services d); [|exact IH].
    cbn [map]. intros [->|H]; [left; reflexivity|right; apply IH; exact H].
Qed.

Lemma rm_uniq t k c : uniq c -> uniq (rm t k c).
Proof.
  unfold uniq. induction c as [|d c IH]; cbn [rm]; [auto|].
  destruct (in_services d && (ds_ty d =? t) && key_eqb (ds_key d) k) eqn:Hm.
  - rewrite services_cons. destruct (in_services d); [cbn [map]; intros H; inversion H; assumption|auto].
  - rewrite !services_cons. destruct (in_services d) eqn:Hs; [|exact IH].
    cbn [map]. intros H; inversion H; subst. constructor; [|apply IH; assumption].
    intros Hin. apply H2. apply (rm_services_incl t k c). exact Hin.
Qed.

Lemma remove_service_uniq c t k : uniq c -> uniq (remove_service c t k).
Proof. intros Hu. rewrite remove_service_rm. destruct (find_service c t k); [apply rm_uniq|]; exact Hu. Qed.

(* after Remove the identity is gone *)
Lemma rm_gone t k c : uniq c -> find_service (rm t k c) t k = None.
Proof.
  unfold uniq. induction c as [|d c IH]; cbn [rm]; [reflexivity|].
  destruct (in_services d && (ds_ty d =? t) && key_eqb (ds_key d) k) eqn:Hm.
  - (* d is the entry: by uniqueness no other entry matches *)
    pose proof Hm as Hm'.
    apply andb_prop in Hm. destruct Hm as [Hm Hk]. apply andb_prop in Hm. destruct Hm as [Hs Ht].
    rewrite services_cons, Hs. cbn [map]. intros Hnd. inversion Hnd; subst.
    apply Nat.eqb_eq in Ht. apply key_eqb_eq in Hk.
    destruct (find_service c t k) as [d0|] eqn:Hf; [|reflexivity].
    exfalso. apply H1. pose proof (find_service_some c t k d0 Hf) as [Hin [Hs0 [Ht0 Hk0]]].
    unfold skey. rewrite Ht, Hk, <- Ht0, <- Hk0.
    apply in_map_iff. exists d0. split; [reflexivity|]. apply filter_In. auto.
  - unfold find_service in *. cbn [find]. rewrite Hm. intros Hnd. apply IH.
    rewrite services_cons in Hnd. destruct (in_services d); [cbn [map] in Hnd; inversion Hnd; assumption|exact Hnd].
Qed.

Theorem remove_service_gone c t k : uniq c -> find_service (remove_service c t k) t k = None.
Proof.
  intros Hu. rewrite remove_service_rm. destruct (find_service c t k) eqn:Hf; [apply rm_gone; exact Hu|exact Hf].
Qed.

(* ------------------------------------------------------------------ C18: reserved types never enter *)
Definition no_reserved (c : coll) : Prop := Forall (fun d => is_reserved (ds_ty d) = false) c.

Lemma register_no_reserved c d c' : no_reserved c -> register c d = inl c' -> no_reserved c'.
Proof.
  unfold register, no_reserved. intros Hn.
  destruct (is_reserved (ds_ty d)) eqn:Hr; [discriminate|].
  assert (Hadd : forall d', ds_ty d' = ds_ty d -> Forall (fun d0 => is_reserved (ds_ty d0) = false) (c ++ [d'])).
  { intros d' Ht. apply Forall_app. split; [exact Hn|]. constructor; [rewrite Ht; exact Hr|constructor]. }
  destruct (ds_key d); try (destruct (find_service c (ds_ty d) _); [discriminate|intros H; inversion H; subst; apply Hadd; reflexivity]).
  destruct (ds_grp d =? 0).
  - destruct (find_service c (ds_ty d) KNone); [discriminate|intros H; inversion H; subst; apply Hadd; reflexivity].
  - intros H; inversion H; subst. apply Hadd. reflexivity.
Qed.

Lemma run_steps_no_reserved steps : forall c c', no_reserved c -> run_steps c steps = inl c' -> no_reserved c'.
Proof.
  induction steps as [|[d|e] rest IH]; intros c c' Hu; cbn [run_steps].
  - intros H; inversion H; subst; exact Hu.
  - destruct (register c d) as [c1|e] eqn:Hr; [|discriminate]. apply IH. eapply register_no_reserved; eauto.
  - discriminate.
Qed.

Lemma add_service_no_reserved c v r : no_reserved c -> no_reserved (fst (fst (add_service c v r))).
Proof.
  intros Hu. unfold add_service.
  destruct ((r_bad r =? 1) || (r_bad r =? 6)); [exact Hu|].
  destruct ((negb (r_name r =? 0) && negb (r_group r =? 0)) || negb (r_bad r =? 0)); [exact Hu|].
  destruct (is_void r && negb (r_group r =? 0)); [exact Hu|].
  destruct (is_reserved (form_type (r_form r))); [exact Hu|].
  destruct (run_steps c (add_steps r (S v))) eqn:Hs; cbn [fst]; [|exact Hu].
  eapply run_steps_no_reserved; eauto.
Qed.

Lemma rm_no_reserved t k c : no_reserved c -> no_reserved (rm t k c).
Proof.
  unfold no_reserved. induction c as [|d c IH]; cbn [rm]; [auto|]. intros H; inversion H; subst.
  destruct (in_services d && (ds_ty d =? t) && key_eqb (ds_key d) k); [assumption|constructor; auto].
Qed.
Lemma remove_service_no_reserved c t k : no_reserved c -> no_reserved (remove_service c t k).
Proof. intros Hu. rewrite remove_service_rm. destruct (find_service c t k); [apply rm_no_reserved|]; exact Hu. Qed.

(* ------------------------------------------------------------------ the registry invariant over whole histories *)
Definition coll_inv (c : coll) : Prop := uniq c /\ no_reserved c.

Lemma direct_call_inv st o : coll_inv (fst st) -> coll_inv (fst (fst (direct_call st o))).
Proof.
  intros [Hu Hn]. destruct o; cbn [direct_call fst]; try (split; assumption).
  - pose proof (add_service_uniq (fst st) (snd st) r Hu). pose proof (add_service_no_reserved (fst st) (snd st) r Hn).
    destruct (add_service (fst st) (snd st) r) as [[c' v'] e]. cbn [fst] in *. split; assumption.
  - split; [apply remove_service_uniq|apply remove_service_no_reserved]; assumption.
  - split; [apply remove_service_uniq|apply remove_service_no_reserved]; assumption.
Qed.

Lemma run_flat_inv l : forall st, coll_inv (fst st) -> coll_inv (fst (fst (run_flat st l))).
Proof.
  induction l as [|[ns o] l IH]; intros st Hi; cbn [run_flat]; [exact Hi|].
  pose proof (direct_call_inv st o Hi) as H1.
  destruct (direct_call st o) as [st' [e|]]; cbn [fst] in *; [exact H1|apply IH; exact H1].
Qed.

Definition is_coll_op (o : op) : bool :=
  match o with
  | OAdd _ | ORemove _ | ORemoveKeyed _ _ | OModules _ | OContains _ | OContainsKeyed _ _ | OCount | OSlice => true
  | _ => false
  end.

Ltac break_match :=
  repeat match goal with
         | |- context [match ?x with _ => _ end] => destruct x
         end.

(* only the collection operations change the collection *)
Lemma step_keeps_coll w o : is_coll_op o = false -> w_coll (fst (fst (step w o))) = w_coll w.
Proof.
  destruct o; cbn [is_coll_op]; try discriminate; intros _; cbn [step].
  - destruct (build (w_coll w) (w_invs w) ord) as [[invs evs] [p|e]]; reflexivity.
  - unfold create_scope. break_match; reflexivity.
  - unfold do_resolve. break_match; reflexivity.
  - unfold do_resolve. break_match; reflexivity.
  - break_match; reflexivity.
  - break_match; reflexivity.
  - break_match; reflexivity.
  - reflexivity.
  - reflexivity.
  - reflexivity.
  - reflexivity.
Qed.

Lemma step_coll_inv w o : coll_inv (w_coll w) -> coll_inv (w_coll (fst (fst (step w o)))).
Proof.
  intros Hi. destruct (is_coll_op o) eqn:Hc; [|rewrite step_keeps_coll; assumption].
  destruct o; cbn [is_coll_op] in Hc; try discriminate; cbn [step].
  - pose proof (direct_call_inv (w_coll w, w_void w) (OAdd r) Hi) as H. cbn [direct_call fst snd] in H.
    destruct (add_service (w_coll w) (w_void w) r) as [[c' v'] e]. cbn [fst with_coll w_coll] in *. exact H.
  - cbn [fst with_coll w_coll]. destruct Hi. split; [apply remove_service_uniq|apply remove_service_no_reserved]; assumption.
  - cbn [fst with_coll w_coll]. destruct Hi. split; [apply remove_service_uniq|apply remove_service_no_reserved]; assumption.
  - rewrite apply_modules_flat. pose proof (run_flat_inv (flat_map flat_entries ms) (w_coll w, w_void w) Hi) as H.
    destruct (run_flat (w_coll w, w_void w) (flat_map flat_entries ms)) as [[c' v'] e]. cbn [fst with_coll w_coll] in *. exact H.
  - exact Hi.
  - exact Hi.
  - exact Hi.
  - exact Hi.
Qed.

Lemma coll_inv_init : coll_inv (w_coll init_world).
Proof. split; [constructor|constructor]. Qed.

Theorem registry_invariant ops : forall w, coll_inv (w_coll w) -> coll_inv (w_coll (fst (run_from w ops))).
Proof.
  induction ops as [|o ops IH]; intros w Hi; cbn [run_from]; [exact Hi|].
  pose proof (step_coll_inv w o Hi) as H1.
  destruct (step w o) as [[w1 evs] r]. cbn [fst] in H1.
  specialize (IH w1 H1). destruct (run_from w1 ops) as [w2 tr]. exact IH.
Qed.

(* ------------------------------------------------------------------ Build takes a snapshot: collection calls never touch a built provider *)
Theorem coll_ops_leave_providers w o :
  is_coll_op o = true ->
  let w' := fst (fst (step w o)) in
  w_provs w' = w_provs w /\ w_invs w' = w_invs w /\ w_cancelled w' = w_cancelled w /\ snd (fst (step w o)) = [].
Proof.
  destruct o; cbn [is_coll_op]; try discriminate; intros _; cbn [step].
  - destruct (add_service _ _ _) as [[c' v'] e]. cbn. auto.
  - cbn. auto.
  - cbn. auto.
  - destruct (apply_modules _ _) as [[c' v'] e]. cbn. auto.
  - cbn. auto.
  - cbn. auto.
  - cbn. auto.
  - cbn. auto.
Qed.
