(* ProofsBuildOnce.v — C01: Build runs the constructor of a singleton registration at most once per registration call,
   whatever order the oracle prescribes, whether Build succeeds or fails, and whatever its outputs are (all of them nil
   included: F34); and no resolution, ever, runs the constructor of a singleton registration. *)
From Coq Require Import Permutation.
From Godi Require Import Base Model Check ProofsRegistry ProofsRuntime ProofsTerm ProofsAccepted ProofsCascade.

Section Once.
  Variable c : coll.
  Hypothesis ids_wf : rids_wf c.
  Hypothesis idents_unique : NoDup (map ds_ident c).

  Local Notation on_c := (on_c c).

  (* constructor calls of registration [r] in an event log *)
  Definition is_ctor_of (r : nat) (e : event) : bool := match e with EvCtor rid _ _ _ => rid =? r | _ => false end.
  Definition cnt (r : nat) (evs : list event) : nat := length (filter (is_ctor_of r) evs).
  Definition singleton_rid (r : nat) : Prop := exists d, In d c /\ ds_rid d = r /\ ds_life d = Singleton.

  Lemma not_singleton_rid d r : In d c -> ds_life d <> Singleton -> singleton_rid r -> ds_rid d <> r.
  Proof. intros Hd Hl [d0 (Hd0 & Hr0 & Hl0)] E. apply Hl. rewrite (ids_wf d d0 Hd Hd0); [exact Hl0|congruence]. Qed.

  (* ---------------------------------------------------------------- a resolution never runs a singleton's constructor *)
  Section Step.
    Variable f : nat.
    Variable r : nat.
    Hypothesis Hr : singleton_rid r.
    Hypothesis IH : forall rs h d, on_c rs -> In d c -> cnt r (rs_ev (fst (resolve_d f rs h d))) = cnt r (rs_ev rs).

    Lemma group_cnt h ms : forall rs acc, on_c rs -> (forall m, In m ms -> In m c) ->
      cnt r (rs_ev (fst (group_loop (resolve_d f) rs h ms acc))) = cnt r (rs_ev rs) /\ on_c (fst (group_loop (resolve_d f) rs h ms acc)).
    Proof.
      induction ms as [|m ms IHm]; intros rs acc Hc Hin; cbn [group_loop]; [split; [reflexivity|exact Hc]|].
      pose proof (IH rs h m Hc (Hin m (or_introl eq_refl))) as He. pose proof (resolve_on_c c f rs h m Hc) as Hc1.
      destruct (resolve_d f rs h m) as [rs1 [a|e|]]; cbn [fst] in *; [|split; assumption|split; assumption].
      assert (Hrest : forall m0, In m0 ms -> In m0 c) by (intros; apply Hin; right; assumption).
      destruct a as [i|l|h0|h0| |]; try (split; assumption).
      + destruct (IHm rs1 (i :: acc) Hc1 Hrest) as [H1 H2]. split; [rewrite H1; exact He|exact H2].
      + destruct (IHm rs1 (NIL_MEMBER :: acc) Hc1 Hrest) as [H1 H2]. split; [rewrite H1; exact He|exact H2].
    Qed.

    Lemma dep_cnt h rs dp : on_c rs ->
      cnt r (rs_ev (fst (dep_value (resolve_d f) rs h dp))) = cnt r (rs_ev rs) /\ on_c (fst (dep_value (resolve_d f) rs h dp)).
    Proof.
      intros Hc. unfold dep_value. destruct (d_group dp =? 0).
      - unfold req. rewrite Hc.
        assert (Hfind : forall k, let x := match find_service c (d_ty dp) k with Some d0 => resolve_d f rs h d0 | None => (rs, RFail ENotFound) end in
                  cnt r (rs_ev (fst x)) = cnt r (rs_ev rs) /\ on_c (fst x)).
        { intros k. destruct (find_service c (d_ty dp) k) as [d'|] eqn:Hf; cbn zeta; [|split; [reflexivity|exact Hc]].
          assert (Hd' : In d' c) by (unfold find_service in Hf; apply find_some in Hf; tauto).
          split; [apply IH; assumption|apply resolve_on_c; exact Hc]. }
        destruct (name_key (d_name dp)); try apply Hfind.
        destruct (builtin h (d_ty dp)); [split; [reflexivity|exact Hc]|apply Hfind].
      - unfold group_value. rewrite Hc. apply group_cnt; [exact Hc|]. intros m Hm. unfold group_members in Hm. apply filter_In in Hm. tauto.
    Qed.

    Lemma args_cnt h io ps : forall rs acc, on_c rs ->
      cnt r (rs_ev (fst (args_loop (resolve_d f) rs h io ps acc))) = cnt r (rs_ev rs) /\ on_c (fst (args_loop (resolve_d f) rs h io ps acc)).
    Proof.
      induction ps as [|[dp|] ps IHp]; intros rs acc Hc; cbn [args_loop]; [split; [reflexivity|exact Hc]| |apply IHp; exact Hc].
      destruct (dep_cnt h rs dp Hc) as [He Hc1].
      destruct (dep_value (resolve_d f) rs h dp) as [rs1 [a|e|]]; cbn [fst] in *.
      - destruct (IHp rs1 (a :: acc) Hc1) as [H1 H2]. split; [rewrite H1; exact He|exact H2].
      - destruct (io && d_opt dp); [|split; assumption].
        destruct (IHp rs1 (zero_of dp :: acc) Hc1) as [H1 H2]. split; [rewrite H1; exact He|exact H2].
      - split; assumption.
    Qed.

    (* one construction: the arguments add nothing for [r]; the constructor's own event counts iff it is [r]'s *)
    Lemma create_cnt rs h d : on_c rs -> In d c ->
      cnt r (rs_ev (fst (create (resolve_d f) rs h d))) <= cnt r (rs_ev rs) + (if ds_rid d =? r then 1 else 0) /\
      (ds_rid d <> r -> cnt r (rs_ev (fst (create (resolve_d f) rs h d))) = cnt r (rs_ev rs)).
    Proof.
      intros Hc Hd. unfold create.
      destruct (r_form (ds_reg d)) as [t|io0 ps1 rets er|io0 ps1 fs er] eqn:Hf.
      - cbn [fst rs_ev with_p]. split; [lia|reflexivity].
      - destruct (reg_params (ds_reg d)) as [inobj ps0].
        destruct (args_cnt h inobj ps0 rs [] Hc) as [Ha _].
        destruct (args_loop (resolve_d f) rs h inobj ps0 []) as [rs1 [args|e]]; cbn [fst] in *; [|split; [lia|intros _; exact Ha]].
        assert (Hown : forall o, cnt r (EvCtor (r_id (ds_reg d)) (get_inv (rs_invs rs1) (r_id (ds_reg d))) args o :: rs_ev rs1) =
                         (if ds_rid d =? r then 1 else 0) + cnt r (rs_ev rs1)).
        { intros o. unfold cnt; cbn [filter is_ctor_of]. unfold ds_rid. destruct (r_id (ds_reg d) =? r); reflexivity. }
        destruct (cancels (ds_reg d) (get_inv (rs_invs rs1) (r_id (ds_reg d))));
        (destruct (effective_outcome (ds_reg d) (get_inv (rs_invs rs1) (r_id (ds_reg d)))) eqn:Eo;
         try destruct rets as [|t0 [|t1 ts]]; cbn [fst rs_ev with_p log];
         repeat (change (cnt r (EvCancel :: ?l)) with (cnt r l));
         match goal with |- context [EvCtor ?a ?b ?c0 ?o :: _] => rewrite (Hown o) end;
         (split; [destruct (ds_rid d =? r); lia|intros Hne; apply Nat.eqb_neq in Hne; rewrite Hne; lia])).
      - destruct (reg_params (ds_reg d)) as [inobj ps0].
        destruct (args_cnt h inobj ps0 rs [] Hc) as [Ha _].
        destruct (args_loop (resolve_d f) rs h inobj ps0 []) as [rs1 [args|e]]; cbn [fst] in *; [|split; [lia|intros _; exact Ha]].
        assert (Hown : forall o, cnt r (EvCtor (r_id (ds_reg d)) (get_inv (rs_invs rs1) (r_id (ds_reg d))) args o :: rs_ev rs1) =
                         (if ds_rid d =? r then 1 else 0) + cnt r (rs_ev rs1)).
        { intros o. unfold cnt; cbn [filter is_ctor_of]. unfold ds_rid. destruct (r_id (ds_reg d) =? r); reflexivity. }
        destruct (cancels (ds_reg d) (get_inv (rs_invs rs1) (r_id (ds_reg d))));
        (destruct (effective_outcome (ds_reg d) (get_inv (rs_invs rs1) (r_id (ds_reg d)))) eqn:Eo;
         try match goal with |- context [stores_any ?a ?b ?c0] => destruct (stores_any a b c0) end; cbn [fst rs_ev with_p log];
         repeat (change (cnt r (EvCancel :: ?l)) with (cnt r l));
         match goal with |- context [EvCtor ?a ?b ?c0 ?o :: _] => rewrite (Hown o) end;
         (split; [destruct (ds_rid d =? r); lia|intros Hne; apply Nat.eqb_neq in Hne; rewrite Hne; lia])).
    Qed.
  End Step.

  Theorem resolution_never_runs_a_singleton_constructor r : singleton_rid r ->
    forall fuel rs h d, on_c rs -> In d c -> cnt r (rs_ev (fst (resolve_d fuel rs h d))) = cnt r (rs_ev rs).
  Proof.
    intros Hr. induction fuel as [|f IH]; intros rs h d Hc Hd; cbn [resolve_d]; [reflexivity|].
    destruct (ds_life d) eqn:El.
    - destruct (lookup_i _ _); reflexivity.
    - destruct (lookup_i _ _); [reflexivity|].
      apply (create_cnt f r IH rs h d Hc Hd). apply not_singleton_rid; [exact Hd|congruence|exact Hr].
    - apply (create_cnt f r IH rs h d Hc Hd). apply not_singleton_rid; [exact Hd|congruence|exact Hr].
  Qed.

  Corollary create_top_cnt r rs h d : singleton_rid r -> on_c rs -> In d c ->
    cnt r (rs_ev (fst (create_top rs h d))) <= cnt r (rs_ev rs) + (if ds_rid d =? r then 1 else 0) /\
    (ds_rid d <> r -> cnt r (rs_ev (fst (create_top rs h d))) = cnt r (rs_ev rs)).
  Proof.
    intros Hr Hc Hd. unfold create_top. apply create_cnt; [|exact Hc|exact Hd].
    intros rs0 h0 d0. apply resolution_never_runs_a_singleton_constructor. exact Hr.
  Qed.
End Once.

(* ================================================================== Build *)
Lemma nodup_nat_NoDup l : NoDup (nodup_nat l).
Proof.
  induction l as [|x l IH]; cbn [nodup_nat]; [constructor|].
  destruct (mem_nat x l) eqn:E; [exact IH|]. constructor; [|exact IH].
  intros H. apply (proj1 (in_nodup_nat x l)) in H. apply (proj2 (mem_nat_In x l)) in H. congruence.
Qed.
Lemma map_injective_on {A B} (f : A -> B) l x y : NoDup (map f l) -> In x l -> In y l -> f x = f y -> x = y.
Proof.
  induction l as [|a l IH]; intros Hn Hx Hy E; [destruct Hx|]. cbn [map] in Hn. inversion Hn as [|? ? Ha Hl]; subst.
  destruct Hx as [->|Hx], Hy as [->|Hy]; [reflexivity| | |apply IH; assumption].
  - exfalso. apply Ha. rewrite E. apply in_map. exact Hy.
  - exfalso. apply Ha. rewrite <- E. apply in_map. exact Hx.
Qed.
Lemma cnt_app r a b : cnt r (a ++ b) = cnt r a + cnt r b.
Proof. unfold cnt. rewrite filter_app, app_length. reflexivity. Qed.
Lemma cnt_rev r l : cnt r (rev l) = cnt r l.
Proof. induction l as [|e l IH]; [reflexivity|]. cbn [rev]. rewrite cnt_app, IH. unfold cnt. cbn [filter]. destruct (is_ctor_of r e); cbn [length]; lia. Qed.

(* closing emits Closed events only *)
Definition no_ctor (evs : list event) : Prop := forall r, cnt r evs = 0.
Lemma no_ctor_app a b : no_ctor a -> no_ctor b -> no_ctor (a ++ b).
Proof. intros Ha Hb r. rewrite cnt_app, Ha, Hb. reflexivity. Qed.
Lemma no_ctor_nil : no_ctor [].
Proof. intros r. reflexivity. Qed.
Lemma close_insts_no_ctor c own l : no_ctor (fst (close_insts c own l)).
Proof.
  induction l as [|i l IH]; cbn [close_insts]; [exact no_ctor_nil|].
  destruct (close_insts c own l) as [evs n]. cbn [fst] in *. intros r. unfold cnt. cbn [filter is_ctor_of]. apply IH.
Qed.
Lemma close_scope_no_ctor : forall fuel ord p h, no_ctor (snd (fst (close_scope fuel ord p h))).
Proof.
  induction fuel as [|f IH]; intros ord p h; cbn [close_scope]; [exact no_ctor_nil|].
  destruct (negb (sc_open (get_scope p h))); [exact no_ctor_nil|].
  set (p0 := upd_scope p h _).
  assert (Hfold : forall ks acc, no_ctor (snd (fst acc)) ->
            no_ctor (snd (fst (fold_left (fun '(pa, ea, na) k0 =>
                     let '(pb, eb, nb) := close_scope f ord pa k0 in (pb, ea ++ eb, if nb =? 0 then na else S na)) ks acc)))).
  { induction ks as [|k0 ks IHk]; intros [[pa ea] na] Hacc; cbn [fold_left]; [exact Hacc|].
    apply IHk. pose proof (IH ord pa k0) as Hk. destruct (close_scope f ord pa k0) as [[pb eb] nb]. cbn [fst snd] in *.
    apply no_ctor_app; assumption. }
  specialize (Hfold (nodup_nat (order_by ord (open_children p0 h))) (p0, [], 0) no_ctor_nil).
  destruct (fold_left _ _ (p0, [], 0)) as [[p1 evs1] n1]. cbn [fst snd] in Hfold.
  pose proof (close_insts_no_ctor (p_descs p1) h (sc_disp (get_scope p1 h))) as H2.
  destruct (close_insts (p_descs p1) h (sc_disp (get_scope p1 h))) as [evs2 n2]. cbn [fst snd] in *.
  apply no_ctor_app; assumption.
Qed.
Lemma close_provider_no_ctor ord p : no_ctor (snd (fst (close_provider ord p))).
Proof.
  unfold close_provider. destruct (negb (p_open p)); [exact no_ctor_nil|].
  set (p0 := mkProv (p_descs p) (p_scopes p) (p_single p) (p_sdisp p) false).
  assert (Hfold : forall ks acc, no_ctor (snd (fst acc)) ->
            no_ctor (snd (fst (fold_left (fun '(pa, ea, na) k0 =>
                     let '(pb, eb, nb) := close_scope (scope_fuel pa) ord pa k0 in (pb, ea ++ eb, if nb =? 0 then na else S na)) ks acc)))).
  { induction ks as [|k0 ks IHk]; intros [[pa ea] na] Hacc; cbn [fold_left]; [exact Hacc|].
    apply IHk. pose proof (close_scope_no_ctor (scope_fuel pa) ord pa k0) as Hk.
    destruct (close_scope (scope_fuel pa) ord pa k0) as [[pb eb] nb]. cbn [fst snd] in *. apply no_ctor_app; assumption. }
  specialize (Hfold (nodup_nat (order_by ord (open_scopes p0))) (p0, [], 0) no_ctor_nil).
  destruct (fold_left _ _ (p0, [], 0)) as [[p1 evs1] n1]. cbn [fst snd] in Hfold.
  pose proof (close_scope_no_ctor (scope_fuel p1) ord p1 0) as H2.
  destruct (close_scope (scope_fuel p1) ord p1 0) as [[p2 evs2] n2]. cbn [fst snd] in H2.
  pose proof (close_insts_no_ctor (p_descs p2) OWNER_PROV (p_sdisp p2)) as H3.
  destruct (close_insts (p_descs p2) OWNER_PROV (p_sdisp p2)) as [evs3 n3]. cbn [fst snd] in *.
  apply no_ctor_app; [exact Hfold|apply no_ctor_app; assumption].
Qed.

Section BuildOnce.
  Variable c : coll.
  Hypothesis ids_wf : rids_wf c.
  Hypothesis idents_unique : NoDup (map ds_ident c).
  Local Notation on_c := (on_c c).
  Local Notation cnt := ProofsBuildOnce.cnt.
  Local Notation singleton_rid := (ProofsBuildOnce.singleton_rid c).

  (* the registration calls of [r]: what "once" is counted against *)
  Definition all_calls (r : nat) : list nat := nodup_nat (map ds_call (filter (fun d => ds_rid d =? r) c)).
  Definition att_calls (att : list ident) (r : nat) : list nat :=
    nodup_nat (map ds_call (filter (fun d => (ds_rid d =? r) && attempted att d) c)).
  Definition att_closed (att : list ident) : Prop :=
    forall x d, In x c -> In d c -> ds_rid x = ds_rid d -> ds_call x = ds_call d -> attempted att x = attempted att d.
  Definition BI (rs : rstate) (att : list ident) : Prop :=
    on_c rs /\ att_closed att /\ forall r, singleton_rid r -> cnt r (rs_ev rs) <= length (att_calls att r).

  Lemma att_calls_in att r k : In k (att_calls att r) <-> exists d, In d c /\ ds_rid d = r /\ attempted att d = true /\ ds_call d = k.
  Proof.
    unfold att_calls. rewrite in_nodup_nat, in_map_iff. split.
    - intros [d [Hk Hd]]. apply filter_In in Hd. destruct Hd as [Hd Hb]. apply andb_prop in Hb. destruct Hb as [Hr Ha].
      apply Nat.eqb_eq in Hr. exists d. auto.
    - intros [d (Hd & Hr & Ha & Hk)]. exists d. split; [exact Hk|]. apply filter_In. split; [exact Hd|]. rewrite Ha, Hr, Nat.eqb_refl. reflexivity.
  Qed.
  Lemma all_calls_in r k : In k (all_calls r) <-> exists d, In d c /\ ds_rid d = r /\ ds_call d = k.
  Proof.
    unfold all_calls. rewrite in_nodup_nat, in_map_iff. split.
    - intros [d [Hk Hd]]. apply filter_In in Hd. destruct Hd as [Hd Hr]. apply Nat.eqb_eq in Hr. exists d. auto.
    - intros [d (Hd & Hr & Hk)]. exists d. split; [exact Hk|]. apply filter_In. split; [exact Hd|]. rewrite Hr. apply Nat.eqb_refl.
  Qed.
  Lemma att_calls_le att r : length (att_calls att r) <= length (all_calls r).
  Proof.
    apply NoDup_incl_length; [apply nodup_nat_NoDup|]. intros k Hk. apply att_calls_in in Hk. destruct Hk as [d (Hd & Hr & _ & Hk)].
    apply all_calls_in. exists d. auto.
  Qed.

  Lemma attempted_app l att d : attempted (l ++ att) d = attempted l d || attempted att d.
  Proof. unfold attempted. apply existsb_app. Qed.
  Lemma attempted_call x d : In x c -> In d c ->
    (attempted (call_idents c d) x = true <-> ds_rid x = ds_rid d /\ ds_call x = ds_call d).
  Proof.
    intros Hx Hd. unfold attempted, call_idents. rewrite existsb_exists. split.
    - intros [i [Hi He]]. apply ident_eqb_eq in He.
      destruct Hi as [<-|Hi].
      + assert (x = d) as -> by (apply (map_injective_on ds_ident c); assumption). split; reflexivity.
      + apply in_map_iff in Hi. destruct Hi as [y [Hy Hyc]]. apply filter_In in Hyc. destruct Hyc as [Hyc Hb].
        assert (x = y) as -> by (apply (map_injective_on ds_ident c); [exact idents_unique|exact Hx|exact Hyc|congruence]).
        apply andb_prop in Hb. destruct Hb as [H1 H2]. apply Nat.eqb_eq in H1, H2. split; assumption.
    - intros [Hr Hk]. exists (ds_ident x). split; [|apply ident_eqb_eq; reflexivity].
      right. apply in_map. apply filter_In. split; [exact Hx|]. rewrite Hr, Hk, !Nat.eqb_refl. reflexivity.
  Qed.

  (* one successful construction at Build *)
  Lemma BI_step rs att d rs1 a : BI rs att -> In d c -> ds_life d = Singleton -> attempted att d = false ->
    create_top rs 0 d = (rs1, ROkV a) -> BI rs1 (call_idents c d ++ att).
  Proof.
    intros (Hc & Hcl & Hcnt) Hd Hl Hna Hct.
    assert (Hc1 : on_c rs1) by (pose proof (on_c_create_top c rs 0 d Hc) as H; rewrite Hct in H; exact H).
    split; [exact Hc1|]. split.
    - intros x y Hx Hy Hr Hk. rewrite !attempted_app. rewrite (Hcl x y Hx Hy Hr Hk).
      destruct (attempted (call_idents c d) x) eqn:Ex, (attempted (call_idents c d) y) eqn:Ey; try reflexivity; exfalso.
      + apply (attempted_call x d Hx Hd) in Ex. assert (attempted (call_idents c d) y = true) by (apply (attempted_call y d Hy Hd); destruct Ex; split; congruence). congruence.
      + apply (attempted_call y d Hy Hd) in Ey. assert (attempted (call_idents c d) x = true) by (apply (attempted_call x d Hx Hd); destruct Ey; split; congruence). congruence.
    - intros r Hr. destruct (create_top_cnt c ids_wf r rs 0 d Hr Hc Hd) as [Hle Heq]. rewrite Hct in Hle, Heq. cbn [fst] in Hle, Heq.
      specialize (Hcnt r Hr).
      assert (Hmono : incl (att_calls att r) (att_calls (call_idents c d ++ att) r)).
      { intros k Hk. apply att_calls_in in Hk. destruct Hk as [y (Hy & Hyr & Hya & Hyk)]. apply att_calls_in. exists y.
        rewrite attempted_app, Hya, orb_true_r. auto. }
      destruct (Nat.eq_dec (ds_rid d) r) as [E|E].
      + (* the call of d is new among the attempted calls of r *)
        assert (Hnew : ~ In (ds_call d) (att_calls att r)).
        { intros Hk. apply att_calls_in in Hk. destruct Hk as [y (Hy & Hyr & Hya & Hyk)].
          rewrite (Hcl y d Hy Hd) in Hya by congruence. congruence. }
        assert (Hin : In (ds_call d) (att_calls (call_idents c d ++ att) r)).
        { apply att_calls_in. exists d. rewrite attempted_app.
          assert (attempted (call_idents c d) d = true) as -> by (apply (attempted_call d d Hd Hd); split; reflexivity). auto. }
        assert (Hlen : S (length (att_calls att r)) <= length (att_calls (call_idents c d ++ att) r)).
        { apply (NoDup_incl_length (l := ds_call d :: att_calls att r)); [constructor; [exact Hnew|apply nodup_nat_NoDup]|].
          intros k [<-|Hk]; [exact Hin|apply Hmono; exact Hk]. }
        rewrite E, Nat.eqb_refl in Hle. lia.
      + rewrite (Heq E). assert (Hnd : NoDup (att_calls att r)) by apply nodup_nat_NoDup.
        pose proof (NoDup_incl_length Hnd Hmono). lia.
  Qed.

  (* a failing construction: the constructor may have run, Build stops; the count stays within all calls *)
  Lemma fail_step rs att d r : BI rs att -> In d c -> attempted att d = false -> singleton_rid r ->
    cnt r (rs_ev (fst (create_top rs 0 d))) <= length (all_calls r).
  Proof.
    intros (Hc & Hcl & Hcnt) Hd Hna Hr. destruct (create_top_cnt c ids_wf r rs 0 d Hr Hc Hd) as [Hle Heq]. specialize (Hcnt r Hr).
    destruct (Nat.eq_dec (ds_rid d) r) as [E|E].
    - rewrite E, Nat.eqb_refl in Hle.
      assert (Hnew : ~ In (ds_call d) (att_calls att r)).
      { intros Hk. apply att_calls_in in Hk. destruct Hk as [y (Hy & Hyr & Hya & Hyk)].
        rewrite (Hcl y d Hy Hd) in Hya by congruence. congruence. }
      assert (Hlen : S (length (att_calls att r)) <= length (all_calls r)).
      { apply (NoDup_incl_length (l := ds_call d :: att_calls att r)); [constructor; [exact Hnew|apply nodup_nat_NoDup]|].
        intros k [<-|Hk]; [apply all_calls_in; exists d; auto|].
        apply att_calls_in in Hk. destruct Hk as [y (Hy & Hyr & _ & Hyk)]. apply all_calls_in. exists y. auto. }
      lia.
    - rewrite (Heq E). pose proof (att_calls_le att r). lia.
  Qed.

  Definition within (rs : rstate) : Prop := forall r, singleton_rid r -> cnt r (rs_ev rs) <= length (all_calls r).
  Lemma BI_within rs att : BI rs att -> within rs.
  Proof. intros (_ & _ & H) r Hr. specialize (H r Hr). pose proof (att_calls_le att r). lia. Qed.

  Lemma pending_singleton p d : singleton_pending p d = true -> ds_life d = Singleton.
  Proof. unfold singleton_pending. intros H. apply andb_prop in H. destruct H as [H _]. apply andb_prop in H. destruct H as [H _]. apply life_eqb_eq. exact H. Qed.

  Lemma once_create_singletons ds : (forall d, In d ds -> In d c) -> forall rs att, BI rs att ->
    let x := create_singletons rs att ds in
    within (fst (fst x)) /\ on_c (fst (fst x)) /\ (snd x = None -> BI (fst (fst x)) (snd (fst x))).
  Proof.
    induction ds as [|d ds IH]; intros Hin rs att H; cbn [create_singletons].
    - cbn [fst snd]. split; [exact (BI_within rs att H)|]. split; [exact (proj1 H)|intros _; exact H].
    - assert (Hrest : forall d0, In d0 ds -> In d0 c) by (intros; apply Hin; right; assumption).
      destruct (singleton_pending (rs_p rs) d && negb (attempted att d)) eqn:Eg; [|apply IH; assumption].
      apply andb_prop in Eg. destruct Eg as [Ep Ea]. apply negb_true_iff in Ea.
      destruct (build_cancelled rs); [cbn [fst snd]; split; [exact (BI_within rs att H)|split; [exact (proj1 H)|discriminate]]|].
      pose proof (fun r Hr => fail_step rs att d r H (Hin d (or_introl eq_refl)) Ea Hr) as Hf.
      pose proof (on_c_create_top c rs 0 d (proj1 H)) as Hc1.
      destruct (create_top rs 0 d) as [rs1 [a|e|]] eqn:Hct; cbn [fst snd] in *.
      + pose proof (BI_step rs att d rs1 a H (Hin d (or_introl eq_refl)) (pending_singleton _ _ Ep) Ea Hct) as H1.
        assert (p_descs (rs_p rs1) = c) as -> by exact Hc1. apply IH; assumption.
      + split; [exact Hf|split; [exact Hc1|discriminate]].
      + split; [exact Hf|split; [exact Hc1|discriminate]].
  Qed.

  Lemma once_create_by_order ord : forall rs att, BI rs att ->
    let x := create_by_order rs att c ord in
    within (fst (fst x)) /\ on_c (fst (fst x)) /\ (snd x = None -> BI (fst (fst x)) (snd (fst x))).
  Proof.
    induction ord as [|rid ord IH]; intros rs att H; cbn [create_by_order].
    - cbn [fst snd]. split; [exact (BI_within rs att H)|]. split; [exact (proj1 H)|intros _; exact H].
    - destruct (find _ c) as [d|] eqn:Hfd; [|apply IH; exact H].
      apply find_some in Hfd. destruct Hfd as [Hd Hb]. apply andb_prop in Hb. destruct Hb as [Hb Ea]. apply andb_prop in Hb. destruct Hb as [_ Ep].
      apply negb_true_iff in Ea.
      destruct (build_cancelled rs); [cbn [fst snd]; split; [exact (BI_within rs att H)|split; [exact (proj1 H)|discriminate]]|].
      pose proof (fun r Hr => fail_step rs att d r H Hd Ea Hr) as Hf.
      pose proof (on_c_create_top c rs 0 d (proj1 H)) as Hc1.
      destruct (create_top rs 0 d) as [rs1 [a|e|]] eqn:Hct; cbn [fst snd] in *.
      + pose proof (BI_step rs att d rs1 a H Hd (pending_singleton _ _ Ep) Ea Hct) as H1.
        assert (p_descs (rs_p rs1) = c) as -> by exact Hc1. apply IH; assumption.
      + split; [exact Hf|split; [exact Hc1|discriminate]].
      + split; [exact Hf|split; [exact Hc1|discriminate]].
  Qed.

  Lemma once_create_all ord rs : BI rs [] -> within (fst (create_all_singletons rs c ord)) /\ on_c (fst (create_all_singletons rs c ord)).
  Proof.
    intros H. unfold create_all_singletons.
    assert (Hu : forall d, In d (unplaced_instances c ord) -> In d c) by (intros d Hd; unfold unplaced_instances in Hd; apply filter_In in Hd; tauto).
    pose proof (once_create_singletons (unplaced_instances c ord) Hu rs [] H) as (W1 & C1 & B1).
    destruct (create_singletons rs [] (unplaced_instances c ord)) as [[rs1 att1] [r|]]; cbn [fst snd] in *; [split; assumption|].
    pose proof (once_create_by_order ord rs1 att1 (B1 eq_refl)) as (W2 & C2 & B2).
    destruct (create_by_order rs1 att1 c ord) as [[rs2 att2] [r|]]; cbn [fst snd] in *; [split; assumption|].
    pose proof (once_create_singletons c (fun d Hd => Hd) rs2 att2 (B2 eq_refl)) as (W3 & C3 & _).
    destruct (create_singletons rs2 att2 c) as [[rs3 att3] r]; cbn [fst snd] in *. split; assumption.
  Qed.

  (* the root scope's initializers are scoped registrations: they add nothing to a singleton's count *)
  Lemma once_run_inits ds : (forall d, In d ds -> In d c /\ ds_life d <> Singleton) -> forall rs h, on_c rs -> within rs ->
    within (fst (run_inits rs h ds)) /\ on_c (fst (run_inits rs h ds)).
  Proof.
    induction ds as [|d ds IH]; intros Hin rs h Hc Hw; cbn [run_inits]; [split; assumption|].
    assert (Hrest : forall d0, In d0 ds -> In d0 c /\ ds_life d0 <> Singleton) by (intros; apply Hin; right; assumption).
    destruct (lookup_i (sc_cache (get_scope (rs_p rs) h)) (ds_ident d)); [apply IH; assumption|].
    destruct (Hin d (or_introl eq_refl)) as [Hd Hl].
    assert (Hw1 : within (fst (create_top rs h d))).
    { intros r Hr. destruct (create_top_cnt c ids_wf r rs h d Hr Hc Hd) as [_ Heq].
      rewrite Heq; [apply Hw; exact Hr|]. apply (not_singleton_rid c ids_wf d r Hd Hl Hr). }
    pose proof (on_c_create_top c rs h d Hc) as Hc1.
    destruct (create_top rs h d) as [rs1 [a|e|]]; cbn [fst] in *; try (split; assumption). apply IH; assumption.
  Qed.

  Theorem build_runs_each_singleton_call_at_most_once invs ord invs' evs res :
    build c invs ord = (invs', evs, res) -> forall r, singleton_rid r -> cnt r evs <= length (all_calls r).
  Proof.
    unfold build. destruct (has_cycle c); [intros E; inversion E; subst; intros r _; cbn; lia|].
    destruct (lifetime_conflict c); [intros E; inversion E; subst; intros r _; cbn; lia|].
    destruct (missing_required c); [intros E; inversion E; subst; intros r _; cbn; lia|].
    set (rs0 := mkRs invs (mkProv c [root_scope] [] [] true) []).
    assert (H0 : BI rs0 []).
    { split; [reflexivity|]. split; [intros x y _ _ _ _; reflexivity|]. intros r _. cbn. lia. }
    destruct (once_create_all ord rs0 H0) as [W1 C1].
    destruct (create_all_singletons rs0 c ord) as [rs1 [r1|]]; cbn [fst] in W1, C1.
    - pose proof (close_provider_no_ctor [] (rs_p rs1)) as Hn.
      destruct (close_provider [] (rs_p rs1)) as [[p' evs'] n]. cbn [fst snd] in Hn.
      intros E; inversion E; subst. intros r Hr. unfold events_of. rewrite cnt_app, cnt_rev, (Hn r). specialize (W1 r Hr). lia.
    - assert (Hinit : forall d, In d (filter is_initializer c) -> In d c /\ ds_life d <> Singleton).
      { intros d Hd. apply filter_In in Hd. destruct Hd as [Hd Hi]. split; [exact Hd|].
        unfold is_initializer in Hi. apply andb_prop in Hi. destruct Hi as [Hi _]. destruct (ds_life d); cbn in Hi; congruence. }
      destruct (once_run_inits (filter is_initializer c) Hinit rs1 0 C1 W1) as [W2 C2].
      destruct (run_inits rs1 0 (filter is_initializer c)) as [rs2 [r2|]]; cbn [fst] in W2, C2.
      + pose proof (close_scope_no_ctor (scope_fuel (rs_p rs2)) [] (rs_p rs2) 0) as Hn3.
        destruct (close_scope (scope_fuel (rs_p rs2)) [] (rs_p rs2) 0) as [[p3 evs3] n3]. cbn [fst snd] in Hn3.
        pose proof (close_provider_no_ctor [] p3) as Hn4.
        destruct (close_provider [] p3) as [[p4 evs4] n4]. cbn [fst snd] in Hn4.
        intros E; inversion E; subst. intros r Hr. unfold events_of. rewrite !cnt_app, cnt_rev, (Hn3 r), (Hn4 r). specialize (W2 r Hr). lia.
      + intros E; inversion E; subst. intros r Hr. unfold events_of. rewrite cnt_rev. apply W2. exact Hr.
  Qed.
End BuildOnce.

(* non-vacuity: a singleton multi-return constructor that leaves both outputs nil, a second singleton on a first, and a
   group registered twice from one registration (two calls): Build runs 1, 1 and 2 constructor calls *)
Example build_once_example :
  let r1 := mkReg 1 Singleton (FCtor false [] [18; 19] false) 0 0 [] [] [997; 997] [false; false] 0 in
  let r2 := mkReg 2 Singleton (FCtor false [] [0] false) 0 0 [] [] [0] [false] 0 in
  let r3 := mkReg 3 Singleton (FCtor false [PDep (mkDep 0 0 0 false)] [1] false) 0 2 [] [] [1] [false] 0 in
  let ops := [OAdd r1; OAdd r2; OAdd r3; OAdd r3] in
  let c := w_coll (fst (run_from init_world ops)) in
  rids_wfb c = true /\
  match build c [] [] with
  | (_, evs, inl _) => (cnt 1 evs, cnt 2 evs, cnt 3 evs) = (1, 1, 2) /\ (length (all_calls c 1), length (all_calls c 3)) = (1, 2)
  | _ => False
  end.
Proof. vm_compute. repeat split. Qed.
