(* ProofsFrame.v — what a resolution does NOT touch (C02 "two different scopes never share a scoped instance",
   C09 isolation, C10 "and not before"): a resolution in scope h leaves every other scope exactly as it was, closes
   nothing, and only ever adds to the disposal list of scope h. *)
From Godi Require Import Base Model ProofsRuntime ProofsClosed ProofsGen.

Lemma get_scope_cache_set_other p h n i k : h <> k -> get_scope (cache_set p h n i) k = get_scope p k.
Proof. intros H. unfold cache_set. apply get_scope_upd_scope_other. exact H. Qed.
Lemma get_scope_track_scope_other p h i k : h <> k -> get_scope (track_scope p h i) k = get_scope p k.
Proof. intros H. unfold track_scope. destruct (inst_disposable i); [apply get_scope_upd_scope_other; exact H|reflexivity]. Qed.

Theorem resolution_leaves_other_scopes fuel rs h d k : h <> k ->
  get_scope (rs_p (fst (resolve_d fuel rs h d))) k = get_scope (rs_p rs) k.
Proof.
  intros Hne. apply (gen_resolve h (fun r => get_scope (rs_p r) k = get_scope (rs_p rs) k)); try reflexivity.
  - intros r n i H. cbn [rs_p with_p]. rewrite get_scope_cache_set_other by exact Hne. exact H.
  - intros r i H. cbn [rs_p with_p]. rewrite get_scope_track_scope_other by exact Hne. exact H.
  - intros r rid args o H. exact H.
  - intros r H. exact H.
Qed.
Theorem request_leaves_other_scopes rs h t key k : h <> k ->
  get_scope (rs_p (fst (resolve_req rs h t key))) k = get_scope (rs_p rs) k.
Proof.
  intros Hne. apply (gen_resolve_req h (fun r => get_scope (rs_p r) k = get_scope (rs_p rs) k)); try reflexivity.
  - intros r n i H. cbn [rs_p with_p]. rewrite get_scope_cache_set_other by exact Hne. exact H.
  - intros r i H. cbn [rs_p with_p]. rewrite get_scope_track_scope_other by exact Hne. exact H.
  - intros r rid args o H. exact H.
  - intros r H. exact H.
Qed.
Theorem group_request_leaves_other_scopes rs h t g k : h <> k ->
  get_scope (rs_p (fst (resolve_group rs h t g))) k = get_scope (rs_p rs) k.
Proof.
  intros Hne. apply (gen_resolve_group h (fun r => get_scope (rs_p r) k = get_scope (rs_p rs) k)); try reflexivity.
  - intros r n i H. cbn [rs_p with_p]. rewrite get_scope_cache_set_other by exact Hne. exact H.
  - intros r i H. cbn [rs_p with_p]. rewrite get_scope_track_scope_other by exact Hne. exact H.
  - intros r rid args o H. exact H.
  - intros r H. exact H.
Qed.

(* a resolution closes nothing: every event it logs is a constructor invocation or a cancellation notice *)
Definition construction_event (e : event) : Prop := match e with EvCtor _ _ _ _ | EvCancel => True | _ => False end.
Theorem resolution_closes_nothing fuel rs h d :
  exists l, rs_ev (fst (resolve_d fuel rs h d)) = l ++ rs_ev rs /\ Forall construction_event l.
Proof.
  apply (gen_resolve h (fun r => exists l, rs_ev r = l ++ rs_ev rs /\ Forall construction_event l)).
  - intros r n i H. exact H.
  - intros r i H. exact H.
  - intros r rid args o [l [E F]]. exists (EvCtor rid (get_inv (rs_invs r) rid) args o :: l). cbn [rs_ev log]. rewrite E. split; [reflexivity|constructor; [exact I|exact F]].
  - intros r [l [E F]]. exists (EvCancel :: l). cbn [rs_ev log]. rewrite E. split; [reflexivity|constructor; [exact I|exact F]].
  - exists []. split; [reflexivity|constructor].
Qed.

(* the scope's disposal list only grows during a resolution: what is owned stays owned until a Close *)
Lemma sc_disp_cache_set p h n i k : sc_disp (get_scope (cache_set p h n i) k) = sc_disp (get_scope p k).
Proof.
  unfold cache_set. destruct (Nat.eq_dec h k) as [->|Hne]; [|rewrite get_scope_upd_scope_other by exact Hne; reflexivity].
  destruct (Nat.lt_ge_cases k (length (p_scopes p))) as [Hl|Hl].
  - unfold get_scope, upd_scope; cbn [p_scopes]. rewrite nth_upd_nth_same by exact Hl. reflexivity.
  - unfold get_scope, upd_scope; cbn [p_scopes]. rewrite nth_upd_nth_oob by exact Hl. reflexivity.
Qed.
Lemma sc_disp_track_scope p h i k : exists l, sc_disp (get_scope (track_scope p h i) k) = l ++ sc_disp (get_scope p k).
Proof.
  unfold track_scope. destruct (inst_disposable i); [|exists []; reflexivity].
  destruct (Nat.eq_dec h k) as [->|Hne]; [|rewrite get_scope_upd_scope_other by exact Hne; exists []; reflexivity].
  destruct (Nat.lt_ge_cases k (length (p_scopes p))) as [Hl|Hl].
  - unfold get_scope, upd_scope; cbn [p_scopes]. rewrite nth_upd_nth_same by exact Hl. exists [i]. reflexivity.
  - unfold get_scope, upd_scope; cbn [p_scopes]. rewrite nth_upd_nth_oob by exact Hl. exists []. reflexivity.
Qed.
Theorem resolution_only_adds_owned_instances fuel rs h d k :
  exists l, sc_disp (get_scope (rs_p (fst (resolve_d fuel rs h d))) k) = l ++ sc_disp (get_scope (rs_p rs) k).
Proof.
  apply (gen_resolve h (fun r => exists l, sc_disp (get_scope (rs_p r) k) = l ++ sc_disp (get_scope (rs_p rs) k))).
  - intros r n i [l E]. exists l. cbn [rs_p with_p]. rewrite sc_disp_cache_set. exact E.
  - intros r i [l E]. cbn [rs_p with_p]. destruct (sc_disp_track_scope (rs_p r) h i k) as [l' E']. exists (l' ++ l). rewrite E', E, app_assoc. reflexivity.
  - intros r rid args o H. exact H.
  - intros r H. exact H.
  - exists []. reflexivity.
Qed.
