(* ProofsTerm.v — resolution terminates (C05): on a registration set whose call relation decreases a rank, the
   fuelled resolution never runs out of fuel; and an acyclic dependency graph provides such a rank. *)
From Godi Require Import Base GDfs GKahnComplete Model Check ProofsRuntime.

Lemma deps_of_In ps dp : In (PDep dp) ps -> In dp (deps_of ps).
Proof.
  induction ps as [|[d|] ps IH]; cbn [deps_of]; intros H; [destruct H| |].
  - destruct H as [E|H]; [inversion E; left; reflexivity|right; apply IH; exact H].
  - destruct H as [E|H]; [discriminate|apply IH; exact H].
Qed.

Section Rank.
  Variable c : coll.
  Variable rank : desc -> nat.

  (* d' is what one resolution step from d may resolve next *)
  Definition callee (d d' : desc) : Prop :=
    exists dp, In dp (reg_deps (ds_reg d)) /\
      ((d_group dp = 0 /\ find_service c (d_ty dp) (name_key (d_name dp)) = Some d') \/
       (d_group dp <> 0 /\ In d' (group_members c (d_ty dp) (d_group dp)))).
  Hypothesis rank_dec : forall d d', In d c -> callee d d' -> rank d' < rank d.

  Lemma callee_in d d' : callee d d' -> In d' c.
  Proof.
    intros [dp [_ [[_ H]|[_ H]]]].
    - unfold find_service in H. apply find_some in H. tauto.
    - unfold group_members in H. apply filter_In in H. tauto.
  Qed.

  Definition on_c (rs : rstate) : Prop := p_descs (rs_p rs) = c.

  Lemma resolve_on_c fuel rs h d : on_c rs -> on_c (fst (resolve_d fuel rs h d)).
  Proof. apply (resolve_preserves (fun p => p_descs p = c)); intros; unfold cache_set, track_scope, single_set, track_single, upd_scope;
         try destruct (inst_disposable i); cbn [p_descs]; assumption. Qed.

  Section Step.
    Variable f : nat.
    Hypothesis IH : forall rs h d, on_c rs -> In d c -> rank d < f -> snd (resolve_d f rs h d) <> RFuel.

    Lemma group_no_fuel h bound ms : forall rs acc, on_c rs -> (forall m, In m ms -> In m c /\ rank m < bound) -> bound <= f ->
      snd (group_loop (resolve_d f) rs h ms acc) <> RFuel.
    Proof.
      induction ms as [|m ms IHm]; intros rs acc Hc Hr Hb; cbn [group_loop]; [discriminate|].
      destruct (Hr m (or_introl eq_refl)) as [Hmc Hmr].
      assert (Hm : rank m < f) by lia.
      pose proof (IH rs h m Hc Hmc Hm) as Hne. pose proof (resolve_on_c f rs h m Hc) as Hc1.
      destruct (resolve_d f rs h m) as [rs1 [a|e|]]; cbn [fst snd] in *; [|discriminate|congruence].
      destruct a; try discriminate; (apply IHm; [exact Hc1|intros; apply Hr; right; assumption|exact Hb]).
    Qed.

    Lemma dep_no_fuel d h rs dp : on_c rs -> In d c -> rank d <= f -> In dp (reg_deps (ds_reg d)) ->
      snd (dep_value (resolve_d f) rs h dp) <> RFuel /\ on_c (fst (dep_value (resolve_d f) rs h dp)).
    Proof.
      intros Hc Hd Hr Hin. unfold dep_value. destruct (d_group dp =? 0) eqn:Eg.
      - apply Nat.eqb_eq in Eg. unfold req.
        assert (Hfind : forall k, k = name_key (d_name dp) ->
                  snd (match find_service (p_descs (rs_p rs)) (d_ty dp) k with
                       | Some d0 => resolve_d f rs h d0 | None => (rs, RFail ENotFound) end) <> RFuel /\
                  on_c (fst (match find_service (p_descs (rs_p rs)) (d_ty dp) k with
                       | Some d0 => resolve_d f rs h d0 | None => (rs, RFail ENotFound) end))).
        { intros k ->. rewrite Hc. destruct (find_service c (d_ty dp) (name_key (d_name dp))) as [d'|] eqn:Hf; [|split; [discriminate|exact Hc]].
          assert (Hcal : callee d d') by (exists dp; split; [exact Hin|left; split; assumption]).
          split; [apply IH; [exact Hc|exact (callee_in d d' Hcal)|]|apply resolve_on_c; exact Hc].
          assert (rank d' < rank d) by (apply rank_dec; assumption). lia. }
        destruct (name_key (d_name dp)) eqn:Ek; try (apply Hfind; reflexivity).
        destruct (builtin h (d_ty dp)); [split; [discriminate|exact Hc]|apply Hfind; reflexivity].
      - apply Nat.eqb_neq in Eg. unfold group_value. split.
        + rewrite Hc. apply (group_no_fuel h (rank d)); [exact Hc| |exact Hr].
          intros m Hm. assert (Hcal : callee d m) by (exists dp; split; [exact Hin|right; split; assumption]).
          split; [exact (callee_in d m Hcal)|apply rank_dec; assumption].
        + (* descriptors unchanged by the group loop *)
          assert (Hg : forall ms rs0 acc, on_c rs0 -> on_c (fst (group_loop (resolve_d f) rs0 h ms acc))).
          { induction ms as [|m ms IHm]; intros rs0 acc Hc0; cbn [group_loop]; [exact Hc0|].
            pose proof (resolve_on_c f rs0 h m Hc0) as Hc1.
            destruct (resolve_d f rs0 h m) as [rs1 [a|e|]]; cbn [fst] in *; try exact Hc1.
            destruct a; try exact Hc1; (apply IHm; exact Hc1). }
          apply Hg. exact Hc.
    Qed.

    Lemma args_no_fuel d h io ps : forall rs acc, on_c rs -> In d c -> rank d <= f ->
      (forall dp, In (PDep dp) ps -> In dp (reg_deps (ds_reg d))) ->
      snd (args_loop (resolve_d f) rs h io ps acc) <> inr RFuel.
    Proof.
      induction ps as [|[dp|] ps IHp]; intros rs acc Hc Hd Hr Hin; cbn [args_loop]; [discriminate| |].
      - destruct (dep_no_fuel d h rs dp Hc Hd Hr (Hin dp (or_introl eq_refl))) as [Hne Hc1].
        destruct (dep_value (resolve_d f) rs h dp) as [rs1 [a|e|]]; cbn [fst snd] in *.
        + apply IHp; [exact Hc1|exact Hd|exact Hr|intros; apply Hin; right; assumption].
        + destruct (io && d_opt dp); [apply IHp; [exact Hc1|exact Hd|exact Hr|intros; apply Hin; right; assumption]|cbn [snd]; discriminate].
        + congruence.
      - apply IHp; [exact Hc|exact Hd|exact Hr|intros; apply Hin; right; assumption].
    Qed.

    Lemma create_no_fuel rs h d : on_c rs -> In d c -> rank d <= f -> snd (create (resolve_d f) rs h d) <> RFuel.
    Proof.
      intros Hc Hd Hr. unfold create.
      destruct (r_form (ds_reg d)) as [t|io0 ps1 rets er|io0 ps1 fs er] eqn:Hf; [discriminate| |].
      - assert (Hps : reg_params (ds_reg d) = (io0, ps1)) by (unfold reg_params; rewrite Hf; reflexivity).
        rewrite Hps.
        pose proof (args_no_fuel d h io0 ps1 rs [] Hc Hd Hr) as Ha.
        assert (Hin : forall dp, In (PDep dp) ps1 -> In dp (reg_deps (ds_reg d))).
        { intros dp H. unfold reg_deps. rewrite Hps. cbn [snd]. apply deps_of_In. exact H. }
        specialize (Ha Hin).
        destruct (args_loop (resolve_d f) rs h io0 ps1 []) as [rs1 [args|e]]; cbn [snd] in *; [|destruct e; try discriminate; congruence].
        destruct (cancels (ds_reg d) _); destruct (effective_outcome (ds_reg d) _); try discriminate;
          destruct rets as [|t0 [|t1 ts]]; discriminate.
      - assert (Hps : reg_params (ds_reg d) = (io0, ps1)) by (unfold reg_params; rewrite Hf; reflexivity).
        rewrite Hps.
        pose proof (args_no_fuel d h io0 ps1 rs [] Hc Hd Hr) as Ha.
        assert (Hin : forall dp, In (PDep dp) ps1 -> In dp (reg_deps (ds_reg d))).
        { intros dp H. unfold reg_deps. rewrite Hps. cbn [snd]. apply deps_of_In. exact H. }
        specialize (Ha Hin).
        destruct (args_loop (resolve_d f) rs h io0 ps1 []) as [rs1 [args|e]]; cbn [snd] in *; [|destruct e; try discriminate; congruence].
        destruct (cancels (ds_reg d) _); destruct (effective_outcome (ds_reg d) _); try discriminate;
          match goal with |- context [stores_any ?a ?b ?c] => destruct (stores_any a b c) end; discriminate.
    Qed.
  End Step.

  (* enough fuel for the rank: resolution never reports exhaustion *)
  Theorem resolve_never_out_of_fuel : forall fuel rs h d, on_c rs -> In d c -> rank d < fuel -> snd (resolve_d fuel rs h d) <> RFuel.
  Proof.
    induction fuel as [|f IH]; intros rs h d Hc Hd Hr; [lia|]. cbn [resolve_d].
    destruct (ds_life d).
    - destruct (lookup_i _ _); discriminate.
    - destruct (lookup_i _ _); [discriminate|]. apply create_no_fuel; [exact IH|exact Hc|exact Hd|lia].
    - apply create_no_fuel; [exact IH|exact Hc|exact Hd|lia].
  Qed.
End Rank.

(* ------------------------------------------------------------------ a rank from a topologically closed list *)
Fixpoint rank_in (L : list nat) (u : nat) : nat :=
  match L with
  | [] => 0
  | x :: l => if mem u l then rank_in l u else if x =? u then S (length l) else 0
  end.
Lemma rank_in_le L u : rank_in L u <= length L.
Proof. induction L as [|x l IH]; cbn [rank_in length]; [lia|]. destruct (mem u l); [lia|]. destruct (x =? u); lia. Qed.

Lemma rank_decreases g L : topo_closed g L -> forall u v, In u L -> In v (g u) -> rank_in L v < rank_in L u.
Proof.
  induction 1 as [|x l Htc IH Hs]; intros u v Hu Hv; [destruct Hu|]. cbn [rank_in].
  destruct (mem u l) eqn:Hm.
  - apply mem_In in Hm. assert (In v l) as Hvl by (eapply tc_closed; eauto).
    assert (mem v l = true) as -> by (apply mem_In; exact Hvl). apply IH; assumption.
  - apply mem_nIn in Hm. destruct Hu as [->|Hu]; [|contradiction].
    rewrite Nat.eqb_refl. assert (In v l) as Hvl by (apply Hs; exact Hv).
    assert (mem v l = true) as -> by (apply mem_In; exact Hvl). pose proof (rank_in_le l v). lia.
Qed.

(* ------------------------------------------------------------------ the container's graph *)
Lemma ident_eqb_eq a b : ident_eqb a b = true <-> a = b.
Proof.
  destruct a as [[t1 k1] g1], b as [[t2 k2] g2]. cbn [ident_eqb]. split.
  - intros H. apply andb_prop in H. destruct H as [H Hg]. apply andb_prop in H. destruct H as [Ht Hk].
    apply Nat.eqb_eq in Ht, Hg. destruct k1, k2; cbn in Hk; try discriminate; try (apply Nat.eqb_eq in Hk); subst; reflexivity.
  - intros E; inversion E; subst. rewrite !Nat.eqb_refl. destruct k2; cbn; rewrite ?Nat.eqb_refl; reflexivity.
Qed.
Lemma mem_ident_In n l : mem_ident n l = true <-> In n l.
Proof.
  unfold mem_ident. rewrite existsb_exists. split.
  - intros [y [Hy He]]. apply ident_eqb_eq in He. subst. exact Hy.
  - intros H. exists n. split; [exact H|apply ident_eqb_eq; reflexivity].
Qed.
Lemma dedup_In n l : In n (dedup l) <-> In n l.
Proof.
  induction l as [|x l IH]; cbn [dedup]; [tauto|].
  destruct (mem_ident x l) eqn:Hm.
  - rewrite IH. split; [intros H; right; exact H|intros [<-|H]; [apply mem_ident_In; exact Hm|exact H]].
  - cbn [In]. rewrite IH. tauto.
Qed.
Lemma index_of_lt n l : In n l -> index_of n l < length l.
Proof.
  induction l as [|x l IH]; intros H; [destruct H|]. cbn [index_of length].
  destruct (ident_eqb x n) eqn:E; [lia|]. destruct H as [->|H]; [rewrite (proj2 (ident_eqb_eq n n) eq_refl) in E; discriminate|].
  specialize (IH H). lia.
Qed.
Lemma nth_index_of n l : In n l -> nth_error l (index_of n l) = Some n.
Proof.
  induction l as [|x l IH]; intros H; [destruct H|]. cbn [index_of].
  destruct (ident_eqb x n) eqn:E; [apply ident_eqb_eq in E; subst; reflexivity|].
  destruct H as [->|H]; [rewrite (proj2 (ident_eqb_eq n n) eq_refl) in E; discriminate|]. cbn [nth_error]. apply IH. exact H.
Qed.

(* every successor of a graph node is a graph node *)
Lemma node_succ_in_nodes c n m : In n (graph_nodes c) -> In m (node_succ c n) -> In m (graph_nodes c).
Proof.
  intros Hn Hm. unfold graph_nodes. apply dedup_In. apply in_or_app. unfold node_succ in Hm.
  destruct (find_by_ident c n) as [d|] eqn:Hf.
  - right. apply in_flat_map. exists d. split; [|exact Hm]. unfold find_by_ident in Hf. apply find_some in Hf. tauto.
  - destruct n as [[t k] g]. destruct k; try destruct Hm. destruct g; [destruct Hm|].
    left. apply in_map_iff in Hm. destruct Hm as [x [<- Hx]]. apply in_map. unfold group_members in Hx. apply filter_In in Hx. tauto.
Qed.

Lemma nat_graph_closed c u v :
  In u (seq 0 (length (graph_nodes c))) -> In v (nat_graph c u) -> In v (seq 0 (length (graph_nodes c))).
Proof.
  intros Hu Hv. unfold nat_graph in Hv. apply in_seq in Hu.
  destruct (nth_error (graph_nodes c) u) as [n|] eqn:Hn; [|destruct Hv].
  apply in_map_iff in Hv. destruct Hv as [m [<- Hm]]. apply in_seq. split; [lia|]. cbn.
  apply index_of_lt. eapply node_succ_in_nodes; [|exact Hm]. eapply nth_error_In; eauto.
Qed.

(* has_cycle = false: no node of the container's graph lies on a cycle, and there is a topologically closed list covering it *)
Lemma acyclic_has_certificate c : has_cycle c = false ->
  exists L, topo_closed (nat_graph c) L /\ forall u, u < length (graph_nodes c) -> In u L.
Proof.
  intros H. unfold has_cycle in H.
  set (n := length (graph_nodes c)) in *.
  assert (Hac : forall u, In u (seq 0 n) -> ~ on_cycle (nat_graph c) u).
  { apply (detect_exact (nat_graph c) (seq 0 n) (nat_graph_closed c) (seq 0 n) (fun u => conj (fun x => x) (fun x => x))).
    destruct (detect (nat_graph c) (seq 0 n) (seq 0 n)); [discriminate|reflexivity]. }
  destruct (GKahnComplete.acyclic_certificate (seq 0 n) (nat_graph c) (nat_graph_closed c) Hac) as [L [HL Hcov]].
  exists L. split; [exact HL|]. intros u Hu. apply Hcov. apply in_seq. lia.
Qed.

(* ------------------------------------------------------------------ well-formed collections *)
(* identities are unique; a descriptor in the (type,key) table has no group, a group member has one; a group
   dependency carries no name *)
Definition wf_coll (c : coll) : Prop :=
  NoDup (map ds_ident c) /\
  (forall d, In d c -> in_services d = true -> ds_grp d = 0) /\
  (forall d, In d c -> in_services d = false -> ds_grp d <> 0).

Lemma find_by_ident_self c d : NoDup (map ds_ident c) -> In d c -> find_by_ident c (ds_ident d) = Some d.
Proof.
  unfold find_by_ident. induction c as [|x c IH]; intros Hnd Hin; [destruct Hin|]. cbn [find map] in *.
  inversion Hnd as [|? ? Hx Hnd']; subst.
  destruct (ident_eqb (ds_ident x) (ds_ident d)) eqn:E.
  - apply ident_eqb_eq in E. destruct Hin as [->|Hin]; [reflexivity|].
    exfalso. apply Hx. rewrite E. apply in_map. exact Hin.
  - destruct Hin as [->|Hin]; [rewrite (proj2 (ident_eqb_eq _ _) eq_refl) in E; discriminate|]. apply IH; assumption.
Qed.

Section Built.
  Variable c : coll.
  Hypothesis Hwf : wf_coll c.
  Hypothesis Hac : has_cycle c = false.

  Let ns := graph_nodes c.
  Definition idx (n : ident) : nat := index_of n ns.

  Lemma desc_ident_in_nodes d : In d c -> In (ds_ident d) ns.
  Proof. intros H. unfold ns, graph_nodes. apply dedup_In. apply in_or_app. left. apply in_map. exact H. Qed.
  Lemma dep_ident_in_nodes d dp : In d c -> In dp (reg_deps (ds_reg d)) -> In (dep_ident dp) ns.
  Proof.
    intros H Hd. unfold ns, graph_nodes. apply dedup_In. apply in_or_app. right.
    apply in_flat_map. exists d. split; [exact H|apply in_map; exact Hd].
  Qed.

  (* an edge of the identity graph is an edge of the numbered graph *)
  Lemma edge_numbered n m : In n ns -> In m (node_succ c n) -> In (idx m) (nat_graph c (idx n)).
  Proof.
    intros Hn Hm. unfold nat_graph, idx. fold ns. rewrite (nth_index_of n ns Hn). apply (in_map (fun m0 => index_of m0 ns)). exact Hm.
  Qed.

  Lemma desc_dep_edge d dp : In d c -> In dp (reg_deps (ds_reg d)) -> In (idx (dep_ident dp)) (nat_graph c (idx (ds_ident d))).
  Proof.
    intros Hd Hdp. apply edge_numbered; [apply desc_ident_in_nodes; exact Hd|].
    unfold node_succ. destruct Hwf as [Hnd _]. rewrite (find_by_ident_self c d Hnd Hd). apply in_map. exact Hdp.
  Qed.

  Lemma group_node_edge t g m : g <> 0 -> In m (group_members c t g) -> In (idx (ds_ident m)) (nat_graph c (idx (t, KNone, g))) \/ ~ In (t, KNone, g) ns.
  Proof.
    intros Hg Hm. destruct (in_dec (fun a b => match Bool.bool_dec (ident_eqb a b) true with left e => left (proj1 (ident_eqb_eq a b) e) | right ne => right (fun E => ne (proj2 (ident_eqb_eq a b) E)) end) (t, KNone, g) ns) as [Hin|Hnin]; [left|right; exact Hnin].
    apply edge_numbered; [exact Hin|]. unfold node_succ.
    destruct (find_by_ident c (t, KNone, g)) as [d0|] eqn:Hf.
    - (* no descriptor has a nil key together with a group *)
      exfalso. unfold find_by_ident in Hf. apply find_some in Hf. destruct Hf as [Hd0 He]. apply ident_eqb_eq in He.
      destruct Hwf as (_ & H1 & _). assert (in_services d0 = true) by (unfold in_services; inversion He as [[Ht Hk Hgr]]; rewrite Hk; reflexivity).
      specialize (H1 d0 Hd0 H). inversion He. congruence.
    - destruct g; [contradiction|]. apply in_map. exact Hm.
  Qed.

  (* the rank: position in a topologically closed list of the numbered graph *)
  Theorem acyclic_gives_rank :
    exists (rank : desc -> nat) (bound : nat),
      (forall d d', In d c -> callee c d d' -> rank d' < rank d) /\ (forall d, rank d <= bound).
  Proof.
    destruct (acyclic_has_certificate c Hac) as [L [Htc Hcov]]. fold ns in Hcov.
    exists (fun d => rank_in L (idx (ds_ident d))), (length L). split; [|intros d; apply rank_in_le].
    intros d d' Hd [dp [Hdp Hcase]].
    assert (HuL : In (idx (ds_ident d)) L) by (apply Hcov; apply index_of_lt; apply desc_ident_in_nodes; exact Hd).
    pose proof (desc_dep_edge d dp Hd Hdp) as Hedge.
    destruct Hcase as [[Hg Hf]|[Hg Hm]].
    - (* plain or keyed dependency: the provider's identity is the dependency's identity *)
      pose proof Hf as Hf'. unfold find_service in Hf'. apply find_some in Hf'. destruct Hf' as [Hd' Hb].
      apply andb_prop in Hb. destruct Hb as [Hb Hk]. apply andb_prop in Hb. destruct Hb as [Hs Ht].
      apply Nat.eqb_eq in Ht.
      assert (Hk' : ds_key d' = name_key (d_name dp)).
      { destruct (ds_key d'), (name_key (d_name dp)); cbn in Hk; try discriminate; try reflexivity; apply Nat.eqb_eq in Hk; subst; reflexivity. }
      destruct Hwf as (_ & H1 & _). specialize (H1 d' Hd' Hs).
      assert (Hid : ds_ident d' = dep_ident dp) by (unfold ds_ident, dep_ident, dep_key; rewrite Ht, Hk', H1, Hg; reflexivity).
      rewrite Hid. apply (rank_decreases (nat_graph c) L Htc); assumption.
    - (* group dependency: through the group's node *)
      assert (Hgn : dep_ident dp = (d_ty dp, KNone, d_group dp)).
      { unfold dep_ident, dep_key. destruct (d_group dp =? 0) eqn:Eg; [apply Nat.eqb_eq in Eg; contradiction|reflexivity]. }
      rewrite Hgn in Hedge.
      assert (Hgin : In (d_ty dp, KNone, d_group dp) ns).
      { pose proof (dep_ident_in_nodes d dp Hd Hdp) as Hx. rewrite Hgn in Hx. exact Hx. }
      assert (HgL : In (idx (d_ty dp, KNone, d_group dp)) L).
      { apply Hcov. apply index_of_lt. exact Hgin. }
      destruct (group_node_edge (d_ty dp) (d_group dp) d' Hg Hm) as [He|Hn].
      + pose proof (rank_decreases (nat_graph c) L Htc _ _ HuL Hedge) as R1.
        pose proof (rank_decreases (nat_graph c) L Htc _ _ HgL He) as R2. lia.
      + exfalso. apply Hn. exact Hgin.
  Qed.

  (* resolution terminates: beyond some amount of fuel the fuelled resolution never reports exhaustion,
     whatever the state, the scope and the requested descriptor *)
  Theorem acyclic_collection_terminates :
    exists N, forall fuel rs h d, N <= fuel -> p_descs (rs_p rs) = c -> In d c -> snd (resolve_d fuel rs h d) <> RFuel.
  Proof.
    destruct acyclic_gives_rank as [rank [bound [Hdec Hb]]].
    exists (S bound). intros fuel rs h d Hf Hc Hd.
    apply (resolve_never_out_of_fuel c rank Hdec); [exact Hc|exact Hd|]. specialize (Hb d). lia.
  Qed.
End Built.
