(* ProofsOutputs.v — C04, "resolvable under exactly those identities and no others": the outputs of a
   multi-output constructor are written under the identities of the descriptors that the same registration
   call created and that the provider still holds, and under no other identity - in particular not under an
   identity that was removed from the registration and taken by another constructor. *)
From Godi Require Import Base Model ProofsRuntime ProofsClosed ProofsTerm.

Definition answers (p : prov) (h : nat) (n : ident) : option inst * option inst :=
  (lookup_i (p_single p) n, lookup_i (sc_cache (get_scope p h)) n).
Definition same_call (sd d : desc) : Prop := ds_rid sd = ds_rid d /\ ds_call sd = ds_call d.

Lemma ident_eqb_false a b : a <> b -> ident_eqb a b = false.
Proof. intros H. destruct (ident_eqb a b) eqn:E; [apply ident_eqb_eq in E; contradiction|reflexivity]. Qed.

Lemma get_scope_upd_scope_same p h f : h < length (p_scopes p) -> get_scope (upd_scope p h f) h = f (get_scope p h).
Proof. intros H. unfold get_scope, upd_scope; cbn [p_scopes]. apply nth_upd_nth_same. exact H. Qed.

Lemma answers_track_scope p h i h' n : answers (track_scope p h i) h' n = answers p h' n.
Proof.
  unfold track_scope. destruct (inst_disposable i); [|reflexivity]. unfold answers. cbn [p_single upd_scope].
  destruct (Nat.eq_dec h h') as [->|Hne]; [|rewrite get_scope_upd_scope_other by exact Hne; reflexivity].
  destruct (Nat.lt_ge_cases h' (length (p_scopes p))) as [Hl|Hl].
  - rewrite get_scope_upd_scope_same by exact Hl. reflexivity.
  - unfold get_scope, upd_scope; cbn [p_scopes]. rewrite nth_upd_nth_oob by exact Hl. reflexivity.
Qed.
Lemma answers_track_single p i h' n : answers (track_single p i) h' n = answers p h' n.
Proof. unfold track_single. destruct (inst_disposable i); reflexivity. Qed.
Lemma answers_cache_set p h m i h' n : m <> n -> answers (cache_set p h m i) h' n = answers p h' n.
Proof.
  intros Hne. unfold answers, cache_set. cbn [p_single upd_scope].
  destruct (Nat.eq_dec h h') as [->|Hh]; [|rewrite get_scope_upd_scope_other by exact Hh; reflexivity].
  destruct (Nat.lt_ge_cases h' (length (p_scopes p))) as [Hl|Hl].
  - rewrite get_scope_upd_scope_same by exact Hl. cbn [sc_cache lookup_i]. rewrite ident_eqb_false by exact Hne. reflexivity.
  - unfold get_scope, upd_scope; cbn [p_scopes]. rewrite nth_upd_nth_oob by exact Hl. reflexivity.
Qed.
Lemma answers_single_set p m i h' n : m <> n -> answers (single_set p m i) h' n = answers p h' n.
Proof. intros Hne. unfold answers, single_set. cbn [p_single p_scopes lookup_i get_scope]. rewrite ident_eqb_false by exact Hne. reflexivity. Qed.

Lemma answers_store life p h m i h' n : m <> n -> answers (store life p h m i) h' n = answers p h' n.
Proof.
  intros Hne. unfold store. destruct life.
  - rewrite answers_track_single. apply answers_single_set. exact Hne.
  - rewrite answers_track_scope. apply answers_cache_set. exact Hne.
  - apply answers_track_scope.
Qed.
Lemma answers_drop p h life i h' n : answers (drop_output p h life i) h' n = answers p h' n.
Proof. unfold drop_output. destruct life; [apply answers_track_single|apply answers_track_scope|apply answers_track_scope]. Qed.

Lemma descs_store life p h m i : p_descs (store life p h m i) = p_descs p.
Proof.
  unfold store, track_single, track_scope, single_set, cache_set, upd_scope.
  destruct life; destruct (inst_disposable i); reflexivity.
Qed.
Lemma descs_drop p h life i : p_descs (drop_output p h life i) = p_descs p.
Proof.
  unfold drop_output, track_single, track_scope, upd_scope. destruct life; destruct (inst_disposable i); reflexivity.
Qed.

Lemma output_desc_some c d k sd : output_desc c d k = Some sd -> In sd c /\ same_call sd d /\ ds_out sd = k.
Proof.
  unfold output_desc. intros H. apply find_some in H. destruct H as [Hin Hb].
  apply andb_prop in Hb. destruct Hb as [Hb H3]. apply andb_prop in Hb. destruct Hb as [H1 H2].
  apply Nat.eqb_eq in H1, H2, H3. repeat split; assumption.
Qed.

(* the frame: an identity that no held descriptor of this registration call carries keeps its answers, in every scope *)
Theorem fan_out_writes_only_its_own_identities ks : forall p h d inv h' n,
  (forall sd, In sd (p_descs p) -> same_call sd d -> ds_ident sd <> n) ->
  answers (fan_out p h d inv ks) h' n = answers p h' n.
Proof.
  induction ks as [|k rest IH]; intros p h d inv h' n Hn; cbn [fan_out]; [reflexivity|].
  destruct (output_desc (p_descs p) d k) as [sd|] eqn:Ho.
  - destruct (output_desc_some _ _ _ _ Ho) as (Hin & Hsc & _).
    destruct (out_is_nil (ds_reg d) k && life_eqb (ds_life d) Singleton); [apply IH; exact Hn|].
    rewrite IH; [apply answers_store; apply Hn; assumption|].
    rewrite descs_store. exact Hn.
  - rewrite IH; [apply answers_drop|]. rewrite descs_drop. exact Hn.
Qed.

(* and every output that is stored is stored under the descriptor created for exactly that output *)
Theorem fan_out_targets_are_the_registrations_own c d k sd :
  output_desc c d k = Some sd -> In sd c /\ ds_rid sd = ds_rid d /\ ds_call sd = ds_call d /\ ds_out sd = k.
Proof. intros H. destruct (output_desc_some c d k sd H) as (H1 & [H2 H3] & H4). auto. Qed.
