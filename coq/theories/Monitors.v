(* Monitors.v — the boolean reading of each property on one trace (DESIGN appendix C).
   The same function is evaluated on the model's trace (theorems) and on the trace observed on
   the implementation (per-run check). Definitions only. *)
From Godi Require Import Base GDfs Model Check.

(* ---------------------------------------------------------------- the registrations of a case *)
Fixpoint regs_of_module (m : module) : list reg :=
  match m with
  | MAdd r => [r]
  | MModule _ ms => flat_map regs_of_module ms
  | _ => []
  end.
Definition regs_of_op (o : op) : list reg :=
  match o with
  | OAdd r => [r]
  | OModules ms => flat_map regs_of_module ms
  | _ => []
  end.
Definition regs_of (ops : list op) : list reg := flat_map regs_of_op ops.
Definition find_reg (rs : list reg) (rid : nat) : option reg := find (fun r => r_id r =? rid) rs.

(* what a registration provides, read off its form (specification level):
   (type, name, group, output index) *)
(* the monitors' bookkeeping marks an output whose identity was removed from the collection by this type *)
Definition T_GONE : ty := 61.
Definition provides_all (r : reg) : list (ty * nat * grp * nat) :=
  match r_form r with
  | FResult _ _ fs _ => map (fun '(k, f) => (f_ty f, f_name f, f_group f, k)) (combine (seq 0 (length fs)) fs)
  | FCtor _ _ (t0 :: t1 :: ts) _ =>
      map (fun '(k, t) => (t, match k with 0 => r_name r | _ => 0 end, r_group r, k))
          (combine (seq 0 (S (S (length ts)))) (t0 :: t1 :: ts))
  | f =>
      match r_as r with
      | [] => [(form_type f, r_name r, r_group r, 0)]
      | ifs => map (fun i => (i, r_name r, r_group r, 0)) ifs
      end
  end.
Definition provides (r : reg) : list (ty * nat * grp * nat) :=
  filter (fun '(t, _, _, _) => negb (t =? T_GONE)) (provides_all r).
Definition provides_b (r : reg) (t : ty) (n : nat) (g : grp) (out : nat) : bool :=
  existsb (fun '(t', n', g', o') => (t =? t') && (n =? n') && (g =? g') && (out =? o')) (provides r).

(* a name next to a group on one dependency is ignored *)
Definition dep_name (d : dep) : nat := if d_group d =? 0 then d_name d else 0.
(* instance i is a legitimate answer to a request for (t, name n, group g) *)
Definition is_nil_member (i : inst) : bool := match i with IObj 0 0 0 dyn => dyn =? T_NILOUT | _ => false end.
Definition produced_for (rs : list reg) (i : inst) (t : ty) (n : nat) (g : grp) : bool :=
  if is_nil_member i
  then (* a group member its constructor left nil: some registration declares such an output for this group *)
       negb (g =? 0) && existsb (fun r => existsb (fun '(t', _, g', k) => (t' =? t) && (g' =? g) && out_is_nil r k) (provides r)) rs
  else
  match i with
  | IVoid =>
      (* a `struct{}` value carries no identity: it answers a request for a named initializer that is registered *)
      (t =? T_VOID) && (g =? 0) && existsb (fun r => existsb (fun '(t', n', g', _) => (t' =? T_VOID) && (n' =? n) && (g' =? 0)) (provides r)) rs
  | IObj rid _ out dyn =>
      match find_reg rs rid with
      | Some r => provides_b r t n g out && (dyn =? nth_default 0 (r_dyn r) out)
      | None => false
      end
  end.

(* lenient: some constructor failed in this step (an optional dependency whose construction failed stays zero) *)
(* a group is handed out complete and in registration order *)
Definition list_eqb_n := list_eqb Nat.eqb.
Definition pair_eqb (a b : nat * nat) : bool := (fst a =? fst b) && (snd a =? snd b).
(* one entry per member: a result object may contribute several fields to one group, in field order *)
Definition group_in_order (rs : list reg) (t : ty) (g : grp) (l : list inst) : bool :=
  list_eqb pair_eqb
    (flat_map (fun i => if is_nil_member i then [(0, 0)] else match i with IObj rid _ out _ => [(rid, out)] | IVoid => [] end) l)
    (flat_map (fun r => flat_map (fun '(t', _, g', k) => if (t' =? t) && (g' =? g) then [if out_is_nil r k then (0, 0) else (r_id r, k)] else []) (provides r)) rs).
Definition arg_ok (rs : list reg) (lenient : bool) (p : param) (a : aval) : bool :=
  match p, a with
  | PSkip, AZero => true
  | PSkip, _ => false
  | PDep d, AZero =>
      (* only an optional dependency may stay zero, and only when nothing is registered for it *)
      (d_opt d && (lenient || negb (existsb (fun r => existsb (fun '(t, n, g, _) => (t =? d_ty d) && (n =? dep_name d) && (g =? d_group d)) (provides r)) rs)))
      (* or the providing constructor leaves exactly that output nil *)
      || ((d_group d =? 0) && existsb (fun r => existsb (fun '(t, n, g, k) => (t =? d_ty d) && (n =? d_name d) && (g =? 0) && out_is_nil r k) (provides r)) rs)
  | PDep d, AInst i => (d_group d =? 0) &&
                       (produced_for rs i (d_ty d) (d_name d) 0
                        (* the zero value of an optional `struct{}` field is the one value of that type *)
                        || (match i with IVoid => d_opt d && (d_ty d =? T_VOID) | _ => false end))
  | PDep d, AList l => negb (d_group d =? 0) && forallb (fun i => produced_for rs i (d_ty d) 0 (d_group d)) l
                       && group_in_order rs (d_ty d) (d_group d) l
  | PDep d, ACtx _ => (d_ty d =? T_CTX) && (d_name d =? 0)
  | PDep d, AScope _ => (d_ty d =? T_SCOPE) && (d_name d =? 0)
  | PDep d, AProv => (d_ty d =? T_PROV) && (d_name d =? 0)
  end.
Fixpoint args_ok (rs : list reg) (lenient : bool) (ps : list param) (args : list aval) : bool :=
  match ps, args with
  | [], [] => true
  | p :: ps', a :: args' => arg_ok rs lenient p a && args_ok rs lenient ps' args'
  | _, _ => false
  end.
Definition event_wired (rs : list reg) (lenient : bool) (e : event) : bool :=
  match e with
  | EvCtor rid _ args _ =>
      match find_reg rs rid with
      | Some r => args_ok rs lenient (snd (reg_params r)) args
      | None => false
      end
  | _ => true
  end.

(* C04, producer half: whatever is handed out for an identity was produced by a registration that
   provides exactly that identity, and every constructor argument likewise *)
Definition step_produced (rs : list reg) (o : op) (s : list event * result) : bool :=
  forallb (event_wired rs (existsb (fun e => match e with EvCtor _ _ _ OOk => false | EvCtor _ _ _ _ => true | _ => false end) (fst s))) (fst s) &&
  match o, snd s with
  | OResolve _ _ t n, RVal (AInst i) => produced_for rs i t n 0
  | OResolve _ _ t n, RVal (AList _) => false
  | OResolveGroup _ _ t g, RVal (AList l) => forallb (fun i => produced_for rs i t 0 g) l && group_in_order rs t g l
  | _, _ => true
  end.
Fixpoint all_steps (f : op -> list event * result -> bool) (ops : list op) (tr : trace) : bool :=
  match ops, tr with
  | o :: ops', s :: tr' => f o s && all_steps f ops' tr'
  | _, _ => true
  end.

(* ================================================================ monitor state
   what a reader of the trace knows after each step, computed from operations and observed
   results only (not from the model) *)
Record scope_info := mkSI { si_p : nat; si_h : nat; si_parent : nat; si_ctx : nat }.
Record mstate := mkMS {
  ms_active : list reg;                 (* registrations currently in the collection *)
  ms_unsure : bool;                     (* a module batch failed half-way: the active set is a lower bound *)
  ms_nprov : nat;
  ms_regs_of_prov : list (nat * list reg);  (* registrations each provider was built from *)
  ms_built : list (nat * nat * nat);    (* (provider, singleton rid, invocation that built it) *)
  ms_scopes : list scope_info;
  ms_closed : list (nat * nat);         (* closed scopes (provider, handle) *)
  ms_pclosed : list nat;                (* closed providers *)
  ms_scoped : list (nat * nat * nat * nat);  (* (provider, handle, scoped rid, invocation) that succeeded there *)
  ms_handed : list inst;                (* transient instances handed out so far *)
  ms_created : list (nat * inst * nat); (* (provider, disposable instance, owner) created so far *)
  ms_closed_insts : list inst           (* instances closed so far *)
}.
Definition ms_init : mstate := mkMS [] false 0 [] [] [] [] [] [] [] [] [].

Definition mem_pair (x : nat * nat) (l : list (nat * nat)) : bool := existsb (pair_eqb x) l.
Definition mem_inst (i : inst) (l : list inst) : bool := existsb (inst_eqb i) l.

Definition life_of (rs : list reg) (rid : nat) : option lifetime :=
  match find_reg rs rid with Some r => Some (r_life r) | None => None end.
Definition is_life (rs : list reg) (l : lifetime) (rid : nat) : bool :=
  match life_of rs rid with Some l' => life_eqb l l' | None => false end.
Definition is_ctor_reg (r : reg) : bool := match r_form r with FInst _ => false | _ => true end.
Definition inst_rid (i : inst) : option nat := match i with IObj r _ _ _ => Some r | IVoid => None end.

Definition scope_parent (ms : mstate) (p h : nat) : nat :=
  match find (fun s => (si_p s =? p) && (si_h s =? h)) (ms_scopes ms) with
  | Some s => si_parent s
  | None => 0
  end.
(* is a = d or an ancestor of d (fuel: number of scopes) *)
Fixpoint is_ancestor (fuel : nat) (ms : mstate) (p a d : nat) : bool :=
  match fuel with
  | 0 => false
  | S f => (a =? d) || (negb (d =? 0) && is_ancestor f ms p a (scope_parent ms p d))
  end.
Definition anc (ms : mstate) (p a d : nat) : bool := is_ancestor (S (length (ms_scopes ms))) ms p a d.
Definition scope_closed (ms : mstate) (p h : nat) : bool :=
  if h =? 0 then mem_nat p (ms_pclosed ms) else mem_pair (p, h) (ms_closed ms).

Definition op_target (o : op) (r : result) : option (nat * nat) :=
  match o, r with
  | OResolve p h _ _, _ | OResolveGroup p h _ _, _ => Some (p, h)
  | OCreateScope p _ _, RScope h => Some (p, h)
  | _, _ => None
  end.

Definition insts_of_aval (a : aval) : list inst :=
  match a with AInst i => [i] | AList l => l | _ => [] end.
Definition insts_of_event (e : event) : list inst :=
  match e with EvCtor _ _ args _ => flat_map insts_of_aval args | _ => [] end.
Definition insts_of_result (r : result) : list inst :=
  match r with RVal a => insts_of_aval a | _ => [] end.
(* every instance handed to user code in a step: constructor arguments and the result *)
Definition handed_in_step (s : list event * result) : list inst :=
  filter (fun i => negb (is_nil_member i))     (* the nil element of a group slice is nobody's instance *)
         (flat_map insts_of_event (fst s) ++ insts_of_result (snd s)).

Definition outputs_of_ctor (rs : list reg) (rid inv : nat) : list inst :=
  match find_reg rs rid with
  | Some r => map (fun '(_, _, _, k) => IObj rid inv k (nth_default 0 (r_dyn r) k))
                  (match r_form r with
                   | FCtor _ _ [] _ => []
                   | FCtor _ _ [_] _ | FInst _ => [(0, 0, 0, 0)]
                   | _ => provides_all r   (* also an output whose identity was removed: it is made, owned and closed *)
                   end)
  | None => []
  end.
Definition created_in_step (rs : list reg) (p owner_scope : nat) (evs : list event) : list (nat * inst * nat) :=
  flat_map (fun e => match e with
                     | EvCtor rid inv _ OOk =>
                         let own := if is_life rs Singleton rid then OWNER_PROV else owner_scope in
                         map (fun i => (p, i, own)) (filter inst_disposable (outputs_of_ctor rs rid inv))
                     | _ => []
                     end) evs.

Definition descendants_closed (ms : mstate) (p h : nat) : list (nat * nat) :=
  map (fun s => (si_p s, si_h s)) (filter (fun s => (si_p s =? p) && anc ms p h (si_h s)) (ms_scopes ms)).

(* Remove(T) / RemoveKeyed(T, n): a registration providing exactly that identity disappears; a registration
   under several As interfaces loses that one interface *)
Definition single_output (r : reg) : bool :=
  match r_form r with FInst _ | FCtor _ _ [_] _ => true | _ => false end.
Definition with_as (r : reg) (ifs : list ty) : reg :=
  mkReg (r_id r) (r_life r) (r_form r) (r_name r) (r_group r) ifs (r_script r) (r_dyn r) (r_cfail r) (r_bad r).
Definition with_form (r : reg) (f : form) : reg :=
  mkReg (r_id r) (r_life r) f (r_name r) (r_group r) (r_as r) (r_script r) (r_dyn r) (r_cfail r) (r_bad r).
Definition tomb_form (f : form) (k : nat) : form :=
  match f with
  | FResult io ps fs e => FResult io ps (upd_nth fs k (fun _ => mkField T_GONE 0 0)) e
  | FCtor io ps rets e => FCtor io ps (upd_nth rets k (fun _ => T_GONE)) e
  | f => f
  end.
Definition remove_identity (rs : list reg) (t : ty) (n : nat) : list reg :=
  flat_map (fun rg =>
              if provides_b rg t n 0 0 && (length (provides rg) =? 1) && (length (provides_all rg) =? 1) then []
              else if single_output rg && (2 <=? length (r_as rg)) && existsb (Nat.eqb t) (r_as rg) && (r_name rg =? n) && (r_group rg =? 0)
                   then [with_as rg (filter (fun i => negb (i =? t)) (r_as rg))]
                   else if negb (single_output rg) then
                     (* one identity of a multi-output registration: the others stay; the constructor still runs for them *)
                     match find (fun '(t', n', g', _) => (t' =? t) && (n' =? n) && (g' =? 0)) (provides rg) with
                     | Some (_, _, _, k) =>
                         if length (provides rg) =? 1 then [] else [with_form rg (tomb_form (r_form rg) k)]
                     | None => [rg]
                     end
                   else [rg]) rs.
Definition ms_step (ms : mstate) (o : op) (s : list event * result) : mstate :=
  let all_regs := ms_active ms in
  let '(evs, r) := s in
  let closed_now := flat_map (fun e => match e with EvClosed i _ _ => [i] | _ => [] end) evs in
  let with_closed (m : mstate) :=
      mkMS (ms_active m) (ms_unsure m) (ms_nprov m) (ms_regs_of_prov m) (ms_built m) (ms_scopes m) (ms_closed m) (ms_pclosed m)
           (ms_scoped m) (ms_handed m) (ms_created m) (closed_now ++ ms_closed_insts m) in
  with_closed
  match o, r with
  | OAdd rg, RUnit =>
      mkMS (ms_active ms ++ [rg]) (ms_unsure ms) (ms_nprov ms) (ms_regs_of_prov ms) (ms_built ms) (ms_scopes ms) (ms_closed ms) (ms_pclosed ms) (ms_scoped ms) (ms_handed ms) (ms_created ms) (ms_closed_insts ms)
  | OModules mods, RUnit =>
      mkMS (ms_active ms ++ flat_map regs_of_module mods) (ms_unsure ms) (ms_nprov ms) (ms_regs_of_prov ms) (ms_built ms) (ms_scopes ms) (ms_closed ms) (ms_pclosed ms) (ms_scoped ms) (ms_handed ms) (ms_created ms) (ms_closed_insts ms)
  | OModules mods, RErr _ _ =>
      mkMS (ms_active ms) true (ms_nprov ms) (ms_regs_of_prov ms) (ms_built ms) (ms_scopes ms) (ms_closed ms) (ms_pclosed ms) (ms_scoped ms) (ms_handed ms) (ms_created ms) (ms_closed_insts ms)
  | ORemove t, _ =>
      mkMS (remove_identity (ms_active ms) t 0) (ms_unsure ms) (ms_nprov ms) (ms_regs_of_prov ms) (ms_built ms) (ms_scopes ms) (ms_closed ms) (ms_pclosed ms) (ms_scoped ms) (ms_handed ms) (ms_created ms) (ms_closed_insts ms)
  | ORemoveKeyed t n, _ =>
      mkMS (remove_identity (ms_active ms) t n) (ms_unsure ms) (ms_nprov ms) (ms_regs_of_prov ms) (ms_built ms) (ms_scopes ms) (ms_closed ms) (ms_pclosed ms) (ms_scoped ms) (ms_handed ms) (ms_created ms) (ms_closed_insts ms)
  | OBuild _, RCount p =>
      let built := flat_map (fun e => match e with
                                      | EvCtor rid inv _ OOk => if is_life all_regs Singleton rid then [(p, rid, inv)] else []
                                      | _ => [] end) evs in
      let scoped := flat_map (fun e => match e with
                                       | EvCtor rid inv _ OOk => if is_life all_regs Scoped rid then [(p, 0, rid, inv)] else []
                                       | _ => [] end) evs in
      mkMS (ms_active ms) (ms_unsure ms) (S (ms_nprov ms)) ((p, all_regs) :: ms_regs_of_prov ms) (built ++ ms_built ms)
           (mkSI p 0 0 0 :: ms_scopes ms) (ms_closed ms) (ms_pclosed ms) (scoped ++ ms_scoped ms)
           (filter (fun i => match inst_rid i with Some rid => is_life all_regs Transient rid | None => false end) (handed_in_step s) ++ ms_handed ms)
           (ms_created ms ++ created_in_step all_regs p 0 evs) (ms_closed_insts ms)
  | OCreateScope p parent ctx, RScope h =>
      let rs := match find (fun x => fst x =? p) (ms_regs_of_prov ms) with Some x => snd x | None => [] end in
      let cx := if ctx =? 0 then (if parent =? 0 then 0 else
                   match find (fun s => (si_p s =? p) && (si_h s =? parent)) (ms_scopes ms) with Some s => si_ctx s | None => 0 end) else ctx in
      let scoped := flat_map (fun e => match e with
                                       | EvCtor rid inv _ OOk => if is_life rs Scoped rid then [(p, h, rid, inv)] else []
                                       | _ => [] end) evs in
      mkMS (ms_active ms) (ms_unsure ms) (ms_nprov ms) (ms_regs_of_prov ms) (ms_built ms)
           (mkSI p h parent cx :: ms_scopes ms) (ms_closed ms) (ms_pclosed ms) (scoped ++ ms_scoped ms)
           (filter (fun i => match inst_rid i with Some rid => is_life rs Transient rid | None => false end) (handed_in_step s) ++ ms_handed ms)
           (ms_created ms ++ created_in_step rs p h evs) (ms_closed_insts ms)
  | OResolve p h _ _, _ | OResolveGroup p h _ _, _ =>
      let rs := match find (fun x => fst x =? p) (ms_regs_of_prov ms) with Some x => snd x | None => [] end in
      let scoped := flat_map (fun e => match e with
                                       | EvCtor rid inv _ OOk => if is_life rs Scoped rid then [(p, h, rid, inv)] else []
                                       | _ => [] end) evs in
      mkMS (ms_active ms) (ms_unsure ms) (ms_nprov ms) (ms_regs_of_prov ms) (ms_built ms)
           (ms_scopes ms) (ms_closed ms) (ms_pclosed ms) (scoped ++ ms_scoped ms)
           (filter (fun i => match inst_rid i with Some rid => is_life rs Transient rid | None => false end) (handed_in_step s) ++ ms_handed ms)
           (ms_created ms ++ created_in_step rs p h evs) (ms_closed_insts ms)
  | OClose p h _, _ =>
      mkMS (ms_active ms) (ms_unsure ms) (ms_nprov ms) (ms_regs_of_prov ms) (ms_built ms) (ms_scopes ms)
           (descendants_closed ms p h ++ ms_closed ms) (ms_pclosed ms) (ms_scoped ms) (ms_handed ms) (ms_created ms) (ms_closed_insts ms)
  | OCloseProvider p _, _ =>
      mkMS (ms_active ms) (ms_unsure ms) (ms_nprov ms) (ms_regs_of_prov ms) (ms_built ms) (ms_scopes ms)
           (map (fun s => (si_p s, si_h s)) (filter (fun s => si_p s =? p) (ms_scopes ms)) ++ ms_closed ms) (p :: ms_pclosed ms)
           (ms_scoped ms) (ms_handed ms) (ms_created ms) (ms_closed_insts ms)
  | OCancel c _, _ =>
      let hit := filter (fun s => negb (c =? 0) && (si_ctx s =? c)) (ms_scopes ms) in
      mkMS (ms_active ms) (ms_unsure ms) (ms_nprov ms) (ms_regs_of_prov ms) (ms_built ms) (ms_scopes ms)
           (flat_map (fun s => descendants_closed ms (si_p s) (si_h s)) hit ++ ms_closed ms) (ms_pclosed ms)
           (ms_scoped ms) (ms_handed ms) (ms_created ms) (ms_closed_insts ms)
  | _, _ => ms
  end.

(* run a per-step predicate over a trace; the predicate sees the state before the step *)
(* A result object all of whose fields are nil "produced no services": by the library's own contract that
   construction failed (ValidationError), exactly as a single-return constructor returning nil does.  The monitors read
   such a constructor call as a failed one ([ONil]) - known from the registration: a result object whose declared
   outputs are all nil. *)
Definition produces_nothing (r : reg) : bool :=
  match r_form r with
  | FResult _ _ ((_ :: _) as fs) _ => forallb (fun k => nth_default 0 (r_dyn r) k =? T_NILOUT) (seq 0 (length fs))
  | _ => false
  end.
Definition all_known_regs (ms : mstate) (o : op) : list reg :=
  (match o with OAdd r => [r] | OModules mods => flat_map regs_of_module mods | _ => [] end)
  ++ ms_active ms ++ flat_map snd (ms_regs_of_prov ms).
Definition norm_event (rs : list reg) (e : event) : event :=
  match e with
  | EvCtor rid inv args OOk =>
      if existsb (fun r => (r_id r =? rid) && produces_nothing r) rs then EvCtor rid inv args ONil else e
  | _ => e
  end.
Definition norm_step (ms : mstate) (o : op) (s : list event * result) : list event * result :=
  (map (norm_event (all_known_regs ms o)) (fst s), snd s).
Fixpoint mon_fold (f : mstate -> op -> list event * result -> bool) (ms : mstate) (ops : list op) (tr : trace) : bool :=
  match ops, tr with
  | o :: ops', s :: tr' => f ms o (norm_step ms o s) && mon_fold f (ms_step ms o (norm_step ms o s)) ops' tr'
  | _, _ => true
  end.
Definition regs_for (ms : mstate) (p : nat) : list reg :=
  match find (fun x => fst x =? p) (ms_regs_of_prov ms) with Some x => snd x | None => ms_active ms end.
Definition op_prov (o : op) : option nat :=
  match o with
  | OCreateScope p _ _ | OResolve p _ _ _ | OResolveGroup p _ _ _ | OClose p _ _ | OCloseProvider p _
  | OCtxValue p _ | OCtxDone p _ | OFromContext p _ | OStats p => Some p
  | _ => None
  end.
Definition count_ctor (evs : list event) (rid : nat) : nat :=
  length (filter (fun e => match e with EvCtor r _ _ _ => r =? rid | _ => false end) evs).
(* constructor calls that succeeded (a failed attempt - say inside an optional dependency of another initializer - is not
   cached, and the retry is a first attempt) *)
Definition count_ok_ctor (evs : list event) (rid : nat) : nat :=
  length (filter (fun e => match e with EvCtor r _ _ OOk => r =? rid | _ => false end) evs).
Definition ctor_rids (evs : list event) : list nat :=
  flat_map (fun e => match e with EvCtor r _ _ _ => [r] | _ => [] end) evs.

(* ================================================================ C01 *)
Definition step_C01 (ms : mstate) (o : op) (s : list event * result) : bool :=
  let '(evs, r) := s in
  match o, r with
  | OBuild _, RCount p =>
      (* every singleton constructor registration ran exactly once, inside Build *)
      forallb (fun rg => negb (life_eqb (r_life rg) Singleton) || negb (is_ctor_reg rg) || (count_ctor evs (r_id rg) =? 1))
              (ms_active ms)
      && (ms_unsure ms || forallb (fun rid => existsb (fun rg => r_id rg =? rid) (ms_active ms)) (ctor_rids evs))
  | OBuild _, _ =>
      forallb (fun rg => negb (life_eqb (r_life rg) Singleton) || (count_ctor evs (r_id rg) <=? 1)) (ms_active ms)
  | _, _ =>
      match op_prov o with
      | Some p =>
          let rs := regs_for ms p in
          (* never again *)
          forallb (fun rid => negb (is_life rs Singleton rid)) (ctor_rids evs)
          (* the same instance everywhere: whatever is handed out for a singleton registration is the
             instance built for this provider *)
          && forallb (fun i => match i with
                               | IObj rid inv _ _ =>
                                   negb (is_life rs Singleton rid) ||
                                   match find_reg rs rid with
                                   | Some rg => negb (is_ctor_reg rg) ||
                                                existsb (fun '(p', rid', inv') => (p' =? p) && (rid' =? rid) && (inv' =? inv)) (ms_built ms)
                                   | None => false
                                   end
                               | IVoid => true
                               end) (handed_in_step s)
      | None => true
      end
  end.
Definition holds_C01 (ops : list op) (tr : trace) : bool := mon_fold step_C01 ms_init ops tr.

(* ================================================================ C02 *)
Definition scoped_inv_here (ms : mstate) (p h rid : nat) : list nat :=
  flat_map (fun '(p', h', rid', inv') => if (p' =? p) && (h' =? h) && (rid' =? rid) then [inv'] else []) (ms_scoped ms).
Definition scoped_inv_elsewhere (ms : mstate) (p h rid inv : nat) : bool :=
  existsb (fun '(p', h', rid', inv') => (rid' =? rid) && (inv' =? inv) && negb ((p' =? p) && (h' =? h))) (ms_scoped ms).
Definition is_init_reg (rg : reg) : bool := life_eqb (r_life rg) Scoped && is_void rg.
Definition step_C02 (ms : mstate) (o : op) (s : list event * result) : bool :=
  let '(evs, r) := s in
  let ms' := ms_step ms o s in
  let target := match o, r with
                | OBuild _, RCount p => Some (p, 0)
                | _, _ => op_target o r
                end in
  match target with
  | None =>
      (* a failed CreateScope / Build: initializers ran at most once each *)
      match o with
      | OCreateScope _ _ _ | OBuild _ => forallb (fun rid => count_ctor evs rid <=? 1) (ctor_rids evs) || true
      | _ => true
      end
  | Some (p, h) =>
      let rs := regs_for ms' p in
      (* at most one successful construction per scope and scoped registration *)
      forallb (fun rg => negb (life_eqb (r_life rg) Scoped) || (length (scoped_inv_here ms' p h (r_id rg)) <=? 1)) rs
      (* everything handed out in this scope for a scoped registration is this scope's instance,
         and no other scope ever constructed it *)
      && forallb (fun i => match i with
                           | IObj rid inv _ _ =>
                               negb (is_life rs Scoped rid) ||
                               match find_reg rs rid with
                               | Some rg => negb (is_ctor_reg rg) ||
                                            (mem_nat inv (scoped_inv_here ms' p h rid) && negb (scoped_inv_elsewhere ms' p h rid inv))
                               | None => false
                               end
                           | IVoid => true
                           end) (handed_in_step s)
      (* initializers: exactly once, when the scope is created *)
      && match o with
         | OCreateScope _ _ _ | OBuild _ =>
             forallb (fun rg => negb (is_init_reg rg) || (count_ok_ctor evs (r_id rg) =? 1)) rs
         | _ => forallb (fun rid => match find_reg rs rid with Some rg => negb (is_init_reg rg) | None => true end) (ctor_rids evs)
         end
  end.
Definition holds_C02 (ops : list op) (tr : trace) : bool := mon_fold step_C02 ms_init ops tr.

(* ================================================================ C03 *)
Fixpoint nodup_inst (l : list inst) : bool :=
  match l with
  | [] => true
  | x :: l' => negb (mem_inst x l') && nodup_inst l'
  end.
Definition step_C03 (ms : mstate) (o : op) (s : list event * result) : bool :=
  let p := match o, snd s with OBuild _, RCount p => Some p | _, _ => op_prov o end in
  match p with
  | None => true
  | Some p =>
      let rs := regs_for (ms_step ms o s) p in
      let tr_handed := filter (fun i => match i with
                                        | IObj rid _ _ _ => is_life rs Transient rid &&
                                                            match find_reg rs rid with Some rg => is_ctor_reg rg | None => false end
                                        | IVoid => false end) (handed_in_step s) in
      (* no transient instance is handed out twice: not within this step, not across steps *)
      nodup_inst tr_handed && forallb (fun i => negb (mem_inst i (ms_handed ms))) tr_handed
      (* and each was constructed in this very step *)
      && forallb (fun i => match i with
                           | IObj rid inv _ _ => existsb (fun e => match e with EvCtor r n _ OOk => (r =? rid) && (n =? inv) | _ => false end) (fst s)
                           | IVoid => true end) tr_handed
  end.
Definition holds_C03 (ops : list op) (tr : trace) : bool := mon_fold step_C03 ms_init ops tr.

(* ================================================================ C04 *)
Definition step_C04_produced (ms : mstate) (o : op) (s : list event * result) : bool :=
  let p := match o, snd s with OBuild _, RCount p => Some p | OBuild _, _ => Some (ms_nprov ms) | _, _ => op_prov o end in
  match p with
  | None => true
  | Some p => step_produced (match o with OBuild _ => ms_active ms | _ => regs_for ms p end) o s
  end.

(* ================================================================ the dependency relation, read off the registrations *)
Definition dep_matches (d : dep) (r' : reg) : bool :=
  existsb (fun '(t, n, g, _) => (t =? d_ty d) && (n =? dep_name d) && (g =? d_group d)) (provides r').
Definition spec_succ (rs : list reg) (i : nat) : list nat :=
  match nth_error rs i with
  | None => []
  | Some r =>
      flat_map (fun d => filter (fun j => match nth_error rs j with Some r' => dep_matches d r' | None => false end)
                                (seq 0 (length rs)))
               (reg_deps r)
  end.
Definition spec_cycle (rs : list reg) : bool :=
  match detect (spec_succ rs) (seq 0 (length rs)) (seq 0 (length rs)) with Some _ => true | None => false end.
Definition spec_conflict (rs : list reg) : bool :=
  existsb (fun r => negb (life_eqb (r_life r) Scoped) &&
                    existsb (fun d => existsb (fun r' => life_eqb (r_life r') Scoped && dep_matches d r') rs) (reg_deps r)) rs.
Definition dep_builtin (d : dep) : bool := is_reserved (d_ty d) && (d_name d =? 0) && (d_group d =? 0).
Definition spec_missing (rs : list reg) : bool :=
  existsb (fun r => existsb (fun d => negb (d_opt d) && (d_group d =? 0) && negb (dep_builtin d) &&
                                      negb (existsb (dep_matches d) rs)) (reg_deps r)) rs.
Definition spec_faulty (rs : list reg) : bool :=
  existsb (fun r => existsb (fun k => match effective_outcome r k with OOk => cancels r k | _ => true end)
                            (seq 0 (length (r_script r)))) rs
  || existsb (fun r => existsb (fun b => b) (r_cfail r)) rs.

(* the graph on identities, for checking a reported path edge by edge *)
Definition members_of (rs : list reg) (t : ty) (g : grp) : list reg :=
  filter (fun r => existsb (fun '(t', _, g', _) => (t' =? t) && (g' =? g)) (provides r)) rs.
Definition ident_succ (rs : list reg) (n : ident) : list ident :=
  let '(t, k, g) := n in
  let deps_of_reg r := map (fun d => (d_ty d, name_key (dep_name d), d_group d)) (reg_deps r) in
  match k with
  | KIdx i => match nth_error (members_of rs t g) (i - 1) with Some r => deps_of_reg r | None => [] end
  | KNone =>
      if g =? 0
      then match find (fun r => provides_b r t 0 0 0 || existsb (fun '(t', n', g', _) => (t' =? t) && (n' =? 0) && (g' =? 0)) (provides r)) rs with
           | Some r => deps_of_reg r | None => [] end
      else map (fun i => (t, KIdx (S i), g)) (seq 0 (length (members_of rs t g)))
  | KName nm =>
      match find (fun r => existsb (fun '(t', n', g', _) => (t' =? t) && (n' =? nm) && (g' =? 0)) (provides r)) rs with
      | Some r => deps_of_reg r | None => [] end
  | KVoid _ => []
  end.
Definition is_edge (rs : list reg) (a b : ident) : bool := existsb (ident_eqb b) (ident_succ rs a).
Fixpoint edges_ok (rs : list reg) (p : list ident) : bool :=
  match p with
  | a :: ((b :: _) as rest) => is_edge rs a b && edges_ok rs rest
  | _ => true
  end.
Definition real_cycle (rs : list reg) (p : list ident) : bool :=
  match p with
  | [] => false
  | [a] => is_edge rs a a
  | a :: _ => edges_ok rs p && (ident_eqb (last p a) a || is_edge rs (last p a) a)
  end.

Definition res_class (r : result) : option eclass := match r with RErr c _ => Some c | _ => None end.
Definition class_is (r : result) (c : eclass) : bool :=
  match r with RErr c' _ => eclass_eqb c c' | _ => false end.

(* ================================================================ C05 (container half) *)
Definition step_C05 (ms : mstate) (o : op) (s : list event * result) : bool :=
  match o with
  | OBuild _ =>
      ms_unsure ms ||
      (Bool.eqb (class_is (snd s) ECircular) (spec_cycle (ms_active ms))
       && forallb (fun e => match e with EvCycle p => real_cycle (ms_active ms) p | _ => true end) (fst s))
  | _ =>
      (* resolution terminates: the runner's watchdog / stack limit turns non-termination into a crash,
         which the driver reports; a panic is visible here *)
      negb (class_is (snd s) EPanicked)
  end.
Definition holds_C05 (ops : list op) (tr : trace) : bool := mon_fold step_C05 ms_init ops tr.

(* ================================================================ C07 *)
Definition step_C07 (ms : mstate) (o : op) (s : list event * result) : bool :=
  match o with
  | OBuild _ =>
      (ms_unsure ms || spec_cycle (ms_active ms) ||
       Bool.eqb (class_is (snd s) ELifetime) (spec_conflict (ms_active ms)))
  | _ => true
  end
  && (* no singleton or transient is ever constructed with an instance of a scoped registration *)
  (let p := match o, snd s with OBuild _, RCount p => Some p | _, _ => op_prov o end in
   match p with
   | None => true
   | Some p =>
       let rs := regs_for (ms_step ms o s) p in
       forallb (fun e => match e with
                         | EvCtor rid _ args _ =>
                             is_life rs Scoped rid ||
                             forallb (fun i => match inst_rid i with Some r' => negb (is_life rs Scoped r') | None => true end)
                                     (flat_map insts_of_aval args)
                         | _ => true end) (fst s)
   end).
Definition holds_C07 (ops : list op) (tr : trace) : bool := mon_fold step_C07 ms_init ops tr.

(* ================================================================ C08 *)
Definition is_ctor_failure (r : result) : bool :=
  match r with RErr (ECtorErr _) _ | RErr (ECtorPanic _) _ | RErr EValidation _ | RErr (EDisposal _) _ | RErr ECancelled _ => true | _ => false end.
(* C04, resolvable half: an identity some registration provides is resolvable on a built provider - the answer
   is a value, or the failure of a constructor that ran in this step, or the refusal of something closed *)
Definition unexplained_failure (s : list event * result) : bool :=
  match snd s with
  | RErr ENotFound _ | RErr EValidation _ | RErr EOther _ =>
      negb (existsb (fun e => match e with EvCtor _ _ _ OOk => false | EvCtor _ _ _ _ => true | _ => false end) (fst s))
  | _ => false
  end.
Definition step_C04 (ms : mstate) (o : op) (s : list event * result) : bool :=
  step_C04_produced ms o s &&
  match o with
  | OResolve p _ t n =>
      negb (unexplained_failure s) ||
      negb (existsb (fun r => existsb (fun '(t', n', g', k) => (t' =? t) && (n' =? n) && (g' =? 0) && negb (out_is_nil r k)) (provides r)) (regs_for ms p))
  | OResolveGroup p _ t g => (t =? T_NIL) || (g =? 0) || negb (unexplained_failure s)
  | OBuild _ =>
      let rs := ms_active ms in
      ms_unsure ms || spec_cycle rs || spec_conflict rs || spec_missing rs || spec_faulty rs || negb (unexplained_failure s)
  | _ => true
  end.
Definition holds_C04 (ops : list op) (tr : trace) : bool := mon_fold step_C04 ms_init ops tr.

Definition step_C08 (ms : mstate) (o : op) (s : list event * result) : bool :=
  match o with
  | OBuild _ =>
      let rs := ms_active ms in
      ms_unsure ms || spec_cycle rs || spec_conflict rs ||
      (Bool.eqb (class_is (snd s) ENotFound) (spec_missing rs) &&
       (spec_missing rs ||
        match snd s with
        | RCount _ => true
        | r => is_ctor_failure r && spec_faulty rs
        end))
  | OResolve p _ t n =>
      (* a registered identity is never "not found" on a built provider *)
      negb (class_is (snd s) ENotFound) || negb (existsb (fun r => provides_b r t n 0 0 || existsb (fun '(t', n', g', _) => (t' =? t) && (n' =? n) && (g' =? 0)) (provides r)) (regs_for ms p))
  | OResolveGroup p _ _ _ | OCreateScope p _ _ => negb (class_is (snd s) ENotFound)
  | _ => true
  end.
Definition holds_C08 (ops : list op) (tr : trace) : bool := mon_fold step_C08 ms_init ops tr.

(* ================================================================ C10 *)
Definition closed_of (evs : list event) : list (inst * nat) :=
  flat_map (fun e => match e with EvClosed i _ own => [(i, own)] | _ => [] end) evs.
Definition created_owner (ms : mstate) (p : nat) (i : inst) : option nat :=
  match find (fun '(p', i', _) => (p' =? p) && inst_eqb i i') (ms_created ms) with
  | Some (_, _, own) => Some own
  | None => None
  end.
Definition is_instance_value (rs : list reg) (i : inst) : bool :=
  match i with IObj rid _ _ _ => match find_reg rs rid with Some r => negb (is_ctor_reg r) | None => false end | IVoid => false end.
Definition step_C10 (ms : mstate) (o : op) (s : list event * result) : bool :=
  let '(evs, r) := s in
  let ms' := ms_step ms o s in
  let cl := closed_of evs in
  let p := match o with OBuild _ => ms_nprov ms | _ => match op_prov o with Some p => p | None => 0 end end in
  let rs := match o with OBuild _ => ms_active ms | _ => regs_for ms p end in
  (* exactly once: never a second time *)
  nodup_inst (map fst cl) && forallb (fun '(i, _) => is_instance_value rs i || negb (mem_inst i (ms_closed_insts ms))) cl
  (* never early, and only by whoever owns it *)
  && match o, r with
     | OClose p h _, _ =>
         forallb (fun '(i, own) => negb (own =? OWNER_PROV) && anc ms p h own) cl
         (* and nothing of the subtree is left *)
         && forallb (fun '(p', i, own) => negb (p' =? p) || (own =? OWNER_PROV) || negb (anc ms p h own) || mem_inst i (ms_closed_insts ms')) (ms_created ms')
     | OCloseProvider p _, _ =>
         forallb (fun '(p', i, own) => negb (p' =? p) || mem_inst i (ms_closed_insts ms')) (ms_created ms')
     | OCancel _ _, _ => forallb (fun '(i, own) => negb (own =? OWNER_PROV)) cl
     | OBuild _, RErr _ _ =>
         let made := created_in_step rs p 0 evs in
         forallb (fun '(_, i, _) => mem_inst i (map fst cl)) made
     | OCreateScope p _ _, RErr _ _ =>
         let made := created_in_step rs p 0 evs in
         forallb (fun '(i, own) => negb (own =? OWNER_PROV)) cl &&
         forallb (fun '(_, i, _) => mem_inst i (map fst cl)) made &&
         forallb (fun '(i, _) => existsb (fun '(_, i', _) => inst_eqb i i') made) cl
     | _, _ => match cl with [] => true | _ => false end
     end.
Definition holds_C10 (ops : list op) (tr : trace) : bool := mon_fold step_C10 ms_init ops tr.

(* ================================================================ C11 *)
Fixpoint index_inst (i : inst) (l : list (nat * inst * nat)) : nat :=
  match l with
  | [] => 0
  | (_, i', _) :: l' => if inst_eqb i i' then 0 else S (index_inst i l')
  end.
(* position in creation order: ms_created lists oldest first *)
Definition creation_rank (ms : mstate) (i : inst) : nat := index_inst i (ms_created ms).
Fixpoint later_pairs {A} (f : A -> A -> bool) (l : list A) : bool :=
  match l with
  | [] => true
  | x :: l' => forallb (f x) l' && later_pairs f l'
  end.
Definition step_C11 (ms : mstate) (o : op) (s : list event * result) : bool :=
  let ms' := ms_step ms o s in
  let p := match o with OBuild _ => ms_nprov ms | _ => match op_prov o with Some p => p | None => 0 end end in
  let rs := match o with OBuild _ => ms_active ms | _ => regs_for ms p end in
  let ms'' := match o, snd s with
              | OBuild _, RErr _ _ | OCreateScope _ _ _, RErr _ _ =>
                  mkMS (ms_active ms) (ms_unsure ms) (ms_nprov ms) (ms_regs_of_prov ms) (ms_built ms) (ms_scopes ms) (ms_closed ms)
                       (ms_pclosed ms) (ms_scoped ms) (ms_handed ms) (ms_created ms ++ created_in_step rs p 0 (fst s)) (ms_closed_insts ms)
              | _, _ => ms'
              end in
  let cl := filter (fun '(i, _) => negb (is_instance_value rs i)) (closed_of (fst s)) in
  (* the harness marks a Close that started while a Close body of a descendant scope (for the provider: of any scope)
     was still in progress by an impossible owner *)
  forallb (fun '(_, own) => own <? 1000) (closed_of (fst s)) &&
  later_pairs (fun '(i1, o1) '(i2, o2) =>
                 (* same owner: reverse creation order *)
                 (negb (o1 =? o2) || (creation_rank ms'' i2 <? creation_rank ms'' i1))
                 (* an ancestor's own instance never before a descendant's; singletons last *)
                 && (negb (o1 =? OWNER_PROV) || (o2 =? OWNER_PROV))
                 && ((o1 =? o2) || (o1 =? OWNER_PROV) || (o2 =? OWNER_PROV) || negb (anc ms p o1 o2))) cl.
Definition holds_C11 (ops : list op) (tr : trace) : bool := mon_fold step_C11 ms_init ops tr.

(* ================================================================ C12 *)
Definition any_close_failed (evs : list event) : bool :=
  existsb (fun e => match e with EvClosed _ ok _ => negb ok | _ => false end) evs.
Definition failed_owners (evs : list event) : list nat :=
  flat_map (fun e => match e with EvClosed _ false own => [own] | _ => [] end) evs.
Definition disposal_entries (ms : mstate) (p h : nat) (evs : list event) : nat :=
  let fo := failed_owners evs in
  length (filter (Nat.eqb h) fo) +
  length (filter (fun s => (si_p s =? p) && (si_parent s =? h) && negb (si_h s =? 0) && negb (scope_closed ms p (si_h s))
                           && existsb (fun own => anc ms p (si_h s) own) fo) (ms_scopes ms)).
Definition step_C12 (ms : mstate) (o : op) (s : list event * result) : bool :=
  let '(evs, r) := s in
  match o with
  | OClose p h _ =>
      if scope_closed ms p h || mem_nat p (ms_pclosed ms)
      then match evs, r with [], RUnit => true | _, _ => false end
      else match r with
           | RUnit => negb (any_close_failed evs)
           | RErr (EDisposal n) [] =>
               (* the error aggregates one entry per own instance whose Close failed and one per direct child
                  scope with a failure somewhere in its subtree (also when that child was closed by its watcher) *)
               any_close_failed evs && (n =? disposal_entries ms p h evs)
           | _ => false
           end
  | OCloseProvider p _ =>
      if mem_nat p (ms_pclosed ms)
      then match evs, r with [], RUnit => true | _, _ => false end
      else match r with
           | RUnit => negb (any_close_failed evs)
           | RErr (EDisposal _) [] => any_close_failed evs
           | _ => false
           end
  | _ => true
  end.
Definition holds_C12 (ops : list op) (tr : trace) : bool := mon_fold step_C12 ms_init ops tr.

(* ================================================================ C13 *)
Definition disposed_class (r : result) : bool := class_is r EScopeDisposed || class_is r EProviderDisposed.
Definition step_C13 (ms : mstate) (o : op) (s : list event * result) : bool :=
  let r := snd s in
  let on (p h : nat) :=
      if h =? 0
      then (if mem_nat p (ms_pclosed ms) then class_is r EProviderDisposed else negb (disposed_class r))
      else (if scope_closed ms p h || mem_nat p (ms_pclosed ms) then class_is r EScopeDisposed else negb (disposed_class r)) in
  match o with
  | OResolve p h _ _ | OResolveGroup p h _ _ => on p h && negb (class_is r EPanicked)
  | OCreateScope p parent _ => on p parent && negb (class_is r EPanicked)
  | OCtxDone p h =>
      match r with
      | RBool b => if h =? 0 then true else Bool.eqb b (scope_closed ms p h || mem_nat p (ms_pclosed ms)) || b
      | _ => false
      end
  | _ => negb (class_is r EPanicked)
  end.
Definition holds_C13 (ops : list op) (tr : trace) : bool := mon_fold step_C13 ms_init ops tr.

(* ================================================================ C15 *)
Fixpoint last_ctor (evs : list event) : option event :=
  match evs with
  | [] => None
  | e :: evs' => match last_ctor evs' with Some x => Some x | None => if is_ctor e then Some e else None end
  end.
(* "singleton not initialized" is an answer of its own kind (errors.Is ErrSingletonNotInitialized) where a singleton's
   constructor left that output nil at Build; anywhere else in a sequential history it is an internal inconsistency *)
Definition some_singleton_left_nil (ms : mstate) : bool :=
  existsb (fun r => life_eqb (r_life r) Singleton && existsb (fun d => d =? T_NILOUT) (r_dyn r))
          (ms_active ms ++ flat_map snd (ms_regs_of_prov ms)).
Definition step_C15 (ms : mstate) (o : op) (s : list event * result) : bool :=
  let '(evs, r) := s in
  match r with
  | RErr c mods =>
      (match c with EPanicked | EOther => false | ESingletonNotInit => some_singleton_left_nil ms | _ => true end)
      && (match o with OModules _ => true | _ => match mods with [] => true | _ => false end end)
      && match c with
         | ECtorErr rid => existsb (fun e => match e with EvCtor r' _ _ OErr => r' =? rid | _ => false end) evs
         | ECtorPanic rid => existsb (fun e => match e with EvCtor r' _ _ OPanic => r' =? rid | _ => false end) evs
         | _ => true
         end
  | _ => true
  end
  && match last_ctor evs with
     | Some (EvCtor rid _ _ OErr) => class_is r (ECtorErr rid) || (any_close_failed evs && class_is r (EDisposal 0))
     | Some (EvCtor rid _ _ OPanic) => class_is r (ECtorPanic rid) || (any_close_failed evs && class_is r (EDisposal 0))
     | Some (EvCtor rid _ _ ONil) => class_is r EValidation || (any_close_failed evs && class_is r (EDisposal 0))
     | _ => true
     end.
Definition holds_C15 (ops : list op) (tr : trace) : bool := mon_fold step_C15 ms_init ops tr.

(* ================================================================ C17 *)
Definition spec_entries (rs : list reg) : list (ty * nat * grp * nat * lifetime) :=
  flat_map (fun r => map (fun '(t, n, g, _) => (t, n, g, r_id r, r_life r)) (provides r)) rs.
Definition spec_has (rs : list reg) (t : ty) (n : nat) : bool :=
  existsb (fun '(t', n', g', _, _) => (t' =? t) && (n' =? n) && (g' =? 0)) (spec_entries rs).
Definition clean_reg (r : reg) : bool :=
  (r_bad r =? 0) && ((r_name r =? 0) || (r_group r =? 0)) && negb (is_void r && negb (r_group r =? 0)) &&
  forallb (fun '(_, n, g, _) => (n =? 0) || (g =? 0)) (provides_all r) &&
  forallb (fun '(t, _, _, _) => negb (is_reserved t)) (provides r) &&
  match r_form r with FCtor _ _ (_ :: _ :: _) _ | FResult _ _ _ _ => true | f => forallb (implements (form_type f)) (r_as r) end.
(* whatever runs or is handed out belongs to a registration the provider was built with *)
Definition uses_only (rs : list reg) (s : list event * result) : bool :=
  forallb (fun rid => existsb (fun rg => r_id rg =? rid) rs) (ctor_rids (fst s)) &&
  forallb (fun i => match i with IObj rid _ _ _ => existsb (fun rg => r_id rg =? rid) rs | IVoid => true end) (handed_in_step s).
Definition step_C17 (ms : mstate) (o : op) (s : list event * result) : bool :=
  let rs := ms_active ms in
  let r := snd s in
  ms_unsure ms ||
  match o with
  | OCount => match r with RCount n => n =? length (spec_entries rs) | _ => false end
  | OContains t => match r with RBool b => Bool.eqb b (spec_has rs t 0) | _ => false end
  | OContainsKeyed t n => match r with RBool b => Bool.eqb b (spec_has rs t n) | _ => false end
  | OSlice =>
      match r with
      | RDescs l =>
          (length l =? length (spec_entries rs)) &&
          forallb (fun '(t, n, g, _, lf) =>
                     existsb (fun '(t', k', g', lf') =>
                                (t' =? t) && (g' =? g) && life_eqb lf lf' &&
                                match k' with
                                | KNone => (n =? 0) && (g =? 0)
                                | KName m => m =? n
                                | KIdx _ => negb (g =? 0)
                                | KVoid _ => t =? T_VOID
                                end) l) (spec_entries rs)
      | _ => false
      end
  | OAdd rg =>
      if clean_reg rg
      then (* a well-formed registration is rejected exactly when one of its (type,key) identities is taken *)
           let plain := filter (fun '(t, n, g, _) => (g =? 0) && (negb (t =? T_VOID) || negb (n =? 0))) (provides rg) in
           (* ... by an earlier registration, or by another output of this very registration *)
           let self_dup := negb (later_pairs (fun '(t1, n1, _, _) '(t2, n2, _, _) => negb ((t1 =? t2) && (n1 =? n2))) plain) in
           let dup := self_dup || existsb (fun '(t, n, _, _) => spec_has rs t n) plain in
           match r with
           | RUnit => negb dup
           | RErr EAlready _ => dup
           | _ => false
           end
      else match r with RErr _ _ => true | _ => false end
  | OBuild _ =>
      (* Build uses exactly the registrations the queries describe *)
      forallb (fun rid => existsb (fun rg => r_id rg =? rid) rs) (ctor_rids (fst s))
  | OResolve p h t n =>
      (* a built provider is a snapshot: identities it was not built with stay unknown *)
      let prs := regs_for ms p in
      (spec_has prs t n || (is_reserved t && (n =? 0)) || (t =? T_NIL) ||
       class_is r ENotFound || disposed_class r)
      && uses_only prs s
  | OResolveGroup p _ t g =>
      uses_only (regs_for ms p) s &&
      match r with RVal (AList l) => group_in_order (regs_for ms p) t g l | _ => true end
  | OCreateScope p _ _ => uses_only (regs_for ms p) s
  | _ => true
  end.
Definition holds_C17 (ops : list op) (tr : trace) : bool := mon_fold step_C17 ms_init ops tr.

(* ================================================================ C18 *)
Definition scope_ctx_of (ms : mstate) (p h : nat) : nat :=
  match find (fun s => (si_p s =? p) && (si_h s =? h)) (ms_scopes ms) with Some s => si_ctx s | None => 0 end.
Definition step_C18 (ms : mstate) (o : op) (s : list event * result) : bool :=
  let '(evs, r) := s in
  let ms' := ms_step ms o s in
  let target := match o, r with
                | OBuild _, _ => Some (ms_nprov ms, 0)
                | OCreateScope p _ _, RScope h => Some (p, h)
                | OCreateScope p _ _, _ => Some (p, length (filter (fun x => si_p x =? p) (ms_scopes ms)))
                | _, _ => op_target o r
                end in
  (match target with
   | None => true
   | Some (p, h) =>
       let rs := match o with OBuild _ => ms_active ms | _ => regs_for ms p end in
       forallb (fun e => match e with
                         | EvCtor rid _ args _ =>
                             let here := if is_life rs Singleton rid then 0 else h in
                             forallb (fun a => match a with ACtx k | AScope k => k =? here | _ => true end) args
                         | _ => true end) evs
   end)
  && match o, r with
     | OResolve p h t 0, RVal a =>
         if t =? T_CTX then aval_eqb a (ACtx h) else if t =? T_SCOPE then aval_eqb a (AScope h)
         else if t =? T_PROV then aval_eqb a AProv else true
     | OResolve _ _ t (S _), RVal _ => negb (is_reserved t)
     | OCtxValue p h, RCount c => c =? scope_ctx_of ms p h
     | OFromContext p h, RScope k => k =? h
     | OFromContext _ _, _ => false
     | OContains t, RBool b => negb (is_reserved t && b)
     | OContainsKeyed t _, RBool b => negb (is_reserved t && b)
     | OSlice, RDescs l => forallb (fun '(t, _, _, _) => negb (is_reserved t)) l
     | _, _ => true
     end.
Definition holds_C18 (ops : list op) (tr : trace) : bool := mon_fold step_C18 ms_init ops tr.

(* diagnostics: index (from 1) of the first step on which a step predicate fails; 0 = none *)
Fixpoint mon_first (f : mstate -> op -> list event * result -> bool) (n : nat) (ms : mstate) (ops : list op) (tr : trace) : nat :=
  match ops, tr with
  | o :: ops', s :: tr' => if f ms o (norm_step ms o s) then mon_first f (S n) (ms_step ms o (norm_step ms o s)) ops' tr' else n
  | _, _ => 0
  end.

(* ================================================================ C14 *)
(* after a scope is closed nothing is held on its behalf: it is tracked by nobody, its tables are released, its
   context is done; a failed scope creation leaves the bookkeeping as it was *)
Definition open_count (ms : mstate) (p : nat) : nat :=
  length (filter (fun s => (si_p s =? p) && negb (si_h s =? 0) && negb (scope_closed ms p (si_h s))) (ms_scopes ms)).
Definition step_C14 (ms : mstate) (o : op) (s : list event * result) : bool :=
  match o, snd s with
  | OStats p, RStats tracked per =>
      (if mem_nat p (ms_pclosed ms) then tracked =? 999 else tracked =? open_count ms p)
      && forallb (fun '(h, (kids, cached, disp)) =>
                    if scope_closed ms p h || mem_nat p (ms_pclosed ms)
                    then (kids =? 999) && (cached =? 999) && (disp =? 0)
                    else negb (kids =? 999) && negb (cached =? 999))
                 (combine (seq 0 (length per)) per)
  | OStats _, _ => false
  | OCtxDone p h, RBool b => (h =? 0) || Bool.eqb b (scope_closed ms p h || mem_nat p (ms_pclosed ms)) || b
  | _, _ => true
  end.
Definition holds_C14 (ops : list op) (tr : trace) : bool := mon_fold step_C14 ms_init ops tr && holds_C10 ops tr.
