(* Model.v — executable model of the godi container: registry, Build, scopes,
   resolution, disposal.  Definitions only (proofs live in other files so that the
   model still evaluates when a proof breaks).  Every function is total; recursion
   over the dependency structure is on explicit fuel and [RFuel] is a distinguished
   outcome. *)
From Godi Require Import Base GDfs.

(* ------------------------------------------------------------------ descriptors *)
Record desc := mkDesc { ds_ty : ty; ds_key : key; ds_grp : grp; ds_reg : reg; ds_out : nat;
                        ds_call : nat (* number of the registration call that created it *) }.
Definition ds_ident (d : desc) : ident := (ds_ty d, ds_key d, ds_grp d).
Definition ds_life (d : desc) : lifetime := r_life (ds_reg d).
Definition ds_rid (d : desc) : nat := r_id (ds_reg d).
(* group members are the descriptors that received a numeric key; everything else lives in the
   (type,key) table *)
Definition in_services (d : desc) : bool := match ds_key d with KIdx _ => false | _ => true end.

Definition coll := list desc.      (* registration order = allDescriptors *)

Definition find_service (c : coll) (t : ty) (k : key) : option desc :=
  find (fun d => in_services d && (ds_ty d =? t) && key_eqb (ds_key d) k) c.
Definition group_members (c : coll) (t : ty) (g : grp) : list desc :=
  filter (fun d => negb (in_services d) && (ds_ty d =? t) && (ds_grp d =? g)) c.

(* registerDescriptor *)
Definition register (c : coll) (d : desc) : coll + eclass :=
  if is_reserved (ds_ty d) then inr EValidation else
  let services_branch :=
    match find_service c (ds_ty d) (ds_key d) with
    | Some _ => inr EAlready
    | None => inl (c ++ [d])
    end in
  match ds_key d with
  | KNone =>
      if ds_grp d =? 0 then services_branch
      else inl (c ++ [mkDesc (ds_ty d) (KIdx (S (length (group_members c (ds_ty d) (ds_grp d))))) (ds_grp d) (ds_reg d) (ds_out d) (ds_call d)])
  | _ => services_branch
  end.

Definition form_type (f : form) : ty :=
  match f with
  | FInst t => t
  | FCtor _ _ [] _ => T_VOID
  | FCtor _ _ (t :: _) _ => t
  | FResult _ _ _ _ => 60            (* the Out struct itself: never registered *)
  end.
Definition is_void (r : reg) : bool := match r_form r with FCtor _ _ [] _ => true | _ => false end.

(* what one addService call tries to register, in order; an [inr] entry is a check that fails
   at that point (interface not implemented) *)
Definition add_steps (r : reg) (voidn : nat) : list (desc + eclass) :=
  let base_key := match r_name r with 0 => (if is_void r then KVoid voidn else KNone) | n => KName n end in
  match r_form r with
  | FResult _ _ fs _ =>
      (* a field is a keyed service or a group member, never both *)
      map (fun '(i, f) => if negb (f_name f =? 0) && negb (f_group f =? 0) then inr EValidation
                          else inl (mkDesc (f_ty f) (name_key (f_name f)) (f_group f) r i voidn)) (combine (seq 0 (length fs)) fs)
  | FCtor _ _ (t0 :: t1 :: ts) _ =>
      map (fun '(i, t) => inl (mkDesc t (match i with 0 => name_key (r_name r) | _ => KNone end) (r_group r) r i voidn))
          (combine (seq 0 (length (t0 :: t1 :: ts))) (t0 :: t1 :: ts))
  | f =>
      match r_as r with
      | [] => [inl (mkDesc (form_type f) base_key (r_group r) r 0 voidn)]
      | ifs => map (fun i => if implements (form_type f) i
                             then inl (mkDesc i base_key (r_group r) r 0 voidn)
                             else inr ETypeMismatch) ifs
      end
  end.

Fixpoint run_steps (c : coll) (steps : list (desc + eclass)) : coll + eclass :=
  match steps with
  | [] => inl c
  | inr e :: _ => inr e
  | inl d :: rest => match register c d with inl c' => run_steps c' rest | inr e => inr e end
  end.

(* addService.  Returns the new collection (unchanged on error: a rejected call is atomic), the
   new void-key counter and the error, if any. *)
Definition add_service (c : coll) (voidn : nat) (r : reg) : coll * nat * option eclass :=
  if (r_bad r =? 1) || (r_bad r =? 6) then (c, voidn, Some EValidation) else
  if (negb (r_name r =? 0) && negb (r_group r =? 0)) || negb (r_bad r =? 0) then (c, voidn, Some EValidation) else
  let voidn' := S voidn in     (* the counter numbers every registration call (void keys only need uniqueness) *)
  if is_void r && negb (r_group r =? 0) then (c, voidn', Some EValidation) else
  if is_reserved (form_type (r_form r)) then (c, voidn', Some EValidation) else
  match run_steps c (add_steps r voidn') with
  | inl c' => (c', voidn', None)
  | inr e => (c, voidn', Some e)
  end.

Fixpoint rm (t : ty) (k : key) (l : coll) : coll :=
  match l with
  | [] => []
  | d :: l' => if in_services d && (ds_ty d =? t) && key_eqb (ds_key d) k then l' else d :: rm t k l'
  end.
Definition remove_service (c : coll) (t : ty) (k : key) : coll :=
  match find_service c t k with
  | None => c
  | Some _ => rm t k c
  end.

(* modules: the error is wrapped once per enclosing named module, outermost first *)
Fixpoint apply_module (m : module) (st : coll * nat) {struct m} : coll * nat * option (eclass * list nat) :=
  match m with
  | MNil => (st, None)
  | MAdd r => let '(c', v', e) := add_service (fst st) (snd st) r in
              (c', v', match e with Some e => Some (e, []) | None => None end)
  | MRemove t => (remove_service (fst st) t KNone, snd st, None)
  | MRemoveKeyed t n => (remove_service (fst st) t (name_key n), snd st, None)
  | MModule name ms =>
      (fix go (ms : list module) (st : coll * nat) : coll * nat * option (eclass * list nat) :=
         match ms with
         | [] => (st, None)
         | m' :: rest =>
             match apply_module m' st with
             | (st', None) => go rest st'
             | (st', Some (e, names)) => (st', Some (e, name :: names))
             end
         end) ms st
  end.

Fixpoint apply_modules (ms : list module) (st : coll * nat) : coll * nat * option (eclass * list nat) :=
  match ms with
  | [] => (st, None)
  | m :: rest =>
      match apply_module m st with
      | (st', None) => apply_modules rest st'
      | r => r
      end
  end.

(* ------------------------------------------------------------------ dependency relation *)
(* a group dependency is filled by group alone: a name next to the group is ignored, at run time and by the
   build-time validations alike *)
Definition dep_key (d : dep) : key := if d_group d =? 0 then name_key (d_name d) else KNone.
Definition dep_ident (d : dep) : ident := (d_ty d, dep_key d, d_group d).
Fixpoint deps_of (ps : list param) : list dep :=
  match ps with
  | [] => []
  | PDep d :: ps' => d :: deps_of ps'
  | PSkip :: ps' => deps_of ps'
  end.
Definition reg_params (r : reg) : bool * list param :=
  match r_form r with
  | FInst _ => (false, [])
  | FCtor io ps _ _ | FResult io ps _ _ => (io, ps)
  end.
Definition reg_deps (r : reg) : list dep := deps_of (snd (reg_params r)).

Definition find_by_ident (c : coll) (n : ident) : option desc := find (fun d => ident_eqb (ds_ident d) n) c.

(* successors of a graph node: a descriptor's declared dependencies; a group node's members *)
Definition node_succ (c : coll) (n : ident) : list ident :=
  match find_by_ident c n with
  | Some d => map dep_ident (reg_deps (ds_reg d))
  | None =>
      let '(t, k, g) := n in
      match k, g with
      | KNone, S _ => map ds_ident (group_members c t g)
      | _, _ => []
      end
  end.

Definition mem_ident (n : ident) (l : list ident) : bool := existsb (ident_eqb n) l.
Fixpoint dedup (l : list ident) : list ident :=
  match l with
  | [] => []
  | x :: l' => if mem_ident x l' then dedup l' else x :: dedup l'
  end.
Definition graph_nodes (c : coll) : list ident :=
  dedup (map ds_ident c ++ flat_map (fun d => map dep_ident (reg_deps (ds_reg d))) c).

Fixpoint index_of (n : ident) (l : list ident) : nat :=
  match l with
  | [] => 0
  | x :: l' => if ident_eqb x n then 0 else S (index_of n l')
  end.
Definition nat_graph (c : coll) : nat -> list nat :=
  let ns := graph_nodes c in
  fun i => match nth_error ns i with
           | Some n => map (fun m => index_of m ns) (node_succ c n)
           | None => []
           end.
Definition has_cycle (c : coll) : bool :=
  let ns := graph_nodes c in
  match detect (nat_graph c) (seq 0 (length ns)) (seq 0 (length ns)) with
  | Some _ => true
  | None => false
  end.

(* lifetime validation: a singleton or transient must not declare a dependency whose provider
   (any member, for a group) is scoped *)
Definition dep_scoped (c : coll) (d : dep) : bool :=
  if d_group d =? 0
  then match find_service c (d_ty d) (name_key (d_name d)) with
       | Some p => life_eqb (ds_life p) Scoped
       | None => false
       end
  else existsb (fun m => life_eqb (ds_life m) Scoped) (group_members c (d_ty d) (d_group d)).
Definition lifetime_conflict (c : coll) : bool :=
  existsb (fun d => negb (life_eqb (ds_life d) Scoped) && existsb (dep_scoped c) (reg_deps (ds_reg d))) c.

Definition dep_missing (c : coll) (d : dep) : bool :=
  negb (d_opt d) && (d_group d =? 0) &&
  negb (is_reserved (d_ty d) && (d_name d =? 0)) &&
  match find_service c (d_ty d) (name_key (d_name d)) with Some _ => false | None => true end.
Definition missing_required (c : coll) : bool :=
  existsb (fun d => existsb (dep_missing c) (reg_deps (ds_reg d))) c.

(* ------------------------------------------------------------------ run-time state *)
Record scope_st := mkScope {
  sc_parent : nat;                    (* parent scope handle, 0 = created from the provider *)
  sc_ctx : nat;                       (* explicit context the scope's context derives from, 0 = none *)
  sc_cache : list (ident * inst);
  sc_disp : list inst;                (* disposables, newest first *)
  sc_open : bool
}.
Record prov := mkProv {
  p_descs : coll;                     (* snapshot taken by Build *)
  p_scopes : list scope_st;           (* index = handle; 0 = root scope *)
  p_single : list (ident * inst);
  p_sdisp : list inst;                (* singleton disposables, newest first *)
  p_open : bool
}.
Record rstate := mkRs { rs_invs : list (nat * nat); rs_p : prov; rs_ev : list event (* newest first *) }.

Inductive rres := ROkV (a : aval) | RFail (e : eclass) | RFuel.

Fixpoint lookup_i (l : list (ident * inst)) (n : ident) : option inst :=
  match l with
  | [] => None
  | (m, v) :: l' => if ident_eqb m n then Some v else lookup_i l' n
  end.
Fixpoint get_inv (l : list (nat * nat)) (rid : nat) : nat :=
  match l with
  | [] => 0
  | (r, n) :: l' => if r =? rid then n else get_inv l' rid
  end.
Fixpoint bump_inv (l : list (nat * nat)) (rid : nat) : list (nat * nat) :=
  match l with
  | [] => [(rid, 1)]
  | (r, n) :: l' => if r =? rid then (r, S n) :: l' else (r, n) :: bump_inv l' rid
  end.

Definition get_scope (p : prov) (h : nat) : scope_st :=
  nth h (p_scopes p) (mkScope 0 0 [] [] false).
Fixpoint upd_nth {A} (l : list A) (n : nat) (f : A -> A) : list A :=
  match l, n with
  | [], _ => []
  | x :: l', 0 => f x :: l'
  | x :: l', S n' => x :: upd_nth l' n' f
  end.
Definition upd_scope (p : prov) (h : nat) (f : scope_st -> scope_st) : prov :=
  mkProv (p_descs p) (upd_nth (p_scopes p) h f) (p_single p) (p_sdisp p) (p_open p).
Definition with_p (rs : rstate) (p : prov) : rstate := mkRs (rs_invs rs) p (rs_ev rs).
Definition log (rs : rstate) (e : event) : rstate := mkRs (rs_invs rs) (rs_p rs) (e :: rs_ev rs).

(* the five primitives through which resolution changes the state *)
Definition cache_set (p : prov) (h : nat) (n : ident) (i : inst) : prov :=
  upd_scope p h (fun s => mkScope (sc_parent s) (sc_ctx s) ((n, i) :: sc_cache s) (sc_disp s) (sc_open s)).
Definition track_scope (p : prov) (h : nat) (i : inst) : prov :=
  if inst_disposable i
  then upd_scope p h (fun s => mkScope (sc_parent s) (sc_ctx s) (sc_cache s) (i :: sc_disp s) (sc_open s))
  else p.
Definition single_set (p : prov) (n : ident) (i : inst) : prov :=
  mkProv (p_descs p) (p_scopes p) ((n, i) :: p_single p) (p_sdisp p) (p_open p).
Definition track_single (p : prov) (i : inst) : prov :=
  if inst_disposable i
  then mkProv (p_descs p) (p_scopes p) (p_single p) (i :: p_sdisp p) (p_open p)
  else p.

(* setInstance: where an instance of the given lifetime is stored and who disposes it.  All descriptors of one
   registration carry the registration's lifetime, so the aliases and the other outputs of a construction are
   stored with the lifetime of the descriptor that is being constructed. *)
Definition store (life : lifetime) (p : prov) (h : nat) (n : ident) (i : inst) : prov :=
  match life with
  | Singleton => track_single (single_set p n i) i
  | Scoped => track_scope (cache_set p h n i) h i
  | Transient => track_scope p h i
  end.
Definition set_instance (p : prov) (h : nat) (d : desc) (i : inst) : prov := store (ds_life d) p h (ds_ident d) i.
(* the other interface aliases of a single-output registration share the instance, untracked *)
Definition share (life : lifetime) (p : prov) (h : nat) (n : ident) (i : inst) : prov :=
  match life with
  | Singleton => single_set p n i
  | Scoped => cache_set p h n i
  | Transient => p
  end.
Definition share_instance (p : prov) (h : nat) (d : desc) (i : inst) : prov := share (ds_life d) p h (ds_ident d) i.
(* an output of a multi-output constructor whose registration was removed: stored nowhere, disposed by its owner *)
Definition drop_output (p : prov) (h : nat) (life : lifetime) (i : inst) : prov :=
  match life with
  | Singleton => track_single p i
  | _ => track_scope p h i
  end.
Definition aliases_of (c : coll) (d : desc) : list desc :=
  filter (fun d' => (ds_rid d' =? ds_rid d) && (ds_call d' =? ds_call d) && negb (ident_eqb (ds_ident d') (ds_ident d))) c.

Definition output_desc (c : coll) (d : desc) (k : nat) : option desc :=
  find (fun d' => (ds_rid d' =? ds_rid d) && (ds_call d' =? ds_call d) && (ds_out d' =? k)) c.

Definition has_err (r : reg) : bool :=
  match r_form r with FInst _ => false | FCtor _ _ _ e | FResult _ _ _ e => e end.
Definition single_iface_ret (r : reg) : bool :=
  match r_form r with FCtor _ _ [t] _ => is_iface t | _ => false end.
Definition effective_outcome (r : reg) (inv : nat) : outcome :=
  match nth_default OOk (r_script r) inv with
  | OErr => if has_err r then OErr else OOk
  | ONil => if single_iface_ret r then ONil else OOk
  | OCancelBuild => OOk
  | o => o
  end.
Definition cancels (r : reg) (inv : nat) : bool :=
  match nth_default OOk (r_script r) inv with OCancelBuild => true | _ => false end.
Definition out_inst (r : reg) (inv k : nat) : inst := IObj (r_id r) inv k (nth_default 0 (r_dyn r) k).
(* an output the constructor leaves nil (multi-output constructors only); what is remembered for it reads as nil *)
Definition out_is_nil (r : reg) (k : nat) : bool := nth_default 0 (r_dyn r) k =? T_NILOUT.
(* how a nil group member reads in the slice handed out *)
Definition NIL_MEMBER : inst := IObj 0 0 0 T_NILOUT.
Definition aval_of (i : inst) : aval :=
  match i with
  | IObj _ _ _ dyn => if dyn =? T_NILOUT then AZero else AInst i
  | IVoid => AInst i
  end.

Definition builtin (h : nat) (t : ty) : option aval :=
  if t =? T_CTX then Some (ACtx h) else if t =? T_SCOPE then Some (AScope h) else if t =? T_PROV then Some AProv else None.

Section Resolve.
  (* the recursive call: resolve through a known descriptor in scope h *)
  Variable recd : rstate -> nat -> desc -> rstate * rres.

  Definition req (rs : rstate) (h : nat) (t : ty) (k : key) : rstate * rres :=
    match k, builtin h t with
    | KNone, Some a => (rs, ROkV a)
    | _, _ =>
        match find_service (p_descs (rs_p rs)) t k with
        | None => (rs, RFail ENotFound)
        | Some d => recd rs h d
        end
    end.

  Fixpoint group_loop (rs : rstate) (h : nat) (ms : list desc) (acc : list inst) : rstate * rres :=
    match ms with
    | [] => (rs, ROkV (AList (rev acc)))
    | m :: ms' =>
        match recd rs h m with
        | (rs1, ROkV (AInst i)) => group_loop rs1 h ms' (i :: acc)
        | (rs1, ROkV AZero) => group_loop rs1 h ms' (NIL_MEMBER :: acc)   (* a member its constructor left nil *)
        | (rs1, ROkV _) => (rs1, RFail EOther)
        | (rs1, r) => (rs1, r)
        end
    end.
  Definition group_value (rs : rstate) (h : nat) (t : ty) (g : grp) : rstate * rres :=
    group_loop rs h (group_members (p_descs (rs_p rs)) t g) [].

  Definition dep_value (rs : rstate) (h : nat) (d : dep) : rstate * rres :=
    if d_group d =? 0 then req rs h (d_ty d) (name_key (d_name d))
    else group_value rs h (d_ty d) (d_group d).

  (* what an optional field keeps when its dependency is not available: the zero value of its type - for a
     `struct{}` field that is the one value the type has *)
  Definition zero_of (d : dep) : aval := if (d_ty d =? T_VOID) && (d_group d =? 0) then AInst IVoid else AZero.

  Fixpoint args_loop (rs : rstate) (h : nat) (inobj : bool) (ps : list param) (acc : list aval)
    : rstate * (list aval + rres) :=
    match ps with
    | [] => (rs, inl (rev acc))
    | PSkip :: ps' => args_loop rs h inobj ps' (AZero :: acc)
    | PDep d :: ps' =>
        match dep_value rs h d with
        | (rs1, ROkV a) => args_loop rs1 h inobj ps' (a :: acc)
        | (rs1, RFuel) => (rs1, inr RFuel)
        | (rs1, RFail e) =>
            if inobj && d_opt d then args_loop rs1 h inobj ps' (zero_of d :: acc)
            else (rs1, inr (RFail e))
        end
    end.

  (* fan-out of a multi-return constructor / result object: output k is stored under the descriptor that
     the same registration call created for output k, as far as the provider's snapshot still holds it
     (one identity of the registration may have been removed, or removed and registered again by another
     constructor, before Build) *)
  Fixpoint fan_out (p : prov) (h : nat) (d : desc) (inv : nat) (ks : list nat) : prov :=
    match ks with
    | [] => p
    | k :: rest =>
        match output_desc (p_descs p) d k with
        | None => fan_out (drop_output p h (ds_life d) (out_inst (ds_reg d) inv k)) h d inv rest
        | Some sd =>
            if out_is_nil (ds_reg d) k && life_eqb (ds_life d) Singleton
            then fan_out p h d inv rest        (* setSingleton ignores nil; a scope remembers it as nil *)
            else fan_out (store (ds_life d) p h (ds_ident sd) (out_inst (ds_reg d) inv k)) h d inv rest
        end
    end.

  (* a result object all of whose (still registered) fields are nil "produced no services": the construction fails,
     nothing is stored or remembered, but outputs whose registration was removed are still disposed by their owner *)
  Definition stores_any (c : coll) (d : desc) (ks : list nat) : bool :=
    existsb (fun k => match output_desc c d k with Some _ => negb (out_is_nil (ds_reg d) k) | None => false end) ks.
  Fixpoint drop_only (p : prov) (h : nat) (d : desc) (inv : nat) (ks : list nat) : prov :=
    match ks with
    | [] => p
    | k :: rest =>
        match output_desc (p_descs p) d k with
        | None => drop_only (drop_output p h (ds_life d) (out_inst (ds_reg d) inv k)) h d inv rest
        | Some _ => drop_only p h d inv rest
        end
    end.

  (* createInstance *)
  Definition create (rs : rstate) (h : nat) (d : desc) : rstate * rres :=
    let r := ds_reg d in
    match r_form r with
    | FInst t =>
        let i := IObj (r_id r) 0 0 t in
        let p1 := set_instance (rs_p rs) h d i in
        let p2 := fold_left (fun p a => share (ds_life d) p h (ds_ident a) i) (aliases_of (p_descs p1) d) p1 in
        (with_p rs p2, ROkV (AInst i))
    | _ =>
        let '(inobj, ps) := reg_params r in
        match args_loop rs h inobj ps [] with
        | (rs1, inr e) => (rs1, e)
        | (rs1, inl args) =>
            let inv := get_inv (rs_invs rs1) (r_id r) in
            let o := effective_outcome r inv in
            let rs2' := log (mkRs (bump_inv (rs_invs rs1) (r_id r)) (rs_p rs1) (rs_ev rs1)) (EvCtor (r_id r) inv args o) in
            let rs2 := if cancels r inv then log rs2' EvCancel else rs2' in
            match o with
            | OErr => (rs2, RFail (ECtorErr (r_id r)))
            | OPanic => (rs2, RFail (ECtorPanic (r_id r)))
            | ONil => (rs2, RFail EValidation)
            | OCancelBuild => (rs2, RFail EOther)
            | OOk =>
                match r_form r with
                | FCtor _ _ [] _ => (with_p rs2 (set_instance (rs_p rs2) h d IVoid), ROkV (AInst IVoid))
                | FCtor _ _ [_] _ =>
                    let i := out_inst r inv 0 in
                    let p1 := set_instance (rs_p rs2) h d i in
                    let p2 := fold_left (fun p a => share (ds_life d) p h (ds_ident a) i) (aliases_of (p_descs p1) d) p1 in
                    (with_p rs2 p2, ROkV (AInst i))
                | FCtor _ _ ts _ =>
                    (with_p rs2 (fan_out (rs_p rs2) h d inv (seq 0 (length ts))), ROkV (aval_of (out_inst r inv (ds_out d))))
                | FResult _ _ fs _ =>
                    if stores_any (p_descs (rs_p rs2)) d (seq 0 (length fs))
                    then (with_p rs2 (fan_out (rs_p rs2) h d inv (seq 0 (length fs))),
                          ROkV (aval_of (out_inst r inv (ds_out d))))
                    else (with_p rs2 (drop_only (rs_p rs2) h d inv (seq 0 (length fs))), RFail EValidation)
                | FInst _ => (rs2, RFail EOther)
                end
            end
        end
    end.
End Resolve.

(* resolve *)
Fixpoint resolve_d (fuel : nat) (rs : rstate) (h : nat) (d : desc) : rstate * rres :=
  match fuel with
  | 0 => (rs, RFuel)
  | S f =>
      match ds_life d with
      | Singleton =>
          match lookup_i (p_single (rs_p rs)) (ds_ident d) with
          | Some i => (rs, ROkV (aval_of i))
          | None => (rs, RFail ESingletonNotInit)
          end
      | Scoped =>
          match lookup_i (sc_cache (get_scope (rs_p rs) h)) (ds_ident d) with
          | Some i => (rs, ROkV (aval_of i))
          | None => create (resolve_d f) rs h d
          end
      | Transient => create (resolve_d f) rs h d
      end
  end.

Definition fuel_for (p : prov) : nat := 2 + length (p_descs p).
Definition resolve_req (rs : rstate) (h : nat) (t : ty) (k : key) : rstate * rres :=
  req (resolve_d (fuel_for (rs_p rs))) rs h t k.
Definition resolve_group (rs : rstate) (h : nat) (t : ty) (g : grp) : rstate * rres :=
  group_value (resolve_d (fuel_for (rs_p rs))) rs h t g.
Definition create_top (rs : rstate) (h : nat) (d : desc) : rstate * rres :=
  create (resolve_d (fuel_for (rs_p rs))) rs h d.

(* ------------------------------------------------------------------ disposal *)
Definition close_fails (c : coll) (i : inst) : bool :=
  match i with
  | IVoid => false
  | IObj rid _ out _ =>
      match find (fun d => ds_rid d =? rid) c with
      | Some d => nth_default false (r_cfail (ds_reg d)) out
      | None => false
      end
  end.
(* close a list of disposables (already in closing order); returns events (oldest first) and error count *)
Fixpoint close_insts (c : coll) (owner : nat) (l : list inst) : list event * nat :=
  match l with
  | [] => ([], 0)
  | i :: l' =>
      let '(evs, n) := close_insts c owner l' in
      let bad := close_fails c i in
      (EvClosed i (negb bad) owner :: evs, if bad then S n else n)
  end.

Definition mem_nat (x : nat) (l : list nat) : bool := existsb (Nat.eqb x) l.
(* candidates in oracle order first, the rest in their own order *)
Definition order_by (ord cands : list nat) : list nat :=
  filter (fun x => mem_nat x cands) ord ++ filter (fun x => negb (mem_nat x ord)) cands.
Fixpoint nodup_nat (l : list nat) : list nat :=
  match l with
  | [] => []
  | x :: l' => if mem_nat x l' then nodup_nat l' else x :: nodup_nat l'
  end.
Definition open_children (p : prov) (h : nat) : list nat :=
  filter (fun k => let s := get_scope p k in sc_open s && (sc_parent s =? h) && negb (k =? 0))
         (seq 0 (length (p_scopes p))).
Definition open_scopes (p : prov) : list nat :=
  filter (fun k => sc_open (get_scope p k) && negb (k =? 0)) (seq 0 (length (p_scopes p))).

(* scope.Close: children first, then own disposables newest first; returns the number of errors
   collected by this Close (failing children count once each) and whether it ran at all *)
Fixpoint close_scope (fuel : nat) (ord : list nat) (p : prov) (h : nat) : prov * list event * nat :=
  match fuel with
  | 0 => (p, [], 0)
  | S f =>
      let s := get_scope p h in
      if negb (sc_open s) then (p, [], 0) else
      let p0 := upd_scope p h (fun s => mkScope (sc_parent s) (sc_ctx s) (sc_cache s) (sc_disp s) false) in
      let '(p1, evs1, n1) :=
        fold_left (fun '(pa, ea, na) k =>
                     let '(pb, eb, nb) := close_scope f ord pa k in
                     (pb, ea ++ eb, if nb =? 0 then na else S na))
                  (nodup_nat (order_by ord (open_children p0 h))) (p0, [], 0) in
      let own := sc_disp (get_scope p1 h) in
      let '(evs2, n2) := close_insts (p_descs p1) h own in
      (upd_scope p1 h (fun s => mkScope (sc_parent s) (sc_ctx s) [] [] false), evs1 ++ evs2, n1 + n2)
  end.
Definition scope_fuel (p : prov) : nat := S (length (p_scopes p)).

(* provider.Close *)
Definition close_provider (ord : list nat) (p : prov) : prov * list event * nat :=
  if negb (p_open p) then (p, [], 0) else
  let p0 := mkProv (p_descs p) (p_scopes p) (p_single p) (p_sdisp p) false in
  let '(p1, evs1, n1) :=
    fold_left (fun '(pa, ea, na) k =>
                 let '(pb, eb, nb) := close_scope (scope_fuel pa) ord pa k in
                 (pb, ea ++ eb, if nb =? 0 then na else S na))
              (nodup_nat (order_by ord (open_scopes p0))) (p0, [], 0) in
  let '(p2, evs2, n2) := close_scope (scope_fuel p1) ord p1 0 in
  let '(evs3, n3) := close_insts (p_descs p2) OWNER_PROV (p_sdisp p2) in
  (mkProv (p_descs p2) (p_scopes p2) [] [] false, evs1 ++ evs2 ++ evs3, n1 + (if n2 =? 0 then 0 else 1) + n3).

(* ------------------------------------------------------------------ Build *)
Definition root_scope : scope_st := mkScope 0 0 [] [] true.
Definition is_initializer (d : desc) : bool := life_eqb (ds_life d) Scoped && is_void (ds_reg d).

(* run the initializers of scope h *)
Fixpoint run_inits (rs : rstate) (h : nat) (ds : list desc) : rstate * option rres :=
  match ds with
  | [] => (rs, None)
  | d :: ds' =>
      (* an initializer that an earlier one took as a (named) dependency has run in this scope already *)
      match lookup_i (sc_cache (get_scope (rs_p rs) h)) (ds_ident d) with
      | Some _ => run_inits rs h ds'
      | None =>
          match create_top rs h d with
          | (rs1, ROkV _) => run_inits rs1 h ds'
          | (rs1, r) => (rs1, Some r)
          end
      end
  end.

(* create the singletons: registrations in oracle order first, then whatever is still missing *)
(* another output of the same registration call already has its instance: the constructor ran, and left this
   output nil *)
Definition sibling_created (p : prov) (d : desc) : bool :=
  existsb (fun sd => (ds_rid sd =? ds_rid d) && (ds_call sd =? ds_call d) && negb (ident_eqb (ds_ident sd) (ds_ident d)) &&
                     negb (ds_out sd =? ds_out d) &&
                     match lookup_i (p_single p) (ds_ident sd) with Some _ => true | None => false end) (p_descs p).
Definition singleton_pending (p : prov) (d : desc) : bool :=
  life_eqb (ds_life d) Singleton &&
  match lookup_i (p_single p) (ds_ident d) with Some _ => false | None => true end &&
  negb (sibling_created p d).
(* the Build context is checked before each singleton is created *)
Definition build_cancelled (rs : rstate) : bool :=
  existsb (fun e => match e with EvCancel => true | _ => false end) (rs_ev rs).
(* each descriptor is attempted at most once per Build ([att]: identities attempted so far): a descriptor whose
   output the constructor leaves nil stays without an instance, and is not a reason to run the constructor again *)
Definition attempted (att : list ident) (d : desc) : bool := existsb (ident_eqb (ds_ident d)) att.
(* once a constructor has run, every descriptor of that registration call counts as attempted: a constructor that leaves
   all of its outputs nil is not run once per output *)
Definition call_idents (c : coll) (d : desc) : list ident :=
  ds_ident d :: map ds_ident (filter (fun x => (ds_rid x =? ds_rid d) && (ds_call x =? ds_call d)) c).
Fixpoint create_singletons (rs : rstate) (att : list ident) (ds : list desc) : rstate * list ident * option rres :=
  match ds with
  | [] => (rs, att, None)
  | d :: ds' =>
      if singleton_pending (rs_p rs) d && negb (attempted att d)
      then if build_cancelled rs then (rs, att, Some (RFail ECancelled)) else
           match create_top rs 0 d with
           | (rs1, ROkV _) => create_singletons rs1 (call_idents (p_descs (rs_p rs1)) d ++ att) ds'
           | (rs1, r) => (rs1, att, Some r)
           end
      else create_singletons rs att ds'
  end.
(* instance values have no constructor and no dependencies: the non-disposable ones the oracle does not
   place (their position is unobservable) come first; a disposable one is placed by the oracle whenever it
   was created, so an unplaced one was not reached before a failure *)
Definition is_inst_desc (d : desc) : bool := match r_form (ds_reg d) with FInst t => negb (disposable t) | _ => false end.
Definition unplaced_instances (c : coll) (ord : list nat) : list desc :=
  filter (fun d => is_inst_desc d && negb (mem_nat (ds_rid d) ord)) c.
(* the oracle: each entry constructs the first still-missing singleton descriptor of that registration *)
Fixpoint create_by_order (rs : rstate) (att : list ident) (c : coll) (ord : list nat) : rstate * list ident * option rres :=
  match ord with
  | [] => (rs, att, None)
  | rid :: ord' =>
      match find (fun d => (ds_rid d =? rid) && singleton_pending (rs_p rs) d && negb (attempted att d)) c with
      | None => create_by_order rs att c ord'
      | Some d =>
          if build_cancelled rs then (rs, att, Some (RFail ECancelled)) else
          match create_top rs 0 d with
          | (rs1, ROkV _) => create_by_order rs1 (call_idents (p_descs (rs_p rs1)) d ++ att) c ord'
          | (rs1, r) => (rs1, att, Some r)
          end
      end
  end.
Definition create_all_singletons (rs : rstate) (c : coll) (ord : list nat) : rstate * option rres :=
  match create_singletons rs [] (unplaced_instances c ord) with
  | (rs1, _, Some r) => (rs1, Some r)
  | (rs1, att1, None) =>
      match create_by_order rs1 att1 c ord with
      | (rs2, _, Some r) => (rs2, Some r)
      | (rs2, att2, None) =>
          match create_singletons rs2 att2 c with
          | (rs3, _, r) => (rs3, r)
          end
      end
  end.

Definition rres_class (r : rres) : eclass :=
  match r with RFail e => e | RFuel => EOther | ROkV _ => EOther end.

Definition events_of (rs : rstate) : list event := rev (rs_ev rs).

(* Build: returns either the provider or the error, plus the events and the invocation counters *)
Definition build (c : coll) (invs : list (nat * nat)) (ord : list nat)
  : list (nat * nat) * list event * (prov + eclass) :=
  if has_cycle c then (invs, [], inr ECircular) else
  if lifetime_conflict c then (invs, [], inr ELifetime) else
  if missing_required c then (invs, [], inr ENotFound) else
  let p0 := mkProv c [root_scope] [] [] true in
  let rs0 := mkRs invs p0 [] in
  let fail (rs : rstate) (r : rres) :=
      let '(_, evs, n) := close_provider [] (rs_p rs) in
      (rs_invs rs, events_of rs ++ evs, inr (if n =? 0 then rres_class r else EDisposal n)) in
  match create_all_singletons rs0 c ord with
  | (rs1, Some r) => fail rs1 r
  | (rs1, None) =>
      match run_inits rs1 0 (filter is_initializer c) with
      | (rs2, Some r) =>
          (* the failing root scope is closed first (its close error is joined to the initializer's
             error), then the provider *)
          let '(p3, evs3, _) := close_scope (scope_fuel (rs_p rs2)) [] (rs_p rs2) 0 in
          let '(_, evs4, n4) := close_provider [] p3 in
          (rs_invs rs2, events_of rs2 ++ evs3 ++ evs4, inr (if n4 =? 0 then rres_class r else EDisposal n4))
      | (rs2, None) => (rs_invs rs2, events_of rs2, inl (rs_p rs2))
      end
  end.

(* ------------------------------------------------------------------ the world and its operations *)
Record world := mkWorld {
  w_coll : coll;
  w_void : nat;
  w_provs : list prov;
  w_invs : list (nat * nat);
  w_cancelled : list nat
}.
Definition init_world : world := mkWorld [] 0 [] [] [].
Definition closed_prov : prov := mkProv [] [] [] [] false.
Definition get_prov (w : world) (p : nat) : prov := nth p (w_provs w) closed_prov.
Definition set_prov (w : world) (i : nat) (p : prov) : world :=
  mkWorld (w_coll w) (w_void w) (upd_nth (w_provs w) i (fun _ => p)) (w_invs w) (w_cancelled w).
Definition with_coll (w : world) (c : coll) (v : nat) : world :=
  mkWorld c v (w_provs w) (w_invs w) (w_cancelled w).

Definition norm_key (k : key) : key := match k with KVoid _ => KVoid 0 | k => k end.
Definition describe (c : coll) : list (ty * key * grp * lifetime) :=
  map (fun d => (ds_ty d, norm_key (ds_key d), ds_grp d, ds_life d)) c.

Definition res_of (r : rres) : result :=
  match r with
  | ROkV a => RVal a
  | RFail e => RErr e []
  | RFuel => RErr EOther [99]          (* out of fuel: cannot happen on a built provider (C05) *)
  end.

Definition handle_ok (p : prov) (h : nat) : bool := h <? length (p_scopes p).

Definition create_scope (w : world) (pi parent ctx : nat) : world * list event * result :=
  let p := get_prov w pi in
  if negb (handle_ok p parent) then (w, [], RErr EOther [98]) else
  if (parent =? 0) && negb (p_open p) then (w, [], RErr EProviderDisposed []) else
  if negb (parent =? 0) && negb (sc_open (get_scope p parent)) then (w, [], RErr EScopeDisposed []) else
  let h := length (p_scopes p) in
  let cx := if ctx =? 0 then (if parent =? 0 then 0 else sc_ctx (get_scope p parent)) else ctx in
  let p1 := mkProv (p_descs p) (p_scopes p ++ [mkScope parent cx [] [] true]) (p_single p) (p_sdisp p) (p_open p) in
  match run_inits (mkRs (w_invs w) p1 []) h (filter is_initializer (p_descs p1)) with
  | (rs, None) =>
      (mkWorld (w_coll w) (w_void w) (upd_nth (w_provs w) pi (fun _ => rs_p rs)) (rs_invs rs) (w_cancelled w),
       events_of rs, RScope h)
  | (rs, Some r) =>
      (* a scope whose initialization fails is closed and forgotten *)
      let '(p2, evs, n) := close_scope (scope_fuel (rs_p rs)) [] (rs_p rs) h in
      let p3 := mkProv (p_descs p2) (firstn h (p_scopes p2)) (p_single p2) (p_sdisp p2) (p_open p2) in
      (mkWorld (w_coll w) (w_void w) (upd_nth (w_provs w) pi (fun _ => p3)) (rs_invs rs) (w_cancelled w),
       events_of rs ++ evs, res_of r)
  end.

Definition disposed_check (p : prov) (h : nat) : option result :=
  if h =? 0 then (if p_open p then None else Some (RErr EProviderDisposed []))
  else (if sc_open (get_scope p h) then None else Some (RErr EScopeDisposed [])).

Definition T_NIL : ty := 999.        (* a nil reflect.Type passed by the caller *)

Definition do_resolve (w : world) (pi h : nat) (run : rstate -> rstate * rres) : world * list event * result :=
  let p := get_prov w pi in
  if negb (handle_ok p h) then (w, [], RErr EOther [98]) else
  match disposed_check p h with
  | Some r => (w, [], r)
  | None =>
      let '(rs, r) := run (mkRs (w_invs w) p []) in
      (mkWorld (w_coll w) (w_void w) (upd_nth (w_provs w) pi (fun _ => rs_p rs)) (rs_invs rs) (w_cancelled w),
       events_of rs, res_of r)
  end.

Definition ctx_done (w : world) (p : prov) (h : nat) : bool :=
  if h =? 0 then false
  else negb (sc_open (get_scope p h)) || mem_nat (sc_ctx (get_scope p h)) (w_cancelled w).

(* closing every open scope of every provider whose context derives from c *)
Definition cancel_prov (c : nat) (ord : list nat) (p : prov) : prov * list event :=
  let targets := filter (fun k => sc_ctx (get_scope p k) =? c) (open_scopes p) in
  let '(p', evs, _) :=
    fold_left (fun '(pa, ea, na) k =>
                 let '(pb, eb, nb) := close_scope (scope_fuel pa) ord pa k in (pb, ea ++ eb, na + nb))
              (nodup_nat (order_by ord targets)) (p, [], 0) in
  (p', evs).

Definition step (w : world) (o : op) : world * list event * result :=
  match o with
  | OAdd r =>
      let '(c', v', e) := add_service (w_coll w) (w_void w) r in
      (with_coll w c' v', [], match e with Some e => RErr e [] | None => RUnit end)
  | ORemove t => (with_coll w (remove_service (w_coll w) t KNone) (w_void w), [], RUnit)
  | ORemoveKeyed t n => (with_coll w (remove_service (w_coll w) t (name_key n)) (w_void w), [], RUnit)
  | OModules ms =>
      let '(c', v', e) := apply_modules ms (w_coll w, w_void w) in
      (with_coll w c' v', [], match e with Some (e, names) => RErr e names | None => RUnit end)
  | OContains t =>
      (w, [], RBool (match find_service (w_coll w) t KNone with Some _ => true | None => false end))
  | OContainsKeyed t n =>
      (w, [], RBool (match find_service (w_coll w) t (name_key n) with Some _ => true | None => false end))
  | OCount => (w, [], RCount (length (w_coll w)))
  | OSlice => (w, [], RDescs (describe (w_coll w)))
  | OBuild ord =>
      let '(invs, evs, r) := build (w_coll w) (w_invs w) ord in
      match r with
      | inl p => (mkWorld (w_coll w) (w_void w) (w_provs w ++ [p]) invs (w_cancelled w), evs, RCount (length (w_provs w)))
      | inr e => (mkWorld (w_coll w) (w_void w) (w_provs w) invs (w_cancelled w), evs, RErr e [])
      end
  | OCreateScope p parent ctx => create_scope w p parent ctx
  | OResolve p h t n =>
      if t =? T_NIL then
        (match disposed_check (get_prov w p) h with Some r => (w, [], r) | None => (w, [], RErr ETypeNil []) end)
      else do_resolve w p h (fun rs => resolve_req rs h t (name_key n))
  | OResolveGroup p h t g =>
      if t =? T_NIL then
        (match disposed_check (get_prov w p) h with Some r => (w, [], r) | None => (w, [], RErr ETypeNil []) end)
      else if g =? 0 then
        (match disposed_check (get_prov w p) h with Some r => (w, [], r) | None => (w, [], RErr EValidation []) end)
      else do_resolve w p h (fun rs => resolve_group rs h t g)
  | OClose p h ord =>
      let pv := get_prov w p in
      if negb (handle_ok pv h) || (h =? 0) then (w, [], RErr EOther [98]) else
      let '(pv', evs, n) := close_scope (scope_fuel pv) ord pv h in
      (set_prov w p pv', evs, if n =? 0 then RUnit else RErr (EDisposal n) [])
  | OCloseProvider p ord =>
      let '(pv', evs, n) := close_provider ord (get_prov w p) in
      (set_prov w p pv', evs, if n =? 0 then RUnit else RErr (EDisposal n) [])
  | OCancel c ord =>
      let '(provs, evs) :=
        fold_left (fun '(acc, ea) pv => let '(pv', eb) := cancel_prov c ord pv in (acc ++ [pv'], ea ++ eb))
                  (w_provs w) ([], []) in
      (mkWorld (w_coll w) (w_void w) provs (w_invs w) (c :: w_cancelled w), evs, RUnit)
  | OCtxValue p h => (w, [], RCount (sc_ctx (get_scope (get_prov w p) h)))
  | OCtxDone p h => (w, [], RBool (ctx_done w (get_prov w p) h))
  | OFromContext p h => (w, [], RScope h)
  | OStats p =>
      let pv := get_prov w p in
      (w, [], RStats (if p_open pv then length (open_scopes pv) else 999)
                     (map (fun h => let s := get_scope pv h in
                                    if sc_open s
                                    then ((if h =? 0 then 0 else length (open_children pv h)), length (sc_cache s), length (sc_disp s))
                                    else (999, 999, 0))
                          (seq 0 (length (p_scopes pv)))))
  end.

Definition trace := list (list event * result).
Fixpoint run_from (w : world) (ops : list op) : world * trace :=
  match ops with
  | [] => (w, [])
  | o :: ops' =>
      let '(w1, evs, r) := step w o in
      let '(w2, tr) := run_from w1 ops' in
      (w2, (evs, r) :: tr)
  end.
Definition run (ops : list op) : trace := snd (run_from init_world ops).
