(* ProofsConc.v — theorems about the interleaving model Conc.v, for ALL thread programs (any lists
   of actions, well-formed or not) and ALL schedules: no instance is ever closed twice (C10, C12),
   identities are fresh; and the computed witness of the one known finding (two goroutines resolving
   one scoped service in one scope both construct, C02). *)
From Godi Require Import Base Conc.

Definition cnt (l : list nat) (x : nat) : nat := count_occ Nat.eq_dec l x.
Fixpoint cnt_scopes (l : list scp) (x : nat) : nat :=
  match l with [] => 0 | q :: l' => cnt (s_disp q) x + cnt_scopes l' x end.
(* how many times identity x occurs in anybody's hands or in the Close log *)
Definition total (s : cst) (x : nat) : nat :=
  cnt (c_closed s) x + cnt_scopes (c_scopes s) x + cnt (map snd (c_todo s)) x + cnt (map snd (c_inflight s)) x.
Definition Inv (s : cst) : Prop := forall x, total s x <= 1 /\ (1 <= total s x -> x < c_next s).

Lemma cnt_app a b x : cnt (a ++ b) x = cnt a x + cnt b x.
Proof. apply count_occ_app. Qed.
Lemma cnt_rev a x : cnt (rev a) x = cnt a x.
Proof. unfold cnt. induction a as [|y a IH]; [reflexivity|]. cbn [rev]. rewrite count_occ_app, IH. cbn. destruct (Nat.eq_dec y x); lia. Qed.
Lemma cnt_cons y a x : cnt (y :: a) x = (if Nat.eq_dec y x then 1 else 0) + cnt a x.
Proof. unfold cnt. cbn. destruct (Nat.eq_dec y x); lia. Qed.
Lemma cnt_nil x : cnt [] x = 0.
Proof. reflexivity. Qed.

Lemma cnt_scopes_app a b x : cnt_scopes (a ++ b) x = cnt_scopes a x + cnt_scopes b x.
Proof. induction a as [|q a IH]; cbn [cnt_scopes app]; [reflexivity|]. rewrite IH. lia. Qed.
Lemma cnt_scopes_upd_same f l k x : (forall q, s_disp (f q) = s_disp q) -> cnt_scopes (upd l k f) x = cnt_scopes l x.
Proof. intros H. revert k; induction l as [|q l IH]; intros [|k]; cbn [upd cnt_scopes]; auto; rewrite ?H, ?IH; reflexivity. Qed.
Lemma cnt_scopes_map_same f l x : (forall q, s_disp (f q) = s_disp q) -> cnt_scopes (map f l) x = cnt_scopes l x.
Proof. intros H. induction l as [|q l IH]; cbn [map cnt_scopes]; [reflexivity|]. rewrite H, IH. reflexivity. Qed.
Lemma cnt_scopes_upd_le f l k x : (forall q, cnt (s_disp (f q)) x <= cnt (s_disp q) x) -> cnt_scopes (upd l k f) x <= cnt_scopes l x.
Proof.
  intros H. revert k; induction l as [|q l IH]; intros [|k]; cbn [upd cnt_scopes]; auto.
  - specialize (H q). lia.
  - specialize (IH k). lia.
Qed.
(* clearing the disposables of scope k releases exactly what nth k held (nothing if k does not exist) *)
Lemma cnt_scopes_clear l k x d f :
  (forall q, s_disp (f q) = []) -> s_disp d = [] ->
  cnt_scopes (upd l k f) x + cnt (s_disp (nth k l d)) x = cnt_scopes l x.
Proof.
  intros Hf Hd. revert k; induction l as [|q l IH]; intros [|k]; cbn [upd cnt_scopes nth]; rewrite ?Hd, ?Hf; cbn [cnt count_occ]; try lia.
  specialize (IH k). lia.
Qed.
Lemma cnt_scopes_append l k x y f :
  (forall q, s_disp (f q) = s_disp q ++ [y]) ->
  cnt_scopes (upd l k f) x <= cnt_scopes l x + (if Nat.eq_dec y x then 1 else 0).
Proof.
  intros Hf. revert k; induction l as [|q l IH]; intros [|k]; cbn [upd cnt_scopes].
  - destruct (Nat.eq_dec y x); lia.
  - destruct (Nat.eq_dec y x); lia.
  - rewrite Hf, cnt_app, cnt_cons, cnt_nil. lia.
  - specialize (IH k). lia.
Qed.

Lemma cnt_fold_close ks : forall l x, cnt_scopes (fold_left (fun l k => if k <=? 1 then l else upd l k close_plain) ks l) x <= cnt_scopes l x.
Proof.
  induction ks as [|k ks IH]; intros l x; cbn [fold_left]; [lia|].
  destruct (k <=? 1); [apply IH|].
  eapply Nat.le_trans; [apply IH|]. apply cnt_scopes_upd_le. intros q. unfold close_plain; cbn [s_disp]. rewrite cnt_nil. lia.
Qed.

(* association lists keyed by thread *)
Lemma cnt_del1_get {l : list (nat * nat)} {i y} x : get l i = Some y ->
  cnt (map snd l) x = (if Nat.eq_dec y x then 1 else 0) + cnt (map snd (del1 l i)) x.
Proof.
  induction l as [|[j a] l IH]; [discriminate|].
  cbn [get del1]. destruct (j =? i); intros H.
  - inversion H; subst. cbn [map snd]. rewrite cnt_cons. reflexivity.
  - cbn [map snd]. rewrite !cnt_cons. rewrite (IH H). lia.
Qed.
Lemma cnt_filter_le (f : nat * nat -> bool) l x : cnt (map snd (filter f l)) x <= cnt (map snd l) x.
Proof.
  induction l as [|p l IH]; cbn [filter map]; [lia|].
  destruct (f p); cbn [map]; rewrite ?cnt_cons; lia.
Qed.
Lemma cnt_map_pair (i : nat) l x : cnt (map snd (map (fun y => (i, y)) l)) x = cnt l x.
Proof. rewrite map_map. cbn [snd]. rewrite map_id. reflexivity. Qed.

Ltac tot := unfold total; cbn [c_closed c_scopes c_todo c_inflight c_next set_prog finish set_scopes].

(* steps that touch neither the four places an identity can be in nor the identity counter *)
Lemma Inv_same s s' :
  (forall x, total s' x <= total s x) -> c_next s <= c_next s' -> Inv s -> Inv s'.
Proof. intros Hc Hn HI x. destruct (HI x) as [H1 H2]. specialize (Hc x). split; [lia|]. intros H. assert (1 <= total s x) by lia. specialize (H2 H0). lia. Qed.

Lemma act_inv s i a rest : Inv s -> Inv (act s i a rest).
Proof.
  intros HI. destruct a; cbn [act].
  - (* APCheck *) destruct (c_pdisposed s); (eapply Inv_same; [| |exact HI]; [intros x; tot; lia|tot; lia]).
  - destruct (s_disposed (scope_of s sc)); (eapply Inv_same; [| |exact HI]; [intros x; tot; lia|tot; lia]).
  - destruct (s_cache (scope_of s sc)) as [[|y l]|]; (eapply Inv_same; [| |exact HI]; [intros x; tot; lia|tot; lia]).
  - (* ACtor: a fresh identity *)
    intros x. destruct (HI x) as [H1 H2]. unfold total in *; cbn [c_closed c_scopes c_todo c_inflight c_next map snd] in *.
    rewrite cnt_cons. destruct (Nat.eq_dec (c_next s) x) as [E|E].
    + subst. assert (cnt (c_closed s) (c_next s) + cnt_scopes (c_scopes s) (c_next s) + cnt (map snd (c_todo s)) (c_next s) + cnt (map snd (c_inflight s)) (c_next s) = 0) by lia.
      split; lia.
    + split; [lia|]. intros H. assert (x < c_next s) by (apply H2; lia). lia.
  - eapply Inv_same; [| |exact HI]; [intros x; tot; lia|tot; lia].
  - (* AStore *) destruct (get (c_inflight s) i); (eapply Inv_same; [| |exact HI]; [intros x; tot; try lia|tot; lia]).
    rewrite cnt_scopes_upd_same; [lia|]. intros q. reflexivity.
  - (* ATrack *)
    destruct (get (c_inflight s) i) as [y|] eqn:Hg; [|eapply Inv_same; [| |exact HI]; [intros x; tot; lia|tot; lia]].
    destruct (s_taken (scope_of s sc)).
    + eapply Inv_same; [| |exact HI]; [intros x; tot|tot; lia].
      rewrite map_app, cnt_app. cbn [map snd]. rewrite cnt_cons, cnt_nil, (cnt_del1_get x Hg). lia.
    + eapply Inv_same; [| |exact HI]; [intros x; tot|tot; lia].
      rewrite (cnt_del1_get x Hg).
      pose proof (cnt_scopes_append (c_scopes s) sc x y (fun q => mkScp (s_disposed q) (s_cache q) (s_disp q ++ [y]) (s_taken q) (s_children q)) (fun q => eq_refl)).
      lia.
  - (* ACloseOne *)
    destruct (get (c_todo s) i) as [y|] eqn:Hg; (eapply Inv_same; [| |exact HI]; [intros x; tot; try lia|tot; lia]).
    rewrite cnt_app, cnt_cons, cnt_nil, (cnt_del1_get x Hg). lia.
  - destruct (get (c_results s) i); (eapply Inv_same; [| |exact HI]; [intros x; tot; lia|tot; lia]).
  - eapply Inv_same; [| |exact HI]; [intros x; tot; lia|tot; lia].
  - (* ACas *) destruct (s_disposed (scope_of s sc)); (eapply Inv_same; [| |exact HI]; [intros x; tot; try lia|tot; lia]).
    rewrite cnt_scopes_upd_same; [lia|]. intros q. reflexivity.
  - destruct (s_disposed (scope_of s sc)); (eapply Inv_same; [| |exact HI]; [intros x; tot; try lia|tot; lia]).
    rewrite cnt_scopes_upd_same; [lia|]. intros q. reflexivity.
  - (* ATakeChildren *) eapply Inv_same; [| |exact HI]; [intros x; tot|tot; lia].
    rewrite cnt_scopes_upd_same; [lia|]. intros q. reflexivity.
  - (* ACloseChildren *) eapply Inv_same; [| |exact HI]; [intros x; tot|tot; lia].
    pose proof (cnt_fold_close (mine (c_ctodo s) i) (c_scopes s) x). lia.
  - (* ATakeDisp *) eapply Inv_same; [| |exact HI]; [intros x; tot|tot; lia].
    rewrite map_app, cnt_app, cnt_map_pair, cnt_rev.
    pose proof (cnt_scopes_clear (c_scopes s) sc x (mkScp true None [] true None)
                  (fun q => mkScp (s_disposed q) (s_cache q) [] true (s_children q)) (fun q => eq_refl) eq_refl) as H.
    unfold scope_of. lia.
  - (* AUnlink *) eapply Inv_same; [| |exact HI]; [intros x; tot|tot; lia].
    rewrite cnt_scopes_map_same; [lia|]. intros q. reflexivity.
  - (* AClearCache *) eapply Inv_same; [| |exact HI]; [intros x; tot|tot; lia].
    rewrite cnt_scopes_upd_same; [lia|]. intros q. reflexivity.
  - destruct (c_pdisposed s); (eapply Inv_same; [| |exact HI]; [intros x; tot; lia|tot; lia]).
  - eapply Inv_same; [| |exact HI]; [intros x; tot; lia|tot; lia].
  - (* ACloseCreated *) eapply Inv_same; [| |exact HI]; [intros x; tot|tot; lia].
    pose proof (cnt_fold_close (mine (c_ctodo s) i) (c_scopes s) x). lia.
  - (* ANewScope *) eapply Inv_same; [| |exact HI]; [intros x; tot|tot; lia].
    rewrite cnt_scopes_app. cbn. lia.
  - (* AAdoptChild *)
    destruct (get (c_newscope s) i) as [k|]; [|eapply Inv_same; [| |exact HI]; [intros x; tot; lia|tot; lia]].
    destruct (s_children (scope_of s parent)); (eapply Inv_same; [| |exact HI]; [intros x; tot|tot; lia]).
    + rewrite cnt_scopes_upd_same; [lia|]. intros q. reflexivity.
    + assert (cnt_scopes (upd (c_scopes s) k close_plain) x <= cnt_scopes (c_scopes s) x)
        by (apply cnt_scopes_upd_le; intros q; unfold close_plain; cbn [s_disp]; rewrite cnt_nil; lia). lia.
  - (* AAdoptProv *)
    destruct (get (c_newscope s) i) as [k|]; [|eapply Inv_same; [| |exact HI]; [intros x; tot; lia|tot; lia]].
    destruct (c_ptable s); [eapply Inv_same; [| |exact HI]; [intros x; tot; lia|tot; lia]|].
    destruct must; (eapply Inv_same; [| |exact HI]; [intros x; tot; try lia|tot; lia]).
    assert (cnt_scopes (upd (c_scopes s) k close_plain) x <= cnt_scopes (c_scopes s) x)
      by (apply cnt_scopes_upd_le; intros q; unfold close_plain; cbn [s_disp]; rewrite cnt_nil; lia). lia.
Qed.

Lemma step_inv s i : Inv s -> Inv (step s i).
Proof. intros H. unfold step. destruct (get (c_progs s) i) as [[|a rest]|]; [exact H|apply act_inv; exact H|exact H]. Qed.

Theorem run_inv sched : forall s, Inv s -> Inv (run s sched).
Proof. induction sched as [|i sch IH]; intros s H; cbn [run fold_left]; [exact H|]. apply IH, step_inv, H. Qed.

(* any initial state in which nothing has been created yet *)
Definition fresh_state (s : cst) : Prop :=
  c_closed s = [] /\ c_todo s = [] /\ c_inflight s = [] /\ Forall (fun q => s_disp q = []) (c_scopes s).
Lemma fresh_inv s : fresh_state s -> Inv s.
Proof.
  intros (H1 & H2 & H3 & H4) x. unfold total. rewrite H1, H2, H3. cbn [map cnt count_occ].
  assert (cnt_scopes (c_scopes s) x = 0) as ->.
  { induction H4 as [|q l Hq Hl IH]; cbn [cnt_scopes]; [reflexivity|]. rewrite Hq, IH. reflexivity. }
  split; lia.
Qed.

Lemma count_le_one_NoDup l : (forall x, cnt l x <= 1) -> NoDup l.
Proof. intros H. apply (NoDup_count_occ Nat.eq_dec). exact H. Qed.

(* For ALL programs (any number of resolving, creating and closing threads, even ill-formed ones)
   and ALL schedules: no instance is ever closed twice. *)
Theorem no_double_close s sched : fresh_state s -> NoDup (c_closed (run s sched)).
Proof.
  intros Hf. pose proof (run_inv sched s (fresh_inv s Hf)) as HI.
  apply count_le_one_NoDup. intros x. destruct (HI x) as [H _]. unfold total in H. lia.
Qed.

Lemma init_fresh kinds : fresh_state (init kinds).
Proof. unfold init, fresh_state; cbn. repeat split; auto. Qed.

Corollary no_double_close_init kinds sched : NoDup (c_closed (run (init kinds) sched)).
Proof. apply no_double_close, init_fresh. Qed.

(* the gate-level runs the harness replays are runs of the same machine *)
Lemma run_to_gate_is_run fuel : forall s i, exists sch, run_to_gate fuel s i = run s sch.
Proof.
  induction fuel as [|f IH]; intros s i; cbn [run_to_gate]; [exists []; reflexivity|].
  destruct (thread_done s i || is_gate s i); [exists []; reflexivity|].
  destruct (IH (step s i) i) as [sch H]. exists (i :: sch). rewrite H. reflexivity.
Qed.
Lemma gate_step_is_run s i : exists sch, gate_step s i = run s sch.
Proof.
  unfold gate_step. destruct (thread_done s i); [exists []; reflexivity|].
  destruct (run_to_gate_is_run 60 (step s i) i) as [sch H]. exists (i :: sch). rewrite H. reflexivity.
Qed.
Lemma run_app s a b : run s (a ++ b) = run (run s a) b.
Proof. unfold run. apply fold_left_app. Qed.
Theorem run_gates_is_run sched : forall s, exists sch, run_gates s sched = run s sch.
Proof.
  induction sched as [|i sc IH]; intros s; cbn [run_gates fold_left]; [exists []; reflexivity|].
  destruct (gate_step_is_run s i) as [s1 H1]. destruct (IH (gate_step s i)) as [s2 H2].
  exists (s1 ++ s2). rewrite run_app, <- H1. exact H2.
Qed.
Corollary no_double_close_gates kinds sched : NoDup (c_closed (run_gates (init kinds) sched)).
Proof. destruct (run_gates_is_run sched (init kinds)) as [sch H]. rewrite H. apply no_double_close_init. Qed.

(* ------------------------------------------------------------------ the known finding, decided by computation:
   two goroutines resolving one scoped service in one scope can both construct it (F13) *)
Theorem scoped_unique_concurrent_refuted :
  exists sched, let s := run (init [0; 0]) sched in
    get (c_results s) 0 = Some (CRInst 0) /\ get (c_results s) 1 = Some (CRInst 1) /\
    thread_done s 0 = true /\ thread_done s 1 = true.
Proof. exists [0; 0; 1; 1; 0; 0; 0; 0; 0; 1; 1; 1; 1; 1]. vm_compute. repeat split. Qed.

(* outside that window uniqueness holds: a resolver that starts after another one has stored its instance gets that instance *)
Theorem scoped_unique_sequential_resolvers :
  let s := run (init [0; 0]) [0; 0; 0; 0; 0; 0; 0; 1; 1; 1; 1; 1; 1; 1] in
  get (c_results s) 0 = Some (CRInst 0) /\ get (c_results s) 1 = Some (CRInst 0) /\ c_next s = 1.
Proof. vm_compute. repeat split. Qed.
