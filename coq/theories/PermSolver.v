From Coq Require Import List Arith Bool Lia PeanoNat Permutation Sorting.Mergesort Orders.
Import ListNotations.

(* Reflective solver for goals  Permutation L R  where L, R are built from ++, ::, [] over atoms.
   Atoms of kind "list" and "element" are both reified as lists (an element x as [x]). *)
Section Refl.
  Context {A : Type}.
  Definition denote (env : list (list A)) (is : list nat) : list A :=
    flat_map (fun i => nth i env []) is.

  Lemma denote_perm env is js : Permutation is js -> Permutation (denote env is) (denote env js).
  Proof. intros H. unfold denote. apply Permutation_flat_map, H. Qed.
End Refl.

Module NatOrder <: TotalLeBool.
  Definition t := nat.
  Definition leb := Nat.leb.
  Lemma leb_total : forall a b, leb a b = true \/ leb b a = true.
  Proof. intros a b. unfold leb. destruct (Nat.leb_spec a b); [left; reflexivity|right; apply Nat.leb_le; lia]. Qed.
End NatOrder.
Module NatSort := Sort NatOrder.

Lemma perm_by_sort (is js : list nat) : NatSort.sort is = NatSort.sort js -> Permutation is js.
Proof.
  intros H. etransitivity; [apply NatSort.Permuted_sort|]. rewrite H. symmetry. apply NatSort.Permuted_sort.
Qed.

Lemma perm_reflect {A} (env : list (list A)) is js :
  NatSort.sort is = NatSort.sort js -> Permutation (denote env is) (denote env js).
Proof. intros H. apply denote_perm, perm_by_sort, H. Qed.

(* --- reification --- *)
Ltac lookup_atom x env :=
  lazymatch env with
  | x :: _ => constr:(0)
  | _ :: ?env' => let n := lookup_atom x env' in constr:(S n)
  end.
Ltac add_atom x env :=
  lazymatch env with
  | context [x] => env
  | _ => constr:(env ++ [x])
  end.
Ltac norm_env env := let e := eval cbn [app] in env in e.

Ltac collect A t env :=
  lazymatch t with
  | @nil _ => env
  | ?a ++ ?b => let e1 := collect A a env in collect A b e1
  | ?x :: ?b => let e1 := (let l := constr:([x]) in add_in l env) in collect A b e1
  | _ => add_in t env
  end
with add_in l env :=
  let env' := norm_env env in
  lazymatch env' with
  | context [l :: _] => env'
  | _ => norm_env constr:(env' ++ [l])
  end.

Ltac reify t env :=
  lazymatch t with
  | @nil _ => constr:(@nil nat)
  | ?a ++ ?b => let ia := reify a env in let ib := reify b env in constr:(ia ++ ib)
  | ?x :: ?b => let l := constr:([x]) in let n := lookup_atom l env in let ib := reify b env in constr:(n :: ib)
  | _ => let n := lookup_atom t env in constr:([n])
  end.

Ltac perm_solver :=
  lazymatch goal with
  | |- @Permutation ?A ?L ?R =>
      let e0 := constr:(@nil (list A)) in
      let e1 := collect A L e0 in
      let env := collect A R e1 in
      let il := reify L env in let il := eval cbn [app] in il in
      let ir := reify R env in let ir := eval cbn [app] in ir in
      change (Permutation (denote env il) (denote env ir)) ||
        (let H := fresh in
         assert (H : L = denote env il) by (cbn [denote flat_map nth app]; rewrite ?app_nil_r, <- ?app_assoc; reflexivity);
         rewrite H; clear H;
         assert (H : R = denote env ir) by (cbn [denote flat_map nth app]; rewrite ?app_nil_r, <- ?app_assoc; reflexivity);
         rewrite H; clear H);
      apply perm_reflect; vm_compute; reflexivity
  end.

Example t1 (a b c : list nat) x y : Permutation (a ++ x :: b ++ (c ++ [y])) (y :: c ++ (b ++ a) ++ [x]).
Proof. perm_solver. Qed.
Example t2 (a b : list nat) x : Permutation (x :: a ++ b) (a ++ x :: b).
Proof. perm_solver. Qed.
