(* ProofsOnceWorld.v — C10 over every history (sequential model): no instance is ever closed twice.
   Invariant of the world: all instances listed for disposal anywhere (every provider, every scope) together with
   all instances closed so far are pairwise distinct, and each was made by a counted invocation.  Resolutions add
   fresh instances (ProofsOnce), closes move instances from lists to Closed events (ProofsConserve), a failed Build
   or scope creation closes what it created and forgets the rest empty. *)
From Coq Require Import Permutation.
From Godi Require Import Base Model Check ProofsRegistry ProofsRuntime ProofsClosed ProofsFresh ProofsGen ProofsFrame ProofsOnce ProofsConserve.

(* ------------------------------------------------------------------ sub-multisets *)
Lemma nodup_app_l {A} (X extra : list A) : NoDup (X ++ extra) -> NoDup X.
Proof.
  induction X as [|x X IH]; cbn [app]; intros H; [constructor|].
  inversion H as [|y l Hy Hl]; subst. constructor; [intros Hin; apply Hy; apply in_or_app; left; exact Hin|apply IH; exact Hl].
Qed.
Lemma nodup_sub {A} (X extra Y : list A) : Permutation (X ++ extra) Y -> NoDup Y -> NoDup X.
Proof. intros Hp Hn. apply (Permutation_NoDup (Permutation_sym Hp)) in Hn. exact (nodup_app_l _ _ Hn). Qed.
Lemma forall_sub {A} (Pr : A -> Prop) (X extra Y : list A) : Permutation (X ++ extra) Y -> Forall Pr Y -> Forall Pr X.
Proof.
  intros Hp Hf. apply Forall_forall. intros x Hx. rewrite Forall_forall in Hf. apply Hf.
  apply (Permutation_in _ Hp). apply in_or_app. left. exact Hx.
Qed.
Lemma forall_bounded_mono invs invs' l : inv_le invs invs' -> Forall (inst_bounded invs) l -> Forall (inst_bounded invs') l.
Proof.
  intros Hle Hf. apply Forall_forall. intros i Hi. rewrite Forall_forall in Hf. specialize (Hf i Hi).
  destruct i as [rid inv k dyn|]; cbn in *; [specialize (Hle rid); lia|exact I].
Qed.

(* ------------------------------------------------------------------ one provider among the others *)
Definition all_tracked (l : list prov) : list inst := concat (map tracked l).
Definition others (l : list prov) (pi : nat) : list inst := all_tracked (firstn pi l ++ skipn (S pi) l).

Lemma all_tracked_app a b : all_tracked (a ++ b) = all_tracked a ++ all_tracked b.
Proof. unfold all_tracked. rewrite map_app, concat_app. reflexivity. Qed.

Lemma split_nth {A} (l : list A) pi d : pi < length l -> l = firstn pi l ++ nth pi l d :: skipn (S pi) l.
Proof.
  revert pi; induction l as [|x l IH]; intros [|pi] H; cbn [length] in H; try lia; cbn [firstn skipn nth app]; [reflexivity|].
  f_equal. apply IH. lia.
Qed.
Lemma upd_nth_split {A} (l : list A) pi (f : A -> A) d : pi < length l ->
  upd_nth l pi f = firstn pi l ++ f (nth pi l d) :: skipn (S pi) l.
Proof.
  revert pi; induction l as [|x l IH]; intros [|pi] H; cbn [length] in H; try lia; cbn [firstn skipn nth app upd_nth]; [reflexivity|].
  f_equal. apply IH. lia.
Qed.

Lemma perm_one_among l pi : pi < length l ->
  Permutation (all_tracked l) (tracked (nth pi l closed_prov) ++ others l pi).
Proof.
  intros H. unfold others. rewrite (split_nth l pi closed_prov H) at 1. rewrite !all_tracked_app.
  unfold all_tracked at 2. cbn [map concat]. fold (all_tracked (skipn (S pi) l)).
  rewrite app_assoc. rewrite (Permutation_app_comm (all_tracked (firstn pi l)) (tracked _)). rewrite <- app_assoc. reflexivity.
Qed.
Lemma perm_one_replaced l pi p' : pi < length l ->
  Permutation (all_tracked (upd_nth l pi (fun _ => p'))) (tracked p' ++ others l pi).
Proof.
  intros H. unfold others. rewrite (upd_nth_split l pi (fun _ => p') closed_prov H). rewrite !all_tracked_app.
  unfold all_tracked at 2. cbn [map concat]. fold (all_tracked (skipn (S pi) l)).
  rewrite app_assoc. rewrite (Permutation_app_comm (all_tracked (firstn pi l)) (tracked _)). rewrite <- app_assoc. reflexivity.
Qed.

(* the instances a step on provider [pi] may assume to be "elsewhere": the other providers' and the closed ones.
   For an index that names no provider the container works on an empty, closed provider and forgets the result. *)
Definition elsewhere (l : list prov) (pi : nat) (cl : list inst) : list inst :=
  (if pi <? length l then others l pi else all_tracked l) ++ cl.

Lemma perm_focus l pi cl : Permutation (all_tracked l ++ cl) (tracked (nth pi l closed_prov) ++ elsewhere l pi cl).
Proof.
  unfold elsewhere. destruct (pi <? length l) eqn:E.
  - apply Nat.ltb_lt in E. rewrite app_assoc. apply Permutation_app_tail. apply perm_one_among. exact E.
  - apply Nat.ltb_ge in E. rewrite nth_overflow by exact E. reflexivity.
Qed.
(* after the step: the provider's new state takes its place (or is forgotten) *)
Lemma perm_unfocus l pi p' cl :
  exists extra, Permutation ((all_tracked (upd_nth l pi (fun _ => p')) ++ cl) ++ extra) (tracked p' ++ elsewhere l pi cl).
Proof.
  unfold elsewhere. destruct (pi <? length l) eqn:E.
  - apply Nat.ltb_lt in E. exists []. rewrite app_nil_r, app_assoc. apply Permutation_app_tail. apply perm_one_replaced. exact E.
  - apply Nat.ltb_ge in E. rewrite nth_upd_nth_oob by exact E. exists (tracked p').
    rewrite Permutation_app_comm. reflexivity.
Qed.

(* ------------------------------------------------------------------ resolutions log construction events only *)
Definition Ev (rs : rstate) : Prop := Forall construction_event (rs_ev rs).

Lemma closed_of_construction l : Forall construction_event l -> closed_of (rev l) = [].
Proof.
  intros H. assert (Hr : Forall construction_event (rev l)) by (apply Forall_rev; exact H).
  induction (rev l) as [|e l' IH]; [reflexivity|]. inversion Hr as [|x y He Hl]; subst.
  cbn [closed_of flat_map]. destruct e; cbn in He; try contradiction; cbn [app]; apply IH; exact Hl.
Qed.
Lemma closed_of_events rs : Ev rs -> closed_of (events_of rs) = [].
Proof. intros H. unfold events_of. apply closed_of_construction. exact H. Qed.

Lemma ev_with_p rs p : Ev rs -> Ev (with_p rs p). Proof. intros H; exact H. Qed.
Lemma ev_ctor rs rid args o : Ev rs ->
  Ev (log (mkRs (bump_inv (rs_invs rs) rid) (rs_p rs) (rs_ev rs)) (EvCtor rid (get_inv (rs_invs rs) rid) args o)).
Proof. intros H. unfold Ev; cbn [rs_ev log]. constructor; [exact I|exact H]. Qed.
Lemma ev_cancel rs : Ev rs -> Ev (log rs EvCancel).
Proof. intros H. unfold Ev; cbn [rs_ev log]. constructor; [exact I|exact H]. Qed.

Lemma ev_req rs h t k : Ev rs -> Ev (fst (resolve_req rs h t k)).
Proof. apply (gen_resolve_req h Ev); auto using ev_with_p, ev_ctor, ev_cancel. Qed.
Lemma ev_group rs h t g : Ev rs -> Ev (fst (resolve_group rs h t g)).
Proof. apply (gen_resolve_group h Ev); auto using ev_with_p, ev_ctor, ev_cancel. Qed.
Lemma ev_create_top rs h d : Ev rs -> Ev (fst (create_top rs h d)).
Proof. apply (gen_create_top h Ev); auto using ev_with_p, ev_ctor, ev_cancel. Qed.
Lemma ev_run_inits ds : forall rs h, Ev rs -> Ev (fst (run_inits rs h ds)).
Proof.
  induction ds as [|d ds IH]; intros rs h H; cbn [run_inits]; [exact H|].
  destruct (lookup_i (sc_cache (get_scope (rs_p rs) h)) (ds_ident d)); [apply IH; exact H|].
  pose proof (ev_create_top rs h d H) as H1.
  destruct (create_top rs h d) as [rs1 [a|e|]]; cbn [fst] in *; try exact H1. apply IH. exact H1.
Qed.
Lemma ev_create_singletons ds : forall rs att, Ev rs -> Ev (fst (fst (create_singletons rs att ds))).
Proof.
  induction ds as [|d ds IH]; intros rs att H; cbn [create_singletons]; [exact H|].
  destruct (singleton_pending (rs_p rs) d && negb (attempted att d)); [|apply IH; exact H].
  destruct (build_cancelled rs); [exact H|].
  pose proof (ev_create_top rs 0 d H) as H1.
  destruct (create_top rs 0 d) as [rs1 [a|e|]]; cbn [fst] in *; try exact H1. apply IH. exact H1.
Qed.
Lemma ev_create_by_order c ord : forall rs att, Ev rs -> Ev (fst (fst (create_by_order rs att c ord))).
Proof.
  induction ord as [|rid ord IH]; intros rs att H; cbn [create_by_order]; [exact H|].
  destruct (find _ c) as [d|]; [|apply IH; exact H].
  destruct (build_cancelled rs); [exact H|].
  pose proof (ev_create_top rs 0 d H) as H1.
  destruct (create_top rs 0 d) as [rs1 [a|e|]]; cbn [fst] in *; try exact H1. apply IH. exact H1.
Qed.
Lemma ev_create_all c ord rs : Ev rs -> Ev (fst (create_all_singletons rs c ord)).
Proof.
  intros H. unfold create_all_singletons.
  pose proof (ev_create_singletons (unplaced_instances c ord) rs [] H) as H1.
  destruct (create_singletons rs [] (unplaced_instances c ord)) as [[rs1 att1] [r|]]; cbn [fst] in *; [exact H1|].
  pose proof (ev_create_by_order c ord rs1 att1 H1) as H2.
  destruct (create_by_order rs1 att1 c ord) as [[rs2 att2] [r|]]; cbn [fst] in *; [exact H2|].
  pose proof (ev_create_singletons c rs2 att2 H2) as H3.
  destruct (create_singletons rs2 att2 c) as [[rs3 att3] r]; cbn [fst] in *. exact H3.
Qed.

(* ------------------------------------------------------------------ the ownership invariant through initializers and Build *)
Section OnceMore.
  Variable c : coll.
  Variable F : list inst.
  Hypothesis c_ok : forall d, In d c -> desc_ok d.

  Lemma once_run_inits ds : (forall d, In d ds -> In d c) -> forall rs h, Once c F rs -> Once c F (fst (run_inits rs h ds)).
  Proof.
    induction ds as [|d ds IH]; intros Hin rs h H; cbn [run_inits]; [exact H|].
    destruct (lookup_i (sc_cache (get_scope (rs_p rs) h)) (ds_ident d)); [apply IH; [intros x Hx; apply Hin; right; exact Hx|exact H]|].
    pose proof (create_top_lists_each_instance_once c F c_ok rs h d (Hin d (or_introl eq_refl)) H) as H1.
    destruct (create_top rs h d) as [rs1 [a|e|]]; cbn [fst] in *; try exact H1.
    apply IH; [intros x Hx; apply Hin; right; exact Hx|exact H1].
  Qed.
  Lemma once_create_singletons ds : (forall d, In d ds -> In d c) -> forall rs att, Once c F rs -> Once c F (fst (fst (create_singletons rs att ds))).
  Proof.
    induction ds as [|d ds IH]; intros Hin rs att H; cbn [create_singletons]; [exact H|].
    assert (Hin' : forall x, In x ds -> In x c) by (intros x Hx; apply Hin; right; exact Hx).
    destruct (singleton_pending (rs_p rs) d && negb (attempted att d)); [|apply IH; assumption].
    destruct (build_cancelled rs); [exact H|].
    pose proof (create_top_lists_each_instance_once c F c_ok rs 0 d (Hin d (or_introl eq_refl)) H) as H1.
    destruct (create_top rs 0 d) as [rs1 [a|e|]]; cbn [fst] in *; try exact H1. apply IH; assumption.
  Qed.
  Lemma once_create_by_order ord : forall rs att, Once c F rs -> Once c F (fst (fst (create_by_order rs att c ord))).
  Proof.
    induction ord as [|rid ord IH]; intros rs att H; cbn [create_by_order]; [exact H|].
    destruct (find _ c) as [d|] eqn:Hf; [|apply IH; exact H].
    destruct (build_cancelled rs); [exact H|].
    apply find_some in Hf. destruct Hf as [Hd _].
    pose proof (create_top_lists_each_instance_once c F c_ok rs 0 d Hd H) as H1.
    destruct (create_top rs 0 d) as [rs1 [a|e|]]; cbn [fst] in *; try exact H1. apply IH. exact H1.
  Qed.
  Lemma once_create_all ord rs : Once c F rs -> Once c F (fst (create_all_singletons rs c ord)).
  Proof.
    intros H. unfold create_all_singletons.
    assert (Hu : forall d, In d (unplaced_instances c ord) -> In d c) by (intros d Hd; unfold unplaced_instances in Hd; apply filter_In in Hd; exact (proj1 Hd)).
    pose proof (once_create_singletons (unplaced_instances c ord) Hu rs [] H) as H1.
    destruct (create_singletons rs [] (unplaced_instances c ord)) as [[rs1 att1] [r|]]; cbn [fst] in *; [exact H1|].
    pose proof (once_create_by_order ord rs1 att1 H1) as H2.
    destruct (create_by_order rs1 att1 c ord) as [[rs2 att2] [r|]]; cbn [fst] in *; [exact H2|].
    pose proof (once_create_singletons c (fun d Hd => Hd) rs2 att2 H2) as H3.
    destruct (create_singletons rs2 att2 c) as [[rs3 att3] r]; cbn [fst] in *. exact H3.
  Qed.
End OnceMore.

(* ------------------------------------------------------------------ the registry holds only registrations that were added *)
Definition reg_inst_ok (r : reg) : Prop := forall t, r_form r = FInst t -> disposable t = false.
Definition coll_ok (c : coll) : Prop := forall d, In d c -> desc_ok d.

Lemma register_regs c d c' : register c d = inl c' -> forall x, In x c' -> In x c \/ ds_reg x = ds_reg d.
Proof.
  unfold register. destruct (is_reserved (ds_ty d)); [discriminate|].
  assert (Hsvc : match find_service c (ds_ty d) (ds_key d) with Some _ => inr EAlready | None => inl (c ++ [d]) end = inl c' ->
                 forall x, In x c' -> In x c \/ ds_reg x = ds_reg d).
  { destruct (find_service c (ds_ty d) (ds_key d)); [discriminate|]. intros E; inversion E; subst. intros x Hx.
    apply in_app_or in Hx. destruct Hx as [Hx|[<-|[]]]; auto. }
  destruct (ds_key d); try exact Hsvc.
  destruct (ds_grp d =? 0); [exact Hsvc|]. intros E; inversion E; subst. intros x Hx.
  apply in_app_or in Hx. destruct Hx as [Hx|[<-|[]]]; auto.
Qed.

Lemma add_steps_reg r v : Forall (fun s => match s with inl d => ds_reg d = r | inr _ => True end) (add_steps r v).
Proof.
  unfold add_steps. destruct (r_form r) as [t|io ps rets er|io ps fs er].
  - destruct (r_as r) as [|a l]; [constructor; [reflexivity|constructor]|].
    apply Forall_forall. intros s Hs. apply in_map_iff in Hs. destruct Hs as [i [<- _]]. destruct (implements _ i); [reflexivity|exact I].
  - destruct rets as [|t0 [|t1 ts]].
    + destruct (r_as r) as [|a l]; [constructor; [reflexivity|constructor]|].
      apply Forall_forall. intros s Hs. apply in_map_iff in Hs. destruct Hs as [i [<- _]]. destruct (implements _ i); [reflexivity|exact I].
    + destruct (r_as r) as [|a l]; [constructor; [reflexivity|constructor]|].
      apply Forall_forall. intros s Hs. apply in_map_iff in Hs. destruct Hs as [i [<- _]]. destruct (implements _ i); [reflexivity|exact I].
    + apply Forall_forall. intros s Hs. apply in_map_iff in Hs. destruct Hs as [[i t] [<- _]]. reflexivity.
  - apply Forall_forall. intros s Hs. apply in_map_iff in Hs. destruct Hs as [[i f] [<- _]].
    destruct (negb (f_name f =? 0) && negb (f_group f =? 0)); [exact I|reflexivity].
Qed.

Lemma run_steps_ok r steps : reg_inst_ok r -> Forall (fun s => match s with inl d => ds_reg d = r | inr _ => True end) steps ->
  forall c c', coll_ok c -> run_steps c steps = inl c' -> coll_ok c'.
Proof.
  intros Hr. induction steps as [|[d|e] steps IH]; intros Hf c c' Hc; cbn [run_steps].
  - intros E; inversion E; subst; exact Hc.
  - inversion Hf as [|x l Hd Hrest]; subst. destruct (register c d) as [c1|e] eqn:Er; [|discriminate].
    apply IH; [exact Hrest|]. intros x Hx. destruct (register_regs c d c1 Er x Hx) as [Hin|Heq]; [apply Hc; exact Hin|].
    unfold desc_ok. rewrite Heq. exact Hr.
  - discriminate.
Qed.

Lemma add_service_ok c v r : reg_inst_ok r -> coll_ok c -> coll_ok (fst (fst (add_service c v r))).
Proof.
  intros Hr Hc. unfold add_service.
  destruct ((r_bad r =? 1) || (r_bad r =? 6)); [exact Hc|].
  destruct ((negb (r_name r =? 0) && negb (r_group r =? 0)) || negb (r_bad r =? 0)); [exact Hc|].
  destruct (is_void r && negb (r_group r =? 0)); [exact Hc|].
  destruct (is_reserved (form_type (r_form r))); [exact Hc|].
  destruct (run_steps c (add_steps r (S v))) as [c'|e] eqn:Er; [|exact Hc]. cbn [fst].
  exact (run_steps_ok r (add_steps r (S v)) Hr (add_steps_reg r (S v)) c c' Hc Er).
Qed.

Lemma rm_in_coll t k c x : In x (rm t k c) -> In x c.
Proof.
  induction c as [|d c IH]; cbn [rm]; [tauto|].
  destruct (in_services d && (ds_ty d =? t) && key_eqb (ds_key d) k); cbn [In]; intuition.
Qed.
Lemma remove_service_ok c t k : coll_ok c -> coll_ok (remove_service c t k).
Proof.
  intros Hc. unfold remove_service. destruct (find_service c t k); [|exact Hc].
  intros x Hx. apply Hc. exact (rm_in_coll t k c x Hx).
Qed.

Definition call_inst_ok (o : op) : Prop := match o with OAdd r => reg_inst_ok r | _ => True end.
Definition op_inst_ok (o : op) : Prop :=
  match o with
  | OAdd r => reg_inst_ok r
  | OModules ms => Forall call_inst_ok (flatten_modules ms)
  | _ => True
  end.

Lemma direct_call_ok st o : coll_ok (fst st) -> call_inst_ok o -> coll_ok (fst (fst (direct_call st o))).
Proof.
  intros Hc Ho. destruct o; cbn [direct_call fst]; try exact Hc.
  - pose proof (add_service_ok (fst st) (snd st) r Ho Hc) as H.
    destruct (add_service (fst st) (snd st) r) as [[c' v'] e]. exact H.
  - apply remove_service_ok; exact Hc.
  - apply remove_service_ok; exact Hc.
Qed.
Lemma run_flat_ok l : forall st, coll_ok (fst st) -> Forall call_inst_ok (map snd l) -> coll_ok (fst (fst (run_flat st l))).
Proof.
  induction l as [|[ns o] l IH]; intros st Hc Hf; cbn [run_flat]; [exact Hc|].
  cbn [map snd] in Hf. inversion Hf as [|x y Ho Hl]; subst.
  pose proof (direct_call_ok st o Hc Ho) as H1.
  destruct (direct_call st o) as [st' [e|]]; cbn [fst] in *; [exact H1|apply IH; assumption].
Qed.

(* ------------------------------------------------------------------ the invariant of the world *)
Record G (w : world) (cl : list inst) : Prop := mkG {
  g_nodup : NoDup (all_tracked (w_provs w) ++ cl);
  g_bound : Forall (inst_bounded (w_invs w)) (all_tracked (w_provs w) ++ cl);
  g_provs : forall p, In p (w_provs w) -> coll_ok (p_descs p);
  g_coll : coll_ok (w_coll w)
}.

Lemma get_prov_ok w pi : (forall p, In p (w_provs w) -> coll_ok (p_descs p)) -> coll_ok (p_descs (get_prov w pi)).
Proof.
  intros H. unfold get_prov. destruct (Nat.lt_ge_cases pi (length (w_provs w))) as [Hl|Hl].
  - apply H. apply nth_In. exact Hl.
  - rewrite nth_overflow by exact Hl. intros d [].
Qed.

Lemma focus w cl pi : G w cl ->
  Once (p_descs (get_prov w pi)) (elsewhere (w_provs w) pi cl) (mkRs (w_invs w) (get_prov w pi) []).
Proof.
  intros [Hn Hb _ _]. unfold Once; cbn [rs_p rs_invs]. split; [reflexivity|].
  pose proof (perm_focus (w_provs w) pi cl) as Hp. fold (get_prov w pi) in Hp.
  split; [exact (Permutation_NoDup Hp Hn)|].
  apply Forall_forall. intros i Hi. rewrite Forall_forall in Hb. apply Hb. apply (Permutation_in _ (Permutation_sym Hp)). exact Hi.
Qed.

Lemma in_upd_nth {A} (l : list A) n (y x : A) : In x (upd_nth l n (fun _ => y)) -> x = y \/ In x l.
Proof.
  revert n; induction l as [|a l IH]; intros [|n]; cbn [upd_nth In]; try tauto.
  - intros [<-|H]; auto.
  - intros [<-|H]; auto. destruct (IH n H); auto.
Qed.

(* after a step on provider [pi]: its new state [p'] (whose lists, together with what the step closed, are the lists of
   some state that met the ownership invariant) takes its place *)
Lemma unfocus w cl pi p1 p' invs' closed extra0 :
  G w cl ->
  NoDup (tracked p1 ++ elsewhere (w_provs w) pi cl) ->
  Forall (inst_bounded invs') (tracked p1 ++ elsewhere (w_provs w) pi cl) ->
  Permutation ((closed ++ tracked p') ++ extra0) (tracked p1) ->
  coll_ok (p_descs p') ->
  G (mkWorld (w_coll w) (w_void w) (upd_nth (w_provs w) pi (fun _ => p')) invs' (w_cancelled w)) (cl ++ closed).
Proof.
  intros [_ _ Hpr Hc] Hn Hb Hcons Hok.
  destruct (perm_unfocus (w_provs w) pi p' cl) as [extra Hu].
  assert (Hperm : Permutation ((all_tracked (upd_nth (w_provs w) pi (fun _ => p')) ++ cl ++ closed) ++ (extra ++ extra0))
                              (tracked p1 ++ elsewhere (w_provs w) pi cl)).
  { set (A := all_tracked (upd_nth (w_provs w) pi (fun _ => p'))) in *.
    transitivity ((closed ++ ((A ++ cl) ++ extra)) ++ extra0).
    - rewrite (app_assoc A cl closed). rewrite (app_assoc _ extra extra0). apply Permutation_app_tail.
      rewrite (app_assoc closed (A ++ cl) extra). apply Permutation_app_tail. apply Permutation_app_comm.
    - rewrite Hu. rewrite <- Hcons. rewrite (app_assoc closed). rewrite <- !app_assoc.
      apply Permutation_app_head. apply Permutation_app_head. apply Permutation_app_comm. }
  constructor; cbn [w_provs w_invs w_coll].
  - exact (nodup_sub _ _ _ Hperm Hn).
  - exact (forall_sub _ _ _ _ Hperm Hb).
  - intros p Hp. apply in_upd_nth in Hp. destruct Hp as [->|Hp]; [exact Hok|apply Hpr; exact Hp].
  - exact Hc.
Qed.

Lemma G_invs w cl invs' : inv_le (w_invs w) invs' -> G w cl ->
  G (mkWorld (w_coll w) (w_void w) (w_provs w) invs' (w_cancelled w)) cl.
Proof.
  intros Hle [Hn Hb Hp Hc]. constructor; cbn [w_provs w_invs w_coll]; try assumption.
  exact (forall_bounded_mono _ _ _ Hle Hb).
Qed.

(* ------------------------------------------------------------------ the kinds of steps *)
(* a resolution-like step on provider [pi]: nothing closed *)
Lemma G_after_resolution w cl pi rs' :
  G w cl -> Once (p_descs (get_prov w pi)) (elsewhere (w_provs w) pi cl) rs' ->
  G (mkWorld (w_coll w) (w_void w) (upd_nth (w_provs w) pi (fun _ => rs_p rs')) (rs_invs rs') (w_cancelled w)) cl.
Proof.
  intros HG (Hd & Hn & Hb).
  rewrite <- (app_nil_r cl).
  apply (unfocus w cl pi (rs_p rs') (rs_p rs') (rs_invs rs') [] []); try assumption.
  - rewrite app_nil_r. reflexivity.
  - rewrite Hd. apply get_prov_ok. apply (g_provs _ _ HG).
Qed.

(* a closing step on provider [pi] *)
Lemma G_after_close w cl pi p' evs n :
  G w cl -> conserves (get_prov w pi) (p', evs, n) ->
  G (mkWorld (w_coll w) (w_void w) (upd_nth (w_provs w) pi (fun _ => p')) (w_invs w) (w_cancelled w)) (cl ++ closed_of evs).
Proof.
  intros HG [Hc Hd]. cbn [fst snd] in *. destruct (focus w cl pi HG) as (_ & Hn & Hb). cbn [rs_p rs_invs] in *.
  apply (unfocus w cl pi (get_prov w pi) p' (w_invs w) (closed_of evs) []); try assumption.
  - rewrite app_nil_r. exact Hc.
  - rewrite Hd. apply get_prov_ok. apply (g_provs _ _ HG).
Qed.

Lemma tracked_new_scope p s : sc_disp s = [] ->
  tracked (mkProv (p_descs p) (p_scopes p ++ [s]) (p_single p) (p_sdisp p) (p_open p)) = tracked p.
Proof.
  intros H. unfold tracked; cbn [p_sdisp p_scopes]. rewrite map_app, concat_app. cbn [map concat]. rewrite H, !app_nil_r. reflexivity.
Qed.
Lemma tracked_firstn p n :
  exists extra, Permutation (tracked (mkProv (p_descs p) (firstn n (p_scopes p)) (p_single p) (p_sdisp p) (p_open p)) ++ extra) (tracked p).
Proof.
  exists (concat (map sc_disp (skipn n (p_scopes p)))). unfold tracked; cbn [p_sdisp p_scopes].
  rewrite <- app_assoc, <- concat_app, <- map_app, firstn_skipn. reflexivity.
Qed.

Lemma G_create_scope w cl pi parent ctx : G w cl ->
  G (fst (fst (create_scope w pi parent ctx))) (cl ++ closed_of (snd (fst (create_scope w pi parent ctx)))).
Proof.
  intros HG. unfold create_scope.
  destruct (negb (handle_ok (get_prov w pi) parent)); [cbn [fst snd closed_of flat_map]; rewrite app_nil_r; exact HG|].
  destruct ((parent =? 0) && negb (p_open (get_prov w pi))); [cbn [fst snd closed_of flat_map]; rewrite app_nil_r; exact HG|].
  destruct (negb (parent =? 0) && negb (sc_open (get_scope (get_prov w pi) parent))); [cbn [fst snd closed_of flat_map]; rewrite app_nil_r; exact HG|].
  set (p := get_prov w pi). set (h := length (p_scopes p)).
  set (cx := if ctx =? 0 then _ else ctx).
  set (p1 := mkProv (p_descs p) (p_scopes p ++ [mkScope parent cx [] [] true]) (p_single p) (p_sdisp p) (p_open p)).
  pose proof (focus w cl pi HG) as Hf. fold p in Hf.
  assert (H1 : Once (p_descs p) (elsewhere (w_provs w) pi cl) (mkRs (w_invs w) p1 [])).
  { destruct Hf as (_ & Hn & Hb). unfold Once; cbn [rs_p rs_invs] in *. unfold p1 at 1. split; [reflexivity|].
    unfold p1. rewrite tracked_new_scope by reflexivity. split; assumption. }
  assert (Hok : coll_ok (p_descs p)) by (apply get_prov_ok; apply (g_provs _ _ HG)).
  assert (Hinits : forall d, In d (filter is_initializer (p_descs p1)) -> In d (p_descs p)).
  { intros d Hd. apply filter_In in Hd. exact (proj1 Hd). }
  pose proof (once_run_inits (p_descs p) (elsewhere (w_provs w) pi cl) Hok (filter is_initializer (p_descs p1)) Hinits (mkRs (w_invs w) p1 []) h H1) as H2.
  pose proof (ev_run_inits (filter is_initializer (p_descs p1)) (mkRs (w_invs w) p1 []) h (Forall_nil _)) as He.
  destruct (run_inits (mkRs (w_invs w) p1 []) h (filter is_initializer (p_descs p1))) as [rs [r|]]; cbn [fst snd] in *.
  - (* a failing initializer: the new scope is closed and dropped *)
    destruct (close_scope_conserves (scope_fuel (rs_p rs)) [] (rs_p rs) h) as [Hc Hd].
    destruct (close_scope (scope_fuel (rs_p rs)) [] (rs_p rs) h) as [[p2 evs] n]. cbn [fst snd] in *.
    rewrite closed_of_app, (closed_of_events rs He). cbn [app].
    destruct H2 as (Hd2 & Hn2 & Hb2).
    destruct (tracked_firstn p2 h) as [extra Hex].
    apply (unfocus w cl pi (rs_p rs) _ (rs_invs rs) (closed_of evs) extra HG Hn2 Hb2).
    + rewrite <- Hc. rewrite <- app_assoc. apply Permutation_app_head. exact Hex.
    + cbn [p_descs]. rewrite Hd, Hd2. exact Hok.
  - rewrite (closed_of_events rs He), app_nil_r. apply G_after_resolution; assumption.
Qed.

Lemma G_do_resolve w cl pi h run :
  (forall rs, Once (p_descs (get_prov w pi)) (elsewhere (w_provs w) pi cl) rs -> Once (p_descs (get_prov w pi)) (elsewhere (w_provs w) pi cl) (fst (run rs))) ->
  (forall rs, Ev rs -> Ev (fst (run rs))) ->
  G w cl -> G (fst (fst (do_resolve w pi h run))) (cl ++ closed_of (snd (fst (do_resolve w pi h run)))).
Proof.
  intros Hrun Hev HG. unfold do_resolve.
  destruct (negb (handle_ok (get_prov w pi) h)); [cbn [fst snd closed_of flat_map]; rewrite app_nil_r; exact HG|].
  destruct (disposed_check (get_prov w pi) h); [cbn [fst snd closed_of flat_map]; rewrite app_nil_r; exact HG|].
  pose proof (Hrun _ (focus w cl pi HG)) as H1. pose proof (Hev (mkRs (w_invs w) (get_prov w pi) []) (Forall_nil _)) as He.
  destruct (run (mkRs (w_invs w) (get_prov w pi) [])) as [rs r]. cbn [fst snd] in *.
  rewrite (closed_of_events rs He), app_nil_r. apply G_after_resolution; assumption.
Qed.

(* Build: a new provider (its lists are fresh) is appended, or everything it created is closed and it is forgotten *)
Lemma G_build w cl ord : G w cl ->
  let '(invs', evs, r) := build (w_coll w) (w_invs w) ord in
  G (mkWorld (w_coll w) (w_void w) (match r with inl p => w_provs w ++ [p] | inr _ => w_provs w end) invs' (w_cancelled w))
    (cl ++ closed_of evs).
Proof.
  intros HG. unfold build.
  assert (Hsame : G (mkWorld (w_coll w) (w_void w) (w_provs w) (w_invs w) (w_cancelled w)) (cl ++ closed_of [])).
  { cbn [closed_of flat_map]. rewrite app_nil_r. destruct w; exact HG. }
  destruct (has_cycle (w_coll w)); [exact Hsame|].
  destruct (lifetime_conflict (w_coll w)); [exact Hsame|].
  destruct (missing_required (w_coll w)); [exact Hsame|]. clear Hsame.
  set (c := w_coll w). set (F := all_tracked (w_provs w) ++ cl).
  set (p0 := mkProv c [root_scope] [] [] true).
  assert (Hok : coll_ok c) by exact (g_coll _ _ HG).
  assert (H0 : Once c F (mkRs (w_invs w) p0 [])).
  { unfold Once; cbn [rs_p rs_invs p_descs]. split; [reflexivity|]. change (tracked p0) with (@nil inst). cbn [app].
    split; [exact (g_nodup _ _ HG)|exact (g_bound _ _ HG)]. }
  pose proof (once_create_all c F Hok ord (mkRs (w_invs w) p0 []) H0) as H1.
  pose proof (ev_create_all c ord (mkRs (w_invs w) p0 []) (Forall_nil _)) as He1.
  (* what a forgotten provider leaves behind: the instances it closed are new and distinct *)
  assert (Hforget : forall rs closed rest, Once c F rs -> Permutation (closed ++ rest) (tracked (rs_p rs)) ->
            G (mkWorld c (w_void w) (w_provs w) (rs_invs rs) (w_cancelled w)) (cl ++ closed)).
  { intros rs closed rest (_ & Hn & Hb) Hp.
    assert (Hperm : Permutation ((all_tracked (w_provs w) ++ cl ++ closed) ++ rest) (tracked (rs_p rs) ++ F)).
    { unfold F. rewrite <- Hp. rewrite (app_assoc (all_tracked (w_provs w)) cl closed).
      rewrite <- (app_assoc (all_tracked (w_provs w) ++ cl) closed rest). apply Permutation_app_comm. }
    constructor; cbn [w_provs w_invs w_coll].
    - exact (nodup_sub _ _ _ Hperm Hn).
    - exact (forall_sub _ _ _ _ Hperm Hb).
    - exact (g_provs _ _ HG).
    - exact Hok. }
  destruct (create_all_singletons (mkRs (w_invs w) p0 []) c ord) as [rs1 [r|]]; cbn [fst] in *.
  - (* a singleton failed: the provider is closed and forgotten *)
    destruct (close_provider_conserves [] (rs_p rs1)) as [Hc _].
    destruct (close_provider [] (rs_p rs1)) as [[pe evs] n]. cbn [fst snd] in *.
    rewrite closed_of_app, (closed_of_events rs1 He1). cbn [app]. exact (Hforget rs1 (closed_of evs) (tracked pe) H1 Hc).
  - assert (Hinits : forall d, In d (filter is_initializer c) -> In d c) by (intros d Hd; apply filter_In in Hd; exact (proj1 Hd)).
    pose proof (once_run_inits c F Hok (filter is_initializer c) Hinits rs1 0 H1) as H2.
    pose proof (ev_run_inits (filter is_initializer c) rs1 0 He1) as He2.
    destruct (run_inits rs1 0 (filter is_initializer c)) as [rs2 [r|]]; cbn [fst] in *.
    + destruct (close_scope_conserves (scope_fuel (rs_p rs2)) [] (rs_p rs2) 0) as [Hc3 _].
      destruct (close_scope (scope_fuel (rs_p rs2)) [] (rs_p rs2) 0) as [[p3 evs3] n3]. cbn [fst snd] in *.
      destruct (close_provider_conserves [] p3) as [Hc4 _].
      destruct (close_provider [] p3) as [[p4 evs4] n4]. cbn [fst snd] in *.
      rewrite !closed_of_app, (closed_of_events rs2 He2). cbn [app].
      apply (Hforget rs2 (closed_of evs3 ++ closed_of evs4) (tracked p4) H2).
      rewrite <- Hc3, <- Hc4. rewrite <- !app_assoc. reflexivity.
    + (* success *)
      rewrite (closed_of_events rs2 He2), app_nil_r. destruct H2 as (Hd2 & Hn2 & Hb2).
      assert (Hperm : Permutation (all_tracked (w_provs w ++ [rs_p rs2]) ++ cl) (tracked (rs_p rs2) ++ F)).
      { rewrite all_tracked_app. unfold all_tracked at 2. cbn [map concat]. rewrite app_nil_r. unfold F.
        rewrite <- app_assoc. apply Permutation_app_swap_app. }
      constructor; cbn [w_provs w_invs w_coll].
      * exact (Permutation_NoDup (Permutation_sym Hperm) Hn2).
      * apply Forall_forall. intros i Hi. rewrite Forall_forall in Hb2. apply Hb2. exact (Permutation_in _ Hperm Hi).
      * intros p Hp. apply in_app_or in Hp. destruct Hp as [Hp|[<-|[]]]; [exact (g_provs _ _ HG p Hp)|rewrite Hd2; exact Hok].
      * exact Hok.
Qed.

(* a cancellation closes scopes of every provider *)
Lemma cancel_all_conserves c ord l : forall acc ea,
  let r := fold_left (fun '(acc, ea) pv => let '(pv', eb) := cancel_prov c ord pv in (acc ++ [pv'], ea ++ eb)) l (acc, ea) in
  Permutation (closed_of (snd r) ++ all_tracked (fst r)) (closed_of ea ++ all_tracked acc ++ all_tracked l) /\
  (forall p', In p' (fst r) -> In p' acc \/ exists p, In p l /\ p_descs p' = p_descs p).
Proof.
  induction l as [|pv l IH]; intros acc ea; cbn [fold_left].
  - cbn [fst snd]. unfold all_tracked at 3. cbn [map concat]. rewrite app_nil_r. split; [reflexivity|auto].
  - destruct (cancel_prov_conserves c ord pv) as [Hc Hd]. destruct (cancel_prov c ord pv) as [pv' eb]. cbn [fst snd] in *.
    specialize (IH (acc ++ [pv']) (ea ++ eb)). cbv zeta in IH. destruct IH as [IH1 IH2].
    destruct (fold_left _ l (acc ++ [pv'], ea ++ eb)) as [provs evs]. cbn [fst snd] in *. split.
    + rewrite IH1. rewrite closed_of_app, all_tracked_app. unfold all_tracked at 2. cbn [map concat]. rewrite app_nil_r.
      change (all_tracked (pv :: l)) with (tracked pv ++ all_tracked l). rewrite <- Hc.
      rewrite <- !app_assoc. apply Permutation_app_head. apply Permutation_app_swap_app.
    + intros p' Hp'. destruct (IH2 p' Hp') as [Hin|[p [Hp He]]].
      * apply in_app_or in Hin. destruct Hin as [Hin|[<-|[]]]; [left; exact Hin|right; exists pv; split; [left; reflexivity|exact Hd]].
      * right. exists p. split; [right; exact Hp|exact He].
Qed.

(* ------------------------------------------------------------------ every operation *)
Lemma G_coll w cl c' v' : G w cl -> coll_ok c' -> G (with_coll w c' v') cl.
Proof. intros [Hn Hb Hp _] Hc. constructor; cbn [with_coll w_provs w_invs w_coll]; assumption. Qed.

Theorem step_keeps_G w o cl : op_inst_ok o -> G w cl ->
  G (fst (fst (step w o))) (cl ++ closed_of (snd (fst (step w o)))).
Proof.
  intros Ho HG.
  assert (Hnil : forall w', G w' cl -> G w' (cl ++ closed_of [])) by (intros w' H; cbn [closed_of flat_map]; rewrite app_nil_r; exact H).
  destruct o; cbn [step op_inst_ok] in *.
  - pose proof (add_service_ok (w_coll w) (w_void w) r Ho (g_coll _ _ HG)) as H.
    destruct (add_service (w_coll w) (w_void w) r) as [[c' v'] e]. cbn [fst snd] in *. apply Hnil. apply G_coll; assumption.
  - cbn [fst snd]. apply Hnil. apply G_coll; [exact HG|apply remove_service_ok; exact (g_coll _ _ HG)].
  - cbn [fst snd]. apply Hnil. apply G_coll; [exact HG|apply remove_service_ok; exact (g_coll _ _ HG)].
  - rewrite apply_modules_flat.
    pose proof (run_flat_ok (flat_map flat_entries ms) (w_coll w, w_void w) (g_coll _ _ HG)) as H.
    rewrite flat_entries_ops_list in H. specialize (H Ho).
    destruct (run_flat (w_coll w, w_void w) (flat_map flat_entries ms)) as [[c' v'] e]. cbn [fst snd] in *. apply Hnil. apply G_coll; assumption.
  - cbn [fst snd]. apply Hnil. exact HG.
  - cbn [fst snd]. apply Hnil. exact HG.
  - cbn [fst snd]. apply Hnil. exact HG.
  - cbn [fst snd]. apply Hnil. exact HG.
  - (* Build *)
    pose proof (G_build w cl ord HG) as H.
    destruct (build (w_coll w) (w_invs w) ord) as [[invs evs] [p|e]]; cbn [fst snd]; exact H.
  - apply G_create_scope. exact HG.
  - (* Resolve *)
    destruct (t =? T_NIL); [destruct (disposed_check _ _); cbn [fst snd]; apply Hnil; exact HG|].
    apply G_do_resolve; [|intros rs; apply ev_req|exact HG].
    intros rs H. apply request_lists_each_instance_once; [apply get_prov_ok; apply (g_provs _ _ HG)|exact H].
  - destruct (t =? T_NIL); [destruct (disposed_check _ _); cbn [fst snd]; apply Hnil; exact HG|].
    destruct (g =? 0); [destruct (disposed_check _ _); cbn [fst snd]; apply Hnil; exact HG|].
    apply G_do_resolve; [|intros rs; apply ev_group|exact HG].
    intros rs H. apply group_request_lists_each_instance_once; [apply get_prov_ok; apply (g_provs _ _ HG)|exact H].
  - (* a scope's Close *)
    destruct (negb (handle_ok (get_prov w p) h) || (h =? 0)); [cbn [fst snd]; apply Hnil; exact HG|].
    pose proof (close_scope_conserves (scope_fuel (get_prov w p)) ord (get_prov w p) h) as Hc.
    destruct (close_scope (scope_fuel (get_prov w p)) ord (get_prov w p) h) as [[pv' evs] n]. cbn [fst snd]. unfold set_prov.
    exact (G_after_close w cl p pv' evs n HG Hc).
  - (* the provider's Close *)
    pose proof (close_provider_conserves ord (get_prov w p)) as Hc.
    destruct (close_provider ord (get_prov w p)) as [[pv' evs] n]. cbn [fst snd]. unfold set_prov.
    exact (G_after_close w cl p pv' evs n HG Hc).
  - (* cancellation *)
    pose proof (cancel_all_conserves c ord (w_provs w) [] []) as Hc. cbv zeta in Hc.
    destruct (fold_left _ (w_provs w) ([], [])) as [provs evs]. cbn [fst snd] in *. destruct Hc as [Hp Hd].
    unfold all_tracked at 2 in Hp. cbn [map concat closed_of flat_map app] in Hp.
    destruct HG as [Hn Hb Hpr Hco].
    assert (Hperm : Permutation (all_tracked provs ++ cl ++ closed_of evs) (all_tracked (w_provs w) ++ cl)) by (rewrite <- Hp; rewrite app_assoc; rewrite <- (app_assoc (closed_of evs)); apply Permutation_app_comm).
    constructor; cbn [w_provs w_invs w_coll].
    + exact (Permutation_NoDup (Permutation_sym Hperm) Hn).
    + apply Forall_forall. intros i Hi. rewrite Forall_forall in Hb. apply Hb. exact (Permutation_in _ Hperm Hi).
    + intros p' Hp'. destruct (Hd p' Hp') as [[]|[p0 [Hp0 He]]]. rewrite He. exact (Hpr p0 Hp0).
    + exact Hco.
  - cbn [fst snd]. apply Hnil. exact HG.
  - cbn [fst snd]. apply Hnil. exact HG.
  - cbn [fst snd]. apply Hnil. exact HG.
  - cbn [fst snd]. apply Hnil. exact HG.
Qed.

Lemma G_init : G init_world [].
Proof. constructor; cbn; try constructor; intros ? []. Qed.

Definition closed_in_trace (tr : trace) : list inst := flat_map (fun s => closed_of (fst s)) tr.

Theorem G_over_histories ops : forall w cl, Forall op_inst_ok ops -> G w cl ->
  G (fst (run_from w ops)) (cl ++ closed_in_trace (snd (run_from w ops))).
Proof.
  induction ops as [|o ops IH]; intros w cl Hf HG; cbn [run_from].
  - cbn [fst snd closed_in_trace flat_map]. rewrite app_nil_r. exact HG.
  - inversion Hf as [|x l Ho Hrest]; subst.
    pose proof (step_keeps_G w o cl Ho HG) as H1.
    destruct (step w o) as [[w1 evs] r]. cbn [fst snd] in H1.
    specialize (IH w1 (cl ++ closed_of evs) Hrest H1).
    destruct (run_from w1 ops) as [w2 tr]. cbn [fst snd] in *.
    cbn [closed_in_trace flat_map fst]. fold (closed_in_trace tr). rewrite app_assoc. exact IH.
Qed.

(* C10 over every history: whatever is registered (no disposable instance values), built, resolved, closed or
   cancelled, in whatever order - no instance is closed twice *)
Theorem no_instance_is_closed_twice ops : Forall op_inst_ok ops ->
  NoDup (closed_in_trace (snd (run_from init_world ops))).
Proof.
  intros Hf. pose proof (G_over_histories ops init_world [] Hf G_init) as HG. cbn [app] in HG.
  destruct HG as [Hn _ _ _]. rewrite Permutation_app_comm in Hn. exact (nodup_app_l _ _ Hn).
Qed.
(* and what is still owned somewhere has not been closed yet *)
Theorem nothing_owned_is_already_closed ops i : Forall op_inst_ok ops ->
  In i (all_tracked (w_provs (fst (run_from init_world ops)))) -> ~ In i (closed_in_trace (snd (run_from init_world ops))).
Proof.
  intros Hf Hi Hc. pose proof (G_over_histories ops init_world [] Hf G_init) as HG. cbn [app] in HG.
  destruct HG as [Hn _ _ _]. apply in_split in Hi. destruct Hi as [l1 [l2 E]]. rewrite E in Hn.
  rewrite <- app_assoc in Hn. cbn [app] in Hn. apply NoDup_remove_2 in Hn. apply Hn.
  apply in_or_app. right. apply in_or_app. right. exact Hc.
Qed.

(* non-vacuity: a history that meets the premise and really closes something *)
Example a_history_that_closes :
  let r1 := mkReg 1 Scoped (FCtor false [] [9] false) 0 0 [] [] [9] [false] 0 in
  let r2 := mkReg 2 Singleton (FCtor false [PDep (mkDep 9 0 0 false)] [10; 3] false) 0 0 [] [] [10; 3] [false; false] 0 in
  let r3 := mkReg 3 Transient (FCtor false [] [11] false) 0 0 [] [] [11] [false] 0 in
  let ops := [OAdd r1; OAdd r3; OBuild []; OCreateScope 0 0 0; OResolve 0 1 9 0; OResolve 0 1 11 0; OResolve 0 1 11 0;
              OClose 0 1 []; OCloseProvider 0 []] in
  Forall op_inst_ok ops /\ length (closed_in_trace (snd (run_from init_world ops))) = 3.
Proof.
  cbv zeta. split.
  - repeat constructor; intros t H; discriminate.
  - vm_compute. reflexivity.
Qed.
Print Assumptions no_instance_is_closed_twice.
