(* ProofsCloses.v — C10, the other half of "exactly once": a scope's Close closes every instance the scope owns
   (and the provider's Close every singleton it owns).  With [no_instance_is_closed_twice] this is "exactly once,
   when the owner is closed". *)
From Godi Require Import Base Model ProofsRuntime ProofsClosed ProofsSingle ProofsGen ProofsFrame ProofsFrozen ProofsOnce ProofsConserve.

Lemma fold_close_frozen s f ord k : forall ks acc, frozen_at s (fst (fst acc)) k ->
  frozen_at s (fst (fst (fold_left (fun '(pa, ea, na) k0 =>
       let '(pb, eb, nb) := close_scope f ord pa k0 in (pb, ea ++ eb, if nb =? 0 then na else S na)) ks acc))) k.
Proof.
  induction ks as [|k0 ks IH]; intros [[pa ea] na] Hacc; cbn [fold_left]; [exact Hacc|].
  apply IH. pose proof (close_scope_frozen s f ord pa k0 k Hacc) as Hk. destruct (close_scope f ord pa k0) as [[pb eb] nb]. exact Hk.
Qed.

Theorem close_closes_everything_the_scope_owns fuel ord p h i :
  h < length (p_scopes p) -> sc_open (get_scope p h) = true -> In i (sc_disp (get_scope p h)) ->
  In i (closed_of (snd (fst (close_scope (S fuel) ord p h)))).
Proof.
  intros Hl Ho Hi. cbn [close_scope]. rewrite Ho. cbn [negb].
  set (p0 := upd_scope p h _).
  set (s0 := mkScope (sc_parent (get_scope p h)) (sc_ctx (get_scope p h)) (sc_cache (get_scope p h)) (sc_disp (get_scope p h)) false).
  assert (Hf0 : frozen_at s0 p0 h).
  { split; [|reflexivity]. unfold p0, get_scope, upd_scope; cbn [p_scopes]. rewrite nth_upd_nth_same by exact Hl. reflexivity. }
  pose proof (fold_close_frozen s0 fuel ord h (nodup_nat (order_by ord (open_children p0 h))) (p0, [], 0) Hf0) as Hf.
  destruct (fold_left _ _ (p0, [], 0)) as [[p1 evs1] n1]. cbn [fst] in Hf. destruct Hf as [E _].
  pose proof (closed_of_close_insts (p_descs p1) h (sc_disp (get_scope p1 h))) as Hci.
  destruct (close_insts (p_descs p1) h (sc_disp (get_scope p1 h))) as [evs2 n2]. cbn [fst snd] in *.
  rewrite closed_of_app. apply in_or_app. right. rewrite Hci, E. exact Hi.
Qed.

Theorem provider_close_closes_every_singleton_it_owns ord p i :
  p_open p = true -> In i (p_sdisp p) -> In i (closed_of (snd (fst (close_provider ord p)))).
Proof.
  intros Ho Hi. unfold close_provider. rewrite Ho. cbn [negb].
  set (p0 := mkProv _ _ _ _ false).
  assert (Hs : forall ks acc, p_sdisp (fst (fst acc)) = p_sdisp p ->
            p_sdisp (fst (fst (fold_left (fun '(pa, ea, na) k =>
                 let '(pb, eb, nb) := close_scope (scope_fuel pa) ord pa k in (pb, ea ++ eb, if nb =? 0 then na else S na)) ks acc))) = p_sdisp p).
  { induction ks as [|k ks IH]; intros [[pa ea] na] Ha; cbn [fold_left]; [exact Ha|].
    pose proof (ProofsSingle.close_scope_singles (scope_fuel pa) ord pa k) as Hk.
    destruct (close_scope (scope_fuel pa) ord pa k) as [[pb eb] nb]. cbn [fst] in *. apply IH. cbn [fst].
    unfold ProofsSingle.singles in Hk. injection Hk as _ Hk. rewrite Hk. exact Ha. }
  specialize (Hs (nodup_nat (order_by ord (open_scopes p0))) (p0, [], 0) eq_refl).
  destruct (fold_left _ _ (p0, [], 0)) as [[p1 evs1] n1]. cbn [fst] in Hs.
  pose proof (ProofsSingle.close_scope_singles (scope_fuel p1) ord p1 0) as H2.
  destruct (close_scope (scope_fuel p1) ord p1 0) as [[p2 evs2] n2]. cbn [fst] in H2.
  unfold ProofsSingle.singles in H2. injection H2 as _ H2.
  pose proof (closed_of_close_insts (p_descs p2) OWNER_PROV (p_sdisp p2)) as Hci.
  destruct (close_insts (p_descs p2) OWNER_PROV (p_sdisp p2)) as [evs3 n3]. cbn [fst snd] in *.
  rewrite !closed_of_app. apply in_or_app. right. apply in_or_app. right. rewrite Hci, H2, Hs. exact Hi.
Qed.
