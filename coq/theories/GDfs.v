From Coq Require Import List Arith Bool Lia PeanoNat.
Import ListNotations.

(* Graph: successor function (dependencies in declared order). *)
Definition graph := nat -> list nat.

Definition mem (x : nat) (l : list nat) : bool := existsb (Nat.eqb x) l.
Lemma mem_In x l : mem x l = true <-> In x l.
Proof. unfold mem. rewrite existsb_exists. split; [intros [y [Hy He]]; apply Nat.eqb_eq in He; subst; auto | intros H; exists x; split; auto; apply Nat.eqb_refl]. Qed.
Lemma mem_nIn x l : mem x l = false <-> ~ In x l.
Proof. rewrite <- mem_In. destruct (mem x l); split; congruence. Qed.

Inductive res := Cycle (n : nat) | Done (visited : list nat) | OutOfFuel.

(* Recursive DFS, children explored in the order given by [kids] (the model passes [rev (g u)]),
   skipping children already visited at that moment - exactly the explicit-stack loop's behaviour. *)
Section DFS.
  Variable g : graph.

  Fixpoint children (rec : list nat -> nat -> res) (visited : list nat) (kids : list nat) : res :=
    match kids with
    | [] => Done visited
    | v :: ks =>
        if mem v visited then children rec visited ks
        else match rec visited v with
             | Done visited' => children rec visited' ks
             | r => r
             end
    end.

  Fixpoint dfs (fuel : nat) (visiting : list nat) (visited : list nat) (u : nat) : res :=
    match fuel with
    | 0 => OutOfFuel
    | S f =>
        if mem u visiting then Cycle u
        else if mem u visited then Done visited
        else match children (dfs f (u :: visiting)) visited (rev (g u)) with
             | Done visited' => Done (u :: visited')
             | r => r
             end
    end.

  (* ---------- paths ---------- *)
  Inductive path : nat -> nat -> Prop :=
  | path_one a b : In b (g a) -> path a b
  | path_cons a b c : In b (g a) -> path b c -> path a c.
  Definition on_cycle (n : nat) := path n n.

  Lemma path_trans a b c : path a b -> path b c -> path a c.
  Proof. induction 1; intros; [eapply path_cons|eapply path_cons]; eauto. Qed.

  (* visiting = [u_k; ...; u_0] is a chain: u_0 -> u_1 -> ... -> u_k *)
  Inductive chain : list nat -> Prop :=
  | chain_nil : chain []
  | chain_one a : chain [a]
  | chain_cons a b l : In a (g b) -> chain (b :: l) -> chain (a :: b :: l).

  Lemma chain_path_to_head l : chain l -> forall h t x, l = h :: t -> In x t -> path x h.
  Proof.
    induction 1 as [| a | a b l Hab Hc IH]; intros h t x E Hin; inversion E; subst; try contradiction.
    destruct Hin as [->|Hin]; [apply path_one; exact Hab|].
    eapply path_trans; [eapply IH; [reflexivity|exact Hin]|apply path_one; exact Hab].
  Qed.

  (* ---------- soundness: a reported node lies on a real cycle ---------- *)
  Lemma dfs_sound : forall fuel visiting visited u n,
      chain (u :: visiting) \/ visiting = [] ->
      (match visiting with [] => True | p :: _ => In u (g p) end) ->
      chain visiting ->
      dfs fuel visiting visited u = Cycle n -> on_cycle n.
  Proof.
    induction fuel as [|f IH]; intros visiting visited u n _ Hedge Hch H; cbn [dfs] in H; [discriminate|].
    destruct (mem u visiting) eqn:Hm.
    - injection H as <-. apply mem_In in Hm.
      destruct visiting as [|p t]; [contradiction|].
      destruct Hm as [->|Hin].
      + apply path_one; exact Hedge.
      + unfold on_cycle. eapply path_trans; [eapply chain_path_to_head; [exact Hch|reflexivity|exact Hin]|apply path_one; exact Hedge].
    - destruct (mem u visited); [discriminate|].
      assert (Hch' : chain (u :: visiting)).
      { destruct visiting as [|p t]; [constructor|constructor; assumption]. }
      assert (Hkids : forall kids vis0, (forall v, In v kids -> In v (g u)) ->
                children (dfs f (u :: visiting)) vis0 kids = Cycle n -> on_cycle n).
      { induction kids as [|v ks IHk]; intros vis0 Hsub Hc; cbn [children] in Hc; [discriminate|].
        destruct (mem v vis0).
        - apply (IHk vis0); [intros; apply Hsub; right; assumption|exact Hc].
        - destruct (dfs f (u :: visiting) vis0 v) eqn:Hd.
          + injection Hc as <-. eapply IH; [left; constructor; [apply Hsub; left; reflexivity|exact Hch']| cbn; apply Hsub; left; reflexivity|exact Hch'|exact Hd].
          + apply (IHk visited0); [intros; apply Hsub; right; assumption|exact Hc].
          + discriminate. }
      destruct (children (dfs f (u :: visiting)) visited (rev (g u))) eqn:Hc; try discriminate.
      injection H as <-. eapply Hkids; [|exact Hc]. intros v Hv. apply in_rev. exact Hv.
  Qed.

  (* ---------- completeness: Done certifies a topologically closed visited list ---------- *)
  Inductive topo_closed : list nat -> Prop :=
  | tc_nil : topo_closed []
  | tc_cons v l : topo_closed l -> (forall w, In w (g v) -> In w l) -> topo_closed (v :: l).

  Lemma tc_closed l : topo_closed l -> forall v w, In v l -> In w (g v) -> In w l.
  Proof. induction 1 as [|v0 l Htc IH Hs]; intros v w Hv Hw; [contradiction|]. destruct Hv as [->|Hv]; right; eauto. Qed.

  Lemma tc_path l : topo_closed l -> forall a b, path a b -> In a l -> In b l.
  Proof. intros Htc a b Hp. induction Hp; intros Ha; [eapply tc_closed; eauto|apply IHHp; eapply tc_closed; eauto]. Qed.

  (* no node of a topo_closed list lies on a cycle *)
  Lemma tc_acyclic l : topo_closed l -> forall v, In v l -> ~ on_cycle v.
  Proof.
    induction 1 as [|v0 l Htc IH Hs]; intros v Hv Hcyc; [contradiction|].
    destruct Hv as [->|Hv]; [|exact (IH v Hv Hcyc)].
    (* v on a cycle: first step goes into l, and from l (closed) we can never come back to v unless v in l *)
    unfold on_cycle in Hcyc.
    assert (Hback : In v l).
    { inversion Hcyc as [a b Hab|a b c Hab Hbc]; subst.
      - exact (Hs v Hab).
      - eapply tc_path; [exact Htc|exact Hbc|exact (Hs b Hab)]. }
    exact (IH v Hback Hcyc).
  Qed.

  Lemma dfs_done : forall fuel visiting visited u visited',
      topo_closed visited ->
      dfs fuel visiting visited u = Done visited' ->
      topo_closed visited' /\ In u visited' /\ (forall x, In x visited -> In x visited').
  Proof.
    induction fuel as [|f IH]; intros visiting visited u visited' Htc H; cbn [dfs] in H; [discriminate|].
    destruct (mem u visiting); [discriminate|].
    destruct (mem u visited) eqn:Hm.
    - injection H as <-. apply mem_In in Hm. auto.
    - assert (Hkids : forall kids vis0 vis1, topo_closed vis0 ->
                children (dfs f (u :: visiting)) vis0 kids = Done vis1 ->
                topo_closed vis1 /\ (forall v, In v kids -> In v vis1) /\ (forall x, In x vis0 -> In x vis1)).
      { induction kids as [|v ks IHk]; intros vis0 vis1 Htc0 Hc; cbn [children] in Hc.
        - injection Hc as <-. repeat split; auto. intros v [].
        - destruct (mem v vis0) eqn:Hmv.
          + destruct (IHk vis0 vis1 Htc0 Hc) as (A & B & C). repeat split; auto.
            intros w [<-|Hw]; [apply C, mem_In, Hmv|auto].
          + destruct (dfs f (u :: visiting) vis0 v) eqn:Hd; try discriminate.
            destruct (IH _ _ _ _ Htc0 Hd) as (A1 & B1 & C1).
            destruct (IHk visited0 vis1 A1 Hc) as (A & B & C). repeat split; auto.
            intros w [<-|Hw]; auto. }
      destruct (children (dfs f (u :: visiting)) visited (rev (g u))) eqn:Hc; try discriminate.
      injection H as <-. destruct (Hkids _ _ _ Htc Hc) as (A & B & C).
      repeat split.
      + constructor; [exact A|]. intros w Hw. apply B, in_rev. rewrite rev_involutive. exact Hw.
      + left; reflexivity.
      + intros x Hx; right; auto.
  Qed.

  Theorem dfs_complete fuel u visited' :
    dfs fuel [] [] u = Done visited' -> forall v, In v visited' -> ~ on_cycle v.
  Proof. intros H. destruct (dfs_done _ _ _ _ _ tc_nil H) as (Htc & _ & _). apply tc_acyclic, Htc. Qed.

  Theorem dfs_complete_start fuel u visited' : dfs fuel [] [] u = Done visited' -> ~ on_cycle u.
  Proof. intros H. destruct (dfs_done _ _ _ _ _ tc_nil H) as (Htc & Hu & _). exact (tc_acyclic _ Htc _ Hu). Qed.

  Theorem dfs_sound_start fuel u n : dfs fuel [] [] u = Cycle n -> on_cycle n.
  Proof. intros H. eapply dfs_sound; [right; reflexivity|exact I|constructor|exact H]. Qed.

  (* ---------- fuel: |nodes| + 1 always suffices ---------- *)
  Variable nodes : list nat.
  Hypothesis g_closed : forall u v, In u nodes -> In v (g u) -> In v nodes.

  Lemma dfs_fuel : forall fuel visiting visited u,
      NoDup visiting -> incl visiting nodes -> In u nodes ->
      length nodes < fuel + length visiting ->
      dfs fuel visiting visited u <> OutOfFuel.
  Proof.
    induction fuel as [|f IH]; intros visiting visited u Hnd Hincl Hu Hlen.
    - exfalso. pose proof (NoDup_incl_length Hnd Hincl). cbn in Hlen. lia.
    - cbn [dfs]. destruct (mem u visiting) eqn:Hm; [discriminate|].
      destruct (mem u visited); [discriminate|].
      apply mem_nIn in Hm.
      assert (Hnd' : NoDup (u :: visiting)) by (constructor; assumption).
      assert (Hincl' : incl (u :: visiting) nodes) by (intros x [<-|Hx]; auto).
      assert (Hkids : forall kids vis0, (forall v, In v kids -> In v nodes) ->
                children (dfs f (u :: visiting)) vis0 kids <> OutOfFuel).
      { induction kids as [|v ks IHk]; intros vis0 Hsub; cbn [children]; [discriminate|].
        destruct (mem v vis0); [apply IHk; intros; apply Hsub; right; assumption|].
        destruct (dfs f (u :: visiting) vis0 v) eqn:Hd; [discriminate| |].
        - apply IHk; intros; apply Hsub; right; assumption.
        - exfalso. eapply IH; [exact Hnd'|exact Hincl'|apply Hsub; left; reflexivity| |exact Hd].
          cbn [length]. lia. }
      specialize (Hkids (rev (g u)) visited).
      destruct (children (dfs f (u :: visiting)) visited (rev (g u))); try discriminate.
      apply Hkids. intros v Hv. apply in_rev in Hv. eapply g_closed; eauto.
  Qed.

  (* whole-graph verdict, any start order (the map-iteration oracle is the list [starts]) *)
  Fixpoint detect (starts : list nat) : option nat :=
    match starts with
    | [] => None
    | u :: us => match dfs (S (length nodes)) [] [] u with
                 | Cycle n => Some n
                 | _ => detect us
                 end
    end.

  Theorem detect_sound starts n : detect starts = Some n -> on_cycle n.
  Proof.
    induction starts as [|u us IH]; cbn [detect]; [discriminate|].
    destruct (dfs (S (length nodes)) [] [] u) eqn:Hd; auto.
    intros H; injection H as <-. eapply dfs_sound_start; eauto.
  Qed.

  Theorem detect_complete starts :
    (forall u, In u starts -> In u nodes) ->
    detect starts = None -> forall u, In u starts -> ~ on_cycle u.
  Proof.
    induction starts as [|u us IH]; intros Hsub H v Hv; [contradiction|]. cbn [detect] in H.
    destruct (dfs (S (length nodes)) [] [] u) eqn:Hd; [discriminate| |].
    - destruct Hv as [<-|Hv]; [eapply dfs_complete_start; eauto|].
      apply IH; auto. intros; apply Hsub; right; assumption.
    - exfalso. eapply dfs_fuel; [constructor|intros x []|apply Hsub; left; reflexivity| |exact Hd]. cbn. lia.
  Qed.

  Lemma dfs_cycle_node : forall fuel visiting visited u n,
      incl visiting nodes -> In u nodes -> dfs fuel visiting visited u = Cycle n -> In n nodes.
  Proof.
    induction fuel as [|f IH]; intros visiting visited u n Hincl Hu H; cbn [dfs] in H; [discriminate|].
    destruct (mem u visiting) eqn:Hm.
    - injection H as <-. exact Hu.
    - destruct (mem u visited); [discriminate|].
      assert (Hincl' : incl (u :: visiting) nodes) by (intros x [<-|Hx]; auto).
      assert (Hkids : forall kids vis0, (forall v, In v kids -> In v nodes) ->
                children (dfs f (u :: visiting)) vis0 kids = Cycle n -> In n nodes).
      { induction kids as [|v ks IHk]; intros vis0 Hsub Hc; cbn [children] in Hc; [discriminate|].
        destruct (mem v vis0); [apply (IHk vis0); [intros; apply Hsub; right; assumption|exact Hc]|].
        destruct (dfs f (u :: visiting) vis0 v) eqn:Hd.
        - injection Hc as <-. eapply IH; [exact Hincl'|apply Hsub; left; reflexivity|exact Hd].
        - apply (IHk visited0); [intros; apply Hsub; right; assumption|exact Hc].
        - discriminate. }
      destruct (children (dfs f (u :: visiting)) visited (rev (g u))) eqn:Hc; try discriminate.
      injection H as <-. eapply Hkids; [|exact Hc].
      intros v Hv. apply in_rev in Hv. eapply g_closed; eauto.
  Qed.

  Lemma detect_node starts n : (forall u, In u starts -> In u nodes) -> detect starts = Some n -> In n nodes.
  Proof.
    induction starts as [|u us IH]; intros Hsub; cbn [detect]; [discriminate|].
    destruct (dfs (S (length nodes)) [] [] u) eqn:Hd.
    - intros H; injection H as <-. apply (dfs_cycle_node (S (length nodes)) [] [] u n0); [intros x Hx; destruct Hx|apply Hsub; left; reflexivity|exact Hd].
    - apply IH; intros; apply Hsub; right; assumption.
    - apply IH; intros; apply Hsub; right; assumption.
  Qed.

  (* exactness for every start order that enumerates the nodes (the map-iteration oracle) *)
  Corollary detect_exact starts :
    (forall u, In u starts <-> In u nodes) ->
    (detect starts = None <-> forall u, In u nodes -> ~ on_cycle u).
  Proof.
    intros Hperm; split.
    - intros H u Hu. apply (detect_complete starts); [intros x Hx; apply Hperm, Hx|exact H|apply Hperm, Hu].
    - intros Hac. destruct (detect starts) as [n|] eqn:Hd; [|reflexivity].
      exfalso. apply (Hac n).
      + apply (detect_node starts); [intros x Hx; apply Hperm, Hx|exact Hd].
      + exact (detect_sound _ _ Hd).
  Qed.
End DFS.

Print Assumptions dfs_complete_start.
Print Assumptions dfs_sound_start.
Print Assumptions detect_exact.
