(* ProofsRuntime.v — theorems about resolution and disposal in the model.
   The workhorse is [resolve_preserves]: a property of the provider state that the five
   primitives preserve is preserved by the whole fuelled resolution, whatever the
   registrations are.  Invariants are then proved on the primitives only. *)
From Godi Require Import Base Model Check.

(* ------------------------------------------------------------------ list helpers *)
Lemma upd_nth_length {A} (l : list A) n f : length (upd_nth l n f) = length l.
Proof. revert n; induction l as [|x l IH]; intros [|n]; cbn; auto. Qed.

Lemma nth_upd_nth_same {A} (l : list A) n f d : n < length l -> nth n (upd_nth l n f) d = f (nth n l d).
Proof. revert n; induction l as [|x l IH]; intros [|n] H; cbn in *; try lia; auto. apply IH. lia. Qed.

Lemma nth_upd_nth_other {A} (l : list A) n m f d : n <> m -> nth m (upd_nth l n f) d = nth m l d.
Proof. revert n m; induction l as [|x l IH]; intros [|n] [|m] H; cbn; auto; try congruence. Qed.

Lemma nth_upd_nth_oob {A} (l : list A) n f : length l <= n -> upd_nth l n f = l.
Proof. revert n; induction l as [|x l IH]; intros [|n] H; cbn in *; auto; try lia. f_equal. apply IH. lia. Qed.

(* ------------------------------------------------------------------ the generic preservation lemma *)
Section Preserve.
  Variable P : prov -> Prop.
  Hypothesis P_cache : forall p h n i, P p -> P (cache_set p h n i).
  Hypothesis P_track : forall p h i, P p -> P (track_scope p h i).
  Hypothesis P_single : forall p n i, P p -> P (single_set p n i).
  Hypothesis P_tsingle : forall p i, P p -> P (track_single p i).

  Lemma P_store life p h n i : P p -> P (store life p h n i).
  Proof. intros H. unfold store. destruct life; auto. Qed.
  Lemma P_share life p h n i : P p -> P (share life p h n i).
  Proof. intros H. unfold share. destruct life; auto. Qed.
  Lemma P_set_instance p h d i : P p -> P (set_instance p h d i).
  Proof. apply P_store. Qed.
  Lemma P_share_instance p h d i : P p -> P (share_instance p h d i).
  Proof. apply P_share. Qed.
  Lemma P_share_all life l : forall p h i, P p -> P (fold_left (fun p a => share life p h (ds_ident a) i) l p).
  Proof. induction l as [|a l IH]; intros p h i H; cbn [fold_left]; auto using P_share. Qed.
  Lemma P_fan_out ks : forall p h d inv, P p -> P (fan_out p h d inv ks).
  Proof.
    induction ks as [|k rest IH]; intros p h d inv H; cbn [fan_out]; [exact H|].
    destruct (output_desc (p_descs p) d k); [destruct (out_is_nil (ds_reg d) k && life_eqb (ds_life d) Singleton); apply IH; [exact H|apply P_store; exact H]|].
    apply IH. unfold drop_output. destruct (ds_life d); auto.
  Qed.

  Lemma P_drop_only ks : forall p h d inv, P p -> P (drop_only p h d inv ks).
  Proof.
    induction ks as [|k rest IH]; intros p h d inv H; cbn [drop_only]; [exact H|].
    destruct (output_desc (p_descs p) d k); [apply IH; exact H|].
    apply IH. unfold drop_output. destruct (ds_life d); auto.
  Qed.

  Definition Prs (rs : rstate) : Prop := P (rs_p rs).

  Section WithRec.
    Variable recd : rstate -> nat -> desc -> rstate * rres.
    Hypothesis recd_P : forall rs h d, Prs rs -> Prs (fst (recd rs h d)).

    Lemma req_P rs h t k : Prs rs -> Prs (fst (req recd rs h t k)).
    Proof.
      intros H. unfold req.
      destruct k; try (destruct (find_service (p_descs (rs_p rs)) t _); [apply recd_P|]; exact H).
      destruct (builtin h t); [exact H|]. destruct (find_service (p_descs (rs_p rs)) t KNone); [apply recd_P|]; exact H.
    Qed.

    Lemma group_loop_P ms : forall rs h acc, Prs rs -> Prs (fst (group_loop recd rs h ms acc)).
    Proof.
      induction ms as [|m ms IH]; intros rs h acc H; cbn [group_loop]; [exact H|].
      pose proof (recd_P rs h m H) as H1.
      destruct (recd rs h m) as [rs1 [a|e|]]; cbn [fst] in *; try exact H1.
      destruct a; try exact H1; apply IH; exact H1.
    Qed.

    Lemma dep_value_P rs h d : Prs rs -> Prs (fst (dep_value recd rs h d)).
    Proof.
      intros H. unfold dep_value. destruct (d_group d =? 0); [apply req_P; exact H|].
      unfold group_value. apply group_loop_P. exact H.
    Qed.

    Lemma args_loop_P ps : forall rs h inobj acc, Prs rs -> Prs (fst (args_loop recd rs h inobj ps acc)).
    Proof.
      induction ps as [|[d|] ps IH]; intros rs h inobj acc H; cbn [args_loop]; [exact H| |apply IH; exact H].
      pose proof (dep_value_P rs h d H) as H1.
      destruct (dep_value recd rs h d) as [rs1 [a|e|]]; cbn [fst] in *.
      - apply IH; exact H1.
      - destruct (inobj && d_opt d); [apply IH|]; exact H1.
      - exact H1.
    Qed.

    Lemma create_P rs h d : Prs rs -> Prs (fst (create recd rs h d)).
    Proof.
      intros H. unfold create.
      destruct (r_form (ds_reg d)) as [t|io0 ps1 rets er|io0 ps1 fs er] eqn:Hf.
      - cbn [fst]. unfold Prs, with_p; cbn [rs_p]. apply P_share_all. apply P_set_instance. exact H.
      - destruct (reg_params (ds_reg d)) as [inobj ps0].
        pose proof (args_loop_P ps0 rs h inobj [] H) as H1.
        destruct (args_loop recd rs h inobj ps0 []) as [rs1 [args|e]]; cbn [fst] in *; [|exact H1].
        destruct (cancels (ds_reg d) (get_inv (rs_invs rs1) (r_id (ds_reg d))));
        (destruct (effective_outcome (ds_reg d) (get_inv (rs_invs rs1) (r_id (ds_reg d)))); cbn [fst]; try exact H1;
        destruct rets as [|t0 [|t1 ts]]; cbn [fst]; unfold Prs, with_p, log; cbn [rs_p];
        [ apply P_set_instance; exact H1
        | apply P_share_all; apply P_set_instance; exact H1
        | apply P_fan_out; exact H1 ]).
      - destruct (reg_params (ds_reg d)) as [inobj ps0].
        pose proof (args_loop_P ps0 rs h inobj [] H) as H1.
        destruct (args_loop recd rs h inobj ps0 []) as [rs1 [args|e]]; cbn [fst] in *; [|exact H1].
        destruct (cancels (ds_reg d) (get_inv (rs_invs rs1) (r_id (ds_reg d))));
        (destruct (effective_outcome (ds_reg d) (get_inv (rs_invs rs1) (r_id (ds_reg d)))); cbn [fst]; try exact H1;
        match goal with |- context [stores_any ?a ?b ?c] => destruct (stores_any a b c) end; cbn [fst];
        unfold Prs, with_p, log; cbn [rs_p];
        [apply P_fan_out|apply P_drop_only]; exact H1).
    Qed.
  End WithRec.

  Theorem resolve_preserves : forall fuel rs h d, Prs rs -> Prs (fst (resolve_d fuel rs h d)).
  Proof.
    induction fuel as [|f IH]; intros rs h d H; cbn [resolve_d]; [exact H|].
    destruct (ds_life d).
    - destruct (lookup_i (p_single (rs_p rs)) (ds_ident d)); exact H.
    - destruct (lookup_i (sc_cache (get_scope (rs_p rs) h)) (ds_ident d)); [exact H|].
      apply create_P; [exact IH|exact H].
    - apply create_P; [exact IH|exact H].
  Qed.

  Corollary resolve_req_preserves rs h t k : Prs rs -> Prs (fst (resolve_req rs h t k)).
  Proof. intros H. unfold resolve_req. apply req_P; auto using resolve_preserves. Qed.
  Corollary resolve_group_preserves rs h t g : Prs rs -> Prs (fst (resolve_group rs h t g)).
  Proof. intros H. unfold resolve_group, group_value. apply group_loop_P; auto using resolve_preserves. Qed.
  Corollary create_top_preserves rs h d : Prs rs -> Prs (fst (create_top rs h d)).
  Proof. intros H. unfold create_top. apply create_P; auto using resolve_preserves. Qed.
  Lemma run_inits_preserves ds : forall rs h, Prs rs -> Prs (fst (run_inits rs h ds)).
  Proof.
    induction ds as [|d ds IH]; intros rs h H; cbn [run_inits]; [exact H|].
    destruct (lookup_i (sc_cache (get_scope (rs_p rs) h)) (ds_ident d)); [apply IH; exact H|].
    pose proof (create_top_preserves rs h d H) as H1.
    destruct (create_top rs h d) as [rs1 [a|e|]]; cbn [fst] in *; [apply IH| |]; exact H1.
  Qed.
  Lemma create_singletons_preserves ds : forall rs att, Prs rs -> Prs (fst (fst (create_singletons rs att ds))).
  Proof.
    induction ds as [|d ds IH]; intros rs att H; cbn [create_singletons]; [exact H|].
    destruct (singleton_pending (rs_p rs) d && negb (attempted att d)); [|apply IH; exact H].
    destruct (build_cancelled rs); [exact H|].
    pose proof (create_top_preserves rs 0 d H) as H1.
    destruct (create_top rs 0 d) as [rs1 [a|e|]]; cbn [fst] in *; [apply IH| |]; exact H1.
  Qed.
End Preserve.

(* ------------------------------------------------------------------ C01: resolving a singleton is a pure table read *)
Theorem resolve_singleton_pure fuel rs h d :
  ds_life d = Singleton ->
  resolve_d (S fuel) rs h d =
  (rs, match lookup_i (p_single (rs_p rs)) (ds_ident d) with
       | Some i => ROkV (aval_of i)
       | None => RFail ESingletonNotInit
       end).
Proof. intros H. cbn [resolve_d]. rewrite H. destruct (lookup_i _ _); reflexivity. Qed.

(* the answer does not depend on the scope: every scope of a provider sees the same singleton *)
Corollary singleton_same_in_every_scope fuel rs h1 h2 d :
  ds_life d = Singleton -> snd (resolve_d (S fuel) rs h1 d) = snd (resolve_d (S fuel) rs h2 d).
Proof. intros H. rewrite !resolve_singleton_pure by exact H. reflexivity. Qed.

(* ------------------------------------------------------------------ C02: a cached scoped instance is what every later resolution in that scope returns *)
Theorem resolve_scoped_cached fuel rs h d i :
  ds_life d = Scoped -> lookup_i (sc_cache (get_scope (rs_p rs) h)) (ds_ident d) = Some i ->
  resolve_d (S fuel) rs h d = (rs, ROkV (aval_of i)).
Proof. intros H Hc. cbn [resolve_d]. rewrite H, Hc. reflexivity. Qed.

(* ------------------------------------------------------------------ scopes: structure preserved by resolution *)
Definition scopes_shape (p : prov) : list (nat * nat * bool) :=
  map (fun s => (sc_parent s, sc_ctx s, sc_open s)) (p_scopes p).

Lemma upd_nth_map_inv {A B} (g : A -> B) (f : A -> A) l n :
  (forall x, g (f x) = g x) -> map g (upd_nth l n f) = map g l.
Proof. intros H. revert n; induction l as [|x l IH]; intros [|n]; cbn; auto; congruence. Qed.

Lemma shape_cache_set p h n i : scopes_shape (cache_set p h n i) = scopes_shape p.
Proof. unfold scopes_shape, cache_set, upd_scope; cbn [p_scopes]. apply upd_nth_map_inv. reflexivity. Qed.
Lemma shape_track_scope p h i : scopes_shape (track_scope p h i) = scopes_shape p.
Proof.
  unfold track_scope. destruct (inst_disposable i); [|reflexivity].
  unfold scopes_shape, upd_scope; cbn [p_scopes]. apply upd_nth_map_inv. reflexivity.
Qed.
Lemma shape_single_set p n i : scopes_shape (single_set p n i) = scopes_shape p.
Proof. reflexivity. Qed.
Lemma shape_track_single p i : scopes_shape (track_single p i) = scopes_shape p.
Proof. unfold track_single. destruct (inst_disposable i); reflexivity. Qed.

(* resolution never opens, closes, creates or re-parents a scope, and never touches the open flag of the provider *)
Theorem resolve_keeps_shape fuel rs h d sh :
  scopes_shape (rs_p rs) = sh -> scopes_shape (rs_p (fst (resolve_d fuel rs h d))) = sh.
Proof.
  apply (resolve_preserves (fun p => scopes_shape p = sh)); intros.
  - rewrite shape_cache_set; assumption.
  - rewrite shape_track_scope; assumption.
  - rewrite shape_single_set; assumption.
  - rewrite shape_track_single; assumption.
Qed.

Lemma p_open_prims :
  (forall p h n i, p_open (cache_set p h n i) = p_open p) /\
  (forall p h i, p_open (track_scope p h i) = p_open p) /\
  (forall p n i, p_open (single_set p n i) = p_open p) /\
  (forall p i, p_open (track_single p i) = p_open p).
Proof.
  repeat split; intros; try reflexivity.
  - unfold track_scope. destruct (inst_disposable i); reflexivity.
  - unfold track_single. destruct (inst_disposable i); reflexivity.
Qed.

(* ------------------------------------------------------------------ C12: Close is idempotent *)
Theorem close_scope_idempotent fuel ord p h :
  sc_open (get_scope p h) = false -> close_scope fuel ord p h = (p, [], 0).
Proof. intros H. destruct fuel; cbn [close_scope]; [reflexivity|]. rewrite H. reflexivity. Qed.

Theorem close_provider_idempotent ord p :
  p_open p = false -> close_provider ord p = (p, [], 0).
Proof. intros H. unfold close_provider. rewrite H. reflexivity. Qed.

(* a closed scope (or provider) refuses every later use, leaving the world untouched *)
Theorem closed_scope_refuses w pi h t n :
  h <> 0 -> handle_ok (get_prov w pi) h = true -> sc_open (get_scope (get_prov w pi) h) = false -> t <> T_NIL ->
  step w (OResolve pi h t n) = (w, [], RErr EScopeDisposed []).
Proof.
  intros Hh Hok Hc Ht. cbn [step]. destruct (t =? T_NIL) eqn:E; [apply Nat.eqb_eq in E; contradiction|].
  unfold do_resolve. rewrite Hok. cbn [negb]. unfold disposed_check.
  destruct (h =? 0) eqn:E0; [apply Nat.eqb_eq in E0; contradiction|]. rewrite Hc. reflexivity.
Qed.

Theorem closed_provider_refuses w pi t n :
  handle_ok (get_prov w pi) 0 = true -> p_open (get_prov w pi) = false -> t <> T_NIL ->
  step w (OResolve pi 0 t n) = (w, [], RErr EProviderDisposed []).
Proof.
  intros Hok Hc Ht. cbn [step]. destruct (t =? T_NIL) eqn:E; [apply Nat.eqb_eq in E; contradiction|].
  unfold do_resolve. rewrite Hok. cbn [negb]. unfold disposed_check. cbn [Nat.eqb]. rewrite Hc. reflexivity.
Qed.

Theorem closed_scope_refuses_children w pi h ctx :
  h <> 0 -> handle_ok (get_prov w pi) h = true -> sc_open (get_scope (get_prov w pi) h) = false ->
  step w (OCreateScope pi h ctx) = (w, [], RErr EScopeDisposed []).
Proof.
  intros Hh Hok Hc. cbn [step]. unfold create_scope. rewrite Hok. cbn [negb].
  destruct (h =? 0) eqn:E0; [apply Nat.eqb_eq in E0; contradiction|]. cbn [andb negb]. rewrite Hc. reflexivity.
Qed.

(* ------------------------------------------------------------------ C10 / C11: what a Close emits *)
Definition closed_inst (e : event) : option inst := match e with EvClosed i _ _ => Some i | _ => None end.

(* closing a list of disposables closes each exactly once, in list order (newest first = reverse creation) *)
Theorem close_insts_exact c own l :
  map closed_inst (fst (close_insts c own l)) = map Some l.
Proof.
  induction l as [|i l IH]; cbn [close_insts]; [reflexivity|].
  destruct (close_insts c own l) as [evs n]. cbn [fst map closed_inst] in *. rewrite IH. reflexivity.
Qed.

(* the number of errors reported equals the number of failing Close calls: none is dropped, none invented *)
Theorem close_insts_errors c own l :
  snd (close_insts c own l) = length (filter (fun e => match e with EvClosed _ ok _ => negb ok | _ => false end) (fst (close_insts c own l))).
Proof.
  induction l as [|i l IH]; cbn [close_insts]; [reflexivity|].
  destruct (close_insts c own l) as [evs n]. cbn [fst snd] in *.
  destruct (close_fails c i); cbn [negb filter length]; rewrite IH; reflexivity.
Qed.

(* ------------------------------------------------------------------ C03: a transient is constructed at every request *)
Theorem resolve_transient_constructs fuel rs h d :
  ds_life d = Transient -> resolve_d (S fuel) rs h d = create (resolve_d fuel) rs h d.
Proof. intros H. cbn [resolve_d]. rewrite H. reflexivity. Qed.

(* ------------------------------------------------------------------ C18: built-ins are answered by the scope itself *)
Theorem builtin_ctx recd rs h : req recd rs h T_CTX KNone = (rs, ROkV (ACtx h)).
Proof. reflexivity. Qed.
Theorem builtin_scope recd rs h : req recd rs h T_SCOPE KNone = (rs, ROkV (AScope h)).
Proof. reflexivity. Qed.
Theorem builtin_prov recd rs h : req recd rs h T_PROV KNone = (rs, ROkV AProv).
Proof. reflexivity. Qed.

(* ------------------------------------------------------------------ C07 / C08 / C05: what Build rejects *)
Theorem build_rejects_cycle c invs ord : has_cycle c = true -> build c invs ord = (invs, [], inr ECircular).
Proof. intros H. unfold build. rewrite H. reflexivity. Qed.
Theorem build_rejects_captive c invs ord :
  has_cycle c = false -> lifetime_conflict c = true -> build c invs ord = (invs, [], inr ELifetime).
Proof. intros H1 H2. unfold build. rewrite H1, H2. reflexivity. Qed.
Theorem build_rejects_missing c invs ord :
  has_cycle c = false -> lifetime_conflict c = false -> missing_required c = true ->
  build c invs ord = (invs, [], inr ENotFound).
Proof. intros H1 H2 H3. unfold build. rewrite H1, H2, H3. reflexivity. Qed.
(* and conversely: those three verdicts come from nowhere else *)
Theorem build_circular_only_if c invs ord invs' evs :
  build c invs ord = (invs', evs, inr ECircular) -> has_cycle c = true \/
  (has_cycle c = false /\ lifetime_conflict c = false /\ missing_required c = false).
Proof.
  unfold build. destruct (has_cycle c); [auto|]. destruct (lifetime_conflict c); [discriminate|].
  destruct (missing_required c); [discriminate|]. auto.
Qed.

(* ------------------------------------------------------------------ C15: a failing constructor is reported as its own failure *)
Theorem create_reports_own_failure recd rs h d io ps rets er rs1 args :
  r_form (ds_reg d) = FCtor io ps rets er ->
  args_loop recd rs h io ps [] = (rs1, inl args) ->
  let inv := get_inv (rs_invs rs1) (r_id (ds_reg d)) in
  match effective_outcome (ds_reg d) inv with
  | OErr => snd (create recd rs h d) = RFail (ECtorErr (r_id (ds_reg d)))
  | OPanic => snd (create recd rs h d) = RFail (ECtorPanic (r_id (ds_reg d)))
  | ONil => snd (create recd rs h d) = RFail EValidation
  | OOk | OCancelBuild => True
  end.
Proof.
  intros Hf Ha inv. unfold create. rewrite Hf. unfold reg_params. rewrite Hf. rewrite Ha.
  fold inv. destruct (cancels (ds_reg d) inv); destruct (effective_outcome (ds_reg d) inv); cbn [snd]; auto.
Qed.

(* a failed construction caches nothing: the provider state is what the argument loop left *)
Theorem create_failure_caches_nothing recd rs h d io ps rets er rs1 args :
  r_form (ds_reg d) = FCtor io ps rets er ->
  args_loop recd rs h io ps [] = (rs1, inl args) ->
  effective_outcome (ds_reg d) (get_inv (rs_invs rs1) (r_id (ds_reg d))) <> OOk ->
  rs_p (fst (create recd rs h d)) = rs_p rs1.
Proof.
  intros Hf Ha Ho. unfold create. rewrite Hf. unfold reg_params. rewrite Hf. rewrite Ha.
  destruct (cancels (ds_reg d) _); destruct (effective_outcome (ds_reg d) _); try reflexivity; contradiction.
Qed.

(* ------------------------------------------------------------------ C14 / C13: what Close leaves behind *)
Lemma upd_scope_len p h f : length (p_scopes (upd_scope p h f)) = length (p_scopes p).
Proof. unfold upd_scope; cbn [p_scopes]. apply upd_nth_length. Qed.

Lemma close_scope_len : forall fuel ord p h,
  length (p_scopes (fst (fst (close_scope fuel ord p h)))) = length (p_scopes p).
Proof.
  induction fuel as [|f IH]; intros ord p h; cbn [close_scope]; [reflexivity|].
  destruct (negb (sc_open (get_scope p h))); [reflexivity|].
  set (p0 := upd_scope p h _).
  assert (Hfold : forall ks acc, length (p_scopes (fst (fst acc))) = length (p_scopes p) ->
            length (p_scopes (fst (fst (fold_left (fun '(pa, ea, na) k =>
                     let '(pb, eb, nb) := close_scope f ord pa k in (pb, ea ++ eb, if nb =? 0 then na else S na)) ks acc)))) = length (p_scopes p)).
  { induction ks as [|k ks IHk]; intros [[pa ea] na] Hacc; cbn [fold_left]; [exact Hacc|].
    apply IHk. pose proof (IH ord pa k) as Hk. destruct (close_scope f ord pa k) as [[pb eb] nb]. cbn [fst] in *. congruence. }
  specialize (Hfold (nodup_nat (order_by ord (open_children p0 h))) (p0, [], 0)).
  destruct (fold_left _ _ (p0, [], 0)) as [[p1 evs1] n1]. cbn [fst] in Hfold.
  destruct (close_insts (p_descs p1) h (sc_disp (get_scope p1 h))) as [evs2 n2]. cbn [fst].
  rewrite upd_scope_len. apply Hfold. unfold p0. apply upd_scope_len.
Qed.

(* after Close a scope holds nothing: no cached instance, no disposable, and it is marked closed *)
Theorem close_scope_releases fuel ord p h :
  h < length (p_scopes p) -> sc_open (get_scope p h) = true ->
  let s' := get_scope (fst (fst (close_scope (S fuel) ord p h))) h in
  sc_cache s' = [] /\ sc_disp s' = [] /\ sc_open s' = false.
Proof.
  intros Hh Hopen. cbn [close_scope]. rewrite Hopen. cbn [negb].
  set (p0 := upd_scope p h _).
  pose proof (close_scope_len) as Hlen.
  assert (Hfold : forall ks acc, length (p_scopes (fst (fst acc))) = length (p_scopes p) ->
            length (p_scopes (fst (fst (fold_left (fun '(pa, ea, na) k =>
                     let '(pb, eb, nb) := close_scope fuel ord pa k in (pb, ea ++ eb, if nb =? 0 then na else S na)) ks acc)))) = length (p_scopes p)).
  { induction ks as [|k ks IHk]; intros [[pa ea] na] Hacc; cbn [fold_left]; [exact Hacc|].
    apply IHk. pose proof (Hlen fuel ord pa k) as Hk. destruct (close_scope fuel ord pa k) as [[pb eb] nb]. cbn [fst] in *. congruence. }
  specialize (Hfold (nodup_nat (order_by ord (open_children p0 h))) (p0, [], 0)).
  destruct (fold_left _ _ (p0, [], 0)) as [[p1 evs1] n1]. cbn [fst] in Hfold.
  destruct (close_insts (p_descs p1) h (sc_disp (get_scope p1 h))) as [evs2 n2]. cbn [fst].
  assert (Hl1 : length (p_scopes p1) = length (p_scopes p)) by (apply Hfold; unfold p0; apply upd_scope_len).
  unfold get_scope, upd_scope; cbn [p_scopes]. rewrite nth_upd_nth_same by lia. cbn. auto.
Qed.

(* resolution and initializers never change the number of scopes *)
Lemma run_inits_len ds rs h : length (p_scopes (rs_p (fst (run_inits rs h ds)))) = length (p_scopes (rs_p rs)).
Proof.
  apply (run_inits_preserves (fun p => length (p_scopes p) = length (p_scopes (rs_p rs)))); try reflexivity;
    intros; unfold cache_set, track_scope, single_set, track_single;
    try destruct (inst_disposable i); cbn [p_scopes upd_scope]; rewrite ?upd_nth_length; assumption.
Qed.

(* a scope whose creation fails is forgotten: the provider's scope table is as long as before *)
Theorem failed_create_scope_leaves_no_scope w pi parent ctx w' evs c mods :
  pi < length (w_provs w) ->
  create_scope w pi parent ctx = (w', evs, RErr c mods) ->
  length (p_scopes (get_prov w' pi)) = length (p_scopes (get_prov w pi)).
Proof.
  intros Hpi. unfold create_scope.
  destruct (negb (handle_ok (get_prov w pi) parent)); [intros H; inversion H; reflexivity|].
  destruct ((parent =? 0) && negb (p_open (get_prov w pi))); [intros H; inversion H; reflexivity|].
  destruct (negb (parent =? 0) && negb (sc_open (get_scope (get_prov w pi) parent))); [intros H; inversion H; reflexivity|].
  match goal with |- context [run_inits ?a ?b ?c] => pose proof (run_inits_len c a b) as Hri; destruct (run_inits a b c) as [rs [r|]] end;
    [|intros H; inversion H].
  cbn [fst rs_p p_scopes] in Hri. rewrite app_length in Hri. cbn [length] in Hri.
  pose proof (close_scope_len (scope_fuel (rs_p rs)) [] (rs_p rs) (length (p_scopes (get_prov w pi)))) as Hl.
  destruct (close_scope _ _ _ _) as [[p2 evs2] n2]. cbn [fst] in Hl.
  intros H; inversion H; subst.
  unfold get_prov at 1; cbn [w_provs]. rewrite nth_upd_nth_same by exact Hpi. cbn [p_scopes].
  rewrite firstn_length. fold (get_prov w pi). lia.
Qed.
