(* ProofsWf.v — the well-formedness that the termination theorem assumes is an invariant of the registry:
   it holds after every history. *)
From Godi Require Import Base Model Check ProofsRegistry ProofsTerm.

(* (addService itself rejects a result-object field that carries both a name and a group; nothing is asked of the
   registrations any more, the predicate is kept for the shape of the statements) *)
Definition reg_ok (r : reg) : bool := true.
Lemma reg_ok_true r : reg_ok r = true. Proof. reflexivity. Qed.
Global Opaque reg_ok.

Definition member_bound (c : coll) (d : desc) : Prop :=
  in_services d = false -> exists i, ds_key d = KIdx i /\ i <= length (group_members c (ds_ty d) (ds_grp d)).
Definition J (c : coll) : Prop :=
  NoDup (map ds_ident c) /\
  (forall d, In d c -> in_services d = true -> ds_grp d = 0) /\
  (forall d, In d c -> in_services d = false -> ds_grp d <> 0) /\
  (forall d, In d c -> reg_ok (ds_reg d) = true) /\
  (forall d, In d c -> member_bound c d).

(* what addService hands to registerDescriptor *)
Definition pre_ok (d : desc) : Prop :=
  in_services d = true /\ (ds_key d <> KNone -> ds_grp d = 0) /\ reg_ok (ds_reg d) = true.

Lemma group_members_app c1 c2 t g : group_members (c1 ++ c2) t g = group_members c1 t g ++ group_members c2 t g.
Proof. apply filter_app. Qed.

Lemma in_services_find_none c t k d0 :
  find_service c t k = None -> In d0 c -> in_services d0 = true -> ds_ty d0 = t -> ds_key d0 = k -> False.
Proof.
  intros Hf Hin Hs Ht Hk. apply (find_service_none c t k Hf).
  apply in_map_iff. exists d0. split; [unfold skey; rewrite Ht, Hk; reflexivity|]. apply filter_In. auto.
Qed.

Lemma J_nil : J [].
Proof. repeat split; try (intros d []). constructor. Qed.

Lemma NoDup_map_app_one {A B} (f : A -> B) l x : NoDup (map f l) -> ~ In (f x) (map f l) -> NoDup (map f (l ++ [x])).
Proof.
  intros Hn Hx. rewrite map_app. cbn [map]. apply NoDup_app_intro; [exact Hn|constructor; [intros []|constructor]|].
  intros y Hy [<-|[]]. exact (Hx Hy).
Qed.

Lemma register_J c d c' : J c -> pre_ok d -> register c d = inl c' -> J c'.
Proof.
  intros (Hnd & Ha & Hb & Hc & Hbound) (Hs & Hkg & Hok). unfold register.
  destruct (is_reserved (ds_ty d)); [discriminate|].
  (* the (type,key) table branch *)
  assert (Hsvc : match find_service c (ds_ty d) (ds_key d) with Some _ => inr EAlready | None => inl (c ++ [d]) end = inl c' ->
                 ds_grp d = 0 -> J c').
  { destruct (find_service c (ds_ty d) (ds_key d)) eqn:Hf; [discriminate|]. intros E Hg0; inversion E; subst. split; [|split; [|split; [|split]]].
    - apply NoDup_map_app_one; [exact Hnd|]. intros Hin. apply in_map_iff in Hin. destruct Hin as [d0 [He Hd0]].
      unfold ds_ident in He.
      assert (Ht : ds_ty d0 = ds_ty d) by congruence. assert (Hk : ds_key d0 = ds_key d) by congruence.
      apply (in_services_find_none c (ds_ty d) (ds_key d) d0 Hf Hd0); [|exact Ht|exact Hk].
      unfold in_services in Hs |- *. rewrite <- Hk in Hs. exact Hs.
    - intros x Hx Hsx. apply in_app_or in Hx. destruct Hx as [Hx|[<-|[]]]; [apply Ha; assumption|exact Hg0].
    - intros x Hx Hsx. apply in_app_or in Hx. destruct Hx as [Hx|[<-|[]]]; [apply Hb; assumption|congruence].
    - intros x Hx. apply in_app_or in Hx. destruct Hx as [Hx|[<-|[]]]; [apply Hc; assumption|exact Hok].
    - intros x Hx Hsx. apply in_app_or in Hx. destruct Hx as [Hx|[<-|[]]]; [|congruence].
      destruct (Hbound x Hx Hsx) as [i [Hi Hle]]. exists i. split; [exact Hi|].
      rewrite group_members_app, app_length. lia. }
  destruct (ds_key d) eqn:Hk.
  - destruct (ds_grp d =? 0) eqn:Hg.
    + intros E. apply Hsvc; [exact E|apply Nat.eqb_eq; exact Hg].
    + (* a new group member, numbered after the existing ones *)
      apply Nat.eqb_neq in Hg. intros E; inversion E; subst. clear E.
      set (n := length (group_members c (ds_ty d) (ds_grp d))).
      set (m := mkDesc (ds_ty d) (KIdx (S n)) (ds_grp d) (ds_reg d) (ds_out d) (ds_call d)).
      split; [|split; [|split; [|split]]].
      * apply NoDup_map_app_one; [exact Hnd|]. intros Hin. apply in_map_iff in Hin. destruct Hin as [d0 [He Hd0]].
        unfold ds_ident, m in He; cbn in He.
        assert (Ht : ds_ty d0 = ds_ty d) by congruence. assert (Hk0 : ds_key d0 = KIdx (S n)) by congruence.
        assert (Hg0 : ds_grp d0 = ds_grp d) by congruence.
        assert (Hs0 : in_services d0 = false) by (unfold in_services; rewrite Hk0; reflexivity).
        destruct (Hbound d0 Hd0 Hs0) as [i [Hi Hle]]. rewrite Hk0 in Hi. inversion Hi; subst i. rewrite Ht, Hg0 in Hle. unfold n in Hle. lia.
      * intros x Hx Hsx. apply in_app_or in Hx. destruct Hx as [Hx|[<-|[]]]; [apply Ha; assumption|discriminate].
      * intros x Hx Hsx. apply in_app_or in Hx. destruct Hx as [Hx|[<-|[]]]; [apply Hb; assumption|exact Hg].
      * intros x Hx. apply in_app_or in Hx. destruct Hx as [Hx|[<-|[]]]; [apply Hc; assumption|exact Hok].
      * intros x Hx Hsx. apply in_app_or in Hx. destruct Hx as [Hx|[<-|[]]].
        -- destruct (Hbound x Hx Hsx) as [i [Hi Hle]]. exists i. split; [exact Hi|]. rewrite group_members_app, app_length. lia.
        -- exists (S n). split; [reflexivity|]. cbn [ds_ty ds_grp m]. rewrite group_members_app, app_length.
           unfold group_members at 2. cbn [filter in_services ds_key ds_ty ds_grp m negb andb]. rewrite !Nat.eqb_refl. cbn [andb length]. fold n. lia.
  - intros E. apply Hsvc; [exact E|apply Hkg; discriminate].
  - exfalso. unfold in_services in Hs. rewrite Hk in Hs. discriminate.
  - intros E. apply Hsvc; [exact E|apply Hkg; discriminate].
Qed.

(* ------------------------------------------------------------------ addService *)
Definition guards_ok (r : reg) : Prop :=
  (r_name r <> 0 -> r_group r = 0) /\ (is_void r = true -> r_group r = 0) /\ reg_ok r = true.

Lemma name_key_services n : match name_key n with KIdx _ => false | _ => true end = true.
Proof. destruct n; reflexivity. Qed.
Lemma name_key_none n : name_key n <> KNone -> n <> 0.
Proof. destruct n; cbn; congruence. Qed.

Definition step_pre (s : desc + eclass) : Prop := match s with inl d => pre_ok d | inr _ => True end.

Ltac single r Hbase :=
  destruct (r_as r) as [|a l];
  [constructor; [apply Hbase|constructor]
  |apply Forall_forall; intros s Hs; apply in_map_iff in Hs; destruct Hs as [i [<- _]];
   destruct (implements _ i); [apply Hbase|exact I]].

Lemma add_steps_pre r v : guards_ok r -> Forall step_pre (add_steps r v).
Proof.
  intros (Hn & Hv & Hok).
  assert (Hbase : forall t i, pre_ok (mkDesc t (match r_name r with 0 => (if is_void r then KVoid v else KNone) | n => KName n end) (r_group r) r i v)).
  { intros t i. unfold pre_ok, in_services; cbn [ds_key ds_grp ds_reg]. split; [|split; [|exact Hok]].
    - destruct (r_name r); [destruct (is_void r)|]; reflexivity.
    - intros Hk. destruct (r_name r) eqn:En; [|apply Hn; discriminate]. destruct (is_void r); [apply Hv; reflexivity|congruence]. }
  unfold add_steps. destruct (r_form r) as [t|io ps rets er|io ps fs er] eqn:Ef.
  - single r Hbase.
  - destruct rets as [|t0 [|t1 ts]]; [single r Hbase|single r Hbase|].
    apply Forall_forall. intros s Hs. apply in_map_iff in Hs. destruct Hs as [[i t] [<- _]]. cbn [step_pre].
    unfold pre_ok, in_services; cbn [ds_key ds_grp ds_reg]. split; [|split; [|exact Hok]].
    + destruct i; [apply name_key_services|reflexivity].
    + intros Hk. destruct i; [apply Hn; apply name_key_none; exact Hk|congruence].
  - apply Forall_forall. intros s Hs. apply in_map_iff in Hs. destruct Hs as [[i f] [<- Hin]].
    destruct (negb (f_name f =? 0) && negb (f_group f =? 0)) eqn:Eb; cbn [step_pre]; [exact I|].
    unfold pre_ok, in_services; cbn [ds_key ds_grp ds_reg]. split; [apply name_key_services|split; [|apply reg_ok_true]].
    intros Hk. apply name_key_none in Hk. apply andb_false_elim in Eb.
    destruct Eb as [E|E]; apply negb_false_iff, Nat.eqb_eq in E; congruence.
Qed.

Lemma run_steps_J steps : forall c c', J c -> Forall step_pre steps -> run_steps c steps = inl c' -> J c'.
Proof.
  induction steps as [|[d|e] steps IH]; intros c c' Hj Hf; cbn [run_steps].
  - intros E; inversion E; subst; exact Hj.
  - inversion Hf as [|x l Hd Hrest]; subst. destruct (register c d) as [c1|e] eqn:Er; [|discriminate].
    apply IH; [exact (register_J c d c1 Hj Hd Er)|exact Hrest].
  - discriminate.
Qed.

Lemma add_service_J c v r : J c -> reg_ok r = true -> J (fst (fst (add_service c v r))).
Proof.
  intros Hj Hok. unfold add_service.
  destruct ((r_bad r =? 1) || (r_bad r =? 6)); [exact Hj|].
  destruct ((negb (r_name r =? 0) && negb (r_group r =? 0)) || negb (r_bad r =? 0)) eqn:G1; [exact Hj|].
  destruct (is_void r && negb (r_group r =? 0)) eqn:G2; [exact Hj|].
  destruct (is_reserved (form_type (r_form r))); [exact Hj|].
  destruct (run_steps c (add_steps r (S v))) as [c'|e] eqn:Er; [|exact Hj]. cbn [fst].
  apply (run_steps_J (add_steps r (S v)) c c' Hj); [|exact Er]. apply add_steps_pre. split; [|split; [|exact Hok]].
  - intros Hn. apply orb_false_elim in G1. destruct G1 as [G1 _]. apply andb_false_elim in G1.
    destruct G1 as [G|G]; apply negb_false_iff, Nat.eqb_eq in G; congruence.
  - intros Hv. rewrite Hv in G2. cbn [andb] in G2. apply negb_false_iff, Nat.eqb_eq in G2. exact G2.
Qed.

(* ------------------------------------------------------------------ Remove *)
Lemma rm_in t k c x : In x (rm t k c) -> In x c.
Proof.
  induction c as [|d c IH]; cbn [rm]; [tauto|].
  destruct (in_services d && (ds_ty d =? t) && key_eqb (ds_key d) k); cbn [In]; intuition.
Qed.
Lemma rm_nodup {B} (f : desc -> B) t k c : NoDup (map f c) -> NoDup (map f (rm t k c)).
Proof.
  induction c as [|d c IH]; cbn [rm map]; [tauto|]. intros Hn. inversion Hn as [|y l Hy Hl]; subst.
  destruct (in_services d && (ds_ty d =? t) && key_eqb (ds_key d) k); [exact Hl|].
  cbn [map]. constructor; [|apply IH; exact Hl]. intros Hin. apply Hy. apply in_map_iff in Hin.
  destruct Hin as [x [E Hx]]. apply in_map_iff. exists x. split; [exact E|apply (rm_in t k c x Hx)].
Qed.
Lemma rm_group_members t k c t' g : group_members (rm t k c) t' g = group_members c t' g.
Proof.
  induction c as [|d c IH]; cbn [rm]; [reflexivity|].
  destruct (in_services d) eqn:Es; cbn [andb].
  - destruct ((ds_ty d =? t) && key_eqb (ds_key d) k).
    + unfold group_members at 2. cbn [filter]. rewrite Es. reflexivity.
    + unfold group_members in *. cbn [filter]. rewrite Es. cbn [negb andb]. exact IH.
  - unfold group_members in *. cbn [filter]. rewrite Es. cbn [negb andb]. rewrite IH. reflexivity.
Qed.

Lemma remove_service_J c t k : J c -> J (remove_service c t k).
Proof.
  intros (Hnd & Ha & Hb & Hc & Hbound). unfold remove_service. destruct (find_service c t k); [|repeat split; assumption].
  split; [|split; [|split; [|split]]].
  - apply rm_nodup; exact Hnd.
  - intros x Hx. apply Ha. exact (rm_in t k c x Hx).
  - intros x Hx. apply Hb. exact (rm_in t k c x Hx).
  - intros x Hx. apply Hc. exact (rm_in t k c x Hx).
  - intros x Hx Hs. rewrite rm_group_members. exact (Hbound x (rm_in t k c x Hx) Hs).
Qed.

(* ------------------------------------------------------------------ every history *)
Definition call_ok (o : op) : bool := match o with OAdd r => reg_ok r | _ => true end.
Definition op_ok (o : op) : bool :=
  match o with
  | OAdd r => reg_ok r
  | OModules ms => forallb call_ok (flatten_modules ms)
  | _ => true
  end.

Lemma direct_call_J st o : J (fst st) -> call_ok o = true -> J (fst (fst (direct_call st o))).
Proof.
  intros Hj Hok. destruct o; cbn [direct_call fst]; try exact Hj.
  - pose proof (add_service_J (fst st) (snd st) r Hj Hok) as H.
    destruct (add_service (fst st) (snd st) r) as [[c' v'] e]. exact H.
  - apply remove_service_J; exact Hj.
  - apply remove_service_J; exact Hj.
Qed.

Lemma run_flat_J l : forall st, J (fst st) -> forallb call_ok (map snd l) = true -> J (fst (fst (run_flat st l))).
Proof.
  induction l as [|[ns o] l IH]; intros st Hj Hok; cbn [run_flat]; [exact Hj|].
  cbn [map snd forallb] in Hok. apply andb_prop in Hok. destruct Hok as [Ho Hl].
  pose proof (direct_call_J st o Hj Ho) as H1.
  destruct (direct_call st o) as [st' [e|]]; cbn [fst] in *; [exact H1|apply IH; assumption].
Qed.

Lemma step_J w o : J (w_coll w) -> op_ok o = true -> J (w_coll (fst (fst (step w o)))).
Proof.
  intros Hj Hok. destruct (is_coll_op o) eqn:Hc; [|rewrite step_keeps_coll; assumption].
  destruct o; cbn [is_coll_op] in Hc; try discriminate; cbn [step op_ok] in *.
  - pose proof (add_service_J (w_coll w) (w_void w) r Hj Hok) as H.
    destruct (add_service (w_coll w) (w_void w) r) as [[c' v'] e]. exact H.
  - apply remove_service_J; exact Hj.
  - apply remove_service_J; exact Hj.
  - rewrite apply_modules_flat.
    pose proof (run_flat_J (flat_map flat_entries ms) (w_coll w, w_void w) Hj) as H.
    rewrite flat_entries_ops_list in H. specialize (H Hok).
    destruct (run_flat (w_coll w, w_void w) (flat_map flat_entries ms)) as [[c' v'] e]. exact H.
  - exact Hj.
  - exact Hj.
  - exact Hj.
  - exact Hj.
Qed.

Theorem J_invariant ops : forall w, J (w_coll w) -> forallb op_ok ops = true -> J (w_coll (fst (run_from w ops))).
Proof.
  induction ops as [|o ops IH]; intros w Hj Hok; cbn [run_from]; [exact Hj|].
  cbn [forallb] in Hok. apply andb_prop in Hok. destruct Hok as [Ho Hl].
  pose proof (step_J w o Hj Ho) as H1.
  destruct (step w o) as [[w1 evs] r]. cbn [fst] in H1.
  specialize (IH w1 H1 Hl). destruct (run_from w1 ops) as [w2 tr]. exact IH.
Qed.

Lemma J_wf c : J c -> wf_coll c.
Proof. intros (Hnd & Ha & Hb & _ & _). repeat split; assumption. Qed.

Lemma call_ok_true o : call_ok o = true.
Proof. destruct o; reflexivity. Qed.
Lemma op_ok_true o : op_ok o = true.
Proof. destruct o; try reflexivity. cbn [op_ok]. apply forallb_forall. intros x _. apply call_ok_true. Qed.
Lemma op_ok_all ops : forallb op_ok ops = true.
Proof. apply forallb_forall. intros o _. apply op_ok_true. Qed.

(* the registry reached by ANY history of calls is well-formed (a result-object field with both a name and a group,
   which used to break this, is rejected at registration since F33) *)
Theorem wf_after_every_history ops : wf_coll (w_coll (fst (run_from init_world ops))).
Proof. apply J_wf. apply (J_invariant ops init_world); [exact J_nil|apply op_ok_all]. Qed.

(* with the termination theorem: after every history of calls, whenever the cycle check passes, every
   resolution ends within a depth that depends on the registrations only *)
Theorem accepted_histories_resolve_in_bounded_depth ops :
  let c := w_coll (fst (run_from init_world ops)) in
  has_cycle c = false ->
  exists N, forall fuel rs h d, N <= fuel -> p_descs (rs_p rs) = c -> In d c -> snd (resolve_d fuel rs h d) <> RFuel.
Proof. intros c Hac. apply acyclic_collection_terminates; [apply wf_after_every_history|exact Hac]. Qed.

(* ------------------------------------------------------------------ groups accumulate members in call order *)
Definition numbered (c : coll) : Prop :=
  forall t g, map ds_key (group_members c t g) = map KIdx (seq 1 (length (group_members c t g))).

Lemma group_members_one_service d t g : in_services d = true -> group_members [d] t g = [].
Proof. intros H. unfold group_members. cbn [filter]. rewrite H. reflexivity. Qed.

Lemma group_members_one_member m t g : in_services m = false ->
  group_members [m] t g = if (ds_ty m =? t) && (ds_grp m =? g) then [m] else [].
Proof. intros H. unfold group_members. cbn [filter]. rewrite H. cbn [negb andb]. reflexivity. Qed.

Lemma register_numbered c d c' : numbered c -> in_services d = true -> register c d = inl c' -> numbered c'.
Proof.
  intros Hn Hs. unfold register. destruct (is_reserved (ds_ty d)); [discriminate|].
  assert (Hsvc : match find_service c (ds_ty d) (ds_key d) with Some _ => inr EAlready | None => inl (c ++ [d]) end = inl c' -> numbered c').
  { destruct (find_service c (ds_ty d) (ds_key d)); [discriminate|]. intros E; inversion E; subst.
    intros t g. rewrite group_members_app, (group_members_one_service d t g Hs), app_nil_r. apply Hn. }
  destruct (ds_key d) eqn:Hk; try exact Hsvc.
  destruct (ds_grp d =? 0) eqn:Hg; [exact Hsvc|]. intros E; inversion E; subst. clear E Hsvc.
  intros t g. rewrite group_members_app, group_members_one_member by reflexivity. cbn [ds_ty ds_grp].
  destruct ((ds_ty d =? t) && (ds_grp d =? g)) eqn:Et.
  - apply andb_prop in Et. destruct Et as [E1 E2]. apply Nat.eqb_eq in E1, E2. subst t g.
    rewrite map_app, app_length. cbn [length map ds_key]. rewrite Nat.add_1_r, seq_S, map_app. cbn [map].
    rewrite (Hn (ds_ty d) (ds_grp d)). reflexivity.
  - rewrite app_nil_r. apply Hn.
Qed.

Definition step_svc (s : desc + eclass) : Prop := match s with inl d => in_services d = true | inr _ => True end.

Ltac single_svc r Hbase :=
  destruct (r_as r) as [|a l];
  [constructor; [apply Hbase|constructor]
  |apply Forall_forall; intros s Hs; apply in_map_iff in Hs; destruct Hs as [i [<- _]];
   destruct (implements _ i); [apply Hbase|exact I]].

(* addService never hands registerDescriptor a numeric key: those are given out by the group branch only *)
Lemma add_steps_services r v : Forall step_svc (add_steps r v).
Proof.
  assert (Hbase : forall t i, step_svc (inl (mkDesc t (match r_name r with 0 => (if is_void r then KVoid v else KNone) | n => KName n end) (r_group r) r i v))).
  { intros t i. unfold step_svc, in_services; cbn [ds_key]. destruct (r_name r); [destruct (is_void r)|]; reflexivity. }
  unfold add_steps. destruct (r_form r) as [t|io ps rets er|io ps fs er] eqn:Ef.
  - single_svc r Hbase.
  - destruct rets as [|t0 [|t1 ts]]; [single_svc r Hbase|single_svc r Hbase|].
    apply Forall_forall. intros s Hs. apply in_map_iff in Hs. destruct Hs as [[i t] [<- _]].
    unfold step_svc, in_services; cbn [ds_key]. destruct i; [apply name_key_services|reflexivity].
  - apply Forall_forall. intros s Hs. apply in_map_iff in Hs. destruct Hs as [[i f] [<- _]].
    destruct (negb (f_name f =? 0) && negb (f_group f =? 0)); [exact I|].
    unfold step_svc, in_services; cbn [ds_key]. apply name_key_services.
Qed.

Lemma run_steps_numbered steps : forall c c', numbered c -> Forall step_svc steps -> run_steps c steps = inl c' -> numbered c'.
Proof.
  induction steps as [|[d|e] steps IH]; intros c c' Hn Hf; cbn [run_steps].
  - intros E; inversion E; subst; exact Hn.
  - inversion Hf as [|x l Hd Hrest]; subst. destruct (register c d) as [c1|e] eqn:Er; [|discriminate].
    apply IH; [exact (register_numbered c d c1 Hn Hd Er)|exact Hrest].
  - discriminate.
Qed.

Lemma add_service_numbered c v r : numbered c -> numbered (fst (fst (add_service c v r))).
Proof.
  intros Hn. unfold add_service.
  destruct ((r_bad r =? 1) || (r_bad r =? 6)); [exact Hn|].
  destruct ((negb (r_name r =? 0) && negb (r_group r =? 0)) || negb (r_bad r =? 0)); [exact Hn|].
  destruct (is_void r && negb (r_group r =? 0)); [exact Hn|].
  destruct (is_reserved (form_type (r_form r))); [exact Hn|].
  destruct (run_steps c (add_steps r (S v))) as [c'|e] eqn:Er; [|exact Hn]. cbn [fst].
  exact (run_steps_numbered (add_steps r (S v)) c c' Hn (add_steps_services r (S v)) Er).
Qed.

Lemma remove_service_numbered c t k : numbered c -> numbered (remove_service c t k).
Proof.
  intros Hn. unfold remove_service. destruct (find_service c t k); [|exact Hn].
  intros t' g. rewrite rm_group_members. apply Hn.
Qed.

Lemma direct_call_numbered st o : numbered (fst st) -> numbered (fst (fst (direct_call st o))).
Proof.
  intros Hn. destruct o; cbn [direct_call fst]; try exact Hn.
  - pose proof (add_service_numbered (fst st) (snd st) r Hn) as H.
    destruct (add_service (fst st) (snd st) r) as [[c' v'] e]. exact H.
  - apply remove_service_numbered; exact Hn.
  - apply remove_service_numbered; exact Hn.
Qed.

Lemma run_flat_numbered l : forall st, numbered (fst st) -> numbered (fst (fst (run_flat st l))).
Proof.
  induction l as [|[ns o] l IH]; intros st Hn; cbn [run_flat]; [exact Hn|].
  pose proof (direct_call_numbered st o Hn) as H1.
  destruct (direct_call st o) as [st' [e|]]; cbn [fst] in *; [exact H1|apply IH; assumption].
Qed.

Lemma step_numbered w o : numbered (w_coll w) -> numbered (w_coll (fst (fst (step w o)))).
Proof.
  intros Hn. destruct (is_coll_op o) eqn:Hc; [|rewrite step_keeps_coll; assumption].
  destruct o; cbn [is_coll_op] in Hc; try discriminate; cbn [step] in *.
  - pose proof (add_service_numbered (w_coll w) (w_void w) r Hn) as H.
    destruct (add_service (w_coll w) (w_void w) r) as [[c' v'] e]. exact H.
  - apply remove_service_numbered; exact Hn.
  - apply remove_service_numbered; exact Hn.
  - rewrite apply_modules_flat.
    pose proof (run_flat_numbered (flat_map flat_entries ms) (w_coll w, w_void w) Hn) as H.
    destruct (run_flat (w_coll w, w_void w) (flat_map flat_entries ms)) as [[c' v'] e]. exact H.
  - exact Hn.
  - exact Hn.
  - exact Hn.
  - exact Hn.
Qed.

(* after every history whatsoever, the members of every group carry the numbers 1..n in registration order *)
Theorem groups_numbered_in_call_order ops : forall w, numbered (w_coll w) -> numbered (w_coll (fst (run_from w ops))).
Proof.
  induction ops as [|o ops IH]; intros w Hn; cbn [run_from]; [exact Hn|].
  pose proof (step_numbered w o Hn) as H1.
  destruct (step w o) as [[w1 evs] r]. cbn [fst] in H1.
  specialize (IH w1 H1). destruct (run_from w1 ops) as [w2 tr]. exact IH.
Qed.
Lemma numbered_init : numbered (w_coll init_world).
Proof. intros t g. reflexivity. Qed.

(* a registration into a group appends exactly one member, after all existing ones, and leaves every other group alone *)
Theorem group_registration_appends c d c' : ds_key d = KNone -> ds_grp d <> 0 -> register c d = inl c' ->
  exists m, c' = c ++ [m] /\ ds_reg m = ds_reg d /\
            group_members c' (ds_ty d) (ds_grp d) = group_members c (ds_ty d) (ds_grp d) ++ [m] /\
            forall t g, (t, g) <> (ds_ty d, ds_grp d) -> group_members c' t g = group_members c t g.
Proof.
  intros Hk Hg. unfold register. destruct (is_reserved (ds_ty d)); [discriminate|]. rewrite Hk.
  apply Nat.eqb_neq in Hg. rewrite Hg. intros E; inversion E; subst. clear E.
  eexists. split; [reflexivity|]. split; [reflexivity|]. split.
  - rewrite group_members_app, group_members_one_member by reflexivity. cbn [ds_ty ds_grp]. rewrite !Nat.eqb_refl. reflexivity.
  - intros t g Hne. rewrite group_members_app, group_members_one_member by reflexivity. cbn [ds_ty ds_grp].
    destruct ((ds_ty d =? t) && (ds_grp d =? g)) eqn:Et; [|apply app_nil_r].
    apply andb_prop in Et. destruct Et as [E1 E2]. apply Nat.eqb_eq in E1, E2. subst. congruence.
Qed.

(* non-vacuity: a history with a result object, a group, keyed services and a removal passes the cycle check *)
Example ok_history_exists :
  let r1 := mkReg 1 Singleton (FInst 0) 0 0 [] [] [0] [false] 0 in
  let r2 := mkReg 2 Scoped (FCtor false [PDep (mkDep 0 0 0 false)] [1] false) 0 3 [] [] [1] [false] 0 in
  let r3 := mkReg 3 Transient (FResult false [PDep (mkDep 1 0 3 false)] [mkField 2 5 0; mkField 3 0 4] false) 0 0 [] [] [2; 3] [false; false] 0 in
  let ops := [OAdd r1; OAdd r2; OAdd r3; ORemove 0; OAdd r1] in
  length (w_coll (fst (run_from init_world ops))) = 4 /\
  has_cycle (w_coll (fst (run_from init_world ops))) = false.
Proof. vm_compute. repeat split. Qed.
