From Coq Require Import List Arith Bool Lia PeanoNat ZArith Permutation.
From Godi Require Import GDfs GKahn.
Import ListNotations.

(* Part 1 (abstract): given ANY topologically closed list L covering the nodes, a Kahn state with an
   empty queue in which "ready => emitted" holds has emitted every node. *)
Section Stuck.
  Variable nodes : list nat.
  Variable deps : nat -> list nat.
  Hypothesis deps_closed : forall n d, In n nodes -> In d (deps n) -> In d nodes.

  Lemma last_in (P : nat -> Prop) (Pdec : forall x, {P x} + {~ P x}) L :
    topo_closed deps L -> (exists s, In s L /\ P s) ->
    exists s, In s L /\ P s /\ forall d, In d (deps s) -> ~ P d.
  Proof.
    induction 1 as [|v l Htc IH Hs]; intros (s & Hin & Hp); [contradiction|].
    assert (Hdecl : (exists s', In s' l /\ P s') \/ ~ (exists s', In s' l /\ P s')).
    { clear -Pdec. induction l as [|a l IHl]; [right; intros (s' & [] & _)|].
      destruct (Pdec a) as [Ha|Hna]; [left; exists a; split; [left; reflexivity|exact Ha]|].
      destruct IHl as [(s' & A & B)|Hn]; [left; exists s'; split; [right; exact A|exact B]|].
      right. intros (s' & [<-|A] & B); [exact (Hna B)|apply Hn; exists s'; auto]. }
    destruct Hdecl as [Hex|Hnex].
    - destruct (IH Hex) as (s' & A & B & C). exists s'. split; [right; exact A|]. split; assumption.
    - destruct Hin as [<-|Hin]; [|exfalso; apply Hnex; exists s; auto].
      exists v. split; [left; reflexivity|]. split; [exact Hp|].
      intros d Hd Hpd. apply Hnex. exists d. split; [apply Hs, Hd|exact Hpd].
  Qed.

  Theorem not_stuck L res :
    topo_closed deps L -> (forall n, In n nodes -> In n L) ->
    (forall n, In n nodes -> unmet deps n res = 0%nat -> In n res) ->   (* inv_ready with q = [] *)
    forall n, In n nodes -> In n res.
  Proof.
    intros Htc Hcov Hready n Hn.
    destruct (in_dec Nat.eq_dec n res) as [Hin|Hnin]; [exact Hin|exfalso].
    destruct (last_in (fun x => In x nodes /\ ~ In x res)
                (fun x => match in_dec Nat.eq_dec x nodes, in_dec Nat.eq_dec x res with
                          | left a, right b => left (conj a b)
                          | right a, _ => right (fun H => a (proj1 H))
                          | _, left b => right (fun H => proj2 H b)
                          end) L Htc) as (s & HsL & (Hsn & Hsres) & Hmax).
    { exists n. split; [apply Hcov, Hn|split; assumption]. }
    apply Hsres, Hready; [exact Hsn|].
    (* all deps of s are nodes and (by maximality) emitted, so unmet s res = 0 *)
    unfold unmet. assert (Hall : forall d, In d (deps s) -> In d res).
    { intros d Hd. destruct (in_dec Nat.eq_dec d res) as [H|H]; [exact H|].
      exfalso. apply (Hmax d Hd). split; [eapply deps_closed; eauto|exact H]. }
    clear -Hall. induction (deps s) as [|a l IH]; [reflexivity|]. cbn [filter].
    assert (GKahn.mem a res = true) as -> by (apply GKahn.mem_In, Hall; left; reflexivity).
    cbn [negb]. apply IH. intros d Hd. apply Hall. right; exact Hd.
  Qed.
End Stuck.

(* Part 2: an acyclic graph has such a list - the accumulated DFS visit list. *)
Section Certificate.
  Variable nodes : list nat.
  Variable g : nat -> list nat.
  Hypothesis g_closed : forall u v, In u nodes -> In v (g u) -> In v nodes.
  Hypothesis acyclic : forall u, In u nodes -> ~ on_cycle g u.

  Lemma certificate_aux : forall us visited,
      (forall u, In u us -> In u nodes) -> topo_closed g visited ->
      exists L, topo_closed g L /\ (forall u, In u us -> In u L) /\ (forall x, In x visited -> In x L).
  Proof.
    induction us as [|u us IH]; intros visited Hsub Htc.
    - exists visited. repeat split; auto. intros u [].
    - assert (Hu : In u nodes) by (apply Hsub; left; reflexivity).
      destruct (dfs g (S (length nodes)) [] visited u) eqn:Hd.
      + exfalso. apply (acyclic n).
        * apply (dfs_cycle_node g nodes g_closed (S (length nodes)) [] visited u n); [intros x Hx; destruct Hx|exact Hu|exact Hd].
        * apply (dfs_sound g (S (length nodes)) [] visited u n); [right; reflexivity|exact I|constructor|exact Hd].
      + destruct (dfs_done g _ _ _ _ _ Htc Hd) as (A & B & C).
        destruct (IH visited0 (fun x Hx => Hsub x (or_intror Hx)) A) as (L & LA & LB & LC).
        exists L. repeat split; auto. intros x [<-|Hx]; auto.
      + exfalso. apply (dfs_fuel g nodes g_closed (S (length nodes)) [] visited u); [constructor|intros x Hx; destruct Hx|exact Hu|cbn; lia|exact Hd].
  Qed.

  Theorem acyclic_certificate : exists L, topo_closed g L /\ forall u, In u nodes -> In u L.
  Proof.
    destruct (certificate_aux nodes [] (fun u H => H) (tc_nil g)) as (L & A & B & _). exists L; auto.
  Qed.
End Certificate.

Print Assumptions not_stuck.
Print Assumptions acyclic_certificate.
