(* ProofsOnce.v — C10, "closed exactly once", the ownership half: every disposable instance a resolution
   constructs is entered into exactly one disposal list exactly once.  The invariant: the disposal lists of a
   provider (its own and those of all its scopes) hold no instance twice, and every listed instance was made by
   an invocation that has already been counted.  It is preserved by every resolution, for every registration set
   without disposable instance VALUES (those are not created by the container: a transient instance value would
   be "owned" anew at every request). Together with [close_insts_exact] (a Close closes exactly the entries of
   the lists it takes, and empties them) this is the sequential content of the property. *)
From Coq Require Import Permutation.
From Godi Require Import Base Model ProofsRuntime ProofsFresh ProofsOutputs.

Definition tracked (p : prov) : list inst := p_sdisp p ++ concat (map sc_disp (p_scopes p)).
Definition inst_bounded (invs : list (nat * nat)) (i : inst) : Prop :=
  match i with IObj rid inv _ _ => inv < get_inv invs rid | IVoid => True end.
Definition desc_ok (d : desc) : Prop := forall t, r_form (ds_reg d) = FInst t -> disposable t = false.
(* [F]: the frame - instances listed elsewhere (other providers) or closed already; they too are distinct from
   everything this provider lists, and made by counted invocations *)
Definition Once (c : coll) (F : list inst) (rs : rstate) : Prop :=
  p_descs (rs_p rs) = c /\ NoDup (tracked (rs_p rs) ++ F) /\ Forall (inst_bounded (rs_invs rs)) (tracked (rs_p rs) ++ F).

(* ------------------------------------------------------------------ what the primitives do to the lists *)
Lemma map_upd_nth_same {A B} (g : A -> B) (f : A -> A) l h : (forall s, g (f s) = g s) -> map g (upd_nth l h f) = map g l.
Proof. intros H. revert h; induction l as [|x l IH]; intros [|h]; cbn; try reflexivity; [rewrite H; reflexivity|rewrite IH; reflexivity]. Qed.

Lemma tracked_cache_set p h n i : tracked (cache_set p h n i) = tracked p.
Proof. unfold tracked, cache_set, upd_scope; cbn [p_sdisp p_scopes]. rewrite map_upd_nth_same; [reflexivity|intros s; reflexivity]. Qed.
Lemma tracked_single_set p n i : tracked (single_set p n i) = tracked p.
Proof. reflexivity. Qed.
Lemma tracked_track_single p i :
  tracked (track_single p i) = if inst_disposable i then i :: tracked p else tracked p.
Proof. unfold track_single. destruct (inst_disposable i); reflexivity. Qed.

Lemma concat_upd_cons (l : list scope_st) h i : h < length l ->
  Permutation (concat (map sc_disp (upd_nth l h (fun s => mkScope (sc_parent s) (sc_ctx s) (sc_cache s) (i :: sc_disp s) (sc_open s)))))
              (i :: concat (map sc_disp l)).
Proof.
  revert h; induction l as [|x l IH]; intros [|h] Hl; cbn [length] in Hl; try lia; cbn [upd_nth map concat sc_disp].
  - reflexivity.
  - rewrite (IH h) by lia. symmetry. apply Permutation_middle.
Qed.
Lemma tracked_track_scope p h i :
  Permutation (tracked (track_scope p h i))
              (if inst_disposable i && (h <? length (p_scopes p)) then i :: tracked p else tracked p).
Proof.
  unfold track_scope. destruct (inst_disposable i); cbn [andb]; [|reflexivity].
  unfold tracked, upd_scope; cbn [p_sdisp p_scopes].
  destruct (h <? length (p_scopes p)) eqn:E.
  - apply Nat.ltb_lt in E. rewrite (concat_upd_cons (p_scopes p) h i E). symmetry. apply Permutation_middle.
  - apply Nat.ltb_ge in E. rewrite nth_upd_nth_oob by exact E. reflexivity.
Qed.

(* membership after a store *)
Lemma in_tracked_track_scope p h i j : In j (tracked (track_scope p h i)) -> j = i \/ In j (tracked p).
Proof.
  intros H. apply (Permutation_in _ (tracked_track_scope p h i)) in H.
  destruct (inst_disposable i && (h <? length (p_scopes p))); [destruct H as [<-|H]; auto|auto].
Qed.
Lemma in_tracked_store life p h n i j : In j (tracked (store life p h n i)) -> j = i \/ In j (tracked p).
Proof.
  unfold store. destruct life.
  - rewrite tracked_track_single. destruct (inst_disposable i); [intros [<-|H]; auto|auto].
  - intros H. apply in_tracked_track_scope in H. rewrite tracked_cache_set in H. exact H.
  - apply in_tracked_track_scope.
Qed.
Lemma in_tracked_drop p h life i j : In j (tracked (drop_output p h life i)) -> j = i \/ In j (tracked p).
Proof.
  unfold drop_output. destruct life; [rewrite tracked_track_single; destruct (inst_disposable i); [intros [<-|H]; auto|auto]|apply in_tracked_track_scope|apply in_tracked_track_scope].
Qed.

(* adding one instance that is nowhere yet *)
Lemma perm_track_scope_frame p h i F :
  Permutation (tracked (track_scope p h i) ++ F)
              (if inst_disposable i && (h <? length (p_scopes p)) then i :: (tracked p ++ F) else tracked p ++ F).
Proof.
  pose proof (tracked_track_scope p h i) as H.
  destruct (inst_disposable i && (h <? length (p_scopes p))); [apply (Permutation_app_tail F) in H; exact H|apply Permutation_app_tail; exact H].
Qed.
Lemma nodup_track_scope p h i F : NoDup (tracked p ++ F) -> ~ In i (tracked p ++ F) -> NoDup (tracked (track_scope p h i) ++ F).
Proof.
  intros Hn Hi. apply (Permutation_NoDup (Permutation_sym (perm_track_scope_frame p h i F))).
  destruct (inst_disposable i && (h <? length (p_scopes p))); [constructor; assumption|exact Hn].
Qed.
Lemma forall_track_scope (Pr : inst -> Prop) p h i F : Forall Pr (tracked p ++ F) -> Pr i -> Forall Pr (tracked (track_scope p h i) ++ F).
Proof.
  intros Hf Hi. apply Forall_forall. intros j Hj. apply in_app_or in Hj. rewrite Forall_forall in Hf. destruct Hj as [Hj|Hj].
  - apply in_tracked_track_scope in Hj. destruct Hj as [->|Hj]; [exact Hi|apply Hf; apply in_or_app; left; exact Hj].
  - apply Hf. apply in_or_app. right. exact Hj.
Qed.

Lemma descs_track_scope p h i : p_descs (track_scope p h i) = p_descs p.
Proof. unfold track_scope, upd_scope. destruct (inst_disposable i); reflexivity. Qed.
Lemma descs_share life p h n i : p_descs (share life p h n i) = p_descs p.
Proof. unfold share, single_set, cache_set, upd_scope. destruct life; reflexivity. Qed.
Lemma tracked_share life p h n i : tracked (share life p h n i) = tracked p.
Proof. unfold share. destruct life; [apply tracked_single_set|apply tracked_cache_set|reflexivity]. Qed.

Lemma once_store c F life rs h n i :
  Once c F rs -> ~ In i (tracked (rs_p rs) ++ F) -> inst_bounded (rs_invs rs) i ->
  Once c F (with_p rs (store life (rs_p rs) h n i)).
Proof.
  intros (Hd & Hn & Hb) Hi Hbi. unfold Once; cbn [rs_p rs_invs with_p]. rewrite descs_store. split; [exact Hd|].
  unfold store. destruct life.
  - rewrite tracked_track_single, tracked_single_set. destruct (inst_disposable i); [split; cbn [app]; constructor; assumption|split; assumption].
  - split; [apply nodup_track_scope; rewrite tracked_cache_set; assumption|apply forall_track_scope; [rewrite tracked_cache_set; exact Hb|exact Hbi]].
  - split; [apply nodup_track_scope; assumption|apply forall_track_scope; assumption].
Qed.
Lemma once_drop c F life rs h i :
  Once c F rs -> ~ In i (tracked (rs_p rs) ++ F) -> inst_bounded (rs_invs rs) i ->
  Once c F (with_p rs (drop_output (rs_p rs) h life i)).
Proof.
  intros (Hd & Hn & Hb) Hi Hbi. unfold Once; cbn [rs_p rs_invs with_p]. rewrite descs_drop. split; [exact Hd|].
  unfold drop_output. destruct life.
  - rewrite tracked_track_single. destruct (inst_disposable i); [split; cbn [app]; constructor; assumption|split; assumption].
  - split; [apply nodup_track_scope; assumption|apply forall_track_scope; assumption].
  - split; [apply nodup_track_scope; assumption|apply forall_track_scope; assumption].
Qed.
Lemma once_share_all c F life l : forall rs h i, Once c F rs ->
  Once c F (with_p rs (fold_left (fun p a => share life p h (ds_ident a) i) l (rs_p rs))).
Proof.
  induction l as [|a l IH]; intros rs h i H; cbn [fold_left]; [destruct rs; exact H|].
  apply (IH (with_p rs (share life (rs_p rs) h (ds_ident a) i))).
  destruct H as (Hd & Hn & Hb). unfold Once; cbn [rs_p rs_invs with_p]. rewrite descs_share, tracked_share. auto.
Qed.

(* ------------------------------------------------------------------ the outputs of one invocation *)
Definition of_invocation (rid inv : nat) (j : inst) (k : nat) : Prop := exists dyn, j = IObj rid inv k dyn.

Lemma once_fan_out c F ks : forall rs h d inv,
  Once c F rs -> get_inv (rs_invs rs) (r_id (ds_reg d)) = S inv -> NoDup ks ->
  (forall j k, In j (tracked (rs_p rs) ++ F) -> of_invocation (r_id (ds_reg d)) inv j k -> ~ In k ks) ->
  Once c F (with_p rs (fan_out (rs_p rs) h d inv ks)).
Proof.
  induction ks as [|k rest IH]; intros rs h d inv H Hc Hnd Hfresh; cbn [fan_out]; [destruct rs; exact H|].
  inversion Hnd as [|x l Hk Hrest]; subst.
  assert (Hnew : ~ In (out_inst (ds_reg d) inv k) (tracked (rs_p rs) ++ F)).
  { intros Hin. apply (Hfresh _ k Hin); [eexists; reflexivity|left; reflexivity]. }
  assert (Hb : inst_bounded (rs_invs rs) (out_inst (ds_reg d) inv k)) by (cbn; rewrite Hc; lia).
  assert (Hstep : forall p', (forall j, In j (tracked p') -> j = out_inst (ds_reg d) inv k \/ In j (tracked (rs_p rs))) ->
            forall j k', In j (tracked p' ++ F) -> of_invocation (r_id (ds_reg d)) inv j k' -> ~ In k' rest).
  { intros p' Hsub j k' Hj Hof Hin. apply in_app_or in Hj.
    assert (Hcase : j = out_inst (ds_reg d) inv k \/ In j (tracked (rs_p rs) ++ F)).
    { destruct Hj as [Hj|Hj]; [destruct (Hsub j Hj) as [->|Hold]; [left; reflexivity|right; apply in_or_app; left; exact Hold]|right; apply in_or_app; right; exact Hj]. }
    destruct Hcase as [->|Hold].
    - destruct Hof as [dyn E]. unfold out_inst in E. inversion E; subst. contradiction.
    - apply (Hfresh j k' Hold Hof). right. exact Hin. }
  destruct (output_desc (p_descs (rs_p rs)) d k).
  - destruct (out_is_nil (ds_reg d) k && life_eqb (ds_life d) Singleton).
    + apply IH; try assumption. intros j k' Hj Hof Hin. apply (Hfresh j k' Hj Hof). right. exact Hin.
    + apply (IH (with_p rs (store (ds_life d) (rs_p rs) h (ds_ident d0) (out_inst (ds_reg d) inv k)))); cbn [rs_p rs_invs with_p]; try assumption.
      * apply once_store; assumption.
      * apply Hstep. intros j Hj. apply (in_tracked_store _ _ _ _ _ _ Hj).
  - apply (IH (with_p rs (drop_output (rs_p rs) h (ds_life d) (out_inst (ds_reg d) inv k)))); cbn [rs_p rs_invs with_p]; try assumption.
    + apply once_drop; assumption.
    + apply Hstep. intros j Hj. apply (in_tracked_drop _ _ _ _ _ Hj).
Qed.

Lemma once_drop_only c F ks : forall rs h d inv,
  Once c F rs -> get_inv (rs_invs rs) (r_id (ds_reg d)) = S inv -> NoDup ks ->
  (forall j k, In j (tracked (rs_p rs) ++ F) -> of_invocation (r_id (ds_reg d)) inv j k -> ~ In k ks) ->
  Once c F (with_p rs (drop_only (rs_p rs) h d inv ks)).
Proof.
  induction ks as [|k rest IH]; intros rs h d inv H Hc Hnd Hfresh; cbn [drop_only]; [destruct rs; exact H|].
  inversion Hnd as [|x l Hk Hrest]; subst.
  assert (Hnew : ~ In (out_inst (ds_reg d) inv k) (tracked (rs_p rs) ++ F)).
  { intros Hin. apply (Hfresh _ k Hin); [eexists; reflexivity|left; reflexivity]. }
  assert (Hb : inst_bounded (rs_invs rs) (out_inst (ds_reg d) inv k)) by (cbn; rewrite Hc; lia).
  assert (Hstep : forall p', (forall j, In j (tracked p') -> j = out_inst (ds_reg d) inv k \/ In j (tracked (rs_p rs))) ->
            forall j k', In j (tracked p' ++ F) -> of_invocation (r_id (ds_reg d)) inv j k' -> ~ In k' rest).
  { intros p' Hsub j k' Hj Hof Hin. apply in_app_or in Hj.
    assert (Hcase : j = out_inst (ds_reg d) inv k \/ In j (tracked (rs_p rs) ++ F)).
    { destruct Hj as [Hj|Hj]; [destruct (Hsub j Hj) as [->|Hold]; [left; reflexivity|right; apply in_or_app; left; exact Hold]|right; apply in_or_app; right; exact Hj]. }
    destruct Hcase as [->|Hold].
    - destruct Hof as [dyn E]. unfold out_inst in E. inversion E; subst. contradiction.
    - apply (Hfresh j k' Hold Hof). right. exact Hin. }
  destruct (output_desc (p_descs (rs_p rs)) d k).
  - apply IH; try assumption. intros j k' Hj Hof Hin. apply (Hfresh j k' Hj Hof). right. exact Hin.
  - apply (IH (with_p rs (drop_output (rs_p rs) h (ds_life d) (out_inst (ds_reg d) inv k)))); cbn [rs_p rs_invs with_p]; try assumption.
    + apply once_drop; assumption.
    + apply Hstep. intros j Hj. apply (in_tracked_drop _ _ _ _ _ Hj).
Qed.


(* counting an invocation keeps the invariant, and no listed instance belongs to the invocation just counted *)
Lemma bounded_bump invs rid i : inst_bounded invs i -> inst_bounded (bump_inv invs rid) i.
Proof. destruct i as [r inv k dyn|]; cbn; [|auto]. intros H. pose proof (inv_le_bump invs rid r). lia. Qed.

Lemma once_ctor c F rs rid e :
  Once c F rs -> Once c F (log (mkRs (bump_inv (rs_invs rs) rid) (rs_p rs) (rs_ev rs)) e).
Proof.
  intros (Hd & Hn & Hb). unfold Once; cbn [rs_p rs_invs log]. repeat split; try assumption.
  apply Forall_forall. intros i Hi. rewrite Forall_forall in Hb. apply bounded_bump. apply Hb. exact Hi.
Qed.

Lemma none_of_this_invocation invs l rid j k :
  Forall (inst_bounded invs) l -> In j l -> of_invocation rid (get_inv invs rid) j k -> False.
Proof.
  intros Hb Hj [dyn ->]. rewrite Forall_forall in Hb. specialize (Hb _ Hj). cbn in Hb. lia.
Qed.

Section Once.
  Variable c : coll.
  Variable F : list inst.
  Hypothesis c_ok : forall d, In d c -> desc_ok d.

  Section WithRec.
    Variable h : nat.
    Variable recd : rstate -> nat -> desc -> rstate * rres.
    Hypothesis recd_once : forall rs d, In d c -> Once c F rs -> Once c F (fst (recd rs h d)).

    Lemma o_req rs t k : Once c F rs -> Once c F (fst (req recd rs h t k)).
    Proof.
      intros H. pose proof H as (Hd & _). unfold req.
      assert (Hfs : forall k', match find_service (p_descs (rs_p rs)) t k' with Some d => Once c F (fst (recd rs h d)) | None => True end).
      { intros k'. destruct (find_service (p_descs (rs_p rs)) t k') as [d|] eqn:Hf; [|exact I].
        apply recd_once; [|exact H]. unfold find_service in Hf. apply find_some in Hf. rewrite <- Hd. exact (proj1 Hf). }
      destruct k.
      - destruct (builtin h t); [exact H|]. specialize (Hfs KNone). destruct (find_service _ t KNone); [exact Hfs|exact H].
      - specialize (Hfs (KName n)). destruct (find_service _ t (KName n)); [exact Hfs|exact H].
      - specialize (Hfs (KIdx n)). destruct (find_service _ t (KIdx n)); [exact Hfs|exact H].
      - specialize (Hfs (KVoid n)). destruct (find_service _ t (KVoid n)); [exact Hfs|exact H].
    Qed.

    Lemma o_group_loop ms : forall rs acc, (forall m, In m ms -> In m c) -> Once c F rs -> Once c F (fst (group_loop recd rs h ms acc)).
    Proof.
      induction ms as [|m ms IH]; intros rs acc Hin H; cbn [group_loop]; [exact H|].
      pose proof (recd_once rs m (Hin m (or_introl eq_refl)) H) as H1.
      destruct (recd rs h m) as [rs1 [a|e|]]; cbn [fst] in *; try exact H1.
      destruct a; try exact H1; (apply IH; [intros x Hx; apply Hin; right; exact Hx|exact H1]).
    Qed.

    Lemma o_dep_value rs d : Once c F rs -> Once c F (fst (dep_value recd rs h d)).
    Proof.
      intros H. unfold dep_value. destruct (d_group d =? 0); [apply o_req; exact H|].
      unfold group_value. apply o_group_loop; [|exact H].
      intros m Hm. unfold group_members in Hm. apply filter_In in Hm. destruct H as (Hd & _). rewrite <- Hd. exact (proj1 Hm).
    Qed.

    Lemma o_args_loop ps : forall rs inobj acc, Once c F rs -> Once c F (fst (args_loop recd rs h inobj ps acc)).
    Proof.
      induction ps as [|[d|] ps IH]; intros rs inobj acc H; cbn [args_loop]; [exact H| |apply IH; exact H].
      pose proof (o_dep_value rs d H) as H1.
      destruct (dep_value recd rs h d) as [rs1 [a|e|]]; cbn [fst] in *.
      - apply IH; exact H1.
      - destruct (inobj && d_opt d); [apply IH|]; exact H1.
      - exact H1.
    Qed.

    Lemma o_create rs d : In d c -> Once c F rs -> Once c F (fst (create recd rs h d)).
    Proof.
      intros Hdc H. unfold create.
      destruct (r_form (ds_reg d)) as [t|io0 ps1 rets er|io0 ps1 fs er] eqn:Hf.
      - (* an instance value: never disposable here, so nothing is listed *)
        cbn [fst]. unfold set_instance.
        apply (once_share_all c F (ds_life d) _ (with_p rs (store (ds_life d) (rs_p rs) h (ds_ident d) (IObj (r_id (ds_reg d)) 0 0 t)))).
        pose proof (c_ok d Hdc t Hf) as Hnd.
        destruct H as (Hd & Hn & Hb). unfold Once; cbn [rs_p rs_invs with_p]. rewrite descs_store. split; [exact Hd|].
        assert (Ht : tracked (store (ds_life d) (rs_p rs) h (ds_ident d) (IObj (r_id (ds_reg d)) 0 0 t)) = tracked (rs_p rs)).
        { unfold store, track_single, track_scope. cbn [inst_disposable]. rewrite Hnd.
          destruct (ds_life d); [apply tracked_single_set|apply tracked_cache_set|reflexivity]. }
        rewrite Ht. split; assumption.
      - destruct (reg_params (ds_reg d)) as [inobj ps0].
        pose proof (o_args_loop ps0 rs inobj [] H) as H1.
        destruct (args_loop recd rs h inobj ps0 []) as [rs1 [args|e]]; cbn [fst] in *; [|exact H1].
        set (rid := r_id (ds_reg d)). set (inv := get_inv (rs_invs rs1) rid).
        set (o := effective_outcome (ds_reg d) inv).
        set (rs2' := log (mkRs (bump_inv (rs_invs rs1) rid) (rs_p rs1) (rs_ev rs1)) (EvCtor rid inv args o)).
        assert (H2 : Once c F rs2') by (apply once_ctor; exact H1).
        set (rs2 := if cancels (ds_reg d) inv then log rs2' EvCancel else rs2').
        assert (H3 : Once c F rs2) by (unfold rs2; destruct (cancels (ds_reg d) inv); exact H2).
        assert (Hp : rs_p rs2 = rs_p rs1) by (unfold rs2, rs2'; destruct (cancels (ds_reg d) inv); reflexivity).
        assert (Hi : rs_invs rs2 = bump_inv (rs_invs rs1) rid) by (unfold rs2, rs2'; destruct (cancels (ds_reg d) inv); reflexivity).
        assert (Hcnt : get_inv (rs_invs rs2) rid = S inv) by (rewrite Hi; apply get_inv_bump_same).
        assert (Hnone : forall j k, In j (tracked (rs_p rs2) ++ F) -> of_invocation rid inv j k -> False).
        { intros j k Hj Hof. rewrite Hp in Hj. destruct H1 as (_ & _ & Hb1). exact (none_of_this_invocation (rs_invs rs1) _ rid j k Hb1 Hj Hof). }
        destruct o; cbn [fst]; try exact H3.
        destruct rets as [|t0 [|t1 ts]]; cbn [fst]; unfold set_instance.
        + (* an initializer: IVoid is not disposable *)
          destruct H3 as (Hd & Hn & Hb). unfold Once; cbn [rs_p rs_invs with_p]. rewrite descs_store. split; [exact Hd|].
          assert (Ht : tracked (store (ds_life d) (rs_p rs2) h (ds_ident d) IVoid) = tracked (rs_p rs2)).
          { unfold store, track_single, track_scope. cbn [inst_disposable].
            destruct (ds_life d); [apply tracked_single_set|apply tracked_cache_set|reflexivity]. }
          rewrite Ht. split; assumption.
        + apply (once_share_all c F (ds_life d) _ (with_p rs2 (store (ds_life d) (rs_p rs2) h (ds_ident d) (out_inst (ds_reg d) inv 0)))).
          apply once_store; [exact H3| |cbn; fold rid; rewrite Hcnt; lia].
          intros Hin. apply (Hnone _ 0 Hin). eexists; reflexivity.
        + apply once_fan_out; [exact H3|exact Hcnt|apply seq_NoDup|].
          intros j k Hj Hof _. exact (Hnone j k Hj Hof).
      - destruct (reg_params (ds_reg d)) as [inobj ps0].
        pose proof (o_args_loop ps0 rs inobj [] H) as H1.
        destruct (args_loop recd rs h inobj ps0 []) as [rs1 [args|e]]; cbn [fst] in *; [|exact H1].
        set (rid := r_id (ds_reg d)). set (inv := get_inv (rs_invs rs1) rid).
        set (o := effective_outcome (ds_reg d) inv).
        set (rs2' := log (mkRs (bump_inv (rs_invs rs1) rid) (rs_p rs1) (rs_ev rs1)) (EvCtor rid inv args o)).
        assert (H2 : Once c F rs2') by (apply once_ctor; exact H1).
        set (rs2 := if cancels (ds_reg d) inv then log rs2' EvCancel else rs2').
        assert (H3 : Once c F rs2) by (unfold rs2; destruct (cancels (ds_reg d) inv); exact H2).
        assert (Hp : rs_p rs2 = rs_p rs1) by (unfold rs2, rs2'; destruct (cancels (ds_reg d) inv); reflexivity).
        assert (Hi : rs_invs rs2 = bump_inv (rs_invs rs1) rid) by (unfold rs2, rs2'; destruct (cancels (ds_reg d) inv); reflexivity).
        assert (Hcnt : get_inv (rs_invs rs2) rid = S inv) by (rewrite Hi; apply get_inv_bump_same).
        assert (Hnone : forall j k, In j (tracked (rs_p rs2) ++ F) -> of_invocation rid inv j k -> False).
        { intros j k Hj Hof. rewrite Hp in Hj. destruct H1 as (_ & _ & Hb1). exact (none_of_this_invocation (rs_invs rs1) _ rid j k Hb1 Hj Hof). }
        destruct o; cbn [fst]; try exact H3.
        match goal with |- context [stores_any ?a ?b ?c] => destruct (stores_any a b c) end; cbn [fst];
          [apply once_fan_out|apply once_drop_only]; try (exact H3 || exact Hcnt || apply seq_NoDup);
          intros j k Hj Hof _; exact (Hnone j k Hj Hof).
    Qed.
  End WithRec.

  Theorem resolution_lists_each_instance_once : forall fuel rs h d, In d c -> Once c F rs -> Once c F (fst (resolve_d fuel rs h d)).
  Proof.
    induction fuel as [|f IH]; intros rs h d Hd H; cbn [resolve_d]; [exact H|].
    destruct (ds_life d).
    - destruct (lookup_i (p_single (rs_p rs)) (ds_ident d)); exact H.
    - destruct (lookup_i (sc_cache (get_scope (rs_p rs) h)) (ds_ident d)); [exact H|].
      apply o_create; [intros rs0 d0 Hd0 H0; apply IH; assumption|exact Hd|exact H].
    - apply o_create; [intros rs0 d0 Hd0 H0; apply IH; assumption|exact Hd|exact H].
  Qed.

  (* at the API level: a request by type and key, a group request, an initializer or a singleton created directly *)
  Corollary request_lists_each_instance_once rs h t k : Once c F rs -> Once c F (fst (resolve_req rs h t k)).
  Proof.
    intros H. unfold resolve_req. apply (o_req h); [|exact H].
    intros rs0 d Hd H0. apply resolution_lists_each_instance_once; assumption.
  Qed.
  Corollary group_request_lists_each_instance_once rs h t g : Once c F rs -> Once c F (fst (resolve_group rs h t g)).
  Proof.
    intros H. unfold resolve_group, group_value. apply (o_group_loop h); [| |exact H].
    - intros rs0 d Hd H0. apply resolution_lists_each_instance_once; assumption.
    - intros m Hm. unfold group_members in Hm. apply filter_In in Hm. destruct H as (Hd & _). rewrite <- Hd. exact (proj1 Hm).
  Qed.
  Corollary create_top_lists_each_instance_once rs h d : In d c -> Once c F rs -> Once c F (fst (create_top rs h d)).
  Proof.
    intros Hd H. unfold create_top. apply o_create; [|exact Hd|exact H].
    intros rs0 d0 Hd0 H0. apply resolution_lists_each_instance_once; assumption.
  Qed.
End Once.

(* non-vacuity: a freshly built provider that owns nothing yet meets the invariant *)
Example once_holds_initially c invs :
  Once c [] (mkRs invs (mkProv c [mkScope 0 0 [] [] true] [] [] true) []).
Proof. repeat split; constructor. Qed.
