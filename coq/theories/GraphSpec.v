(* GraphSpec.v — the plain reference digraph that the dependency-graph component is compared with
   (C19), its operations and queries, and the observation type of the graph harness.
   Nodes are numbers (the harness maps them to (type,key,group) identities). Definitions only. *)
From Godi Require Import Base GDfs.

Record digraph := mkDG {
  dg_nodes : list nat;                      (* insertion order, no duplicates *)
  dg_edges : list (nat * list nat)          (* node -> declared dependencies, in declared order *)
}.
Definition dg_empty : digraph := mkDG [] [].

Definition memn (x : nat) (l : list nat) : bool := existsb (Nat.eqb x) l.
Fixpoint edges_of (es : list (nat * list nat)) (u : nat) : list nat :=
  match es with
  | [] => []
  | (v, ds) :: es' => if v =? u then ds else edges_of es' u
  end.
Definition succ (g : digraph) (u : nat) : list nat := edges_of (dg_edges g) u.
Definition del_edges (es : list (nat * list nat)) (u : nat) : list (nat * list nat) :=
  filter (fun p => negb (fst p =? u)) es.
Definition set_edges (es : list (nat * list nat)) (u : nat) (ds : list nat) : list (nat * list nat) :=
  (u, ds) :: del_edges es u.
Fixpoint add_nodes (ns : list nat) (xs : list nat) : list nat :=
  match xs with
  | [] => ns
  | x :: xs' => if memn x ns then add_nodes ns xs' else add_nodes (ns ++ [x]) xs'
  end.

(* is there a cycle through u *)
Definition cycle_from (g : digraph) (u : nat) : bool :=
  match dfs (succ g) (S (length (dg_nodes g))) [] [] u with
  | Cycle _ => true
  | _ => false
  end.
Definition acyclic (g : digraph) : bool :=
  match detect (succ g) (dg_nodes g) (dg_nodes g) with None => true | Some _ => false end.

Inductive gop :=
| GAdd (u : nat) (ds : list nat)            (* AddProvider: rejected if it closes a cycle through u *)
| GAddDeferred (u : nat) (ds : list nat)    (* AddProviderDeferred *)
| GDetect                                   (* DetectCycles: completes a deferred batch *)
| GRemove (u : nat)
| GClear.

(* the reference semantics; the boolean is "accepted" (for GDetect: no cycle found) *)
Definition gstep (g : digraph) (o : gop) : digraph * bool :=
  match o with
  | GAdd u ds =>
      let g' := mkDG (add_nodes (dg_nodes g) (u :: ds)) (set_edges (dg_edges g) u ds) in
      if cycle_from g' u then (g, false) else (g', true)
  | GAddDeferred u ds =>
      (mkDG (add_nodes (dg_nodes g) (u :: ds))
            (match ds with [] => del_edges (dg_edges g) u | _ => set_edges (dg_edges g) u ds end), true)
  | GDetect => (g, acyclic g)
  | GRemove u =>
      if memn u (dg_nodes g)
      then (mkDG (filter (fun x => negb (x =? u)) (dg_nodes g))
                 (map (fun p => (fst p, filter (fun x => negb (x =? u)) (snd p))) (del_edges (dg_edges g) u)), true)
      else (g, true)
  | GClear => (dg_empty, true)
  end.

(* ------------------------------------------------------------------ queries *)
Definition q_dependents (g : digraph) (u : nat) : list nat :=
  flat_map (fun v => if memn v (dg_nodes g) then map (fun _ => v) (filter (Nat.eqb u) (succ g v)) else []) (map fst (dg_edges g)).
Definition q_indegree (g : digraph) (u : nat) : nat := length (q_dependents g u).
Definition q_outdegree (g : digraph) (u : nat) : nat := length (succ g u).
Definition q_roots (g : digraph) : list nat := filter (fun u => q_indegree g u =? 0) (dg_nodes g).
Definition q_leaves (g : digraph) : list nat := filter (fun u => q_outdegree g u =? 0) (dg_nodes g).

Fixpoint reach (fuel : nat) (g : digraph) (seen : list nat) (u : nat) : list nat :=
  match fuel with
  | 0 => seen
  | S f => fold_left (fun acc v => if memn v acc then acc else reach f g (v :: acc) v) (succ g u) seen
  end.
(* every node other than u reachable from u (on an acyclic graph: every node reachable by at least one
   edge; on a cyclic one the component's convention is that a node is not its own transitive dependency) *)
Definition q_transitive (g : digraph) (u : nat) : list nat :=
  filter (fun v => negb (v =? u)) (reach (S (length (dg_nodes g))) g [u] u).

Fixpoint depth_of (fuel : nat) (g : digraph) (u : nat) : nat :=
  match fuel with
  | 0 => 0
  | S f => fold_left (fun m v => Nat.max m (S (depth_of f g v))) (succ g u) 0
  end.
Definition q_depth (g : digraph) (u : nat) : nat := depth_of (S (length (dg_nodes g))) g u.

(* a claimed topological order: a permutation of the nodes with every dependency before its dependent *)
Fixpoint index_nat (x : nat) (l : list nat) : nat :=
  match l with [] => 0 | y :: l' => if x =? y then 0 else S (index_nat x l') end.
Fixpoint nodup_b (l : list nat) : bool :=
  match l with [] => true | x :: l' => negb (memn x l') && nodup_b l' end.
Definition same_set (a b : list nat) : bool := forallb (fun x => memn x b) a && forallb (fun x => memn x a) b.
Definition valid_topo (g : digraph) (l : list nat) : bool :=
  nodup_b l && same_set l (dg_nodes g) && (length l =? length (dg_nodes g)) &&
  forallb (fun u => forallb (fun d => index_nat d l <? index_nat u l) (succ g u)) (dg_nodes g).

Fixpoint path_ok (g : digraph) (p : list nat) : bool :=
  match p with
  | a :: ((b :: _) as rest) => memn b (succ g a) && path_ok g rest
  | _ => true
  end.
Definition real_cycle_nat (g : digraph) (p : list nat) : bool :=
  match p with
  | [] => false
  | [a] => memn a (succ g a)
  | a :: _ => path_ok g p && ((last p a =? a) || memn a (succ g (last p a)))
  end.

(* ------------------------------------------------------------------ observations of the real component *)
Record gobs := mkObs {
  o_accepted : bool;                       (* the operation returned no error *)
  o_path : list nat;                       (* reported cycle path, if an error carried one *)
  o_dirty : bool;                          (* a deferred batch is open: degree-based answers are not yet defined *)
  o_size : nat;
  o_has : list bool;                       (* per pool identity *)
  o_deps : list (list nat);
  o_dependents : list (list nat);
  o_trans : list (list nat);
  o_acyclic : bool;
  o_topo : option (list nat);
  o_roots : list nat;
  o_leaves : list nat;
  o_depths : list nat;                     (* per pool identity; only meaningful on acyclic states *)
  o_indeg : list nat;
  o_outdeg : list nat
}.

Definition same_multiset (a b : list nat) : bool :=
  (length a =? length b) && forallb (fun x => length (filter (Nat.eqb x) a) =? length (filter (Nat.eqb x) b)) a.
Fixpoint list_eqb_nat (a b : list nat) : bool :=
  match a, b with
  | [], [] => true
  | x :: a', y :: b' => (x =? y) && list_eqb_nat a' b'
  | _, _ => false
  end.
Definition nth_l {A} (l : list (list A)) (i : nat) : list A := nth i l [].

(* does one observation agree with the reference digraph (pool = identities 0 .. npool-1) *)
Definition obs_agrees (npool : nat) (g : digraph) (accepted : bool) (o : gop) (ob : gobs) : bool :=
  let ids := seq 0 npool in
  Bool.eqb (o_accepted ob) accepted
  && (o_accepted ob || match o with GAdd _ _ | GDetect => real_cycle_nat (match o with GAdd u ds => mkDG (add_nodes (dg_nodes g) (u :: ds)) (set_edges (dg_edges g) u ds) | _ => g end) (o_path ob) | _ => true end)
  && (o_size ob =? length (dg_nodes g))
  && forallb (fun i => Bool.eqb (nth i (o_has ob) false) (memn i (dg_nodes g))) ids
  && forallb (fun i => list_eqb_nat (nth_l (o_deps ob) i) (if memn i (dg_nodes g) then succ g i else [])) ids
  && forallb (fun i => same_set (nth_l (o_trans ob) i) (q_transitive g i) && nodup_b (nth_l (o_trans ob) i)) ids
  && (o_dirty ob ||
      (Bool.eqb (o_acyclic ob) (acyclic g)
       && forallb (fun i => same_multiset (nth_l (o_dependents ob) i) (if memn i (dg_nodes g) then q_dependents g i else [])) ids
       && same_set (o_roots ob) (q_roots g) && nodup_b (o_roots ob)
       && same_set (o_leaves ob) (q_leaves g) && nodup_b (o_leaves ob)
       && forallb (fun i => negb (memn i (dg_nodes g)) || ((nth i (o_indeg ob) 0 =? q_indegree g i) && (nth i (o_outdeg ob) 0 =? q_outdegree g i))) ids
       && match o_topo ob with
          | Some l => acyclic g && valid_topo g l
          | None => negb (acyclic g)
          end
       && (negb (acyclic g) || forallb (fun i => negb (memn i (dg_nodes g)) || (nth i (o_depths ob) 0 =? q_depth g i)) ids))).

(* index (from 1) of the first step whose observation disagrees with the reference; 0 = none *)
Fixpoint graph_first_diff (npool n : nat) (g : digraph) (ops : list gop) (obs : list gobs) : nat :=
  match ops, obs with
  | o :: ops', ob :: obs' =>
      let '(g', acc) := gstep g o in
      if obs_agrees npool g' acc o ob then graph_first_diff npool (S n) g' ops' obs' else n
  | [], [] => 0
  | _, _ => n
  end.
Definition check_graph (npool : nat) (ops : list gop) (obs : list gobs) : list nat * bool * nat :=
  ([graph_first_diff npool 1 dg_empty ops obs], true, 0).
