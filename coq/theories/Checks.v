(* Checks.v — the per-property entry points evaluated by the generated case files. *)
From Godi Require Import Base Model Check Monitors.

Definition with_monitor (mon : list op -> trace -> bool) (cs : list (list op * trace)) : list nat * bool * nat :=
  (map (fun '(o, t) => corr o t) cs, forallb (fun '(o, t) => mon o t) cs, 0).
Definition check_C01 := with_monitor holds_C01.
Definition check_C02 := with_monitor holds_C02.
Definition check_C03 := with_monitor holds_C03.
Definition check_C04 := with_monitor holds_C04.
Definition check_C05 := with_monitor holds_C05.
Definition check_C07 := with_monitor holds_C07.
Definition check_C08 := with_monitor holds_C08.
Definition check_C10 := with_monitor holds_C10.
Definition check_C11 := with_monitor holds_C11.
Definition check_C12 := with_monitor holds_C12.
Definition check_C13 := with_monitor holds_C13.
Definition check_C14 := with_monitor holds_C14.
Definition check_C15 := with_monitor holds_C15.
Definition check_C18 := with_monitor holds_C18.

(* C17, "a provider that has been built is unaffected by later changes to the collection": a case may come
   with a twin in which the collection calls after the Build are left out; the first provider's part of both
   traces (its Build and every later step on it) must be equivalent *)
Definition is_collection_op (o : op) : bool :=
  match o with
  | OAdd _ | ORemove _ | ORemoveKeyed _ _ | OModules _ | OContains _ | OContainsKeyed _ _ | OCount | OSlice => true
  | _ => false
  end.
Fixpoint provider_steps (built : bool) (ops : list op) (tr : trace) : trace :=
  match ops, tr with
  | o :: ops', s :: tr' =>
      match o with
      | OBuild _ => if built then provider_steps built ops' tr' else s :: provider_steps true ops' tr'
      | OCancel _ _ => if built then s :: provider_steps built ops' tr' else provider_steps built ops' tr'
      | _ => if built && match op_prov o with Some 0 => true | _ => false end
             then s :: provider_steps built ops' tr' else provider_steps built ops' tr'
      end
  | _, _ => []
  end.
Definition check_C17 (cs : list (list op * trace)) : list nat * bool * nat :=
  (map (fun '(o, t) => corr o t) cs,
   forallb (fun '(o, t) => holds_C17 o t) cs &&
   match cs with
   | [(oa, ta); (ob, tb)] => traces_equiv [] [] (provider_steps false oa ta) (provider_steps false ob tb)
   | _ => true
   end, 0).

(* C20: module twins — (modules case, flattened twin) *)
Definition check_C20 (cs : list (list op * trace)) : list nat * bool * nat :=
  match cs with
  | [(om, tm); (of, tf)] => ([corr om tm; corr of tf], twin_ok om tm of tf, 0)
  | _ => ([], false, 0)
  end.

(* C06: the same registration set built repeatedly and in permuted registration orders: every
   variant agrees with the model, and from Build on all variants are equivalent (same verdict,
   same results, isomorphic object graphs) *)
Fixpoint from_build (ops : list op) (tr : trace) : trace :=
  match ops, tr with
  | o :: ops', s :: tr' => match o with OBuild _ => tr | _ => from_build ops' tr' end
  | _, _ => []
  end.
Definition check_C06 (cs : list (list op * trace)) : list nat * bool * nat :=
  (map (fun '(o, t) => corr o t) cs,
   match cs with
   | (o0, t0) :: rest =>
       negb (match from_build o0 t0 with [] => true | _ => false end) &&
       forallb (fun '(o, t) => traces_equiv [] [] (from_build o0 t0) (from_build o t)) rest
   | [] => false
   end, 0).
Definition check_C19 := fun (_ : list (list op * trace)) => (@nil nat, false, 0).
