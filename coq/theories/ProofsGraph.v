(* ProofsGraph.v — theorems about the reference digraph of GraphSpec.v: it stays closed under every
   history of mutations (so the exactness theorems of GDfs apply to it), a rejected add leaves it
   unchanged, its acyclicity verdict is exact, and the acceptor for topological orders is sound. *)
From Godi Require Import Base GDfs GraphSpec.

Lemma memn_In x l : memn x l = true <-> In x l.
Proof.
  unfold memn. rewrite existsb_exists. split.
  - intros [y [Hy He]]. apply Nat.eqb_eq in He. subst. exact Hy.
  - intros H. exists x. split; [exact H|apply Nat.eqb_refl].
Qed.
Lemma memn_nIn x l : memn x l = false <-> ~ In x l.
Proof. rewrite <- memn_In. destruct (memn x l); split; congruence. Qed.

(* ------------------------------------------------------------------ add_nodes *)
Lemma add_nodes_keeps xs : forall ns x, In x ns -> In x (add_nodes ns xs).
Proof.
  induction xs as [|y xs IH]; intros ns x H; cbn [add_nodes]; [exact H|].
  destruct (memn y ns); apply IH; [exact H|apply in_or_app; left; exact H].
Qed.
Lemma add_nodes_adds xs : forall ns x, In x xs -> In x (add_nodes ns xs).
Proof.
  induction xs as [|y xs IH]; intros ns x H; [destruct H|]. cbn [add_nodes].
  destruct H as [->|H].
  - destruct (memn x ns) eqn:Hm.
    + apply add_nodes_keeps. apply memn_In. exact Hm.
    + apply add_nodes_keeps. apply in_or_app. right. left. reflexivity.
  - destruct (memn y ns); apply IH; exact H.
Qed.
Lemma add_nodes_only xs : forall ns x, In x (add_nodes ns xs) -> In x ns \/ In x xs.
Proof.
  induction xs as [|y xs IH]; intros ns x H; cbn [add_nodes] in H; [left; exact H|].
  destruct (memn y ns).
  - destruct (IH _ _ H) as [H1|H1]; [left; exact H1|right; right; exact H1].
  - destruct (IH _ _ H) as [H1|H1]; [|right; right; exact H1].
    apply in_app_or in H1. destruct H1 as [H1|[<-|[]]]; [left; exact H1|right; left; reflexivity].
Qed.

(* ------------------------------------------------------------------ edges *)
Lemma edges_of_del es u v : edges_of (del_edges es u) v = if v =? u then [] else edges_of es v.
Proof.
  unfold del_edges. induction es as [|[w ds] es IH]; cbn [filter edges_of fst]; [destruct (v =? u); reflexivity|].
  destruct (w =? u) eqn:Hwu; cbn [negb].
  - rewrite IH. destruct (v =? u) eqn:Hvu; [reflexivity|].
    apply Nat.eqb_eq in Hwu. subst. rewrite Nat.eqb_sym, Hvu. reflexivity.
  - cbn [edges_of]. rewrite IH. destruct (w =? v) eqn:Hwv; [|reflexivity].
    apply Nat.eqb_eq in Hwv. subst. rewrite Hwu. reflexivity.
Qed.
Lemma edges_of_set es u ds v : edges_of (set_edges es u ds) v = if v =? u then ds else edges_of es v.
Proof.
  unfold set_edges. cbn [edges_of]. rewrite edges_of_del.
  destruct (u =? v) eqn:E; [apply Nat.eqb_eq in E; subst; rewrite Nat.eqb_refl; reflexivity|].
  rewrite Nat.eqb_sym, E. reflexivity.
Qed.
Lemma edges_of_map_filter es u v :
  edges_of (map (fun p => (fst p, filter (fun x => negb (x =? u)) (snd p))) es) v =
  filter (fun x => negb (x =? u)) (edges_of es v).
Proof.
  induction es as [|[w ds] es IH]; cbn [map edges_of fst snd]; [reflexivity|].
  destruct (w =? v); [reflexivity|exact IH].
Qed.

(* ------------------------------------------------------------------ the invariant *)
(* every edge leads to a node, and only nodes have edges *)
Definition wf (g : digraph) : Prop :=
  (forall u v, In v (succ g u) -> In v (dg_nodes g)) /\ (forall u, ~ In u (dg_nodes g) -> succ g u = []).

Lemma wf_empty : wf dg_empty.
Proof. split; [intros u v []|reflexivity]. Qed.

Lemma wf_added g u ds : wf g ->
  wf (mkDG (add_nodes (dg_nodes g) (u :: ds)) (set_edges (dg_edges g) u ds)).
Proof.
  intros [H1 H2]. split; unfold succ in *; cbn [dg_nodes dg_edges].
  - intros a v. rewrite edges_of_set. destruct (a =? u).
    + intros Hv. apply add_nodes_adds. right. exact Hv.
    + intros Hv. apply add_nodes_keeps. exact (H1 a v Hv).
  - intros a Ha. rewrite edges_of_set. destruct (a =? u) eqn:E.
    + apply Nat.eqb_eq in E. subst. exfalso. apply Ha. apply add_nodes_adds. left. reflexivity.
    + apply H2. intros Hin. apply Ha. apply add_nodes_keeps. exact Hin.
Qed.

Lemma wf_deferred_nodeps g u : wf g ->
  wf (mkDG (add_nodes (dg_nodes g) [u]) (del_edges (dg_edges g) u)).
Proof.
  intros [H1 H2]. split; unfold succ in *; cbn [dg_nodes dg_edges].
  - intros a v. rewrite edges_of_del. destruct (a =? u); [intros []|].
    intros Hv. apply add_nodes_keeps. exact (H1 a v Hv).
  - intros a Ha. rewrite edges_of_del. destruct (a =? u); [reflexivity|].
    apply H2. intros Hin. apply Ha. apply add_nodes_keeps. exact Hin.
Qed.

Lemma wf_removed g u : wf g ->
  wf (mkDG (filter (fun x => negb (x =? u)) (dg_nodes g))
           (map (fun p => (fst p, filter (fun x => negb (x =? u)) (snd p))) (del_edges (dg_edges g) u))).
Proof.
  intros [H1 H2]. split; unfold succ in *; cbn [dg_nodes dg_edges].
  - intros a v. rewrite edges_of_map_filter, edges_of_del. destruct (a =? u); [intros []|].
    intros Hv. apply filter_In in Hv. destruct Hv as [Hv Hne]. apply filter_In. split; [exact (H1 a v Hv)|exact Hne].
  - intros a Ha. rewrite edges_of_map_filter, edges_of_del. destruct (a =? u) eqn:E; [reflexivity|].
    rewrite H2; [reflexivity|]. intros Hin. apply Ha. apply filter_In. split; [exact Hin|rewrite E; reflexivity].
Qed.

Theorem gstep_wf g o : wf g -> wf (fst (gstep g o)).
Proof.
  intros H. destruct o; cbn [gstep].
  - destruct (cycle_from _ u); cbn [fst]; [exact H|apply wf_added; exact H].
  - cbn [fst]. destruct ds as [|d ds]; [apply wf_deferred_nodeps|apply wf_added]; exact H.
  - exact H.
  - destruct (memn u (dg_nodes g)); cbn [fst]; [apply wf_removed|]; exact H.
  - exact wf_empty.
Qed.

Definition grun (ops : list gop) : digraph := fold_left (fun g o => fst (gstep g o)) ops dg_empty.

Theorem reference_always_closed ops : wf (grun ops).
Proof.
  unfold grun. assert (forall g, wf g -> wf (fold_left (fun g o => fst (gstep g o)) ops g)) as H.
  { induction ops as [|o ops IH]; intros g Hg; cbn [fold_left]; [exact Hg|]. apply IH. apply gstep_wf. exact Hg. }
  apply H. exact wf_empty.
Qed.

(* ------------------------------------------------------------------ a rejected add changes nothing *)
Theorem rejected_add_unchanged g u ds : snd (gstep g (GAdd u ds)) = false -> fst (gstep g (GAdd u ds)) = g.
Proof. cbn [gstep]. destruct (cycle_from _ u); cbn [fst snd]; [reflexivity|discriminate]. Qed.

(* and an accepted one never leaves a cycle through the added node *)
Theorem accepted_add_no_cycle_through g u ds :
  snd (gstep g (GAdd u ds)) = true -> cycle_from (fst (gstep g (GAdd u ds))) u = false.
Proof.
  cbn [gstep]. destruct (cycle_from (mkDG _ _) u) eqn:E; cbn [fst snd]; [discriminate|intros _; exact E].
Qed.

(* ------------------------------------------------------------------ the acyclicity verdict is exact *)
Theorem acyclic_exact g : wf g ->
  (acyclic g = true <-> forall u, In u (dg_nodes g) -> ~ on_cycle (succ g) u).
Proof.
  intros [H1 H2]. unfold acyclic.
  pose proof (detect_exact (succ g) (dg_nodes g) (fun u v _ Hv => H1 u v Hv) (dg_nodes g) (fun u => conj (fun x => x) (fun x => x))) as E.
  destruct (detect (succ g) (dg_nodes g) (dg_nodes g)) eqn:Hd.
  - split; [discriminate|]. intros Hac. destruct E as [_ E2]. specialize (E2 Hac). discriminate.
  - split; [intros _; apply E; reflexivity|reflexivity].
Qed.

Corollary acyclic_exact_on_histories ops :
  acyclic (grun ops) = true <-> forall u, In u (dg_nodes (grun ops)) -> ~ on_cycle (succ (grun ops)) u.
Proof. apply acyclic_exact. apply reference_always_closed. Qed.

(* ------------------------------------------------------------------ the acceptor for topological orders is sound *)
Lemma nodup_b_NoDup l : nodup_b l = true -> NoDup l.
Proof.
  induction l as [|x l IH]; cbn [nodup_b]; [constructor|].
  intros H. apply andb_prop in H. destruct H as [Hx Hl]. constructor; [|apply IH; exact Hl].
  apply memn_nIn. destruct (memn x l); [discriminate|reflexivity].
Qed.
Lemma same_set_iff a b : same_set a b = true -> forall x, In x a <-> In x b.
Proof.
  unfold same_set. intros H. apply andb_prop in H. destruct H as [H1 H2].
  rewrite forallb_forall in H1, H2. intros x. split; intros Hx; apply memn_In; auto.
Qed.

Theorem valid_topo_sound g l : valid_topo g l = true ->
  NoDup l /\ (forall u, In u l <-> In u (dg_nodes g)) /\
  forall u d, In u (dg_nodes g) -> In d (succ g u) -> index_nat d l < index_nat u l.
Proof.
  unfold valid_topo. intros H.
  apply andb_prop in H. destruct H as [H H4]. apply andb_prop in H. destruct H as [H H3].
  apply andb_prop in H. destruct H as [H1 H2].
  split; [apply nodup_b_NoDup; exact H1|]. split; [apply same_set_iff; exact H2|].
  intros u d Hu Hd. rewrite forallb_forall in H4. specialize (H4 u Hu). rewrite forallb_forall in H4.
  specialize (H4 d Hd). apply Nat.ltb_lt. exact H4.
Qed.

(* a real cycle reported as a path is a cycle of the reference *)
Lemma path_ok_edges g p : path_ok g p = true ->
  forall a b l1 l2, p = l1 ++ a :: b :: l2 -> In b (succ g a).
Proof.
  induction p as [|x p IH]; intros H a b l1 l2 E; [destruct l1; discriminate|].
  destruct p as [|y p']; [destruct l1 as [|? [|? ?]]; discriminate|].
  cbn [path_ok] in H. apply andb_prop in H. destruct H as [Hxy Hrest].
  destruct l1 as [|z l1]; cbn [app] in E.
  - inversion E; subst. apply memn_In. exact Hxy.
  - inversion E; subst. eapply IH; [exact Hrest|eassumption].
Qed.
