(* ProofsCalls.v — the premise of the C02 stability theorem is an invariant of the registry: after every history of
   registrations (no As on an initializer), removals and modules, the registry
   meets [calls_wf]: every descriptor of a multi-output call is found under its output number, the descriptors of one
   call share the registration, an initializer's call has one descriptor. *)
From Godi Require Import Base Model Check ProofsRegistry ProofsRuntime ProofsTerm ProofsWf ProofsOutputs ProofsStable.

Definition call_bound (c : coll) (v : nat) : Prop := forall d, In d c -> ds_call d <= v.
Definition calls_rest (c : coll) : Prop :=
  (forall d x, In d c -> In x c -> same_call x d -> multi (ds_reg d) = true ->
     output_desc c d (ds_out x) = Some x /\ ds_out x < arity (ds_reg d)) /\
  (forall d x, In d c -> In x c -> same_call x d -> ds_reg x = ds_reg d) /\
  (forall d x io ps e, In d c -> In x c -> same_call x d -> r_form (ds_reg d) = FCtor io ps [] e -> x = d).
Definition W (c : coll) (v : nat) : Prop := calls_rest c /\ call_bound c v.

(* what registerDescriptor appends keeps everything but the key *)
Definition same_core (x d : desc) : Prop :=
  ds_ty x = ds_ty d /\ ds_grp x = ds_grp d /\ ds_reg x = ds_reg d /\ ds_out x = ds_out d /\ ds_call x = ds_call d.
Lemma register_appends c d c' : register c d = inl c' -> exists x, c' = c ++ [x] /\ same_core x d.
Proof.
  unfold register. destruct (is_reserved (ds_ty d)); [discriminate|].
  assert (Hsvc : match find_service c (ds_ty d) (ds_key d) with Some _ => inr EAlready | None => inl (c ++ [d]) end = inl c' ->
                 exists x, c' = c ++ [x] /\ same_core x d).
  { destruct (find_service c (ds_ty d) (ds_key d)); [discriminate|]. intros E; inversion E; subst. exists d. repeat split. }
  destruct (ds_key d); try exact Hsvc.
  destruct (ds_grp d =? 0); [exact Hsvc|]. intros E; inversion E; subst. eexists. split; [reflexivity|]. repeat split.
Qed.

Fixpoint step_descs (steps : list (desc + eclass)) : list desc :=
  match steps with [] => [] | inl d :: l => d :: step_descs l | inr _ :: l => step_descs l end.
Lemma run_steps_appends steps : forall c c', run_steps c steps = inl c' ->
  exists xs, c' = c ++ xs /\ Forall2 same_core xs (step_descs steps).
Proof.
  induction steps as [|[d|e] steps IH]; intros c c'; cbn [run_steps step_descs].
  - intros E; inversion E; subst. exists []. split; [rewrite app_nil_r; reflexivity|constructor].
  - destruct (register c d) as [c1|e] eqn:Er; [|discriminate]. intros Hr.
    destruct (register_appends c d c1 Er) as [x [-> Hx]]. destruct (IH _ _ Hr) as [xs [-> Hxs]].
    exists (x :: xs). split; [rewrite <- app_assoc; reflexivity|constructor; assumption].
  - discriminate.
Qed.

(* what one addService call tries to register *)
Lemma forall_step_descs_as (P : desc -> Prop) (b : ty -> bool) (mk : ty -> desc) e l :
  (forall i, P (mk i)) -> Forall P (step_descs (map (fun i => if b i then inl (mk i) else inr e) l)).
Proof.
  intros H. induction l as [|i l IH]; cbn [map step_descs]; [constructor|].
  destruct (b i); cbn [step_descs]; [constructor; [apply H|exact IH]|exact IH].
Qed.

Ltac as_branch r :=
  destruct (r_as r) as [|a l]; [repeat constructor|apply forall_step_descs_as; intros i; split; reflexivity].

Lemma add_steps_core r v : Forall (fun d => ds_reg d = r /\ ds_call d = v) (step_descs (add_steps r v)).
Proof.
  unfold add_steps.
  destruct (r_form r) as [t|io ps rets er|io ps fs er].
  - as_branch r.
  - destruct rets as [|t0 [|t1 ts]]; [as_branch r|as_branch r|].
    generalize (combine (seq 0 (length (t0 :: t1 :: ts))) (t0 :: t1 :: ts)). intros l.
    induction l as [|[i t] l IH]; cbn [map step_descs]; [constructor|constructor; [split; reflexivity|exact IH]].
  - generalize (combine (seq 0 (length fs)) fs). intros l.
    induction l as [|[i f] l IH]; cbn [map step_descs]; [constructor|].
    destruct (negb (f_name f =? 0) && negb (f_group f =? 0)); cbn [step_descs]; [exact IH|constructor; [split; reflexivity|exact IH]].
Qed.

(* a registration that went through had no rejected step *)
Definition is_inl (s : desc + eclass) : Prop := match s with inl _ => True | inr _ => False end.
Lemma run_steps_all_inl steps : forall c c', run_steps c steps = inl c' -> Forall is_inl steps.
Proof.
  induction steps as [|[d|e] steps IH]; intros c c'; cbn [run_steps]; [constructor| |discriminate].
  destruct (register c d) as [c1|e]; [|discriminate]. intros Hr. constructor; [exact I|exact (IH _ _ Hr)].
Qed.

Lemma map_fst_combine_seq {A} (l : list A) a : map fst (combine (seq a (length l)) l) = seq a (length l).
Proof. revert a; induction l as [|x l IH]; intros a; cbn [length seq combine map fst]; [reflexivity|]. rewrite IH. reflexivity. Qed.

Lemma result_steps_outs r v (l : list (nat * rfield)) :
  Forall is_inl (map (fun '(i, f) => if negb (f_name f =? 0) && negb (f_group f =? 0) then inr EValidation
                                     else inl (mkDesc (f_ty f) (name_key (f_name f)) (f_group f) r i v)) l) ->
  map ds_out (step_descs (map (fun '(i, f) => if negb (f_name f =? 0) && negb (f_group f =? 0) then inr EValidation
                                     else inl (mkDesc (f_ty f) (name_key (f_name f)) (f_group f) r i v)) l)) = map fst l.
Proof.
  induction l as [|[i f] l IH]; cbn [map step_descs fst]; intros Hall; [reflexivity|].
  inversion Hall as [|s0 l0 Hs Hrest]; subst.
  destruct (negb (f_name f =? 0) && negb (f_group f =? 0)); [destruct Hs|]. cbn [map step_descs fst ds_out].
  rewrite (IH Hrest). reflexivity.
Qed.

Lemma add_steps_outs r v : multi r = true -> Forall is_inl (add_steps r v) -> map ds_out (step_descs (add_steps r v)) = seq 0 (arity r).
Proof.
  unfold multi, arity, add_steps. destruct (r_form r) as [t|io ps rets er|io ps fs er]; [discriminate| |].
  - destruct rets as [|t0 [|t1 ts]]; try discriminate. intros _ _.
    rewrite <- (map_fst_combine_seq (t0 :: t1 :: ts) 0) at 2.
    induction (combine (seq 0 (length (t0 :: t1 :: ts))) (t0 :: t1 :: ts)) as [|[i t] l IH]; cbn [map step_descs fst ds_out]; [reflexivity|].
    rewrite IH. reflexivity.
  - intros _ Hall. rewrite (result_steps_outs r v _ Hall). apply map_fst_combine_seq.
Qed.

Lemma add_steps_void r v io ps e : r_form r = FCtor io ps [] e -> r_as r = [] -> length (step_descs (add_steps r v)) = 1.
Proof. intros Hf Ha. unfold add_steps. rewrite Hf, Ha. reflexivity. Qed.

(* finding a descriptor of one call by its output number *)
Lemma output_desc_app c xs d k :
  output_desc (c ++ xs) d k = match output_desc c d k with Some x => Some x | None => output_desc xs d k end.
Proof. unfold output_desc. induction c as [|a c IH]; cbn [app find]; [reflexivity|]. destruct (_ && _); [reflexivity|exact IH]. Qed.
Lemma output_desc_other_call c d k : (forall x, In x c -> ds_call x <> ds_call d) -> output_desc c d k = None.
Proof.
  intros H. unfold output_desc. induction c as [|a c IH]; [reflexivity|]. cbn [find].
  assert (Ha : (ds_call a =? ds_call d) = false) by (apply Nat.eqb_neq; apply H; left; reflexivity).
  rewrite Ha, andb_false_r. cbn [andb]. apply IH. intros x Hx. apply H. right. exact Hx.
Qed.
Lemma output_desc_by_number xs d : forall a n,
  map ds_out xs = seq a n -> (forall x, In x xs -> ds_rid x = ds_rid d /\ ds_call x = ds_call d) ->
  forall x, In x xs -> output_desc xs d (ds_out x) = Some x.
Proof.
  unfold output_desc. induction xs as [|y xs IH]; intros a n Hm Hall x Hx; [destruct Hx|].
  destruct n as [|n]; [discriminate|]. cbn [map seq] in Hm. injection Hm as Hy Hrest.
  destruct (Hall y (or_introl eq_refl)) as [E1 E2]. cbn [find]. rewrite E1, E2, !Nat.eqb_refl. cbn [andb].
  destruct Hx as [<-|Hx].
  - rewrite Nat.eqb_refl. reflexivity.
  - assert (Hne : (ds_out y =? ds_out x) = false).
    { apply Nat.eqb_neq. assert (Hin : In (ds_out x) (seq (S a) n)) by (rewrite <- Hrest; apply in_map; exact Hx).
      apply in_seq in Hin. lia. }
    rewrite Hne. apply (IH (S a) n Hrest); [intros z Hz; apply Hall; right; exact Hz|exact Hx].
Qed.

Definition void_no_as (r : reg) : Prop := forall io ps e, r_form r = FCtor io ps [] e -> r_as r = [].

Lemma same_core_outs xs ds : Forall2 same_core xs ds -> map ds_out xs = map ds_out ds /\ length xs = length ds.
Proof. induction 1 as [|x d xs ds (_ & _ & _ & Ho & _) _ [IH1 IH2]]; cbn [map length]; [split; reflexivity|]. rewrite Ho, IH1, IH2. split; reflexivity. Qed.
Lemma same_core_all (P : desc -> Prop) xs ds :
  (forall x d, same_core x d -> P d -> P x) -> Forall2 same_core xs ds -> Forall P ds -> Forall P xs.
Proof.
  intros HP. induction 1 as [|x d xs ds Hc _ IH]; intros Hf; [constructor|]. inversion Hf; subst. constructor; [apply (HP x d); assumption|apply IH; assumption].
Qed.

Lemma W_mono c v v' : v <= v' -> W c v -> W c v'.
Proof. intros Hle [Hr Hb]. split; [exact Hr|]. intros d Hd. specialize (Hb d Hd). lia. Qed.

Lemma add_service_W c v r : W c v -> void_no_as r ->
  W (fst (fst (add_service c v r))) (snd (fst (add_service c v r))).
Proof.
  intros HW Hvoid. unfold add_service.
  destruct ((r_bad r =? 1) || (r_bad r =? 6)); [exact HW|].
  destruct ((negb (r_name r =? 0) && negb (r_group r =? 0)) || negb (r_bad r =? 0)); [exact HW|].
  destruct (is_void r && negb (r_group r =? 0)); [apply (W_mono c v (S v)); [lia|exact HW]|].
  destruct (is_reserved (form_type (r_form r))); [apply (W_mono c v (S v)); [lia|exact HW]|].
  destruct (run_steps c (add_steps r (S v))) as [c'|e] eqn:Er; cbn [fst snd]; [|apply (W_mono c v (S v)); [lia|exact HW]].
  destruct (run_steps_appends _ _ _ Er) as [xs [-> Hxs]].
  destruct HW as [(H2 & H3 & H4) Hb].
  assert (Hnew : Forall (fun x => ds_reg x = r /\ ds_call x = S v) xs).
  { apply (same_core_all _ xs _ (fun x d (Hc : same_core x d) (Hd : ds_reg d = r /\ ds_call d = S v) =>
             match Hc with conj _ (conj _ (conj E3 (conj _ E5))) => conj (eq_trans E3 (proj1 Hd)) (eq_trans E5 (proj2 Hd)) end) Hxs (add_steps_core r (S v))). }
  rewrite Forall_forall in Hnew.
  assert (Hold_call : forall d, In d c -> ds_call d <> S v) by (intros d Hd; specialize (Hb d Hd); lia).
  assert (Hsplit : forall d, In d (c ++ xs) -> (In d c /\ ds_call d <= v) \/ (In d xs /\ ds_reg d = r /\ ds_call d = S v)).
  { intros d Hd. apply in_app_or in Hd. destruct Hd as [Hd|Hd]; [left; split; [exact Hd|apply Hb; exact Hd]|right; split; [exact Hd|apply Hnew; exact Hd]]. }
  split.
  - unfold calls_rest. split; [|split].
    + intros d x Hd Hx [E1 E2] Hm.
      destruct (Hsplit d Hd) as [[Hdc Hdv]|(Hdx & Hdr & Hdv)], (Hsplit x Hx) as [[Hxc Hxv]|(Hxx & Hxr & Hxv)]; try lia.
      * destruct (H2 d x Hdc Hxc (conj E1 E2) Hm) as [Ho Hlt]. split; [|exact Hlt].
        rewrite output_desc_app, Ho. reflexivity.
      * rewrite Hdr in Hm |- *.
        destruct (same_core_outs _ _ Hxs) as [Houts _]. rewrite (add_steps_outs r (S v) Hm (run_steps_all_inl _ _ _ Er)) in Houts.
        split.
        -- rewrite output_desc_app, (output_desc_other_call c d) by (intros y Hy; rewrite Hdv; apply Hold_call; exact Hy).
           apply (output_desc_by_number xs d 0 (arity r) Houts); [|exact Hxx].
           intros y Hy. destruct (Hnew y Hy) as [Hyr Hyc]. unfold ds_rid. rewrite Hyr, Hdr, Hyc, Hdv. split; reflexivity.
        -- assert (Hin : In (ds_out x) (seq 0 (arity r))) by (rewrite <- Houts; apply in_map; exact Hxx). apply in_seq in Hin. lia.
    + intros d x Hd Hx [E1 E2].
      destruct (Hsplit d Hd) as [[Hdc Hdv]|(Hdx & Hdr & Hdv)], (Hsplit x Hx) as [[Hxc Hxv]|(Hxx & Hxr & Hxv)]; try lia.
      * exact (H3 d x Hdc Hxc (conj E1 E2)).
      * congruence.
    + intros d x io ps e Hd Hx [E1 E2] Hf.
      destruct (Hsplit d Hd) as [[Hdc Hdv]|(Hdx & Hdr & Hdv)], (Hsplit x Hx) as [[Hxc Hxv]|(Hxx & Hxr & Hxv)]; try lia.
      * exact (H4 d x io ps e Hdc Hxc (conj E1 E2) Hf).
      * rewrite Hdr in Hf. destruct (same_core_outs _ _ Hxs) as [_ Hlen].
        rewrite (add_steps_void r (S v) io ps e Hf (Hvoid io ps e Hf)) in Hlen.
        destruct xs as [|y [|z xs']]; try discriminate. destruct Hdx as [<-|[]], Hxx as [<-|[]]. reflexivity.
  - intros d Hd. destruct (Hsplit d Hd) as [[_ H]|(_ & _ & H)]; lia.
Qed.

(* ------------------------------------------------------------------ Remove *)
Lemma NoDup_of_idents c : NoDup (map ds_ident c) -> NoDup c.
Proof.
  induction c as [|a c IH]; cbn [map]; intros H; [constructor|]. inversion H as [|? ? Ha Hc]; subst.
  constructor; [intros Hin; apply Ha; apply in_map; exact Hin|apply IH; exact Hc].
Qed.

Lemma find_after_rm (f : desc -> bool) t k c x : NoDup c -> find f c = Some x -> In x (rm t k c) -> find f (rm t k c) = Some x.
Proof.
  induction c as [|a c IH]; intros Hn Hf Hx; [discriminate|]. inversion Hn as [|? ? Ha Hc]; subst. cbn [rm] in *.
  destruct (in_services a && (ds_ty a =? t) && key_eqb (ds_key a) k).
  - cbn [find] in Hf. destruct (f a); [|exact Hf]. inversion Hf; subst. contradiction.
  - cbn [find] in *. destruct (f a) eqn:Efa; [exact Hf|].
    destruct Hx as [->|Hx]; [apply find_some in Hf; destruct Hf as [_ Hfx]; congruence|]. apply IH; assumption.
Qed.

Lemma remove_service_W c v t k : NoDup (map ds_ident c) -> W c v -> W (remove_service c t k) v.
Proof.
  intros Hnd [(H2 & H3 & H4) Hb]. unfold remove_service. destruct (find_service c t k) as [found|]; [|split; [unfold calls_rest; split; [exact H2|split; [exact H3|exact H4]]|exact Hb]].
  assert (Hin : forall x, In x (rm t k c) -> In x c) by (intros x; apply rm_in).
  split; [unfold calls_rest; split; [|split]|].
  - intros d x Hd Hx Hsc Hm. destruct (H2 d x (Hin d Hd) (Hin x Hx) Hsc Hm) as [Ho Hlt]. split; [|exact Hlt].
    unfold output_desc in *. apply find_after_rm; [apply NoDup_of_idents; exact Hnd|exact Ho|exact Hx].
  - intros d x Hd Hx Hsc. exact (H3 d x (Hin d Hd) (Hin x Hx) Hsc).
  - intros d x io ps e Hd Hx Hsc Hf. exact (H4 d x io ps e (Hin d Hd) (Hin x Hx) Hsc Hf).
  - intros d Hd. apply Hb. apply Hin. exact Hd.
Qed.

(* ------------------------------------------------------------------ every history *)
Definition JW (c : coll) (v : nat) : Prop := J c /\ W c v.
Definition reg_calls_ok (r : reg) : Prop := void_no_as r.
Definition call_calls_ok (o : op) : Prop := match o with OAdd r => reg_calls_ok r | _ => True end.
Definition op_calls_ok (o : op) : Prop :=
  match o with
  | OAdd r => reg_calls_ok r
  | OModules ms => Forall call_calls_ok (flatten_modules ms)
  | _ => True
  end.

Lemma J_nodup c : J c -> NoDup (map ds_ident c).
Proof. intros (H & _). exact H. Qed.

Lemma direct_call_JW st o : JW (fst st) (snd st) -> call_calls_ok o -> JW (fst (fst (direct_call st o))) (snd (fst (direct_call st o))).
Proof.
  intros [Hj Hw] Ho. destruct o; cbn [direct_call fst snd]; try (split; assumption).
  - pose proof (reg_ok_true r) as Hok. pose proof Ho as Hv.
    pose proof (add_service_J (fst st) (snd st) r Hj Hok) as H1. pose proof (add_service_W (fst st) (snd st) r Hw Hv) as H2.
    destruct (add_service (fst st) (snd st) r) as [[c' v'] e]. cbn [fst snd] in *. split; assumption.
  - split; [apply remove_service_J; exact Hj|apply remove_service_W; [apply J_nodup; exact Hj|exact Hw]].
  - split; [apply remove_service_J; exact Hj|apply remove_service_W; [apply J_nodup; exact Hj|exact Hw]].
Qed.
Lemma run_flat_JW l : forall st, JW (fst st) (snd st) -> Forall call_calls_ok (map snd l) ->
  JW (fst (fst (run_flat st l))) (snd (fst (run_flat st l))).
Proof.
  induction l as [|[ns o] l IH]; intros st H Hf; cbn [run_flat]; [exact H|].
  cbn [map snd] in Hf. inversion Hf as [|x y Ho Hl]; subst.
  pose proof (direct_call_JW st o H Ho) as H1.
  destruct (direct_call st o) as [st' [e|]]; cbn [fst snd] in *; [exact H1|apply IH; assumption].
Qed.

Lemma step_void_only_coll w o : is_coll_op o = false -> w_void (fst (fst (step w o))) = w_void w.
Proof.
  destruct o; cbn [is_coll_op]; try discriminate; intros _; cbn [step].
  - destruct (build (w_coll w) (w_invs w) ord) as [[invs evs] [p|e]]; reflexivity.
  - unfold create_scope. break_match; reflexivity.
  - unfold do_resolve. break_match; reflexivity.
  - unfold do_resolve. break_match; reflexivity.
  - break_match; reflexivity.
  - break_match; reflexivity.
  - break_match; reflexivity.
  - reflexivity.
  - reflexivity.
  - reflexivity.
  - reflexivity.
Qed.

Lemma step_JW w o : JW (w_coll w) (w_void w) -> op_calls_ok o ->
  JW (w_coll (fst (fst (step w o)))) (w_void (fst (fst (step w o)))).
Proof.
  intros H Ho. destruct (is_coll_op o) eqn:Hc; [|rewrite step_keeps_coll, step_void_only_coll; assumption].
  destruct o; cbn [is_coll_op] in Hc; try discriminate; cbn [step op_calls_ok] in *.
  - pose proof (direct_call_JW (w_coll w, w_void w) (OAdd r) H Ho) as H1. cbn [direct_call fst snd] in H1.
    destruct (add_service (w_coll w) (w_void w) r) as [[c' v'] e]. exact H1.
  - exact (direct_call_JW (w_coll w, w_void w) (ORemove t) H I).
  - exact (direct_call_JW (w_coll w, w_void w) (ORemoveKeyed t n) H I).
  - rewrite apply_modules_flat.
    pose proof (run_flat_JW (flat_map flat_entries ms) (w_coll w, w_void w) H) as H1.
    rewrite flat_entries_ops_list in H1. specialize (H1 Ho).
    destruct (run_flat (w_coll w, w_void w) (flat_map flat_entries ms)) as [[c' v'] e]. exact H1.
  - exact H.
  - exact H.
  - exact H.
  - exact H.
Qed.

Theorem calls_wf_after_every_history ops : Forall op_calls_ok ops ->
  calls_wf (w_coll (fst (run_from init_world ops))).
Proof.
  intros Hf.
  assert (Hgen : forall ops w, Forall op_calls_ok ops -> JW (w_coll w) (w_void w) ->
            JW (w_coll (fst (run_from w ops))) (w_void (fst (run_from w ops)))).
  { clear. induction ops as [|o ops IH]; intros w Hf H; cbn [run_from]; [exact H|].
    inversion Hf as [|x y Ho Hl]; subst. pose proof (step_JW w o H Ho) as H1.
    destruct (step w o) as [[w1 evs] r]. cbn [fst] in H1. specialize (IH w1 Hl H1).
    destruct (run_from w1 ops) as [w2 tr]. exact IH. }
  assert (H0 : JW (w_coll init_world) (w_void init_world)).
  { split; [exact J_nil|]. split; [unfold calls_rest; split; [intros d x []|split; [intros d x []|intros d x io ps e []]]|intros d []]. }
  destruct (Hgen ops init_world Hf H0) as [Hj [(H2 & H3 & H4) _]].
  unfold calls_wf. split; [apply J_nodup; exact Hj|]. split; [exact H2|]. split; [exact H3|exact H4].
Qed.
