(* ProofsOrder.v — C11 on the model: a scope's Close disposes everything of its descendants first and then its own
   instances, in the order of its disposal list (newest first = reverse order of creation); the provider's Close
   disposes every scope first and its singletons last, in the order of its list. *)
From Godi Require Import Base Model ProofsRuntime ProofsClosed ProofsSingle ProofsGen ProofsFrame ProofsFrozen ProofsOnce ProofsConserve ProofsCloses.

Theorem scope_close_disposes_descendants_first fuel ord p h :
  h < length (p_scopes p) -> sc_open (get_scope p h) = true ->
  exists before descs',
    snd (fst (close_scope (S fuel) ord p h)) = before ++ fst (close_insts descs' h (sc_disp (get_scope p h))).
Proof.
  intros Hl Ho. cbn [close_scope]. rewrite Ho. cbn [negb].
  set (p0 := upd_scope p h _).
  set (s0 := mkScope (sc_parent (get_scope p h)) (sc_ctx (get_scope p h)) (sc_cache (get_scope p h)) (sc_disp (get_scope p h)) false).
  assert (Hf0 : frozen_at s0 p0 h).
  { split; [|reflexivity]. unfold p0, get_scope, upd_scope; cbn [p_scopes]. rewrite nth_upd_nth_same by exact Hl. reflexivity. }
  pose proof (fold_close_frozen s0 fuel ord h (nodup_nat (order_by ord (open_children p0 h))) (p0, [], 0) Hf0) as Hf.
  destruct (fold_left _ _ (p0, [], 0)) as [[p1 evs1] n1]. cbn [fst] in Hf. destruct Hf as [E _].
  exists evs1, (p_descs p1). rewrite E. cbn [sc_disp s0].
  destruct (close_insts (p_descs p1) h (sc_disp (get_scope p h))) as [evs2 n2]. reflexivity.
Qed.

Theorem provider_close_disposes_singletons_last ord p :
  p_open p = true ->
  exists before descs',
    snd (fst (close_provider ord p)) = before ++ fst (close_insts descs' OWNER_PROV (p_sdisp p)).
Proof.
  intros Ho. unfold close_provider. rewrite Ho. cbn [negb].
  set (p0 := mkProv _ _ _ _ false).
  assert (Hs : forall ks acc, p_sdisp (fst (fst acc)) = p_sdisp p ->
            p_sdisp (fst (fst (fold_left (fun '(pa, ea, na) k =>
                 let '(pb, eb, nb) := close_scope (scope_fuel pa) ord pa k in (pb, ea ++ eb, if nb =? 0 then na else S na)) ks acc))) = p_sdisp p).
  { induction ks as [|k ks IH]; intros [[pa ea] na] Ha; cbn [fold_left]; [exact Ha|].
    pose proof (close_scope_singles (scope_fuel pa) ord pa k) as Hk.
    destruct (close_scope (scope_fuel pa) ord pa k) as [[pb eb] nb]. cbn [fst] in *. apply IH. cbn [fst].
    unfold singles in Hk. injection Hk as _ Hk. rewrite Hk. exact Ha. }
  specialize (Hs (nodup_nat (order_by ord (open_scopes p0))) (p0, [], 0) eq_refl).
  destruct (fold_left _ _ (p0, [], 0)) as [[p1 evs1] n1]. cbn [fst] in Hs.
  pose proof (close_scope_singles (scope_fuel p1) ord p1 0) as H2.
  destruct (close_scope (scope_fuel p1) ord p1 0) as [[p2 evs2] n2]. cbn [fst] in H2.
  unfold singles in H2. injection H2 as _ H2.
  exists (evs1 ++ evs2), (p_descs p2). rewrite H2, Hs.
  destruct (close_insts (p_descs p2) OWNER_PROV (p_sdisp p)) as [evs3 n3]. cbn [fst snd]. rewrite app_assoc. reflexivity.
Qed.
