(* ProofsAccepted.v — what an accepted Build guarantees for every later resolution.
   C08: on a registry that passed the missing-dependency validation, no resolution of a registered service, in any
        scope, at any depth, in any state, fails with "service not found".
   C07: on a registry that passed the lifetime validation, no constructor of a singleton or transient is ever called
        with an instance made by a scoped registration, and no such instance ever reaches the singleton table. *)
From Godi Require Import Base Model Check ProofsRegistry ProofsRuntime ProofsTerm ProofsGen ProofsOnceWorld.

(* ================================================================== C08 *)
Section NotFound.
  Variable c : coll.
  Hypothesis no_missing : missing_required c = false.
  (* `optional` exists on fields of parameter objects only (a positional parameter has no tag) *)
  Definition opt_wf (c0 : coll) : Prop :=
    forall d dp, In d c0 -> In dp (reg_deps (ds_reg d)) -> d_opt dp = true -> fst (reg_params (ds_reg d)) = true.
  Hypothesis opt_only_in_objects : opt_wf c.

  Local Notation on_c := (on_c c).

  Lemma required_is_there d dp : In d c -> In dp (reg_deps (ds_reg d)) -> d_group dp = 0 ->
    d_opt dp = true \/ (is_reserved (d_ty dp) = true /\ d_name dp = 0) \/
    exists d', find_service c (d_ty dp) (name_key (d_name dp)) = Some d'.
  Proof.
    intros Hd Hdp Hg. unfold missing_required in no_missing.
    assert (H : existsb (dep_missing c) (reg_deps (ds_reg d)) = false).
    { destruct (existsb (dep_missing c) (reg_deps (ds_reg d))) eqn:E; [|reflexivity].
      assert (existsb (fun d0 => existsb (dep_missing c) (reg_deps (ds_reg d0))) c = true) as Hx
        by (apply existsb_exists; exists d; split; assumption).
      congruence. }
    assert (Hm : dep_missing c dp = false).
    { destruct (dep_missing c dp) eqn:E; [|reflexivity].
      assert (existsb (dep_missing c) (reg_deps (ds_reg d)) = true) as Hx by (apply existsb_exists; exists dp; split; assumption).
      congruence. }
    unfold dep_missing in Hm. rewrite Hg in Hm. cbn [Nat.eqb andb] in Hm.
    destruct (d_opt dp); [left; reflexivity|]. cbn [negb andb] in Hm.
    destruct (is_reserved (d_ty dp)) eqn:Er; cbn [andb negb] in Hm.
    - destruct (d_name dp =? 0) eqn:En; cbn [negb] in Hm; [right; left; split; [reflexivity|apply Nat.eqb_eq; exact En]|].
      destruct (find_service c (d_ty dp) (name_key (d_name dp))) as [d'|]; [right; right; exists d'; reflexivity|discriminate].
    - destruct (find_service c (d_ty dp) (name_key (d_name dp))) as [d'|]; [right; right; exists d'; reflexivity|discriminate].
  Qed.

  Lemma reserved_builtin h t : is_reserved t = true -> exists a, builtin h t = Some a.
  Proof.
    unfold is_reserved, builtin, T_CTX, T_SCOPE, T_PROV. intros H.
    destruct (t =? 100); [eexists; reflexivity|]. destruct (t =? 101); [eexists; reflexivity|].
    destruct (t =? 102); [eexists; reflexivity|discriminate].
  Qed.

  Lemma find_service_in t k d' : find_service c t k = Some d' -> In d' c.
  Proof. unfold find_service. intros H. apply find_some in H. tauto. Qed.
  Lemma group_member_in t g m : In m (group_members c t g) -> In m c.
  Proof. unfold group_members. intros H. apply filter_In in H. tauto. Qed.

  Definition nf (r : rres) : Prop := r = RFail ENotFound.

  Section Step.
    Variable f : nat.
    Hypothesis IH : forall rs h d, on_c rs -> In d c -> ~ nf (snd (resolve_d f rs h d)).

    Lemma group_found h ms : forall rs acc, on_c rs -> (forall m, In m ms -> In m c) ->
      ~ nf (snd (group_loop (resolve_d f) rs h ms acc)) /\ on_c (fst (group_loop (resolve_d f) rs h ms acc)).
    Proof.
      induction ms as [|m ms IHm]; intros rs acc Hc Hin; cbn [group_loop]; [split; [discriminate|exact Hc]|].
      pose proof (IH rs h m Hc (Hin m (or_introl eq_refl))) as Hne. pose proof (resolve_on_c c f rs h m Hc) as Hc1.
      destruct (resolve_d f rs h m) as [rs1 [a|e|]]; cbn [fst snd] in *; [|split; assumption|split; [discriminate|exact Hc1]].
      destruct a; try (split; [discriminate|exact Hc1]); (apply IHm; [exact Hc1|intros; apply Hin; right; assumption]).
    Qed.

    (* a dependency either has its value, or fails with something else than "not found", or is optional *)
    Lemma dep_found d h rs dp : on_c rs -> In d c -> In dp (reg_deps (ds_reg d)) ->
      (~ nf (snd (dep_value (resolve_d f) rs h dp)) \/ d_opt dp = true) /\ on_c (fst (dep_value (resolve_d f) rs h dp)).
    Proof.
      intros Hc Hd Hin. unfold dep_value. destruct (d_group dp =? 0) eqn:Eg.
      - apply Nat.eqb_eq in Eg. unfold req. rewrite Hc.
        destruct (required_is_there d dp Hd Hin Eg) as [Ho|[[Hr Hn]|[d' Hf]]].
        + split; [right; exact Ho|].
          destruct (name_key (d_name dp)); try (destruct (find_service c (d_ty dp) _); [apply resolve_on_c|]; exact Hc).
          destruct (builtin h (d_ty dp)); [exact Hc|]. destruct (find_service c (d_ty dp) KNone); [apply resolve_on_c|]; exact Hc.
        + rewrite Hn. cbn [name_key]. destruct (reserved_builtin h (d_ty dp) Hr) as [a ->]. split; [left; discriminate|exact Hc].
        + assert (Hfind : ~ nf (snd (resolve_d f rs h d')) /\ on_c (fst (resolve_d f rs h d')))
            by (split; [apply IH; [exact Hc|exact (find_service_in _ _ _ Hf)]|apply resolve_on_c; exact Hc]).
          revert Hf. destruct (name_key (d_name dp)) eqn:Ek; intros Hf; rewrite ?Hf; try (split; [left; apply Hfind|apply Hfind]).
          destruct (builtin h (d_ty dp)); [split; [left; discriminate|exact Hc]|]. split; [left; apply Hfind|apply Hfind].
      - unfold group_value. rewrite Hc.
        destruct (group_found h (group_members c (d_ty dp) (d_group dp)) rs [] Hc (fun m Hm => group_member_in _ _ m Hm)) as [H1 H2].
        split; [left; exact H1|exact H2].
    Qed.

    Lemma args_found d h io ps : forall rs acc, on_c rs -> In d c -> fst (reg_params (ds_reg d)) = io ->
      (forall dp, In (PDep dp) ps -> In dp (reg_deps (ds_reg d))) ->
      snd (args_loop (resolve_d f) rs h io ps acc) <> inr (RFail ENotFound).
    Proof.
      induction ps as [|[dp|] ps IHp]; intros rs acc Hc Hd Hio Hin; cbn [args_loop]; [discriminate| |].
      - destruct (dep_found d h rs dp Hc Hd (Hin dp (or_introl eq_refl))) as [Hne Hc1].
        destruct (dep_value (resolve_d f) rs h dp) as [rs1 [a|e|]]; cbn [fst snd] in *.
        + apply IHp; [exact Hc1|exact Hd|exact Hio|intros; apply Hin; right; assumption].
        + destruct (io && d_opt dp) eqn:Eo; [apply IHp; [exact Hc1|exact Hd|exact Hio|intros; apply Hin; right; assumption]|].
          cbn [snd]. intros E. injection E as E. subst e. destruct Hne as [Hne|Ho]; [apply Hne; reflexivity|].
          rewrite Ho, andb_true_r in Eo. subst io.
          rewrite (opt_only_in_objects d dp Hd (Hin dp (or_introl eq_refl)) Ho) in Eo. discriminate.
        + discriminate.
      - apply IHp; [exact Hc|exact Hd|exact Hio|intros; apply Hin; right; assumption].
    Qed.

    Lemma create_found rs h d : on_c rs -> In d c -> ~ nf (snd (create (resolve_d f) rs h d)).
    Proof.
      intros Hc Hd. unfold create, nf.
      destruct (r_form (ds_reg d)) as [t|io0 ps1 rets er|io0 ps1 fs er] eqn:Hf; [discriminate| |].
      - assert (Hps : reg_params (ds_reg d) = (io0, ps1)) by (unfold reg_params; rewrite Hf; reflexivity).
        rewrite Hps.
        assert (Hin : forall dp, In (PDep dp) ps1 -> In dp (reg_deps (ds_reg d))).
        { intros dp H. unfold reg_deps. rewrite Hps. cbn [snd]. apply deps_of_In. exact H. }
        pose proof (args_found d h io0 ps1 rs [] Hc Hd (f_equal fst Hps) Hin) as Ha.
        destruct (args_loop (resolve_d f) rs h io0 ps1 []) as [rs1 [args|e]]; cbn [snd] in *; [|congruence].
        destruct (cancels (ds_reg d) _); destruct (effective_outcome (ds_reg d) _); try discriminate;
          destruct rets as [|t0 [|t1 ts]]; discriminate.
      - assert (Hps : reg_params (ds_reg d) = (io0, ps1)) by (unfold reg_params; rewrite Hf; reflexivity).
        rewrite Hps.
        assert (Hin : forall dp, In (PDep dp) ps1 -> In dp (reg_deps (ds_reg d))).
        { intros dp H. unfold reg_deps. rewrite Hps. cbn [snd]. apply deps_of_In. exact H. }
        pose proof (args_found d h io0 ps1 rs [] Hc Hd (f_equal fst Hps) Hin) as Ha.
        destruct (args_loop (resolve_d f) rs h io0 ps1 []) as [rs1 [args|e]]; cbn [snd] in *; [|congruence].
        destruct (cancels (ds_reg d) _); destruct (effective_outcome (ds_reg d) _); try discriminate;
          match goal with |- context [stores_any ?a ?b ?c] => destruct (stores_any a b c) end; discriminate.
    Qed.
  End Step.

  Theorem accepted_registry_never_answers_not_found : forall fuel rs h d,
    on_c rs -> In d c -> snd (resolve_d fuel rs h d) <> RFail ENotFound.
  Proof.
    induction fuel as [|f IH]; intros rs h d Hc Hd; [discriminate|]. cbn [resolve_d].
    destruct (ds_life d).
    - destruct (lookup_i _ _); discriminate.
    - destruct (lookup_i _ _); [discriminate|]. apply create_found; [exact IH|exact Hc|exact Hd].
    - apply create_found; [exact IH|exact Hc|exact Hd].
  Qed.

  (* the same through the two entry points of the API: a request by type and key that names a registered service,
     and a group request *)
  Corollary registered_request_is_found rs h t k d :
    on_c rs -> find_service c t k = Some d -> snd (resolve_req rs h t k) <> RFail ENotFound.
  Proof.
    intros Hc Hf. unfold resolve_req, req. rewrite Hc.
    assert (H : snd (resolve_d (fuel_for (rs_p rs)) rs h d) <> RFail ENotFound)
      by (apply accepted_registry_never_answers_not_found; [exact Hc|exact (find_service_in _ _ _ Hf)]).
    destruct k; rewrite ?Hf; try exact H. destruct (builtin h t); [discriminate|exact H].
  Qed.
  Corollary group_request_is_found rs h t g : on_c rs -> snd (resolve_group rs h t g) <> RFail ENotFound.
  Proof.
    intros Hc. unfold resolve_group, group_value. rewrite Hc.
    apply (group_found (fuel_for (rs_p rs))); [|exact Hc|intros m Hm; exact (group_member_in _ _ m Hm)].
    intros rs0 h0 d0 Hc0 Hd0. apply accepted_registry_never_answers_not_found; assumption.
  Qed.
End NotFound.

(* ================================================================== C07 *)
Lemma lookup_i_in l n i : lookup_i l n = Some i -> exists m, In (m, i) l.
Proof.
  induction l as [|[m v] l IH]; cbn [lookup_i]; [discriminate|].
  destruct (ident_eqb m n); [intros E; inversion E; subst; exists m; left; reflexivity|].
  intros H. destruct (IH H) as [m' Hm]. exists m'. right. exact Hm.
Qed.

Lemma args_error_is_no_value recd h io ps : forall rs acc e a,
  snd (args_loop recd rs h io ps acc) = inr e -> e <> ROkV a.
Proof.
  induction ps as [|[dp|] ps IHp]; intros rs acc e a; cbn [args_loop]; [discriminate| |apply IHp].
  destruct (dep_value recd rs h dp) as [rs1 [a0|e0|]]; [apply IHp| |cbn [snd]; intros E; inversion E; discriminate].
  destruct (io && d_opt dp); [apply IHp|cbn [snd]; intros E; inversion E; discriminate].
Qed.

Section Captive.
  Variable c : coll.
  Hypothesis no_conflict : lifetime_conflict c = false.
  (* an instance names its registration by the registration's id: distinct registrations carry distinct ids *)
  Definition rids_wf (c0 : coll) : Prop :=
    forall d d', In d c0 -> In d' c0 -> ds_rid d = ds_rid d' -> ds_life d = ds_life d'.
  Hypothesis one_lifetime_per_id : rids_wf c.

  Local Notation on_c := (on_c c).

  Definition scoped_rid (rid : nat) : Prop := exists d, In d c /\ ds_rid d = rid /\ ds_life d = Scoped.
  (* not an instance of a scoped registration (the nil element of a group slice is nobody's instance; a struct{}
     value carries no identity at all) *)
  Definition ns_inst (i : inst) : Prop :=
    match i with IVoid => True | IObj rid _ _ dyn => dyn = T_NILOUT \/ ~ scoped_rid rid end.
  Definition ns_aval (a : aval) : Prop :=
    match a with AInst i => ns_inst i | AList l => Forall ns_inst l | _ => True end.
  (* a constructor call of a singleton or transient registration received no instance of a scoped registration *)
  Definition ev_ok (e : event) : Prop :=
    match e with
    | EvCtor rid _ args _ => (exists d, In d c /\ ds_rid d = rid /\ ds_life d <> Scoped) -> Forall ns_aval args
    | _ => True
    end.
  Definition inv_p (p : prov) : Prop := forall n i, In (n, i) (p_single p) -> ns_inst i.
  Definition CInv (rs : rstate) : Prop := inv_p (rs_p rs) /\ Forall ev_ok (rs_ev rs).

  Lemma own_instance_ns d inv k dyn : In d c -> ds_life d <> Scoped -> ns_inst (IObj (ds_rid d) inv k dyn).
  Proof.
    intros Hd Hl. right. intros [d' (Hd' & Hr & Hs)]. apply Hl. rewrite <- Hs. symmetry.
    apply one_lifetime_per_id; assumption.
  Qed.

  Lemma dep_not_scoped d dp : In d c -> ds_life d <> Scoped -> In dp (reg_deps (ds_reg d)) -> dep_scoped c dp = false.
  Proof.
    intros Hd Hl Hdp. unfold lifetime_conflict in no_conflict.
    destruct (dep_scoped c dp) eqn:E; [|reflexivity]. exfalso.
    assert (existsb (fun d0 => negb (life_eqb (ds_life d0) Scoped) && existsb (dep_scoped c) (reg_deps (ds_reg d0))) c = true) as Hx.
    { apply existsb_exists. exists d. split; [exact Hd|]. apply andb_true_intro. split.
      - destruct (ds_life d); try reflexivity. exfalso; apply Hl; reflexivity.
      - apply existsb_exists. exists dp. split; assumption. }
    congruence.
  Qed.

  Lemma life_eqb_scoped_false l : life_eqb l Scoped = false -> l <> Scoped.
  Proof. destruct l; cbn; congruence. Qed.

  (* the state primitives *)
  Lemma inv_store life p h n i : inv_p p -> (life = Singleton -> ns_inst i) -> inv_p (store life p h n i).
  Proof.
    intros Hp Hi. destruct life; cbn [store]; unfold track_single, track_scope, single_set, cache_set, upd_scope;
      try destruct (inst_disposable i); intros m j; cbn [p_single]; try apply Hp;
      (intros [E|H]; [inversion E; subst; apply Hi; reflexivity|apply (Hp m j H)]).
  Qed.
  Lemma inv_share life p h n i : inv_p p -> (life = Singleton -> ns_inst i) -> inv_p (share life p h n i).
  Proof.
    intros Hp Hi. destruct life; cbn [share]; unfold single_set, cache_set, upd_scope; intros m j; cbn [p_single]; try apply Hp.
    intros [E|H]; [inversion E; subst; apply Hi; reflexivity|apply (Hp m j H)].
  Qed.
  Lemma inv_drop p h life i : inv_p p -> inv_p (drop_output p h life i).
  Proof.
    intros Hp. destruct life; cbn [drop_output]; unfold track_single, track_scope, upd_scope; destruct (inst_disposable i);
      intros m j; cbn [p_single]; apply Hp.
  Qed.
  Lemma inv_share_all life h i l : forall p, inv_p p -> (life = Singleton -> ns_inst i) ->
    inv_p (fold_left (fun p a => share life p h (ds_ident a) i) l p).
  Proof. induction l as [|a l IH]; intros p Hp Hi; cbn [fold_left]; [exact Hp|]. apply IH; [apply inv_share; assumption|exact Hi]. Qed.
  Lemma inv_fan_out h d inv ks : In d c -> forall p, inv_p p -> inv_p (fan_out p h d inv ks).
  Proof.
    intros Hd. induction ks as [|k ks IH]; intros p Hp; cbn [fan_out]; [exact Hp|].
    destruct (output_desc (p_descs p) d k).
    - destruct (out_is_nil (ds_reg d) k && life_eqb (ds_life d) Singleton); [apply IH; exact Hp|].
      apply IH. apply inv_store; [exact Hp|]. intros Hl. apply (own_instance_ns d); [exact Hd|congruence].
    - apply IH. apply inv_drop. exact Hp.
  Qed.

  Lemma inv_drop_only h d inv ks : forall p, inv_p p -> inv_p (drop_only p h d inv ks).
  Proof.
    induction ks as [|k ks IH]; intros p Hp; cbn [drop_only]; [exact Hp|].
    destruct (output_desc (p_descs p) d k); [apply IH; exact Hp|]. apply IH. apply inv_drop. exact Hp.
  Qed.

  Lemma builtin_ns h t a : builtin h t = Some a -> ns_aval a.
  Proof.
    unfold builtin. destruct (t =? T_CTX); [intros E; inversion E; exact I|].
    destruct (t =? T_SCOPE); [intros E; inversion E; exact I|]. destruct (t =? T_PROV); [intros E; inversion E; exact I|discriminate].
  Qed.
  Lemma aval_of_ns i : ns_inst i -> ns_aval (aval_of i).
  Proof. destruct i as [rid inv k dyn|]; cbn [aval_of]; [destruct (dyn =? T_NILOUT); [intros _; exact I|intros H; exact H]|intros H; exact H]. Qed.

  Section Step.
    Variable f : nat.
    Hypothesis IH : forall rs h d, on_c rs -> CInv rs -> In d c ->
      CInv (fst (resolve_d f rs h d)) /\ (ds_life d <> Scoped -> forall a, snd (resolve_d f rs h d) = ROkV a -> ns_aval a).

    Lemma group_captive h ms : forall rs acc, on_c rs -> CInv rs -> (forall m, In m ms -> In m c) ->
      on_c (fst (group_loop (resolve_d f) rs h ms acc)) /\ CInv (fst (group_loop (resolve_d f) rs h ms acc)) /\
      ((forall m, In m ms -> ds_life m <> Scoped) -> Forall ns_inst acc ->
       forall a, snd (group_loop (resolve_d f) rs h ms acc) = ROkV a -> ns_aval a).
    Proof.
      induction ms as [|m ms IHm]; intros rs acc Hc Hi Hin; cbn [group_loop].
      - split; [exact Hc|split; [exact Hi|]]. intros _ Hacc a E. inversion E; subst. cbn [ns_aval]. apply Forall_rev. exact Hacc.
      - destruct (IH rs h m Hc Hi (Hin m (or_introl eq_refl))) as [Hi1 Hr1]. pose proof (resolve_on_c c f rs h m Hc) as Hc1.
        destruct (resolve_d f rs h m) as [rs1 [a|e|]]; cbn [fst snd] in *;
          [|split; [exact Hc1|split; [exact Hi1|intros _ _ a0 E; discriminate]]|split; [exact Hc1|split; [exact Hi1|intros _ _ a0 E; discriminate]]].
        assert (Hrest : forall m0, In m0 ms -> In m0 c) by (intros; apply Hin; right; assumption).
        destruct a as [i|l|h0|h0| |]; try (split; [exact Hc1|split; [exact Hi1|intros _ _ a0 E; discriminate]]).
        + destruct (IHm rs1 (i :: acc) Hc1 Hi1 Hrest) as (H1 & H2 & H3). split; [exact H1|split; [exact H2|]].
          intros Hl Hacc. apply H3; [intros; apply Hl; right; assumption|].
          constructor; [|exact Hacc]. exact (Hr1 (Hl m (or_introl eq_refl)) (AInst i) eq_refl).
        + destruct (IHm rs1 (NIL_MEMBER :: acc) Hc1 Hi1 Hrest) as (H1 & H2 & H3). split; [exact H1|split; [exact H2|]].
          intros Hl Hacc. apply H3; [intros; apply Hl; right; assumption|].
          constructor; [left; reflexivity|exact Hacc].
    Qed.

    Lemma dep_captive d h rs dp : on_c rs -> CInv rs -> In d c -> In dp (reg_deps (ds_reg d)) ->
      on_c (fst (dep_value (resolve_d f) rs h dp)) /\ CInv (fst (dep_value (resolve_d f) rs h dp)) /\
      (ds_life d <> Scoped -> forall a, snd (dep_value (resolve_d f) rs h dp) = ROkV a -> ns_aval a).
    Proof.
      intros Hc Hi Hd Hin. unfold dep_value. destruct (d_group dp =? 0) eqn:Eg.
      - unfold req. rewrite Hc.
        assert (Hfind : forall k, k = name_key (d_name dp) ->
                  let r := match find_service c (d_ty dp) k with Some d0 => resolve_d f rs h d0 | None => (rs, RFail ENotFound) end in
                  on_c (fst r) /\ CInv (fst r) /\ (ds_life d <> Scoped -> forall a, snd r = ROkV a -> ns_aval a)).
        { intros k ->. destruct (find_service c (d_ty dp) (name_key (d_name dp))) as [d'|] eqn:Hf; cbn zeta;
            [|split; [exact Hc|split; [exact Hi|intros _ a E; discriminate]]].
          assert (Hd' : In d' c) by (unfold find_service in Hf; apply find_some in Hf; tauto).
          destruct (IH rs h d' Hc Hi Hd') as [Hi1 Hr1]. split; [apply resolve_on_c; exact Hc|split; [exact Hi1|]].
          intros Hl. apply Hr1. pose proof (dep_not_scoped d dp Hd Hl Hin) as Hns. unfold dep_scoped in Hns.
          rewrite Eg, Hf in Hns. apply life_eqb_scoped_false. exact Hns. }
        destruct (name_key (d_name dp)) eqn:Ek; try (apply Hfind; reflexivity).
        destruct (builtin h (d_ty dp)) as [a0|] eqn:Eb; [|apply Hfind; reflexivity].
        split; [exact Hc|split; [exact Hi|]]. intros _ a E. inversion E; subst. exact (builtin_ns _ _ _ Eb).
      - unfold group_value. rewrite !Hc.
        destruct (group_captive h (group_members c (d_ty dp) (d_group dp)) rs [] Hc Hi
                    (fun m Hm => proj1 (proj1 (filter_In _ _ _) Hm))) as (H1 & H2 & H3).
        split; [exact H1|split; [exact H2|]]. intros Hl. apply H3; [|constructor].
        intros m Hm. pose proof (dep_not_scoped d dp Hd Hl Hin) as Hns. unfold dep_scoped in Hns. rewrite Eg in Hns.
        apply life_eqb_scoped_false. destruct (life_eqb (ds_life m) Scoped) eqn:El; [|reflexivity].
        assert (existsb (fun m0 => life_eqb (ds_life m0) Scoped) (group_members c (d_ty dp) (d_group dp)) = true) as Hx
          by (apply existsb_exists; exists m; split; assumption).
        congruence.
    Qed.

    Lemma args_captive d h io ps : forall rs acc, on_c rs -> CInv rs -> In d c ->
      (forall dp, In (PDep dp) ps -> In dp (reg_deps (ds_reg d))) ->
      on_c (fst (args_loop (resolve_d f) rs h io ps acc)) /\ CInv (fst (args_loop (resolve_d f) rs h io ps acc)) /\
      (ds_life d <> Scoped -> Forall ns_aval acc ->
       forall args, snd (args_loop (resolve_d f) rs h io ps acc) = inl args -> Forall ns_aval args).
    Proof.
      induction ps as [|[dp|] ps IHp]; intros rs acc Hc Hi Hd Hin; cbn [args_loop].
      - split; [exact Hc|split; [exact Hi|]]. intros _ Hacc args E. inversion E; subst. apply Forall_rev. exact Hacc.
      - destruct (dep_captive d h rs dp Hc Hi Hd (Hin dp (or_introl eq_refl))) as (Hc1 & Hi1 & Hr1).
        assert (Hrest : forall dp0, In (PDep dp0) ps -> In dp0 (reg_deps (ds_reg d))) by (intros; apply Hin; right; assumption).
        destruct (dep_value (resolve_d f) rs h dp) as [rs1 [a|e|]]; cbn [fst snd] in *.
        + destruct (IHp rs1 (a :: acc) Hc1 Hi1 Hd Hrest) as (H1 & H2 & H3). split; [exact H1|split; [exact H2|]].
          intros Hl Hacc. apply H3; [exact Hl|]. constructor; [exact (Hr1 Hl a eq_refl)|exact Hacc].
        + destruct (io && d_opt dp).
          * destruct (IHp rs1 (zero_of dp :: acc) Hc1 Hi1 Hd Hrest) as (H1 & H2 & H3). split; [exact H1|split; [exact H2|]].
            intros Hl Hacc. apply H3; [exact Hl|]. constructor; [unfold zero_of; destruct (_ && _); exact I|exact Hacc].
          * split; [exact Hc1|split; [exact Hi1|intros _ _ args E; discriminate]].
        + split; [exact Hc1|split; [exact Hi1|intros _ _ args E; discriminate]].
      - destruct (IHp rs (AZero :: acc) Hc Hi Hd (fun dp0 H => Hin dp0 (or_intror H))) as (H1 & H2 & H3).
        split; [exact H1|split; [exact H2|]]. intros Hl Hacc. apply H3; [exact Hl|]. constructor; [exact I|exact Hacc].
    Qed.

    Lemma create_captive rs h d : on_c rs -> CInv rs -> In d c ->
      CInv (fst (create (resolve_d f) rs h d)) /\
      (ds_life d <> Scoped -> forall a, snd (create (resolve_d f) rs h d) = ROkV a -> ns_aval a).
    Proof.
      intros Hc [Hp Hev] Hd. unfold create.
      assert (Hown : forall inv k dyn, ds_life d = Singleton -> ns_inst (IObj (r_id (ds_reg d)) inv k dyn))
        by (intros inv k dyn Hl; apply (own_instance_ns d); [exact Hd|congruence]).
      destruct (r_form (ds_reg d)) as [t|io0 ps1 rets er|io0 ps1 fs er] eqn:Hf.
      - cbn [fst snd]. split.
        + split; [cbn [rs_p with_p]|exact Hev]. apply inv_share_all; [apply inv_store; [exact Hp|apply Hown]|apply Hown].
        + intros Hl a E. inversion E; subst. apply (own_instance_ns d); assumption.
      - assert (Hps : reg_params (ds_reg d) = (io0, ps1)) by (unfold reg_params; rewrite Hf; reflexivity).
        rewrite Hps.
        assert (Hin : forall dp, In (PDep dp) ps1 -> In dp (reg_deps (ds_reg d))).
        { intros dp H. unfold reg_deps. rewrite Hps. cbn [snd]. apply deps_of_In. exact H. }
        destruct (args_captive d h io0 ps1 rs [] Hc (conj Hp Hev) Hd Hin) as (Hc1 & [Hp1 Hev1] & Hargs).
        pose proof (args_error_is_no_value (resolve_d f) h io0 ps1 rs []) as Hnv.
        destruct (args_loop (resolve_d f) rs h io0 ps1 []) as [rs1 [args|e]]; cbn [fst snd] in *;
          [|split; [split; assumption|intros _ a E; exfalso; exact (Hnv e a eq_refl E)]].
        set (inv := get_inv (rs_invs rs1) (r_id (ds_reg d))).
        assert (Hevc : ev_ok (EvCtor (r_id (ds_reg d)) inv args (effective_outcome (ds_reg d) inv))).
        { cbn [ev_ok]. intros [d0 (Hd0 & Hr0 & Hl0)]. apply Hargs; [|constructor|reflexivity].
          rewrite (one_lifetime_per_id d d0 Hd Hd0 (eq_sym Hr0)). exact Hl0. }
        set (rs2 := if cancels (ds_reg d) inv
                    then log (log (mkRs (bump_inv (rs_invs rs1) (r_id (ds_reg d))) (rs_p rs1) (rs_ev rs1)) (EvCtor (r_id (ds_reg d)) inv args (effective_outcome (ds_reg d) inv))) EvCancel
                    else log (mkRs (bump_inv (rs_invs rs1) (r_id (ds_reg d))) (rs_p rs1) (rs_ev rs1)) (EvCtor (r_id (ds_reg d)) inv args (effective_outcome (ds_reg d) inv))).
        assert (H2 : rs_p rs2 = rs_p rs1 /\ Forall ev_ok (rs_ev rs2)).
        { unfold rs2. destruct (cancels (ds_reg d) inv); cbn [log rs_p rs_ev]; (split; [reflexivity|]); repeat constructor; assumption. }
        destruct H2 as [Hp2 Hev2].
        assert (Hinv2 : CInv rs2) by (split; [rewrite Hp2; exact Hp1|exact Hev2]).
        destruct (effective_outcome (ds_reg d) inv); try (split; [exact Hinv2|intros _ a E; discriminate]).
        destruct rets as [|t0 [|t1 ts]]; cbn [fst snd].
        + split; [split; [cbn [rs_p with_p]; apply inv_store; [rewrite Hp2; exact Hp1|intros _; exact I]|exact Hev2]|].
          intros _ a E. inversion E; subst. exact I.
        + split.
          * split; [cbn [rs_p with_p]|exact Hev2]. apply inv_share_all; [apply inv_store; [rewrite Hp2; exact Hp1|apply Hown]|apply Hown].
          * intros Hl a E. inversion E; subst. apply (own_instance_ns d); assumption.
        + split; [split; [cbn [rs_p with_p]; apply inv_fan_out; [exact Hd|rewrite Hp2; exact Hp1]|exact Hev2]|].
          intros Hl a E. injection E as <-. change (ns_aval (aval_of (out_inst (ds_reg d) inv (ds_out d)))). apply aval_of_ns. unfold out_inst. apply (own_instance_ns d); assumption.
      - assert (Hps : reg_params (ds_reg d) = (io0, ps1)) by (unfold reg_params; rewrite Hf; reflexivity).
        rewrite Hps.
        assert (Hin : forall dp, In (PDep dp) ps1 -> In dp (reg_deps (ds_reg d))).
        { intros dp H. unfold reg_deps. rewrite Hps. cbn [snd]. apply deps_of_In. exact H. }
        destruct (args_captive d h io0 ps1 rs [] Hc (conj Hp Hev) Hd Hin) as (Hc1 & [Hp1 Hev1] & Hargs).
        pose proof (args_error_is_no_value (resolve_d f) h io0 ps1 rs []) as Hnv.
        destruct (args_loop (resolve_d f) rs h io0 ps1 []) as [rs1 [args|e]]; cbn [fst snd] in *;
          [|split; [split; assumption|intros _ a E; exfalso; exact (Hnv e a eq_refl E)]].
        set (inv := get_inv (rs_invs rs1) (r_id (ds_reg d))).
        assert (Hevc : ev_ok (EvCtor (r_id (ds_reg d)) inv args (effective_outcome (ds_reg d) inv))).
        { cbn [ev_ok]. intros [d0 (Hd0 & Hr0 & Hl0)]. apply Hargs; [|constructor|reflexivity].
          rewrite (one_lifetime_per_id d d0 Hd Hd0 (eq_sym Hr0)). exact Hl0. }
        set (rs2 := if cancels (ds_reg d) inv
                    then log (log (mkRs (bump_inv (rs_invs rs1) (r_id (ds_reg d))) (rs_p rs1) (rs_ev rs1)) (EvCtor (r_id (ds_reg d)) inv args (effective_outcome (ds_reg d) inv))) EvCancel
                    else log (mkRs (bump_inv (rs_invs rs1) (r_id (ds_reg d))) (rs_p rs1) (rs_ev rs1)) (EvCtor (r_id (ds_reg d)) inv args (effective_outcome (ds_reg d) inv))).
        assert (H2 : rs_p rs2 = rs_p rs1 /\ Forall ev_ok (rs_ev rs2)).
        { unfold rs2. destruct (cancels (ds_reg d) inv); cbn [log rs_p rs_ev]; (split; [reflexivity|]); repeat constructor; assumption. }
        destruct H2 as [Hp2 Hev2].
        assert (Hinv2 : CInv rs2) by (split; [rewrite Hp2; exact Hp1|exact Hev2]).
        destruct (effective_outcome (ds_reg d) inv); try (split; [exact Hinv2|intros _ a E; discriminate]).
        match goal with |- context [stores_any ?a ?b ?c] => destruct (stores_any a b c) end; cbn [fst snd].
        * split; [split; [cbn [rs_p with_p]; apply inv_fan_out; [exact Hd|rewrite Hp2; exact Hp1]|exact Hev2]|].
          intros Hl a E. injection E as <-. change (ns_aval (aval_of (out_inst (ds_reg d) inv (ds_out d)))). apply aval_of_ns. unfold out_inst. apply (own_instance_ns d); assumption.
        * split; [split; [cbn [rs_p with_p]; apply inv_drop_only; rewrite Hp2; exact Hp1|exact Hev2]|].
          intros _ a E. discriminate.
    Qed.
  End Step.

  Theorem accepted_registry_has_no_captive_instance : forall fuel rs h d, on_c rs -> CInv rs -> In d c ->
    CInv (fst (resolve_d fuel rs h d)) /\
    (ds_life d <> Scoped -> forall a, snd (resolve_d fuel rs h d) = ROkV a -> ns_aval a).
  Proof.
    induction fuel as [|f IH]; intros rs h d Hc Hi Hd; cbn [resolve_d]; [split; [exact Hi|intros _ a E; discriminate]|].
    destruct (ds_life d) eqn:El.
    - destruct (lookup_i (p_single (rs_p rs)) (ds_ident d)) as [i|] eqn:Hl; cbn [fst snd]; [|split; [exact Hi|intros _ a E; discriminate]].
      split; [exact Hi|]. intros _ a E. inversion E; subst. apply aval_of_ns.
      destruct (lookup_i_in _ _ _ Hl) as [m Hm]. exact (proj1 Hi m i Hm).
    - destruct (lookup_i _ _); cbn [fst snd]; [split; [exact Hi|intros Hx; exfalso; apply Hx; reflexivity]|].
      pose proof (create_captive f IH rs h d Hc Hi Hd) as H. rewrite El in H. exact H.
    - pose proof (create_captive f IH rs h d Hc Hi Hd) as H. rewrite El in H. exact H.
  Qed.

  (* ---------------------------------------------------------------- through initializers and Build *)
  Definition K (rs : rstate) : Prop := on_c rs /\ CInv rs.

  Lemma on_c_create_top rs h d : on_c rs -> on_c (fst (create_top rs h d)).
  Proof.
    apply (gen_create_top h on_c); unfold ProofsTerm.on_c; intros; cbn [rs_p with_p log];
      unfold cache_set, track_scope, single_set, track_single, upd_scope; try destruct (inst_disposable _); cbn [p_descs]; assumption.
  Qed.
  Lemma K_create_top rs h d : K rs -> In d c -> K (fst (create_top rs h d)).
  Proof.
    intros [Hc Hi] Hd. split; [apply on_c_create_top; exact Hc|]. unfold create_top.
    apply (create_captive (fuel_for (rs_p rs))); [|exact Hc|exact Hi|exact Hd].
    intros rs0 h0 d0. apply accepted_registry_has_no_captive_instance.
  Qed.
  Lemma K_run_inits ds : forall rs h, K rs -> (forall d, In d ds -> In d c) -> K (fst (run_inits rs h ds)).
  Proof.
    induction ds as [|d ds IH]; intros rs h H Hin; cbn [run_inits]; [exact H|].
    destruct (lookup_i (sc_cache (get_scope (rs_p rs) h)) (ds_ident d)); [apply IH; [exact H|intros; apply Hin; right; assumption]|].
    pose proof (K_create_top rs h d H (Hin d (or_introl eq_refl))) as H1.
    destruct (create_top rs h d) as [rs1 [a|e|]]; cbn [fst] in *; try exact H1. apply IH; [exact H1|intros; apply Hin; right; assumption].
  Qed.
  Lemma K_create_singletons ds : forall rs att, K rs -> (forall d, In d ds -> In d c) -> K (fst (fst (create_singletons rs att ds))).
  Proof.
    induction ds as [|d ds IH]; intros rs att H Hin; cbn [create_singletons]; [exact H|].
    assert (Hrest : forall d0, In d0 ds -> In d0 c) by (intros; apply Hin; right; assumption).
    destruct (singleton_pending (rs_p rs) d && negb (attempted att d)); [|apply IH; assumption].
    destruct (build_cancelled rs); [exact H|].
    pose proof (K_create_top rs 0 d H (Hin d (or_introl eq_refl))) as H1.
    destruct (create_top rs 0 d) as [rs1 [a|e|]]; cbn [fst] in *; try exact H1. apply IH; assumption.
  Qed.
  Lemma K_create_by_order ord : forall rs att, K rs -> K (fst (fst (create_by_order rs att c ord))).
  Proof.
    induction ord as [|rid ord IH]; intros rs att H; cbn [create_by_order]; [exact H|].
    destruct (find _ c) as [d|] eqn:Hf; [|apply IH; exact H].
    destruct (build_cancelled rs); [exact H|].
    pose proof (K_create_top rs 0 d H (proj1 (find_some _ _ Hf))) as H1.
    destruct (create_top rs 0 d) as [rs1 [a|e|]]; cbn [fst] in *; try exact H1. apply IH. exact H1.
  Qed.
  Lemma K_create_all ord rs : K rs -> K (fst (create_all_singletons rs c ord)).
  Proof.
    intros H. unfold create_all_singletons.
    assert (Hu : forall d, In d (unplaced_instances c ord) -> In d c) by (intros d Hd; unfold unplaced_instances in Hd; apply filter_In in Hd; tauto).
    pose proof (K_create_singletons (unplaced_instances c ord) rs [] H Hu) as H1.
    destruct (create_singletons rs [] (unplaced_instances c ord)) as [[rs1 att1] [r|]]; cbn [fst] in *; [exact H1|].
    pose proof (K_create_by_order ord rs1 att1 H1) as H2.
    destruct (create_by_order rs1 att1 c ord) as [[rs2 att2] [r|]]; cbn [fst] in *; [exact H2|].
    pose proof (K_create_singletons c rs2 att2 H2 (fun d Hd => Hd)) as H3.
    destruct (create_singletons rs2 att2 c) as [[rs3 att3] r]; cbn [fst] in *. exact H3.
  Qed.
End Captive.

(* Build itself: the provider it returns holds no instance of a scoped registration in its singleton table, and no
   constructor call made during Build for a singleton or transient registration received one *)
Theorem build_makes_no_captive c invs ord invs' evs p : rids_wf c ->
  build c invs ord = (invs', evs, inl p) ->
  lifetime_conflict c = false /\ p_descs p = c /\ inv_p c p /\ Forall (ev_ok c) evs.
Proof.
  intros Hw. unfold build.
  destruct (has_cycle c); [discriminate|]. destruct (lifetime_conflict c) eqn:Hl; [discriminate|].
  destruct (missing_required c); [discriminate|].
  set (rs0 := mkRs invs (mkProv c [root_scope] [] [] true) []).
  assert (H0 : K c rs0) by (split; [reflexivity|split; [intros n i []|constructor]]).
  pose proof (K_create_all c Hl Hw ord rs0 H0) as H1.
  destruct (create_all_singletons rs0 c ord) as [rs1 [r|]]; cbn [fst] in H1.
  - destruct (close_provider [] (rs_p rs1)) as [[p' evs'] n]. discriminate.
  - pose proof (K_run_inits c Hl Hw (filter is_initializer c) rs1 0 H1 (fun d Hd => proj1 (proj1 (filter_In _ _ _) Hd))) as H2.
    destruct (run_inits rs1 0 (filter is_initializer c)) as [rs2 [r|]]; cbn [fst] in H2.
    + destruct (close_scope _ _ _ _) as [[p3 evs3] n3]. destruct (close_provider [] p3) as [[p4 evs4] n4]. discriminate.
    + intros E. inversion E; subst. destruct H2 as [Hc [Hp Hev]].
      split; [reflexivity|split; [exact Hc|split; [exact Hp|]]]. unfold events_of. apply Forall_rev. exact Hev.
Qed.

(* ================================================================== the premises are invariants of the registry *)
(* every descriptor of the registry belongs to a registration that was added, over every history *)
Section RegsFrom.
  Variable R : reg -> Prop.
  Definition coll_regs (c : coll) : Prop := forall d, In d c -> R (ds_reg d).

  Lemma run_steps_R r steps : R r -> Forall (fun s => match s with inl d => ds_reg d = r | inr _ => True end) steps ->
    forall c c', coll_regs c -> run_steps c steps = inl c' -> coll_regs c'.
  Proof.
    intros Hr. induction steps as [|[d|e] steps IH]; intros Hf c c' Hc; cbn [run_steps].
    - intros E; inversion E; subst; exact Hc.
    - inversion Hf as [|x l Hd Hrest]; subst. destruct (register c d) as [c1|e] eqn:Er; [|discriminate].
      apply IH; [exact Hrest|]. intros x Hx. destruct (register_regs c d c1 Er x Hx) as [Hin|Heq]; [apply Hc; exact Hin|].
      rewrite Heq. exact Hr.
    - discriminate.
  Qed.
  Lemma add_service_R c v r : R r -> coll_regs c -> coll_regs (fst (fst (add_service c v r))).
  Proof.
    intros Hr Hc. unfold add_service.
    destruct ((r_bad r =? 1) || (r_bad r =? 6)); [exact Hc|].
    destruct ((negb (r_name r =? 0) && negb (r_group r =? 0)) || negb (r_bad r =? 0)); [exact Hc|].
    destruct (is_void r && negb (r_group r =? 0)); [exact Hc|].
    destruct (is_reserved (form_type (r_form r))); [exact Hc|].
    destruct (run_steps c (add_steps r (S v))) as [c'|e] eqn:Er; [|exact Hc]. cbn [fst].
    exact (run_steps_R r (add_steps r (S v)) Hr (add_steps_reg r (S v)) c c' Hc Er).
  Qed.
  Lemma remove_service_R c t k : coll_regs c -> coll_regs (remove_service c t k).
  Proof.
    intros Hc. unfold remove_service. destruct (find_service c t k); [|exact Hc].
    intros x Hx. apply Hc. exact (rm_in_coll t k c x Hx).
  Qed.
  Definition call_regs_ok (o : op) : Prop := match o with OAdd r => R r | _ => True end.
  Definition op_regs_ok (o : op) : Prop :=
    match o with
    | OAdd r => R r
    | OModules ms => Forall call_regs_ok (flatten_modules ms)
    | _ => True
    end.
  Lemma direct_call_R st o : coll_regs (fst st) -> call_regs_ok o -> coll_regs (fst (fst (direct_call st o))).
  Proof.
    intros Hc Ho. destruct o; cbn [direct_call fst]; try exact Hc.
    - pose proof (add_service_R (fst st) (snd st) r Ho Hc) as H.
      destruct (add_service (fst st) (snd st) r) as [[c' v'] e]. exact H.
    - apply remove_service_R; exact Hc.
    - apply remove_service_R; exact Hc.
  Qed.
  Lemma run_flat_R l : forall st, coll_regs (fst st) -> Forall call_regs_ok (map snd l) -> coll_regs (fst (fst (run_flat st l))).
  Proof.
    induction l as [|[ns o] l IH]; intros st Hc Hf; cbn [run_flat]; [exact Hc|].
    cbn [map snd] in Hf. inversion Hf as [|x y Ho Hl]; subst.
    pose proof (direct_call_R st o Hc Ho) as H1.
    destruct (direct_call st o) as [st' [e|]]; cbn [fst] in *; [exact H1|apply IH; assumption].
  Qed.
  Lemma step_R w o : coll_regs (w_coll w) -> op_regs_ok o -> coll_regs (w_coll (fst (fst (step w o)))).
  Proof.
    intros Hj Hok. destruct (is_coll_op o) eqn:Hc; [|rewrite step_keeps_coll; assumption].
    destruct o; cbn [is_coll_op] in Hc; try discriminate; cbn [step op_regs_ok] in *.
    - pose proof (add_service_R (w_coll w) (w_void w) r Hok Hj) as H.
      destruct (add_service (w_coll w) (w_void w) r) as [[c' v'] e]. exact H.
    - apply remove_service_R; exact Hj.
    - apply remove_service_R; exact Hj.
    - rewrite apply_modules_flat.
      pose proof (run_flat_R (flat_map flat_entries ms) (w_coll w, w_void w) Hj) as H.
      rewrite flat_entries_ops_list in H. specialize (H Hok).
      destruct (run_flat (w_coll w, w_void w) (flat_map flat_entries ms)) as [[c' v'] e]. exact H.
    - exact Hj.
    - exact Hj.
    - exact Hj.
    - exact Hj.
  Qed.
  Theorem registry_holds_added_registrations ops : forall w, coll_regs (w_coll w) -> Forall op_regs_ok ops ->
    coll_regs (w_coll (fst (run_from w ops))).
  Proof.
    induction ops as [|o ops IH]; intros w Hj Hok; cbn [run_from]; [exact Hj|].
    inversion Hok as [|x y Ho Hl]; subst.
    pose proof (step_R w o Hj Ho) as H1.
    destruct (step w o) as [[w1 evs] r]. cbn [fst] in H1.
    specialize (IH w1 H1 Hl). destruct (run_from w1 ops) as [w2 tr]. exact IH.
  Qed.
End RegsFrom.

(* `optional` on fields of parameter objects only: a property of each registration *)
Definition reg_opt_wf (r : reg) : Prop := forall dp, In dp (reg_deps r) -> d_opt dp = true -> fst (reg_params r) = true.
Theorem opt_wf_after_every_history ops : Forall (op_regs_ok reg_opt_wf) ops ->
  opt_wf (w_coll (fst (run_from init_world ops))).
Proof.
  intros H d dp Hd Hdp Ho.
  exact (registry_holds_added_registrations reg_opt_wf ops init_world (fun d0 (H0 : In d0 []) => match H0 with end) H d Hd dp Hdp Ho).
Qed.

(* one lifetime per registration id: a property of the set of registrations a history adds *)
Definition ids_one_lifetime (Rs : reg -> Prop) : Prop := forall r r', Rs r -> Rs r' -> r_id r = r_id r' -> r_life r = r_life r'.
Theorem rids_wf_after_every_history (Rs : reg -> Prop) ops : ids_one_lifetime Rs -> Forall (op_regs_ok Rs) ops ->
  rids_wf (w_coll (fst (run_from init_world ops))).
Proof.
  intros Hone H d d' Hd Hd' Hr.
  pose proof (registry_holds_added_registrations Rs ops init_world (fun d0 (H0 : In d0 []) => match H0 with end) H) as Hc.
  unfold ds_life. apply Hone; [apply Hc; exact Hd|apply Hc; exact Hd'|exact Hr].
Qed.

(* boolean forms of the two premises, for examples and for the harness *)
Definition rids_wfb (c : coll) : bool :=
  forallb (fun d => forallb (fun d' => negb (ds_rid d =? ds_rid d') || life_eqb (ds_life d) (ds_life d')) c) c.
Lemma life_eqb_eq a b : life_eqb a b = true -> a = b.
Proof. destruct a, b; cbn; congruence. Qed.
Lemma rids_wfb_spec c : rids_wfb c = true -> rids_wf c.
Proof.
  unfold rids_wfb. intros H d d' Hd Hd' Hr. rewrite forallb_forall in H. specialize (H d Hd). rewrite forallb_forall in H.
  specialize (H d' Hd'). rewrite Hr, Nat.eqb_refl in H. cbn [negb orb] in H. apply life_eqb_eq. exact H.
Qed.
Definition opt_wfb (c : coll) : bool :=
  forallb (fun d => fst (reg_params (ds_reg d)) || forallb (fun dp => negb (d_opt dp)) (reg_deps (ds_reg d))) c.
Lemma opt_wfb_spec c : opt_wfb c = true -> opt_wf c.
Proof.
  unfold opt_wfb. intros H d dp Hd Hdp Ho. rewrite forallb_forall in H. specialize (H d Hd).
  destruct (fst (reg_params (ds_reg d))); [reflexivity|]. cbn [orb] in H. rewrite forallb_forall in H.
  specialize (H dp Hdp). rewrite Ho in H. discriminate.
Qed.

(* non-vacuity: a registry with a singleton, a transient on the singleton (parameter object, optional missing field),
   a scoped service on both, a scoped group and its scoped consumer: Build accepts it, the premises hold, and a
   resolution in a scope constructs the scoped consumer from three instances *)
Example accepted_registry_example :
  let r1 := mkReg 1 Singleton (FCtor false [] [0] false) 0 0 [] [] [0] [false] 0 in
  let r2 := mkReg 2 Transient (FCtor true [PDep (mkDep 0 0 0 false); PDep (mkDep 7 0 0 true)] [1] false) 0 0 [] [] [1] [false] 0 in
  let r3 := mkReg 3 Scoped (FCtor false [PDep (mkDep 0 0 0 false); PDep (mkDep 1 0 0 false)] [2] false) 0 0 [] [] [2] [false] 0 in
  let r4 := mkReg 4 Scoped (FCtor false [] [3] false) 0 2 [] [] [3] [false] 0 in
  let r5 := mkReg 5 Scoped (FCtor false [PDep (mkDep 3 0 2 false); PDep (mkDep 2 0 0 false)] [4] false) 0 0 [] [] [4] [false] 0 in
  let ops := [OAdd r1; OAdd r2; OAdd r3; OAdd r4; OAdd r5; OBuild []; OCreateScope 0 0 0; OResolve 0 1 4 0] in
  let w := fst (run_from init_world ops) in
  rids_wfb (w_coll w) = true /\ opt_wfb (w_coll w) = true /\
  lifetime_conflict (w_coll w) = false /\ missing_required (w_coll w) = false /\
  match nth_error (snd (run_from init_world ops)) 7 with
  | Some (evs, RVal (AInst (IObj 5 0 0 4))) => length evs = 4
  | _ => False
  end.
Proof. vm_compute. repeat split. Qed.
