(* ProofsSingle.v — C01/C03 over resolutions: whatever is resolved, in whatever scope, the singleton table and the
   provider's own disposal list are left exactly as Build made them; only Build writes them and only the
   provider's Close empties them. *)
From Godi Require Import Base Model ProofsRuntime.

Section NonSingleton.
  Variable P : prov -> Prop.
  Hypothesis P_cache : forall p h n i, P p -> P (cache_set p h n i).
  Hypothesis P_track : forall p h i, P p -> P (track_scope p h i).

  Lemma ns_store life p h n i : life <> Singleton -> P p -> P (store life p h n i).
  Proof. intros Hl H. unfold store. destruct life; [congruence| |]; auto. Qed.
  Lemma ns_share life p h n i : life <> Singleton -> P p -> P (share life p h n i).
  Proof. intros Hl H. unfold share. destruct life; [congruence| |]; auto. Qed.
  Lemma ns_share_all life l : life <> Singleton ->
    forall p h i, P p -> P (fold_left (fun p a => share life p h (ds_ident a) i) l p).
  Proof. intros Hl. induction l as [|a l IH]; intros p h i H; cbn [fold_left]; auto using ns_share. Qed.
  Lemma ns_fan_out ks : forall p h d inv, ds_life d <> Singleton -> P p -> P (fan_out p h d inv ks).
  Proof.
    induction ks as [|k rest IH]; intros p h d inv Hl H; cbn [fan_out]; [exact H|].
    destruct (output_desc (p_descs p) d k); [destruct (out_is_nil (ds_reg d) k && life_eqb (ds_life d) Singleton); apply IH; [exact Hl|exact H|exact Hl|apply ns_store; assumption]|].
    apply IH; [exact Hl|]. unfold drop_output. destruct (ds_life d); [congruence| |]; auto.
  Qed.
  Lemma ns_drop_only ks : forall p h d inv, ds_life d <> Singleton -> P p -> P (drop_only p h d inv ks).
  Proof.
    induction ks as [|k rest IH]; intros p h d inv Hl H; cbn [drop_only]; [exact H|].
    destruct (output_desc (p_descs p) d k); [apply IH; assumption|].
    apply IH; [exact Hl|]. unfold drop_output. destruct (ds_life d); [congruence| |]; auto.
  Qed.

  Section WithRec.
    Variable recd : rstate -> nat -> desc -> rstate * rres.
    Hypothesis recd_P : forall rs h d, Prs P rs -> Prs P (fst (recd rs h d)).

    Lemma ns_create rs h d : ds_life d <> Singleton -> Prs P rs -> Prs P (fst (create recd rs h d)).
    Proof.
      intros Hl H. unfold create.
      destruct (r_form (ds_reg d)) as [t|io0 ps1 rets er|io0 ps1 fs er] eqn:Hf.
      - cbn [fst]. unfold Prs, with_p; cbn [rs_p]. apply ns_share_all; [exact Hl|]. unfold set_instance. apply ns_store; assumption.
      - destruct (reg_params (ds_reg d)) as [inobj ps0].
        pose proof (args_loop_P P recd recd_P ps0 rs h inobj [] H) as H1.
        destruct (args_loop recd rs h inobj ps0 []) as [rs1 [args|e]]; cbn [fst] in *; [|exact H1].
        destruct (cancels (ds_reg d) (get_inv (rs_invs rs1) (r_id (ds_reg d))));
        (destruct (effective_outcome (ds_reg d) (get_inv (rs_invs rs1) (r_id (ds_reg d)))); cbn [fst]; try exact H1;
        destruct rets as [|t0 [|t1 ts]]; cbn [fst]; unfold Prs, with_p, log, set_instance; cbn [rs_p];
        [ apply ns_store; assumption
        | apply ns_share_all; [exact Hl|apply ns_store; assumption]
        | apply ns_fan_out; assumption ]).
      - destruct (reg_params (ds_reg d)) as [inobj ps0].
        pose proof (args_loop_P P recd recd_P ps0 rs h inobj [] H) as H1.
        destruct (args_loop recd rs h inobj ps0 []) as [rs1 [args|e]]; cbn [fst] in *; [|exact H1].
        destruct (cancels (ds_reg d) (get_inv (rs_invs rs1) (r_id (ds_reg d))));
        (destruct (effective_outcome (ds_reg d) (get_inv (rs_invs rs1) (r_id (ds_reg d)))); cbn [fst]; try exact H1;
        match goal with |- context [stores_any ?a ?b ?c] => destruct (stores_any a b c) end; cbn [fst];
        unfold Prs, with_p, log; cbn [rs_p];
        [apply ns_fan_out|apply ns_drop_only]; assumption).
    Qed.
  End WithRec.

  Theorem ns_resolve : forall fuel rs h d, Prs P rs -> Prs P (fst (resolve_d fuel rs h d)).
  Proof.
    induction fuel as [|f IH]; intros rs h d H; cbn [resolve_d]; [exact H|].
    destruct (ds_life d) eqn:Hl.
    - destruct (lookup_i (p_single (rs_p rs)) (ds_ident d)); exact H.
    - destruct (lookup_i (sc_cache (get_scope (rs_p rs) h)) (ds_ident d)); [exact H|].
      apply ns_create; [exact IH|congruence|exact H].
    - apply ns_create; [exact IH|congruence|exact H].
  Qed.

  Corollary ns_resolve_req rs h t k : Prs P rs -> Prs P (fst (resolve_req rs h t k)).
  Proof. intros H. unfold resolve_req. apply req_P; auto using ns_resolve. Qed.
  Corollary ns_resolve_group rs h t g : Prs P rs -> Prs P (fst (resolve_group rs h t g)).
  Proof. intros H. unfold resolve_group, group_value. apply group_loop_P; auto using ns_resolve. Qed.
  Lemma ns_run_inits ds : Forall (fun d => is_initializer d = true) ds ->
    forall rs h, Prs P rs -> Prs P (fst (run_inits rs h ds)).
  Proof.
    induction ds as [|d ds IH]; intros Hf rs h H; cbn [run_inits]; [exact H|].
    inversion Hf as [|x l Hd Hrest]; subst.
    destruct (lookup_i (sc_cache (get_scope (rs_p rs) h)) (ds_ident d)); [apply IH; assumption|].
    assert (Hl : ds_life d <> Singleton).
    { unfold is_initializer in Hd. apply andb_prop in Hd. destruct Hd as [Hd _]. destruct (ds_life d); cbn in Hd; congruence. }
    assert (H1 : Prs P (fst (create_top rs h d))) by (unfold create_top; apply ns_create; auto using ns_resolve).
    destruct (create_top rs h d) as [rs1 [a|e|]]; cbn [fst] in *; try exact H1. apply IH; assumption.
  Qed.
End NonSingleton.

(* the provider-level tables *)
Definition singles (p : prov) : list (ident * inst) * list inst := (p_single p, p_sdisp p).

Lemma singles_cache p h n i : singles (cache_set p h n i) = singles p.
Proof. reflexivity. Qed.
Lemma singles_track p h i : singles (track_scope p h i) = singles p.
Proof. unfold track_scope. destruct (inst_disposable i); reflexivity. Qed.

Theorem resolution_leaves_singletons : forall fuel rs h d,
  singles (rs_p (fst (resolve_d fuel rs h d))) = singles (rs_p rs).
Proof.
  intros fuel rs h d.
  apply (ns_resolve (fun p => singles p = singles (rs_p rs))).
  - intros p h0 n i H. rewrite singles_cache. exact H.
  - intros p h0 i H. rewrite singles_track. exact H.
  - reflexivity.
Qed.
Theorem request_leaves_singletons : forall rs h t k,
  singles (rs_p (fst (resolve_req rs h t k))) = singles (rs_p rs).
Proof.
  intros rs h t k.
  apply (ns_resolve_req (fun p => singles p = singles (rs_p rs))).
  - intros p h0 n i H. rewrite singles_cache. exact H.
  - intros p h0 i H. rewrite singles_track. exact H.
  - reflexivity.
Qed.
Theorem group_request_leaves_singletons : forall rs h t g,
  singles (rs_p (fst (resolve_group rs h t g))) = singles (rs_p rs).
Proof.
  intros rs h t g.
  apply (ns_resolve_group (fun p => singles p = singles (rs_p rs))).
  - intros p h0 n i H. rewrite singles_cache. exact H.
  - intros p h0 i H. rewrite singles_track. exact H.
  - reflexivity.
Qed.

(* hence a singleton, once built, is what every later request yields, whatever was resolved in between and in
   whichever scopes *)
Theorem singleton_answer_is_stable : forall fuel rs h d fuel' h' d' fuel'' h'',
  ds_life d = Singleton ->
  snd (resolve_d (S fuel'') (fst (resolve_d fuel' rs h' d')) h'' d) = snd (resolve_d (S fuel) rs h d).
Proof.
  intros fuel rs h d fuel' h' d' fuel'' h'' Hl.
  rewrite !resolve_singleton_pure by exact Hl. cbn [snd].
  pose proof (resolution_leaves_singletons fuel' rs h' d') as H. unfold singles in H.
  injection H as H1 _. rewrite H1. reflexivity.
Qed.

(* ------------------------------------------------------------------ every operation but the provider's own Close *)
From Godi Require Import ProofsClosed.

Lemma singles_upd_scope p h f : singles (upd_scope p h f) = singles p.
Proof. reflexivity. Qed.

Lemma close_scope_singles : forall fuel ord p h, singles (fst (fst (close_scope fuel ord p h))) = singles p.
Proof.
  induction fuel as [|f IH]; intros ord p h; cbn [close_scope]; [reflexivity|].
  destruct (negb (sc_open (get_scope p h))); [reflexivity|].
  set (p0 := upd_scope p h _).
  assert (Hfold : forall ks acc, singles (fst (fst acc)) = singles p ->
            singles (fst (fst (fold_left (fun '(pa, ea, na) k =>
                     let '(pb, eb, nb) := close_scope f ord pa k in
                     (pb, ea ++ eb, if nb =? 0 then na else S na)) ks acc))) = singles p).
  { induction ks as [|k ks IHk]; intros [[pa ea] na] Ha; cbn [fold_left]; [exact Ha|].
    pose proof (IH ord pa k) as Hk. destruct (close_scope f ord pa k) as [[pb eb] nb]. cbn [fst] in *.
    apply IHk. cbn [fst]. rewrite Hk. exact Ha. }
  specialize (Hfold (nodup_nat (order_by ord (open_children p0 h))) (p0, [], 0) eq_refl).
  destruct (fold_left _ _ (p0, [], 0)) as [[p1 evs1] n1]. cbn [fst] in Hfold.
  destruct (close_insts (p_descs p1) h (sc_disp (get_scope p1 h))) as [evs2 n2]. cbn [fst].
  rewrite singles_upd_scope. exact Hfold.
Qed.

Lemma cancel_prov_singles c ord p : singles (fst (cancel_prov c ord p)) = singles p.
Proof.
  unfold cancel_prov.
  assert (Hfold : forall ks acc, singles (fst (fst acc)) = singles p ->
            singles (fst (fst (fold_left (fun '(pa, ea, na) k =>
                 let '(pb, eb, nb) := close_scope (scope_fuel pa) ord pa k in (pb, ea ++ eb, na + nb)) ks acc))) = singles p).
  { induction ks as [|k ks IHk]; intros [[pa ea] na] Ha; cbn [fold_left]; [exact Ha|].
    pose proof (close_scope_singles (scope_fuel pa) ord pa k) as Hk.
    destruct (close_scope (scope_fuel pa) ord pa k) as [[pb eb] nb]. cbn [fst] in *.
    apply IHk. cbn [fst]. rewrite Hk. exact Ha. }
  match goal with |- context [fold_left ?f ?ks (p, [], 0)] => specialize (Hfold ks (p, [], 0) eq_refl); destruct (fold_left f ks (p, [], 0)) as [[p' evs] n] end.
  exact Hfold.
Qed.

Definition keeps (w w' : world) (pi : nat) : Prop :=
  pi < length (w_provs w') /\ singles (get_prov w' pi) = singles (get_prov w pi).

Lemma keeps_same_provs w w' pi : w_provs w' = w_provs w -> pi < length (w_provs w) -> keeps w w' pi.
Proof. intros E H. unfold keeps, get_prov. rewrite E. auto. Qed.

Lemma keeps_set w i p pi :
  pi < length (w_provs w) ->
  (i = pi -> singles p = singles (get_prov w pi)) ->
  keeps w (mkWorld (w_coll w) (w_void w) (upd_nth (w_provs w) i (fun _ => p)) (w_invs w) (w_cancelled w)) pi.
Proof.
  intros Hpi Hp. unfold keeps. cbn [w_provs]. rewrite upd_nth_length. split; [exact Hpi|].
  destruct (Nat.lt_ge_cases i (length (w_provs w))) as [Hi|Hi].
  - rewrite get_prov_set by exact Hi. destruct (i =? pi) eqn:E; [apply Nat.eqb_eq in E; auto|reflexivity].
  - unfold get_prov; cbn [w_provs]. rewrite nth_upd_nth_oob by exact Hi. reflexivity.
Qed.
(* the same with another invocation table *)
Lemma keeps_set_invs w i p invs pi :
  pi < length (w_provs w) ->
  (i = pi -> singles p = singles (get_prov w pi)) ->
  keeps w (mkWorld (w_coll w) (w_void w) (upd_nth (w_provs w) i (fun _ => p)) invs (w_cancelled w)) pi.
Proof. intros Hpi Hp. exact (keeps_set w i p pi Hpi Hp). Qed.

Definition not_own_close (o : op) (pi : nat) : Prop := match o with OCloseProvider p _ => p <> pi | _ => True end.

Lemma singles_preds rs0 :
  (forall p h n i, singles p = singles rs0 -> singles (cache_set p h n i) = singles rs0) /\
  (forall p h i, singles p = singles rs0 -> singles (track_scope p h i) = singles rs0).
Proof. split; intros; [rewrite singles_cache|rewrite singles_track]; assumption. Qed.

Theorem step_leaves_singletons w o pi :
  pi < length (w_provs w) -> not_own_close o pi -> keeps w (fst (fst (step w o))) pi.
Proof.
  intros Hpi Hno. destruct o; cbn [step].
  - destruct (add_service _ _ _) as [[c' v'] e]. apply keeps_same_provs; [reflexivity|exact Hpi].
  - apply keeps_same_provs; [reflexivity|exact Hpi].
  - apply keeps_same_provs; [reflexivity|exact Hpi].
  - destruct (apply_modules _ _) as [[c' v'] e]. apply keeps_same_provs; [reflexivity|exact Hpi].
  - apply keeps_same_provs; [reflexivity|exact Hpi].
  - apply keeps_same_provs; [reflexivity|exact Hpi].
  - apply keeps_same_provs; [reflexivity|exact Hpi].
  - apply keeps_same_provs; [reflexivity|exact Hpi].
  - (* Build appends a provider or changes nothing *)
    destruct (build (w_coll w) (w_invs w) ord) as [[invs evs] [p|e]]; cbn [fst].
    + unfold keeps, get_prov; cbn [w_provs]. rewrite app_length, app_nth1 by exact Hpi. split; [lia|reflexivity].
    + apply keeps_same_provs; [reflexivity|exact Hpi].
  - (* CreateScope: the initializers are scoped *)
    unfold create_scope.
    destruct (negb (handle_ok (get_prov w p) parent)); [apply keeps_same_provs; [reflexivity|exact Hpi]|].
    destruct ((parent =? 0) && negb (p_open (get_prov w p))); [apply keeps_same_provs; [reflexivity|exact Hpi]|].
    destruct (negb (parent =? 0) && negb (sc_open (get_scope (get_prov w p) parent))); [apply keeps_same_provs; [reflexivity|exact Hpi]|].
    match goal with |- context [run_inits ?a ?b ?c] =>
      assert (Hin : singles (rs_p (fst (run_inits a b c))) = singles (get_prov w p));
      [ destruct (singles_preds (get_prov w p)) as [Hc1 Hc2];
        apply (ns_run_inits (fun q => singles q = singles (get_prov w p)) Hc1 Hc2);
        [apply Forall_forall; intros x Hx; apply filter_In in Hx; exact (proj2 Hx)|reflexivity]
      | destruct (run_inits a b c) as [rs [r|]] ]
    end; cbn [fst] in Hin.
    + pose proof (close_scope_singles (scope_fuel (rs_p rs)) [] (rs_p rs) (length (p_scopes (get_prov w p)))) as Hcl.
      destruct (close_scope _ _ _ _) as [[p2 evs2] n2]. cbn [fst] in *.
      apply keeps_set_invs; [exact Hpi|]. intros ->. unfold singles at 1; cbn [p_single p_sdisp]. fold (singles p2). rewrite Hcl. exact Hin.
    + cbn [fst]. apply keeps_set_invs; [exact Hpi|]. intros ->. exact Hin.
  - (* Resolve *)
    destruct (t =? T_NIL); [destruct (disposed_check _ _); apply keeps_same_provs; (reflexivity || exact Hpi)|].
    unfold do_resolve. destruct (negb (handle_ok (get_prov w p) h)); [apply keeps_same_provs; [reflexivity|exact Hpi]|].
    destruct (disposed_check _ _); [apply keeps_same_provs; [reflexivity|exact Hpi]|].
    pose proof (request_leaves_singletons (mkRs (w_invs w) (get_prov w p) []) h t (name_key n)) as Hs.
    destruct (resolve_req _ _ _ _) as [rs r]. cbn [fst rs_p] in *.
    apply keeps_set_invs; [exact Hpi|]. intros ->. exact Hs.
  - destruct (t =? T_NIL); [destruct (disposed_check _ _); apply keeps_same_provs; (reflexivity || exact Hpi)|].
    destruct (g =? 0); [destruct (disposed_check _ _); apply keeps_same_provs; (reflexivity || exact Hpi)|].
    unfold do_resolve. destruct (negb (handle_ok (get_prov w p) h)); [apply keeps_same_provs; [reflexivity|exact Hpi]|].
    destruct (disposed_check _ _); [apply keeps_same_provs; [reflexivity|exact Hpi]|].
    pose proof (group_request_leaves_singletons (mkRs (w_invs w) (get_prov w p) []) h t g) as Hs.
    destruct (resolve_group _ _ _ _) as [rs r]. cbn [fst rs_p] in *.
    apply keeps_set_invs; [exact Hpi|]. intros ->. exact Hs.
  - (* a scope's Close *)
    destruct (negb (handle_ok (get_prov w p) h) || (h =? 0)); [apply keeps_same_provs; [reflexivity|exact Hpi]|].
    pose proof (close_scope_singles (scope_fuel (get_prov w p)) ord (get_prov w p) h) as Hs.
    destruct (close_scope _ _ _ _) as [[pv' evs] n]. cbn [fst] in *. unfold set_prov.
    apply keeps_set; [exact Hpi|]. intros ->. exact Hs.
  - (* another provider's Close *)
    cbn [not_own_close] in Hno.
    destruct (close_provider ord (get_prov w p)) as [[pv' evs] n]. cbn [fst]. unfold set_prov.
    apply keeps_set; [exact Hpi|]. intros E. contradiction.
  - (* context cancellation closes scopes only *)
    pose proof (cancel_fold_provs c ord (w_provs w) [] []) as Hf.
    destruct (fold_left _ (w_provs w) ([], [])) as [provs evs]. cbn [fst app] in Hf. subst provs. cbn [fst].
    unfold keeps, get_prov; cbn [w_provs]. rewrite map_length. split; [exact Hpi|].
    rewrite (nth_indep _ closed_prov (fst (cancel_prov c ord closed_prov))) by (rewrite map_length; exact Hpi).
    rewrite (map_nth (fun pv => fst (cancel_prov c ord pv))). apply cancel_prov_singles.
  - apply keeps_same_provs; [reflexivity|exact Hpi].
  - apply keeps_same_provs; [reflexivity|exact Hpi].
  - apply keeps_same_provs; [reflexivity|exact Hpi].
  - apply keeps_same_provs; [reflexivity|exact Hpi].
Qed.

(* over every history: as long as the provider itself is not closed, its singletons are the ones Build created *)
Theorem singletons_fixed_over_histories ops : forall w pi,
  pi < length (w_provs w) -> Forall (fun o => not_own_close o pi) ops -> keeps w (fst (run_from w ops)) pi.
Proof.
  induction ops as [|o ops IH]; intros w pi Hpi Hf; cbn [run_from]; [split; [exact Hpi|reflexivity]|].
  inversion Hf as [|x l Ho Hrest]; subst.
  destruct (step_leaves_singletons w o pi Hpi Ho) as [Hlen Hs].
  destruct (step w o) as [[w1 evs] r]. cbn [fst] in *.
  destruct (IH w1 pi Hlen Hrest) as [Hlen2 Hs2].
  destruct (run_from w1 ops) as [w2 tr]. cbn [fst] in *. split; [exact Hlen2|]. rewrite Hs2. exact Hs.
Qed.

(* non-vacuity: a history on a built provider that never closes it *)
Example singletons_fixed_example :
  let r1 := mkReg 1 Singleton (FCtor false [] [9] false) 0 0 [] [] [9] [false] 0 in
  let r2 := mkReg 2 Scoped (FCtor false [PDep (mkDep 9 0 0 false)] [1] false) 0 0 [] [] [1] [false] 0 in
  let w := fst (run_from init_world [OAdd r1; OAdd r2; OBuild []]) in
  let ops := [OCreateScope 0 0 0; OResolve 0 1 1 0; OResolve 0 0 9 0; OClose 0 1 []; OBuild []; OCloseProvider 1 []] in
  0 < length (w_provs w) /\ Forall (fun o => not_own_close o 0) ops /\
  singles (get_prov (fst (run_from w ops)) 0) = singles (get_prov w 0) /\ fst (singles (get_prov w 0)) <> [].
Proof. vm_compute. repeat split; try lia; try discriminate. repeat constructor; discriminate. Qed.
