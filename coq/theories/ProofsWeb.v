(* ProofsWeb.v — theorems about the middleware model Web.v, for all five integrations, every number
   of configured middlewares, every option combination and every exit path. *)
From Godi Require Import Base Web.

Definition is_mw (e : wev) : bool := match e with WMw _ => true | _ => false end.
Definition valid_scen (s : wscen) : Prop := match w_exit s with XMwErr i => i < w_nmw s | _ => True end.

(* what the middleware loop emits: middlewares k .. k+n-1 in order, cut after the failing one *)
Lemma mws_none n : forall k, mws k n None = (map WMw (seq k n), false).
Proof.
  induction n as [|n IH]; intros k; cbn [mws seq map]; [reflexivity|]. rewrite IH. reflexivity.
Qed.

Lemma mws_some n : forall k f, k <= f -> f < k + n ->
  mws k n (Some f) = (map WMw (seq k (S (f - k))), true).
Proof.
  induction n as [|n IH]; intros k f Hle Hlt; [lia|]. cbn [mws].
  destruct (f =? k) eqn:E.
  - apply Nat.eqb_eq in E. subst. rewrite Nat.sub_diag. reflexivity.
  - apply Nat.eqb_neq in E. rewrite (IH (S k) f) by lia.
    replace (S (f - k)) with (S (S (f - S k))) by lia. reflexivity.
Qed.

Lemma mws_some_out n : forall k f, f < k -> mws k n (Some f) = (map WMw (seq k n), false).
Proof.
  induction n as [|n IH]; intros k f H; cbn [mws seq map]; [reflexivity|].
  destruct (f =? k) eqn:E; [apply Nat.eqb_eq in E; lia|]. rewrite IH by lia. reflexivity.
Qed.

Lemma count_app e a b : count_w e (a ++ b) = count_w e a + count_w e b.
Proof. unfold count_w. rewrite filter_app, app_length. reflexivity. Qed.
Lemma count_mws_other e l : is_mw e = false -> count_w e (map WMw l) = 0.
Proof.
  intros H. unfold count_w. induction l as [|x l IH]; [reflexivity|]. cbn [map filter].
  destruct e; cbn in H; try discriminate; cbn [wev_eqb]; exact IH.
Qed.
Lemma count_mw_seq j k n : count_w (WMw j) (map WMw (seq k n)) = if (k <=? j) && (j <? k + n) then 1 else 0.
Proof.
  revert k; induction n as [|n IH]; intros k; cbn [seq map].
  - destruct (k <=? j) eqn:A; cbn [andb]; [|reflexivity].
    destruct (j <? k + 0) eqn:B; [apply Nat.ltb_lt in B; apply Nat.leb_le in A; lia|reflexivity].
  - unfold count_w in *. cbn [filter wev_eqb]. destruct (j =? k) eqn:E.
    + apply Nat.eqb_eq in E. subst. cbn [length]. rewrite IH.
      assert ((S k <=? k) = false) as -> by (apply Nat.leb_gt; lia). cbn [andb].
      rewrite Nat.leb_refl. assert ((k <? k + S n) = true) as -> by (apply Nat.ltb_lt; lia). reflexivity.
    + rewrite IH. apply Nat.eqb_neq in E.
      destruct (k <=? j) eqn:A, (S k <=? j) eqn:B, (j <? S k + n) eqn:C, (j <? k + S n) eqn:D; cbn [andb]; try reflexivity;
        repeat match goal with
               | H : (_ <=? _) = true |- _ => apply Nat.leb_le in H
               | H : (_ <=? _) = false |- _ => apply Nat.leb_gt in H
               | H : (_ <? _) = true |- _ => apply Nat.ltb_lt in H
               | H : (_ <? _) = false |- _ => apply Nat.ltb_ge in H
               end; lia.
Qed.

(* ------------------------------------------------------------------ the model meets the property, for every scenario *)
Theorem closed_exactly_once s : valid_scen s ->
  count_w WClosed (mw_trace s) = match w_exit s with XCreateFail => 0 | _ => 1 end.
Proof.
  intros Hv. unfold mw_trace, valid_scen, close_evs in *.
  destruct (w_exit s) as [| i | | |] eqn:Ex.
  - rewrite mws_none. destruct (w_integ s), (w_closefails s); rewrite !count_app, count_mws_other by reflexivity; reflexivity.
  - rewrite (mws_some (w_nmw s) 0 i) by lia.
    destruct (w_integ s), (w_closefails s); rewrite !count_app, count_mws_other by reflexivity; reflexivity.
  - rewrite mws_none. destruct (w_integ s), (w_closefails s); rewrite !count_app, count_mws_other by reflexivity; reflexivity.
  - rewrite mws_none. destruct (w_integ s), (w_closefails s); rewrite !count_app, count_mws_other by reflexivity; reflexivity.
  - reflexivity.
Qed.

(* configured middlewares run in configuration order, none after the failing one, none twice *)
Theorem middlewares_in_order s : valid_scen s ->
  filter is_mw (mw_trace s) =
  map WMw (seq 0 (match w_exit s with XMwErr i => S i | XCreateFail => 0 | _ => w_nmw s end)).
Proof.
  intros Hv. unfold mw_trace, valid_scen, close_evs in *.
  assert (Hf : forall l, filter is_mw (map WMw l) = map WMw l).
  { induction l as [|x l IH]; [reflexivity|]. cbn [map filter is_mw]. rewrite IH. reflexivity. }
  destruct (w_exit s) as [| i | | |] eqn:Ex.
  - rewrite mws_none. destruct (w_integ s), (w_closefails s); rewrite !filter_app, Hf; cbn; rewrite app_nil_r; reflexivity.
  - rewrite (mws_some (w_nmw s) 0 i) by lia. rewrite Nat.sub_0_r.
    destruct (w_integ s), (w_closefails s); rewrite !filter_app, Hf; cbn; rewrite app_nil_r; reflexivity.
  - rewrite mws_none. destruct (w_integ s), (w_closefails s); rewrite !filter_app, Hf; cbn; rewrite app_nil_r; reflexivity.
  - rewrite mws_none. destruct (w_integ s), (w_closefails s); rewrite !filter_app, Hf; cbn; rewrite app_nil_r; reflexivity.
  - reflexivity.
Qed.

(* the handler runs exactly when a scope exists and no middleware failed; otherwise the error handler runs, once *)
Theorem handler_or_error_handler s : valid_scen s ->
  (count_w WHandler (mw_trace s), count_w WErrHandler (mw_trace s)) =
  match w_exit s with XMwErr _ | XCreateFail => (0, 1) | _ => (1, 0) end.
Proof.
  intros Hv. unfold mw_trace, valid_scen, close_evs in *.
  destruct (w_exit s) as [| i | | |] eqn:Ex.
  - rewrite mws_none. destruct (w_integ s), (w_closefails s); rewrite !count_app, !count_mws_other by reflexivity; reflexivity.
  - rewrite (mws_some (w_nmw s) 0 i) by lia.
    destruct (w_integ s), (w_closefails s); rewrite !count_app, !count_mws_other by reflexivity; reflexivity.
  - rewrite mws_none. destruct (w_integ s), (w_closefails s); rewrite !count_app, !count_mws_other by reflexivity; reflexivity.
  - rewrite mws_none. destruct (w_integ s), (w_closefails s); rewrite !count_app, !count_mws_other by reflexivity; reflexivity.
  - reflexivity.
Qed.

(* the scope is closed after the last user callback: after the (only) WClosed nothing but the reporting
   of a close error or of the middleware error follows *)
Fixpoint after_closed (l : list wev) : bool :=
  match l with
  | [] => true
  | WClosed :: rest => forallb (fun e => match e with WCloseErrHandler | WErrHandler => true | _ => false end) rest
  | _ :: l' => after_closed l'
  end.
Lemma after_closed_mws l tail : after_closed (map WMw l ++ tail) = after_closed tail.
Proof. induction l as [|x l IH]; [reflexivity|]. cbn [map app after_closed]. exact IH. Qed.

Theorem closed_after_callbacks s : valid_scen s -> after_closed (mw_trace s) = true.
Proof.
  intros Hv. unfold mw_trace, valid_scen, close_evs in *.
  destruct (w_exit s) as [| i | | |] eqn:Ex.
  - rewrite mws_none. destruct (w_integ s), (w_closefails s); rewrite after_closed_mws; reflexivity.
  - rewrite (mws_some (w_nmw s) 0 i) by lia. destruct (w_integ s), (w_closefails s); rewrite after_closed_mws; reflexivity.
  - rewrite mws_none. destruct (w_integ s), (w_closefails s); rewrite after_closed_mws; reflexivity.
  - rewrite mws_none. destruct (w_integ s), (w_closefails s); rewrite after_closed_mws; reflexivity.
  - reflexivity.
Qed.

Lemma no_middleware_after_the_failing_one s i : w_exit s = XMwErr i -> i < w_nmw s -> count_w (WMw (S i)) (mw_trace s) = 0.
Proof.
  intros Ex Hi. unfold mw_trace, close_evs. rewrite Ex. rewrite (mws_some (w_nmw s) 0 i) by lia. rewrite Nat.sub_0_r.
  destruct (w_integ s), (w_closefails s); rewrite !count_app, count_mw_seq; cbn [count_w filter wev_eqb length];
    assert ((S i <? 0 + S i) = false) as -> by (apply Nat.ltb_ge; lia); rewrite andb_false_r; reflexivity.
Qed.

(* and the boolean reading of the property used on observed traces accepts every trace of the model *)
Theorem model_meets_request_property s : valid_scen s -> holds_request s (mw_trace s) = true.
Proof.
  intros Hv. unfold holds_request.
  rewrite (closed_exactly_once s Hv).
  pose proof (handler_or_error_handler s Hv) as Hh.
  assert (Hforeign : count_w WForeignScope (mw_trace s) = 0).
  { unfold mw_trace, valid_scen, close_evs in *. destruct (w_exit s) as [| i | | |] eqn:Ex;
      [rewrite mws_none|rewrite (mws_some (w_nmw s) 0 i) by lia|rewrite mws_none|rewrite mws_none|reflexivity];
      destruct (w_integ s), (w_closefails s); rewrite !count_app, count_mws_other by reflexivity; reflexivity. }
  rewrite Hforeign.
  destruct (w_exit s) as [| i | | |] eqn:Ex; injection Hh as H1 H2; rewrite ?H1, ?H2; cbn [Nat.eqb Nat.leb andb]; try reflexivity.
  - assert (Hi : i < w_nmw s) by (unfold valid_scen in Hv; rewrite Ex in Hv; exact Hv).
    rewrite (no_middleware_after_the_failing_one s i Ex Hi). reflexivity.
  - unfold mw_trace. rewrite Ex. reflexivity.
Qed.

(* Handle: the controller method runs only after scope lookup and resolution succeeded; otherwise exactly one of
   the two error handlers; a panic is swallowed exactly when recovery is enabled *)
Theorem handle_method_iff s :
  In HMethod (handle_trace s) <-> h_scope s = true /\ h_registered s = true.
Proof.
  unfold handle_trace. destruct (h_scope s), (h_registered s), (h_exit s), (h_recovery s); cbn; intuition (try discriminate).
Qed.
Theorem handle_exactly_one_error_handler s :
  ~ In HMethod (handle_trace s) -> handle_trace s = [HScopeErr] \/ handle_trace s = [HResolutionErr].
Proof.
  unfold handle_trace. destruct (h_scope s), (h_registered s), (h_exit s), (h_recovery s); cbn; intuition.
Qed.
Theorem handle_panic_swallowed_iff s :
  h_scope s = true -> h_registered s = true -> h_exit s = HPanic ->
  (In HPanicHandler (handle_trace s) <-> h_recovery s = true) /\ (In HPanicEscaped (handle_trace s) <-> h_recovery s = false).
Proof.
  unfold handle_trace. intros -> -> ->. destruct (h_recovery s); cbn; intuition (try discriminate).
Qed.

(* the same with the integration's default error handler: dropping the user error handler's event from the
   model's trace leaves a trace that meets the (weaker) reading used for those observations *)
Lemma count_filter_not_errh e l : e <> WErrHandler -> count_w e (filter not_errh l) = count_w e l.
Proof.
  intros Hne. unfold count_w. induction l as [|x l IH]; [reflexivity|]. cbn [filter].
  destruct x; cbn [not_errh]; cbn [filter];
    try (destruct (wev_eqb e _); cbn [length]; rewrite IH; reflexivity).
  (* x = WErrHandler: dropped, and e is not WErrHandler *)
  destruct e; cbn [wev_eqb]; try exact IH. congruence.
Qed.

Theorem model_meets_default_handler_reading s : valid_scen s ->
  holds_request_default s (filter not_errh (mw_trace s)) = true.
Proof.
  intros Hv. unfold holds_request_default.
  rewrite !count_filter_not_errh by discriminate.
  rewrite (closed_exactly_once s Hv).
  pose proof (handler_or_error_handler s Hv) as Hh.
  assert (Hforeign : count_w WForeignScope (mw_trace s) = 0).
  { unfold mw_trace, valid_scen, close_evs in *. destruct (w_exit s) as [| i | | |] eqn:Ex;
      [rewrite mws_none|rewrite (mws_some (w_nmw s) 0 i) by lia|rewrite mws_none|rewrite mws_none|reflexivity];
      destruct (w_integ s), (w_closefails s); rewrite !count_app, count_mws_other by reflexivity; reflexivity. }
  rewrite Hforeign.
  destruct (w_exit s) as [| i | | |] eqn:Ex; injection Hh as H1 H2; cbn [Nat.eqb andb]; rewrite ?count_filter_not_errh by discriminate; rewrite ?H1; cbn [Nat.eqb andb]; try reflexivity.
  - assert (Hi : i < w_nmw s) by (unfold valid_scen in Hv; rewrite Ex in Hv; exact Hv).
    rewrite (no_middleware_after_the_failing_one s i Ex Hi). reflexivity.
  - unfold mw_trace. rewrite Ex. reflexivity.
Qed.
