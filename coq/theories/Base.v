(* Base.v — the case language shared by the generator, the runner and the model.
   Types, keys and groups are numbers; the Go harness realises them with a fixed
   pool of Go types (harness/pool.go).  No proofs here. *)
From Coq Require Export List Arith Bool PeanoNat Lia.
Export ListNotations.

Definition ty := nat.
Definition grp := nat.            (* 0 = no group *)

(* type universe: 0..7 plain pointer types, 8..15 pointer types with Close() error,
   16..19 interfaces every pool type (and every pool interface) implements,
   20 an interface nobody implements, 50 struct{} (void constructors),
   100/101/102 context.Context / godi.Scope / godi.Provider *)
Definition T_VOID : ty := 50.
(* as the dynamic type of an output of a multi-output constructor: the constructor leaves that output nil *)
Definition T_NILOUT : ty := 997.
Definition T_CTX : ty := 100.
Definition T_SCOPE : ty := 101.
Definition T_PROV : ty := 102.
Definition is_reserved (t : ty) : bool := (t =? 100) || (t =? 101) || (t =? 102).
Definition is_iface (t : ty) : bool := (16 <=? t) && (t <=? 20).
Definition implements (c i : ty) : bool := (c <? 20) && (16 <=? i) && (i <=? 19).
Definition disposable (c : ty) : bool := (8 <=? c) && (c <? 16).

Inductive key := KNone | KName (n : nat) | KIdx (n : nat) | KVoid (n : nat).
Definition key_eqb (a b : key) : bool :=
  match a, b with
  | KNone, KNone => true
  | KName x, KName y => x =? y
  | KIdx x, KIdx y => x =? y
  | KVoid x, KVoid y => x =? y
  | _, _ => false
  end.
Definition name_key (n : nat) : key := match n with 0 => KNone | _ => KName n end.

Inductive lifetime := Singleton | Scoped | Transient.
Definition life_eqb (a b : lifetime) : bool :=
  match a, b with
  | Singleton, Singleton | Scoped, Scoped | Transient, Transient => true
  | _, _ => false
  end.

(* an identity under which an instance is stored / a graph node *)
Definition ident := (ty * key * grp)%type.
Definition ident_eqb (a b : ident) : bool :=
  let '(t1, k1, g1) := a in let '(t2, k2, g2) := b in
  (t1 =? t2) && key_eqb k1 k2 && (g1 =? g2).

Record dep := mkDep { d_ty : ty; d_name : nat; d_group : grp; d_opt : bool }.
Inductive param := PDep (d : dep) | PSkip.   (* PSkip: inject:"-" or unexported field *)
Record rfield := mkField { f_ty : ty; f_name : nat; f_group : grp }.

Inductive form :=
| FInst (t : ty)                                                    (* instance value of (dynamic) type t *)
| FCtor (inobj : bool) (ps : list param) (rets : list ty) (err : bool)  (* rets = non-error return types; [] = initializer *)
| FResult (inobj : bool) (ps : list param) (fs : list rfield) (err : bool).

Inductive outcome := OOk | OErr | OPanic | ONil
| OCancelBuild.   (* the constructor cancels the context of the Build in progress and succeeds *)

Record reg := mkReg {
  r_id : nat;
  r_life : lifetime;
  r_form : form;
  r_name : nat;               (* godi.Name, 0 = none *)
  r_group : grp;              (* godi.Group, 0 = none *)
  r_as : list ty;             (* godi.As interfaces *)
  r_script : list outcome;    (* outcome of the n-th invocation; OOk when exhausted *)
  r_dyn : list ty;            (* dynamic (concrete) type of each output *)
  r_cfail : list bool;        (* does Close of output k return an error *)
  r_bad : nat                 (* malformed registration: 1 nil service, 2 backquote in name, 3 backquote in group,
                                 4 As(non-pointer), 5 As(pointer to non-interface), 6 nil function value *)
}.

(* instances are named by who produced them: registration, invocation number, output index *)
Inductive inst := IObj (rid inv out : nat) (dyn : ty) | IVoid.
Definition inst_eqb (a b : inst) : bool :=
  match a, b with
  | IObj r i o d, IObj r' i' o' d' => (r =? r') && (i =? i') && (o =? o') && (d =? d')
  | IVoid, IVoid => true
  | _, _ => false
  end.
Definition inst_disposable (i : inst) : bool :=
  match i with IObj _ _ _ d => disposable d | IVoid => false end.

Inductive aval := AInst (i : inst) | AList (l : list inst) | AScope (h : nat) | ACtx (h : nat) | AProv | AZero.

Inductive eclass :=
| ENotFound | EScopeDisposed | EProviderDisposed | ECircular | ELifetime | EAlready
| ECtorErr (rid : nat) | ECtorPanic (rid : nat) | ENilInst | EValidation | ETypeMismatch
| EDisposal (n : nat) | ESingletonNotInit | EKeyNil | ETypeNil | EOther
| ECancelled                     (* Build was cancelled through its context *)
| EPanicked.                      (* the operation panicked: never produced by the model *)

Inductive result :=
| RUnit | RVal (a : aval) | RScope (h : nat) | RBool (b : bool) | RCount (n : nat)
| RDescs (l : list (ty * key * grp * lifetime))
| RStats (tracked : nat) (per_scope : list (nat * nat * nat))   (* tracked scopes; per handle: children, cached, disposables; 999 = table released *)
| RErr (c : eclass) (mods : list nat).

Definition OWNER_PROV : nat := 900.
Inductive event :=
| EvCtor (rid inv : nat) (args : list aval) (o : outcome)
| EvClosed (i : inst) (ok : bool) (owner : nat)   (* owner: scope handle, OWNER_PROV for singletons *)
| EvCycle (path : list ident)
| EvCancel.                                      (* a constructor cancelled the context of the Build in progress *)                   (* the path of a reported circular-dependency error (observed only) *)

Inductive module :=
| MNil
| MAdd (r : reg)
| MRemove (t : ty)
| MRemoveKeyed (t : ty) (n : nat)
| MModule (name : nat) (ms : list module).

(* one operation of a history; p = provider index (order of successful Builds), h = scope handle
   inside that provider (0 = the provider itself / its root scope, k = k-th scope it created) *)
Inductive op :=
| OAdd (r : reg)
| ORemove (t : ty)
| ORemoveKeyed (t : ty) (n : nat)
| OModules (ms : list module)
| OContains (t : ty)
| OContainsKeyed (t : ty) (n : nat)
| OCount
| OSlice
| OBuild (ord : list nat)                       (* ord: order in which singleton registrations were constructed (oracle) *)
| OCreateScope (p parent : nat) (ctx : nat)     (* ctx: 0 = nil context, c = explicit cancellable context number c *)
| OResolve (p h : nat) (t : ty) (n : nat)       (* n: name, 0 = Get *)
| OResolveGroup (p h : nat) (t : ty) (g : grp)
| OClose (p h : nat) (ord : list nat)           (* ord: order in which scopes were closed (oracle) *)
| OCloseProvider (p : nat) (ord : list nat)
| OCancel (c : nat) (ord : list nat)
| OCtxValue (p h : nat)                         (* which explicit context does the scope's context derive from *)
| OCtxDone (p h : nat)
| OFromContext (p h : nat)
| OStats (p : nat).                             (* the provider's and scopes' bookkeeping (C14) *)

Fixpoint nth_default {A} (d : A) (l : list A) (n : nat) : A :=
  match l, n with
  | [], _ => d
  | x :: _, 0 => x
  | _ :: l', S n' => nth_default d l' n'
  end.
