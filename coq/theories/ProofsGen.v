(* ProofsGen.v — the general induction principle for resolution: a predicate on the whole resolution state
   (invocation table, provider, event log) that survives the elementary writes a resolution in scope h can make
   survives the whole fuelled resolution in scope h.  The elementary writes are: a cache entry in scope h, a
   disposal entry in scope h, one constructor invocation (next number, one event), one cancellation event.
   Nothing else is ever written by a resolution - in particular no other scope, no singleton, no Closed event. *)
From Godi Require Import Base Model ProofsRuntime.

Section Gen.
  Variable h : nat.
  Variable Q : rstate -> Prop.
  Hypothesis Q_cache : forall rs n i, Q rs -> Q (with_p rs (cache_set (rs_p rs) h n i)).
  Hypothesis Q_track : forall rs i, Q rs -> Q (with_p rs (track_scope (rs_p rs) h i)).
  Hypothesis Q_ctor : forall rs rid args o, Q rs ->
    Q (log (mkRs (bump_inv (rs_invs rs) rid) (rs_p rs) (rs_ev rs)) (EvCtor rid (get_inv (rs_invs rs) rid) args o)).
  Hypothesis Q_cancel : forall rs, Q rs -> Q (log rs EvCancel).

  Lemma surj_rs rs : with_p rs (rs_p rs) = rs.
  Proof. destruct rs; reflexivity. Qed.

  Lemma g_store life rs n i : life <> Singleton -> Q rs -> Q (with_p rs (store life (rs_p rs) h n i)).
  Proof.
    intros Hl H. unfold store. destruct life; [congruence| |].
    - apply (Q_track (with_p rs (cache_set (rs_p rs) h n i))). apply Q_cache. exact H.
    - apply Q_track. exact H.
  Qed.
  Lemma g_share life rs n i : life <> Singleton -> Q rs -> Q (with_p rs (share life (rs_p rs) h n i)).
  Proof.
    intros Hl H. unfold share. destruct life; [congruence| |].
    - apply Q_cache. exact H.
    - rewrite surj_rs. exact H.
  Qed.
  Lemma g_share_all life l : life <> Singleton -> forall rs i, Q rs ->
    Q (with_p rs (fold_left (fun p a => share life p h (ds_ident a) i) l (rs_p rs))).
  Proof.
    intros Hl. induction l as [|a l IH]; intros rs i H; cbn [fold_left]; [rewrite surj_rs; exact H|].
    apply (IH (with_p rs (share life (rs_p rs) h (ds_ident a) i))). apply g_share; assumption.
  Qed.
  Lemma g_drop life rs i : life <> Singleton -> Q rs -> Q (with_p rs (drop_output (rs_p rs) h life i)).
  Proof. intros Hl H. unfold drop_output. destruct life; [congruence| |]; apply Q_track; exact H. Qed.
  Lemma g_fan_out ks : forall rs d inv, ds_life d <> Singleton -> Q rs -> Q (with_p rs (fan_out (rs_p rs) h d inv ks)).
  Proof.
    induction ks as [|k rest IH]; intros rs d inv Hl H; cbn [fan_out]; [rewrite surj_rs; exact H|].
    destruct (output_desc (p_descs (rs_p rs)) d k).
    - destruct (out_is_nil (ds_reg d) k && life_eqb (ds_life d) Singleton); [apply IH; assumption|].
      apply (IH (with_p rs (store (ds_life d) (rs_p rs) h (ds_ident d0) (out_inst (ds_reg d) inv k)))); [exact Hl|].
      apply g_store; assumption.
    - apply (IH (with_p rs (drop_output (rs_p rs) h (ds_life d) (out_inst (ds_reg d) inv k)))); [exact Hl|].
      apply g_drop; assumption.
  Qed.
  Lemma g_drop_only ks : forall rs d inv, ds_life d <> Singleton -> Q rs -> Q (with_p rs (drop_only (rs_p rs) h d inv ks)).
  Proof.
    induction ks as [|k rest IH]; intros rs d inv Hl H; cbn [drop_only]; [rewrite surj_rs; exact H|].
    destruct (output_desc (p_descs (rs_p rs)) d k); [apply IH; assumption|].
    apply (IH (with_p rs (drop_output (rs_p rs) h (ds_life d) (out_inst (ds_reg d) inv k)))); [exact Hl|].
    apply g_drop; assumption.
  Qed.

  Section WithRec.
    Variable recd : rstate -> nat -> desc -> rstate * rres.
    Hypothesis recd_Q : forall rs d, Q rs -> Q (fst (recd rs h d)).

    Lemma g_req rs t k : Q rs -> Q (fst (req recd rs h t k)).
    Proof.
      intros H. unfold req.
      destruct k; try (destruct (find_service (p_descs (rs_p rs)) t _); [apply recd_Q|]; exact H).
      destruct (builtin h t); [exact H|]. destruct (find_service (p_descs (rs_p rs)) t KNone); [apply recd_Q|]; exact H.
    Qed.
    Lemma g_group_loop ms : forall rs acc, Q rs -> Q (fst (group_loop recd rs h ms acc)).
    Proof.
      induction ms as [|m ms IH]; intros rs acc H; cbn [group_loop]; [exact H|].
      pose proof (recd_Q rs m H) as H1.
      destruct (recd rs h m) as [rs1 [a|e|]]; cbn [fst] in *; try exact H1.
      destruct a; try exact H1; apply IH; exact H1.
    Qed.
    Lemma g_dep_value rs d : Q rs -> Q (fst (dep_value recd rs h d)).
    Proof.
      intros H. unfold dep_value. destruct (d_group d =? 0); [apply g_req; exact H|].
      unfold group_value. apply g_group_loop. exact H.
    Qed.
    Lemma g_args_loop ps : forall rs inobj acc, Q rs -> Q (fst (args_loop recd rs h inobj ps acc)).
    Proof.
      induction ps as [|[d|] ps IH]; intros rs inobj acc H; cbn [args_loop]; [exact H| |apply IH; exact H].
      pose proof (g_dep_value rs d H) as H1.
      destruct (dep_value recd rs h d) as [rs1 [a|e|]]; cbn [fst] in *.
      - apply IH; exact H1.
      - destruct (inobj && d_opt d); [apply IH|]; exact H1.
      - exact H1.
    Qed.

    Lemma g_create rs d : ds_life d <> Singleton -> Q rs -> Q (fst (create recd rs h d)).
    Proof.
      intros Hl H. unfold create.
      destruct (r_form (ds_reg d)) as [t|io0 ps1 rets er|io0 ps1 fs er] eqn:Hf.
      - cbn [fst]. unfold set_instance.
        apply (g_share_all (ds_life d) _ Hl (with_p rs (store (ds_life d) (rs_p rs) h (ds_ident d) (IObj (r_id (ds_reg d)) 0 0 t)))).
        apply g_store; assumption.
      - destruct (reg_params (ds_reg d)) as [inobj ps0].
        pose proof (g_args_loop ps0 rs inobj [] H) as H1.
        destruct (args_loop recd rs h inobj ps0 []) as [rs1 [args|e]]; cbn [fst] in *; [|exact H1].
        set (inv := get_inv (rs_invs rs1) (r_id (ds_reg d))).
        set (o := effective_outcome (ds_reg d) inv).
        pose proof (Q_ctor rs1 (r_id (ds_reg d)) args o H1) as H2. fold inv in H2.
        set (rs2' := log (mkRs (bump_inv (rs_invs rs1) (r_id (ds_reg d))) (rs_p rs1) (rs_ev rs1)) (EvCtor (r_id (ds_reg d)) inv args o)) in *.
        assert (H3 : Q (if cancels (ds_reg d) inv then log rs2' EvCancel else rs2')) by (destruct (cancels (ds_reg d) inv); [apply Q_cancel|]; exact H2).
        set (rs2 := if cancels (ds_reg d) inv then log rs2' EvCancel else rs2') in *.
        destruct o; cbn [fst]; try exact H3.
        destruct rets as [|t0 [|t1 ts]]; cbn [fst]; unfold set_instance.
        + apply g_store; assumption.
        + apply (g_share_all (ds_life d) _ Hl (with_p rs2 (store (ds_life d) (rs_p rs2) h (ds_ident d) (out_inst (ds_reg d) inv 0)))).
          apply g_store; assumption.
        + apply g_fan_out; assumption.
      - destruct (reg_params (ds_reg d)) as [inobj ps0].
        pose proof (g_args_loop ps0 rs inobj [] H) as H1.
        destruct (args_loop recd rs h inobj ps0 []) as [rs1 [args|e]]; cbn [fst] in *; [|exact H1].
        set (inv := get_inv (rs_invs rs1) (r_id (ds_reg d))).
        set (o := effective_outcome (ds_reg d) inv).
        pose proof (Q_ctor rs1 (r_id (ds_reg d)) args o H1) as H2. fold inv in H2.
        set (rs2' := log (mkRs (bump_inv (rs_invs rs1) (r_id (ds_reg d))) (rs_p rs1) (rs_ev rs1)) (EvCtor (r_id (ds_reg d)) inv args o)) in *.
        assert (H3 : Q (if cancels (ds_reg d) inv then log rs2' EvCancel else rs2')) by (destruct (cancels (ds_reg d) inv); [apply Q_cancel|]; exact H2).
        set (rs2 := if cancels (ds_reg d) inv then log rs2' EvCancel else rs2') in *.
        destruct o; cbn [fst]; try exact H3.
        match goal with |- context [stores_any ?a ?b ?c] => destruct (stores_any a b c) end; cbn [fst];
          [apply g_fan_out|apply g_drop_only]; assumption.
    Qed.
  End WithRec.

  Theorem gen_resolve : forall fuel rs d, Q rs -> Q (fst (resolve_d fuel rs h d)).
  Proof.
    induction fuel as [|f IH]; intros rs d H; cbn [resolve_d]; [exact H|].
    destruct (ds_life d) eqn:Hl.
    - destruct (lookup_i (p_single (rs_p rs)) (ds_ident d)); exact H.
    - destruct (lookup_i (sc_cache (get_scope (rs_p rs) h)) (ds_ident d)); [exact H|].
      apply g_create; [exact IH|congruence|exact H].
    - apply g_create; [exact IH|congruence|exact H].
  Qed.
  Corollary gen_resolve_req rs t k : Q rs -> Q (fst (resolve_req rs h t k)).
  Proof. intros H. unfold resolve_req. apply g_req; auto using gen_resolve. Qed.
  Corollary gen_resolve_group rs t g : Q rs -> Q (fst (resolve_group rs h t g)).
  Proof. intros H. unfold resolve_group, group_value. apply g_group_loop; auto using gen_resolve. Qed.
End Gen.

(* the same principle without the restriction to scoped and transient descriptors (a singleton is constructed through
   [create_top] during Build): two more elementary writes, the singleton table and the provider's disposal list *)
Section GenAll.
  Variable h : nat.
  Variable Q : rstate -> Prop.
  Hypothesis Q_cache : forall rs n i, Q rs -> Q (with_p rs (cache_set (rs_p rs) h n i)).
  Hypothesis Q_track : forall rs i, Q rs -> Q (with_p rs (track_scope (rs_p rs) h i)).
  Hypothesis Q_single : forall rs n i, Q rs -> Q (with_p rs (single_set (rs_p rs) n i)).
  Hypothesis Q_tsingle : forall rs i, Q rs -> Q (with_p rs (track_single (rs_p rs) i)).
  Hypothesis Q_ctor : forall rs rid args o, Q rs ->
    Q (log (mkRs (bump_inv (rs_invs rs) rid) (rs_p rs) (rs_ev rs)) (EvCtor rid (get_inv (rs_invs rs) rid) args o)).
  Hypothesis Q_cancel : forall rs, Q rs -> Q (log rs EvCancel).

  Lemma ga_store life rs n i : Q rs -> Q (with_p rs (store life (rs_p rs) h n i)).
  Proof.
    intros H. unfold store. destruct life.
    - apply (Q_tsingle (with_p rs (single_set (rs_p rs) n i))). apply Q_single. exact H.
    - apply (Q_track (with_p rs (cache_set (rs_p rs) h n i))). apply Q_cache. exact H.
    - apply Q_track. exact H.
  Qed.
  Lemma ga_share life rs n i : Q rs -> Q (with_p rs (share life (rs_p rs) h n i)).
  Proof.
    intros H. unfold share. destruct life; [apply Q_single; exact H|apply Q_cache; exact H|rewrite surj_rs; exact H].
  Qed.
  Lemma ga_share_all life l : forall rs i, Q rs -> Q (with_p rs (fold_left (fun p a => share life p h (ds_ident a) i) l (rs_p rs))).
  Proof.
    induction l as [|a l IH]; intros rs i H; cbn [fold_left]; [rewrite surj_rs; exact H|].
    apply (IH (with_p rs (share life (rs_p rs) h (ds_ident a) i))). apply ga_share; assumption.
  Qed.
  Lemma ga_drop life rs i : Q rs -> Q (with_p rs (drop_output (rs_p rs) h life i)).
  Proof. intros H. unfold drop_output. destruct life; [apply Q_tsingle|apply Q_track|apply Q_track]; exact H. Qed.
  Lemma ga_fan_out ks : forall rs d inv, Q rs -> Q (with_p rs (fan_out (rs_p rs) h d inv ks)).
  Proof.
    induction ks as [|k rest IH]; intros rs d inv H; cbn [fan_out]; [rewrite surj_rs; exact H|].
    destruct (output_desc (p_descs (rs_p rs)) d k).
    - destruct (out_is_nil (ds_reg d) k && life_eqb (ds_life d) Singleton); [apply IH; assumption|].
      apply (IH (with_p rs (store (ds_life d) (rs_p rs) h (ds_ident d0) (out_inst (ds_reg d) inv k)))). apply ga_store; assumption.
    - apply (IH (with_p rs (drop_output (rs_p rs) h (ds_life d) (out_inst (ds_reg d) inv k)))). apply ga_drop; assumption.
  Qed.
  Lemma ga_drop_only ks : forall rs d inv, Q rs -> Q (with_p rs (drop_only (rs_p rs) h d inv ks)).
  Proof.
    induction ks as [|k rest IH]; intros rs d inv H; cbn [drop_only]; [rewrite surj_rs; exact H|].
    destruct (output_desc (p_descs (rs_p rs)) d k); [apply IH; assumption|].
    apply (IH (with_p rs (drop_output (rs_p rs) h (ds_life d) (out_inst (ds_reg d) inv k)))). apply ga_drop; assumption.
  Qed.

  Section WithRec.
    Variable recd : rstate -> nat -> desc -> rstate * rres.
    Hypothesis recd_Q : forall rs d, Q rs -> Q (fst (recd rs h d)).

    Lemma ga_create rs d : Q rs -> Q (fst (create recd rs h d)).
    Proof.
      intros H. unfold create.
      destruct (r_form (ds_reg d)) as [t|io0 ps1 rets er|io0 ps1 fs er] eqn:Hf.
      - cbn [fst]. unfold set_instance.
        apply (ga_share_all (ds_life d) _ (with_p rs (store (ds_life d) (rs_p rs) h (ds_ident d) (IObj (r_id (ds_reg d)) 0 0 t)))).
        apply ga_store; assumption.
      - destruct (reg_params (ds_reg d)) as [inobj ps0].
        pose proof (g_args_loop h Q recd recd_Q ps0 rs inobj [] H) as H1.
        destruct (args_loop recd rs h inobj ps0 []) as [rs1 [args|e]]; cbn [fst] in *; [|exact H1].
        set (inv := get_inv (rs_invs rs1) (r_id (ds_reg d))).
        set (o := effective_outcome (ds_reg d) inv).
        pose proof (Q_ctor rs1 (r_id (ds_reg d)) args o H1) as H2. fold inv in H2.
        set (rs2' := log (mkRs (bump_inv (rs_invs rs1) (r_id (ds_reg d))) (rs_p rs1) (rs_ev rs1)) (EvCtor (r_id (ds_reg d)) inv args o)) in *.
        assert (H3 : Q (if cancels (ds_reg d) inv then log rs2' EvCancel else rs2')) by (destruct (cancels (ds_reg d) inv); [apply Q_cancel|]; exact H2).
        set (rs2 := if cancels (ds_reg d) inv then log rs2' EvCancel else rs2') in *.
        destruct o; cbn [fst]; try exact H3.
        destruct rets as [|t0 [|t1 ts]]; cbn [fst]; unfold set_instance.
        + apply ga_store; assumption.
        + apply (ga_share_all (ds_life d) _ (with_p rs2 (store (ds_life d) (rs_p rs2) h (ds_ident d) (out_inst (ds_reg d) inv 0)))).
          apply ga_store; assumption.
        + apply ga_fan_out; assumption.
      - destruct (reg_params (ds_reg d)) as [inobj ps0].
        pose proof (g_args_loop h Q recd recd_Q ps0 rs inobj [] H) as H1.
        destruct (args_loop recd rs h inobj ps0 []) as [rs1 [args|e]]; cbn [fst] in *; [|exact H1].
        set (inv := get_inv (rs_invs rs1) (r_id (ds_reg d))).
        set (o := effective_outcome (ds_reg d) inv).
        pose proof (Q_ctor rs1 (r_id (ds_reg d)) args o H1) as H2. fold inv in H2.
        set (rs2' := log (mkRs (bump_inv (rs_invs rs1) (r_id (ds_reg d))) (rs_p rs1) (rs_ev rs1)) (EvCtor (r_id (ds_reg d)) inv args o)) in *.
        assert (H3 : Q (if cancels (ds_reg d) inv then log rs2' EvCancel else rs2')) by (destruct (cancels (ds_reg d) inv); [apply Q_cancel|]; exact H2).
        set (rs2 := if cancels (ds_reg d) inv then log rs2' EvCancel else rs2') in *.
        destruct o; cbn [fst]; try exact H3.
        match goal with |- context [stores_any ?a ?b ?c] => destruct (stores_any a b c) end; cbn [fst];
          [apply ga_fan_out|apply ga_drop_only]; assumption.
    Qed.
  End WithRec.

  Theorem gen_create_top rs d : Q rs -> Q (fst (create_top rs h d)).
  Proof.
    intros H. unfold create_top. apply ga_create; [|exact H].
    intros rs0 d0 H0. apply (gen_resolve h Q Q_cache Q_track Q_ctor Q_cancel); exact H0.
  Qed.
End GenAll.
