(* Web.v — the five scope middlewares and the Handle wrapper as trace-producing functions (C16).
   A scenario fixes the integration, the number of configured middlewares, which callback fails
   and how, and the options; [mw_trace] is what the middleware must do, event by event.
   The harness drives the real net/http, chi-style, gin, echo and fiber stacks through the same
   scenarios and the observed event lists are compared with these. *)
From Godi Require Import Base.

Inductive integ := IHttp | IChi | IGin | IEcho | IFiber.

(* how the request ends *)
Inductive wexit :=
| XOk                    (* every middleware and the handler return normally *)
| XMwErr (i : nat)       (* configured middleware i returns an error *)
| XHandlerErr            (* the handler reports an error (writes a 500 / returns an error) *)
| XHandlerPanic          (* the handler panics (a recovery middleware sits outside the scope middleware) *)
| XCreateFail.           (* the provider is already closed: no scope can be created *)

Record wscen := mkScen {
  w_integ : integ;
  w_nmw : nat;              (* number of configured middlewares *)
  w_exit : wexit;
  w_closefails : bool       (* the scope's Close returns an error (a disposable fails) *)
}.

Inductive wev :=
| WMw (i : nat)             (* configured middleware i ran, and saw the request's scope *)
| WErrHandler               (* the configured ErrorHandler ran *)
| WHandler                  (* the next handler ran, and found the request's scope in its context *)
| WClosed                   (* the request's scope was closed *)
| WCloseErrHandler          (* the configured CloseErrorHandler ran *)
| WForeignScope.            (* a callback saw a scope other than the request's (never in the model) *)

Definition close_evs (s : wscen) : list wev := if w_closefails s then [WClosed; WCloseErrHandler] else [WClosed].

(* middlewares 0 .. n-1 in configuration order, stopping after the failing one *)
Fixpoint mws (k n : nat) (fail : option nat) : list wev * bool :=
  match n with
  | 0 => ([], false)
  | S n' =>
      match fail with
      | Some f => if f =? k then ([WMw k], true)
                  else let '(l, failed) := mws (S k) n' fail in (WMw k :: l, failed)
      | None => let '(l, failed) := mws (S k) n' fail in (WMw k :: l, failed)
      end
  end.

Definition mw_trace (s : wscen) : list wev :=
  match w_exit s with
  | XCreateFail => [WErrHandler]
  | ex =>
      let fail := match ex with XMwErr i => Some i | _ => None end in
      let '(l, failed) := mws 0 (w_nmw s) fail in
      if failed then
        match w_integ s with
        | IFiber => l ++ [WClosed; WErrHandler]           (* fiber closes, ignoring the close error, then reports *)
        | _ => l ++ [WErrHandler] ++ close_evs s          (* the others report, then the deferred Close runs *)
        end
      else
        match ex, w_integ s with
        | XHandlerPanic, IFiber => l ++ [WHandler; WClosed]   (* closed by the framework releasing the request's values *)
        | _, _ => l ++ [WHandler] ++ close_evs s
        end
  end.

(* ------------------------------------------------------------------ the Handle wrapper *)
Inductive hexit := HOk | HPanic.
Record hscen := mkHScen {
  h_integ : integ;
  h_scope : bool;           (* the scope middleware ran before: a scope is attached to the request *)
  h_registered : bool;      (* the controller type is registered *)
  h_exit : hexit;
  h_recovery : bool
}.
Inductive hev := HScopeErr | HResolutionErr | HMethod | HPanicHandler | HPanicEscaped.

Definition handle_trace (s : hscen) : list hev :=
  if negb (h_scope s) then [HScopeErr]
  else if negb (h_registered s) then [HResolutionErr]
  else match h_exit s with
       | HOk => [HMethod]
       | HPanic => if h_recovery s then [HMethod; HPanicHandler] else [HMethod; HPanicEscaped]
       end.

(* ------------------------------------------------------------------ comparison *)
Definition wev_eqb (a b : wev) : bool :=
  match a, b with
  | WMw i, WMw j => i =? j
  | WErrHandler, WErrHandler | WHandler, WHandler | WClosed, WClosed
  | WCloseErrHandler, WCloseErrHandler | WForeignScope, WForeignScope => true
  | _, _ => false
  end.
Definition hev_eqb (a b : hev) : bool :=
  match a, b with
  | HScopeErr, HScopeErr | HResolutionErr, HResolutionErr | HMethod, HMethod
  | HPanicHandler, HPanicHandler | HPanicEscaped, HPanicEscaped => true
  | _, _ => false
  end.
Fixpoint leqb {A} (eqb : A -> A -> bool) (a b : list A) : bool :=
  match a, b with
  | [], [] => true
  | x :: a', y :: b' => eqb x y && leqb eqb a' b'
  | _, _ => false
  end.

Definition count_w (e : wev) (l : list wev) : nat := length (filter (wev_eqb e) l).

(* the property itself, on one observed request trace *)
Definition holds_request (s : wscen) (tr : list wev) : bool :=
  let created := match w_exit s with XCreateFail => false | _ => true end in
  (count_w WClosed tr =? (if created then 1 else 0))                  (* closed exactly once iff a scope existed *)
  && (count_w WForeignScope tr =? 0)                                  (* every callback saw the request's own scope *)
  && (count_w WHandler tr <=? 1)
  && match w_exit s with
     | XCreateFail => leqb wev_eqb tr [WErrHandler]
     | XMwErr i => (count_w WHandler tr =? 0) && (count_w WErrHandler tr =? 1) && (count_w (WMw (S i)) tr =? 0)
     | _ => (count_w WHandler tr =? 1) && (count_w WErrHandler tr =? 0)
     end.

Definition check_web (c : wscen * list wev) : list nat * bool * nat :=
  let '(s, tr) := c in ([if leqb wev_eqb (mw_trace s) tr then 0 else 1], holds_request s tr, 0).
(* the same request with the integration's DEFAULT error handler (not instrumented): the user error handler's event
   is absent from the observation; everything else - middlewares, handler, close - must be as in the model *)
Definition not_errh (e : wev) : bool := match e with WErrHandler => false | _ => true end.
Definition holds_request_default (s : wscen) (tr : list wev) : bool :=
  let created := match w_exit s with XCreateFail => false | _ => true end in
  (count_w WClosed tr =? (if created then 1 else 0)) && (count_w WForeignScope tr =? 0) &&
  match w_exit s with
  | XCreateFail => leqb wev_eqb tr []
  | XMwErr i => (count_w WHandler tr =? 0) && (count_w (WMw (S i)) tr =? 0)
  | _ => count_w WHandler tr =? 1
  end.
Definition check_web_default (c : wscen * list wev) : list nat * bool * nat :=
  let '(s, tr) := c in ([if leqb wev_eqb (filter not_errh (mw_trace s)) tr then 0 else 1], holds_request_default s tr, 0).
Definition check_handle (c : hscen * list hev) : list nat * bool * nat :=
  let '(s, tr) := c in ([if leqb hev_eqb (handle_trace s) tr then 0 else 1], true, 0).
(* a batch of concurrent requests: scope identities pairwise distinct, each closed exactly once *)
Fixpoint nodup_n (l : list nat) : bool :=
  match l with [] => true | x :: l' => negb (existsb (Nat.eqb x) l') && nodup_n l' end.
Definition check_batch (c : list nat * list nat) : list nat * bool * nat :=
  let '(scope_ids, close_counts) := c in
  ([0], nodup_n scope_ids && forallb (fun n => n =? 1) close_counts && (length scope_ids =? length close_counts), 0).
