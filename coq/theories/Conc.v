(* Conc.v — interleaving model of the container's scope life cycle (C09, concurrent halves of
   C02/C10/C12/C13).  Operations are cut into atomic actions at the code's lock / atomic /
   user-call boundaries (one critical section = one action; scope.go / provider.go after the
   repairs of F10, F12, F14, F19).  Threads run programs of actions; a schedule is a list of
   thread numbers.  The harness forces schedules at the points where the container calls user
   code ("gates": constructor bodies and Close bodies), so a gate-level schedule step lets one
   thread run from its gate to its next gate.  Definitions only; proofs in ProofsConc.v. *)
From Godi Require Import Base.

(* scope numbers: 0 = the provider's root scope, 1 = the shared scope S, 2.. = scopes created by threads *)
Inductive action :=
| APCheck                       (* provider.disposed? -> fail ProviderDisposed *)
| ACheck (sc : nat)             (* scope.disposed? -> fail ScopeDisposed *)
| ALookup (sc : nat)            (* scoped cache hit -> done with that instance *)
| ACtor                         (* GATE: constructor body: a fresh disposable instance, held by the thread *)
| ACtorPlain                    (* GATE: constructor body of a non-disposable service *)
| AStore (sc : nat)             (* instances[key] = x under instancesMu, skipped when the table is released *)
| ATrack (sc : nat)             (* under disposablesMu: taken ? close it myself : append to disposables *)
| ACloseOne                     (* GATE (when something is left to close): Close() of the next instance I hold *)
| AFinishInst                   (* return the instance I built *)
| AFinishOk                     (* return nil *)
| ACas (sc : nat)               (* CompareAndSwap(disposed,0,1); lost -> return nil *)
| ACasSkip (sc : nat) (n : nat) (* the same inside provider.Close: lost -> skip the next n actions *)
| ATakeChildren (sc : nat)      (* under childrenMu: snapshot children, children = nil *)
| ACloseChildren                (* closeOwned of every child I hold (children own nothing disposable here) *)
| ATakeDisp (sc : nat)          (* under disposablesMu: take the list (newest first), mark taken *)
| AUnlink (sc : nat)            (* delete from parent's children and provider's scopes *)
| AClearCache (sc : nat)        (* instances = nil *)
| APCas                         (* provider: CompareAndSwap(disposed) *)
| APTakeTable                   (* under scopesMu: snapshot scopes, scopes = nil *)
| ACloseCreated                 (* closeOwned of every thread-created scope in my snapshot *)
| ANewScope (parent : nat)      (* allocate a scope (parent: 1 = child of S, 0 = from the provider) *)
| AAdoptChild (parent : nat)    (* under parent's childrenMu: released ? close the new scope, fail ScopeDisposed : insert *)
| AAdoptProv (must : bool).     (* under scopesMu: released ? (must ? close the new scope, fail ProviderDisposed : skip) : insert *)

Inductive cres := CRInst (x : nat) | CROk | CRScopeDisposed | CRProviderDisposed | CRPanic | CRUnstarted | CROther | CRRunning.

Record scp := mkScp {
  s_disposed : bool;
  s_cache : option (list nat);      (* None: table released *)
  s_disp : list nat;                (* disposables, oldest first *)
  s_taken : bool;
  s_children : option (list nat)
}.
Definition scp_new : scp := mkScp false (Some []) [] false (Some []).

Record cst := mkCst {
  c_scopes : list scp;
  c_pdisposed : bool;
  c_ptable : option (list nat);
  c_next : nat;
  c_closed : list nat;                    (* Close() calls on instances, in order *)
  c_inflight : list (nat * nat);          (* (thread, instance built but not yet tracked) *)
  c_todo : list (nat * nat);              (* (thread, instance that thread is about to close), in closing order *)
  c_ctodo : list (nat * nat);             (* (thread, scope that thread is about to close) *)
  c_newscope : list (nat * nat);          (* (thread, scope under creation) *)
  c_progs : list (nat * list action);
  c_results : list (nat * cres)
}.

Fixpoint get {A} (l : list (nat * A)) (i : nat) : option A :=
  match l with [] => None | (j, a) :: l' => if j =? i then Some a else get l' i end.
Fixpoint del1 {A} (l : list (nat * A)) (i : nat) : list (nat * A) :=
  match l with [] => [] | (j, a) :: l' => if j =? i then l' else (j, a) :: del1 l' i end.
Definition delall {A} (l : list (nat * A)) (i : nat) : list (nat * A) := filter (fun p => negb (fst p =? i)) l.
Definition put {A} (l : list (nat * A)) (i : nat) (a : A) : list (nat * A) := (i, a) :: delall l i.
Definition mine {A} (l : list (nat * A)) (i : nat) : list A := map snd (filter (fun p => fst p =? i) l).

Fixpoint upd {A} (l : list A) (n : nat) (f : A -> A) : list A :=
  match l, n with
  | [], _ => []
  | x :: l', 0 => f x :: l'
  | x :: l', S n' => x :: upd l' n' f
  end.
Definition scope_of (s : cst) (k : nat) : scp := nth k (c_scopes s) (mkScp true None [] true None).

(* closing a scope that owns nothing disposable and has no children: closeOwned runs to completion *)
Definition close_plain (sc : scp) : scp := mkScp true None [] true None.

Definition set_scopes (s : cst) (l : list scp) : cst :=
  mkCst l (c_pdisposed s) (c_ptable s) (c_next s) (c_closed s) (c_inflight s) (c_todo s) (c_ctodo s) (c_newscope s) (c_progs s) (c_results s).
Definition set_prog (s : cst) (i : nat) (p : list action) : cst :=
  mkCst (c_scopes s) (c_pdisposed s) (c_ptable s) (c_next s) (c_closed s) (c_inflight s) (c_todo s) (c_ctodo s) (c_newscope s)
        (put (c_progs s) i p) (c_results s).
Definition finish (s : cst) (i : nat) (r : cres) : cst :=
  mkCst (c_scopes s) (c_pdisposed s) (c_ptable s) (c_next s) (c_closed s) (c_inflight s) (c_todo s) (c_ctodo s) (c_newscope s)
        (put (c_progs s) i []) (put (c_results s) i r).

Definition memb (x : nat) (l : list nat) : bool := existsb (Nat.eqb x) l.
Definition remove_nat (x : nat) (l : list nat) : list nat := filter (fun y => negb (y =? x)) l.

(* one atomic action of thread i *)
Definition act (s : cst) (i : nat) (a : action) (rest : list action) : cst :=
  let s1 := set_prog s i rest in
  match a with
  | APCheck => if c_pdisposed s then finish s i CRProviderDisposed else s1
  | ACheck sc => if s_disposed (scope_of s sc) then finish s i CRScopeDisposed else s1
  | ALookup sc =>
      match s_cache (scope_of s sc) with
      | Some (x :: _) => finish s i (CRInst x)
      | _ => s1
      end
  | ACtor =>
      mkCst (c_scopes s) (c_pdisposed s) (c_ptable s) (S (c_next s)) (c_closed s) ((i, c_next s) :: c_inflight s)
            (c_todo s) (c_ctodo s) (c_newscope s) (put (c_progs s) i rest) (c_results s)
  | ACtorPlain => s1
  | AStore sc =>
      match get (c_inflight s) i with
      | Some x => set_scopes s1 (upd (c_scopes s) sc (fun q => mkScp (s_disposed q)
                    (match s_cache q with Some l => Some (x :: l) | None => None end) (s_disp q) (s_taken q) (s_children q)))
      | None => s1
      end
  | ATrack sc =>
      match get (c_inflight s) i with
      | Some x =>
          if s_taken (scope_of s sc)
          then mkCst (c_scopes s) (c_pdisposed s) (c_ptable s) (c_next s) (c_closed s) (del1 (c_inflight s) i)
                     (c_todo s ++ [(i, x)]) (c_ctodo s) (c_newscope s) (put (c_progs s) i rest) (put (c_results s) i (CRInst x))
          else mkCst (upd (c_scopes s) sc (fun q => mkScp (s_disposed q) (s_cache q) (s_disp q ++ [x]) (s_taken q) (s_children q)))
                     (c_pdisposed s) (c_ptable s) (c_next s) (c_closed s) (del1 (c_inflight s) i)
                     (c_todo s) (c_ctodo s) (c_newscope s) (put (c_progs s) i rest) (put (c_results s) i (CRInst x))
      | None => s1
      end
  | ACloseOne =>
      match get (c_todo s) i with
      | Some x =>
          mkCst (c_scopes s) (c_pdisposed s) (c_ptable s) (c_next s) (c_closed s ++ [x]) (c_inflight s)
                (del1 (c_todo s) i) (c_ctodo s) (c_newscope s) (put (c_progs s) i (ACloseOne :: rest)) (c_results s)
      | None => s1
      end
  | AFinishInst =>
      match get (c_results s) i with
      | Some r => finish s i r
      | None => finish s i CROther
      end
  | AFinishOk => finish s i CROk
  | ACas sc =>
      if s_disposed (scope_of s sc) then finish s i CROk
      else set_scopes s1 (upd (c_scopes s) sc (fun q => mkScp true (s_cache q) (s_disp q) (s_taken q) (s_children q)))
  | ACasSkip sc n =>
      if s_disposed (scope_of s sc) then set_prog s i (skipn n rest)
      else set_scopes s1 (upd (c_scopes s) sc (fun q => mkScp true (s_cache q) (s_disp q) (s_taken q) (s_children q)))
  | ATakeChildren sc =>
      let kids := match s_children (scope_of s sc) with Some l => l | None => [] end in
      mkCst (upd (c_scopes s) sc (fun q => mkScp (s_disposed q) (s_cache q) (s_disp q) (s_taken q) None))
            (c_pdisposed s) (c_ptable s) (c_next s) (c_closed s) (c_inflight s) (c_todo s)
            (c_ctodo s ++ map (fun k => (i, k)) kids) (c_newscope s) (put (c_progs s) i rest) (c_results s)
  | ACloseChildren | ACloseCreated =>
      let ks := mine (c_ctodo s) i in
      mkCst (fold_left (fun l k => if k <=? 1 then l else upd l k close_plain) ks (c_scopes s))
            (c_pdisposed s) (c_ptable s) (c_next s) (c_closed s) (c_inflight s) (c_todo s)
            (filter (fun p => negb (fst p =? i) || (snd p <=? 1)) (c_ctodo s)) (c_newscope s) (put (c_progs s) i rest) (c_results s)
  | ATakeDisp sc =>
      mkCst (upd (c_scopes s) sc (fun q => mkScp (s_disposed q) (s_cache q) [] true (s_children q)))
            (c_pdisposed s) (c_ptable s) (c_next s) (c_closed s) (c_inflight s)
            (c_todo s ++ map (fun x => (i, x)) (rev (s_disp (scope_of s sc)))) (c_ctodo s) (c_newscope s)
            (put (c_progs s) i rest) (c_results s)
  | AUnlink sc =>
      mkCst (map (fun q => mkScp (s_disposed q) (s_cache q) (s_disp q) (s_taken q)
                                 (match s_children q with Some l => Some (remove_nat sc l) | None => None end)) (c_scopes s))
            (c_pdisposed s) (match c_ptable s with Some l => Some (remove_nat sc l) | None => None end)
            (c_next s) (c_closed s) (c_inflight s) (c_todo s) (c_ctodo s) (c_newscope s) (put (c_progs s) i rest) (c_results s)
  | AClearCache sc =>
      set_scopes s1 (upd (c_scopes s) sc (fun q => mkScp (s_disposed q) None (s_disp q) (s_taken q) (s_children q)))
  | APCas =>
      if c_pdisposed s then finish s i CROk
      else mkCst (c_scopes s) true (c_ptable s) (c_next s) (c_closed s) (c_inflight s) (c_todo s) (c_ctodo s) (c_newscope s)
                 (put (c_progs s) i rest) (c_results s)
  | APTakeTable =>
      let ks := match c_ptable s with Some l => l | None => [] end in
      mkCst (c_scopes s) (c_pdisposed s) None (c_next s) (c_closed s) (c_inflight s) (c_todo s)
            (c_ctodo s ++ map (fun k => (i, k)) ks) (c_newscope s) (put (c_progs s) i rest) (c_results s)
  | ANewScope parent =>
      mkCst (c_scopes s ++ [scp_new]) (c_pdisposed s) (c_ptable s) (c_next s) (c_closed s) (c_inflight s) (c_todo s) (c_ctodo s)
            (put (c_newscope s) i (length (c_scopes s))) (put (c_progs s) i rest) (c_results s)
  | AAdoptChild parent =>
      match get (c_newscope s) i with
      | Some k =>
          match s_children (scope_of s parent) with
          | None => finish (set_scopes s (upd (c_scopes s) k close_plain)) i CRScopeDisposed
          | Some l => set_scopes s1 (upd (c_scopes s) parent (fun q => mkScp (s_disposed q) (s_cache q) (s_disp q) (s_taken q) (Some (l ++ [k]))))
          end
      | None => s1
      end
  | AAdoptProv must =>
      match get (c_newscope s) i with
      | Some k =>
          match c_ptable s with
          | None => if must then finish (set_scopes s (upd (c_scopes s) k close_plain)) i CRProviderDisposed else s1
          | Some l => mkCst (c_scopes s) (c_pdisposed s) (Some (l ++ [k])) (c_next s) (c_closed s) (c_inflight s) (c_todo s) (c_ctodo s)
                            (c_newscope s) (put (c_progs s) i rest) (c_results s)
          end
      | None => s1
      end
  end.

Definition step (s : cst) (i : nat) : cst :=
  match get (c_progs s) i with
  | Some (a :: rest) => act s i a rest
  | _ => s
  end.
Definition run (s : cst) (sched : list nat) : cst := fold_left step sched s.

(* ------------------------------------------------------------------ programs of the thread kinds *)
Definition dispose_prog (sc : nat) : list action :=
  [ATakeChildren sc; ACloseChildren; ATakeDisp sc; ACloseOne; AUnlink sc; AClearCache sc].
Definition prog_of (kind : nat) : list action :=
  match kind with
  | 0 => [ACheck 1; ALookup 1; ACtor; AStore 1; ATrack 1; ACloseOne; AFinishInst]
  | 1 => [ACheck 1; ACtor; ATrack 1; ACloseOne; AFinishInst]
  | 2 => ACas 1 :: dispose_prog 1 ++ [AFinishOk]
  | 3 => [ACheck 1; ANewScope 1; ACtorPlain; AAdoptChild 1; AAdoptProv false; AFinishOk]
  | 4 => [APCas; APTakeTable; ACloseCreated; ACasSkip 1 6] ++ dispose_prog 1 ++ [ACasSkip 0 6] ++ dispose_prog 0 ++ [AFinishOk]
  | 5 => [APCheck; ANewScope 0; ACtorPlain; AAdoptProv true; AFinishOk]
  | _ => [APCheck; ACheck 0; ACtor; ATrack 0; ACloseOne; AFinishInst]
  end.

Definition init (kinds : list nat) : cst :=
  mkCst [scp_new; scp_new] false (Some [1]) 0 [] [] [] [] []
        (combine (seq 0 (length kinds)) (map prog_of kinds)) [].

(* ------------------------------------------------------------------ gate-level schedules *)
Definition is_gate (s : cst) (i : nat) : bool :=
  match get (c_progs s) i with
  | Some (ACtor :: _) | Some (ACtorPlain :: _) => true
  | Some (ACloseOne :: _) => match get (c_todo s) i with Some _ => true | None => false end
  | _ => false
  end.
Definition thread_done (s : cst) (i : nat) : bool :=
  match get (c_progs s) i with Some [] | None => true | _ => false end.
(* run thread i: one action (the gate it is parked at, or its first action), then on to its next gate *)
Fixpoint run_to_gate (fuel : nat) (s : cst) (i : nat) : cst :=
  match fuel with
  | 0 => s
  | S f => if thread_done s i || is_gate s i then s else run_to_gate f (step s i) i
  end.
Definition gate_step (s : cst) (i : nat) : cst :=
  if thread_done s i then s else run_to_gate 60 (step s i) i.
Definition run_gates (s : cst) (sched : list nat) : cst := fold_left gate_step sched s.

(* ------------------------------------------------------------------ comparison with an observed run *)
Definition cres_eqb (a b : cres) : bool :=
  match a, b with
  | CRInst x, CRInst y => x =? y
  | CROk, CROk | CRScopeDisposed, CRScopeDisposed | CRProviderDisposed, CRProviderDisposed
  | CRPanic, CRPanic | CRUnstarted, CRUnstarted | CROther, CROther | CRRunning, CRRunning => true
  | _, _ => false
  end.
Fixpoint lnat_eqb (a b : list nat) : bool :=
  match a, b with
  | [], [] => true
  | x :: a', y :: b' => (x =? y) && lnat_eqb a' b'
  | _, _ => false
  end.
Definition started (sched : list nat) (i : nat) : bool := memb i sched.
Definition model_result (s : cst) (sched : list nat) (i : nat) : cres :=
  if negb (started sched i) then CRUnstarted
  else if thread_done s i then match get (c_results s) i with Some r => r | None => CROther end
  else CRRunning.

Fixpoint nodup_nat_b (l : list nat) : bool :=
  match l with [] => true | x :: l' => negb (memb x l') && nodup_nat_b l' end.

(* the case tuple printed by the harness:
   (thread kinds, gate schedule, results at the end of the schedule, Close calls so far, instances created so far,
    final results, all Close calls at the very end, instances created in total) *)
Definition check_conc (c : list nat * list nat * list cres * list nat * nat * list cres * list nat * nat) : list nat * bool * nat :=
  let '(kinds, sched, results, closed, created, fin_results, fin_closed, fin_created) := c in
  let s := run_gates (init kinds) sched in
  let corr :=
      lnat_eqb (c_closed s) closed && (c_next s =? created) &&
      (length results =? length kinds) &&
      forallb (fun i => cres_eqb (model_result s sched i) (nth i results CROther)) (seq 0 (length kinds)) in
  (* the property itself, on the observed run: nothing panicked or hung, no instance closed twice,
     and once everything has finished and the provider is closed every created instance is closed *)
  let mon :=
      forallb (fun r => match r with CRPanic | CROther | CRRunning => false | _ => true end) fin_results &&
      nodup_nat_b fin_closed && (length fin_closed =? fin_created) &&
      forallb (fun x => x <? fin_created) fin_closed in
  ([if corr then 0 else 1], mon, 0).

(* C02 under concurrency: every thread that resolved the scoped service of the shared scope got the same
   instance.  Known-finding class 1 = the model itself (the code as it is) hands out two instances on this
   schedule: two resolvers between cache miss and cache fill (F13). *)
Definition scoped_results (kinds : list nat) (rs : list cres) : list nat :=
  flat_map (fun '(k, r) => match k, r with 0, CRInst x => [x] | _, _ => [] end) (combine kinds rs).
Definition all_same (l : list nat) : bool := match l with [] => true | x :: l' => forallb (Nat.eqb x) l' end.
Definition check_conc_C02 (c : list nat * list nat * list cres * list nat * nat * list cres * list nat * nat) : list nat * bool * nat :=
  let '(kinds, sched, results, closed, created, fin_results, fin_closed, fin_created) := c in
  let s := run_gates (init kinds) sched in
  let '(corr, _, _) := check_conc c in
  let model_results := map (model_result s sched) (seq 0 (length kinds)) in
  (corr, all_same (scoped_results kinds results),
   if all_same (scoped_results kinds model_results) then 0 else 1).
