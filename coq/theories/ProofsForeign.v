(* ProofsForeign.v — C17: a provider runs only what the collection held when it was built.  For a registration number
   that no descriptor of the collection carries (never registered there, or removed before this Build), no resolution
   and no Build adds a constructor call: whatever the collection (or anything it caches) knew of it earlier, nothing of
   it runs at a later Build or answers afterwards. *)
From Godi Require Import Base Model Check ProofsRegistry ProofsRuntime ProofsTerm ProofsAccepted ProofsCascade ProofsBuildOnce.

Section Foreign.
  Variable c : coll.
  Variable r : nat.
  Hypothesis foreign : forall d, In d c -> ds_rid d <> r.
  Local Notation on_c := (on_c c).

  Theorem resolution_runs_nothing_foreign :
    forall fuel rs h d, on_c rs -> In d c -> cnt r (rs_ev (fst (resolve_d fuel rs h d))) = cnt r (rs_ev rs).
  Proof.
    induction fuel as [|f IH]; intros rs h d Hc Hd; cbn [resolve_d]; [reflexivity|].
    destruct (ds_life d).
    - destruct (lookup_i _ _); reflexivity.
    - destruct (lookup_i _ _); [reflexivity|]. apply (create_cnt c f r IH rs h d Hc Hd). apply foreign; exact Hd.
    - apply (create_cnt c f r IH rs h d Hc Hd). apply foreign; exact Hd.
  Qed.

  Lemma create_top_foreign rs h d : on_c rs -> In d c -> cnt r (rs_ev (fst (create_top rs h d))) = cnt r (rs_ev rs).
  Proof.
    intros Hc Hd. unfold create_top.
    apply (proj2 (create_cnt c (fuel_for (rs_p rs)) r (fun rs0 h0 d0 => resolution_runs_nothing_foreign _ rs0 h0 d0) rs h d Hc Hd)).
    apply foreign; exact Hd.
  Qed.

  Lemma create_singletons_foreign ds : (forall d, In d ds -> In d c) -> forall rs att, on_c rs ->
    let x := create_singletons rs att ds in cnt r (rs_ev (fst (fst x))) = cnt r (rs_ev rs) /\ on_c (fst (fst x)).
  Proof.
    induction ds as [|d ds IH]; intros Hin rs att Hc; cbn [create_singletons]; [cbn [fst]; split; [reflexivity|exact Hc]|].
    assert (Hrest : forall d0, In d0 ds -> In d0 c) by (intros; apply Hin; right; assumption).
    destruct (singleton_pending (rs_p rs) d && negb (attempted att d)); [|apply IH; assumption].
    destruct (build_cancelled rs); [cbn [fst]; split; [reflexivity|exact Hc]|].
    pose proof (create_top_foreign rs 0 d Hc (Hin d (or_introl eq_refl))) as He.
    pose proof (on_c_create_top c rs 0 d Hc) as Hc1.
    destruct (create_top rs 0 d) as [rs1 [a|e|]]; cbn [fst] in *; try (split; assumption).
    destruct (IH Hrest rs1 (call_idents (p_descs (rs_p rs1)) d ++ att) Hc1) as [H1 H2]. split; [rewrite H1; exact He|exact H2].
  Qed.

  Lemma create_by_order_foreign ord : forall rs att, on_c rs ->
    let x := create_by_order rs att c ord in cnt r (rs_ev (fst (fst x))) = cnt r (rs_ev rs) /\ on_c (fst (fst x)).
  Proof.
    induction ord as [|rid ord IH]; intros rs att Hc; cbn [create_by_order]; [cbn [fst]; split; [reflexivity|exact Hc]|].
    destruct (find _ c) as [d|] eqn:Hfd; [|apply IH; exact Hc].
    apply find_some in Hfd. destruct Hfd as [Hd _].
    destruct (build_cancelled rs); [cbn [fst]; split; [reflexivity|exact Hc]|].
    pose proof (create_top_foreign rs 0 d Hc Hd) as He.
    pose proof (on_c_create_top c rs 0 d Hc) as Hc1.
    destruct (create_top rs 0 d) as [rs1 [a|e|]]; cbn [fst] in *; try (split; assumption).
    destruct (IH rs1 (call_idents (p_descs (rs_p rs1)) d ++ att) Hc1) as [H1 H2]. split; [rewrite H1; exact He|exact H2].
  Qed.

  Lemma create_all_foreign ord rs : on_c rs ->
    cnt r (rs_ev (fst (create_all_singletons rs c ord))) = cnt r (rs_ev rs) /\ on_c (fst (create_all_singletons rs c ord)).
  Proof.
    intros Hc. unfold create_all_singletons.
    assert (Hu : forall d, In d (unplaced_instances c ord) -> In d c) by (intros d Hd; unfold unplaced_instances in Hd; apply filter_In in Hd; tauto).
    pose proof (create_singletons_foreign (unplaced_instances c ord) Hu rs [] Hc) as [E1 C1].
    destruct (create_singletons rs [] (unplaced_instances c ord)) as [[rs1 att1] [r1|]]; cbn [fst] in *; [split; assumption|].
    pose proof (create_by_order_foreign ord rs1 att1 C1) as [E2 C2].
    destruct (create_by_order rs1 att1 c ord) as [[rs2 att2] [r2|]]; cbn [fst] in *; [split; [congruence|assumption]|].
    pose proof (create_singletons_foreign c (fun d Hd => Hd) rs2 att2 C2) as [E3 C3].
    destruct (create_singletons rs2 att2 c) as [[rs3 att3] r3]; cbn [fst] in *. split; [congruence|assumption].
  Qed.

  Lemma run_inits_foreign ds : (forall d, In d ds -> In d c) -> forall rs h, on_c rs ->
    cnt r (rs_ev (fst (run_inits rs h ds))) = cnt r (rs_ev rs) /\ on_c (fst (run_inits rs h ds)).
  Proof.
    induction ds as [|d ds IH]; intros Hin rs h Hc; cbn [run_inits]; [split; [reflexivity|exact Hc]|].
    assert (Hrest : forall d0, In d0 ds -> In d0 c) by (intros; apply Hin; right; assumption).
    destruct (lookup_i (sc_cache (get_scope (rs_p rs) h)) (ds_ident d)); [apply IH; assumption|].
    pose proof (create_top_foreign rs h d Hc (Hin d (or_introl eq_refl))) as He.
    pose proof (on_c_create_top c rs h d Hc) as Hc1.
    destruct (create_top rs h d) as [rs1 [a|e|]]; cbn [fst] in *; try (split; assumption).
    destruct (IH Hrest rs1 h Hc1) as [H1 H2]. split; [rewrite H1; exact He|exact H2].
  Qed.

  Theorem build_runs_nothing_foreign invs ord invs' evs res :
    build c invs ord = (invs', evs, res) -> cnt r evs = 0.
  Proof.
    unfold build. destruct (has_cycle c); [intros E; inversion E; subst; reflexivity|].
    destruct (lifetime_conflict c); [intros E; inversion E; subst; reflexivity|].
    destruct (missing_required c); [intros E; inversion E; subst; reflexivity|].
    set (rs0 := mkRs invs (mkProv c [root_scope] [] [] true) []).
    assert (H0 : on_c rs0) by reflexivity.
    destruct (create_all_foreign ord rs0 H0) as [E1 C1]. change (cnt r (rs_ev rs0)) with 0 in E1.
    destruct (create_all_singletons rs0 c ord) as [rs1 [r1|]]; cbn [fst] in E1, C1.
    - pose proof (close_provider_no_ctor [] (rs_p rs1)) as Hn.
      destruct (close_provider [] (rs_p rs1)) as [[p' evs'] n]. cbn [fst snd] in Hn.
      intros E; inversion E; subst. unfold events_of. rewrite cnt_app, cnt_rev, (Hn r). lia.
    - assert (Hinit : forall d, In d (filter is_initializer c) -> In d c) by (intros d Hd; apply filter_In in Hd; tauto).
      destruct (run_inits_foreign (filter is_initializer c) Hinit rs1 0 C1) as [E2 C2].
      destruct (run_inits rs1 0 (filter is_initializer c)) as [rs2 [r2|]]; cbn [fst] in E2, C2.
      + pose proof (close_scope_no_ctor (scope_fuel (rs_p rs2)) [] (rs_p rs2) 0) as Hn3.
        destruct (close_scope (scope_fuel (rs_p rs2)) [] (rs_p rs2) 0) as [[p3 evs3] n3]. cbn [fst snd] in Hn3.
        pose proof (close_provider_no_ctor [] p3) as Hn4.
        destruct (close_provider [] p3) as [[p4 evs4] n4]. cbn [fst snd] in Hn4.
        intros E; inversion E; subst. unfold events_of. rewrite !cnt_app, cnt_rev, (Hn3 r), (Hn4 r). lia.
      + intros E; inversion E; subst. unfold events_of. rewrite cnt_rev. lia.
  Qed.
  (* requests as the operations of a provider issue them *)
  Lemma req_foreign rs h t k : on_c rs -> cnt r (rs_ev (fst (resolve_req rs h t k))) = cnt r (rs_ev rs).
  Proof.
    intros Hc. unfold resolve_req, req. rewrite Hc.
    assert (Hfind : cnt r (rs_ev (fst (match find_service c t k with Some d0 => resolve_d (fuel_for (rs_p rs)) rs h d0 | None => (rs, RFail ENotFound) end))) = cnt r (rs_ev rs)).
    { destruct (find_service c t k) as [d'|] eqn:Hf; [|reflexivity].
      assert (Hd' : In d' c) by (unfold find_service in Hf; apply find_some in Hf; tauto).
      apply resolution_runs_nothing_foreign; assumption. }
    destruct k; try exact Hfind. destruct (builtin h t); [reflexivity|exact Hfind].
  Qed.
  Lemma group_foreign rs h t g : on_c rs -> cnt r (rs_ev (fst (resolve_group rs h t g))) = cnt r (rs_ev rs).
  Proof.
    intros Hc. unfold resolve_group, group_value. rewrite Hc.
    apply (group_cnt c (fuel_for (rs_p rs)) r (fun rs0 h0 d0 => resolution_runs_nothing_foreign _ rs0 h0 d0)); [exact Hc|].
    intros m Hm. unfold group_members in Hm. apply filter_In in Hm. tauto.
  Qed.
End Foreign.

(* a provider's own operations: a resolution (by type and key, or of a group) on provider [pi] of any world emits no
   constructor call of a registration that the provider's collection - the one it was built from - does not hold *)
Theorem world_resolution_runs_only_what_the_provider_was_built_from : forall w pi h t n r,
  (forall d, In d (p_descs (get_prov w pi)) -> ds_rid d <> r) ->
  cnt r (snd (fst (step w (OResolve pi h t n)))) = 0.
Proof.
  intros w pi h t n r Hf. cbn [step].
  destruct (t =? T_NIL); [destruct (disposed_check _ _); reflexivity|].
  unfold do_resolve. destruct (negb (handle_ok (get_prov w pi) h)); [reflexivity|].
  destruct (disposed_check (get_prov w pi) h); [reflexivity|].
  pose proof (req_foreign (p_descs (get_prov w pi)) r Hf (mkRs (w_invs w) (get_prov w pi) []) h t (name_key n) eq_refl) as H0.
  destruct (resolve_req (mkRs (w_invs w) (get_prov w pi) []) h t (name_key n)) as [rs1 r1]. cbn [fst snd] in *.
  unfold events_of. rewrite cnt_rev. exact H0.
Qed.
Theorem world_group_resolution_runs_only_what_the_provider_was_built_from : forall w pi h t g r,
  (forall d, In d (p_descs (get_prov w pi)) -> ds_rid d <> r) ->
  cnt r (snd (fst (step w (OResolveGroup pi h t g)))) = 0.
Proof.
  intros w pi h t g r Hf. cbn [step].
  destruct (t =? T_NIL); [destruct (disposed_check _ _); reflexivity|].
  destruct (g =? 0); [destruct (disposed_check _ _); reflexivity|].
  unfold do_resolve. destruct (negb (handle_ok (get_prov w pi) h)); [reflexivity|].
  destruct (disposed_check (get_prov w pi) h); [reflexivity|].
  pose proof (group_foreign (p_descs (get_prov w pi)) r Hf (mkRs (w_invs w) (get_prov w pi) []) h t g eq_refl) as H0.
  destruct (resolve_group (mkRs (w_invs w) (get_prov w pi) []) h t g) as [rs1 r1]. cbn [fst snd] in *.
  unfold events_of. rewrite cnt_rev. exact H0.
Qed.

(* the provider a successful Build returns is built from exactly the collection it was given (no side condition) *)
Lemma fresh_rid c : forall d, In d c -> ds_rid d <> S (list_max (map ds_rid c)).
Proof.
  intros d Hd E. pose proof (proj1 (list_max_le (map ds_rid c) (list_max (map ds_rid c))) (le_n _)) as Hall.
  rewrite Forall_forall in Hall. specialize (Hall (ds_rid d) (in_map ds_rid c d Hd)). lia.
Qed.
Theorem build_keeps_the_collection c invs ord invs' evs p : build c invs ord = (invs', evs, inl p) -> p_descs p = c.
Proof.
  pose proof (fresh_rid c) as Hf. set (r := S (list_max (map ds_rid c))) in Hf.
  unfold build. destruct (has_cycle c); [discriminate|]. destruct (lifetime_conflict c); [discriminate|].
  destruct (missing_required c); [discriminate|].
  set (rs0 := mkRs invs (mkProv c [root_scope] [] [] true) []).
  destruct (create_all_foreign c r Hf ord rs0 eq_refl) as [_ C1].
  destruct (create_all_singletons rs0 c ord) as [rs1 [r1|]]; cbn [fst] in C1.
  - destruct (close_provider [] (rs_p rs1)) as [[p' evs'] n]. discriminate.
  - assert (Hinit : forall d, In d (filter is_initializer c) -> In d c) by (intros d Hd; apply filter_In in Hd; tauto).
    destruct (run_inits_foreign c r Hf (filter is_initializer c) Hinit rs1 0 C1) as [_ C2].
    destruct (run_inits rs1 0 (filter is_initializer c)) as [rs2 [r2|]]; cbn [fst] in C2.
    + destruct (close_scope _ _ _ _) as [[p3 evs3] n3]. destruct (close_provider [] p3) as [[p4 evs4] n4]. discriminate.
    + intros E; inversion E; subst. exact C2.
Qed.

(* over the world: a Build emits no constructor call of a registration the collection does not hold at that moment,
   and the provider it appends is built from exactly that collection *)
Theorem world_build_runs_only_what_the_collection_holds : forall w ord r,
  (forall d, In d (w_coll w) -> ds_rid d <> r) ->
  cnt r (snd (fst (step w (OBuild ord)))) = 0.
Proof.
  intros w ord r Hf. cbn [step].
  destruct (build (w_coll w) (w_invs w) ord) as [[invs evs] res] eqn:Hb.
  pose proof (build_runs_nothing_foreign (w_coll w) r Hf _ _ _ _ _ Hb) as H0.
  destruct res; cbn [fst snd]; exact H0.
Qed.

Theorem world_build_appends_a_provider_of_the_current_collection : forall w ord n,
  snd (step w (OBuild ord)) = RCount n ->
  let w' := fst (fst (step w (OBuild ord))) in
  n = length (w_provs w) /\ p_descs (get_prov w' n) = w_coll w /\ w_coll w' = w_coll w.
Proof.
  intros w ord n. cbn [step].
  destruct (build (w_coll w) (w_invs w) ord) as [[invs evs] res] eqn:Hb.
  destruct res as [p|e]; cbn [fst snd]; [|discriminate].
  intros E; injection E as <-. split; [reflexivity|]. split; [|reflexivity].
  unfold get_prov; cbn [w_provs]. rewrite app_nth2, Nat.sub_diag; [|lia]. cbn [nth].
  exact (build_keeps_the_collection _ _ _ _ _ _ Hb).
Qed.

(* non-vacuity, and the history of the seeded change that motivated the statement: three singletons, Build, the first
   removed, Build again - the first Build runs registration 1 once, the second not at all, the others once each *)
Example rebuild_after_removal_example :
  let r1 := mkReg 1 Singleton (FCtor false [] [0] false) 0 0 [] [] [0] [false] 0 in
  let r2 := mkReg 2 Singleton (FCtor false [] [1] false) 0 0 [] [] [1] [false] 0 in
  let r3 := mkReg 3 Singleton (FCtor false [PDep (mkDep 1 0 0 false)] [2] false) 0 0 [] [] [2] [false] 0 in
  let w1 := fst (run_from init_world [OAdd r1; OAdd r2; OAdd r3]) in
  let s1 := step w1 (OBuild []) in
  let w2 := fst (run_from (fst (fst s1)) [ORemove 0]) in
  let s2 := step w2 (OBuild []) in
  (cnt 1 (snd (fst s1)), cnt 2 (snd (fst s1)), cnt 3 (snd (fst s1))) = (1, 1, 1) /\
  (forall d, In d (w_coll w2) -> ds_rid d <> 1) /\
  (cnt 1 (snd (fst s2)), cnt 2 (snd (fst s2)), cnt 3 (snd (fst s2))) = (0, 1, 1).
Proof.
  vm_compute. split; [reflexivity|]. split; [|reflexivity].
  intros d [<-|[<-|[]]]; cbn; discriminate.
Qed.
