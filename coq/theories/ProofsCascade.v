(* ProofsCascade.v — "closing a scope closes all its descendants" (C13): on a scope forest in which every scope was
   created after its parent and nothing is open below something closed, Close on a scope leaves every scope below it
   closed, for every order in which the children are visited, and closes nothing that is not below it. *)
From Godi Require Import Base Model Check ProofsRegistry ProofsRuntime ProofsClosed.

(* ------------------------------------------------------------------ the forest of scope handles *)
Definition parents (p : prov) : list nat := map sc_parent (p_scopes p).
Lemma parents_len p : length (parents p) = length (p_scopes p).
Proof. unfold parents. apply map_length. Qed.
Lemma par_nth p k : nth k (parents p) 0 = sc_parent (get_scope p k).
Proof. unfold parents, get_scope. exact (map_nth sc_parent (p_scopes p) (mkScope 0 0 [] [] false) k). Qed.

Section Tree.
  Variable ps : list nat.
  Definition par (k : nat) : nat := nth k ps 0.
  (* every scope but the root was created after its parent *)
  Definition tree_ok : Prop := forall k, 0 < k -> k < length ps -> par k < k.
  (* k is h or a descendant of h *)
  Inductive below (h : nat) : nat -> Prop :=
  | below_self : below h h
  | below_child k : 0 < k -> k < length ps -> below h (par k) -> below h k.
  Lemma below_trans h c k : below h c -> below c k -> below h k.
  Proof. intros Hc Hk. induction Hk as [|k H0 Hl Hp IH]; [exact Hc|]. apply below_child; assumption. Qed.
  Lemma below_ge h k : tree_ok -> below h k -> h <= k.
  Proof. intros Ht Hk. induction Hk as [|k H0 Hl Hp IH]; [lia|]. specialize (Ht k H0 Hl). lia. Qed.
End Tree.

Lemma parents_upd_scope p h f : (forall s, sc_parent (f s) = sc_parent s) -> parents (upd_scope p h f) = parents p.
Proof. intros H. unfold parents, upd_scope; cbn [p_scopes]. apply upd_nth_map_inv. exact H. Qed.

Definition close_step (f : nat) (ord : list nat) :=
  fun '(pa, ea, na) k => let '(pb, eb, nb) := close_scope f ord pa k in (pb, (ea : list event) ++ eb, if nb =? 0 then (na : nat) else S na).

Lemma close_scope_parents : forall fuel ord p h, parents (fst (fst (close_scope fuel ord p h))) = parents p.
Proof.
  induction fuel as [|f IH]; intros ord p h; cbn [close_scope]; [reflexivity|].
  destruct (negb (sc_open (get_scope p h))); [reflexivity|].
  set (p0 := upd_scope p h _).
  assert (H0 : parents p0 = parents p) by (unfold p0; apply parents_upd_scope; reflexivity).
  assert (Hfold : forall ks acc, parents (fst (fst (fold_left (fun '(pa, ea, na) k0 =>
                     let '(pb, eb, nb) := close_scope f ord pa k0 in (pb, ea ++ eb, if nb =? 0 then na else S na)) ks acc))) = parents (fst (fst acc))).
  { induction ks as [|k0 ks IHk]; intros [[pa ea] na]; cbn [fold_left]; [reflexivity|].
    rewrite IHk. pose proof (IH ord pa k0) as Hk. destruct (close_scope f ord pa k0) as [[pb eb] nb]. exact Hk. }
  specialize (Hfold (nodup_nat (order_by ord (open_children p0 h))) (p0, [], 0)).
  destruct (fold_left _ _ (p0, [], 0)) as [[p1 evs1] n1]. cbn [fst] in Hfold.
  destruct (close_insts (p_descs p1) h (sc_disp (get_scope p1 h))) as [evs2 n2]. cbn [fst].
  rewrite parents_upd_scope by reflexivity. rewrite Hfold. exact H0.
Qed.

(* ------------------------------------------------------------------ who is visited *)
Lemma mem_nat_In x l : mem_nat x l = true <-> In x l.
Proof.
  unfold mem_nat. rewrite existsb_exists. split.
  - intros [y [Hy E]]. apply Nat.eqb_eq in E. subst. exact Hy.
  - intros H. exists x. split; [exact H|apply Nat.eqb_refl].
Qed.
Lemma in_nodup_nat x l : In x (nodup_nat l) <-> In x l.
Proof.
  induction l as [|y l IH]; cbn [nodup_nat]; [tauto|].
  destruct (mem_nat y l) eqn:E.
  - rewrite IH. split; [intros H; right; exact H|intros [<-|H]; [apply mem_nat_In; exact E|exact H]].
  - cbn [In]. rewrite IH. tauto.
Qed.
Lemma in_order_by x ord cands : In x (order_by ord cands) <-> In x cands.
Proof.
  unfold order_by. rewrite in_app_iff, !filter_In. split.
  - intros [[_ H]|[H _]]; [apply mem_nat_In; exact H|exact H].
  - intros H. destruct (mem_nat x ord) eqn:E.
    + left. split; [apply mem_nat_In; exact E|apply mem_nat_In; exact H].
    + right. split; [exact H|reflexivity].
Qed.
Lemma in_visited x ord cands : In x (nodup_nat (order_by ord cands)) <-> In x cands.
Proof. rewrite in_nodup_nat. apply in_order_by. Qed.

Lemma open_child_spec p h c : In c (open_children p h) <->
  c < length (p_scopes p) /\ sc_open (get_scope p c) = true /\ sc_parent (get_scope p c) = h /\ c <> 0.
Proof.
  unfold open_children. rewrite filter_In, in_seq. split.
  - intros [[_ Hl] Hb]. apply andb_prop in Hb. destruct Hb as [Hb Hz]. apply andb_prop in Hb. destruct Hb as [Ho Hp].
    apply Nat.eqb_eq in Hp. apply negb_true_iff, Nat.eqb_neq in Hz. cbn in Hl. auto.
  - intros (Hl & Ho & Hp & Hz). split; [cbn; lia|]. rewrite Ho, Hp, Nat.eqb_refl. cbn [andb].
    apply negb_true_iff, Nat.eqb_neq. exact Hz.
Qed.

(* ------------------------------------------------------------------ Close closes nothing that is not below the scope *)
Lemma closed_flag_other p h k f : k <> h -> closed_at (upd_scope p h f) k <-> closed_at p k.
Proof. intros Hne. unfold closed_at. rewrite get_scope_upd_scope_other by congruence. tauto. Qed.

Lemma close_scope_only_below : forall fuel ord p h k,
  closed_at (fst (fst (close_scope fuel ord p h))) k -> closed_at p k \/ below (parents p) h k.
Proof.
  induction fuel as [|f IH]; intros ord p h k; cbn [close_scope]; [intros H; left; exact H|].
  destruct (negb (sc_open (get_scope p h))); [intros H; left; exact H|].
  set (p0 := upd_scope p h _).
  assert (H0 : parents p0 = parents p) by (unfold p0; apply parents_upd_scope; reflexivity).
  assert (Hfold : forall ks acc, parents (fst (fst acc)) = parents p ->
            closed_at (fst (fst (fold_left (fun '(pa, ea, na) k0 =>
                     let '(pb, eb, nb) := close_scope f ord pa k0 in (pb, ea ++ eb, if nb =? 0 then na else S na)) ks acc))) k ->
            closed_at (fst (fst acc)) k \/ exists c, In c ks /\ below (parents p) c k).
  { induction ks as [|k0 ks IHk]; intros [[pa ea] na] Hpa; cbn [fold_left fst]; [intros H; left; exact H|].
    pose proof (IH ord pa k0 k) as Hk. pose proof (close_scope_parents f ord pa k0) as Hpp.
    destruct (close_scope f ord pa k0) as [[pb eb] nb]. cbn [fst] in *. intros H.
    destruct (IHk (pb, ea ++ eb, if nb =? 0 then na else S na)) as [Hb|[c [Hc Hbc]]]; [cbn [fst]; congruence|exact H| |].
    - cbn [fst] in Hb. destruct (Hk Hb) as [Ha|Ha]; [left; exact Ha|right; exists k0; split; [left; reflexivity|rewrite <- Hpa; exact Ha]].
    - right. exists c. split; [right; exact Hc|exact Hbc]. }
  specialize (Hfold (nodup_nat (order_by ord (open_children p0 h))) (p0, [], 0) H0).
  destruct (fold_left _ _ (p0, [], 0)) as [[p1 evs1] n1]. cbn [fst] in Hfold.
  destruct (close_insts (p_descs p1) h (sc_disp (get_scope p1 h))) as [evs2 n2]. cbn [fst].
  intros H. destruct (Nat.eq_dec k h) as [->|Hne]; [right; apply below_self|].
  apply closed_flag_other in H; [|exact Hne].
  destruct (Hfold H) as [Hb|[c [Hc Hbc]]].
  - left. unfold p0 in Hb. apply closed_flag_other in Hb; [exact Hb|exact Hne].
  - right. apply in_visited, open_child_spec in Hc. destruct Hc as (Hl & _ & Hp & Hz).
    apply (below_trans _ h c k); [|exact Hbc].
    apply below_child; [lia|rewrite parents_len; unfold p0 in Hl; unfold upd_scope in Hl; cbn [p_scopes] in Hl; rewrite upd_nth_length in Hl; exact Hl|].
    unfold par. rewrite <- H0, par_nth, Hp. apply below_self.
Qed.

(* ------------------------------------------------------------------ and everything below it *)
(* nothing open below something closed, in the part of the forest below h *)
Definition down_closed_below (p : prov) (h : nat) : Prop :=
  forall k, 0 < k -> k < length (p_scopes p) -> below (parents p) h (par (parents p) k) ->
            closed_at p (par (parents p) k) -> closed_at p k.

Lemma closed_below_closed p h : closed_at p h -> down_closed_below p h -> forall k, below (parents p) h k -> closed_at p k.
Proof.
  intros Hh Hd k Hk. induction Hk as [|k H0 Hl Hp IH]; [exact Hh|].
  apply Hd; [exact H0|rewrite <- parents_len; exact Hl|exact Hp|exact IH].
Qed.

Lemma close_scope_cascades : forall fuel ord p h,
  tree_ok (parents p) -> h < length (p_scopes p) -> length (p_scopes p) <= h + fuel -> down_closed_below p h ->
  forall k, below (parents p) h k -> closed_at (fst (fst (close_scope fuel ord p h))) k.
Proof.
  induction fuel as [|f IH]; intros ord p h Ht Hh Hfuel Hd; [lia|]. cbn [close_scope].
  destruct (sc_open (get_scope p h)) eqn:Ho; cbn [negb].
  2:{ apply closed_below_closed; [exact Ho|exact Hd]. }
  set (p0 := upd_scope p h (fun s => mkScope (sc_parent s) (sc_ctx s) (sc_cache s) (sc_disp s) false)).
  assert (H0 : parents p0 = parents p) by (unfold p0; apply parents_upd_scope; reflexivity).
  assert (Hl0 : length (p_scopes p0) = length (p_scopes p)) by (unfold p0, upd_scope; cbn [p_scopes]; apply upd_nth_length).
  set (step := fun '(pa, ea, na) k0 => let '(pb, eb, nb) := close_scope f ord pa k0 in (pb, (ea : list event) ++ eb, if nb =? 0 then (na : nat) else S na)).
  (* the fold over the open children: each call closes everything below that child *)
  assert (Hfold : forall ks pa ea na, parents pa = parents p -> length (p_scopes pa) = length (p_scopes p) ->
            (forall c, In c ks -> 0 < c /\ c < length (p_scopes p) /\ par (parents p) c = h) ->
            (forall c, In c ks -> down_closed_below pa c) ->
            let pb := fst (fst (fold_left step ks (pa, ea, na))) in
            (forall k, closed_at pa k -> closed_at pb k) /\
            (forall c k, In c ks -> below (parents p) c k -> closed_at pb k)).
  { induction ks as [|c ks IHk]; intros pa ea na Hpa Hla Hks Hdk; cbn [fold_left]; [split; [auto|intros c k []]|].
    destruct (Hks c (or_introl eq_refl)) as (Hc0 & Hcl & Hcp).
    assert (Hch : h < c) by (specialize (Ht c Hc0); rewrite parents_len in Ht; specialize (Ht Hcl); unfold par in *; lia).
    pose proof (IH ord pa c) as Hcall. rewrite Hpa, Hla in Hcall.
    specialize (Hcall Ht Hcl ltac:(lia)). rewrite <- Hpa in Hcall. specialize (Hcall (Hdk c (or_introl eq_refl))). rewrite Hpa in Hcall.
    pose proof (close_scope_mono f ord pa c) as Hmono. pose proof (close_scope_parents f ord pa c) as Hpp.
    pose proof (close_scope_len f ord pa c) as Hll. pose proof (close_scope_only_below f ord pa c) as Honly.
    change (step (pa, ea, na) c) with (let '(pb, eb, nb) := close_scope f ord pa c in (pb, ea ++ eb, if nb =? 0 then na else S na)).
    destruct (close_scope f ord pa c) as [[pb1 eb] nb]. cbn [fst] in *.
    destruct (IHk pb1 (ea ++ eb) (if nb =? 0 then na else S na)) as [Hm2 Hc2].
    - congruence.
    - congruence.
    - intros c' Hc'. apply Hks. right. exact Hc'.
    - (* nothing open below something closed, below each remaining child *)
      intros c' Hc' k Hk0 Hkl Hq Hqc. rewrite Hpp, Hpa in *. rewrite Hll, Hla in Hkl.
      destruct (Honly _ Hqc) as [Hqa|Hqb].
      + apply Hmono. apply (Hdk c' (or_intror Hc') k Hk0); [rewrite Hla; exact Hkl|rewrite Hpa; exact Hq|rewrite Hpa; exact Hqa].
      + apply Hcall. apply below_child; [exact Hk0|rewrite parents_len; exact Hkl|exact Hqb].
    - split.
      + intros k Hk. apply Hm2. apply Hmono. exact Hk.
      + intros c' k [<-|Hc'] Hb; [apply Hm2; apply Hcall; exact Hb|apply (Hc2 c' k Hc' Hb)]. }
  set (ks := nodup_nat (order_by ord (open_children p0 h))).
  assert (Hks : forall c, In c ks -> 0 < c /\ c < length (p_scopes p) /\ par (parents p) c = h).
  { intros c Hc. apply in_visited, open_child_spec in Hc. destruct Hc as (Hl & _ & Hp & Hz).
    split; [lia|]. split; [rewrite <- Hl0; exact Hl|]. unfold par. rewrite <- H0, par_nth. exact Hp. }
  assert (Hdk : forall c, In c ks -> down_closed_below p0 c).
  { intros c Hc k Hk0 Hkl Hq Hqc. rewrite H0 in *. rewrite Hl0 in Hkl.
    destruct (Hks c Hc) as (Hc0 & Hcl & Hcp).
    assert (Hch : h < c) by (specialize (Ht c Hc0); rewrite parents_len in Ht; specialize (Ht Hcl); unfold par in *; lia).
    pose proof (below_ge (parents p) c _ Ht Hq) as Hge.
    assert (Hqh : par (parents p) k <> h) by lia.
    apply closed_flag_other in Hqc; [|exact Hqh].
    unfold p0. apply closed_upd_scope; [intros s _; reflexivity|].
    apply Hd; [exact Hk0|exact Hkl| |exact Hqc].
    apply (below_trans _ h c); [|exact Hq]. apply below_child; [exact Hc0|rewrite parents_len; exact Hcl|rewrite Hcp; apply below_self]. }
  destruct (Hfold ks p0 [] 0 H0 Hl0 Hks Hdk) as [Hmono Hall].
  fold step. destruct (fold_left step ks (p0, [], 0)) as [[p1 evs1] n1] eqn:Ef. cbn [fst] in Hmono, Hall.
  destruct (close_insts (p_descs p1) h (sc_disp (get_scope p1 h))) as [evs2 n2]. cbn [fst].
  assert (Hp1 : parents p1 = parents p).
  { pose proof (close_scope_parents (S f) ord p h) as Hx. cbn [close_scope] in Hx. rewrite Ho in Hx. cbn [negb] in Hx.
    fold p0 in Hx. fold step in Hx. fold ks in Hx. rewrite Ef in Hx.
    destruct (close_insts (p_descs p1) h (sc_disp (get_scope p1 h))) as [e2 m2]. cbn [fst] in Hx.
    rewrite parents_upd_scope in Hx by reflexivity. exact Hx. }
  assert (Hfin : forall k, below (parents p) h k -> k = h \/ closed_at p1 k).
  { intros k Hk. induction Hk as [|k Hk0 Hkl Hq IHq]; [left; reflexivity|]. right.
    rewrite parents_len in Hkl.
    assert (Hchild : par (parents p) k = h -> closed_at p1 k).
    { (* a child of h: closed before, or one of the open children *)
      intros Hqh. destruct (sc_open (get_scope p0 k)) eqn:Eo.
      + apply (Hall k k); [|apply below_self]. apply in_visited, open_child_spec.
        split; [rewrite Hl0; exact Hkl|]. split; [exact Eo|]. split; [|lia].
        rewrite <- par_nth, H0. exact Hqh.
      + apply Hmono. exact Eo. }
    destruct IHq as [Hqh|Hqc]; [exact (Hchild Hqh)|].
    destruct (Nat.eq_dec (par (parents p) k) h) as [Eh|Nh]; [exact (Hchild Eh)|].
    (* its parent, not h, is closed now: closed before (then so was k), or closed by the call on a child c of h (then k is below c) *)
    destruct (sc_open (get_scope p0 (par (parents p) k))) eqn:Eq.
    + (* newly closed: by some call of the fold *)
      assert (Hex : exists c, In c ks /\ below (parents p) c (par (parents p) k)).
      { assert (Hg : forall ks0 acc, parents (fst (fst acc)) = parents p ->
                  closed_at (fst (fst (fold_left step ks0 acc))) (par (parents p) k) ->
                  closed_at (fst (fst acc)) (par (parents p) k) \/ exists c, In c ks0 /\ below (parents p) c (par (parents p) k)).
        { induction ks0 as [|k0 ks0 IHk]; intros [[pa ea] na] Hpa; cbn [fold_left fst]; [intros H; left; exact H|].
          pose proof (close_scope_only_below f ord pa k0 (par (parents p) k)) as Hk1. pose proof (close_scope_parents f ord pa k0) as Hpp.
          change (step (pa, ea, na) k0) with (let '(pb, eb, nb) := close_scope f ord pa k0 in (pb, ea ++ eb, if nb =? 0 then na else S na)).
          destruct (close_scope f ord pa k0) as [[pb eb] nb]. cbn [fst] in *. intros H.
          destruct (IHk (pb, ea ++ eb, if nb =? 0 then na else S na)) as [Hb|[c [Hc Hbc]]]; [cbn [fst]; congruence|exact H| |].
          - cbn [fst] in Hb. destruct (Hk1 Hb) as [Ha|Ha]; [left; exact Ha|right; exists k0; split; [left; reflexivity|rewrite Hpa in Ha; exact Ha]].
          - right. exists c. split; [right; exact Hc|exact Hbc]. }
        destruct (Hg ks (p0, [], 0) H0) as [Hb|Hb]; [rewrite Ef; exact Hqc|unfold closed_at in Hb; cbn [fst] in Hb; congruence|exact Hb]. }
      destruct Hex as [c [Hc Hbc]]. apply (Hall c k Hc). apply below_child; [exact Hk0|rewrite parents_len; exact Hkl|exact Hbc].
    + (* closed before the fold: by the premise k was closed too *)
      apply Hmono. unfold p0. apply closed_upd_scope; [intros s _; reflexivity|].
      apply Hd; [exact Hk0|exact Hkl|exact Hq|]. apply closed_flag_other in Eq; [exact Eq|exact Nh]. }
  intros k Hk. destruct (Hfin k Hk) as [->|Hc].
  - unfold closed_at, get_scope, upd_scope; cbn [p_scopes].
    assert (Hl1 : h < length (p_scopes p1)).
    { pose proof (f_equal (@length nat) Hp1) as E. rewrite !parents_len in E. lia. }
    rewrite nth_upd_nth_same by exact Hl1. reflexivity.
  - apply closed_upd_scope; [intros s _; reflexivity|exact Hc].
Qed.

(* ------------------------------------------------------------------ the three ways of closing *)
Definition down_closed (p : prov) : Prop :=
  forall k, 0 < k -> k < length (p_scopes p) -> closed_at p (par (parents p) k) -> closed_at p k.
Lemma down_closed_any p h : down_closed p -> down_closed_below p h.
Proof. intros H k H0 Hl _ Hc. exact (H k H0 Hl Hc). Qed.

Theorem scope_close_closes_every_descendant ord p h :
  tree_ok (parents p) -> down_closed p -> h < length (p_scopes p) ->
  forall k, below (parents p) h k -> closed_at (fst (fst (close_scope (scope_fuel p) ord p h))) k.
Proof.
  intros Ht Hd Hh. apply close_scope_cascades; [exact Ht|exact Hh|unfold scope_fuel; lia|apply down_closed_any; exact Hd].
Qed.

Lemma open_scope_spec p k : In k (open_scopes p) <-> k < length (p_scopes p) /\ sc_open (get_scope p k) = true /\ k <> 0.
Proof.
  unfold open_scopes. rewrite filter_In, in_seq. split.
  - intros [[_ Hl] Hb]. apply andb_prop in Hb. destruct Hb as [Ho Hz]. apply negb_true_iff, Nat.eqb_neq in Hz. cbn in Hl. auto.
  - intros (Hl & Ho & Hz). split; [cbn; lia|]. rewrite Ho. cbn [andb]. apply negb_true_iff, Nat.eqb_neq. exact Hz.
Qed.

(* a fold of Close calls (any accumulation of the error counts) closes each of the scopes it is given *)
Lemma fold_close_closes (g : nat -> nat -> nat) ord ks : forall pa ea na c, In c ks ->
  closed_at (fst (fst (fold_left (fun '(pa, ea, na) k0 =>
        let '(pb, eb, nb) := close_scope (scope_fuel pa) ord pa k0 in (pb, (ea : list event) ++ eb, g na nb)) ks (pa, ea, na)))) c.
Proof.
  assert (Hmono : forall ks0 pa ea na k, closed_at pa k ->
            closed_at (fst (fst (fold_left (fun '(pa, ea, na) k0 =>
              let '(pb, eb, nb) := close_scope (scope_fuel pa) ord pa k0 in (pb, (ea : list event) ++ eb, g na nb)) ks0 (pa, ea, na)))) k).
  { induction ks0 as [|k0 ks0 IH]; intros pa ea na k Hk; cbn [fold_left]; [exact Hk|].
    pose proof (close_scope_mono (scope_fuel pa) ord pa k0 k Hk) as H1.
    destruct (close_scope (scope_fuel pa) ord pa k0) as [[pb eb] nb]. apply IH. exact H1. }
  induction ks as [|k0 ks IH]; intros pa ea na c Hc; [destruct Hc|]. cbn [fold_left].
  pose proof (close_scope_closes (length (p_scopes pa)) ord pa k0) as H1. unfold scope_fuel.
  destruct (close_scope (S (length (p_scopes pa))) ord pa k0) as [[pb eb] nb] eqn:E. cbn [fst] in H1.
  destruct Hc as [<-|Hc]; [apply Hmono; exact H1|apply IH; exact Hc].
Qed.

Theorem provider_close_closes_every_scope ord p : p_open p = true ->
  forall k, k < length (p_scopes p) -> closed_at (fst (fst (close_provider ord p))) k.
Proof.
  intros Hop k Hk. unfold close_provider. rewrite Hop. cbn [negb].
  set (p0 := mkProv (p_descs p) (p_scopes p) (p_single p) (p_sdisp p) false).
  set (ks := nodup_nat (order_by ord (open_scopes p0))).
  pose proof (fold_close_closes (fun na nb => if nb =? 0 then na else S na) ord ks p0 [] 0) as Hall.
  pose proof (closed_fold_close scope_fuel ord ks (p0, [], 0)) as Hmono.
  destruct (fold_left _ ks (p0, [], 0)) as [[p1 evs1] n1]. cbn [fst] in *.
  pose proof (close_scope_mono (scope_fuel p1) ord p1 0) as Hm0.
  pose proof (close_scope_closes (length (p_scopes p1)) ord p1 0) as Hc0. unfold scope_fuel in *.
  destruct (close_scope (S (length (p_scopes p1))) ord p1 0) as [[p2 evs2] n2]. cbn [fst] in *.
  destruct (close_insts (p_descs p2) OWNER_PROV (p_sdisp p2)) as [evs3 n3]. cbn [fst]. unfold closed_at, get_scope; cbn [p_scopes].
  destruct (Nat.eq_dec k 0) as [->|Hz]; [exact Hc0|].
  apply Hm0. destruct (sc_open (get_scope p0 k)) eqn:Eo.
  - apply Hall. apply in_visited, open_scope_spec. auto.
  - apply Hmono. exact Eo.
Qed.

Theorem cancellation_closes_the_scopes_of_that_context c ord p k :
  k < length (p_scopes p) -> k <> 0 -> sc_ctx (get_scope p k) = c -> closed_at (fst (cancel_prov c ord p)) k.
Proof.
  intros Hk Hz Hc. unfold cancel_prov.
  set (ks := nodup_nat (order_by ord (filter (fun k => sc_ctx (get_scope p k) =? c) (open_scopes p)))).
  pose proof (fold_close_closes Nat.add ord ks p [] 0 k) as Hall.
  pose proof (cancel_prov_mono c ord p k) as Hmono. unfold cancel_prov in Hmono. fold ks in Hmono.
  destruct (fold_left _ ks (p, [], 0)) as [[p' evs] n]. cbn [fst] in *.
  destruct (sc_open (get_scope p k)) eqn:Eo; [|apply Hmono; exact Eo].
  apply Hall. apply in_visited, filter_In. split; [apply open_scope_spec; auto|apply Nat.eqb_eq; exact Hc].
Qed.

(* ================================================================== the forest over every history *)
(* what the three theorems above assume of a provider is an invariant of every provider of every reachable world *)
Record Forest (p : prov) : Prop := mkForest {
  f_tree : tree_ok (parents p);
  f_down : down_closed p;
  f_root : p_open p = true -> sc_open (get_scope p 0) = true
}.

Lemma parents_of_shape p : parents p = map (fun x => fst (fst x)) (scopes_shape p).
Proof. unfold parents, scopes_shape. rewrite map_map. reflexivity. Qed.
Lemma shape_closed_iff p p' k : scopes_shape p' = scopes_shape p -> (closed_at p' k <-> closed_at p k).
Proof. intros H. split; apply shape_closed; [symmetry; exact H|exact H]. Qed.

Lemma forest_shape p p' : scopes_shape p' = scopes_shape p -> p_open p' = p_open p -> Forest p -> Forest p'.
Proof.
  intros Hs Ho [Ht Hd Hr].
  assert (Hp : parents p' = parents p) by (rewrite !parents_of_shape, Hs; reflexivity).
  pose proof (shape_len _ _ Hs) as Hl.
  constructor.
  - rewrite Hp. exact Ht.
  - intros k H0 Hk Hc. rewrite Hp, Hl in *. apply (shape_closed_iff p p' k Hs). apply Hd; [exact H0|exact Hk|].
    apply (shape_closed_iff p p' _ Hs). exact Hc.
  - intros Hop. rewrite Ho in Hop. specialize (Hr Hop).
    destruct (sc_open (get_scope p' 0)) eqn:E; [reflexivity|]. apply (shape_closed_iff p p' 0 Hs) in E. unfold closed_at in E. congruence.
Qed.

Lemma forest_closed_prov : Forest closed_prov.
Proof. constructor; [intros k H0 Hk; cbn in Hk; lia|intros k H0 Hk; cbn in Hk; lia|discriminate]. Qed.

Lemma forest_get_prov w pi : Forall Forest (w_provs w) -> Forest (get_prov w pi).
Proof.
  intros H. unfold get_prov. destruct (Nat.lt_ge_cases pi (length (w_provs w))) as [Hl|Hl].
  - rewrite Forall_forall in H. apply H. apply nth_In. exact Hl.
  - rewrite nth_overflow by exact Hl. exact forest_closed_prov.
Qed.
Lemma forall_upd_nth {A} (P : A -> Prop) l i y : Forall P l -> P y -> Forall P (upd_nth l i (fun _ => y)).
Proof.
  intros Hl Hy. revert i. induction Hl as [|x l Hx Hl IH]; intros i; cbn [upd_nth]; [constructor|].
  destruct i; constructor; auto.
Qed.

(* ------------------------------------------------------------------ Close keeps the forest *)
Lemma close_scope_keeps_open : forall fuel ord p h, p_open (fst (fst (close_scope fuel ord p h))) = p_open p.
Proof.
  induction fuel as [|f IH]; intros ord p h; cbn [close_scope]; [reflexivity|].
  destruct (negb (sc_open (get_scope p h))); [reflexivity|].
  set (p0 := upd_scope p h _).
  assert (Hfold : forall ks acc, p_open (fst (fst (fold_left (fun '(pa, ea, na) k0 =>
                     let '(pb, eb, nb) := close_scope f ord pa k0 in (pb, ea ++ eb, if nb =? 0 then na else S na)) ks acc))) = p_open (fst (fst acc))).
  { induction ks as [|k0 ks IHk]; intros [[pa ea] na]; cbn [fold_left]; [reflexivity|].
    rewrite IHk. pose proof (IH ord pa k0) as Hk. destruct (close_scope f ord pa k0) as [[pb eb] nb]. exact Hk. }
  specialize (Hfold (nodup_nat (order_by ord (open_children p0 h))) (p0, [], 0)).
  destruct (fold_left _ _ (p0, [], 0)) as [[p1 evs1] n1]. cbn [fst] in Hfold.
  destruct (close_insts (p_descs p1) h (sc_disp (get_scope p1 h))) as [evs2 n2]. cbn [fst]. unfold upd_scope; cbn [p_open]. exact Hfold.
Qed.

Lemma close_scope_forest ord p h : Forest p -> h <> 0 -> h < length (p_scopes p) ->
  Forest (fst (fst (close_scope (scope_fuel p) ord p h))).
Proof.
  intros [Ht Hd Hr] Hz Hh.
  pose proof (close_scope_parents (scope_fuel p) ord p h) as Hp.
  pose proof (close_scope_len (scope_fuel p) ord p h) as Hl.
  pose proof (close_scope_mono (scope_fuel p) ord p h) as Hm.
  pose proof (close_scope_only_below (scope_fuel p) ord p h) as Ho.
  pose proof (scope_close_closes_every_descendant ord p h Ht Hd Hh) as Hc.
  pose proof (close_scope_keeps_open (scope_fuel p) ord p h) as Hpo.
  destruct (close_scope (scope_fuel p) ord p h) as [[p' evs] n]. cbn [fst] in *.
  constructor.
  - rewrite Hp. exact Ht.
  - intros k H0 Hk Hq. rewrite Hp, Hl in *.
    destruct (Ho _ Hq) as [Hqa|Hqb].
    + apply Hm. apply Hd; assumption.
    + apply Hc. apply below_child; [exact H0|rewrite parents_len; exact Hk|exact Hqb].
  - intros Hop. destruct (sc_open (get_scope p' 0)) eqn:E; [reflexivity|]. exfalso.
    destruct (Ho 0 E) as [Ha|Hb].
    + rewrite Hpo in Hop. specialize (Hr Hop). unfold closed_at in Ha. congruence.
    + pose proof (below_ge (parents p) h 0 Ht Hb). lia.
Qed.

(* ------------------------------------------------------------------ folds of Close calls *)
Lemma fold_close_forest (g : nat -> nat -> nat) ord ks : forall pa ea na,
  Forest pa -> (forall c, In c ks -> c <> 0 /\ c < length (p_scopes pa)) ->
  Forest (fst (fst (fold_left (fun '(pa, ea, na) k0 =>
        let '(pb, eb, nb) := close_scope (scope_fuel pa) ord pa k0 in (pb, (ea : list event) ++ eb, g na nb)) ks (pa, ea, na)))).
Proof.
  induction ks as [|k0 ks IH]; intros pa ea na Hf Hks; cbn [fold_left]; [exact Hf|].
  destruct (Hks k0 (or_introl eq_refl)) as [Hz Hl].
  pose proof (close_scope_forest ord pa k0 Hf Hz Hl) as H1. pose proof (close_scope_len (scope_fuel pa) ord pa k0) as Hlen.
  destruct (close_scope (scope_fuel pa) ord pa k0) as [[pb eb] nb]. cbn [fst] in *. apply IH; [exact H1|].
  intros c Hc. rewrite Hlen. apply Hks. right. exact Hc.
Qed.

Lemma cancel_prov_forest c ord p : Forest p -> Forest (fst (cancel_prov c ord p)).
Proof.
  intros Hf. unfold cancel_prov.
  set (ks := nodup_nat (order_by ord (filter (fun k => sc_ctx (get_scope p k) =? c) (open_scopes p)))).
  pose proof (fold_close_forest Nat.add ord ks p [] 0 Hf) as H.
  assert (Hks : forall c0, In c0 ks -> c0 <> 0 /\ c0 < length (p_scopes p)).
  { intros c0 Hc0. apply in_visited, filter_In in Hc0. destruct Hc0 as [Hc0 _]. apply open_scope_spec in Hc0. tauto. }
  specialize (H Hks). destruct (fold_left _ ks (p, [], 0)) as [[p' evs] n]. exact H.
Qed.

Lemma all_closed_forest p : tree_ok (parents p) -> (forall k, k < length (p_scopes p) -> closed_at p k) -> p_open p = false -> Forest p.
Proof. intros Ht Hall Ho. constructor; [exact Ht|intros k _ Hk _; apply Hall; exact Hk|rewrite Ho; discriminate]. Qed.

Lemma fold_close_parents ord ks : forall acc,
  parents (fst (fst (fold_left (fun '(pa, ea, na) k0 =>
        let '(pb, eb, nb) := close_scope (scope_fuel pa) ord pa k0 in (pb, (ea : list event) ++ eb, if nb =? 0 then (na : nat) else S na)) ks acc))) =
  parents (fst (fst acc)).
Proof.
  induction ks as [|k0 ks IH]; intros [[pa ea] na]; cbn [fold_left]; [reflexivity|].
  rewrite IH. pose proof (close_scope_parents (scope_fuel pa) ord pa k0) as H.
  destruct (close_scope (scope_fuel pa) ord pa k0) as [[pb eb] nb]. exact H.
Qed.

Lemma close_provider_forest ord p : Forest p -> Forest (fst (fst (close_provider ord p))).
Proof.
  intros Hf. destruct (p_open p) eqn:Hop.
  2:{ unfold close_provider. rewrite Hop. exact Hf. }
  pose proof (provider_close_closes_every_scope ord p Hop) as Hall.
  pose proof (close_provider_len ord p) as Hlen.
  assert (Hp : parents (fst (fst (close_provider ord p))) = parents p /\ p_open (fst (fst (close_provider ord p))) = false).
  { unfold close_provider. rewrite Hop. cbn [negb].
    set (p0 := mkProv (p_descs p) (p_scopes p) (p_single p) (p_sdisp p) false).
    pose proof (fold_close_parents ord (nodup_nat (order_by ord (open_scopes p0))) (p0, [], 0)) as H1.
    destruct (fold_left _ _ (p0, [], 0)) as [[p1 evs1] n1]. cbn [fst] in H1.
    pose proof (close_scope_parents (scope_fuel p1) ord p1 0) as H2.
    destruct (close_scope (scope_fuel p1) ord p1 0) as [[p2 evs2] n2]. cbn [fst] in H2.
    destruct (close_insts (p_descs p2) OWNER_PROV (p_sdisp p2)) as [evs3 n3]. cbn [fst].
    split; [|reflexivity]. unfold parents in *. cbn [p_scopes] in *. rewrite H2, H1. reflexivity. }
  destruct Hp as [Hp Ho].
  apply all_closed_forest; [rewrite Hp; exact (f_tree p Hf)|intros k Hk; apply Hall; rewrite <- Hlen; exact Hk|exact Ho].
Qed.

(* ------------------------------------------------------------------ a new scope; a scope cut off again *)
Lemma get_scope_app_old p s k : k < length (p_scopes p) ->
  get_scope (mkProv (p_descs p) (p_scopes p ++ [s]) (p_single p) (p_sdisp p) (p_open p)) k = get_scope p k.
Proof. intros Hk. unfold get_scope; cbn [p_scopes]. apply app_nth1. exact Hk. Qed.
Lemma get_scope_app_new p s :
  get_scope (mkProv (p_descs p) (p_scopes p ++ [s]) (p_single p) (p_sdisp p) (p_open p)) (length (p_scopes p)) = s.
Proof. unfold get_scope; cbn [p_scopes]. rewrite app_nth2 by lia. rewrite Nat.sub_diag. reflexivity. Qed.

Lemma new_scope_forest p parent cx : Forest p -> parent < length (p_scopes p) ->
  (parent = 0 -> p_open p = true) -> (parent <> 0 -> sc_open (get_scope p parent) = true) ->
  Forest (mkProv (p_descs p) (p_scopes p ++ [mkScope parent cx [] [] true]) (p_single p) (p_sdisp p) (p_open p)).
Proof.
  intros [Ht Hd Hr] Hpar H0 Hn. set (s := mkScope parent cx [] [] true).
  set (p1 := mkProv (p_descs p) (p_scopes p ++ [s]) (p_single p) (p_sdisp p) (p_open p)).
  assert (Hl : length (p_scopes p1) = S (length (p_scopes p))) by (unfold p1; cbn [p_scopes]; rewrite app_length; cbn; lia).
  assert (Hpar_old : forall k, k < length (p_scopes p) -> par (parents p1) k = par (parents p) k).
  { intros k Hk. unfold par. rewrite !par_nth. unfold p1. rewrite get_scope_app_old by exact Hk. reflexivity. }
  assert (Hpar_new : par (parents p1) (length (p_scopes p)) = parent).
  { unfold par. rewrite par_nth. unfold p1. rewrite get_scope_app_new. reflexivity. }
  assert (Hparent_open : ~ closed_at p parent).
  { unfold closed_at. destruct (Nat.eq_dec parent 0) as [->|Hz]; [rewrite (Hr (H0 eq_refl))|rewrite (Hn Hz)]; discriminate. }
  constructor.
  - intros k Hk0 Hk. rewrite parents_len, Hl in Hk. destruct (Nat.eq_dec k (length (p_scopes p))) as [->|Hne].
    + rewrite Hpar_new. exact Hpar.
    + rewrite Hpar_old by lia. apply Ht; [exact Hk0|rewrite parents_len; lia].
  - intros k Hk0 Hk Hc. rewrite Hl in Hk. destruct (Nat.eq_dec k (length (p_scopes p))) as [->|Hne].
    + exfalso. rewrite Hpar_new in Hc. apply Hparent_open. unfold closed_at in *. unfold p1 in Hc. rewrite get_scope_app_old in Hc by exact Hpar. exact Hc.
    + assert (Hkl : k < length (p_scopes p)) by lia.
      assert (Hq : par (parents p) k < length (p_scopes p)).
      { specialize (Ht k Hk0). rewrite parents_len in Ht. specialize (Ht Hkl). lia. }
      rewrite Hpar_old in Hc by exact Hkl. unfold closed_at in *. unfold p1 in *.
      rewrite get_scope_app_old in Hc by exact Hq. rewrite get_scope_app_old by exact Hkl. apply Hd; assumption.
  - intros Hop. unfold p1 in *. cbn [p_open] in Hop. rewrite get_scope_app_old by lia. apply Hr. exact Hop.
Qed.

Lemma get_scope_firstn p n k : k < n ->
  get_scope (mkProv (p_descs p) (firstn n (p_scopes p)) (p_single p) (p_sdisp p) (p_open p)) k = get_scope p k.
Proof.
  intros Hk. unfold get_scope; cbn [p_scopes].
  destruct (Nat.lt_ge_cases k (length (p_scopes p))) as [Hlt|Hge].
  - rewrite <- (firstn_skipn n (p_scopes p)) at 2. rewrite app_nth1; [reflexivity|]. rewrite firstn_length. lia.
  - rewrite !nth_overflow; [reflexivity|exact Hge|rewrite firstn_length; lia].
Qed.

Lemma firstn_forest p n : Forest p -> 0 < n -> n <= length (p_scopes p) ->
  Forest (mkProv (p_descs p) (firstn n (p_scopes p)) (p_single p) (p_sdisp p) (p_open p)).
Proof.
  intros [Ht Hd Hr] Hn Hle. set (p3 := mkProv (p_descs p) (firstn n (p_scopes p)) (p_single p) (p_sdisp p) (p_open p)).
  assert (Hl : length (p_scopes p3) = n) by (unfold p3; cbn [p_scopes]; rewrite firstn_length; lia).
  assert (Hpar : forall k, k < n -> par (parents p3) k = par (parents p) k).
  { intros k Hk. unfold par. rewrite !par_nth. unfold p3. rewrite get_scope_firstn by exact Hk. reflexivity. }
  constructor.
  - intros k Hk0 Hk. rewrite parents_len, Hl in Hk. rewrite Hpar by exact Hk. apply Ht; [exact Hk0|rewrite parents_len; lia].
  - intros k Hk0 Hk Hc. rewrite Hl in Hk.
    assert (Hq : par (parents p) k < k) by (apply Ht; [exact Hk0|rewrite parents_len; lia]).
    rewrite Hpar in Hc by exact Hk. unfold closed_at in *. unfold p3 in *.
    rewrite get_scope_firstn in Hc by lia. rewrite get_scope_firstn by exact Hk. apply Hd; [exact Hk0|lia|exact Hc].
  - intros Hop. unfold p3 in *. cbn [p_open] in Hop. rewrite get_scope_firstn by exact Hn. apply Hr. exact Hop.
Qed.

(* resolutions and initializers keep the shape of the scope table and the provider's flag *)
Definition pshape (p : prov) := (scopes_shape p, p_open p).
Lemma forest_pshape p p' : pshape p' = pshape p -> Forest p -> Forest p'.
Proof. unfold pshape. intros E. inversion E. apply forest_shape; assumption. Qed.

Section KeepShape.
  Variable sh : list (nat * nat * bool) * bool.
  Let Q (p : prov) : Prop := pshape p = sh.
  Lemma q_cache p h n i : Q p -> Q (cache_set p h n i).
  Proof. unfold Q, pshape. intros <-. rewrite shape_cache_set. reflexivity. Qed.
  Lemma q_track p h i : Q p -> Q (track_scope p h i).
  Proof. unfold Q, pshape. intros <-. rewrite shape_track_scope. unfold track_scope. destruct (inst_disposable i); reflexivity. Qed.
  Lemma q_single p n i : Q p -> Q (single_set p n i).
  Proof. unfold Q, pshape. intros <-. rewrite shape_single_set. reflexivity. Qed.
  Lemma q_tsingle p i : Q p -> Q (track_single p i).
  Proof. unfold Q, pshape. intros <-. rewrite shape_track_single. unfold track_single. destruct (inst_disposable i); reflexivity. Qed.

  Lemma req_pshape rs h t k : Q (rs_p rs) -> Q (rs_p (fst (resolve_req rs h t k))).
  Proof. apply (resolve_req_preserves Q q_cache q_track q_single q_tsingle). Qed.
  Lemma group_pshape rs h t g : Q (rs_p rs) -> Q (rs_p (fst (resolve_group rs h t g))).
  Proof. apply (resolve_group_preserves Q q_cache q_track q_single q_tsingle). Qed.
  Lemma top_pshape rs h d : Q (rs_p rs) -> Q (rs_p (fst (create_top rs h d))).
  Proof. apply (create_top_preserves Q q_cache q_track q_single q_tsingle). Qed.
  Lemma inits_pshape ds rs h : Q (rs_p rs) -> Q (rs_p (fst (run_inits rs h ds))).
  Proof. apply (run_inits_preserves Q q_cache q_track q_single q_tsingle). Qed.
  Lemma singletons_pshape ds rs att : Q (rs_p rs) -> Q (rs_p (fst (fst (create_singletons rs att ds)))).
  Proof. apply (create_singletons_preserves Q q_cache q_track q_single q_tsingle). Qed.
  Lemma by_order_pshape c ord : forall rs att, Q (rs_p rs) -> Q (rs_p (fst (fst (create_by_order rs att c ord)))).
  Proof.
    induction ord as [|rid ord IH]; intros rs att H; cbn [create_by_order]; [exact H|].
    destruct (find _ c) as [d|]; [|apply IH; exact H].
    destruct (build_cancelled rs); [exact H|].
    pose proof (top_pshape rs 0 d H) as H1.
    destruct (create_top rs 0 d) as [rs1 [a|e|]]; cbn [fst] in *; try exact H1. apply IH. exact H1.
  Qed.
  Lemma create_all_pshape c ord rs : Q (rs_p rs) -> Q (rs_p (fst (create_all_singletons rs c ord))).
  Proof.
    intros H. unfold create_all_singletons.
    pose proof (singletons_pshape (unplaced_instances c ord) rs [] H) as H1.
    destruct (create_singletons rs [] (unplaced_instances c ord)) as [[rs1 att1] [r|]]; cbn [fst] in *; [exact H1|].
    pose proof (by_order_pshape c ord rs1 att1 H1) as H2.
    destruct (create_by_order rs1 att1 c ord) as [[rs2 att2] [r|]]; cbn [fst] in *; [exact H2|].
    pose proof (singletons_pshape c rs2 att2 H2) as H3.
    destruct (create_singletons rs2 att2 c) as [[rs3 att3] r]; cbn [fst] in *. exact H3.
  Qed.
End KeepShape.

Lemma build_forest c invs ord invs' evs p : build c invs ord = (invs', evs, inl p) -> Forest p.
Proof.
  unfold build. destruct (has_cycle c); [discriminate|]. destruct (lifetime_conflict c); [discriminate|].
  destruct (missing_required c); [discriminate|].
  set (p0 := mkProv c [root_scope] [] [] true). set (rs0 := mkRs invs p0 []).
  pose proof (create_all_pshape (pshape p0) c ord rs0 eq_refl) as H1.
  destruct (create_all_singletons rs0 c ord) as [rs1 [r|]]; cbn [fst] in H1.
  - destruct (close_provider [] (rs_p rs1)) as [[p' evs'] n]. discriminate.
  - pose proof (inits_pshape (pshape p0) (filter is_initializer c) rs1 0 H1) as H2.
    destruct (run_inits rs1 0 (filter is_initializer c)) as [rs2 [r|]]; cbn [fst] in H2.
    + destruct (close_scope _ _ _ _) as [[p3 evs3] n3]. destruct (close_provider [] p3) as [[p4 evs4] n4]. discriminate.
    + intros E. inversion E; subst. apply (forest_pshape p0); [exact H2|].
      constructor; [intros k H0 Hk; cbn in Hk; lia|intros k H0 Hk; cbn in Hk; lia|reflexivity].
Qed.

(* ------------------------------------------------------------------ every operation keeps every provider a forest *)
Definition Forests (w : world) : Prop := Forall Forest (w_provs w).

Lemma forests_set w i p : Forests w -> Forest p ->
  Forests (mkWorld (w_coll w) (w_void w) (upd_nth (w_provs w) i (fun _ => p)) (w_invs w) (w_cancelled w)).
Proof. intros H Hp. unfold Forests; cbn [w_provs]. apply forall_upd_nth; assumption. Qed.

Theorem step_keeps_forests w o : Forests w -> Forests (fst (fst (step w o))).
Proof.
  intros Hw. destruct o; cbn [step]; try exact Hw.
  - destruct (add_service _ _ _) as [[c' v'] e]. exact Hw.
  - destruct (apply_modules _ _) as [[c' v'] e]. exact Hw.
  - (* Build *)
    destruct (build (w_coll w) (w_invs w) ord) as [[invs evs] [p|e]] eqn:Eb; cbn [fst]; [|exact Hw].
    unfold Forests; cbn [w_provs]. apply Forall_app. split; [exact Hw|]. constructor; [|constructor].
    exact (build_forest _ _ _ _ _ _ Eb).
  - (* CreateScope *)
    unfold create_scope. pose proof (forest_get_prov w p Hw) as Hf.
    destruct (negb (handle_ok (get_prov w p) parent)) eqn:Hh; [exact Hw|].
    destruct ((parent =? 0) && negb (p_open (get_prov w p))) eqn:H0; [exact Hw|].
    destruct (negb (parent =? 0) && negb (sc_open (get_scope (get_prov w p) parent))) eqn:Hn; [exact Hw|].
    apply negb_false_iff in Hh. unfold handle_ok in Hh. apply Nat.ltb_lt in Hh.
    set (cx := if ctx =? 0 then (if parent =? 0 then 0 else sc_ctx (get_scope (get_prov w p) parent)) else ctx).
    set (p1 := mkProv (p_descs (get_prov w p)) (p_scopes (get_prov w p) ++ [mkScope parent cx [] [] true])
                      (p_single (get_prov w p)) (p_sdisp (get_prov w p)) (p_open (get_prov w p))).
    assert (Hf1 : Forest p1).
    { apply new_scope_forest; [exact Hf|exact Hh| |].
      - intros ->. cbn [Nat.eqb andb] in H0. apply negb_false_iff in H0. exact H0.
      - intros Hz. apply Nat.eqb_neq in Hz. rewrite Hz in Hn. cbn [negb andb] in Hn. apply negb_false_iff in Hn. exact Hn. }
    pose proof (inits_pshape (pshape p1) (filter is_initializer (p_descs p1)) (mkRs (w_invs w) p1 []) (length (p_scopes (get_prov w p))) eq_refl) as Hsh.
    destruct (run_inits (mkRs (w_invs w) p1 []) (length (p_scopes (get_prov w p))) (filter is_initializer (p_descs p1))) as [rs [r|]]; cbn [fst] in Hsh.
    + (* failed creation: the new scope is closed and cut off *)
      pose proof (forest_pshape p1 (rs_p rs) Hsh Hf1) as Hf2.
      assert (Hlen : length (p_scopes (rs_p rs)) = S (length (p_scopes (get_prov w p)))).
      { unfold pshape in Hsh. inversion Hsh as [[Hs Ho]]. rewrite (shape_len _ _ Hs). unfold p1; cbn [p_scopes]. rewrite app_length. cbn. lia. }
      pose proof (close_scope_forest [] (rs_p rs) (length (p_scopes (get_prov w p))) Hf2 ltac:(lia) ltac:(lia)) as Hf3.
      pose proof (close_scope_len (scope_fuel (rs_p rs)) [] (rs_p rs) (length (p_scopes (get_prov w p)))) as Hl3.
      destruct (close_scope (scope_fuel (rs_p rs)) [] (rs_p rs) (length (p_scopes (get_prov w p)))) as [[p2 evs2] n2]. cbn [fst] in *.
      apply forests_set; [exact Hw|]. apply firstn_forest; [exact Hf3|lia|lia].
    + cbn [fst]. apply forests_set; [exact Hw|]. exact (forest_pshape p1 (rs_p rs) Hsh Hf1).
  - (* Resolve *)
    destruct (t =? T_NIL); [destruct (disposed_check _ _); exact Hw|].
    unfold do_resolve. destruct (negb (handle_ok (get_prov w p) h)); [exact Hw|]. destruct (disposed_check _ _); [exact Hw|].
    pose proof (req_pshape (pshape (get_prov w p)) (mkRs (w_invs w) (get_prov w p) []) h t (name_key n) eq_refl) as Hsh.
    destruct (resolve_req _ _ _ _) as [rs r]. cbn [fst rs_p] in *.
    apply forests_set; [exact Hw|]. exact (forest_pshape _ _ Hsh (forest_get_prov w p Hw)).
  - destruct (t =? T_NIL); [destruct (disposed_check _ _); exact Hw|].
    destruct (g =? 0); [destruct (disposed_check _ _); exact Hw|].
    unfold do_resolve. destruct (negb (handle_ok (get_prov w p) h)); [exact Hw|]. destruct (disposed_check _ _); [exact Hw|].
    pose proof (group_pshape (pshape (get_prov w p)) (mkRs (w_invs w) (get_prov w p) []) h t g eq_refl) as Hsh.
    destruct (resolve_group _ _ _ _) as [rs r]. cbn [fst rs_p] in *.
    apply forests_set; [exact Hw|]. exact (forest_pshape _ _ Hsh (forest_get_prov w p Hw)).
  - (* Close *)
    destruct (negb (handle_ok (get_prov w p) h) || (h =? 0)) eqn:Hc; [exact Hw|].
    apply orb_false_iff in Hc. destruct Hc as [Hh Hz]. apply negb_false_iff in Hh. unfold handle_ok in Hh. apply Nat.ltb_lt in Hh. apply Nat.eqb_neq in Hz.
    pose proof (close_scope_forest ord (get_prov w p) h (forest_get_prov w p Hw) Hz Hh) as Hf.
    destruct (close_scope _ _ _ _) as [[pv' evs] n]. cbn [fst] in *. unfold set_prov. apply forests_set; assumption.
  - (* CloseProvider *)
    pose proof (close_provider_forest ord (get_prov w p) (forest_get_prov w p Hw)) as Hf.
    destruct (close_provider ord (get_prov w p)) as [[pv' evs] n]. cbn [fst] in *. unfold set_prov. apply forests_set; assumption.
  - (* Cancel *)
    pose proof (cancel_fold_provs c ord (w_provs w) [] []) as Hf.
    destruct (fold_left _ (w_provs w) ([], [])) as [provs evs]. cbn [fst app] in Hf. subst provs. cbn [fst].
    unfold Forests in *; cbn [w_provs]. apply Forall_forall. intros pv Hpv. apply in_map_iff in Hpv. destruct Hpv as [pv0 [<- Hin]].
    apply cancel_prov_forest. rewrite Forall_forall in Hw. apply Hw. exact Hin.
Qed.

Theorem forests_over_histories ops : forall w, Forests w -> Forests (fst (run_from w ops)).
Proof.
  induction ops as [|o ops IH]; intros w Hw; cbn [run_from]; [exact Hw|].
  pose proof (step_keeps_forests w o Hw) as H1.
  destruct (step w o) as [[w1 evs] r]. cbn [fst] in H1.
  specialize (IH w1 H1). destruct (run_from w1 ops) as [w2 tr]. exact IH.
Qed.
Lemma forests_init : Forests init_world.
Proof. constructor. Qed.

(* ------------------------------------------------------------------ C13, over every history *)
(* after any history, Close on a scope leaves that scope and every scope below it closed - whatever the order in which
   children are visited - and closes nothing else *)
Theorem close_cascades_after_every_history ops pi h ord :
  let w := fst (run_from init_world ops) in
  pi < length (w_provs w) -> h <> 0 -> h < length (p_scopes (get_prov w pi)) ->
  let w' := fst (fst (step w (OClose pi h ord))) in
  (forall k, below (parents (get_prov w pi)) h k -> closed_in w' pi k) /\
  (forall k, closed_in w' pi k -> closed_in w pi k \/ below (parents (get_prov w pi)) h k).
Proof.
  intros w Hpi Hz Hh w'.
  pose proof (forest_get_prov w pi (forests_over_histories ops init_world forests_init)) as Hf.
  subst w'. cbn [step]. unfold handle_ok.
  assert ((h <? length (p_scopes (get_prov w pi))) = true) as -> by (apply Nat.ltb_lt; exact Hh).
  destruct (h =? 0) eqn:E; [apply Nat.eqb_eq in E; contradiction|]. cbn [negb orb].
  pose proof (scope_close_closes_every_descendant ord (get_prov w pi) h (f_tree _ Hf) (f_down _ Hf) Hh) as Hall.
  pose proof (close_scope_only_below (scope_fuel (get_prov w pi)) ord (get_prov w pi) h) as Honly.
  pose proof (close_scope_len (scope_fuel (get_prov w pi)) ord (get_prov w pi) h) as Hl.
  destruct (close_scope (scope_fuel (get_prov w pi)) ord (get_prov w pi) h) as [[pv' evs] n]. cbn [fst] in *.
  unfold closed_in, set_prov. cbn [w_provs]. rewrite upd_nth_length, get_prov_set by exact Hpi. rewrite Nat.eqb_refl. split.
  - intros k Hk. split; [exact Hpi|]. split; [|apply Hall; exact Hk].
    rewrite Hl. clear - Hk Hh. induction Hk as [|k H0 Hkl _ _]; [exact Hh|rewrite parents_len in Hkl; exact Hkl].
  - intros k (_ & Hk & Hc). destruct (Honly k Hc) as [Ha|Hb]; [left; split; [exact Hpi|split; [lia|exact Ha]]|right; exact Hb].
Qed.

Theorem provider_close_closes_all_after_every_history ops pi ord :
  let w := fst (run_from init_world ops) in
  pi < length (w_provs w) -> p_open (get_prov w pi) = true ->
  let w' := fst (fst (step w (OCloseProvider pi ord))) in
  p_open (get_prov w' pi) = false /\ forall k, k < length (p_scopes (get_prov w pi)) -> closed_in w' pi k.
Proof.
  intros w Hpi Hop w'. subst w'. cbn [step].
  pose proof (provider_close_closes_every_scope ord (get_prov w pi) Hop) as Hall.
  pose proof (close_provider_len ord (get_prov w pi)) as Hl.
  assert (Ho : p_open (fst (fst (close_provider ord (get_prov w pi)))) = false).
  { unfold close_provider. rewrite Hop. cbn [negb]. destruct (fold_left _ _ _) as [[p1 e1] n1]. destruct (close_scope _ _ _ _) as [[p2 e2] n2].
    destruct (close_insts _ _ _) as [e3 n3]. reflexivity. }
  destruct (close_provider ord (get_prov w pi)) as [[pv' evs] n]. cbn [fst] in *.
  unfold closed_in, set_prov. cbn [w_provs]. rewrite get_prov_set by exact Hpi. rewrite Nat.eqb_refl. split; [exact Ho|].
  intros k Hk. rewrite upd_nth_length. split; [exact Hpi|]. split; [lia|apply Hall; exact Hk].
Qed.

Theorem cancellation_closes_after_every_history ops c ord pi k :
  let w := fst (run_from init_world ops) in
  pi < length (w_provs w) -> k <> 0 -> k < length (p_scopes (get_prov w pi)) -> sc_ctx (get_scope (get_prov w pi) k) = c ->
  closed_in (fst (fst (step w (OCancel c ord)))) pi k.
Proof.
  intros w Hpi Hz Hk Hc. cbn [step].
  pose proof (cancel_fold_provs c ord (w_provs w) [] []) as Hf.
  destruct (fold_left _ (w_provs w) ([], [])) as [provs evs]. cbn [fst app] in Hf. subst provs. cbn [fst].
  unfold closed_in, get_prov in *; cbn [w_provs]. rewrite map_length. split; [exact Hpi|].
  rewrite (nth_indep _ closed_prov (fst (cancel_prov c ord closed_prov))) by (rewrite map_length; exact Hpi).
  rewrite (map_nth (fun pv => fst (cancel_prov c ord pv))).
  split; [rewrite cancel_prov_len; exact Hk|apply cancellation_closes_the_scopes_of_that_context; assumption].
Qed.

(* non-vacuity: a scope with a child and a grandchild and a sibling; closing the scope closes the three, not the sibling *)
Example cascade_example :
  let ops := [OBuild []; OCreateScope 0 0 0; OCreateScope 0 1 0; OCreateScope 0 2 0; OCreateScope 0 0 0; OClose 0 1 []] in
  let w := fst (run_from init_world ops) in
  map (fun k => sc_open (get_scope (get_prov w 0) k)) [0; 1; 2; 3; 4] = [true; false; false; false; true] /\
  parents (get_prov w 0) = [0; 0; 1; 2; 0].
Proof. vm_compute. split; reflexivity. Qed.

(* ------------------------------------------------------------------ C14: a closed scope is tracked nowhere *)
(* neither the provider's list of open scopes nor any scope's list of open children holds a closed scope; with
   [closed_stays_closed] this holds for ever after its Close (the harness compares both lists with the real provider's
   and scopes' tables after every operation) *)
Theorem closed_scope_is_tracked_nowhere p h : closed_at p h ->
  ~ In h (open_scopes p) /\ forall q, ~ In h (open_children p q).
Proof.
  intros Hc. unfold closed_at in Hc. split.
  - intros H. apply open_scope_spec in H. destruct H as (_ & Ho & _). congruence.
  - intros q H. apply open_child_spec in H. destruct H as (_ & Ho & _). congruence.
Qed.
Corollary closed_scope_untracked_for_ever ops w pi h :
  closed_in w pi h ->
  let p := get_prov (fst (run_from w ops)) pi in ~ In h (open_scopes p) /\ forall q, ~ In h (open_children p q).
Proof. intros Hc p. apply closed_scope_is_tracked_nowhere. destruct (closed_stays_closed ops w pi h Hc) as (_ & _ & H). exact H. Qed.
