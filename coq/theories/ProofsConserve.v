(* ProofsConserve.v — closing moves instances from the disposal lists into Closed events, and nothing else:
   for a scope's Close (with all its descendants), the provider's Close and a context cancellation, the instances
   closed together with the instances still listed afterwards are exactly (as a multiset) the instances listed
   before.  Nothing is closed that was not owned, nothing owned is forgotten. *)
From Coq Require Import Permutation.
From Godi Require Import Base Model ProofsRuntime ProofsOnce.

Definition closed_of (evs : list event) : list inst :=
  flat_map (fun e => match e with EvClosed i _ _ => [i] | _ => [] end) evs.
Lemma closed_of_app a b : closed_of (a ++ b) = closed_of a ++ closed_of b.
Proof. apply flat_map_app. Qed.
Lemma closed_of_close_insts c own l : closed_of (fst (close_insts c own l)) = l.
Proof.
  induction l as [|i l IH]; [reflexivity|]. cbn [close_insts]. destruct (close_insts c own l) as [evs n]. cbn [fst] in *.
  cbn [closed_of flat_map app]. fold (closed_of evs). rewrite IH. reflexivity.
Qed.

Lemma tracked_upd_flag p h : tracked (upd_scope p h (fun s => mkScope (sc_parent s) (sc_ctx s) (sc_cache s) (sc_disp s) false)) = tracked p.
Proof. unfold tracked, upd_scope; cbn [p_sdisp p_scopes]. rewrite map_upd_nth_same; [reflexivity|intros s; reflexivity]. Qed.

Lemma concat_upd_clear (l : list scope_st) h (dflt : scope_st) : h < length l ->
  Permutation (sc_disp (nth h l dflt) ++ concat (map sc_disp (upd_nth l h (fun s => mkScope (sc_parent s) (sc_ctx s) [] [] false))))
              (concat (map sc_disp l)).
Proof.
  revert h; induction l as [|x l IH]; intros [|h] Hl; cbn [length] in Hl; try lia; cbn [upd_nth map concat sc_disp nth].
  - rewrite app_nil_l. reflexivity.
  - rewrite <- (IH h) by lia. rewrite !app_assoc. apply Permutation_app_tail. apply Permutation_app_comm.
Qed.
Lemma tracked_upd_clear p h :
  Permutation (sc_disp (get_scope p h) ++ tracked (upd_scope p h (fun s => mkScope (sc_parent s) (sc_ctx s) [] [] false))) (tracked p).
Proof.
  unfold tracked, upd_scope, get_scope; cbn [p_sdisp p_scopes].
  destruct (Nat.lt_ge_cases h (length (p_scopes p))) as [Hl|Hl].
  - rewrite <- (concat_upd_clear (p_scopes p) h (mkScope 0 0 [] [] false) Hl).
    rewrite !app_assoc. apply Permutation_app_tail. apply Permutation_app_comm.
  - rewrite nth_overflow by exact Hl. rewrite nth_upd_nth_oob by exact Hl. reflexivity.
Qed.

Definition conserves (p : prov) (r : prov * list event * nat) : Prop :=
  Permutation (closed_of (snd (fst r)) ++ tracked (fst (fst r))) (tracked p) /\ p_descs (fst (fst r)) = p_descs p.

Lemma close_scope_conserves : forall fuel ord p h, conserves p (close_scope fuel ord p h).
Proof.
  unfold conserves. induction fuel as [|f IH]; intros ord p h; cbn [close_scope]; [split; reflexivity|].
  destruct (negb (sc_open (get_scope p h))); [split; reflexivity|].
  set (p0 := upd_scope p h _).
  assert (H0 : Permutation (tracked p0) (tracked p) /\ p_descs p0 = p_descs p) by (unfold p0; rewrite tracked_upd_flag; split; reflexivity).
  assert (Hfold : forall ks acc,
            Permutation (closed_of (snd (fst acc)) ++ tracked (fst (fst acc))) (tracked p) /\ p_descs (fst (fst acc)) = p_descs p ->
            let r := fold_left (fun '(pa, ea, na) k => let '(pb, eb, nb) := close_scope f ord pa k in
                                  (pb, ea ++ eb, if nb =? 0 then na else S na)) ks acc in
            Permutation (closed_of (snd (fst r)) ++ tracked (fst (fst r))) (tracked p) /\ p_descs (fst (fst r)) = p_descs p).
  { induction ks as [|k ks IHk]; intros [[pa ea] na] Ha; cbn [fold_left]; [exact Ha|].
    destruct (IH ord pa k) as [Hk Hdk]. destruct (close_scope f ord pa k) as [[pb eb] nb]. cbn [fst snd] in *.
    apply IHk. cbn [fst snd]. destruct Ha as [Ha Hda]. split; [|congruence].
    rewrite closed_of_app, <- app_assoc. rewrite Hk. exact Ha. }
  specialize (Hfold (nodup_nat (order_by ord (open_children p0 h))) (p0, [], 0)). cbn [fst snd closed_of flat_map app] in Hfold.
  specialize (Hfold H0). cbv zeta in Hfold.
  destruct (fold_left _ _ (p0, [], 0)) as [[p1 evs1] n1]. cbn [fst snd] in Hfold. destruct Hfold as [Hp1 Hd1].
  pose proof (closed_of_close_insts (p_descs p1) h (sc_disp (get_scope p1 h))) as Hci.
  destruct (close_insts (p_descs p1) h (sc_disp (get_scope p1 h))) as [evs2 n2]. cbn [fst snd] in *.
  cbn [fst snd]. split; [|exact Hd1].
  rewrite closed_of_app, Hci, <- app_assoc. rewrite (tracked_upd_clear p1 h). exact Hp1.
Qed.

Lemma fold_close_conserves (fl : prov -> nat) (cnt : nat -> nat -> nat) ord p ks : forall acc,
  Permutation (closed_of (snd (fst acc)) ++ tracked (fst (fst acc))) (tracked p) /\ p_descs (fst (fst acc)) = p_descs p ->
  let r := fold_left (fun '(pa, ea, na) k => let '(pb, eb, nb) := close_scope (fl pa) ord pa k in (pb, ea ++ eb, cnt na nb)) ks acc in
  Permutation (closed_of (snd (fst r)) ++ tracked (fst (fst r))) (tracked p) /\ p_descs (fst (fst r)) = p_descs p.
Proof.
  induction ks as [|k ks IHk]; intros [[pa ea] na] Ha; cbn [fold_left]; [exact Ha|].
  destruct (close_scope_conserves (fl pa) ord pa k) as [Hk Hdk]. destruct (close_scope (fl pa) ord pa k) as [[pb eb] nb]. cbn [fst snd] in *.
  apply IHk. cbn [fst snd]. destruct Ha as [Ha Hda]. split; [|congruence].
  rewrite closed_of_app, <- app_assoc. rewrite Hk. exact Ha.
Qed.

Lemma close_provider_conserves ord p : conserves p (close_provider ord p).
Proof.
  unfold conserves, close_provider. destruct (negb (p_open p)); [split; reflexivity|].
  set (p0 := mkProv _ _ _ _ false).
  assert (H0 : Permutation (closed_of (snd (fst (p0, @nil event, 0))) ++ tracked (fst (fst (p0, @nil event, 0)))) (tracked p) /\ p_descs (fst (fst (p0, @nil event, 0))) = p_descs p) by (split; reflexivity).
  pose proof (fold_close_conserves scope_fuel (fun na nb => if nb =? 0 then na else S na) ord p (nodup_nat (order_by ord (open_scopes p0))) (p0, [], 0) H0) as Hf.
  cbv zeta in Hf. destruct (fold_left _ _ (p0, [], 0)) as [[p1 evs1] n1]. cbn [fst snd] in Hf. destruct Hf as [Hp1 Hd1].
  destruct (close_scope_conserves (scope_fuel p1) ord p1 0) as [H2 Hd2].
  destruct (close_scope (scope_fuel p1) ord p1 0) as [[p2 evs2] n2]. cbn [fst snd] in *.
  pose proof (closed_of_close_insts (p_descs p2) OWNER_PROV (p_sdisp p2)) as Hci.
  destruct (close_insts (p_descs p2) OWNER_PROV (p_sdisp p2)) as [evs3 n3]. cbn [fst snd] in *.
  cbn [fst snd]. split; [|cbn [p_descs]; congruence].
  rewrite !closed_of_app, Hci. unfold tracked at 1; cbn [p_sdisp p_scopes app].
  rewrite <- !app_assoc. fold (tracked p2). rewrite H2. exact Hp1.
Qed.

Lemma cancel_prov_conserves c ord p :
  Permutation (closed_of (snd (cancel_prov c ord p)) ++ tracked (fst (cancel_prov c ord p))) (tracked p) /\
  p_descs (fst (cancel_prov c ord p)) = p_descs p.
Proof.
  unfold cancel_prov.
  assert (H0 : Permutation (closed_of (snd (fst (p, @nil event, 0))) ++ tracked (fst (fst (p, @nil event, 0)))) (tracked p) /\ p_descs (fst (fst (p, @nil event, 0))) = p_descs p) by (split; reflexivity).
  match goal with |- context [fold_left ?f ?ks (p, [], 0)] =>
    pose proof (fold_close_conserves scope_fuel (fun na nb => na + nb) ord p ks (p, [], 0) H0) as Hf;
    cbv zeta in Hf; destruct (fold_left f ks (p, [], 0)) as [[p' evs] n] end.
  exact Hf.
Qed.
