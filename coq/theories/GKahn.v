From Coq Require Import List Arith Bool Lia PeanoNat ZArith Permutation.
From Godi Require Import PermSolver.
Import ListNotations.
Open Scope Z_scope.

Definition mem (x : nat) (l : list nat) : bool := existsb (Nat.eqb x) l.
Lemma mem_In x l : mem x l = true <-> In x l.
Proof. unfold mem. rewrite existsb_exists. split; [intros [y [Hy He]]; apply Nat.eqb_eq in He; subst; auto | intros H; exists x; split; auto; apply Nat.eqb_refl]. Qed.
Lemma mem_nIn x l : mem x l = false <-> ~ In x l.
Proof. rewrite <- mem_In. destruct (mem x l); split; congruence. Qed.

Lemma mem_cons x c l : mem x (c :: l) = Nat.eqb x c || mem x l.
Proof. reflexivity. Qed.
Lemma NoDup_app_intro {A} (a b : list A) :
  NoDup a -> NoDup b -> (forall x, In x a -> ~ In x b) -> NoDup (a ++ b).
Proof.
  induction a as [|x a IH]; cbn; intros Ha Hb Hd; [exact Hb|].
  inversion Ha as [|? ? Hx Ha']; subst. constructor.
  - intro Hin. apply in_app_or in Hin as [Hin|Hin]; [exact (Hx Hin)|exact (Hd x (or_introl eq_refl) Hin)].
  - apply IH; auto; intros y Hy; apply Hd; right; exact Hy.
Qed.
Lemma NoDup_app_l {A} (a b : list A) : NoDup (a ++ b) -> NoDup a.
Proof. induction a as [|x a IH]; cbn; intros H; [constructor|]. inversion H as [|? ? Hn Hd]; subst. constructor; [intro Hi; apply Hn, in_or_app; left; exact Hi|apply IH, Hd]. Qed.

Notation occ := (count_occ Nat.eq_dec).

Section Kahn.
  Variable nodes : list nat.
  Variable deps : nat -> list nat.        (* Node.Dependencies, with multiplicity *)
  Variable dependents : nat -> list nat.  (* Node.Dependents as recomputed by updateDegrees, in ANY order *)
  Hypothesis dependents_closed : forall c d, In c nodes -> In d (dependents c) -> In d nodes.
  (* updateDegrees' postcondition: Dependents is the exact inverse of Dependencies, with multiplicity *)
  Hypothesis inverse : forall c d, In c nodes -> In d nodes -> occ (dependents c) d = occ (deps d) c.

  Definition cnt_t := nat -> Z.
  Definition dec (cnt : cnt_t) (d : nat) : cnt_t := fun x => if Nat.eqb x d then cnt x - 1 else cnt x.

  (* for _, dependent := range node.Dependents { depCounts[dependent]--; if depCounts[dependent] == 0 { enqueue } } *)
  Fixpoint relax (ds : list nat) (cnt : cnt_t) (q : list nat) : cnt_t * list nat :=
    match ds with
    | [] => (cnt, q)
    | d :: ds' => let cnt' := dec cnt d in relax ds' cnt' (if cnt' d =? 0 then q ++ [d] else q)
    end.

  (* res is kept newest-first; the Go result slice is [rev res] *)
  Fixpoint loop (fuel : nat) (cnt : cnt_t) (q : list nat) (res : list nat) : list nat :=
    match fuel with
    | O => res
    | S f => match q with
             | [] => res
             | c :: q' => let '(cnt', q'') := relax (dependents c) cnt q' in loop f cnt' q'' (c :: res)
             end
    end.

  Definition unmet (n : nat) (res : list nat) : nat :=
    length (filter (fun x => negb (mem x res)) (deps n)).

  Inductive ordered : list nat -> Prop :=
  | ord_nil : ordered []
  | ord_cons n l : ordered l -> (forall d, In d (deps n) -> In d l) -> ordered (n :: l).

  (* ----- facts about unmet ----- *)
  Lemma unmet_zero n res : unmet n res = 0%nat -> forall d, In d (deps n) -> In d res.
  Proof.
    unfold unmet. intros H d Hd. destruct (mem d res) eqn:Hm; [apply mem_In, Hm|].
    exfalso. assert (In d (filter (fun x => negb (mem x res)) (deps n))) as Hin
      by (apply filter_In; split; [exact Hd|rewrite Hm; reflexivity]).
    destruct (filter _ (deps n)); [contradiction|discriminate].
  Qed.

  Lemma filter_len_cons (l : list nat) (c : nat) (res : list nat) :
    ~ In c res ->
    (length (filter (fun x => negb (mem x res)) l) =
     length (filter (fun x => negb (mem x (c :: res))) l) + occ l c)%nat.
  Proof.
    intros Hc. apply mem_nIn in Hc. induction l as [|x l IH]; [reflexivity|]. cbn [filter count_occ].
    rewrite mem_cons.
    destruct (Nat.eq_dec x c) as [->|Hne].
    - rewrite Nat.eqb_refl, Hc. cbn [orb negb length]. lia.
    - apply Nat.eqb_neq in Hne. rewrite Hne. cbn [orb].
      destruct (mem x res); cbn [negb length]; lia.
  Qed.

  Lemma unmet_cons n c res : ~ In c res -> (unmet n res = unmet n (c :: res) + occ (deps n) c)%nat.
  Proof. intros; unfold unmet; apply filter_len_cons; assumption. Qed.

  (* ----- the inner loop ----- *)
  Lemma relax_spec : forall ds cnt q,
      let '(cnt', q') := relax ds cnt q in
      (forall d, cnt' d = cnt d - Z.of_nat (occ ds d)) /\
      exists E, q' = q ++ E /\ NoDup E /\
                (forall d, In d E -> In d ds /\ cnt' d <= 0 /\ 1 <= cnt d).
  Proof.
    induction ds as [|x ds IH]; intros cnt q; cbn [relax].
    - split; [intros; cbn; lia|]. exists []. rewrite app_nil_r. repeat split; [constructor|contradiction..].
    - specialize (IH (dec cnt x) (if dec cnt x x =? 0 then q ++ [x] else q)).
      destruct (relax ds (dec cnt x) (if dec cnt x x =? 0 then q ++ [x] else q)) as [cnt' q'].
      destruct IH as (Hc & E & -> & Hnd & HE).
      assert (Hdec : forall d, dec cnt x d = cnt d - (if Nat.eq_dec x d then 1 else 0)).
      { intros d. unfold dec. destruct (Nat.eqb_spec d x) as [Heq|Hne]; destruct (Nat.eq_dec x d) as [Heq'|Hne']; try congruence; lia. }
      split.
      + intros d. rewrite Hc, Hdec. cbn [count_occ]. destruct (Nat.eq_dec x d); lia.
      + destruct (Z.eqb_spec (dec cnt x x) 0) as [Hz|Hnz].
        * exists (x :: E). rewrite <- app_assoc. split; [reflexivity|]. split.
          -- constructor; [|exact Hnd]. intro Hin. destruct (HE x Hin) as (_ & _ & Hge). lia.
          -- intros d [<-|Hd].
             ++ split; [left; reflexivity|]. pose proof (Hdec x) as Hxx. destruct (Nat.eq_dec x x); [|congruence]. rewrite Hc. lia.
             ++ destruct (HE d Hd) as (A & B & C). split; [right; exact A|]. split; [exact B|].
                rewrite Hdec in C. destruct (Nat.eq_dec x d); lia.
        * exists E. split; [reflexivity|]. split; [exact Hnd|].
          intros d Hd. destruct (HE d Hd) as (A & B & C). split; [right; exact A|]. split; [exact B|].
          rewrite Hdec in C. destruct (Nat.eq_dec x d); lia.
  Qed.

  (* ----- main invariant ----- *)
  Record Inv (cnt : cnt_t) (q res : list nat) : Prop := {
    inv_nodup : NoDup (res ++ q);
    inv_incl  : forall x, In x (res ++ q) -> In x nodes;
    inv_cnt   : forall n, In n nodes -> cnt n = Z.of_nat (unmet n res);
    inv_zero  : forall x, In x (res ++ q) -> unmet x res = 0%nat;
    inv_ord   : ordered res }.

  Lemma loop_inv : forall fuel cnt q res, Inv cnt q res ->
      let r := loop fuel cnt q res in NoDup r /\ (forall x, In x r -> In x nodes) /\ ordered r.
  Proof.
    induction fuel as [|f IH]; intros cnt q res HI; cbn [loop].
    - destruct HI. repeat split; auto.
      + eapply NoDup_app_l. exact inv_nodup0.
      + intros x Hx. apply inv_incl0, in_or_app. left; exact Hx.
    - destruct q as [|c q'].
      + destruct HI. rewrite app_nil_r in *. repeat split; auto.
      + pose proof (relax_spec (dependents c) cnt q') as Hr.
        destruct (relax (dependents c) cnt q') as [cnt' q''].
        destruct Hr as (Hc & E & -> & HndE & HE).
        apply IH. destruct HI as [Hnd Hincl Hcnt Hzero Hord].
        assert (Hcn : In c nodes) by (apply Hincl, in_or_app; right; left; reflexivity).
        assert (Hcres : ~ In c res).
        { intro Hin. apply NoDup_remove_2 in Hnd. apply Hnd, in_or_app. left; exact Hin. }
        assert (Hcz : unmet c res = 0%nat) by (apply Hzero, in_or_app; right; left; reflexivity).
        assert (HEn : forall d, In d E -> In d nodes).
        { intros d Hd. destruct (HE d Hd) as (A & _). eapply dependents_closed; eauto. }
        assert (Hcnt' : forall n, In n nodes -> cnt' n = Z.of_nat (unmet n (c :: res))).
        { intros n Hn. rewrite Hc, (Hcnt n Hn), (inverse c n Hcn Hn), (unmet_cons n c res Hcres). lia. }
        assert (HEpos : forall d, In d E -> (1 <= unmet d res)%nat).
        { intros d Hd. destruct (HE d Hd) as (_ & _ & C). rewrite (Hcnt d (HEn d Hd)) in C. lia. }
        assert (Hbase : NoDup (c :: res ++ q')).
        { eapply Permutation_NoDup; [|exact Hnd]. symmetry. apply Permutation_middle. }
        assert (Hzero' : forall x, In x (c :: res ++ q') -> unmet x (c :: res) = 0%nat).
        { intros x Hx. assert (Hx0 : unmet x res = 0%nat).
          { apply Hzero. destruct Hx as [<-|Hx]; [apply in_or_app; right; left; reflexivity|].
            apply in_app_or in Hx as [Hx|Hx]; apply in_or_app; [left|right; right]; exact Hx. }
          pose proof (unmet_cons x c res Hcres). lia. }
        constructor.
        * replace ((c :: res) ++ q' ++ E) with ((c :: res ++ q') ++ E) by (cbn; rewrite <- app_assoc; reflexivity).
          apply NoDup_app_intro; [exact Hbase|exact HndE|].
          intros x Hx HxE. specialize (HEpos x HxE).
          assert (unmet x res = 0%nat); [|lia].
          apply Hzero. destruct Hx as [<-|Hx]; [apply in_or_app; right; left; reflexivity|].
          apply in_app_or in Hx as [Hx|Hx]; apply in_or_app; [left|right; right]; exact Hx.
        * intros x Hx. cbn in Hx. destruct Hx as [<-|Hx]; [exact Hcn|].
          apply in_app_or in Hx as [Hx|Hx]; [apply Hincl, in_or_app; left; exact Hx|].
          apply in_app_or in Hx as [Hx|Hx]; [apply Hincl, in_or_app; right; right; exact Hx|exact (HEn x Hx)].
        * exact Hcnt'.
        * intros x Hx.
          assert (Hcases : In x (c :: res ++ q') \/ In x E).
          { cbn in Hx. destruct Hx as [<-|Hx]; [left; left; reflexivity|].
            apply in_app_or in Hx as [Hx|Hx]; [left; right; apply in_or_app; left; exact Hx|].
            apply in_app_or in Hx as [Hx|Hx]; [left; right; apply in_or_app; right; exact Hx|right; exact Hx]. }
          destruct Hcases as [Hx'|HxE]; [exact (Hzero' x Hx')|].
          destruct (HE x HxE) as (_ & B & _). rewrite (Hcnt' x (HEn x HxE)) in B. lia.
        * constructor; [exact Hord|]. apply unmet_zero. exact Hcz.
  Qed.

  (* ----- initial state and the theorem ----- *)
  Definition cnt0 : cnt_t := fun n => Z.of_nat (length (deps n)).

  Lemma unmet_nil n : unmet n [] = length (deps n).
  Proof. unfold unmet. cbn. induction (deps n); cbn; congruence. Qed.

  (* q0: the nodes with no dependencies, in ANY order without repetition (map iteration) *)
  Theorem kahn_sound fuel q0 :
    NoDup q0 -> (forall x, In x q0 -> In x nodes /\ deps x = []) ->
    let r := loop fuel cnt0 q0 [] in
    length r = length nodes -> NoDup nodes ->
    Permutation r nodes /\ ordered r.
  Proof.
    intros Hnd Hq0 r Hlen Hnn.
    assert (HI : Inv cnt0 q0 []).
    { constructor; cbn [app].
      - exact Hnd.
      - intros x Hx. apply Hq0, Hx.
      - intros n _. unfold cnt0. rewrite unmet_nil. reflexivity.
      - intros x Hx. rewrite unmet_nil. destruct (Hq0 x Hx) as [_ ->]. reflexivity.
      - constructor. }
    destruct (loop_inv fuel cnt0 q0 [] HI) as (A & B & C). fold r in A, B, C.
    split; [|exact C].
    apply NoDup_Permutation_bis; [exact A|lia|intros x Hx; apply B, Hx].
  Qed.

  (* reading of [ordered] on the Go-order result *)
  Lemma ordered_before r : ordered r -> forall l1 n l2, r = l1 ++ n :: l2 -> forall d, In d (deps n) -> In d l2.
  Proof.
    induction 1 as [|m l Ho IH Hm]; intros l1 n l2 E d Hd; [destruct l1; discriminate|].
    destruct l1 as [|a l1]; cbn in E; injection E as -> ->; [exact (Hm d Hd)|]. eapply IH; eauto.
  Qed.
End Kahn.

Print Assumptions kahn_sound.
