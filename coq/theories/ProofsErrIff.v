(* ProofsErrIff.v — C12: a Close reports a disposal error exactly when some Close method in it failed.
   For a scope's Close (with all its descendants, in every visiting order), for the provider's Close, and for the
   operations of the world: the error count is 0 iff no Closed event of the step carries a failure. *)
From Godi Require Import Base Model Check ProofsRegistry ProofsRuntime.

Definition failed (e : event) : bool := match e with EvClosed _ ok _ => negb ok | _ => false end.
Definition none_failed (evs : list event) : Prop := filter failed evs = [].

Lemma none_failed_app a b : none_failed (a ++ b) <-> none_failed a /\ none_failed b.
Proof.
  unfold none_failed. rewrite filter_app. split.
  - intros H. apply app_eq_nil in H. exact H.
  - intros [-> ->]. reflexivity.
Qed.
Lemma none_failed_nil : none_failed [].
Proof. reflexivity. Qed.

Lemma close_insts_iff c own l : snd (close_insts c own l) = 0 <-> none_failed (fst (close_insts c own l)).
Proof.
  rewrite close_insts_errors. unfold none_failed. fold failed.
  split; [intros H; apply length_zero_iff_nil; exact H|intros ->; reflexivity].
Qed.

Theorem close_scope_error_iff : forall fuel ord p h,
  snd (close_scope fuel ord p h) = 0 <-> none_failed (snd (fst (close_scope fuel ord p h))).
Proof.
  induction fuel as [|f IH]; intros ord p h; cbn [close_scope]; [cbn; split; [intros _; exact none_failed_nil|reflexivity]|].
  destruct (negb (sc_open (get_scope p h))); [cbn; split; [intros _; exact none_failed_nil|reflexivity]|].
  set (p0 := upd_scope p h _).
  assert (Hfold : forall ks acc, (snd acc = 0 <-> none_failed (snd (fst acc))) ->
            let r := fold_left (fun '(pa, ea, na) k0 =>
                     let '(pb, eb, nb) := close_scope f ord pa k0 in (pb, ea ++ eb, if nb =? 0 then na else S na)) ks acc in
            snd r = 0 <-> none_failed (snd (fst r))).
  { induction ks as [|k0 ks IHk]; intros [[pa ea] na] Hacc; cbn [fold_left]; [exact Hacc|].
    apply IHk. pose proof (IH ord pa k0) as Hk. destruct (close_scope f ord pa k0) as [[pb eb] nb]. cbn [fst snd] in *.
    rewrite none_failed_app. destruct (nb =? 0) eqn:E.
    - apply Nat.eqb_eq in E. split; [intros Hn; split; [apply Hacc; exact Hn|apply Hk; exact E]|intros [Ha _]; apply Hacc; exact Ha].
    - apply Nat.eqb_neq in E. split; [discriminate|]. intros [_ Hb]. exfalso. apply E. apply Hk. exact Hb. }
  specialize (Hfold (nodup_nat (order_by ord (open_children p0 h))) (p0, [], 0)). cbn [fst snd] in Hfold.
  specialize (Hfold (conj (fun _ => none_failed_nil) (fun _ => eq_refl))).
  destruct (fold_left _ _ (p0, [], 0)) as [[p1 evs1] n1]. cbn [fst snd] in Hfold.
  pose proof (close_insts_iff (p_descs p1) h (sc_disp (get_scope p1 h))) as H2.
  destruct (close_insts (p_descs p1) h (sc_disp (get_scope p1 h))) as [evs2 n2]. cbn [fst snd] in *.
  rewrite none_failed_app. split.
  - intros Hn. assert (n1 = 0 /\ n2 = 0) as [E1 E2] by lia. split; [apply Hfold; exact E1|apply H2; exact E2].
  - intros [Ha Hb]. apply Hfold in Ha. apply H2 in Hb. lia.
Qed.

Theorem close_provider_error_iff ord p :
  snd (close_provider ord p) = 0 <-> none_failed (snd (fst (close_provider ord p))).
Proof.
  unfold close_provider. destruct (negb (p_open p)); [cbn; split; [intros _; exact none_failed_nil|reflexivity]|].
  set (p0 := mkProv (p_descs p) (p_scopes p) (p_single p) (p_sdisp p) false).
  assert (Hfold : forall ks acc, (snd acc = 0 <-> none_failed (snd (fst acc))) ->
            let r := fold_left (fun '(pa, ea, na) k0 =>
                     let '(pb, eb, nb) := close_scope (scope_fuel pa) ord pa k0 in (pb, ea ++ eb, if nb =? 0 then na else S na)) ks acc in
            snd r = 0 <-> none_failed (snd (fst r))).
  { induction ks as [|k0 ks IHk]; intros [[pa ea] na] Hacc; cbn [fold_left]; [exact Hacc|].
    apply IHk. pose proof (close_scope_error_iff (scope_fuel pa) ord pa k0) as Hk.
    destruct (close_scope (scope_fuel pa) ord pa k0) as [[pb eb] nb]. cbn [fst snd] in *.
    rewrite none_failed_app. destruct (nb =? 0) eqn:E.
    - apply Nat.eqb_eq in E. split; [intros Hn; split; [apply Hacc; exact Hn|apply Hk; exact E]|intros [Ha _]; apply Hacc; exact Ha].
    - apply Nat.eqb_neq in E. split; [discriminate|]. intros [_ Hb]. exfalso. apply E. apply Hk. exact Hb. }
  specialize (Hfold (nodup_nat (order_by ord (open_scopes p0))) (p0, [], 0)). cbn [fst snd] in Hfold.
  specialize (Hfold (conj (fun _ => none_failed_nil) (fun _ => eq_refl))).
  destruct (fold_left _ _ (p0, [], 0)) as [[p1 evs1] n1]. cbn [fst snd] in Hfold.
  pose proof (close_scope_error_iff (scope_fuel p1) ord p1 0) as H2.
  destruct (close_scope (scope_fuel p1) ord p1 0) as [[p2 evs2] n2]. cbn [fst snd] in H2.
  pose proof (close_insts_iff (p_descs p2) OWNER_PROV (p_sdisp p2)) as H3.
  destruct (close_insts (p_descs p2) OWNER_PROV (p_sdisp p2)) as [evs3 n3]. cbn [fst snd] in *.
  rewrite !none_failed_app. split.
  - intros Hn. destruct (n2 =? 0) eqn:E.
    + apply Nat.eqb_eq in E. assert (n1 = 0 /\ n3 = 0) as [E1 E3] by lia.
      split; [apply Hfold; exact E1|split; [apply H2; exact E|apply H3; exact E3]].
    + lia.
  - intros (Ha & Hb & Hc). apply Hfold in Ha. apply H2 in Hb. apply H3 in Hc. rewrite Hb. cbn. lia.
Qed.

(* the operations: a Close answers nil exactly when no Close method called in that step failed *)
Theorem close_answers_error_iff_some_close_failed w pi h ord :
  handle_ok (get_prov w pi) h = true -> h <> 0 ->
  let '(w', evs, r) := step w (OClose pi h ord) in
  (r = RUnit <-> none_failed evs) /\ (r <> RUnit -> exists n, n <> 0 /\ r = RErr (EDisposal n) []).
Proof.
  intros Hh Hz. cbn [step]. rewrite Hh. destruct (h =? 0) eqn:E; [apply Nat.eqb_eq in E; contradiction|]. cbn [negb orb].
  pose proof (close_scope_error_iff (scope_fuel (get_prov w pi)) ord (get_prov w pi) h) as H.
  destruct (close_scope (scope_fuel (get_prov w pi)) ord (get_prov w pi) h) as [[pv' evs] n]. cbn [fst snd] in H.
  destruct (n =? 0) eqn:En.
  - apply Nat.eqb_eq in En. split; [split; [intros _; apply H; exact En|reflexivity]|intros Hx; exfalso; apply Hx; reflexivity].
  - apply Nat.eqb_neq in En. split; [split; [discriminate|intros Hn; exfalso; apply En; apply H; exact Hn]|].
    intros _. exists n. split; [exact En|reflexivity].
Qed.

Theorem provider_close_answers_error_iff_some_close_failed w pi ord :
  let '(w', evs, r) := step w (OCloseProvider pi ord) in
  (r = RUnit <-> none_failed evs) /\ (r <> RUnit -> exists n, n <> 0 /\ r = RErr (EDisposal n) []).
Proof.
  cbn [step].
  pose proof (close_provider_error_iff ord (get_prov w pi)) as H.
  destruct (close_provider ord (get_prov w pi)) as [[pv' evs] n]. cbn [fst snd] in H.
  destruct (n =? 0) eqn:En.
  - apply Nat.eqb_eq in En. split; [split; [intros _; apply H; exact En|reflexivity]|intros Hx; exfalso; apply Hx; reflexivity].
  - apply Nat.eqb_neq in En. split; [split; [discriminate|intros Hn; exfalso; apply En; apply H; exact Hn]|].
    intros _. exists n. split; [exact En|reflexivity].
Qed.
