package main

// Graph harness (C19, graph halves of C05 and C06): drives internal/graph.DependencyGraph through
// the verif overlay and records, after every mutation, the answers of every query.

import (
	"encoding/json"
	"flag"
	"fmt"
	"math/rand"
	"os"
	"reflect"
	"strings"
	"time"

	"github.com/junioryono/godi/v4"
)

type GOp struct {
	Kind string `json:"kind"` // add | deferred | detect | remove | clear
	U    int    `json:"u,omitempty"`
	Deps []int  `json:"deps,omitempty"`
}

type GObs struct {
	Accepted   bool    `json:"accepted"`
	Path       []int   `json:"path,omitempty"`
	Dirty      bool    `json:"dirty,omitempty"`
	Size       int     `json:"size"`
	Has        []bool  `json:"has"`
	Deps       [][]int `json:"deps"`
	Dependents [][]int `json:"dependents"`
	Trans      [][]int `json:"trans"`
	Acyclic    bool    `json:"acyclic"`
	TopoOK     bool    `json:"topo_ok"`
	Topo       []int   `json:"topo,omitempty"`
	Roots      []int   `json:"roots,omitempty"`
	Leaves     []int   `json:"leaves,omitempty"`
	Depths     []int   `json:"depths"`
	InDeg      []int   `json:"indeg"`
	OutDeg     []int   `json:"outdeg"`
	Err        string  `json:"err,omitempty"`
}

type GCase struct {
	ID    int    `json:"id"`
	NPool int    `json:"npool"`
	Ops   []GOp  `json:"ops"`
	Obs   []GObs `json:"obs,omitempty"`
	Crash string `json:"crash,omitempty"`
}

// pool identity i -> (type, key, group)
func nodeKeyOf(i int) (reflect.Type, any, string) {
	t := reflect.PointerTo(poolElem[i%8])
	var key any
	group := ""
	switch (i / 8) % 3 {
	case 1:
		key = "a"
	case 2:
		group = "g"
	}
	return t, key, group
}

// small pools use a mix of types, keys and groups already among the first identities
var poolOrder = []int{0, 1, 8, 9, 16, 17, 2, 10, 18, 3, 11, 19}

func poolID(i int) int { return poolOrder[i%len(poolOrder)] }

type gProvider struct {
	id   int
	deps []*godi.VerifDependency
}

func (p *gProvider) GetType() reflect.Type { t, _, _ := nodeKeyOf(poolID(p.id)); return t }
func (p *gProvider) GetKey() any           { _, k, _ := nodeKeyOf(poolID(p.id)); return k }
func (p *gProvider) GetGroup() string      { _, _, g := nodeKeyOf(poolID(p.id)); return g }
func (p *gProvider) GetDependencies() []*godi.VerifDependency {
	return p.deps
}

func newGProvider(u int, deps []int) *gProvider {
	p := &gProvider{id: u}
	for _, d := range deps {
		t, k, g := nodeKeyOf(poolID(d))
		p.deps = append(p.deps, &godi.VerifDependency{Type: t, Key: k, Group: g})
	}
	return p
}

func idOfKey(k godi.VerifNodeKey, npool int) int {
	for i := 0; i < npool; i++ {
		t, key, g := nodeKeyOf(poolID(i))
		if k.Type == t && k.Key == key && k.Group == g {
			return i
		}
	}
	return 99
}

func idsOfKeys(ks []godi.VerifNodeKey, npool int) []int {
	out := make([]int, 0, len(ks))
	for _, k := range ks {
		out = append(out, idOfKey(k, npool))
	}
	return out
}

func runGCase(c *GCase) {
	g := godi.VerifNewGraph()
	dirty := false
	for _, op := range c.Ops {
		ob := GObs{Accepted: true}
		var err error
		switch op.Kind {
		case "add":
			err = g.AddProvider(newGProvider(op.U, op.Deps))
			dirty = false
		case "deferred":
			err = g.AddProviderDeferred(newGProvider(op.U, op.Deps))
			dirty = true
		case "detect":
			err = g.DetectCycles()
			dirty = false
		case "remove":
			t, k, gr := nodeKeyOf(poolID(op.U))
			had := g.HasNode(t, k, gr)
			g.RemoveProvider(t, k, gr)
			if had {
				dirty = false // (removing what is not there is a no-op: bulk additions before it stay unrefreshed)
			}
		case "clear":
			g.Clear()
			dirty = false
		}
		if err != nil {
			ob.Accepted = false
			ob.Err = firstLine(err.Error())
			if ce, ok := asVal[godi.CircularDependencyError](err); ok {
				ob.Path = idsOfKeys(ce.Path, c.NPool)
			}
		}
		ob.Dirty = dirty
		ob.Size = g.Size()
		for i := 0; i < c.NPool; i++ {
			t, k, gr := nodeKeyOf(poolID(i))
			ob.Has = append(ob.Has, g.HasNode(t, k, gr))
			ob.Deps = append(ob.Deps, idsOfKeys(g.GetDependencies(t, k, gr), c.NPool))
			ob.Trans = append(ob.Trans, idsOfKeys(g.GetTransitiveDependencies(t, k, gr), c.NPool))
		}
		if !dirty {
			// the degree-based queries first: IsAcyclic, DetectCycles and the additions recompute every degree and would
			// hide what the mutation itself left behind
			for _, n := range g.GetRoots() {
				ob.Roots = append(ob.Roots, idOfKey(n.Key, c.NPool))
			}
			for _, n := range g.GetLeaves() {
				ob.Leaves = append(ob.Leaves, idOfKey(n.Key, c.NPool))
			}
			for i := 0; i < c.NPool; i++ {
				t, k, gr := nodeKeyOf(poolID(i))
				ob.Dependents = append(ob.Dependents, idsOfKeys(g.GetDependents(t, k, gr), c.NPool))
				in, out := 0, 0
				if n := g.GetNode(t, k, gr); n != nil {
					in, out = n.InDegree, n.OutDegree
					if in < 0 {
						in = 97 // (a negative degree: no natural number of the model equals it)
					}
					if out < 0 {
						out = 97
					}
				}
				ob.InDeg = append(ob.InDeg, in)
				ob.OutDeg = append(ob.OutDeg, out)
			}
			ob.Acyclic = g.IsAcyclic()
			sorted, terr := g.TopologicalSort()
			if terr == nil {
				ob.TopoOK = true
				for _, n := range sorted {
					ob.Topo = append(ob.Topo, idOfKey(n.Key, c.NPool))
				}
			}
			if ob.Acyclic {
				g.CalculateDepths()
			}
			for i := 0; i < c.NPool; i++ {
				t, k, gr := nodeKeyOf(poolID(i))
				d := 0
				if n := g.GetNode(t, k, gr); n != nil {
					if d = n.Depth; d < 0 {
						d = 98
					}
				}
				ob.Depths = append(ob.Depths, d)
			}
		}
		c.Obs = append(c.Obs, ob)
	}
}

// ---------------------------------------------------------------- Gallina

func gInts(l []int) string { return gList(l, gNat) }

func (o GOp) G() string {
	switch o.Kind {
	case "add":
		return fmt.Sprintf("(GAdd %d %s)", o.U, gInts(o.Deps))
	case "deferred":
		return fmt.Sprintf("(GAddDeferred %d %s)", o.U, gInts(o.Deps))
	case "detect":
		return "GDetect"
	case "remove":
		return fmt.Sprintf("(GRemove %d)", o.U)
	case "clear":
		return "GClear"
	}
	panic("bad gop")
}

func (o GObs) G() string {
	topo := "None"
	if o.TopoOK {
		topo = "(Some " + gInts(o.Topo) + ")"
	}
	return fmt.Sprintf("(mkObs %s %s %s %d %s %s %s %s %s %s %s %s %s %s %s)", gBool(o.Accepted), gInts(o.Path), gBool(o.Dirty), o.Size,
		gList(o.Has, gBool), gList(o.Deps, gInts), gList(o.Dependents, gInts), gList(o.Trans, gInts), gBool(o.Acyclic), topo,
		gInts(o.Roots), gInts(o.Leaves), gInts(o.Depths), gInts(o.InDeg), gInts(o.OutDeg))
}

// ---------------------------------------------------------------- generation

func genGraphCases(prop string, seed int64, n int, thorough bool) []GCase {
	rnd := rand.New(rand.NewSource(seed*7919 + int64(len(prop))*31 + 5))
	var cases []GCase
	whole := func(np int, adj [][]int, shuffle bool) GCase {
		c := GCase{NPool: np}
		order := make([]int, np)
		for i := range order {
			order[i] = i
		}
		if shuffle {
			rnd.Shuffle(np, func(i, j int) { order[i], order[j] = order[j], order[i] })
		}
		for _, u := range order {
			c.Ops = append(c.Ops, GOp{Kind: "deferred", U: u, Deps: adj[u]})
		}
		c.Ops = append(c.Ops, GOp{Kind: "detect"})
		return c
	}
	// histories of mutations (also a share of the C05 and C06 runs: replaced nodes, repeated dependencies,
	// rejected additions followed by queries)
	histories := func(count int) {
		for i := 0; i < count; i++ {
			np := 3 + rnd.Intn(4)
			c := GCase{NPool: np}
			deps := func() []int {
				var ds []int
				for k := rnd.Intn(4); k > 0; k-- {
					ds = append(ds, rnd.Intn(np))
				}
				return ds
			}
			if i%6 == 1 {
				// a long chain with shortcuts (depths are longest paths: a node reached again by a longer path after it
				// has been processed must pass the new depth on), added in any order
				np = 5 + rnd.Intn(3)
				c.NPool = np
				chain := rnd.Perm(np)
				adj := make([][]int, np)
				for j := 1; j < np; j++ {
					adj[chain[j]] = append(adj[chain[j]], chain[j-1])
				}
				for k := 1 + rnd.Intn(3); k > 0; k-- {
					hi := 2 + rnd.Intn(np-2)
					lo := rnd.Intn(hi - 1)
					adj[chain[hi]] = append(adj[chain[hi]], chain[lo])
				}
				for _, u := range rnd.Perm(np) {
					c.Ops = append(c.Ops, GOp{Kind: "deferred", U: u, Deps: adj[u]})
				}
				c.Ops = append(c.Ops, GOp{Kind: "detect"})
				if rnd.Intn(2) == 0 {
					c.Ops = append(c.Ops, GOp{Kind: "remove", U: chain[np-1]})
				}
				cases = append(cases, c)
				continue
			}
			if i%3 == 2 {
				// a graph that is checked, repaired by taking nodes away, and checked again after each removal: what an
				// earlier check remembered (a cycle, or the absence of one) must not outlive the nodes it was about
				for _, u := range rnd.Perm(np) {
					ds := []int{rnd.Intn(np)}
					if rnd.Intn(3) == 0 {
						ds = append(ds, rnd.Intn(np))
					}
					c.Ops = append(c.Ops, GOp{Kind: "deferred", U: u, Deps: ds})
				}
				if i%2 == 0 { // (or repaired before the first check: the bulk additions have not been followed by any query yet)
					c.Ops = append(c.Ops, GOp{Kind: "detect"})
				}
				for k := 1 + rnd.Intn(3); k > 0; k-- {
					if rnd.Intn(3) == 0 {
						// or repaired by replacing a node with a provider that depends on nothing (a bulk addition again)
						c.Ops = append(c.Ops, GOp{Kind: "deferred", U: rnd.Intn(np)}, GOp{Kind: "detect"})
						continue
					}
					c.Ops = append(c.Ops, GOp{Kind: "remove", U: rnd.Intn(np)}, GOp{Kind: "detect"})
				}
				cases = append(cases, c)
				continue
			}
			for len(c.Ops) < 4+rnd.Intn(12) {
				x := rnd.Float64()
				switch {
				case x < 0.42:
					c.Ops = append(c.Ops, GOp{Kind: "add", U: rnd.Intn(np), Deps: deps()})
				case x < 0.62:
					for k := 1 + rnd.Intn(3); k > 0; k-- {
						c.Ops = append(c.Ops, GOp{Kind: "deferred", U: rnd.Intn(np), Deps: deps()})
					}
					c.Ops = append(c.Ops, GOp{Kind: "detect"})
				case x < 0.82:
					c.Ops = append(c.Ops, GOp{Kind: "remove", U: rnd.Intn(np)})
				case x < 0.87:
					c.Ops = append(c.Ops, GOp{Kind: "clear"})
				default:
					c.Ops = append(c.Ops, GOp{Kind: "detect"})
				}
			}
			cases = append(cases, c)
		}
	}
	switch prop {
	case "C05":
		if thorough {
			// every digraph with up to 4 nodes, self-loops included
			for np := 1; np <= 4; np++ {
				for m := 0; m < 1<<(np*np); m++ {
					adj := make([][]int, np)
					for u := 0; u < np; u++ {
						for v := 0; v < np; v++ {
							if m>>(u*np+v)&1 == 1 {
								adj[u] = append(adj[u], v)
							}
						}
					}
					cases = append(cases, whole(np, adj, false))
				}
			}
		}
		for i := 0; i < n; i++ {
			np := 2 + rnd.Intn(7)
			adj := make([][]int, np)
			dens := 0.1 + rnd.Float64()*0.3
			for u := 0; u < np; u++ {
				for v := 0; v < np; v++ {
					if rnd.Float64() < dens {
						adj[u] = append(adj[u], v)
					}
				}
				rnd.Shuffle(len(adj[u]), func(a, b int) { adj[u][a], adj[u][b] = adj[u][b], adj[u][a] })
			}
			cases = append(cases, whole(np, adj, true))
		}
		histories(n / 3)
	case "C06":
		// DAGs: edges only from higher to lower rank
		for i := 0; i < n; i++ {
			np := 2 + rnd.Intn(9)
			rank := rnd.Perm(np)
			adj := make([][]int, np)
			dens := 0.15 + rnd.Float64()*0.5
			for u := 0; u < np; u++ {
				for v := 0; v < np; v++ {
					if rank[v] < rank[u] && rnd.Float64() < dens {
						adj[u] = append(adj[u], v)
						if rnd.Float64() < 0.1 {
							adj[u] = append(adj[u], v) // a dependency declared twice
						}
					}
				}
				rnd.Shuffle(len(adj[u]), func(a, b int) { adj[u][a], adj[u][b] = adj[u][b], adj[u][a] })
			}
			cases = append(cases, whole(np, adj, true))
		}
		histories(n / 3)
	default: // C19: histories of mutations
		if thorough {
			// every sequence of up to 3 operations over 3 identities with dependency lists of length <= 1
			var alphabet []GOp
			for u := 0; u < 3; u++ {
				alphabet = append(alphabet, GOp{Kind: "remove", U: u})
				for _, k := range []string{"add", "deferred"} {
					alphabet = append(alphabet, GOp{Kind: k, U: u})
					for d := 0; d < 3; d++ {
						alphabet = append(alphabet, GOp{Kind: k, U: u, Deps: []int{d}})
					}
				}
			}
			alphabet = append(alphabet, GOp{Kind: "detect"}, GOp{Kind: "clear"})
			var rec func(prefix []GOp, depth int)
			rec = func(prefix []GOp, depth int) {
				if len(prefix) > 0 {
					ops := append([]GOp(nil), prefix...)
					if ops[len(ops)-1].Kind == "deferred" {
						ops = append(ops, GOp{Kind: "detect"})
					}
					cases = append(cases, GCase{NPool: 3, Ops: ops})
				}
				if depth == 0 {
					return
				}
				for _, o := range alphabet {
					rec(append(prefix, o), depth-1)
				}
			}
			rec(nil, 3)
		}
		histories(n)
	}
	for i := range cases {
		cases[i].ID = i
	}
	return cases
}

// ---------------------------------------------------------------- command

func cmdGraph(args []string) {
	fs := flag.NewFlagSet("graph", flag.ExitOnError)
	prop := fs.String("prop", "C19", "")
	seed := fs.Int64("seed", 1, "")
	n := fs.Int("n", 100, "")
	out := fs.String("out", "", "")
	shard := fs.Int("shard", 400, "")
	thorough := fs.Bool("thorough", false, "")
	corpus := fs.String("corpus", "", "")
	child := fs.String("child", "", "")
	from := fs.Int("from", 0, "")
	fs.Parse(args)
	if *child != "" {
		graphChild(*child, *from)
		return
	}
	os.MkdirAll(*out, 0o755)
	var cases []GCase
	for _, f := range strings.Split(*corpus, ",") {
		if f == "" {
			continue
		}
		b, err := os.ReadFile(f)
		if err != nil {
			continue
		}
		var cs []GCase
		if json.Unmarshal(b, &cs) == nil {
			for _, c := range cs {
				c.Obs, c.Crash = nil, ""
				cases = append(cases, c)
			}
		}
	}
	ncorpus := len(cases)
	cases = append(cases, genGraphCases(*prop, *seed, *n, *thorough)...)
	for i := range cases {
		cases[i].ID = i
	}
	results := runGraphChildren(cases, *out)
	nfiles := 0
	tag := *prop + "g"
	for start := 0; start < len(results); start += *shard {
		end := start + *shard
		if end > len(results) {
			end = len(results)
		}
		var b strings.Builder
		b.WriteString("From Coq Require Import NArith.\nFrom Godi Require Import Base GraphSpec.\n")
		for _, c := range results[start:end] {
			if c.Crash != "" {
				continue
			}
			fmt.Fprintf(&b, "Eval vm_compute in (%d%%N, check_graph %d %s\n  %s).\n", c.ID, c.NPool, gList(c.Ops, GOp.G), gList(c.Obs, GObs.G))
		}
		os.WriteFile(fmt.Sprintf("%s/cases_%s_%d.v", *out, tag, nfiles), []byte(b.String()), 0o644)
		nfiles++
	}
	writeJSON(*out+"/cases.json", results)
	sum := Summary{Prop: tag, Seed: *seed, Groups: len(results), Cases: len(results), Files: nfiles, Dist: map[string]int{"corpus-groups": ncorpus}}
	seen := map[string]bool{}
	for _, c := range results {
		if c.Crash != "" {
			sum.Crashed = append(sum.Crashed, c.ID)
		}
		key := gList(c.Ops, GOp.G)
		nontriv := false
		for i, o := range c.Ops {
			sum.Dist["op:"+o.Kind]++
			if i < len(c.Obs) {
				if !c.Obs[i].Accepted {
					sum.Dist["rejected:"+o.Kind]++
					nontriv = true
				}
				if c.Obs[i].Size >= 3 {
					nontriv = true
				}
			}
		}
		if len(c.Obs) > 0 {
			if last := c.Obs[len(c.Obs)-1]; !last.Dirty {
				if last.Acyclic {
					sum.Dist["final:acyclic"]++
				} else {
					sum.Dist["final:cyclic"]++
				}
			}
		}
		sum.Dist[fmt.Sprintf("npool:%d", c.NPool)]++
		if !seen[key] {
			seen[key] = true
			sum.Distinct++
			if nontriv {
				sum.NonTriv++
			}
		}
	}
	writeJSON(*out+"/summary.json", sum)
}

func runGraphChildren(cases []GCase, dir string) []GCase {
	in := dir + "/gcases_in.json"
	outp := dir + "/gcases_out.jsonl"
	writeJSON(in, cases)
	os.Remove(outp)
	self, _ := os.Executable()
	var results []GCase
	for len(results) < len(cases) {
		cmd := execCommand(self, "graph", "-child", in, "-from", fmt.Sprint(len(results)), "-out", outp)
		var stderr strings.Builder
		cmd.Stderr = &stderr
		err := cmd.Run()
		results = readGCases(outp)
		if len(results) >= len(cases) {
			break
		}
		c := cases[len(results)]
		msg := firstLine(stderr.String())
		if msg == "" {
			msg = fmt.Sprint(err)
		}
		c.Crash = "runner died: " + msg
		f, _ := os.OpenFile(outp, os.O_APPEND|os.O_WRONLY|os.O_CREATE, 0o644)
		b, _ := json.Marshal(c)
		f.Write(append(b, '\n'))
		f.Close()
		results = append(results, c)
	}
	os.Remove(in)
	return results
}

func readGCases(path string) []GCase {
	var out []GCase
	b, err := os.ReadFile(path)
	if err != nil {
		return out
	}
	for _, line := range strings.Split(string(b), "\n") {
		if strings.TrimSpace(line) == "" {
			continue
		}
		var c GCase
		if json.Unmarshal([]byte(line), &c) == nil {
			out = append(out, c)
		}
	}
	return out
}

func graphChild(in string, from int) {
	// -out is parsed by the parent flag set; find it in os.Args
	outp := ""
	for i, a := range os.Args {
		if a == "-out" && i+1 < len(os.Args) {
			outp = os.Args[i+1]
		}
	}
	b, err := os.ReadFile(in)
	if err != nil {
		die("%v", err)
	}
	var cases []GCase
	if err := json.Unmarshal(b, &cases); err != nil {
		die("%v", err)
	}
	f, err := os.OpenFile(outp, os.O_APPEND|os.O_WRONLY|os.O_CREATE, 0o644)
	if err != nil {
		die("%v", err)
	}
	defer f.Close()
	for i := from; i < len(cases); i++ {
		c := cases[i]
		done := make(chan struct{})
		go func() { runGCase(&c); close(done) }()
		select {
		case <-done:
		case <-time.After(10 * time.Second):
			fmt.Fprintf(os.Stderr, "watchdog: graph case %d did not finish (non-termination)\n", c.ID)
			os.Exit(3)
		}
		bb, _ := json.Marshal(c)
		f.Write(append(bb, '\n'))
	}
}
