package main

// Web harness (C16): drives the real net/http, chi-style, gin, echo and fiber stacks through the
// scenarios of coq/theories/Web.v and records, per request, the events the model speaks about.

import (
	"context"
	"encoding/json"
	"errors"
	"flag"
	"fmt"
	"io"
	"log/slog"
	"math/rand"
	"net/http"
	"net/http/httptest"
	"os"
	"strings"
	"sync"
	"sync/atomic"
	"time"

	"github.com/gin-gonic/gin"
	"github.com/gofiber/fiber/v2"
	fiberrecover "github.com/gofiber/fiber/v2/middleware/recover"
	"github.com/junioryono/godi/v4"
	godichi "github.com/junioryono/godi/v4/chi"
	godiecho "github.com/junioryono/godi/v4/echo"
	godifiber "github.com/junioryono/godi/v4/fiber"
	godigin "github.com/junioryono/godi/v4/gin"
	godihttp "github.com/junioryono/godi/v4/http"
	"github.com/labstack/echo/v4"
)

var integNames = []string{"IHttp", "IChi", "IGin", "IEcho", "IFiber"}

type WScen struct {
	Integ      int  `json:"integ"`
	NMw        int  `json:"nmw"`
	Exit       int  `json:"exit"` // 0 ok, 1 mw error, 2 handler error, 3 handler panic, 4 create fail
	FailAt     int  `json:"fail_at"`
	CloseFails bool `json:"close_fails"`
	// Outer: the incoming request context is derived from a long-lived scope of the same provider
	// (e.g. a server whose base context is an application scope); the request must still get its own scope
	Outer bool `json:"outer,omitempty"`
	// TwoStacks: a second scope middleware with middlewares of its own is configured after the first one (another
	// route group); the request goes through the first and must run the first one's middlewares only
	TwoStacks bool `json:"two_stacks,omitempty"`
	// DefaultErr: no WithErrorHandler option - the integration's default error handler answers
	DefaultErr bool `json:"default_err,omitempty"`
}

// set by runWCase for the request in progress (request cases run one at a time)
var wTwoStacks, wDefaultErr bool

type HScen struct {
	Integ      int  `json:"integ"`
	Scope      bool `json:"scope"`
	Registered bool `json:"registered"`
	Panic      bool `json:"panic"`
	Recovery   bool `json:"recovery"`
	// NilCtl (with Registered false): the controller type is an output of a scoped result object that leaves it nil
	// for this request - for the Handle wrapper that is a controller that cannot be resolved
	NilCtl bool `json:"nilctl,omitempty"`
}

type wOther struct{}
type wCtlOut struct {
	godi.Out
	Ctl   *wController
	Other *wOther
}

type WCase struct {
	ID     int      `json:"id"`
	Kind   string   `json:"kind"` // request | handle | batch
	W      *WScen   `json:"w,omitempty"`
	H      *HScen   `json:"h,omitempty"`
	Batch  int      `json:"batch,omitempty"`
	Events []string `json:"events,omitempty"`
	Scopes []int    `json:"scopes,omitempty"` // batch: scope number of every request
	Closes []int    `json:"closes,omitempty"` // batch: how often each request's scope was closed
	Status int      `json:"status,omitempty"`
	Crash  string   `json:"crash,omitempty"`
}

// per-request recorder
type wrec struct {
	mu      sync.Mutex
	events  []string
	scopeID string
	appID   string // identity of the long-lived scope the request context derives from, if any
	closed  int32
}

func (r *wrec) add(e string) {
	r.mu.Lock()
	r.events = append(r.events, e)
	r.mu.Unlock()
}

// see notes the scope a callback sees; anything but the request's first scope is foreign
func (r *wrec) see(s godi.Scope, ev string) {
	r.mu.Lock()
	defer r.mu.Unlock()
	if s == nil {
		r.events = append(r.events, "WForeignScope")
		return
	}
	if r.appID != "" && s.ID() == r.appID {
		r.events = append(r.events, "WForeignScope") // the callback was handed the long-lived scope, not a scope of the request
		return
	}
	if r.scopeID == "" {
		r.scopeID = s.ID()
	} else if r.scopeID != s.ID() {
		r.events = append(r.events, "WForeignScope")
		return
	}
	r.events = append(r.events, ev)
}

// seeCtx: the request as a configured middleware is given it already carries the request's scope - "the scope seen by
// configured middlewares" is the same whether a middleware uses its argument or the request context (helpers that take the
// request or its context do the latter)
func (r *wrec) seeCtx(s godi.Scope, ctx context.Context) {
	got, err := godi.FromContext(ctx)
	if err != nil || got != s {
		r.add("WForeignScope")
	}
}

// probe: a scoped disposable resolved by the first callback that sees the scope; its Close marks "scope closed"
type wprobe struct {
	rec  *wrec
	fail bool
}

func (p *wprobe) Close() error {
	if p.rec == nil {
		return nil // built in a scope whose context does not carry the recorder
	}
	atomic.AddInt32(&p.rec.closed, 1)
	p.rec.add("WClosed")
	if p.fail {
		return errors.New("probe close fails")
	}
	return nil
}

type wController struct{ rec *wrec }

type recKey struct{}

// the provider of one case: the probe and the controller learn their recorder from the scope's context
func webProvider(closeFails, controller bool) godi.Provider {
	c := godi.NewCollection()
	c.AddScoped(func(ctx context.Context) *wprobe {
		rec, _ := ctx.Value(recKey{}).(*wrec)
		return &wprobe{rec: rec, fail: closeFails}
	})
	if controller {
		c.AddScoped(func(ctx context.Context) *wController {
			rec, _ := ctx.Value(recKey{}).(*wrec)
			return &wController{rec: rec}
		})
	}
	p, err := c.Build()
	if err != nil {
		panic(err)
	}
	return p
}

func touch(s godi.Scope) {
	if s != nil {
		_, _ = godi.Resolve[*wprobe](s)
	}
}

var errMw = errors.New("middleware says no")

// handleProbe (C03, through the integrations): two Handle-wrapped handlers for one *transient* controller type run in
// one request - two resolution sites: the constructor must run twice and the two methods see different instances.
type wTransient struct{ n int }

func handleProbe() ProbeReport {
	rep := ProbeReport{}
	names := []string{"net/http", "chi", "gin", "echo", "fiber"}
	for integ := 0; integ < 5; integ++ {
		rep.Rounds++
		runs := 0
		var seen []*wTransient
		c := godi.NewCollection()
		c.AddTransient(func() *wTransient { runs++; return &wTransient{runs} })
		p, err := c.Build()
		if err != nil {
			rep.Bad = append(rep.Bad, names[integ]+": "+err.Error())
			continue
		}
		func() {
			defer func() {
				if v := recover(); v != nil {
					rep.Bad = append(rep.Bad, fmt.Sprintf("%s: panic: %v", names[integ], v))
				}
			}()
			switch integ {
			case 0:
				h := func() http.HandlerFunc {
					return godihttp.Handle(func(t *wTransient, w http.ResponseWriter, r *http.Request) { seen = append(seen, t) })
				}
				h1, h2 := h(), h()
				godihttp.ScopeMiddleware(p)(http.HandlerFunc(func(w http.ResponseWriter, r *http.Request) { h1(w, r); h2(w, r) })).
					ServeHTTP(httptest.NewRecorder(), httptest.NewRequest("GET", "/", nil))
			case 1:
				h := func() http.HandlerFunc {
					return godichi.Handle(func(t *wTransient, w http.ResponseWriter, r *http.Request) { seen = append(seen, t) })
				}
				h1, h2 := h(), h()
				godichi.ScopeMiddleware(p)(http.HandlerFunc(func(w http.ResponseWriter, r *http.Request) { h1(w, r); h2(w, r) })).
					ServeHTTP(httptest.NewRecorder(), httptest.NewRequest("GET", "/", nil))
			case 2:
				gin.SetMode(gin.ReleaseMode)
				e := gin.New()
				e.Use(godigin.ScopeMiddleware(p))
				h := func() gin.HandlerFunc {
					return godigin.Handle(func(t *wTransient, c *gin.Context) { seen = append(seen, t) })
				}
				e.GET("/", h(), h())
				e.ServeHTTP(httptest.NewRecorder(), httptest.NewRequest("GET", "/", nil))
			case 3:
				e := echo.New()
				e.HideBanner = true
				e.Use(godiecho.ScopeMiddleware(p))
				h := func() echo.HandlerFunc {
					return godiecho.Handle(func(t *wTransient, c echo.Context) error { seen = append(seen, t); return nil })
				}
				h1, h2 := h(), h()
				e.GET("/", func(c echo.Context) error {
					if err := h1(c); err != nil {
						return err
					}
					return h2(c)
				})
				e.ServeHTTP(httptest.NewRecorder(), httptest.NewRequest("GET", "/", nil))
			default:
				app := fiber.New(fiber.Config{DisableStartupMessage: true})
				app.Use(godifiber.ScopeMiddleware(p))
				h := func(last bool) fiber.Handler {
					return godifiber.Handle(func(t *wTransient, c *fiber.Ctx) error {
						seen = append(seen, t)
						if last {
							return c.SendStatus(200)
						}
						return c.Next()
					})
				}
				app.Get("/", h(false), h(true))
				if resp, err := app.Test(httptest.NewRequest("GET", "/", nil), 5000); err == nil {
					resp.Body.Close()
				}
				_ = app.Shutdown()
			}
		}()
		_ = p.Close()
		switch {
		case len(seen) != 2:
			rep.Bad = append(rep.Bad, fmt.Sprintf("%s: %d of 2 controller methods ran", names[integ], len(seen)))
		case runs != 2 || seen[0] == seen[1]:
			rep.Bad = append(rep.Bad, fmt.Sprintf("%s: two resolution sites of a transient controller in one request: the constructor ran %d times (same instance: %v)", names[integ], runs, seen[0] == seen[1]))
		}
	}
	for _, how := range []string{"unrelated-context", "nested-scope-context"} {
		rep.Rounds++
		if msg := fiberLocalsRound(how); msg != "" {
			rep.Bad = append(rep.Bad, "fiber/"+how+": "+msg)
		}
	}
	return rep
}

type wUser struct{ name string }
type wUserCtl struct{ user *wUser }

// fiberLocalsRound: fiber keeps the request's scope with the request (c.Locals) as well as in the user context, and a
// handler between the scope middleware and Handle may replace the user context (fiber's SetUserContext is how values are
// passed on): the request still has its scope, and "Handle calls the controller method only after resolving the
// controller from the request's scope" - the scope godifiber.FromContext(c) returns, whose instances the configured
// middleware prepared - not from whatever the user context now points at, and not the scope-error handler.
func fiberLocalsRound(how string) (msg string) {
	defer func() {
		if v := recover(); v != nil {
			msg = fmt.Sprintf("panic: %v", v)
		}
	}()
	c := godi.NewCollection()
	c.AddScoped(func() *wUser { return &wUser{} })
	c.AddScoped(func(u *wUser) *wUserCtl { return &wUserCtl{u} })
	p, err := c.Build()
	if err != nil {
		return err.Error()
	}
	defer p.Close()
	var reqUser, ctlUser *wUser
	called, scopeErr := false, false
	app := fiber.New(fiber.Config{DisableStartupMessage: true})
	app.Use(godifiber.ScopeMiddleware(p, godifiber.WithMiddleware(func(s godi.Scope, c *fiber.Ctx) error {
		u, err := godi.Resolve[*wUser](s)
		if err == nil {
			u.name = "alice"
		}
		return err
	})))
	app.Use(func(c *fiber.Ctx) error {
		s := godifiber.FromContext(c)
		if s == nil {
			return errors.New("no request scope")
		}
		reqUser, _ = godi.Resolve[*wUser](s)
		if how == "unrelated-context" {
			c.SetUserContext(context.WithValue(context.Background(), recKey{}, "trace"))
			return c.Next()
		}
		child, err := s.CreateScope(c.UserContext())
		if err != nil {
			return err
		}
		defer child.Close()
		c.SetUserContext(child.Context())
		return c.Next()
	})
	app.Get("/", godifiber.Handle(func(ctl *wUserCtl, c *fiber.Ctx) error {
		called, ctlUser = true, ctl.user
		return c.SendStatus(200)
	}, godifiber.WithScopeErrorHandler(func(c *fiber.Ctx, err error) error {
		scopeErr = true
		return c.SendStatus(500)
	})))
	if resp, err := app.Test(httptest.NewRequest("GET", "/", nil), 5000); err == nil {
		resp.Body.Close()
	}
	_ = app.Shutdown()
	switch {
	case scopeErr:
		return "the scope-error handler ran although the request has its scope (godifiber.FromContext(c) returns it)"
	case !called:
		return "the controller method was not called"
	case reqUser == nil || ctlUser != reqUser || ctlUser.name != "alice":
		return "the controller was not resolved from the request's scope: its scoped dependency is not the instance the configured middleware prepared"
	}
	return ""
}

// wInHandler, when set, runs inside the request handler of every integration (the request-cancellation probe)
var wInHandler func(s godi.Scope)

// cancelProbe (C13, through the integrations): the request's context is cancelled while the handler is running -
// "cancelling the context a scope was created with closes that scope": the request scope must refuse further use
// (and its instances be closed) within a bounded wait, while the handler is still running.
func cancelProbe() ProbeReport {
	rep := ProbeReport{}
	names := []string{"net/http", "chi", "gin", "echo", "fiber"}
	for integ := 0; integ < 5; integ++ {
		rep.Rounds++
		p := webProvider(false, false)
		rec := &wrec{}
		base, cancel := context.WithCancel(context.Background())
		msg := "the handler did not run"
		wInHandler = func(s godi.Scope) {
			if s == nil {
				msg = "no request scope in the handler"
				return
			}
			cancel()
			deadline := time.Now().Add(3 * time.Second)
			for {
				_, err := godi.Resolve[*wprobe](s)
				if errors.Is(err, godi.ErrScopeDisposed) {
					msg = ""
					if atomic.LoadInt32(&rec.closed) != 1 {
						msg = fmt.Sprintf("the request scope refuses use but its instance was closed %d times", atomic.LoadInt32(&rec.closed))
					}
					return
				}
				if time.Now().After(deadline) {
					msg = fmt.Sprintf("the request scope is still usable 3s after the request's context was cancelled (Resolve: %v)", err)
					return
				}
				time.Sleep(2 * time.Millisecond)
			}
		}
		done := make(chan struct{})
		go func() {
			defer close(done)
			runRequestCtx(integ, p, 1, 0, 0, rec, base)
			cancel()
			_ = p.Close()
		}()
		select {
		case <-done:
		case <-time.After(15 * time.Second):
			msg = "the request, or the provider's Close after it, did not finish within 15s; " + msg
		}
		wInHandler = nil
		if msg != "" {
			rep.Bad = append(rep.Bad, names[integ]+": "+msg)
		}
	}
	return rep
}

// runRequest performs one request through the given integration; rec comes in through the request context
func runRequest(integ int, p godi.Provider, nmw int, exit, failAt int, rec *wrec) int {
	return runRequestCtx(integ, p, nmw, exit, failAt, rec, context.Background())
}

func runRequestCtx(integ int, p godi.Provider, nmw int, exit, failAt int, rec *wrec, base context.Context) int {
	mwFail := func(i int) error {
		if exit == 1 && i == failAt {
			return errMw
		}
		return nil
	}
	switch integ {
	case 0, 1: // net/http and the chi-style middleware (same signatures)
		handler := http.HandlerFunc(func(w http.ResponseWriter, r *http.Request) {
			s, _ := godi.FromContext(r.Context())
			rec.see(s, "WHandler")
			touch(s)
			if wInHandler != nil {
				wInHandler(s)
			}
			switch exit {
			case 2:
				http.Error(w, "handler error", 500)
			case 3:
				panic("handler panics")
			}
		})
		var mw func(http.Handler) http.Handler
		if integ == 0 {
			opts := []godihttp.Option{
				godihttp.WithCloseErrorHandler(func(error) { rec.add("WCloseErrHandler") }),
			}
			for i := 0; i < nmw; i++ {
				i := i
				opts = append(opts, godihttp.WithMiddleware(func(s godi.Scope, r *http.Request) error {
					rec.see(s, fmt.Sprintf("WMw %d", i))
					rec.seeCtx(s, r.Context())
					touch(s)
					return mwFail(i)
				}))
			}
			if !wDefaultErr {
				opts = append(opts, godihttp.WithErrorHandler(func(w http.ResponseWriter, r *http.Request, err error) { rec.add("WErrHandler"); http.Error(w, "e", 500) }))
			}
			mw = godihttp.ScopeMiddleware(p, opts...)
			if wTwoStacks {
				var other []godihttp.Option
				for i := 0; i <= nmw; i++ {
					i := i
					other = append(other, godihttp.WithMiddleware(func(s godi.Scope, r *http.Request) error { rec.add(fmt.Sprintf("WMw %d", 90+i)); return nil }))
				}
				_ = godihttp.ScopeMiddleware(p, other...)
			}
		} else {
			opts := []godichi.Option{
				godichi.WithCloseErrorHandler(func(error) { rec.add("WCloseErrHandler") }),
			}
			for i := 0; i < nmw; i++ {
				i := i
				opts = append(opts, godichi.WithMiddleware(func(s godi.Scope, r *http.Request) error {
					rec.see(s, fmt.Sprintf("WMw %d", i))
					rec.seeCtx(s, r.Context())
					touch(s)
					return mwFail(i)
				}))
			}
			if !wDefaultErr {
				opts = append(opts, godichi.WithErrorHandler(func(w http.ResponseWriter, r *http.Request, err error) { rec.add("WErrHandler"); http.Error(w, "e", 500) }))
			}
			mw = godichi.ScopeMiddleware(p, opts...)
			if wTwoStacks {
				var other []godichi.Option
				for i := 0; i <= nmw; i++ {
					i := i
					other = append(other, godichi.WithMiddleware(func(s godi.Scope, r *http.Request) error { rec.add(fmt.Sprintf("WMw %d", 90+i)); return nil }))
				}
				_ = godichi.ScopeMiddleware(p, other...)
			}
		}
		outer := http.HandlerFunc(func(w http.ResponseWriter, r *http.Request) {
			defer func() {
				if v := recover(); v != nil {
					http.Error(w, "recovered", 500)
				}
			}()
			mw(handler).ServeHTTP(w, r)
		})
		req := httptest.NewRequest("GET", "/", nil).WithContext(context.WithValue(base, recKey{}, rec))
		w := httptest.NewRecorder()
		outer.ServeHTTP(w, req)
		return w.Code
	case 2: // gin
		gin.SetMode(gin.ReleaseMode)
		e := gin.New()
		e.Use(gin.CustomRecoveryWithWriter(io.Discard, func(c *gin.Context, v any) { c.AbortWithStatus(500) }))
		opts := []godigin.Option{
			godigin.WithCloseErrorHandler(func(error) { rec.add("WCloseErrHandler") }),
		}
		for i := 0; i < nmw; i++ {
			i := i
			opts = append(opts, godigin.WithMiddleware(func(s godi.Scope, c *gin.Context) error {
				rec.see(s, fmt.Sprintf("WMw %d", i))
				rec.seeCtx(s, c.Request.Context())
				touch(s)
				return mwFail(i)
			}))
		}
		if !wDefaultErr {
			// (an error handler that writes its answer and does not abort: stopping the chain is the middleware's business)
			opts = append(opts, godigin.WithErrorHandler(func(c *gin.Context, err error) { rec.add("WErrHandler"); c.String(500, "e") }))
		}
		e.Use(godigin.ScopeMiddleware(p, opts...))
		if wTwoStacks {
			var other []godigin.Option
			for i := 0; i <= nmw; i++ {
				i := i
				other = append(other, godigin.WithMiddleware(func(s godi.Scope, c *gin.Context) error { rec.add(fmt.Sprintf("WMw %d", 90+i)); return nil }))
			}
			_ = godigin.ScopeMiddleware(p, other...)
		}
		e.GET("/", func(c *gin.Context) {
			s, _ := godi.FromContext(c.Request.Context())
			rec.see(s, "WHandler")
			touch(s)
			if wInHandler != nil {
				wInHandler(s)
			}
			switch exit {
			case 2:
				c.AbortWithStatus(500)
			case 3:
				panic("handler panics")
			}
		})
		req := httptest.NewRequest("GET", "/", nil).WithContext(context.WithValue(base, recKey{}, rec))
		w := httptest.NewRecorder()
		e.ServeHTTP(w, req)
		return w.Code
	case 3: // echo
		e := echo.New()
		e.HideBanner = true
		e.Use(func(next echo.HandlerFunc) echo.HandlerFunc {
			return func(c echo.Context) (err error) {
				defer func() {
					if v := recover(); v != nil {
						err = c.NoContent(500)
					}
				}()
				return next(c)
			}
		})
		opts := []godiecho.Option{
			godiecho.WithCloseErrorHandler(func(error) { rec.add("WCloseErrHandler") }),
		}
		for i := 0; i < nmw; i++ {
			i := i
			opts = append(opts, godiecho.WithMiddleware(func(s godi.Scope, c echo.Context) error {
				rec.see(s, fmt.Sprintf("WMw %d", i))
				rec.seeCtx(s, c.Request().Context())
				touch(s)
				return mwFail(i)
			}))
		}
		if !wDefaultErr {
			opts = append(opts, godiecho.WithErrorHandler(func(c echo.Context, err error) error { rec.add("WErrHandler"); return c.NoContent(500) }))
		}
		e.Use(godiecho.ScopeMiddleware(p, opts...))
		if wTwoStacks {
			var other []godiecho.Option
			for i := 0; i <= nmw; i++ {
				i := i
				other = append(other, godiecho.WithMiddleware(func(s godi.Scope, c echo.Context) error { rec.add(fmt.Sprintf("WMw %d", 90+i)); return nil }))
			}
			_ = godiecho.ScopeMiddleware(p, other...)
		}
		e.GET("/", func(c echo.Context) error {
			s, _ := godi.FromContext(c.Request().Context())
			rec.see(s, "WHandler")
			touch(s)
			if wInHandler != nil {
				wInHandler(s)
			}
			switch exit {
			case 2:
				return echo.NewHTTPError(500, "handler error")
			case 3:
				panic("handler panics")
			}
			return c.NoContent(200)
		})
		req := httptest.NewRequest("GET", "/", nil).WithContext(context.WithValue(base, recKey{}, rec))
		w := httptest.NewRecorder()
		e.ServeHTTP(w, req)
		return w.Code
	default: // fiber
		app := fiber.New(fiber.Config{DisableStartupMessage: true})
		app.Use(fiberrecover.New())
		app.Use(func(c *fiber.Ctx) error {
			c.SetUserContext(context.WithValue(base, recKey{}, rec))
			return c.Next()
		})
		opts := []godifiber.Option{
			godifiber.WithCloseErrorHandler(func(error) { rec.add("WCloseErrHandler") }),
		}
		for i := 0; i < nmw; i++ {
			i := i
			opts = append(opts, godifiber.WithMiddleware(func(s godi.Scope, c *fiber.Ctx) error {
				rec.see(s, fmt.Sprintf("WMw %d", i))
				rec.seeCtx(s, c.UserContext())
				touch(s)
				return mwFail(i)
			}))
		}
		if !wDefaultErr {
			opts = append(opts, godifiber.WithErrorHandler(func(c *fiber.Ctx, err error) error { rec.add("WErrHandler"); return c.SendStatus(500) }))
		}
		app.Use(godifiber.ScopeMiddleware(p, opts...))
		if wTwoStacks {
			var other []godifiber.Option
			for i := 0; i <= nmw; i++ {
				i := i
				other = append(other, godifiber.WithMiddleware(func(s godi.Scope, c *fiber.Ctx) error { rec.add(fmt.Sprintf("WMw %d", 90+i)); return nil }))
			}
			_ = godifiber.ScopeMiddleware(p, other...)
		}
		app.Get("/", func(c *fiber.Ctx) error {
			s := godifiber.FromContext(c)
			s2, _ := godi.FromContext(c.UserContext())
			if s != nil && s2 != nil && s.ID() != s2.ID() {
				rec.add("WForeignScope")
			}
			rec.see(s, "WHandler")
			touch(s)
			if wInHandler != nil {
				wInHandler(s)
			}
			switch exit {
			case 2:
				return fiber.NewError(500, "handler error")
			case 3:
				panic("handler panics")
			}
			return c.SendStatus(200)
		})
		req := httptest.NewRequest("GET", "/", nil)
		resp, err := app.Test(req, 5000)
		if err != nil {
			return -1
		}
		code := resp.StatusCode
		resp.Body.Close()
		_ = app.Shutdown()
		return code
	}
}

func runWCase(c *WCase) {
	switch c.Kind {
	case "request":
		s := c.W
		p := webProvider(s.CloseFails, false)
		if s.Exit == 4 {
			_ = p.Close()
		}
		rec := &wrec{}
		base := context.Background()
		var app godi.Scope
		if s.Outer && s.Exit != 4 {
			app, _ = p.CreateScope(context.Background())
			if app != nil {
				base = app.Context()
				rec.appID = app.ID()
			}
		}
		wTwoStacks, wDefaultErr = s.TwoStacks, s.DefaultErr
		c.Status = runRequestCtx(s.Integ, p, s.NMw, s.Exit, s.FailAt, rec, base)
		wTwoStacks, wDefaultErr = false, false
		if app != nil && godi.VerifCacheLen(app) == -1 {
			rec.add("WForeignScope") // the request closed the long-lived scope
		}
		_ = p.Close()
		rec.mu.Lock()
		c.Events = append([]string(nil), rec.events...)
		rec.mu.Unlock()
	case "handle":
		c.Events = runHandle(c.H)
	case "batch":
		p := webProvider(false, false)
		n := c.Batch
		recs := make([]*wrec, n)
		var wg sync.WaitGroup
		for i := 0; i < n; i++ {
			recs[i] = &wrec{}
			wg.Add(1)
			go func(i int) {
				defer wg.Done()
				runRequest(c.W.Integ, p, c.W.NMw, 0, 0, recs[i])
			}(i)
		}
		wg.Wait()
		_ = p.Close()
		for _, r := range recs {
			id := 0
			fmt.Sscanf(strings.TrimPrefix(r.scopeID, "s"), "%d", &id)
			if r.scopeID != "" {
				var v uint64
				for _, ch := range strings.TrimPrefix(r.scopeID, "s") {
					d := 0
					switch {
					case ch >= '0' && ch <= '9':
						d = int(ch - '0')
					default:
						d = int(ch-'a') + 10
					}
					v = v*36 + uint64(d)
				}
				id = int(v)
			}
			c.Scopes = append(c.Scopes, id)
			c.Closes = append(c.Closes, int(atomic.LoadInt32(&r.closed)))
		}
	}
}

// ---------------------------------------------------------------- Handle

func runHandle(h *HScen) []string {
	var mu sync.Mutex
	var evs []string
	add := func(e string) { mu.Lock(); evs = append(evs, e); mu.Unlock() }
	p := webProvider(false, h.Registered)
	if h.NilCtl {
		_ = p.Close()
		c := godi.NewCollection()
		c.AddScoped(func(ctx context.Context) *wprobe {
			rec, _ := ctx.Value(recKey{}).(*wrec)
			return &wprobe{rec: rec}
		})
		c.AddScoped(func() wCtlOut { return wCtlOut{Other: &wOther{}} })
		var err error
		if p, err = c.Build(); err != nil {
			panic(err)
		}
	}
	defer p.Close()
	rec := &wrec{}
	escaped := func() {
		if v := recover(); v != nil {
			add("HPanicEscaped")
		}
	}
	switch h.Integ {
	case 0, 1:
		var hf http.Handler
		if h.Integ == 0 {
			hf = godihttp.Handle(func(ctl *wController, w http.ResponseWriter, r *http.Request) {
				add("HMethod")
				if h.Panic {
					panic("method panics")
				}
			}, godihttp.WithPanicRecovery(h.Recovery),
				godihttp.WithPanicHandler(func(w http.ResponseWriter, r *http.Request, v any) { add("HPanicHandler") }),
				godihttp.WithScopeErrorHandler(func(w http.ResponseWriter, r *http.Request, err error) { add("HScopeErr") }),
				godihttp.WithResolutionErrorHandler(func(w http.ResponseWriter, r *http.Request, err error) { add("HResolutionErr") }))
		} else {
			hf = godichi.Handle(func(ctl *wController, w http.ResponseWriter, r *http.Request) {
				add("HMethod")
				if h.Panic {
					panic("method panics")
				}
			}, godichi.WithPanicRecovery(h.Recovery),
				godichi.WithPanicHandler(func(w http.ResponseWriter, r *http.Request, v any) { add("HPanicHandler") }),
				godichi.WithScopeErrorHandler(func(w http.ResponseWriter, r *http.Request, err error) { add("HScopeErr") }),
				godichi.WithResolutionErrorHandler(func(w http.ResponseWriter, r *http.Request, err error) { add("HResolutionErr") }))
		}
		var chain http.Handler = hf
		if h.Scope {
			if h.Integ == 0 {
				chain = godihttp.ScopeMiddleware(p)(hf)
			} else {
				chain = godichi.ScopeMiddleware(p)(hf)
			}
		}
		func() {
			defer escaped()
			req := httptest.NewRequest("GET", "/", nil).WithContext(context.WithValue(context.Background(), recKey{}, rec))
			chain.ServeHTTP(httptest.NewRecorder(), req)
		}()
	case 2:
		gin.SetMode(gin.ReleaseMode)
		e := gin.New()
		e.Use(func(c *gin.Context) {
			defer func() {
				if v := recover(); v != nil {
					add("HPanicEscaped")
					c.AbortWithStatus(500)
				}
			}()
			c.Next()
		})
		if h.Scope {
			e.Use(godigin.ScopeMiddleware(p))
		}
		e.GET("/", godigin.Handle(func(ctl *wController, c *gin.Context) {
			add("HMethod")
			if h.Panic {
				panic("method panics")
			}
		}, godigin.WithPanicRecovery(h.Recovery),
			godigin.WithPanicHandler(func(c *gin.Context, v any) { add("HPanicHandler") }),
			godigin.WithScopeErrorHandler(func(c *gin.Context, err error) { add("HScopeErr") }),
			godigin.WithResolutionErrorHandler(func(c *gin.Context, err error) { add("HResolutionErr") })))
		req := httptest.NewRequest("GET", "/", nil).WithContext(context.WithValue(context.Background(), recKey{}, rec))
		e.ServeHTTP(httptest.NewRecorder(), req)
	case 3:
		e := echo.New()
		e.Use(func(next echo.HandlerFunc) echo.HandlerFunc {
			return func(c echo.Context) (err error) {
				defer func() {
					if v := recover(); v != nil {
						add("HPanicEscaped")
						err = c.NoContent(500)
					}
				}()
				return next(c)
			}
		})
		if h.Scope {
			e.Use(godiecho.ScopeMiddleware(p))
		}
		e.GET("/", godiecho.Handle(func(ctl *wController, c echo.Context) error {
			add("HMethod")
			if h.Panic {
				panic("method panics")
			}
			return nil
		}, godiecho.WithPanicRecovery(h.Recovery),
			godiecho.WithPanicHandler(func(c echo.Context, v any) error { add("HPanicHandler"); return nil }),
			godiecho.WithScopeErrorHandler(func(c echo.Context, err error) error { add("HScopeErr"); return nil }),
			godiecho.WithResolutionErrorHandler(func(c echo.Context, err error) error { add("HResolutionErr"); return nil })))
		req := httptest.NewRequest("GET", "/", nil).WithContext(context.WithValue(context.Background(), recKey{}, rec))
		e.ServeHTTP(httptest.NewRecorder(), req)
	default:
		app := fiber.New(fiber.Config{DisableStartupMessage: true})
		app.Use(func(c *fiber.Ctx) (err error) {
			defer func() {
				if v := recover(); v != nil {
					add("HPanicEscaped")
					err = c.SendStatus(500)
				}
			}()
			c.SetUserContext(context.WithValue(context.Background(), recKey{}, rec))
			return c.Next()
		})
		if h.Scope {
			app.Use(godifiber.ScopeMiddleware(p))
		}
		app.Get("/", godifiber.Handle(func(ctl *wController, c *fiber.Ctx) error {
			add("HMethod")
			if h.Panic {
				panic("method panics")
			}
			return nil
		}, godifiber.WithPanicRecovery(h.Recovery),
			godifiber.WithPanicHandler(func(c *fiber.Ctx, v any) error { add("HPanicHandler"); return nil }),
			godifiber.WithScopeErrorHandler(func(c *fiber.Ctx, err error) error { add("HScopeErr"); return nil }),
			godifiber.WithResolutionErrorHandler(func(c *fiber.Ctx, err error) error { add("HResolutionErr"); return nil })))
		resp, err := app.Test(httptest.NewRequest("GET", "/", nil), 5000)
		if err == nil {
			resp.Body.Close()
		}
		_ = app.Shutdown()
	}
	mu.Lock()
	defer mu.Unlock()
	return append([]string(nil), evs...)
}

// ---------------------------------------------------------------- generation, Gallina, command

func (c WCase) G() string {
	evs := func(l []string) string { return "[" + strings.Join(l, "; ") + "]" }
	switch c.Kind {
	case "request":
		s := c.W
		exit := []string{"XOk", fmt.Sprintf("(XMwErr %d)", s.FailAt), "XHandlerErr", "XHandlerPanic", "XCreateFail"}[s.Exit]
		var l []string
		for _, e := range c.Events {
			if strings.HasPrefix(e, "WMw ") {
				l = append(l, "("+e+")")
			} else {
				l = append(l, e)
			}
		}
		fn := "check_web"
		if s.DefaultErr {
			fn = "check_web_default"
		}
		return fmt.Sprintf("%s (mkScen %s %d %s %s, %s)", fn, integNames[s.Integ], s.NMw, exit, gBool(s.CloseFails), evs(l))
	case "handle":
		h := c.H
		ex := "HOk"
		if h.Panic {
			ex = "HPanic"
		}
		return fmt.Sprintf("check_handle (mkHScen %s %s %s %s %s, %s)", integNames[h.Integ], gBool(h.Scope), gBool(h.Registered), ex, gBool(h.Recovery), evs(c.Events))
	}
	return fmt.Sprintf("check_batch (%s, %s)", gInts(c.Scopes), gInts(c.Closes))
}

func genWebCases(seed int64, n int, thorough bool) []WCase {
	rnd := rand.New(rand.NewSource(seed*977 + 3))
	var cases []WCase
	// the scenario space is small: every integration x 0..3 middlewares x every exit x close failure
	maxMw := 3
	if thorough {
		maxMw = 5
	}
	for integ := 0; integ < 5; integ++ {
		for nmw := 0; nmw <= maxMw; nmw++ {
			for _, cf := range []bool{false, true} {
				for _, exit := range []int{0, 2, 3, 4} {
					cases = append(cases, WCase{Kind: "request", W: &WScen{Integ: integ, NMw: nmw, Exit: exit, CloseFails: cf}})
				}
				for f := 0; f < nmw; f++ {
					cases = append(cases, WCase{Kind: "request", W: &WScen{Integ: integ, NMw: nmw, Exit: 1, FailAt: f, CloseFails: cf}})
				}
				if nmw <= 2 {
					for _, exit := range []int{0, 3} {
						cases = append(cases, WCase{Kind: "request", W: &WScen{Integ: integ, NMw: nmw, Exit: exit, CloseFails: cf, Outer: true}})
					}
				}
				if nmw >= 1 && nmw <= 2 && !cf {
					// another scope middleware configured next to this one
					for _, exit := range []int{0, 2} {
						cases = append(cases, WCase{Kind: "request", W: &WScen{Integ: integ, NMw: nmw, Exit: exit, TwoStacks: true}})
					}
					cases = append(cases, WCase{Kind: "request", W: &WScen{Integ: integ, NMw: nmw, Exit: 1, FailAt: nmw - 1, TwoStacks: true}})
				}
				if nmw <= 2 && !cf {
					// the default error handler
					cases = append(cases, WCase{Kind: "request", W: &WScen{Integ: integ, NMw: nmw, Exit: 4, DefaultErr: true}},
						WCase{Kind: "request", W: &WScen{Integ: integ, NMw: nmw, Exit: 0, DefaultErr: true}})
					for f := 0; f < nmw; f++ {
						cases = append(cases, WCase{Kind: "request", W: &WScen{Integ: integ, NMw: nmw, Exit: 1, FailAt: f, DefaultErr: true}})
					}
				}
			}
		}
		for _, sc := range []bool{false, true} {
			for _, reg := range []bool{false, true} {
				for _, pn := range []bool{false, true} {
					for _, rc := range []bool{false, true} {
						cases = append(cases, WCase{Kind: "handle", H: &HScen{Integ: integ, Scope: sc, Registered: reg, Panic: pn, Recovery: rc}})
					}
				}
			}
		}
		for _, rc := range []bool{false, true} {
			cases = append(cases, WCase{Kind: "handle", H: &HScen{Integ: integ, Scope: true, Registered: false, Recovery: rc, NilCtl: true}})
		}
	}
	// concurrent batches and request sequences
	for i := 0; i < n; i++ {
		cases = append(cases, WCase{Kind: "batch", Batch: 2 + rnd.Intn(14), W: &WScen{Integ: rnd.Intn(5), NMw: rnd.Intn(3)}})
	}
	for i := range cases {
		cases[i].ID = i
	}
	return cases
}

func cmdWeb(args []string) {
	fs := flag.NewFlagSet("web", flag.ExitOnError)
	prop := fs.String("prop", "C16", "")
	seed := fs.Int64("seed", 1, "")
	n := fs.Int("n", 40, "")
	out := fs.String("out", "", "")
	thorough := fs.Bool("thorough", false, "")
	corpus := fs.String("corpus", "", "")
	cprobe := fs.Bool("cancelprobe", false, "")
	hprobe := fs.Bool("handleprobe", false, "")
	fs.Parse(args)
	_ = corpus
	slog.SetDefault(slog.New(slog.NewTextHandler(io.Discard, nil)))
	gin.DefaultWriter, gin.DefaultErrorWriter = io.Discard, io.Discard
	if *cprobe {
		b, _ := json.Marshal(cancelProbe())
		fmt.Println(string(b))
		return
	}
	if *hprobe {
		b, _ := json.Marshal(handleProbe())
		fmt.Println(string(b))
		return
	}
	os.MkdirAll(*out, 0o755)
	cases := genWebCases(*seed, *n, *thorough)
	for i := range cases {
		func() {
			defer func() {
				if v := recover(); v != nil {
					cases[i].Crash = "panic escaped the stack: " + firstLine(fmt.Sprint(v))
				}
			}()
			runWCase(&cases[i])
		}()
	}
	tag := *prop + "w"
	var b strings.Builder
	b.WriteString("From Coq Require Import NArith.\nFrom Godi Require Import Base Web.\n")
	for _, c := range cases {
		if c.Crash != "" {
			continue
		}
		fmt.Fprintf(&b, "Eval vm_compute in (%d%%N, %s).\n", c.ID, c.G())
	}
	os.WriteFile(fmt.Sprintf("%s/cases_%s_0.v", *out, tag), []byte(b.String()), 0o644)
	writeJSON(*out+"/cases.json", cases)
	sum := Summary{Prop: tag, Seed: *seed, Groups: len(cases), Cases: len(cases), Files: 1, Dist: map[string]int{}}
	seen := map[string]bool{}
	for _, c := range cases {
		if c.Crash != "" {
			sum.Crashed = append(sum.Crashed, c.ID)
		}
		sum.Dist["kind:"+c.Kind]++
		if c.W != nil {
			sum.Dist["integ:"+integNames[c.W.Integ]]++
			if c.Kind == "request" {
				sum.Dist[fmt.Sprintf("exit:%d", c.W.Exit)]++
			}
		}
		b, _ := json.Marshal([]any{c.Kind, c.W, c.H, c.Batch})
		if !seen[string(b)] {
			seen[string(b)] = true
			sum.Distinct++
			if len(c.Events) > 1 || len(c.Scopes) > 1 {
				sum.NonTriv++
			}
		}
	}
	writeJSON(*out+"/summary.json", sum)
}
