module verifharness

go 1.24.6

require (
	github.com/junioryono/godi/v4 v4.0.0
)

replace github.com/junioryono/godi/v4 => /repo
