module verifharness

go 1.24.6

require (
	github.com/gin-gonic/gin v1.10.0
	github.com/gofiber/fiber/v2 v2.52.6
	github.com/junioryono/godi/v4 v4.0.0
	github.com/junioryono/godi/v4/chi v0.0.0
	github.com/junioryono/godi/v4/echo v0.0.0
	github.com/junioryono/godi/v4/fiber v0.0.0
	github.com/junioryono/godi/v4/gin v0.0.0
	github.com/junioryono/godi/v4/http v0.0.0
	github.com/labstack/echo/v4 v4.13.3
)

require (
	github.com/andybalholm/brotli v1.1.0 // indirect
	github.com/gabriel-vasile/mimetype v1.4.3 // indirect
	github.com/gin-contrib/sse v0.1.0 // indirect
	github.com/go-playground/locales v0.14.1 // indirect
	github.com/go-playground/universal-translator v0.18.1 // indirect
	github.com/go-playground/validator/v10 v10.20.0 // indirect
	github.com/google/uuid v1.6.0 // indirect
	github.com/klauspost/compress v1.17.9 // indirect
	github.com/labstack/gommon v0.4.2 // indirect
	github.com/leodido/go-urn v1.4.0 // indirect
	github.com/mattn/go-colorable v0.1.13 // indirect
	github.com/mattn/go-isatty v0.0.20 // indirect
	github.com/mattn/go-runewidth v0.0.16 // indirect
	github.com/pelletier/go-toml/v2 v2.2.2 // indirect
	github.com/rivo/uniseg v0.2.0 // indirect
	github.com/ugorji/go/codec v1.2.12 // indirect
	github.com/valyala/bytebufferpool v1.0.0 // indirect
	github.com/valyala/fasthttp v1.51.0 // indirect
	github.com/valyala/fasttemplate v1.2.2 // indirect
	github.com/valyala/tcplisten v1.0.0 // indirect
	golang.org/x/crypto v0.31.0 // indirect
	golang.org/x/net v0.33.0 // indirect
	golang.org/x/sys v0.28.0 // indirect
	golang.org/x/text v0.21.0 // indirect
	google.golang.org/protobuf v1.34.1 // indirect
	gopkg.in/yaml.v3 v3.0.1 // indirect
)

replace github.com/junioryono/godi/v4 => /repo

replace github.com/junioryono/godi/v4/http => /repo/http

replace github.com/junioryono/godi/v4/chi => /repo/chi

replace github.com/junioryono/godi/v4/gin => /repo/gin

replace github.com/junioryono/godi/v4/echo => /repo/echo

replace github.com/junioryono/godi/v4/fiber => /repo/fiber
