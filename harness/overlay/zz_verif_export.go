//go:build verif

package godi

// Add-only observers and aliases for the verification harness in /verif.
// This file is never part of the repository: it is injected with
// `go build -tags verif -overlay` and only reads state (under the owning locks).

import (
	"github.com/junioryono/godi/v4/internal/graph"
	"github.com/junioryono/godi/v4/internal/reflection"
)

type (
	VerifGraph      = graph.DependencyGraph
	VerifNode       = graph.Node
	VerifNodeKey    = graph.NodeKey
	VerifDependency = reflection.Dependency
	VerifAnalyzer   = reflection.Analyzer
)

func VerifNewGraph() *VerifGraph       { return graph.NewDependencyGraph() }
func VerifNewAnalyzer() *VerifAnalyzer { return reflection.New() }

// VerifSingletonDisposables returns the provider's singleton disposables in creation order.
func VerifSingletonDisposables(p Provider) []Disposable {
	pp, ok := p.(*provider)
	if !ok {
		return nil
	}
	pp.disposablesMu.Lock()
	defer pp.disposablesMu.Unlock()
	out := make([]Disposable, len(pp.disposables))
	copy(out, pp.disposables)
	return out
}

// VerifScopeCount is the number of scopes the provider tracks (-1: table released).
func VerifScopeCount(p Provider) int {
	pp, ok := p.(*provider)
	if !ok {
		return -2
	}
	pp.scopesMu.Lock()
	defer pp.scopesMu.Unlock()
	if pp.scopes == nil {
		return -1
	}
	return len(pp.scopes)
}

func verifScope(s Scope) *scope {
	ss, _ := s.(*scope)
	return ss
}

// VerifChildCount is the number of child scopes a scope tracks (-1: table released).
func VerifChildCount(s Scope) int {
	ss := verifScope(s)
	if ss == nil {
		return -2
	}
	ss.childrenMu.Lock()
	defer ss.childrenMu.Unlock()
	if ss.children == nil {
		return -1
	}
	return len(ss.children)
}

// VerifCacheLen is the number of cached instances of a scope (-1: table released).
func VerifCacheLen(s Scope) int {
	ss := verifScope(s)
	if ss == nil {
		return -2
	}
	ss.instancesMu.RLock()
	defer ss.instancesMu.RUnlock()
	if ss.instances == nil {
		return -1
	}
	return len(ss.instances)
}

// VerifDisposableCount is the number of disposables a scope tracks.
func VerifDisposableCount(s Scope) int {
	ss := verifScope(s)
	if ss == nil {
		return -2
	}
	ss.disposablesMu.Lock()
	defer ss.disposablesMu.Unlock()
	return len(ss.disposables)
}

// VerifProviderDisposableCount is the number of singleton disposables the provider tracks.
func VerifProviderDisposableCount(p Provider) int {
	pp, ok := p.(*provider)
	if !ok {
		return -2
	}
	pp.disposablesMu.Lock()
	defer pp.disposablesMu.Unlock()
	return len(pp.disposables)
}

// VerifRootScope returns the provider's root scope (nil once released).
func VerifRootScope(p Provider) Scope {
	pp, ok := p.(*provider)
	if !ok || pp.rootScope == nil {
		return nil
	}
	return pp.rootScope
}
