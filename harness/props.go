package main

// Per-property case generators.

import "fmt"

func generate(prop string, seed int64, n int) []Group {
	g := newGen(seed*1000003 + int64(len(prop)))
	var groups []Group
	for i := 0; i < n; i++ {
		var gr Group
		switch prop {
		case "C20":
			gr = genC20(g, i)
		case "C04":
			gr = genC04(g, i)
		case "C01", "C02", "C03", "C05", "C07", "C08", "C10", "C11", "C12", "C13", "C15", "C18":
			gr = genContainer(g, prop, i)
		case "C17":
			gr = genC17(g, i)
		case "C06":
			gr = genC06(g, i)
		default:
			die("no generator for %s", prop)
		}
		groups = append(groups, gr)
	}
	return groups
}

// ---------------------------------------------------------------- C20

func (g *Gen) moduleTree(entries []Module, depth int) []Module {
	if len(entries) <= 1 || depth >= 3 {
		return entries
	}
	var out []Module
	i := 0
	for i < len(entries) {
		if g.p(0.12) {
			out = append(out, Module{Kind: "nil"})
		}
		k := 1 + g.n(len(entries)-i)
		if g.p(0.55) {
			out = append(out, Module{Kind: "module", Name: 1 + g.n(6), Mods: g.moduleTree(entries[i:i+k], depth+1)})
		} else {
			k = 1
			out = append(out, entries[i])
		}
		i += k
	}
	if g.p(0.1) {
		out = append(out, Module{Kind: "module", Name: 1 + g.n(6)}) // empty module
	}
	return out
}

func flattenModules(ms []Module) []Op {
	var ops []Op
	for _, m := range ms {
		switch m.Kind {
		case "add":
			ops = append(ops, Op{Kind: "add", Reg: m.Reg, Flat: true})
		case "remove":
			ops = append(ops, Op{Kind: "remove", Ty: m.Ty, Flat: true})
		case "removekeyed":
			ops = append(ops, Op{Kind: "removekeyed", Ty: m.Ty, Name: m.Name, Flat: true})
		case "module":
			ops = append(ops, flattenModules(m.Mods)...)
		}
	}
	return ops
}

func queryOps(regs []*Reg) []Op {
	ops := []Op{{Kind: "count"}, {Kind: "slice"}}
	seen := map[[2]int]bool{}
	for _, r := range regs {
		for _, id := range regOutputs(r) {
			if id.ty == tVoid || seen[[2]int{id.ty, id.name}] {
				continue
			}
			seen[[2]int{id.ty, id.name}] = true
			if id.name != 0 {
				ops = append(ops, Op{Kind: "containskeyed", Ty: id.ty, Name: id.name})
			} else {
				ops = append(ops, Op{Kind: "contains", Ty: id.ty})
			}
		}
	}
	return ops
}

func genC20(g *Gen, i int) Group {
	cfg := defaultCfg()
	cfg.NRegs = 3 + g.n(6)
	regs := g.RegSet(cfg)
	var entries []Module
	for _, r := range regs {
		entries = append(entries, Module{Kind: "add", Reg: r})
		if g.p(0.12) {
			// remove something registered so far (or not registered at all)
			id := regOutputs(regs[g.n(len(regs))])[0]
			if id.group == 0 && id.ty != tVoid {
				if id.name != 0 {
					entries = append(entries, Module{Kind: "removekeyed", Ty: id.ty, Name: id.name})
				} else {
					entries = append(entries, Module{Kind: "remove", Ty: id.ty})
				}
			}
		}
	}
	// a failing entry at a random position in about half of the cases
	if g.p(0.5) && len(regs) > 0 {
		pos := g.n(len(entries) + 1)
		var bad *Reg
		switch g.n(3) {
		case 0: // duplicate of an earlier registration's identity
			src := regs[g.n(len(regs))]
			cp := *src
			cp.ID = g.nextRid
			g.nextRid++
			bad = &cp
		case 1:
			bad = &Reg{ID: g.nextRid, Life: Singleton, Form: Form{Kind: "inst", Ty: g.n(8)}, Dyn: []int{0}, Name: 1, Group: 1}
			g.nextRid++
		default:
			bad = &Reg{ID: g.nextRid, Life: Transient, Form: Form{Kind: "inst", Ty: g.n(8)}, Dyn: []int{0}, Bad: 1 + g.n(2)}
			g.nextRid++
		}
		entries = append(entries[:pos:pos], append([]Module{{Kind: "add", Reg: bad}}, entries[pos:]...)...)
	}
	tree := g.moduleTree(entries, 0)
	tail := queryOps(regs)
	tail = append(tail, Op{Kind: "build"})
	h := defaultHist()
	h.NOps = 8
	tail = append(tail, g.History(regs, 0, h)...)
	tail = append(tail, Op{Kind: "closeprovider", P: 0})
	modCase := Case{Name: fmt.Sprintf("%d/modules", i), Ops: append([]Op{{Kind: "modules", Mods: tree}}, tail...)}
	flatCase := Case{Name: fmt.Sprintf("%d/flat", i), Ops: append(flattenModules(tree), tail...)}
	return Group{Kind: "twin", Cases: []Case{modCase, flatCase}}
}

// ---------------------------------------------------------------- C04

// fnKindFamily: several `func() *P0` constructors of one static kind (closures of one factory,
// method values of one method, instantiations of one generic function, top-level functions)
// registered under different names, next to ordinary synthesised registrations.
func genC04(g *Gen, i int) Group {
	var regs []*Reg
	if i%3 == 0 {
		kind := 1 + g.n(4)
		k := 2 + g.n(3)
		for j := 0; j < k; j++ {
			r := &Reg{ID: g.nextRid, Life: g.life([3]int{1, 1, 1}), Form: Form{Kind: "ctor", Rets: []int{0}}, Dyn: []int{0}, CFail: []bool{false}, Name: j + 1, FnKind: kind}
			if kind >= 3 {
				r.ID = (g.nextRid/4+1)*4 + j // distinct slots
			}
			g.nextRid = r.ID + 1
			regs = append(regs, r)
		}
		// a consumer taking all of them by name
		var ps []Param
		for j := 0; j < k; j++ {
			if regs[j].Life != Scoped {
				ps = append(ps, Param{Dep: Dep{Ty: 0, Name: j + 1}})
			}
		}
		regs = append(regs, &Reg{ID: g.nextRid, Life: Transient, Form: Form{Kind: "ctor", InObj: true, Params: ps, Rets: []int{1}}, Dyn: []int{1}, CFail: []bool{false}})
		g.nextRid++
	} else {
		cfg := defaultCfg()
		cfg.NRegs = 3 + g.n(7)
		regs = g.RegSet(cfg)
	}
	ops := addOps(regs)
	ops = append(ops, Op{Kind: "build"})
	h := defaultHist()
	h.NOps = 10 + g.n(10)
	h.PClose = 0.05
	ops = append(ops, g.History(regs, 0, h)...)
	// resolve every registered identity once more from a fresh scope, and a few unregistered ones
	ops = append(ops, Op{Kind: "createscope", P: 0, Parent: 0})
	fresh := 1
	for _, o := range ops {
		if o.Kind == "createscope" {
			fresh++
		}
	}
	fresh--
	for _, r := range regs {
		for _, id := range regOutputs(r) {
			if id.ty == tVoid {
				continue
			}
			if id.group != 0 {
				ops = append(ops, Op{Kind: "resolvegroup", P: 0, H: fresh, Ty: id.ty, Group: id.group})
			} else {
				ops = append(ops, Op{Kind: "resolve", P: 0, H: fresh, Ty: id.ty, Name: id.name})
			}
		}
	}
	for j := 0; j < 3; j++ {
		ops = append(ops, Op{Kind: "resolve", P: 0, H: fresh, Ty: g.n(20), Name: g.n(4)})
	}
	return Group{Cases: []Case{{Name: fmt.Sprintf("%d", i), Ops: ops}}}
}

// ---------------------------------------------------------------- the container properties

// genContainer: a registration set, Build, a history over scope trees, tuned per property.
func genContainer(g *Gen, prop string, i int) Group {
	cfg := defaultCfg()
	h := defaultHist()
	cfg.NRegs = 3 + g.n(8)
	h.NOps = 10 + g.n(14)
	finalClose := g.p(0.5)
	switch prop {
	case "C01":
		cfg.LifeWeights = [3]int{6, 2, 2}
		cfg.PMulti, cfg.PResult, cfg.PAs = 0.15, 0.15, 0.25
		h.MaxScopes = 6
	case "C02":
		cfg.LifeWeights = [3]int{2, 6, 2}
		cfg.PVoid = 0.15
		cfg.PFault = 0.12
		h.MaxScopes = 6
		h.NOps = 16 + g.n(14)
	case "C03":
		cfg.LifeWeights = [3]int{2, 2, 6}
		cfg.MaxDeps = 4
	case "C05":
		cfg.PCycle = 0.55
		cfg.PGroup = 0.3
		h.NOps = 6
	case "C07":
		cfg.PConflict = 0.5
		cfg.PGroup = 0.3
		cfg.PAs = 0.25
		h.NOps = 12
	case "C08":
		cfg.PMissing = 0.4
		cfg.POptional = 0.2
		cfg.PVoid = 0.2
		cfg.PGroup = 0.3
		h.NOps = 8
	case "C10":
		cfg.PDisposable = 0.85
		cfg.PFault = 0.12
		cfg.EagerFaults = g.p(0.4)
		cfg.PMulti, cfg.PResult = 0.15, 0.15
		cfg.PVoid = 0.12
		h.PClose = 0.2
		finalClose = true
	case "C11":
		cfg.PDisposable = 0.9
		cfg.MaxDeps = 4
		cfg.NRegs = 5 + g.n(7)
		h.PClose = 0.15
		h.MaxScopes = 7
		finalClose = true
	case "C12":
		cfg.PDisposable = 0.9
		cfg.PCloseFail = 0.35
		h.PClose = 0.3
		h.PCloseProv = 0.08
		finalClose = true
	case "C13":
		h.PClose = 0.25
		h.PCloseProv = 0.08
		h.PCtx = 0.5
		h.PCancel = 0.1
		h.PCtxQueries = 0.08
		h.MaxScopes = 7
		h.NOps = 18 + g.n(14)
	case "C15":
		cfg.PFault = 0.3
		cfg.EagerFaults = g.p(0.5)
		cfg.PCycle, cfg.PConflict, cfg.PMissing = 0.08, 0.08, 0.08
		h.PUnknown = 0.2
		h.PClose = 0.15
	case "C18":
		cfg.PBuiltin = 0.45
		cfg.PVoid = 0.12
		h.PCtx = 0.6
		h.PCtxQueries = 0.25
		h.PCancel = 0.05
		h.MaxScopes = 6
	}
	regs := g.RegSet(cfg)
	ops := addOps(regs)
	if prop == "C15" {
		// the malformed stream: invalid registrations and nil arguments
		for k := 0; k < 2; k++ {
			if g.p(0.5) {
				bad := &Reg{ID: g.nextRid, Life: g.life([3]int{1, 1, 1}), Form: Form{Kind: "inst", Ty: g.n(8)}, Dyn: []int{0}}
				g.nextRid++
				switch g.n(6) {
				case 0:
					bad.Bad = 1
				case 1:
					bad.Bad = 2
				case 2:
					bad.Bad = 3
				case 3:
					bad.Bad = 5
				case 4:
					bad.Name, bad.Group = 1, 1
				default:
					bad.As = []int{20}
				}
				pos := g.n(len(ops) + 1)
				ops = append(ops[:pos:pos], append([]Op{{Kind: "add", Reg: bad}}, ops[pos:]...)...)
			}
		}
	}
	if prop == "C18" && g.p(0.5) {
		// reserved types cannot be registered, in any form
		var bad *Reg
		switch g.n(3) {
		case 0:
			bad = &Reg{ID: g.nextRid, Life: Singleton, Form: Form{Kind: "ctor", Rets: []int{0}}, Dyn: []int{0}, As: []int{16}}
		case 1:
			bad = &Reg{ID: g.nextRid, Life: Singleton, Form: Form{Kind: "ctor", Rets: []int{1, tCtx + g.n(3)}}, Dyn: []int{1, 0}}
		default:
			bad = &Reg{ID: g.nextRid, Life: Scoped, Form: Form{Kind: "result", Fields: []Field{{Ty: 2}, {Ty: tCtx + g.n(3), Name: g.n(2)}}}, Dyn: []int{2, 0}}
		}
		g.nextRid++
		ops = append(ops, Op{Kind: "add", Reg: bad}, Op{Kind: "contains", Ty: tCtx}, Op{Kind: "contains", Ty: tScope}, Op{Kind: "containskeyed", Ty: tCtx, Name: 1}, Op{Kind: "slice"}, Op{Kind: "count"})
	}
	ops = append(ops, Op{Kind: "build"})
	hist := g.History(regs, 0, h)
	if prop == "C15" {
		for k := range hist {
			if (hist[k].Kind == "resolve" || hist[k].Kind == "resolvegroup") && g.p(0.05) {
				hist[k].Ty = tNil
			}
			if hist[k].Kind == "resolvegroup" && g.p(0.05) {
				hist[k].Group = 0
			}
		}
	}
	ops = append(ops, hist...)
	if prop == "C12" || prop == "C13" {
		// close things again, use things after close
		n := 0
		for _, o := range ops {
			if o.Kind == "createscope" {
				n++
			}
		}
		for k := 0; k < 4 && n > 0; k++ {
			hh := 1 + g.n(n)
			ops = append(ops, Op{Kind: "close", P: 0, H: hh}, Op{Kind: "close", P: 0, H: hh})
		}
	}
	if finalClose {
		ops = append(ops, Op{Kind: "closeprovider", P: 0})
		if prop == "C12" || prop == "C13" {
			ops = append(ops, Op{Kind: "closeprovider", P: 0})
			ops = append(ops, g.History(regs, 0, HistCfg{NOps: 4, MaxScopes: 0})...)
			ops = append(ops, Op{Kind: "createscope", P: 0, Parent: 0})
		}
	}
	return Group{Cases: []Case{{Name: fmt.Sprintf("%d", i), Ops: ops}}}
}

// ---------------------------------------------------------------- C17

func genC17(g *Gen, i int) Group {
	cfg := defaultCfg()
	cfg.NRegs = 4 + g.n(7)
	cfg.PMulti, cfg.PResult, cfg.PAs = 0.15, 0.15, 0.2
	regs := g.RegSet(cfg)
	q := func() []Op {
		out := []Op{{Kind: "count"}}
		if g.p(0.5) {
			out = append(out, Op{Kind: "slice"})
		}
		r := regs[g.n(len(regs))]
		id := regOutputs(r)[0]
		if id.ty != tVoid {
			if id.name != 0 {
				out = append(out, Op{Kind: "containskeyed", Ty: id.ty, Name: id.name})
			} else {
				out = append(out, Op{Kind: "contains", Ty: id.ty})
			}
		}
		return out
	}
	var ops []Op
	nprov := 0
	var builtWith [][]*Reg
	var soFar []*Reg
	for _, r := range regs {
		ops = append(ops, Op{Kind: "add", Reg: r})
		soFar = append(soFar, r)
		ops = append(ops, q()...)
		x := g.rnd.Float64()
		switch {
		case x < 0.15:
			// a colliding registration: same identities, new constructor (possibly multi-output)
			src := regs[g.n(len(regs))]
			cp := *src
			cp.ID = g.nextRid
			g.nextRid++
			ops = append(ops, Op{Kind: "add", Reg: &cp})
			ops = append(ops, q()...)
		case x < 0.25:
			// a multi-output registration whose second output collides with an existing plain one
			var taken []ident
			for _, s := range soFar {
				for _, id := range regOutputs(s) {
					if id.group == 0 && id.name == 0 && id.ty < 20 {
						taken = append(taken, id)
					}
				}
			}
			if len(taken) > 0 {
				t := taken[g.n(len(taken))]
				fresh := 0
				for used := true; used; {
					used = false
					for _, id := range taken {
						if id.ty == fresh {
							used = true
							fresh++
						}
					}
				}
				if fresh < 16 {
					d := t.ty
					if d >= 16 {
						d = 0
					}
					var bad *Reg
					switch g.n(3) {
					case 0:
						bad = &Reg{ID: g.nextRid, Life: g.life([3]int{1, 1, 1}), Form: Form{Kind: "ctor", Rets: []int{fresh, t.ty}}, Dyn: []int{fresh, d}}
					case 1:
						bad = &Reg{ID: g.nextRid, Life: g.life([3]int{1, 1, 1}), Form: Form{Kind: "result", Fields: []Field{{Ty: fresh}, {Ty: t.ty}}}, Dyn: []int{fresh, d}}
					default:
						if t.ty >= 16 && t.ty < 20 {
							other := 16 + (t.ty-16+1)%4
							bad = &Reg{ID: g.nextRid, Life: g.life([3]int{1, 1, 1}), Form: Form{Kind: "ctor", Rets: []int{fresh}}, Dyn: []int{fresh}, As: []int{other, t.ty}}
							for _, id := range taken {
								if id.ty == other {
									bad = nil
								}
							}
						}
					}
					if bad != nil {
						g.nextRid++
						ops = append(ops, Op{Kind: "add", Reg: bad})
						ops = append(ops, q()...)
						ops = append(ops, Op{Kind: "contains", Ty: fresh})
					}
				}
			}
		case x < 0.4:
			// remove a single-identity registration (or something that is not there)
			s := regs[g.n(len(regs))]
			outs := regOutputs(s)
			if len(outs) == 1 && outs[0].group == 0 && outs[0].ty != tVoid {
				if outs[0].name != 0 {
					ops = append(ops, Op{Kind: "removekeyed", Ty: outs[0].ty, Name: outs[0].name})
				} else {
					ops = append(ops, Op{Kind: "remove", Ty: outs[0].ty})
				}
				ops = append(ops, q()...)
				if outs[0].name != 0 {
					ops = append(ops, Op{Kind: "containskeyed", Ty: outs[0].ty, Name: outs[0].name})
				} else {
					ops = append(ops, Op{Kind: "contains", Ty: outs[0].ty})
				}
			}
		case x < 0.55 && nprov < 3:
			ops = append(ops, Op{Kind: "build"})
			builtWith = append(builtWith, append([]*Reg(nil), soFar...))
			nprov++
		case x < 0.6:
			bad := &Reg{ID: g.nextRid, Life: Singleton, Form: Form{Kind: "inst", Ty: g.n(8)}, Dyn: []int{0}, Name: 1, Group: 1}
			g.nextRid++
			ops = append(ops, Op{Kind: "add", Reg: bad})
			ops = append(ops, q()...)
		}
		// old providers keep answering from their snapshot
		if nprov > 0 && g.p(0.5) {
			pi := g.n(nprov)
			hs := HistCfg{NOps: 2, MaxScopes: 0}
			ops = append(ops, g.History(regs, pi, hs)...)
		}
	}
	ops = append(ops, Op{Kind: "build"})
	nprov++
	for pi := 0; pi < nprov; pi++ {
		hs := HistCfg{NOps: 5, MaxScopes: 1}
		ops = append(ops, g.History(regs, pi, hs)...)
	}
	return Group{Cases: []Case{{Name: fmt.Sprintf("%d", i), Ops: ops}}}
}

// ---------------------------------------------------------------- C06

// genC06: one registration set, built several times in the same order (every Build sees another
// map iteration order) and in permuted registration orders that keep the order inside each group.
func genC06(g *Gen, i int) Group {
	cfg := defaultCfg()
	cfg.NRegs = 4 + g.n(7)
	cfg.PGroup = 0.35
	cfg.PAs = 0.2
	cfg.LifeWeights = [3]int{6, 2, 2}
	cfg.PCycle, cfg.PConflict, cfg.PMissing = 0.1, 0.1, 0.1
	regs := g.RegSet(cfg)
	// the same history for every variant
	var tail []Op
	tail = append(tail, Op{Kind: "build"}, Op{Kind: "createscope", P: 0, Parent: 0})
	for _, r := range regs {
		for _, id := range regOutputs(r) {
			if id.ty == tVoid {
				continue
			}
			for _, h := range []int{0, 1} {
				if id.group != 0 {
					tail = append(tail, Op{Kind: "resolvegroup", P: 0, H: h, Ty: id.ty, Group: id.group})
				} else {
					tail = append(tail, Op{Kind: "resolve", P: 0, H: h, Ty: id.ty, Name: id.name})
				}
			}
		}
	}
	tail = append(tail, Op{Kind: "closeprovider", P: 0})
	groupOf := func(r *Reg) (ident, bool) {
		ids := regOutputs(r)
		if len(ids) > 0 && ids[0].group != 0 {
			return ident{ids[0].ty, 0, ids[0].group}, true
		}
		return ident{}, false
	}
	permute := func() []*Reg {
		perm := g.rnd.Perm(len(regs))
		out := make([]*Reg, len(regs))
		for k, j := range perm {
			out[k] = regs[j]
		}
		// restore the original relative order inside each group
		pos := map[ident][]int{}
		for k, r := range out {
			if gk, ok := groupOf(r); ok {
				pos[gk] = append(pos[gk], k)
			}
		}
		for gk, ps := range pos {
			var members []*Reg
			for _, r := range regs {
				if k2, ok := groupOf(r); ok && k2 == gk {
					members = append(members, r)
				}
			}
			for k, p := range ps {
				out[p] = members[k]
			}
		}
		return out
	}
	var cases []Case
	for v := 0; v < 6; v++ {
		order := regs
		if v >= 3 {
			order = permute()
		}
		ops := append(addOps(order), tail...)
		cp := make([]Op, len(ops))
		copy(cp, ops)
		cases = append(cases, Case{Name: fmt.Sprintf("%d/variant%d", i, v), Ops: cp})
	}
	return Group{Kind: "variants", Cases: cases}
}

func cmdWeb(args []string)   { die("web: not built yet") }
func cmdConc(args []string)  { die("conc: not built yet") }
