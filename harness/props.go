package main

// Per-property case generators.

import (
	"fmt"
	"sort"
)

func generate(prop string, seed int64, n int) []Group {
	g := newGen(seed*1000003 + int64(len(prop)))
	var groups []Group
	for i := 0; i < n; i++ {
		var gr Group
		// registration ids need to be distinct within a group only; small ids keep the unary numbers the model
		// computes with small (ids in the tens of thousands made the thorough tier thirty times slower per case)
		g.nextRid = 1
		switch prop {
		case "C20":
			gr = genC20(g, i)
		case "C04":
			gr = genC04(g, i)
		case "C01", "C02", "C03", "C05", "C07", "C08", "C10", "C11", "C12", "C13", "C14", "C15", "C18":
			gr = genContainer(g, prop, i)
		case "C17":
			gr = genC17(g, i)
		case "C06":
			gr = genC06(g, i)
		default:
			die("no generator for %s", prop)
		}
		groups = append(groups, gr)
	}
	return groups
}

// ---------------------------------------------------------------- C20

func (g *Gen) moduleTree(entries []Module, depth int) []Module {
	if len(entries) <= 1 || depth >= 3 {
		return entries
	}
	var out []Module
	i := 0
	for i < len(entries) {
		if g.p(0.12) {
			out = append(out, Module{Kind: "nil"})
		}
		k := 1 + g.n(len(entries)-i)
		if g.p(0.55) {
			out = append(out, Module{Kind: "module", Name: 1 + g.n(6), Mods: g.moduleTree(entries[i:i+k], depth+1)})
		} else {
			k = 1
			out = append(out, entries[i])
		}
		i += k
	}
	if g.p(0.1) {
		out = append(out, Module{Kind: "module", Name: 1 + g.n(6)}) // empty module
	}
	return out
}

func flattenModules(ms []Module) []Op {
	var ops []Op
	for _, m := range ms {
		switch m.Kind {
		case "add":
			ops = append(ops, Op{Kind: "add", Reg: m.Reg, Flat: true})
		case "remove":
			ops = append(ops, Op{Kind: "remove", Ty: m.Ty, Flat: true})
		case "removekeyed":
			ops = append(ops, Op{Kind: "removekeyed", Ty: m.Ty, Name: m.Name, Flat: true})
		case "module":
			ops = append(ops, flattenModules(m.Mods)...)
		}
	}
	return ops
}

func queryOps(regs []*Reg) []Op {
	ops := []Op{{Kind: "count"}, {Kind: "slice"}}
	seen := map[[2]int]bool{}
	for _, r := range regs {
		for _, id := range regOutputs(r) {
			if id.ty == tVoid || seen[[2]int{id.ty, id.name}] {
				continue
			}
			seen[[2]int{id.ty, id.name}] = true
			if id.name != 0 {
				ops = append(ops, Op{Kind: "containskeyed", Ty: id.ty, Name: id.name})
			} else {
				ops = append(ops, Op{Kind: "contains", Ty: id.ty})
			}
		}
	}
	return ops
}

func genC20(g *Gen, i int) Group {
	cfg := defaultCfg()
	cfg.NRegs = 3 + g.n(6)
	regs := g.RegSet(cfg)
	var entries []Module
	for _, r := range regs {
		entries = append(entries, Module{Kind: "add", Reg: r})
		if g.p(0.12) {
			// remove something registered so far (or not registered at all)
			outs := regOutputs(regs[g.n(len(regs))])
			id := outs[0]
			// (removing one identity of a multi-return / result-object registration is outside the property: DESIGN section 7)
			if len(outs) == 1 && id.group == 0 && id.ty != tVoid {
				if id.name != 0 {
					entries = append(entries, Module{Kind: "removekeyed", Ty: id.ty, Name: id.name})
				} else {
					entries = append(entries, Module{Kind: "remove", Ty: id.ty})
				}
			}
		}
	}
	// a failing entry at a random position in about half of the cases
	if g.p(0.5) && len(regs) > 0 {
		pos := g.n(len(entries) + 1)
		var bad *Reg
		switch g.n(4) {
		case 3: // faulty twice: no constructor AND options that exclude each other - the same error as the direct call's
			bad = &Reg{ID: g.nextRid, Life: g.life([3]int{1, 1, 1}), Form: Form{Kind: "inst", Ty: g.n(8)}, Dyn: []int{0}, Bad: 1 + g.n(2), Name: 1, Group: 1}
			g.nextRid++
		case 0: // duplicate of an earlier registration's identity
			src := regs[g.n(len(regs))]
			cp := *src
			cp.ID = g.nextRid
			g.nextRid++
			bad = &cp
		case 1:
			bad = &Reg{ID: g.nextRid, Life: Singleton, Form: Form{Kind: "inst", Ty: g.n(8)}, Dyn: []int{0}, Name: 1, Group: 1}
			g.nextRid++
		default:
			bad = &Reg{ID: g.nextRid, Life: Transient, Form: Form{Kind: "inst", Ty: g.n(8)}, Dyn: []int{0}, Bad: 1 + g.n(2)}
			g.nextRid++
		}
		entries = append(entries[:pos:pos], append([]Module{{Kind: "add", Reg: bad}}, entries[pos:]...)...)
	}
	// one type registered plainly and under a name, then a module entry removing the type: Remove concerns the
	// unkeyed registration only, inside a module as in a direct call
	var extraTail []Op
	if i%4 == 1 {
		t := 0
		used := map[int]bool{}
		for _, r := range regs {
			for _, id := range regOutputs(r) {
				used[id.ty] = true
			}
		}
		for used[t] && t < 8 {
			t++
		}
		if t < 8 {
			nm := 1 + g.n(3)
			plain := &Reg{ID: g.nextRid, Life: g.life([3]int{1, 1, 1}), Form: Form{Kind: "ctor", Rets: []int{t}}, Dyn: []int{t}, CFail: []bool{false}}
			g.nextRid++
			named := &Reg{ID: g.nextRid, Life: g.life([3]int{1, 1, 1}), Form: Form{Kind: "ctor", Rets: []int{t}}, Dyn: []int{t}, CFail: []bool{false}, Name: nm}
			g.nextRid++
			regs = append(regs, named)
			entries = append([]Module{{Kind: "add", Reg: plain}, {Kind: "add", Reg: named}, {Kind: "remove", Ty: t}}, entries...)
			extraTail = []Op{{Kind: "count"}, {Kind: "contains", Ty: t}, {Kind: "containskeyed", Ty: t, Name: nm}}
		}
	}
	tree := g.moduleTree(entries, 0)
	if i%8 == 6 {
		// two modules defined from one and the same list of entries (a nil entry first): group members, so
		// that applying the list twice is legal and accumulates
		grp := 1 + g.n(2)
		var shared []Module
		shared = append(shared, Module{Kind: "nil"})
		for k := 0; k < 2+g.n(2); k++ {
			r := &Reg{ID: g.nextRid, Life: g.life([3]int{0, 1, 1}), Form: Form{Kind: "ctor", Rets: []int{g.n(8)}}, Dyn: []int{0}, CFail: []bool{false}, Group: grp}
			r.Dyn[0] = r.Form.Rets[0]
			g.nextRid++
			regs = append(regs, r)
			shared = append(shared, Module{Kind: "add", Reg: r})
			if g.p(0.3) {
				shared = append(shared, Module{Kind: "nil"})
			}
		}
		sid := 1 + i
		n1, n2 := 1+g.n(6), 1+g.n(6)
		if g.p(0.5) {
			n2 = n1 // the same module value listed twice
		}
		tree = append(tree, Module{Kind: "module", Name: n1, Mods: shared, Shared: sid}, Module{Kind: "module", Name: n2, Mods: shared, Shared: sid})
	}
	tail := append(extraTail, queryOps(regs)...)
	if g.p(0.3) {
		// AddModules with a nil as its only entry, and with no entry at all: nothing happens
		tail = append(tail, Op{Kind: "modules", Mods: []Module{{Kind: "nil"}}}, Op{Kind: "count"})
		if g.p(0.5) {
			tail = append(tail, Op{Kind: "modules"})
		}
	}
	tail = append(tail, Op{Kind: "build"})
	h := defaultHist()
	h.NOps = 8
	tail = append(tail, g.History(regs, 0, h)...)
	tail = append(tail, Op{Kind: "closeprovider", P: 0})
	modCase := Case{Name: fmt.Sprintf("%d/modules", i), Ops: append([]Op{{Kind: "modules", Mods: tree}}, tail...)}
	flatCase := Case{Name: fmt.Sprintf("%d/flat", i), Ops: append(flattenModules(tree), tail...)}
	return Group{Kind: "twin", Cases: []Case{modCase, flatCase}}
}

// ---------------------------------------------------------------- C04

// fnKindFamily: several `func() *P0` constructors of one static kind (closures of one factory,
// method values of one method, instantiations of one generic function, top-level functions)
// registered under different names, next to ordinary synthesised registrations.
func genC04(g *Gen, i int) Group {
	if i%13 == 7 {
		return g.embeddedCase(i)
	}
	if i%5 == 4 {
		if i%10 == 9 && i%4 == 1 {
			return g.aliasAfterBuildCase(i)
		}
		if i%10 == 9 {
			// a result object refused after it had entered two members of one group: nothing of it may stay behind
			g.forceBlock = true
			gr := g.multiOutCase(i)
			g.forceBlock = false
			return gr
		}
		return g.multiOutCase(i)
	}
	var regs []*Reg
	if i%3 == 0 {
		kind := 1 + g.n(4)
		k := 2 + g.n(3)
		for j := 0; j < k; j++ {
			r := &Reg{ID: g.nextRid, Life: g.life([3]int{1, 1, 1}), Form: Form{Kind: "ctor", Rets: []int{0}}, Dyn: []int{0}, CFail: []bool{false}, Name: j + 1, FnKind: kind}
			if kind >= 3 {
				r.ID = (g.nextRid/4+1)*4 + j // distinct slots
			}
			g.nextRid = r.ID + 1
			regs = append(regs, r)
		}
		// a consumer taking all of them by name
		var ps []Param
		for j := 0; j < k; j++ {
			if regs[j].Life != Scoped {
				ps = append(ps, Param{Dep: Dep{Ty: 0, Name: j + 1}})
			}
		}
		regs = append(regs, &Reg{ID: g.nextRid, Life: Transient, Form: Form{Kind: "ctor", InObj: true, Params: ps, Rets: []int{1}}, Dyn: []int{1}, CFail: []bool{false}})
		g.nextRid++
	} else if i%3 == 1 && i%2 == 0 {
		regs = g.aliasGroupFamily(g.life([3]int{1, 1, 1}))
	} else {
		cfg := defaultCfg()
		cfg.NRegs = 3 + g.n(7)
		regs = g.RegSet(cfg)
	}
	ops := addOps(regs)
	ops = append(ops, Op{Kind: "build"})
	h := defaultHist()
	h.NOps = 10 + g.n(10)
	h.PClose = 0.05
	ops = append(ops, g.History(regs, 0, h)...)
	// resolve every registered identity once more from a fresh scope, and a few unregistered ones
	ops = append(ops, Op{Kind: "createscope", P: 0, Parent: 0})
	fresh := 1
	for _, o := range ops {
		if o.Kind == "createscope" {
			fresh++
		}
	}
	fresh--
	for _, r := range regs {
		for _, id := range regOutputs(r) {
			if id.ty == tVoid {
				continue
			}
			if id.group != 0 {
				ops = append(ops, Op{Kind: "resolvegroup", P: 0, H: fresh, Ty: id.ty, Group: id.group})
			} else {
				ops = append(ops, Op{Kind: "resolve", P: 0, H: fresh, Ty: id.ty, Name: id.name})
			}
		}
	}
	for j := 0; j < 3; j++ {
		ops = append(ops, Op{Kind: "resolve", P: 0, H: fresh, Ty: g.n(20), Name: g.n(4)})
	}
	return Group{Cases: []Case{{Name: fmt.Sprintf("%d", i), Ops: ops}}}
}

// ---------------------------------------------------------------- the container properties

// genContainer: a registration set, Build, a history over scope trees, tuned per property.
func genContainer(g *Gen, prop string, i int) Group {
	cfg := defaultCfg()
	h := defaultHist()
	cfg.NRegs = 3 + g.n(8)
	h.NOps = 10 + g.n(14)
	finalClose := g.p(0.5)
	switch prop {
	case "C01":
		cfg.LifeWeights = [3]int{6, 2, 2}
		cfg.PMulti, cfg.PResult, cfg.PAs = 0.15, 0.15, 0.25
		h.MaxScopes = 6
	case "C02":
		cfg.LifeWeights = [3]int{2, 6, 2}
		cfg.PVoid = 0.15
		cfg.PFault = 0.12
		h.MaxScopes = 6
		h.NOps = 16 + g.n(14)
	case "C03":
		cfg.LifeWeights = [3]int{2, 2, 6}
		cfg.MaxDeps = 4
		cfg.PFault = 0.08 // (an optional field whose transient fails this time keeps its zero value, not last time's instance)
	case "C05":
		cfg.PCycle = 0.55
		cfg.PGroup = 0.3
		cfg.POptional = 0.05
		h.NOps = 6
	case "C07":
		cfg.PConflict = 0.5
		cfg.PGroup = 0.3
		cfg.PAs = 0.25
		h.NOps = 12
	case "C08":
		cfg.PMissing = 0.4
		cfg.POptional = 0.2
		cfg.PVoid = 0.2
		cfg.PGroup = 0.3
		h.NOps = 8
	case "C10":
		cfg.PDisposable = 0.85
		cfg.PFault = 0.12
		cfg.EagerFaults = g.p(0.4)
		cfg.PBuildCancel = 0.25
		cfg.LifeWeights = [3]int{5, 3, 3}
		cfg.PMulti, cfg.PResult = 0.15, 0.15
		cfg.PVoid = 0.12
		h.PClose = 0.2
		finalClose = true
	case "C11":
		cfg.PDisposable = 0.9
		cfg.PConflict = 0.08 // a set that would let a singleton outlive a scoped dependency must still be refused
		cfg.MaxDeps = 4
		cfg.NRegs = 5 + g.n(7)
		h.PClose = 0.15
		h.MaxScopes = 7
		finalClose = true
	case "C12":
		cfg.PDisposable = 0.95
		cfg.PCloseFail = 0.5
		cfg.LifeWeights = [3]int{2, 4, 4}
		h.NOps = 16 + g.n(10)
		h.PClose = 0.3
		h.PCloseProv = 0.08
		finalClose = true
	case "C13":
		h.PClose = 0.25
		h.PCloseProv = 0.08
		h.PCtx = 0.5
		h.PCancel = 0.1
		h.PCtxQueries = 0.08
		h.MaxScopes = 7
		h.NOps = 18 + g.n(14)
	case "C14":
		// scopes created, used and closed again and again; initializers that fail at every position
		cfg.PVoid = 0.25
		cfg.PFault = 0.15
		cfg.PDisposable = 0.7
		h.PClose = 0.3
		h.PCtx = 0.3
		h.PCancel = 0.08
		h.PCtxQueries = 0.08
		h.MaxScopes = 10
		h.NOps = 24 + g.n(20)
		finalClose = g.p(0.7)
	case "C15":
		cfg.PFault = 0.3
		cfg.PBuildCancel = 0.15
		cfg.EagerFaults = g.p(0.5)
		cfg.PCycle, cfg.PConflict, cfg.PMissing = 0.08, 0.08, 0.08
		h.PUnknown = 0.2
		h.PClose = 0.15
	case "C18":
		cfg.PBuiltin = 0.45
		cfg.PVoid = 0.12
		h.PCtx = 0.6
		h.PCtxQueries = 0.25
		h.PCancel = 0.05
		h.MaxScopes = 6
	}
	regs := g.RegSet(cfg)
	if (prop == "C07" || prop == "C03" || prop == "C06" || prop == "C01") && i%12 == 10 {
		return g.rebuildAfterChangeCase(i, prop)
	}
	if prop == "C02" && i%13 == 8 {
		return g.sameTypeTwiceCase(i)
	}
	if prop == "C08" && i%12 == 5 {
		return g.keyedBuiltinCase(i)
	}
	if prop == "C14" && i%8 == 5 {
		return g.initFailsWithForeignDisposedCase(i)
	}
	if prop == "C05" && i%20 == 13 {
		// a result object refused after it had entered two members of one group: nothing of it may stay behind (a member
		// left in its group has no node in the dependency graph, so the cycle check would not see what it depends on)
		g.forceBlock = true
		gr := g.multiOutCase(i)
		g.forceBlock = false
		return gr
	}
	if (prop == "C07" && i%7 == 5) || (prop == "C02" && i%13 == 5) {
		return g.mixedGroupCase(i)
	}
	if (prop == "C01" || prop == "C06" || prop == "C08") && i%9 == 7 {
		return g.optionalLateCase(i)
	}
	if i%4 == 1 {
		// registration order is the caller's business: consumers before what they consume, too
		g.rnd.Shuffle(len(regs), func(a, b int) { regs[a], regs[b] = regs[b], regs[a] })
	}
	if prop == "C18" && i%9 == 4 {
		return g.embeddedBuiltinCase(i)
	}
	if prop == "C07" && i%7 == 3 {
		return g.aliasRemovalCase(i)
	}
	if (prop == "C11" || prop == "C10" || prop == "C13" || prop == "C12") && i%6 == 2 {
		return g.shutdownCase(i)
	}
	if (prop == "C03" || prop == "C08" || prop == "C05" || prop == "C01" || prop == "C02") && i%11 == 4 {
		return g.dupDepCase(i)
	}
	if (prop == "C02" || prop == "C05" || prop == "C07" || prop == "C08" || prop == "C03") && i%11 == 9 {
		return g.embeddedCase(i)
	}
	if (prop == "C10" || prop == "C14" || prop == "C12" || prop == "C15" || prop == "C11" || prop == "C18") && i%8 == 3 {
		return g.multiOutCase(i)
	}
	if (prop == "C01" || prop == "C02" || prop == "C03" || prop == "C10" || prop == "C07") && i%8 == 6 {
		if i%16 == 14 {
			return g.aliasAfterBuildCase(i)
		}
		return g.multiOutCase(i)
	}
	if (prop == "C01" || prop == "C02" || prop == "C03" || prop == "C10") && i%6 == 5 {
		life := map[string]int{"C01": Singleton, "C02": Scoped, "C03": Transient, "C10": g.life([3]int{1, 1, 1})}[prop]
		regs = g.aliasGroupFamily(life)
	}
	ops := addOps(regs)
	if prop == "C15" {
		// the malformed stream: invalid registrations and nil arguments
		for k := 0; k < 2; k++ {
			if g.p(0.5) {
				bad := &Reg{ID: g.nextRid, Life: g.life([3]int{1, 1, 1}), Form: Form{Kind: "inst", Ty: g.n(8)}, Dyn: []int{0}}
				g.nextRid++
				switch g.n(8) {
				case 6, 7:
					// a second registration of an identity that is taken (plain or keyed)
					if len(regs) > 0 {
						cp := *regs[g.n(len(regs))]
						cp.ID = bad.ID
						bad = &cp
					}
				case 0:
					bad.Bad = 1
				case 1:
					bad.Bad = 2
				case 2:
					bad.Bad = 3
				case 3:
					bad.Bad = 5
				case 4:
					bad.Name, bad.Group = 1, 1
				default:
					bad.As = []int{20}
				}
				pos := g.n(len(ops) + 1)
				ops = append(ops[:pos:pos], append([]Op{{Kind: "add", Reg: bad}}, ops[pos:]...)...)
			}
		}
	}
	if prop == "C18" && g.p(0.5) {
		// reserved types cannot be registered, in any form
		var bad *Reg
		switch g.n(3) {
		case 0:
			bad = &Reg{ID: g.nextRid, Life: Singleton, Form: Form{Kind: "ctor", Rets: []int{0}}, Dyn: []int{0}, As: []int{16}}
		case 1:
			bad = &Reg{ID: g.nextRid, Life: Singleton, Form: Form{Kind: "ctor", Rets: []int{1, tCtx + g.n(3)}}, Dyn: []int{1, 0}}
		default:
			bad = &Reg{ID: g.nextRid, Life: Scoped, Form: Form{Kind: "result", Fields: []Field{{Ty: 2}, {Ty: tCtx + g.n(3), Name: g.n(2)}}}, Dyn: []int{2, 0}}
		}
		g.nextRid++
		ops = append(ops, Op{Kind: "add", Reg: bad}, Op{Kind: "contains", Ty: tCtx}, Op{Kind: "contains", Ty: tScope}, Op{Kind: "containskeyed", Ty: tCtx, Name: 1}, Op{Kind: "slice"}, Op{Kind: "count"})
	}
	ops = append(ops, Op{Kind: "build"})
	hist := g.History(regs, 0, h)
	if prop == "C15" {
		for k := range hist {
			if (hist[k].Kind == "resolve" || hist[k].Kind == "resolvegroup") && g.p(0.05) {
				hist[k].Ty = tNil
			}
			if hist[k].Kind == "resolvegroup" && g.p(0.05) {
				hist[k].Group = 0
			}
		}
	}
	ops = append(ops, hist...)
	if prop == "C12" || prop == "C13" {
		// close things again, use things after close
		n := 0
		for _, o := range ops {
			if o.Kind == "createscope" {
				n++
			}
		}
		for k := 0; k < 4 && n > 0; k++ {
			hh := 1 + g.n(n)
			ops = append(ops, Op{Kind: "close", P: 0, H: hh}, Op{Kind: "close", P: 0, H: hh})
		}
	}
	wide := false
	if prop == "C11" || prop == "C12" || prop == "C13" || prop == "C10" {
		if i%5 == 4 || ((prop == "C11" || prop == "C12") && i%3 == 0) {
			ops = append(ops, g.wideTree(regs, ops)...)
			wide = true
		}
	}
	if prop == "C08" && i%4 == 2 {
		// Build once more after a registration that others need was removed: the second Build must notice
		var victim *Reg
		for _, r := range regs {
			outs := regOutputs(r)
			if len(outs) != 1 || outs[0].group != 0 || outs[0].ty == tVoid || len(r.As) > 0 {
				continue
			}
			for _, o := range regs {
				for _, prm := range o.Form.Params {
					if !prm.Skip && !prm.Dep.Opt && prm.Dep.Group == 0 && prm.Dep.Ty == outs[0].ty && prm.Dep.Name == outs[0].name {
						victim = r
					}
				}
			}
		}
		if victim != nil {
			id := regOutputs(victim)[0]
			if id.name != 0 {
				ops = append(ops, Op{Kind: "removekeyed", Ty: id.ty, Name: id.name})
			} else {
				ops = append(ops, Op{Kind: "remove", Ty: id.ty})
			}
			ops = append(ops, Op{Kind: "count"}, Op{Kind: "build"}, Op{Kind: "createscope", P: 1, Parent: 0})
			for _, r := range regs {
				for _, oid := range regOutputs(r) {
					if oid.ty != tVoid && oid.group == 0 {
						ops = append(ops, Op{Kind: "resolve", P: 1, H: 1, Ty: oid.ty, Name: oid.name})
					}
				}
			}
		}
	}
	if prop == "C12" || prop == "C13" {
		// what was resolved before is asked for again on the (now closed) scopes
		var again []Op
		for _, o := range ops {
			if o.Kind == "createscope" && o.Ctx != 0 {
				continue // its context may have been cancelled meanwhile: a scope created from it is closed asynchronously
			}
			if (o.Kind == "resolve" || o.Kind == "resolvegroup" || o.Kind == "createscope") && len(again) < 8 && g.p(0.6) {
				again = append(again, o)
			}
		}
		ops = append(ops, again...)
	}
	if finalClose {
		ops = append(ops, Op{Kind: "closeprovider", P: 0})
		if prop == "C12" || prop == "C13" {
			ops = append(ops, Op{Kind: "closeprovider", P: 0})
			ops = append(ops, g.History(regs, 0, HistCfg{NOps: 4, MaxScopes: 0})...)
			ops = append(ops, Op{Kind: "createscope", P: 0, Parent: 0})
		}
	}
	if prop == "C14" {
		// the bookkeeping is read after every operation on the provider
		var with []Op
		for _, o := range ops {
			with = append(with, o)
			switch o.Kind {
			case "createscope", "close", "closeprovider", "cancel", "resolve", "resolvegroup", "build":
				with = append(with, Op{Kind: "stats", P: 0})
			}
		}
		ops = with
	}
	slow := (prop == "C11" || prop == "C12" || prop == "C13" || prop == "C10") && (i%3 == 1 || wide)
	return Group{Cases: []Case{{Name: fmt.Sprintf("%d", i), Ops: ops, SlowClose: slow}}}
}

// aliasGroupFamily: registrations under several As interfaces combined with groups, names and
// instance values of one type — the shapes in which identities of one registration differ in more
// than the type (group members are numbered per (type, group)).
func (g *Gen) aliasGroupFamily(life int) []*Reg {
	var regs []*Reg
	mk := func(l int, dyn int, as []int, name, group int) *Reg {
		r := &Reg{ID: g.nextRid, Life: l, Form: Form{Kind: "ctor", Rets: []int{dyn}, Err: g.p(0.3)}, Dyn: []int{dyn}, CFail: []bool{false}, As: as, Name: name, Group: group}
		g.nextRid++
		return r
	}
	grp := 1 + g.n(2)
	ifs := g.rnd.Perm(4)
	a, b, c := 16+ifs[0], 16+ifs[1], 16+ifs[2]
	// groups of different sizes per interface, then a registration that joins several of them
	for k := g.n(3); k > 0; k-- {
		regs = append(regs, mk(g.life([3]int{1, 1, 1}), g.n(16), []int{[]int{a, b, c}[g.n(3)]}, 0, grp))
	}
	regs = append(regs, mk(life, g.n(16), []int{a, b}, 0, grp))
	if g.p(0.5) {
		regs = append(regs, mk(life, g.n(16), []int{b, c, a}, 0, grp))
	}
	if g.p(0.5) {
		regs = append(regs, mk(life, g.n(16), []int{a, c}, 1+g.n(3), 0))
	}
	// several instance values of one type under different names / in one group
	if g.p(0.6) {
		ty := g.n(8)
		if life == Singleton && g.p(0.5) {
			ty += 8
		}
		for k := 0; k < 2+g.n(2); k++ {
			r := &Reg{ID: g.nextRid, Life: life, Form: Form{Kind: "inst", Ty: ty}, Dyn: []int{ty}, CFail: []bool{false}}
			g.nextRid++
			if g.p(0.5) {
				r.Name = k + 1
			} else {
				r.Group = grp
			}
			if life != Singleton && ty >= 8 {
				r.Form.Ty, r.Dyn[0] = ty-8, ty-8
			}
			regs = append(regs, r)
		}
	}
	// a consumer of the groups
	var ps []Param
	for _, t := range []int{a, b, c} {
		if g.p(0.7) {
			ps = append(ps, Param{Dep: Dep{Ty: t, Group: grp}})
		}
	}
	cl := Transient
	if life == Scoped {
		cl = Scoped
	}
	allLong := true
	for _, r := range regs {
		if r.Life == Scoped {
			allLong = false
		}
	}
	if allLong || cl == Scoped {
		regs = append(regs, &Reg{ID: g.nextRid, Life: cl, Form: Form{Kind: "ctor", InObj: true, Params: ps, Rets: []int{7}}, Dyn: []int{7}, CFail: []bool{false}, Name: 9})
		g.nextRid++
	}
	g.rnd.Shuffle(len(regs), func(i, j int) {
		// keep the relative order of group members of the same (interface, group)? not needed: any order is a valid set
		regs[i], regs[j] = regs[j], regs[i]
	})
	return regs
}

// ---------------------------------------------------------------- C17

func genC17(g *Gen, i int) Group {
	if i%9 == 4 {
		return g.aliasRemovalCase(i)
	}
	if i%9 == 6 {
		return g.multiOutCase(i)
	}
	if i%9 == 8 {
		return g.aliasAfterBuildCase(i)
	}
	if i%9 == 1 {
		return g.rebuildAfterRemovalCase(i)
	}
	if i%9 == 2 || i%9 == 7 {
		return g.snapshotTwins(i)
	}
	cfg := defaultCfg()
	cfg.NRegs = 4 + g.n(7)
	cfg.PMulti, cfg.PResult, cfg.PAs = 0.15, 0.15, 0.2
	cfg.PGroup = 0.4
	regs := g.RegSet(cfg)
	q := func() []Op {
		out := []Op{{Kind: "count"}}
		if g.p(0.5) {
			out = append(out, Op{Kind: "slice"})
		}
		r := regs[g.n(len(regs))]
		id := regOutputs(r)[0]
		if id.ty != tVoid {
			if id.name != 0 {
				out = append(out, Op{Kind: "containskeyed", Ty: id.ty, Name: id.name})
			} else {
				out = append(out, Op{Kind: "contains", Ty: id.ty})
			}
		}
		return out
	}
	var ops []Op
	var ghostGroups []ident
	nprov := 0
	var builtWith [][]*Reg
	var soFar []*Reg
	for _, r := range regs {
		ops = append(ops, Op{Kind: "add", Reg: r})
		soFar = append(soFar, r)
		ops = append(ops, q()...)
		x := g.rnd.Float64()
		switch {
		case x < 0.15:
			// a colliding registration: same identities, new constructor (possibly multi-output)
			src := regs[g.n(len(regs))]
			cp := *src
			cp.ID = g.nextRid
			g.nextRid++
			ops = append(ops, Op{Kind: "add", Reg: &cp})
			ops = append(ops, q()...)
		case x < 0.25:
			// a multi-output registration whose second output collides with an existing plain one
			var taken []ident
			for _, s := range soFar {
				for _, id := range regOutputs(s) {
					if id.group == 0 && id.name == 0 && id.ty < 20 {
						taken = append(taken, id)
					}
				}
			}
			if len(taken) > 0 {
				t := taken[g.n(len(taken))]
				fresh := 0
				for used := true; used; {
					used = false
					for _, id := range taken {
						if id.ty == fresh {
							used = true
							fresh++
						}
					}
				}
				if fresh < 16 {
					d := t.ty
					if d >= 16 {
						d = 0
					}
					var bad *Reg
					switch g.n(4) {
					case 3:
						// two members of one group, then an output that collides: nothing of it may stay, not even in the group
						grp := 1 + g.n(2)
						bad = &Reg{ID: g.nextRid, Life: g.life([3]int{1, 1, 1}), Form: Form{Kind: "result", Fields: []Field{{Ty: fresh, Group: grp}, {Ty: fresh, Group: grp}, {Ty: t.ty}}}, Dyn: []int{fresh, fresh, d}}
						ghostGroups = append(ghostGroups, ident{fresh, 0, grp})
					case 0:
						bad = &Reg{ID: g.nextRid, Life: g.life([3]int{1, 1, 1}), Form: Form{Kind: "ctor", Rets: []int{fresh, t.ty}}, Dyn: []int{fresh, d}}
					case 1:
						bad = &Reg{ID: g.nextRid, Life: g.life([3]int{1, 1, 1}), Form: Form{Kind: "result", Fields: []Field{{Ty: fresh}, {Ty: t.ty}}}, Dyn: []int{fresh, d}}
					default:
						if t.ty >= 16 && t.ty < 20 {
							other := 16 + (t.ty-16+1)%4
							bad = &Reg{ID: g.nextRid, Life: g.life([3]int{1, 1, 1}), Form: Form{Kind: "ctor", Rets: []int{fresh}}, Dyn: []int{fresh}, As: []int{other, t.ty}}
							for _, id := range taken {
								if id.ty == other {
									bad = nil
								}
							}
						}
					}
					if bad != nil {
						g.nextRid++
						ops = append(ops, Op{Kind: "add", Reg: bad})
						ops = append(ops, q()...)
						ops = append(ops, Op{Kind: "contains", Ty: fresh})
					}
				}
			}
		case x < 0.4:
			// remove a single-identity registration (or something that is not there)
			s := regs[g.n(len(regs))]
			outs := regOutputs(s)
			// (also a named scope initializer: the identity (struct{}, name))
			if len(outs) == 1 && outs[0].group == 0 && (outs[0].ty != tVoid || (outs[0].name != 0 && outs[0].name < 1000)) {
				if outs[0].name != 0 {
					ops = append(ops, Op{Kind: "removekeyed", Ty: outs[0].ty, Name: outs[0].name})
				} else {
					ops = append(ops, Op{Kind: "remove", Ty: outs[0].ty})
				}
				ops = append(ops, q()...)
				if outs[0].name != 0 {
					ops = append(ops, Op{Kind: "containskeyed", Ty: outs[0].ty, Name: outs[0].name})
				} else {
					ops = append(ops, Op{Kind: "contains", Ty: outs[0].ty})
				}
			}
		case x < 0.55 && nprov < 3:
			ops = append(ops, Op{Kind: "build"})
			builtWith = append(builtWith, append([]*Reg(nil), soFar...))
			nprov++
		case x < 0.6:
			bad := &Reg{ID: g.nextRid, Life: Singleton, Form: Form{Kind: "inst", Ty: g.n(8)}, Dyn: []int{0}, Name: 1, Group: 1}
			g.nextRid++
			ops = append(ops, Op{Kind: "add", Reg: bad})
			ops = append(ops, q()...)
		}
		// old providers keep answering from their snapshot
		if nprov > 0 && g.p(0.5) {
			pi := g.n(nprov)
			hs := HistCfg{NOps: 2, MaxScopes: 0}
			ops = append(ops, g.History(regs, pi, hs)...)
		}
	}
	ops = append(ops, Op{Kind: "build"})
	nprov++
	for _, gg := range ghostGroups {
		ops = append(ops, Op{Kind: "resolvegroup", P: nprov - 1, H: 0, Ty: gg.ty, Group: gg.group})
	}
	for pi := 0; pi < nprov; pi++ {
		hs := HistCfg{NOps: 5, MaxScopes: 1}
		ops = append(ops, g.History(regs, pi, hs)...)
	}
	return Group{Cases: []Case{{Name: fmt.Sprintf("%d", i), Ops: ops}}}
}

// ---------------------------------------------------------------- C06

// genC06: one registration set, built several times in the same order (every Build sees another
// map iteration order) and in permuted registration orders that keep the order inside each group.
func genC06(g *Gen, i int) Group {
	cfg := defaultCfg()
	cfg.NRegs = 4 + g.n(7)
	cfg.PGroup = 0.4
	cfg.PAs = 0.2
	cfg.MaxDeps = 4
	cfg.LifeWeights = [3]int{5, 1, 4}
	cfg.PCycle, cfg.PConflict, cfg.PMissing = 0.1, 0.1, 0.1
	regs := g.RegSet(cfg)
	// the same history for every variant
	var tail []Op
	tail = append(tail, Op{Kind: "build"}, Op{Kind: "createscope", P: 0, Parent: 0})
	for _, r := range regs {
		for _, id := range regOutputs(r) {
			if id.ty == tVoid {
				continue
			}
			for _, h := range []int{0, 1} {
				if id.group != 0 {
					tail = append(tail, Op{Kind: "resolvegroup", P: 0, H: h, Ty: id.ty, Group: id.group})
				} else {
					tail = append(tail, Op{Kind: "resolve", P: 0, H: h, Ty: id.ty, Name: id.name})
				}
			}
		}
	}
	tail = append(tail, Op{Kind: "closeprovider", P: 0})
	// registrations with a grouped output keep their relative order (conservatively: among all of them)
	grouped := func(r *Reg) bool {
		for _, id := range regOutputs(r) {
			if id.group != 0 {
				return true
			}
		}
		return false
	}
	permute := func() []*Reg {
		perm := g.rnd.Perm(len(regs))
		out := make([]*Reg, len(regs))
		for k, j := range perm {
			out[k] = regs[j]
		}
		var pos []int
		for k, r := range out {
			if grouped(r) {
				pos = append(pos, k)
			}
		}
		var members []*Reg
		for _, r := range regs {
			if grouped(r) {
				members = append(members, r)
			}
		}
		for k, p := range pos {
			out[p] = members[k]
		}
		return out
	}
	if i%5 == 2 || i%10 == 3 {
		// one output of a multi-output registration removed and replaced: the same history, built again and again
		// (what runs first at Build is up to hash-map order; the outcome must not be); or: a multi-output
		// registration refused after it had entered two members of one group
		g.forceReplace, g.forceBlock = i%5 == 2, i%10 == 3
		one := g.multiOutCase(i).Cases[0]
		g.forceReplace, g.forceBlock = false, false
		var cs []Case
		for v := 0; v < 6; v++ {
			cp := make([]Op, len(one.Ops))
			copy(cp, one.Ops)
			cs = append(cs, Case{Name: fmt.Sprintf("%d/multi-out-again%d", i, v), Ops: cp})
		}
		return Group{Kind: "variants", Cases: cs}
	}
	var cases []Case
	for v := 0; v < 6; v++ {
		order := regs
		if v >= 3 {
			order = permute()
		}
		ops := append(addOps(order), tail...)
		cp := make([]Op, len(ops))
		copy(cp, ops)
		cases = append(cases, Case{Name: fmt.Sprintf("%d/variant%d", i, v), Ops: cp})
	}
	return Group{Kind: "variants", Cases: cases}
}


// aliasRemovalCase (C07, C17): a scoped registration under two As interfaces, one of the interfaces removed
// again, and a long-lived consumer of the other one; sometimes removed twice / re-added.
func (g *Gen) aliasRemovalCase(i int) Group {
	ifs := g.rnd.Perm(4)
	a, b := 16+ifs[0], 16+ifs[1]
	mk := func(life int, dyn int, as []int, name int) *Reg {
		r := &Reg{ID: g.nextRid, Life: life, Form: Form{Kind: "ctor", Rets: []int{dyn}}, Dyn: []int{dyn}, CFail: []bool{false}, As: as, Name: name}
		g.nextRid++
		return r
	}
	name := 0
	if g.p(0.3) {
		name = 1 + g.n(2)
	}
	s := mk(Scoped, g.n(16), []int{a, b}, name)
	var ops []Op
	if g.p(0.5) {
		ops = append(ops, Op{Kind: "add", Reg: mk(g.life([3]int{2, 0, 2}), g.n(8), nil, 0)})
	}
	ops = append(ops, Op{Kind: "add", Reg: s})
	rm := func(t int) Op {
		if name != 0 {
			return Op{Kind: "removekeyed", Ty: t, Name: name}
		}
		return Op{Kind: "remove", Ty: t}
	}
	ops = append(ops, rm(a), Op{Kind: "count"}, Op{Kind: "slice"})
	if g.p(0.3) {
		ops = append(ops, rm(a)) // removing it again changes nothing
	}
	consumerLife := []int{Singleton, Transient, Scoped}[g.n(3)]
	c := &Reg{ID: g.nextRid, Life: consumerLife, Form: Form{Kind: "ctor", InObj: true, Params: []Param{{Dep: Dep{Ty: b, Name: name}}}, Rets: []int{7}}, Dyn: []int{7}, CFail: []bool{false}, Name: 9}
	g.nextRid++
	ops = append(ops, Op{Kind: "add", Reg: c})
	if g.p(0.3) {
		ops = append(ops, Op{Kind: "add", Reg: mk(Scoped, g.n(16), []int{a}, name)}) // the freed identity can be taken again
	}
	ops = append(ops, Op{Kind: "count"}, Op{Kind: "build"}, Op{Kind: "createscope", P: 0, Parent: 0},
		Op{Kind: "resolve", P: 0, H: 1, Ty: b, Name: name}, Op{Kind: "resolve", P: 0, H: 1, Ty: a, Name: name},
		Op{Kind: "resolve", P: 0, H: 1, Ty: 7, Name: 9}, Op{Kind: "resolve", P: 0, H: 0, Ty: 7, Name: 9}, Op{Kind: "closeprovider", P: 0})
	return Group{Cases: []Case{{Name: fmt.Sprintf("%d/alias-removal", i), Ops: ops}}}
}

// rebuildAfterRemovalCase (C17): Build, then ONLY removals (no registration in between), then Build again: the
// second provider is built from the registrations that are left - nothing of a removed registration runs at the second
// Build or answers afterwards, whatever the collection kept from the first Build.
func (g *Gen) rebuildAfterRemovalCase(i int) Group {
	tys := g.rnd.Perm(16)
	mk := func(life, ty, name int, deps ...int) *Reg {
		var ps []Param
		for _, d := range deps {
			ps = append(ps, Param{Dep: Dep{Ty: d}})
		}
		r := &Reg{ID: g.nextRid, Life: life, Form: Form{Kind: "ctor", Params: ps, Rets: []int{ty}}, Dyn: []int{ty}, CFail: []bool{false}, Name: name}
		g.nextRid++
		return r
	}
	name := 0
	if g.p(0.4) {
		name = 1 + g.n(2)
	}
	victimLife := []int{Singleton, Singleton, Scoped, Transient}[g.n(4)]
	victim := mk(victimLife, tys[0], name)
	keep := mk(Singleton, tys[1], 0)
	user := mk(g.life([3]int{2, 1, 1}), tys[2], 0, tys[1])
	regs := []*Reg{victim, keep, user}
	if g.p(0.5) {
		regs = append(regs, mk(Singleton, tys[3], 0))
	}
	g.rnd.Shuffle(len(regs), func(a, b int) { regs[a], regs[b] = regs[b], regs[a] })
	var ops []Op
	for _, r := range regs {
		ops = append(ops, Op{Kind: "add", Reg: r})
	}
	rm := Op{Kind: "remove", Ty: tys[0]}
	if name != 0 {
		rm = Op{Kind: "removekeyed", Ty: tys[0], Name: name}
	}
	ops = append(ops, Op{Kind: "build"}, rm, Op{Kind: "count"})
	if len(regs) == 4 && g.p(0.5) {
		ops = append(ops, Op{Kind: "remove", Ty: tys[3]})
	}
	ops = append(ops, Op{Kind: "build"}, Op{Kind: "count"}, Op{Kind: "slice"})
	for p := 1; p >= 0; p-- {
		ops = append(ops, Op{Kind: "createscope", P: p, Parent: 0},
			Op{Kind: "resolve", P: p, H: 1, Ty: tys[0], Name: name}, Op{Kind: "resolve", P: p, H: 1, Ty: tys[2]},
			Op{Kind: "resolve", P: p, H: 0, Ty: tys[1]}, Op{Kind: "resolve", P: p, H: 1, Ty: tys[3]})
	}
	ops = append(ops, Op{Kind: "closeprovider", P: 1}, Op{Kind: "closeprovider", P: 0})
	return Group{Cases: []Case{{Name: fmt.Sprintf("%d/rebuild-after-removal", i), Ops: ops}}}
}

// initFailsWithForeignDisposedCase (C14): a scope initializer fails with an error of its own that WRAPS one of the
// container's "disposed" sentinels (it consulted some other, closed scope or provider) after an earlier initializer has
// made the new scope own a disposable: the half-built scope is rolled back like after any other failure - closed, its
// instance disposed, tracked nowhere - and the next creation works.
func (g *Gen) initFailsWithForeignDisposedCase(i int) Group {
	tys := g.rnd.Perm(8)
	failID, otherID := 1, 3 // (the scripted error of registration n wraps ErrScopeDisposed for n%5==1, ErrProviderDisposed for n%5==3)
	if g.p(0.5) {
		failID, otherID = 3, 1
	}
	g.nextRid = 4
	d := &Reg{ID: 2, Life: Scoped, Form: Form{Kind: "ctor", Rets: []int{8 + tys[0]}}, Dyn: []int{8 + tys[0]}, CFail: []bool{false}}
	a := &Reg{ID: otherID, Life: Scoped, Form: Form{Kind: "ctor", Params: []Param{{Dep: Dep{Ty: 8 + tys[0]}}}}}
	how := OErr
	f := &Reg{ID: failID, Life: Scoped, Form: Form{Kind: "ctor", Err: true}, Script: []int{OOk, how, OOk}}
	if g.p(0.4) {
		f.Form.Params = []Param{{Dep: Dep{Ty: 8 + tys[0]}}}
	}
	ops := []Op{{Kind: "add", Reg: d}, {Kind: "add", Reg: a}, {Kind: "add", Reg: f}, {Kind: "build"},
		{Kind: "createscope", P: 0, Parent: 0}, // fails in the third initializer
		{Kind: "createscope", P: 0, Parent: 0}, // works: handle 1
		{Kind: "resolve", P: 0, H: 1, Ty: 8 + tys[0]}}
	if g.p(0.5) {
		ops = append(ops, Op{Kind: "close", P: 0, H: 1})
	}
	ops = append(ops, Op{Kind: "closeprovider", P: 0})
	return Group{Cases: []Case{{Name: fmt.Sprintf("%d/init-fails-with-foreign-disposed", i), Ops: ops}}}
}

// rebuildAfterChangeCase (C07, C03, C06, C01): one collection built twice with a change in between - what the first
// Build worked out (dependency lists, lifetimes of dependencies, which constructors have run) says nothing about the
// second: (a) an optional dependency that is unregistered at the first Build and registered SCOPED before the second (a
// singleton or transient consumer must now be refused); (b) a singleton dependency replaced by a transient one (every
// construction of the consumer in the second provider gets a new instance); (c) nothing changed (the same verdict, the
// multi-output singleton constructed again).
func (g *Gen) rebuildAfterChangeCase(i int, prop string) Group {
	tys := g.rnd.Perm(8)
	mk := func(l int, ps []Param, rets []int, inobj bool) *Reg {
		r := &Reg{ID: g.nextRid, Life: l, Form: Form{Kind: "ctor", InObj: inobj, Params: ps, Rets: rets}, Dyn: append([]int(nil), rets...)}
		for range rets {
			r.CFail = append(r.CFail, false)
		}
		g.nextRid++
		return r
	}
	kind := g.n(3)
	if prop == "C07" {
		kind = 0
	} else if prop == "C03" {
		kind = 1
	}
	var ops []Op
	use := func(p int, ts ...int) {
		ops = append(ops, Op{Kind: "createscope", P: p, Parent: 0})
		for k := 0; k < 2; k++ {
			for _, t := range ts {
				ops = append(ops, Op{Kind: "resolve", P: p, H: 1, Ty: t}, Op{Kind: "resolve", P: p, H: 0, Ty: t})
			}
		}
	}
	switch kind {
	case 0:
		consumerLife := []int{Singleton, Transient, Singleton, Scoped}[g.n(4)]
		consumer := mk(consumerLife, []Param{{Dep: Dep{Ty: tys[1], Opt: true}}}, []int{tys[0]}, true)
		late := mk(Scoped, nil, []int{tys[1]}, false)
		ops = append(ops, Op{Kind: "add", Reg: consumer}, Op{Kind: "build"})
		use(0, tys[0])
		ops = append(ops, Op{Kind: "add", Reg: late}, Op{Kind: "build"}) // refused for a singleton or transient consumer
		use(1, tys[0], tys[1])
	case 1:
		dep := mk(Singleton, nil, []int{tys[1]}, false)
		consumer := mk(Transient, []Param{{Dep: Dep{Ty: tys[1]}}}, []int{tys[0]}, g.p(0.5))
		other := mk(Scoped, []Param{{Dep: Dep{Ty: tys[0]}}, {Dep: Dep{Ty: tys[1]}}}, []int{tys[2]}, false)
		ops = append(ops, Op{Kind: "add", Reg: dep}, Op{Kind: "add", Reg: consumer}, Op{Kind: "add", Reg: other}, Op{Kind: "build"})
		use(0, tys[0], tys[2])
		dep2 := mk(Transient, nil, []int{tys[1]}, false)
		ops = append(ops, Op{Kind: "remove", Ty: tys[1]}, Op{Kind: "add", Reg: dep2}, Op{Kind: "build"})
		use(1, tys[0], tys[2], tys[0])
	default:
		multi := mk(Singleton, nil, []int{tys[0], tys[1]}, false)
		user := mk(g.life([3]int{1, 1, 1}), []Param{{Dep: Dep{Ty: tys[1]}}}, []int{tys[2]}, false)
		ops = append(ops, Op{Kind: "add", Reg: multi}, Op{Kind: "add", Reg: user}, Op{Kind: "build"})
		use(0, tys[2], tys[0])
		ops = append(ops, Op{Kind: "build"})
		use(1, tys[2], tys[1], tys[0])
	}
	ops = append(ops, Op{Kind: "closeprovider", P: 1}, Op{Kind: "closeprovider", P: 0})
	return Group{Cases: []Case{{Name: fmt.Sprintf("%d/rebuild-after-change-%d", i, kind), Ops: ops}}}
}

// sameTypeTwiceCase (C02): a scoped constructor that returns the same type twice, registered into a group (the two
// members differ by their position only): each scope holds one instance per member, every resolution of the group - direct
// or through a group field - returns those two, and the constructor runs once per scope.
func (g *Gen) sameTypeTwiceCase(i int) Group {
	tys := g.rnd.Perm(8)
	t := tys[0]
	if g.p(0.5) {
		t += 8
	}
	grp := 1 + g.n(2)
	m := &Reg{ID: g.nextRid, Life: Scoped, Form: Form{Kind: "ctor", Rets: []int{t, t}}, Dyn: []int{t, t}, CFail: []bool{false, false}, Group: grp}
	g.nextRid++
	c := &Reg{ID: g.nextRid, Life: Scoped, Form: Form{Kind: "ctor", InObj: true, Params: []Param{{Dep: Dep{Ty: t, Group: grp}}}, Rets: []int{tys[1]}}, Dyn: []int{tys[1]}, CFail: []bool{false}}
	g.nextRid++
	ops := []Op{{Kind: "add", Reg: m}, {Kind: "add", Reg: c}, {Kind: "build"}}
	for h := 1; h <= 2; h++ {
		ops = append(ops, Op{Kind: "createscope", P: 0, Parent: 0},
			Op{Kind: "resolvegroup", P: 0, H: h, Ty: t, Group: grp}, Op{Kind: "resolve", P: 0, H: h, Ty: tys[1]},
			Op{Kind: "resolvegroup", P: 0, H: h, Ty: t, Group: grp}, Op{Kind: "resolve", P: 0, H: h, Ty: tys[1]})
	}
	ops = append(ops, Op{Kind: "resolvegroup", P: 0, H: 0, Ty: t, Group: grp}, Op{Kind: "closeprovider", P: 0})
	return Group{Cases: []Case{{Name: fmt.Sprintf("%d/same-type-twice", i), Ops: ops}}}
}

// keyedBuiltinCase (C08): a dependency on a built-in type UNDER A NAME (`Ctx context.Context `name:"request"``): the
// scope supplies the built-ins for un-keyed requests only and the reserved types cannot be registered under any key, so
// the dependency is unsatisfiable - Build refuses the set, for every lifetime of the consumer (unless the field is optional).
func (g *Gen) keyedBuiltinCase(i int) Group {
	tys := g.rnd.Perm(8)
	b := []int{tCtx, tScope, tProv}[g.n(3)]
	opt := g.p(0.25)
	c := &Reg{ID: g.nextRid, Life: g.life([3]int{1, 2, 2}), Form: Form{Kind: "ctor", InObj: true, Params: []Param{{Dep: Dep{Ty: b, Name: 1 + g.n(2), Opt: opt}}}, Rets: []int{tys[0]}}, Dyn: []int{tys[0]}, CFail: []bool{false}}
	g.nextRid++
	o := &Reg{ID: g.nextRid, Life: Scoped, Form: Form{Kind: "ctor", Rets: []int{tys[1]}}, Dyn: []int{tys[1]}, CFail: []bool{false}}
	g.nextRid++
	ops := []Op{{Kind: "add", Reg: o}, {Kind: "add", Reg: c}, {Kind: "build"}, {Kind: "createscope", P: 0, Parent: 0},
		{Kind: "resolve", P: 0, H: 1, Ty: tys[0]}, {Kind: "resolve", P: 0, H: 0, Ty: tys[0]}, {Kind: "resolve", P: 0, H: 1, Ty: tys[1]}, {Kind: "closeprovider", P: 0}}
	return Group{Cases: []Case{{Name: fmt.Sprintf("%d/keyed-builtin", i), Ops: ops}}}
}

// wideTree: a scope with several children (created without a context of their own, so that closing the
// parent wakes their watcher goroutines), something disposable resolved in each, the parent closed in one of
// three ways, and then every scope used again.
func (g *Gen) wideTree(regs []*Reg, before []Op) []Op {
	n := 0
	maxCtx := 0
	for _, o := range before {
		if o.Kind == "createscope" {
			n++
			if o.Ctx > maxCtx {
				maxCtx = o.Ctx
			}
		}
	}
	var ids, dis []ident
	for _, r := range regs {
		if r.Life == Singleton {
			continue
		}
		for k, id := range regOutputs(r) {
			if id.ty != tVoid {
				ids = append(ids, id)
				if len(r.As) > 0 {
					k = 0
				}
				if k < len(r.Dyn) && r.Dyn[k] >= 8 {
					dis = append(dis, id)
				}
			}
		}
	}
	if len(dis) > 0 {
		ids = append(dis, dis...) // mostly things that have a Close
	}
	res := func(h int) []Op {
		var out []Op
		for k := 0; k < 2 && len(ids) > 0; k++ {
			id := ids[g.n(len(ids))]
			if id.group != 0 {
				out = append(out, Op{Kind: "resolvegroup", P: 0, H: h, Ty: id.ty, Group: id.group})
			} else {
				out = append(out, Op{Kind: "resolve", P: 0, H: h, Ty: id.ty, Name: id.name})
			}
		}
		return out
	}
	var ops []Op
	parent := n + 1
	pctx := 0
	if g.p(0.5) {
		pctx = maxCtx + 1
	}
	ops = append(ops, Op{Kind: "createscope", P: 0, Parent: 0, Ctx: pctx})
	ops = append(ops, res(parent)...)
	k := 3 + g.n(4)
	var kids, kidCtx []int
	ownCtx := g.p(0.5) // children with a context of their own are not woken by the parent's cancellation: only the parent's Close reaches them
	nextCtx := maxCtx + 2
	for j := 0; j < k; j++ {
		h := parent + 1 + j
		kids = append(kids, h)
		o := Op{Kind: "createscope", P: 0, Parent: parent}
		if ownCtx {
			o.Ctx = nextCtx
			o.Derive = g.p(0.5) // as in `ctx, cancel := context.WithTimeout(parent.Context(), d)`
			kidCtx = append(kidCtx, nextCtx)
			nextCtx++
		}
		ops = append(ops, o)
		ops = append(ops, res(h)...)
	}
	gc := parent + k + 1
	ops = append(ops, Op{Kind: "createscope", P: 0, Parent: kids[g.n(len(kids))]})
	ops = append(ops, res(gc)...)
	if ownCtx && g.p(0.6) {
		// one child's own context is cancelled: that child is closed, and says so, while its parent stays open
		j := g.n(len(kids))
		ops = append(ops, Op{Kind: "cancel", Ctx: kidCtx[j]})
		if r := res(kids[j]); len(r) > 0 {
			ops = append(ops, r[0])
		}
		ops = append(ops, Op{Kind: "createscope", P: 0, Parent: kids[j]})
		ops = append(ops, res(parent)...)
	}
	switch {
	case pctx != 0 && g.p(0.5):
		ops = append(ops, Op{Kind: "cancel", Ctx: pctx})
	default:
		ops = append(ops, Op{Kind: "close", P: 0, H: parent})
	}
	for _, h := range append(append([]int{}, kids...), gc, parent) {
		if r := res(h); len(r) > 0 {
			ops = append(ops, r[0])
		}
		ops = append(ops, Op{Kind: "createscope", P: 0, Parent: h})
		ops = append(ops, Op{Kind: "close", P: 0, H: h})
	}
	return ops
}

// multiOutCase: one registration with several outputs (a result object with named and group fields, or a
// constructor with several return values, sometimes with Name or Group), one identity of which is removed -
// and sometimes registered again by another constructor - before or after a Build. The siblings stay
// resolvable, the removed identity is gone or belongs to the newcomer, group fields are members of their
// group, and a provider built before the change keeps its own view.
func (g *Gen) multiOutCase(i int) Group {
	life := g.life([3]int{2, 3, 2})
	if g.forceReplace {
		life = Singleton
	}
	tys := g.rnd.Perm(8)
	pick := func(k int) int {
		t := tys[k]
		if g.p(0.6) {
			t += 8
		}
		return t
	}
	m := &Reg{ID: g.nextRid, Life: life}
	g.nextRid++
	if g.p(0.55) || g.forceBlock {
		fs := []Field{{Ty: pick(0)}, {Ty: pick(1), Name: 1 + g.n(2)}, {Ty: pick(2)}}
		if g.p(0.6) || g.forceBlock {
			grp := 1 + g.n(2)
			fs = append(fs, Field{Ty: pick(3), Group: grp})
			if g.p(0.5) || g.forceBlock {
				fs = append(fs, Field{Ty: fs[3].Ty, Group: grp}) // a second member of the same group from the same constructor
			}
		}
		if g.p(0.08) && !g.forceBlock {
			fs[1].Group = 1 + g.n(2) // a field with both tags: the registration is refused as a whole (F33)
		}
		g.rnd.Shuffle(len(fs), func(a, b int) { fs[a], fs[b] = fs[b], fs[a] })
		m.Form = Form{Kind: "result", Fields: fs, Err: g.p(0.3)}
		for _, f := range fs {
			m.Dyn = append(m.Dyn, f.Ty)
			m.CFail = append(m.CFail, false)
		}
	} else {
		k := 2 + g.n(2)
		allIface := g.p(0.25)
		m.Form = Form{Kind: "ctor", Err: g.p(0.3)}
		for j := 0; j < k; j++ {
			t := pick(j)
			st := t
			if g.p(0.3) || allIface {
				st = 16 + (j+i)%4 // declared as an interface, implemented by the concrete type
			}
			m.Form.Rets = append(m.Form.Rets, st)
			m.Dyn = append(m.Dyn, t)
			m.CFail = append(m.CFail, false)
		}
		switch g.n(4) {
		case 0:
			m.Name = 1 + g.n(2)
		case 1:
			m.Group = 1 + g.n(2)
		}
	}
	if g.p(0.3) {
		// the constructor takes built-ins: for a singleton they are the root scope's, whoever asks for an output later
		m.Form.Params = []Param{{Dep: Dep{Ty: tCtx}}, {Dep: Dep{Ty: tScope}}}
	}
	outs := regOutputs(m)
	allNil := false
	if m.Form.Kind == "ctor" {
		allNil = true
		for _, t := range m.Form.Rets {
			if t < 16 {
				allNil = false
			}
		}
		allNil = allNil && g.p(0.6)
	} else if g.p(0.06) {
		allNil = true
	}
	if g.forceReplace || g.forceBlock {
		allNil = false // (which singletons were built before a failing one is up to the order: not a C06 matter)
	}
	if allNil {
		// the constructor leaves every output nil: it still runs once per Build / scope (multi-return), or fails as a
		// whole with "produced no services" (result object), every time it is asked
		for k := range m.Dyn {
			m.Dyn[k] = tNilOut
		}
	} else if g.p(0.3) {
		// the constructor leaves one of its plain outputs nil: nothing is provided for it, the constructor still
		// runs once per Build / scope, and its other outputs are not replaced when the nil one is asked for
		var cand []int
		for k := range outs {
			// a multi-return constructor can leave only an interface-typed return value nil in this sense (a nil
			// pointer in a pointer-typed return value is an ordinary, if useless, instance); a result object skips
			// every nil field
			// (a group member left nil stays in the group as a nil element: F32)
			if m.Form.Kind == "result" || m.Form.Rets[k] >= 16 {
				cand = append(cand, k)
			}
		}
		if len(cand) > 0 && len(outs) > 1 {
			m.Dyn[cand[g.n(len(cand))]] = tNilOut
		}
	}
	var plain []ident
	for _, id := range outs {
		if id.group == 0 {
			plain = append(plain, id)
		}
	}
	var ops []Op
	// something the newcomer and the consumer can depend on
	base := &Reg{ID: g.nextRid, Life: Singleton, Form: Form{Kind: "ctor", Rets: []int{tys[7]}}, Dyn: []int{tys[7]}, CFail: []bool{false}}
	g.nextRid++
	ops = append(ops, Op{Kind: "add", Reg: base})
	if m.Form.Kind == "result" && (g.p(0.15) || g.forceBlock) {
		// one plain field's identity is taken already: the whole registration is refused, after some of its fields
		// (group members among them) had been entered; nothing of it may stay behind
		for _, f := range m.Form.Fields {
			if f.Name == 0 && f.Group == 0 {
				blk := &Reg{ID: g.nextRid, Life: g.life([3]int{1, 1, 1}), Form: Form{Kind: "ctor", Rets: []int{f.Ty}}, Dyn: []int{f.Ty % 16}, CFail: []bool{false}}
				g.nextRid++
				ops = append(ops, Op{Kind: "add", Reg: blk})
				break
			}
		}
	}
	ops = append(ops, Op{Kind: "add", Reg: m}, Op{Kind: "count"}, Op{Kind: "slice"})
	for _, f := range m.Form.Fields {
		if f.Group != 0 && g.p(0.5) {
			// one more member of that group from a plain constructor
			mem := &Reg{ID: g.nextRid, Life: life, Form: Form{Kind: "ctor", Rets: []int{f.Ty}}, Dyn: []int{f.Ty % 16}, CFail: []bool{false}, Group: f.Group}
			g.nextRid++
			ops = append(ops, Op{Kind: "add", Reg: mem})
			break
		}
	}
	nprov := 0
	if g.p(0.4) {
		ops = append(ops, Op{Kind: "build"})
		nprov++
	}
	var victim *ident
	replaced := false
	if len(plain) > 0 && (g.p(0.85) || g.forceReplace) {
		v := plain[g.n(len(plain))]
		victim = &v
		if v.name != 0 {
			ops = append(ops, Op{Kind: "removekeyed", Ty: v.ty, Name: v.name}, Op{Kind: "containskeyed", Ty: v.ty, Name: v.name})
		} else {
			ops = append(ops, Op{Kind: "remove", Ty: v.ty}, Op{Kind: "contains", Ty: v.ty})
		}
		ops = append(ops, Op{Kind: "count"}, Op{Kind: "slice"})
		if g.p(0.6) || g.forceReplace {
			// the freed identity is taken by another constructor (the newcomer depends on something, so that it runs late)
			nl := g.life([3]int{1, 2, 1})
			if life == Singleton && (g.p(0.7) || g.forceReplace) {
				nl = Singleton
			}
			nd := v.ty
			if nd >= 16 {
				nd = g.n(16)
			}
			// the newcomer depends on something (it runs late), or on nothing: then whether it or the multi-output
			// constructor runs first at Build is up to the order of a hash map
			var nps []Param
			if g.p(0.5) && !g.forceReplace {
				nps = []Param{{Dep: Dep{Ty: tys[7]}}}
			}
			n := &Reg{ID: g.nextRid, Life: nl, Form: Form{Kind: "ctor", Params: nps, Rets: []int{v.ty}}, Dyn: []int{nd}, CFail: []bool{false}, Name: v.name}
			g.nextRid++
			ops = append(ops, Op{Kind: "add", Reg: n}, Op{Kind: "count"})
			replaced = true
		}
	}
	// a consumer of a sibling (and of the replaced identity, if any), never longer-lived than what it uses
	if len(plain) > 1 && g.p(0.6) {
		var ps []Param
		for _, id := range plain {
			if victim != nil && id == *victim && !replaced {
				continue
			}
			if g.p(0.7) {
				ps = append(ps, Param{Dep: Dep{Ty: id.ty, Name: id.name}})
			}
		}
		for _, id := range outs {
			if id.group != 0 && g.p(0.5) {
				ps = append(ps, Param{Dep: Dep{Ty: id.ty, Group: id.group}})
				break
			}
		}
		cl := Transient
		if life == Singleton && !replaced && g.p(0.5) {
			cl = Singleton
		}
		// positional parameters where no tag is needed: an output left nil arrives as the zero value there too
		inobj := g.p(0.5)
		for _, prm := range ps {
			if prm.Dep.Name != 0 || prm.Dep.Group != 0 || prm.Dep.Opt {
				inobj = true
			}
		}
		c := &Reg{ID: g.nextRid, Life: cl, Form: Form{Kind: "ctor", InObj: inobj, Params: ps, Rets: []int{tys[6]}}, Dyn: []int{tys[6]}, CFail: []bool{false}, Name: 9}
		g.nextRid++
		ops = append(ops, Op{Kind: "add", Reg: c})
		outs = append(outs, ident{tys[6], 9, 0})
	}
	ops = append(ops, Op{Kind: "build"})
	nprov++
	for p := 0; p < nprov; p++ {
		ops = append(ops, Op{Kind: "createscope", P: p, Parent: 0})
		order := g.rnd.Perm(len(outs))
		for rep := 0; rep < 2; rep++ {
			h := 1
			if rep == 1 && g.p(0.5) {
				h = 0
			}
			for _, k := range order {
				id := outs[k]
				if id.group != 0 {
					ops = append(ops, Op{Kind: "resolvegroup", P: p, H: h, Ty: id.ty, Group: id.group})
				} else {
					ops = append(ops, Op{Kind: "resolve", P: p, H: h, Ty: id.ty, Name: id.name})
				}
			}
		}
	}
	for p := 0; p < nprov; p++ {
		if g.p(0.7) {
			ops = append(ops, Op{Kind: "close", P: p, H: 1})
		}
		ops = append(ops, Op{Kind: "closeprovider", P: p})
	}
	return Group{Cases: []Case{{Name: fmt.Sprintf("%d/multi-out", i), Ops: ops}}}
}

// aliasAfterBuildCase: a registration under two As interfaces, a Build, then one interface removed from the
// collection (and sometimes taken by another constructor): the built provider still shares one instance
// between both interfaces, a provider built afterwards sees the change.
func (g *Gen) aliasAfterBuildCase(i int) Group {
	ifs := g.rnd.Perm(4)
	a, b := 16+ifs[0], 16+ifs[1]
	life := g.life([3]int{1, 3, 1})
	dyn := g.n(16)
	s := &Reg{ID: g.nextRid, Life: life, Form: Form{Kind: "ctor", Rets: []int{dyn}}, Dyn: []int{dyn}, CFail: []bool{false}, As: []int{a, b}}
	g.nextRid++
	ops := []Op{{Kind: "add", Reg: s}, {Kind: "build"}, {Kind: "remove", Ty: a}, {Kind: "contains", Ty: a}, {Kind: "count"}}
	if g.p(0.5) {
		d2 := g.n(16)
		n := &Reg{ID: g.nextRid, Life: g.life([3]int{1, 2, 1}), Form: Form{Kind: "ctor", Rets: []int{d2}}, Dyn: []int{d2}, CFail: []bool{false}, As: []int{a}}
		g.nextRid++
		ops = append(ops, Op{Kind: "add", Reg: n})
	}
	ops = append(ops, Op{Kind: "build"})
	for p := 0; p < 2; p++ {
		ops = append(ops, Op{Kind: "createscope", P: p, Parent: 0})
		first, second := b, a
		if g.p(0.5) {
			first, second = a, b
		}
		ops = append(ops, Op{Kind: "resolve", P: p, H: 1, Ty: first}, Op{Kind: "resolve", P: p, H: 1, Ty: second},
			Op{Kind: "resolve", P: p, H: 1, Ty: first}, Op{Kind: "resolve", P: p, H: 0, Ty: second})
	}
	ops = append(ops, Op{Kind: "closeprovider", P: 0}, Op{Kind: "closeprovider", P: 1})
	// the twin: no change after the first Build, the first provider used in the same way
	var twin []Op
	built := false
	for _, o := range ops {
		switch o.Kind {
		case "add", "remove", "contains", "count":
			if built {
				continue
			}
		case "build":
			if built {
				continue
			}
			built = true
		default:
			if o.P != 0 {
				continue
			}
		}
		twin = append(twin, o)
	}
	return Group{Kind: "snapshot-twins", Cases: []Case{{Name: fmt.Sprintf("%d/alias-after-build", i), Ops: ops}, {Name: fmt.Sprintf("%d/alias-after-build-twin", i), Ops: twin}}}
}

// snapshotTwins (C17, "a provider that has been built is unaffected by later changes to the collection"):
// the same registrations, Build and provider history twice - once with removals, re-registrations and new
// registrations interleaved after the Build, once without. The provider's part of both traces must be
// equivalent (same results, isomorphic object graphs).
func (g *Gen) snapshotTwins(i int) Group {
	cfg := defaultCfg()
	cfg.NRegs = 3 + g.n(5)
	cfg.PMulti, cfg.PResult, cfg.PAs = 0.2, 0.2, 0.35
	cfg.PGroup = 0.3
	cfg.LifeWeights = [3]int{2, 4, 2}
	regs := g.RegSet(cfg)
	if g.p(0.3) {
		regs = g.aliasGroupFamily(g.life([3]int{1, 2, 1}))
	}
	head := append(addOps(regs), Op{Kind: "build"})
	h := defaultHist()
	h.NOps = 14 + g.n(10)
	h.MaxScopes = 3
	h.PCloseProv = 0
	hist := g.History(regs, 0, h)
	// the changes
	var removable []ident
	for _, r := range regs {
		for _, id := range regOutputs(r) {
			if id.group == 0 && id.ty != tVoid {
				removable = append(removable, id)
			}
		}
	}
	var changes []Op
	for k := 0; k < 2+g.n(4); k++ {
		switch {
		case len(removable) > 0 && g.p(0.6):
			id := removable[g.n(len(removable))]
			if id.name != 0 {
				changes = append(changes, Op{Kind: "removekeyed", Ty: id.ty, Name: id.name})
			} else {
				changes = append(changes, Op{Kind: "remove", Ty: id.ty})
			}
			if g.p(0.5) {
				d := id.ty
				if d >= 16 {
					d = g.n(16)
				}
				n := &Reg{ID: g.nextRid, Life: g.life([3]int{1, 2, 1}), Form: Form{Kind: "ctor", Rets: []int{id.ty}}, Dyn: []int{d}, CFail: []bool{false}, Name: id.name}
				g.nextRid++
				changes = append(changes, Op{Kind: "add", Reg: n})
			}
		default:
			t := g.n(16)
			n := &Reg{ID: g.nextRid, Life: g.life([3]int{1, 2, 1}), Form: Form{Kind: "ctor", Rets: []int{t}}, Dyn: []int{t}, CFail: []bool{false}, Name: 5 + g.n(3), Group: 0}
			if g.p(0.4) {
				n.Name, n.Group = 0, 1+g.n(2) // a new member for a group the provider may hand out
			}
			g.nextRid++
			changes = append(changes, Op{Kind: "add", Reg: n})
		}
	}
	// interleave: the first change right after the Build, the others anywhere
	with := append([]Op(nil), head...)
	pos := make([]int, len(changes))
	for k := range pos {
		if k > 0 {
			pos[k] = g.n(len(hist) + 1)
		}
	}
	sort.Ints(pos)
	ci := 0
	for k := 0; k <= len(hist); k++ {
		for ci < len(changes) && pos[ci] == k {
			with = append(with, changes[ci])
			ci++
		}
		if k < len(hist) {
			with = append(with, hist[k])
		}
	}
	without := append(append([]Op(nil), head...), hist...)
	return Group{Kind: "snapshot-twins", Cases: []Case{{Name: fmt.Sprintf("%d/changed", i), Ops: with}, {Name: fmt.Sprintf("%d/unchanged", i), Ops: without}}}
}

// embeddedCase: a parameter object that takes one dependency through an embedded (anonymous) field, and a result
// object that provides one service through an embedded field. An embedded field is a dependency / an output like
// any other: it is wired, it counts for cycles, lifetime conflicts and missing dependencies, and the constructor
// of the result object runs once per scope.
func (g *Gen) embeddedCase(i int) Group {
	mk := func(life int, f Form, dyn []int) *Reg {
		r := &Reg{ID: g.nextRid, Life: life, Form: f, Dyn: dyn}
		for range dyn {
			r.CFail = append(r.CFail, false)
		}
		g.nextRid++
		return r
	}
	var regs []*Reg
	variant := g.n(5) // 0 valid, 1 captive, 2 missing, 3 cycle, 4 valid with the optional shape
	lc := g.life([3]int{1, 1, 1})
	l0 := Singleton
	switch variant {
	case 1:
		l0 = Scoped
		if lc == Scoped {
			lc = Transient
		}
	default:
		if lc == Scoped || lc == Transient {
			l0 = g.life([3]int{1, 1, 1})
			if lc == Transient && l0 == Scoped {
				l0 = Transient
			}
		}
	}
	var ps []Param
	switch {
	case variant == 4:
		ps = []Param{{Dep: Dep{Ty: 1, Opt: true}}, {Emb: true, Dep: Dep{Ty: 0}}}
	case g.p(0.5):
		ps = []Param{{Emb: true, Dep: Dep{Ty: 0}}}
	default:
		ps = []Param{{Emb: true, Dep: Dep{Ty: 0}}, {Dep: Dep{Ty: 1}}}
	}
	consumer := mk(lc, Form{Kind: "ctor", InObj: true, Params: ps, Rets: []int{7}}, []int{7})
	p0 := mk(l0, Form{Kind: "ctor", Rets: []int{0}}, []int{0})
	if variant == 3 {
		p0.Form.Params = []Param{{Dep: Dep{Ty: 7}}}
		p0.Life, consumer.Life = Transient, Transient
	}
	if variant != 2 {
		regs = append(regs, p0)
	}
	needs1 := false
	for _, p := range ps {
		if p.Dep.Ty == 1 && !p.Dep.Opt {
			needs1 = true
		}
	}
	if needs1 || (variant == 4 && g.p(0.5)) {
		regs = append(regs, mk(Singleton, Form{Kind: "ctor", Rets: []int{1}}, []int{1}))
	}
	regs = append(regs, consumer)
	// the result object with an embedded field
	lo := g.life([3]int{1, 2, 1})
	out := mk(lo, Form{Kind: "result", Fields: []Field{{Ty: 2, Emb: true}, {Ty: 3}}}, []int{2, 3})
	regs = append(regs, out)
	g.rnd.Shuffle(len(regs), func(a, b int) { regs[a], regs[b] = regs[b], regs[a] })
	ops := addOps(regs)
	ops = append(ops, Op{Kind: "count"}, Op{Kind: "build"}, Op{Kind: "createscope", P: 0, Parent: 0})
	for rep := 0; rep < 2; rep++ {
		h := 1
		if rep == 1 && g.p(0.4) {
			h = 0
		}
		ops = append(ops, Op{Kind: "resolve", P: 0, H: h, Ty: 3}, Op{Kind: "resolve", P: 0, H: h, Ty: 2}, Op{Kind: "resolve", P: 0, H: h, Ty: 3},
			Op{Kind: "resolve", P: 0, H: h, Ty: 7}, Op{Kind: "resolve", P: 0, H: h, Ty: 0})
	}
	ops = append(ops, Op{Kind: "close", P: 0, H: 1}, Op{Kind: "closeprovider", P: 0})
	return Group{Cases: []Case{{Name: fmt.Sprintf("%d/embedded", i), Ops: ops}}}
}

// embeddedBuiltinCase (C18): the built-in injectables taken through embedded fields of a parameter object
// (`struct{ godi.In; context.Context }`), for every lifetime, resolved in nested scopes: an embedded field is a
// dependency like any other, so each construction receives its own scope's context / that very Scope / the provider.
func (g *Gen) embeddedBuiltinCase(i int) Group {
	shapes := [][]Param{
		{{Emb: true, Dep: Dep{Ty: tCtx}}},
		{{Emb: true, Dep: Dep{Ty: tScope}}, {Dep: Dep{Ty: 0}}},
		{{Emb: true, Dep: Dep{Ty: tProv}}},
		{{Dep: Dep{Ty: tScope}}, {Emb: true, Dep: Dep{Ty: tCtx}}},
	}
	var regs []*Reg
	regs = append(regs, &Reg{ID: g.nextRid, Life: Singleton, Form: Form{Kind: "ctor", Rets: []int{0}}, Dyn: []int{0}, CFail: []bool{false}})
	g.nextRid++
	var tys []int
	for k, ps := range shapes {
		if g.p(0.75) {
			t := 1 + k
			regs = append(regs, &Reg{ID: g.nextRid, Life: g.life([3]int{1, 2, 2}), Form: Form{Kind: "ctor", InObj: true, Params: ps, Rets: []int{t}}, Dyn: []int{t}, CFail: []bool{false}})
			g.nextRid++
			tys = append(tys, t)
		}
	}
	g.rnd.Shuffle(len(regs), func(a, b int) { regs[a], regs[b] = regs[b], regs[a] })
	ops := addOps(regs)
	ops = append(ops, Op{Kind: "build"}, Op{Kind: "createscope", P: 0, Parent: 0, Ctx: 1}, Op{Kind: "createscope", P: 0, Parent: 1},
		Op{Kind: "createscope", P: 0, Parent: 2, Ctx: 2}, Op{Kind: "createscope", P: 0, Parent: 0})
	for _, h := range g.rnd.Perm(5) {
		for _, t := range tys {
			ops = append(ops, Op{Kind: "resolve", P: 0, H: h, Ty: t})
		}
	}
	for _, h := range []int{3, 1, 4} {
		ops = append(ops, Op{Kind: "ctxvalue", P: 0, H: h}, Op{Kind: "fromcontext", P: 0, H: h})
	}
	ops = append(ops, Op{Kind: "close", P: 0, H: 1}, Op{Kind: "closeprovider", P: 0})
	return Group{Cases: []Case{{Name: fmt.Sprintf("%d/embedded-builtins", i), Ops: ops}}}
}

// optionalLateCase (C01, C08): a consumer that takes a registered service through an `optional:"true"` field and is
// registered *before* it (the service has a dependency of its own, so it cannot be built first by accident):
// optional or not, the consumer is built after the service and receives that one instance.
func (g *Gen) optionalLateCase(i int) Group {
	tys := g.rnd.Perm(8)
	life := g.life([3]int{3, 1, 1})
	mk := func(l int, ps []Param, t int, inobj bool) *Reg {
		r := &Reg{ID: g.nextRid, Life: l, Form: Form{Kind: "ctor", InObj: inobj, Params: ps, Rets: []int{t}}, Dyn: []int{t}, CFail: []bool{false}}
		g.nextRid++
		return r
	}
	base := mk(Singleton, nil, tys[0], false)
	consumer := mk(life, []Param{{Dep: Dep{Ty: tys[1], Opt: true}}, {Dep: Dep{Ty: tys[0]}}}, tys[2], true)
	late := mk(Singleton, []Param{{Dep: Dep{Ty: tys[0]}}}, tys[1], false)
	regs := []*Reg{consumer, base, late}
	if g.p(0.5) {
		regs = []*Reg{base, consumer, late}
	}
	if g.p(0.4) {
		// one more consumer of the consumer, registered first of all
		regs = append([]*Reg{mk(life, []Param{{Dep: Dep{Ty: tys[2]}}}, tys[3], false)}, regs...)
	}
	ops := addOps(regs)
	ops = append(ops, Op{Kind: "build"}, Op{Kind: "createscope", P: 0, Parent: 0})
	for _, h := range []int{0, 1} {
		for _, t := range []int{tys[2], tys[1], tys[0], tys[3]} {
			ops = append(ops, Op{Kind: "resolve", P: 0, H: h, Ty: t})
		}
	}
	ops = append(ops, Op{Kind: "closeprovider", P: 0})
	return Group{Cases: []Case{{Name: fmt.Sprintf("%d/optional-late", i), Ops: ops}}}
}

// mixedGroupCase (C07): a group whose members have different lifetimes, in every order, consumed through a group field
// by a singleton, a transient or a scoped service: Build refuses exactly when the consumer is not scoped and some
// member - the first, a middle one or the last - is.
func (g *Gen) mixedGroupCase(i int) Group {
	t, grp := g.n(8), 1+g.n(2)
	k := 2 + g.n(3)
	var regs []*Reg
	for j := 0; j < k; j++ {
		regs = append(regs, &Reg{ID: g.nextRid, Life: g.life([3]int{2, 2, 2}), Form: Form{Kind: "ctor", Rets: []int{t}}, Dyn: []int{t}, CFail: []bool{false}, Group: grp})
		g.nextRid++
	}
	consumer := &Reg{ID: g.nextRid, Life: g.life([3]int{2, 1, 2}), Form: Form{Kind: "ctor", InObj: true, Params: []Param{{Dep: Dep{Ty: t, Group: grp}}}, Rets: []int{(t + 1) % 8}}, Dyn: []int{(t + 1) % 8}, CFail: []bool{false}}
	g.nextRid++
	regs = append(regs, consumer)
	if g.p(0.3) {
		g.rnd.Shuffle(len(regs), func(a, b int) { regs[a], regs[b] = regs[b], regs[a] })
	}
	ops := addOps(regs)
	ops = append(ops, Op{Kind: "build"}, Op{Kind: "createscope", P: 0, Parent: 0},
		Op{Kind: "resolve", P: 0, H: 1, Ty: (t + 1) % 8}, Op{Kind: "resolvegroup", P: 0, H: 1, Ty: t, Group: grp},
		Op{Kind: "resolve", P: 0, H: 0, Ty: (t + 1) % 8}, Op{Kind: "closeprovider", P: 0})
	return Group{Cases: []Case{{Name: fmt.Sprintf("%d/mixed-group", i), Ops: ops}}}
}

// dupDepCase: one constructor that takes the same dependency twice (two positional parameters of one type, two
// fields of one type with the same tags, the same group twice, the same absent optional service twice). Each
// occurrence is wired on its own: two transient instances, one scoped or singleton instance twice, and the
// registration set builds.
func (g *Gen) dupDepCase(i int) Group {
	tys := g.rnd.Perm(8)
	lx := g.life([3]int{1, 1, 2})
	x := &Reg{ID: g.nextRid, Life: lx, Form: Form{Kind: "ctor", Rets: []int{tys[0]}}, Dyn: []int{tys[0]}, CFail: []bool{false}}
	g.nextRid++
	lc := Transient
	if lx == Singleton && g.p(0.5) {
		lc = Singleton
	} else if lx != Transient && g.p(0.3) {
		lc = Scoped
	} else if lx == Scoped {
		lc = Scoped
	}
	var ps []Param
	inobj := g.p(0.5)
	regs := []*Reg{x}
	switch g.n(7) {
	case 4:
		// the same absent service once as an optional and once as a required field: it is required
		ps = []Param{{Dep: Dep{Ty: tys[1], Opt: true}}, {Dep: Dep{Ty: tys[0]}}, {Dep: Dep{Ty: tys[1]}}}
		if g.p(0.5) {
			ps[0], ps[2] = ps[2], ps[0]
		}
		inobj = true
	case 5, 6:
		// one type as a plain dependency and as a group: two different dependencies - the group may close a cycle, hold
		// a scoped member, or be empty
		x.Life = lx
		mem := &Reg{ID: g.nextRid, Life: g.life([3]int{1, 1, 1}), Form: Form{Kind: "ctor", Rets: []int{tys[0]}}, Dyn: []int{tys[0]}, CFail: []bool{false}, Group: 1}
		g.nextRid++
		if g.p(0.4) {
			mem.Form.Params = []Param{{Dep: Dep{Ty: tys[2]}}} // the member needs the consumer: a cycle through the group
			mem.Life = Transient
		}
		regs = append(regs, mem)
		ps = []Param{{Dep: Dep{Ty: tys[0]}}, {Dep: Dep{Ty: tys[0], Group: 1}}}
		if g.p(0.5) {
			ps[0], ps[1] = ps[1], ps[0]
		}
		inobj = true
	case 0, 1:
		ps = []Param{{Dep: Dep{Ty: tys[0]}}, {Dep: Dep{Ty: tys[0]}}}
		if g.p(0.3) {
			ps = append(ps, Param{Dep: Dep{Ty: tys[0]}})
		}
	case 2:
		x.Group = 1
		y := &Reg{ID: g.nextRid, Life: lx, Form: Form{Kind: "ctor", Rets: []int{tys[0]}}, Dyn: []int{tys[0]}, CFail: []bool{false}, Group: 1}
		g.nextRid++
		regs = append(regs, y)
		ps = []Param{{Dep: Dep{Ty: tys[0], Group: 1}}, {Dep: Dep{Ty: tys[0], Group: 1}}}
		inobj = true
	default:
		ps = []Param{{Dep: Dep{Ty: tys[1], Opt: true}}, {Dep: Dep{Ty: tys[0]}}, {Dep: Dep{Ty: tys[1], Opt: true}}}
		inobj = true
	}
	c := &Reg{ID: g.nextRid, Life: lc, Form: Form{Kind: "ctor", InObj: inobj, Params: ps, Rets: []int{tys[2]}}, Dyn: []int{tys[2]}, CFail: []bool{false}}
	g.nextRid++
	regs = append(regs, c)
	if g.p(0.5) {
		regs[0], regs[len(regs)-1] = regs[len(regs)-1], regs[0]
	}
	ops := addOps(regs)
	ops = append(ops, Op{Kind: "build"}, Op{Kind: "createscope", P: 0, Parent: 0},
		Op{Kind: "resolve", P: 0, H: 1, Ty: tys[2]}, Op{Kind: "resolve", P: 0, H: 1, Ty: tys[2]}, Op{Kind: "resolve", P: 0, H: 0, Ty: tys[2]},
		Op{Kind: "closeprovider", P: 0})
	return Group{Cases: []Case{{Name: fmt.Sprintf("%d/dup-dep", i), Ops: ops}}}
}

// shutdownCase (C11, C10, C13): an application shutting down - the context of a request scope is cancelled and,
// while the scope's watcher goroutine is still disposing the scope's instances, the provider (or an ancestor scope)
// is closed. The owner has to wait for the scope before it disposes anything of its own: every scope before any
// singleton, descendants before ancestors. Close bodies are slow in these cases so that the overlap is real.
func (g *Gen) shutdownCase(i int) Group {
	tys := g.rnd.Perm(8)
	db := &Reg{ID: g.nextRid, Life: Singleton, Form: Form{Kind: "ctor", Rets: []int{8 + tys[0]}}, Dyn: []int{8 + tys[0]}, CFail: []bool{false}}
	g.nextRid++
	tx := &Reg{ID: g.nextRid, Life: Scoped, Form: Form{Kind: "ctor", Params: []Param{{Dep: Dep{Ty: 8 + tys[0]}}}, Rets: []int{8 + tys[1]}}, Dyn: []int{8 + tys[1]}, CFail: []bool{false}}
	g.nextRid++
	tr := &Reg{ID: g.nextRid, Life: Transient, Form: Form{Kind: "ctor", Rets: []int{8 + tys[2]}}, Dyn: []int{8 + tys[2]}, CFail: []bool{g.p(0.4)}}
	g.nextRid++
	ops := addOps([]*Reg{db, tx, tr})
	ops = append(ops, Op{Kind: "build"})
	// an application scope (own context 1), request scopes below it or next to it (own contexts)
	ops = append(ops, Op{Kind: "createscope", P: 0, Parent: 0, Ctx: 1}) // 1
	ops = append(ops, Op{Kind: "resolve", P: 0, H: 1, Ty: 8 + tys[1]})
	nreq := 1 + g.n(5)
	parents := make([]int, nreq)
	for k := 0; k < nreq; k++ {
		parent := 0
		if g.p(0.6) {
			parent = 1
		}
		parents[k] = parent
		ops = append(ops, Op{Kind: "createscope", P: 0, Parent: parent, Ctx: 2 + k})
		h := 2 + k
		ops = append(ops, Op{Kind: "resolve", P: 0, H: h, Ty: 8 + tys[1]})
		if g.p(0.6) {
			ops = append(ops, Op{Kind: "resolve", P: 0, H: h, Ty: 8 + tys[2]})
		}
	}
	// which context is cancelled, and which owner is closed while its watcher is at work: the provider (any context), or
	// the application scope (a request scope below it)
	var below []int
	for k := 0; k < nreq; k++ {
		if parents[k] == 1 {
			below = append(below, 2+k)
		}
	}
	if len(below) > 0 && g.p(0.5) {
		ops = append(ops, Op{Kind: "cancel", Ctx: below[g.n(len(below))], NoWait: true}, Op{Kind: "close", P: 0, H: 1})
	} else {
		ops = append(ops, Op{Kind: "cancel", Ctx: 1 + g.n(1+nreq), NoWait: true}, Op{Kind: "closeprovider", P: 0})
	}
	ops = append(ops, Op{Kind: "closeprovider", P: 0}, Op{Kind: "resolve", P: 0, H: 0, Ty: 8 + tys[0]})
	return Group{Cases: []Case{{Name: fmt.Sprintf("%d/shutdown", i), Ops: ops, SlowClose: true}}}
}
