package main

// harness — generator, runner and Gallina emitter for the godi verification checks.
//
//   harness go  -prop C20 -seed 1 -n 300 -out DIR   generate, run on /repo's godi (in child
//                                                   processes), write DIR/cases.json and DIR/cases_<k>.v
//   harness run -in FILE -out FILE -from K          (child) run the groups of FILE starting at K
//   harness replay -prop C20 -in FILE -out DIR      re-run the groups of a replay file

import (
	"bufio"
	"encoding/json"
	"flag"
	"fmt"
	"os"
	"os/exec"
	"runtime/debug"
	"sort"
	"strings"
	"time"
)

// A Group is a list of cases checked together by one check_<prop> call.
type Group struct {
	ID    int    `json:"id"`
	Kind  string `json:"kind,omitempty"`
	Cases []Case `json:"cases"`
}

var execCommand = exec.Command

func die(format string, a ...any) {
	fmt.Fprintf(os.Stderr, format+"\n", a...)
	os.Exit(2)
}

func main() {
	if len(os.Args) < 2 {
		die("usage: harness go|run|replay ...")
	}
	switch os.Args[1] {
	case "go":
		cmdGo(os.Args[2:])
	case "run":
		cmdRun(os.Args[2:])
	case "replay":
		cmdReplay(os.Args[2:])
	case "gallina":
		cmdGallina(os.Args[2:])
	case "web":
		cmdWeb(os.Args[2:])
	case "graph":
		cmdGraph(os.Args[2:])
	case "conc":
		cmdConc(os.Args[2:])
	default:
		die("unknown command %s", os.Args[1])
	}
}

func writeJSON(path string, v any) {
	f, err := os.Create(path)
	if err != nil {
		die("%v", err)
	}
	enc := json.NewEncoder(f)
	if err := enc.Encode(v); err != nil {
		die("%v", err)
	}
	f.Close()
}

func readGroups(path string) []Group {
	b, err := os.ReadFile(path)
	if err != nil {
		die("%v", err)
	}
	var gs []Group
	if err := json.Unmarshal(b, &gs); err != nil {
		die("%s: %v", path, err)
	}
	return gs
}

// runInChildren executes the groups in child processes; a child that dies (stack overflow,
// fatal error, deadlock) is attributed to the group in flight.
func runInChildren(groups []Group, dir string) []Group {
	in := dir + "/groups_in.json"
	out := dir + "/groups_out.jsonl"
	writeJSON(in, groups)
	os.Remove(out)
	self, _ := os.Executable()
	done, deaths := 0, 0
	results := make([]Group, 0, len(groups))
	for done < len(groups) {
		cmd := exec.Command(self, "run", "-in", in, "-out", out, "-from", fmt.Sprint(done))
		var stderr strings.Builder
		cmd.Stderr = &stderr
		cmd.Stdout = os.Stdout
		err := cmd.Run()
		// read what was completed
		results = results[:0]
		if f, e := os.Open(out); e == nil {
			sc := bufio.NewScanner(f)
			sc.Buffer(make([]byte, 1<<20), 1<<28)
			for sc.Scan() {
				var g Group
				if json.Unmarshal(sc.Bytes(), &g) == nil {
					results = append(results, g)
				}
			}
			f.Close()
		}
		if err == nil && len(results) >= len(groups) {
			break
		}
		if len(results) >= len(groups) {
			break
		}
		// the child died on group len(results)
		g := groups[len(results)]
		msg := firstLine(stderr.String())
		if msg == "" {
			msg = fmt.Sprint(err)
		}
		for i := range g.Cases {
			g.Cases[i].Crash = "runner died: " + msg
		}
		f, _ := os.OpenFile(out, os.O_APPEND|os.O_WRONLY|os.O_CREATE, 0o644)
		b, _ := json.Marshal(g)
		f.Write(append(b, '\n'))
		f.Close()
		results = append(results, g)
		done = len(results)
		// six groups that killed the runner are six replays: the rest of the run would add waiting time only
		// (a deadlock costs the watchdog's twenty seconds per group)
		if deaths++; deaths >= 6 {
			fmt.Fprintf(os.Stderr, "runner died on %d groups: the remaining %d groups are not run\n", deaths, len(groups)-done)
			break
		}
	}
	os.Remove(in)
	return results
}

func cmdRun(args []string) {
	fs := flag.NewFlagSet("run", flag.ExitOnError)
	in := fs.String("in", "", "")
	out := fs.String("out", "", "")
	from := fs.Int("from", 0, "")
	fs.Parse(args)
	debug.SetMaxStack(64 << 20)
	groups := readGroups(*in)
	f, err := os.OpenFile(*out, os.O_APPEND|os.O_WRONLY|os.O_CREATE, 0o644)
	if err != nil {
		die("%v", err)
	}
	defer f.Close()
	for gi := *from; gi < len(groups); gi++ {
		g := groups[gi]
		finished := make(chan struct{})
		go func() {
			for i := range g.Cases {
				runCase(&g.Cases[i])
			}
			close(finished)
		}()
		select {
		case <-finished:
		case <-time.After(20 * time.Second):
			fmt.Fprintf(os.Stderr, "watchdog: group %d did not finish in 20s (deadlock or livelock)\n", g.ID)
			os.Exit(3)
		}
		b, _ := json.Marshal(g)
		f.Write(append(b, '\n'))
	}
}

// emit writes the Gallina files: one Eval per group, at most shard groups per file.
func emit(prop string, groups []Group, dir string, shard int) int {
	// one coqc per file, all files in parallel: about sixteen files for small runs
	if per := (len(groups) + 15) / 16; per < shard {
		shard = per
		if shard < 20 {
			shard = 20
		}
	}
	nfiles := 0
	for start := 0; start < len(groups); start += shard {
		end := start + shard
		if end > len(groups) {
			end = len(groups)
		}
		var b strings.Builder
		b.WriteString("From Coq Require Import NArith.\nFrom Godi Require Import Base Model Check Monitors Checks.\n")
		for _, g := range groups[start:end] {
			var pairs []string
			for _, c := range g.Cases {
				if c.Crash != "" {
					continue
				}
				pairs = append(pairs, "("+gOps(c.Ops)+",\n   "+gTrace(c.Trace)+")")
			}
			if len(pairs) != len(g.Cases) {
				continue // crashed groups are reported by the driver, not evaluated
			}
			fmt.Fprintf(&b, "Eval vm_compute in (%d%%N, check_%s [%s]).\n", g.ID, prop, strings.Join(pairs, ";\n  "))
		}
		path := fmt.Sprintf("%s/cases_%s_%d.v", dir, prop, nfiles)
		if err := os.WriteFile(path, []byte(b.String()), 0o644); err != nil {
			die("%v", err)
		}
		nfiles++
	}
	return nfiles
}

type Summary struct {
	Prop     string         `json:"prop"`
	Seed     int64          `json:"seed"`
	Groups   int            `json:"groups"`
	Cases    int            `json:"cases"`
	Files    int            `json:"files"`
	Crashed  []int          `json:"crashed,omitempty"`
	Dist     map[string]int `json:"distribution"`
	Distinct int            `json:"distinct"`
	NonTriv  int            `json:"nontrivial"`
}

func summarize(prop string, seed int64, groups []Group, files int) Summary {
	s := Summary{Prop: prop, Seed: seed, Groups: len(groups), Files: files, Dist: map[string]int{}}
	seen := map[string]bool{}
	for _, g := range groups {
		nontriv := false
		var key strings.Builder
		for _, c := range g.Cases {
			s.Cases++
			if c.Crash != "" {
				s.Crashed = append(s.Crashed, g.ID)
			}
			key.WriteString(gOps(stripOracles(c.Ops)))
			for i, op := range c.Ops {
				s.Dist["op:"+op.Kind]++
				if op.Reg != nil {
					countReg(s.Dist, op.Reg)
				}
				countMods(s.Dist, op.Mods)
				if i < len(c.Trace) {
					st := c.Trace[i]
					if st.Result.Kind == "err" {
						s.Dist["err:"+st.Result.Class]++
					}
					for _, e := range st.Events {
						s.Dist["ev:"+e.Kind]++
						if e.Kind == "ctor" && len(e.Args) > 0 {
							nontriv = true
						}
						if e.Kind == "closed" {
							nontriv = true
						}
					}
					if op.Kind == "build" {
						if st.Result.Kind == "err" {
							s.Dist["build:fail"]++
						} else {
							s.Dist["build:ok"]++
						}
					}
					if st.Result.Kind == "err" && (op.Kind == "add" || op.Kind == "modules" || op.Kind == "build") {
						nontriv = true
					}
				}
			}
		}
		k := key.String()
		if !seen[k] {
			seen[k] = true
			s.Distinct++
			if nontriv {
				s.NonTriv++
			}
		}
	}
	return s
}

func stripOracles(ops []Op) []Op {
	out := make([]Op, len(ops))
	copy(out, ops)
	for i := range out {
		out[i].Ord = nil
	}
	return out
}

func countReg(d map[string]int, r *Reg) {
	d["life:"+gLife(r.Life)]++
	f := r.Form.Kind
	if f == "ctor" {
		switch len(r.Form.Rets) {
		case 0:
			f = "void"
		case 1:
			f = "ctor1"
		default:
			f = "multi"
		}
	}
	d["form:"+f]++
	if r.Name != 0 {
		d["opt:name"]++
	}
	if r.Group != 0 {
		d["opt:group"]++
	}
	if len(r.As) > 0 {
		d[fmt.Sprintf("opt:as%d", len(r.As))]++
	}
	if r.Bad != 0 {
		d["malformed"]++
	}
	if r.Form.InObj {
		d["params:in-object"]++
	}
	for _, p := range r.Form.Params {
		switch {
		case p.Skip:
			d["dep:ignored"]++
		case p.Dep.Group != 0:
			d["dep:group"]++
		case p.Dep.Ty >= 100:
			d["dep:builtin"]++
		case p.Dep.Opt:
			d["dep:optional"]++
		case p.Dep.Name != 0:
			d["dep:keyed"]++
		default:
			d["dep:plain"]++
		}
	}
	for _, o := range r.Script {
		if o != OOk {
			d["fault:"+gOutcome(o)]++
		}
	}
}

func countMods(d map[string]int, ms []Module) {
	for _, m := range ms {
		d["module:"+m.Kind]++
		if m.Reg != nil {
			countReg(d, m.Reg)
		}
		countMods(d, m.Mods)
	}
}

func cmdGo(args []string) {
	fs := flag.NewFlagSet("go", flag.ExitOnError)
	prop := fs.String("prop", "", "")
	seed := fs.Int64("seed", 1, "")
	n := fs.Int("n", 100, "")
	out := fs.String("out", "", "")
	shard := fs.Int("shard", 250, "")
	corpus := fs.String("corpus", "", "replay files to run first (comma separated)")
	thorough := fs.Bool("thorough", false, "")
	_ = thorough
	sprobe := fs.Bool("shapesprobe", false, "")
	pprobe := fs.Bool("paramprobe", false, "")
	fs.Parse(args)
	if *sprobe {
		b, _ := json.Marshal(shapesProbe())
		fmt.Println(string(b))
		return
	}
	if *pprobe {
		b, _ := json.Marshal(paramObjectProbe())
		fmt.Println(string(b))
		return
	}
	os.MkdirAll(*out, 0o755)
	var groups []Group
	if *corpus != "" {
		for _, f := range strings.Split(*corpus, ",") {
			if f != "" {
				groups = append(groups, readGroups(f)...)
			}
		}
		for i := range groups {
			for j := range groups[i].Cases {
				groups[i].Cases[j].Trace = nil
				groups[i].Cases[j].Crash = ""
			}
		}
	}
	ncorpus := len(groups)
	groups = append(groups, generate(*prop, *seed, *n)...)
	for i := range groups {
		groups[i].ID = i
	}
	results := runInChildren(groups, *out)
	sort.Slice(results, func(i, j int) bool { return results[i].ID < results[j].ID })
	files := emit(*prop, results, *out, *shard)
	writeJSON(*out+"/cases.json", results)
	sum := summarize(*prop, *seed, results, files)
	sum.Dist["corpus-groups"] = ncorpus
	writeJSON(*out+"/summary.json", sum)
}

func cmdReplay(args []string) {
	fs := flag.NewFlagSet("replay", flag.ExitOnError)
	prop := fs.String("prop", "", "")
	in := fs.String("in", "", "")
	out := fs.String("out", "", "")
	fs.Parse(args)
	os.MkdirAll(*out, 0o755)
	groups := readGroups(*in)
	for i := range groups {
		groups[i].ID = i
		for j := range groups[i].Cases {
			groups[i].Cases[j].Trace = nil
			groups[i].Cases[j].Crash = ""
		}
	}
	results := runInChildren(groups, *out)
	files := emit(*prop, results, *out, 250)
	writeJSON(*out+"/cases.json", results)
	writeJSON(*out+"/summary.json", summarize(*prop, 0, results, files))
}

// cmdGallina prints the Gallina terms of the cases of a replay file (for tools/explain.py).
func cmdGallina(args []string) {
	fs := flag.NewFlagSet("gallina", flag.ExitOnError)
	in := fs.String("in", "", "")
	fs.Parse(args)
	var out []map[string]string
	for _, g := range readGroups(*in) {
		for _, c := range g.Cases {
			out = append(out, map[string]string{"ops": gOps(c.Ops), "trace": gTrace(c.Trace)})
		}
	}
	b, _ := json.Marshal(out)
	os.Stdout.Write(b)
}
