package main

// Isolation probe (C09, C18): overlapping constructions of one service in two scopes.
//
// A handler takes, in this order, the scope's context, the Scope, a scoped request object and a transient whose
// constructor can be held. Thread 1 resolves the handler in scope A and is held inside the transient's constructor
// (its earlier arguments are already resolved); thread 2 then resolves the handler in scope B from start to end;
// then thread 1 is released. Each handler must have been built from its own scope's context, Scope and request
// object - nothing the container keeps per constructor may be shared between two constructions in flight.
// The oracle needs no model: it compares each handler's arguments with what its own scope answers.

import (
	"context"
	"fmt"
	"time"

	godi "github.com/junioryono/godi/v4"
)

type pReq struct{ n int }
type pSlow struct{ n int }
type pHandler struct {
	ctx   context.Context
	scope godi.Scope
	req   *pReq
}
type pHandlerIn struct {
	godi.In
	Ctx   context.Context
	Scope godi.Scope
	Req   *pReq
	Slow  *pSlow
}

type pHandlerInT struct {
	godi.In
	Ctx   context.Context
	Scope godi.Scope
	Slow  *pSlow
}

type ProbeReport struct {
	Rounds int      `json:"rounds"`
	Bad    []string `json:"bad"`
}

func isolationProbe() ProbeReport {
	rep := ProbeReport{}
	for _, form := range []string{"positional", "param-object"} {
		for _, life := range []string{"scoped", "transient"} {
			for _, order := range []string{"A-held", "B-held"} {
				rep.Rounds++
				if msg := probeRound(form, life, order); msg != "" {
					rep.Bad = append(rep.Bad, fmt.Sprintf("%s/%s/%s: %s", form, life, order, msg))
				}
			}
		}
	}
	return rep
}

func probeRound(form, life, order string) (msg string) {
	defer func() {
		if v := recover(); v != nil {
			msg = fmt.Sprintf("panic: %v", v)
		}
	}()
	c := godi.NewCollection()
	nreq, nslow := 0, 0
	hold := make(chan struct{})      // closed to release the held constructor
	parked := make(chan struct{}, 1) // the first transient construction reports that it is held
	first := true
	must := func(err error) {
		if err != nil {
			panic(err)
		}
	}
	must(c.AddScoped(func() *pReq { nreq++; return &pReq{nreq} }))
	must(c.AddTransient(func() *pSlow {
		nslow++
		if first {
			first = false
			parked <- struct{}{}
			<-hold
		}
		return &pSlow{nslow}
	}))
	add := c.AddScoped
	if life == "transient" {
		add = c.AddTransient
	}
	switch {
	case form == "positional" && life == "scoped":
		must(add(func(ctx context.Context, s godi.Scope, r *pReq, _ *pSlow) *pHandler { return &pHandler{ctx, s, r} }))
	case form == "positional": // a transient must not take the scoped request object
		must(add(func(ctx context.Context, s godi.Scope, _ *pSlow) *pHandler { return &pHandler{ctx, s, nil} }))
	case life == "scoped":
		must(add(func(in pHandlerIn) *pHandler { return &pHandler{in.Ctx, in.Scope, in.Req} }))
	default:
		must(add(func(in pHandlerInT) *pHandler { return &pHandler{in.Ctx, in.Scope, nil} }))
	}
	p, err := c.Build()
	must(err)
	defer p.Close()
	type key struct{}
	a, err := p.CreateScope(context.WithValue(context.Background(), key{}, "A"))
	must(err)
	b, err := p.CreateScope(context.WithValue(context.Background(), key{}, "B"))
	must(err)
	heldScope, freeScope := a, b
	if order == "B-held" {
		heldScope, freeScope = b, a
	}
	type res struct {
		h   *pHandler
		err error
	}
	heldCh := make(chan res, 1)
	go func() {
		h, err := godi.Resolve[*pHandler](heldScope)
		heldCh <- res{h, err}
	}()
	select {
	case <-parked:
	case <-time.After(5 * time.Second):
		return "the first construction never reached the transient's constructor"
	}
	hf, errf := godi.Resolve[*pHandler](freeScope)
	close(hold)
	var rh res
	select {
	case rh = <-heldCh:
	case <-time.After(5 * time.Second):
		return "the held construction never finished"
	}
	if errf != nil || rh.err != nil {
		return fmt.Sprintf("resolution failed: %v / %v", errf, rh.err)
	}
	check := func(name string, h *pHandler, s godi.Scope) string {
		if h.req != nil {
			want, err := godi.Resolve[*pReq](s)
			if err != nil {
				return err.Error()
			}
			if h.req != want {
				return fmt.Sprintf("handler of scope %s was built from request object %d, its scope owns %d", name, h.req.n, want.n)
			}
		}
		if h.scope == nil || h.scope.ID() != s.ID() {
			return fmt.Sprintf("handler of scope %s received another Scope", name)
		}
		if h.ctx == nil || h.ctx.Value(key{}) != s.Context().Value(key{}) {
			return fmt.Sprintf("handler of scope %s received the context of another scope", name)
		}
		if fs, err := godi.FromContext(h.ctx); err != nil || fs.ID() != s.ID() {
			return fmt.Sprintf("FromContext on the context given to the handler of scope %s yields another scope", name)
		}
		return ""
	}
	heldName, freeName := "A", "B"
	if order == "B-held" {
		heldName, freeName = "B", "A"
	}
	if m := check(heldName, rh.h, heldScope); m != "" {
		return m
	}
	return check(freeName, hf, freeScope)
}
