package main

// Isolation probe (C09, C18): overlapping constructions of one service in two scopes.
//
// A handler takes, in this order, the scope's context, the Scope, a scoped request object and a transient whose
// constructor can be held. Thread 1 resolves the handler in scope A and is held inside the transient's constructor
// (its earlier arguments are already resolved); thread 2 then resolves the handler in scope B from start to end;
// then thread 1 is released. Each handler must have been built from its own scope's context, Scope and request
// object - nothing the container keeps per constructor may be shared between two constructions in flight.
// The oracle needs no model: it compares each handler's arguments with what its own scope answers.

import (
	"context"
	"errors"
	"fmt"
	"io"
	"reflect"
	"sync/atomic"
	"time"

	godi "github.com/junioryono/godi/v4"
)

type pReq struct{ n int }
type pSlow struct{ n int }
type pHandler struct {
	ctx   context.Context
	scope godi.Scope
	req   *pReq
}
type pHandlerIn struct {
	godi.In
	Ctx   context.Context
	Scope godi.Scope
	Req   *pReq
	Slow  *pSlow
}

type pHandlerInT struct {
	godi.In
	Ctx   context.Context
	Scope godi.Scope
	Slow  *pSlow
}

type ProbeReport struct {
	Rounds int      `json:"rounds"`
	Bad    []string `json:"bad"`
	// Known: classes of known findings (known_findings.json) that this run observed again
	Known []string `json:"known,omitempty"`
}

// sameScopeTransients: two goroutines resolve one transient in ONE scope, the second while the first is still inside
// the constructor: every request for a transient constructs - two runs, two instances (C03).
func sameScopeTransients() (msg string) {
	defer func() {
		if v := recover(); v != nil {
			msg = fmt.Sprintf("panic: %v", v)
		}
	}()
	var runs int32
	hold := make(chan struct{})
	parked := make(chan struct{}, 2)
	c := godi.NewCollection()
	if err := c.AddTransient(func() *pSlow {
		n := atomic.AddInt32(&runs, 1)
		parked <- struct{}{}
		if n == 1 {
			<-hold
		}
		return &pSlow{int(n)}
	}); err != nil {
		return err.Error()
	}
	p, err := c.Build()
	if err != nil {
		return err.Error()
	}
	defer p.Close()
	s, err := p.CreateScope(context.Background())
	if err != nil {
		return err.Error()
	}
	type res struct {
		v   *pSlow
		err error
	}
	first, second := make(chan res, 1), make(chan res, 1)
	go func() { v, err := godi.Resolve[*pSlow](s); first <- res{v, err} }()
	select {
	case <-parked:
	case <-time.After(5 * time.Second):
		return "the first resolution never reached the constructor"
	}
	go func() { v, err := godi.Resolve[*pSlow](s); second <- res{v, err} }()
	var r2 res
	select {
	case r2 = <-second:
	case <-time.After(2 * time.Second):
		close(hold)
		r1 := <-first
		select {
		case r2 = <-second:
		case <-time.After(5 * time.Second):
			return "the second resolution never returned"
		}
		if r1.v == r2.v || atomic.LoadInt32(&runs) != 2 {
			return fmt.Sprintf("the second request for a transient waited for the first and got its instance (constructor ran %d times)", atomic.LoadInt32(&runs))
		}
		return ""
	}
	close(hold)
	r1 := <-first
	if r1.err != nil || r2.err != nil {
		return fmt.Sprintf("resolution failed: %v / %v", r1.err, r2.err)
	}
	if r1.v == r2.v || atomic.LoadInt32(&runs) != 2 {
		return fmt.Sprintf("two overlapping requests for a transient in one scope: constructor ran %d times, same instance: %v", atomic.LoadInt32(&runs), r1.v == r2.v)
	}
	return ""
}

func isolationProbe() ProbeReport {
	rep := ProbeReport{}
	rep.Rounds++
	if msg := sameScopeTransients(); msg != "" {
		rep.Bad = append(rep.Bad, "same-scope-transients: "+msg)
	}
	for _, how := range []string{"plain", "timeout", "cancellable"} {
		rep.Rounds++
		if msg := buildContextRound(how); msg != "" {
			rep.Bad = append(rep.Bad, "build-context/"+how+": "+msg)
		}
	}
	for _, form := range []string{"positional", "param-object"} {
		for _, life := range []string{"scoped", "transient"} {
			for _, order := range []string{"A-held", "B-held"} {
				rep.Rounds++
				if msg := probeRound(form, life, order); msg != "" {
					rep.Bad = append(rep.Bad, fmt.Sprintf("%s/%s/%s: %s", form, life, order, msg))
				}
			}
		}
	}
	return rep
}

func probeRound(form, life, order string) (msg string) {
	defer func() {
		if v := recover(); v != nil {
			msg = fmt.Sprintf("panic: %v", v)
		}
	}()
	c := godi.NewCollection()
	nreq, nslow := 0, 0
	hold := make(chan struct{})      // closed to release the held constructor
	parked := make(chan struct{}, 1) // the first transient construction reports that it is held
	first := true
	must := func(err error) {
		if err != nil {
			panic(err)
		}
	}
	must(c.AddScoped(func() *pReq { nreq++; return &pReq{nreq} }))
	must(c.AddTransient(func() *pSlow {
		nslow++
		if first {
			first = false
			parked <- struct{}{}
			<-hold
		}
		return &pSlow{nslow}
	}))
	add := c.AddScoped
	if life == "transient" {
		add = c.AddTransient
	}
	switch {
	case form == "positional" && life == "scoped":
		must(add(func(ctx context.Context, s godi.Scope, r *pReq, _ *pSlow) *pHandler { return &pHandler{ctx, s, r} }))
	case form == "positional": // a transient must not take the scoped request object
		must(add(func(ctx context.Context, s godi.Scope, _ *pSlow) *pHandler { return &pHandler{ctx, s, nil} }))
	case life == "scoped":
		must(add(func(in pHandlerIn) *pHandler { return &pHandler{in.Ctx, in.Scope, in.Req} }))
	default:
		must(add(func(in pHandlerInT) *pHandler { return &pHandler{in.Ctx, in.Scope, nil} }))
	}
	p, err := c.Build()
	must(err)
	defer p.Close()
	type key struct{}
	a, err := p.CreateScope(context.WithValue(context.Background(), key{}, "A"))
	must(err)
	b, err := p.CreateScope(context.WithValue(context.Background(), key{}, "B"))
	must(err)
	heldScope, freeScope := a, b
	if order == "B-held" {
		heldScope, freeScope = b, a
	}
	type res struct {
		h   *pHandler
		err error
	}
	heldCh := make(chan res, 1)
	go func() {
		h, err := godi.Resolve[*pHandler](heldScope)
		heldCh <- res{h, err}
	}()
	select {
	case <-parked:
	case <-time.After(5 * time.Second):
		return "the first construction never reached the transient's constructor"
	}
	hf, errf := godi.Resolve[*pHandler](freeScope)
	close(hold)
	var rh res
	select {
	case rh = <-heldCh:
	case <-time.After(5 * time.Second):
		return "the held construction never finished"
	}
	if errf != nil || rh.err != nil {
		return fmt.Sprintf("resolution failed: %v / %v", errf, rh.err)
	}
	check := func(name string, h *pHandler, s godi.Scope) string {
		if h.req != nil {
			want, err := godi.Resolve[*pReq](s)
			if err != nil {
				return err.Error()
			}
			if h.req != want {
				return fmt.Sprintf("handler of scope %s was built from request object %d, its scope owns %d", name, h.req.n, want.n)
			}
		}
		if h.scope == nil || h.scope.ID() != s.ID() {
			return fmt.Sprintf("handler of scope %s received another Scope", name)
		}
		if h.ctx == nil || h.ctx.Value(key{}) != s.Context().Value(key{}) {
			return fmt.Sprintf("handler of scope %s received the context of another scope", name)
		}
		if fs, err := godi.FromContext(h.ctx); err != nil || fs.ID() != s.ID() {
			return fmt.Sprintf("FromContext on the context given to the handler of scope %s yields another scope", name)
		}
		return ""
	}
	heldName, freeName := "A", "B"
	if order == "B-held" {
		heldName, freeName = "B", "A"
	}
	if m := check(heldName, rh.h, heldScope); m != "" {
		return m
	}
	return check(freeName, hf, freeScope)
}

// ---------------------------------------------------------------------------------------------------------------
// Order probe (C11): a construction that finishes while its scope is being closed.
//
// Scope S has a child scope holding a resource whose Close can be held. Thread 1 resolves, in S, a disposable service
// whose constructor can be held (its disposable dependency is constructed first). Thread 2 closes S: it starts with the
// child scope and is held inside the child resource's Close. The constructor of thread 1 is then released and its
// resolution runs to the end; then the child's Close is released. "All descendant scopes are completely disposed
// before their parent disposes its own instances", and within S the reverse of the creation order: the order of the
// Close calls must be child resource, service, dependency. Variants: the number of instances S already owns, and
// whether the service is scoped or transient. The oracle needs no model.

type oRes struct {
	name string
	log  *oLog
	hold chan struct{}
	at   chan struct{}
}
type oLog struct {
	ch chan string
}

func (l *oLog) add(s string) { l.ch <- s }
func (r *oRes) Close() error {
	r.log.add("begin " + r.name)
	if r.hold != nil {
		r.at <- struct{}{}
		<-r.hold
	}
	r.log.add("end " + r.name)
	return nil
}

type oDep struct{ *oRes }
type oSvc struct{ *oRes }
type oChild struct{ *oRes }
type oEarly struct{ *oRes }

// A disposable transient that a singleton received at Build is owned by the root scope, which the provider closes
// before its singletons: the transient is closed while the singleton holding it is still open. Known finding
// (C11, class transient-of-singleton); reported as such while it is there.
type oT struct{ *oRes }
type oS struct {
	*oRes
	t *oT
}

func transientOfSingletonRound() (known bool, msg string) {
	defer func() {
		if v := recover(); v != nil {
			msg = fmt.Sprintf("panic: %v", v)
		}
	}()
	lg := &oLog{ch: make(chan string, 16)}
	c := godi.NewCollection()
	if err := c.AddTransient(func() *oT { return &oT{&oRes{name: "transient", log: lg}} }); err != nil {
		return false, err.Error()
	}
	if err := c.AddSingleton(func(t *oT) *oS { return &oS{&oRes{name: "singleton", log: lg}, t} }); err != nil {
		return false, err.Error()
	}
	p, err := c.Build()
	if err != nil {
		return false, err.Error()
	}
	if err := p.Close(); err != nil {
		return false, err.Error()
	}
	var evs []string
	for len(lg.ch) > 0 {
		evs = append(evs, <-lg.ch)
	}
	switch fmt.Sprint(evs) {
	case "[begin singleton end singleton begin transient end transient]":
		return false, ""
	case "[begin transient end transient begin singleton end singleton]":
		return true, ""
	}
	return false, fmt.Sprintf("a singleton built from a disposable transient: Close calls %v", evs)
}

func orderProbe() ProbeReport {
	rep := ProbeReport{}
	rep.Rounds++
	if known, msg := transientOfSingletonRound(); msg != "" {
		rep.Bad = append(rep.Bad, "transient-of-singleton: "+msg)
	} else if known {
		rep.Known = append(rep.Known, "transient-of-singleton")
	}
	rep.Rounds++
	if msg := rootScopeRound(); msg != "" {
		rep.Bad = append(rep.Bad, "root-scope: "+msg)
	}
	for _, life := range []string{"scoped", "transient"} {
		for _, early := range []bool{false, true} {
			rep.Rounds++
			if msg := orderRound(life, early); msg != "" {
				rep.Bad = append(rep.Bad, fmt.Sprintf("%s/early=%v: %s", life, early, msg))
			}
		}
	}
	return rep
}

func orderRound(life string, early bool) (msg string) {
	defer func() {
		if v := recover(); v != nil {
			msg = fmt.Sprintf("panic: %v", v)
		}
	}()
	must := func(err error) {
		if err != nil {
			panic(err)
		}
	}
	lg := &oLog{ch: make(chan string, 64)}
	holdCtor := make(chan struct{})
	inCtor := make(chan struct{}, 1)
	holdClose := make(chan struct{})
	inClose := make(chan struct{}, 1)
	c := godi.NewCollection()
	must(c.AddScoped(func() *oEarly { return &oEarly{&oRes{name: "early", log: lg}} }))
	must(c.AddScoped(func() *oDep { return &oDep{&oRes{name: "dep", log: lg}} }))
	must(c.AddScoped(func() *oChild { return &oChild{&oRes{name: "child", log: lg, hold: holdClose, at: inClose}} }))
	ctor := func(d *oDep) *oSvc {
		inCtor <- struct{}{}
		<-holdCtor
		return &oSvc{&oRes{name: "svc", log: lg}}
	}
	if life == "scoped" {
		must(c.AddScoped(ctor))
	} else {
		must(c.AddTransient(func(s godi.Scope) *oSvc {
			d, err := godi.Resolve[*oDep](s)
			must(err)
			return ctor(d)
		}))
	}
	p, err := c.Build()
	must(err)
	defer p.Close()
	s, err := p.CreateScope(context.Background())
	must(err)
	ch, err := s.CreateScope(context.Background())
	must(err)
	_, err = godi.Resolve[*oChild](ch)
	must(err)
	if early {
		_, err = godi.Resolve[*oEarly](s)
		must(err)
	}
	resolved := make(chan error, 1)
	go func() {
		_, err := godi.Resolve[*oSvc](s)
		resolved <- err
	}()
	select {
	case <-inCtor:
	case <-time.After(5 * time.Second):
		return "the resolution never reached the service's constructor"
	}
	closed := make(chan error, 1)
	go func() { closed <- s.Close() }()
	select {
	case <-inClose:
	case <-time.After(5 * time.Second):
		return "Close of the scope never reached the child scope's resource"
	}
	close(holdCtor)
	select {
	case <-resolved:
	case <-time.After(5 * time.Second):
		return "the held resolution never finished"
	}
	close(holdClose)
	select {
	case <-closed:
	case <-time.After(5 * time.Second):
		return "Close of the scope never finished"
	}
	var evs []string
	for len(lg.ch) > 0 {
		evs = append(evs, <-lg.ch)
	}
	want := []string{"begin child", "end child", "begin svc", "end svc", "begin dep", "end dep"}
	if early {
		want = append(want, "begin early", "end early")
	}
	if fmt.Sprint(evs) != fmt.Sprint(want) {
		return fmt.Sprintf("close calls %v, expected %v (descendant scopes completely first, then the scope's own instances newest first)", evs, want)
	}
	return ""
}

// ---------------------------------------------------------------------------------------------------------------
// Overlap probe (C13, C15): a scope is closed while a construction in it is still inside the constructor.
//
// "An operation that overlaps a Close either completes normally or reports the disposed error - it never panics,
// hangs, or returns a half-initialised result", for every constructor form: the pending resolution must return
// (a value or an error, no panic), and every disposable the constructor made must have been closed exactly once
// when everything is over (the scope was already closed when they were handed to it: nobody else will close them).

type vA struct {
	closed *int32
}

func (a *vA) Close() error { atomic.AddInt32(a.closed, 1); return nil }

type vB struct{ closed *int32 }

func (b *vB) Close() error { atomic.AddInt32(b.closed, 1); return nil }

type vI interface{ Close() error }

type vOut struct {
	godi.Out
	A *vA
	B *vB
}
type vOutG struct {
	godi.Out
	A *vA
	B *vB `group:"bs"`
}

func overlapProbe() ProbeReport {
	rep := ProbeReport{}
	for _, form := range []string{"plain", "multi-return", "multi-return-nil", "result", "result-nil-field", "result-group", "as-two"} {
		for _, life := range []string{"scoped", "transient"} {
			for _, who := range []string{"scope", "provider"} {
				rep.Rounds++
				if msg := overlapRound(form, life, who); msg != "" {
					rep.Bad = append(rep.Bad, fmt.Sprintf("%s/%s/closed-by-%s: %s", form, life, who, msg))
				}
			}
		}
	}
	for _, shape := range []string{"own-scope", "parent-from-child", "twice"} {
		rep.Rounds++
		if msg := reentrantRound(shape); msg != "" {
			rep.Bad = append(rep.Bad, fmt.Sprintf("re-entrant Close/%s: %s", shape, msg))
		}
	}
	return rep
}

// reentrantRound: a Close method that itself calls Close on the scope being closed (an instance that holds the
// injected Scope), or on the parent that is closing it. "Calling Close again ... returns nil and closes nothing a
// second time" - and does not wait for itself.
type vCloser struct {
	target func() godi.Scope
	n      *int32
	inner  *error
}

func (c *vCloser) Close() error {
	atomic.AddInt32(c.n, 1)
	if t := c.target(); t != nil {
		*c.inner = t.Close()
	}
	return nil
}

func reentrantRound(shape string) (msg string) {
	defer func() {
		if v := recover(); v != nil {
			msg = fmt.Sprintf("panic: %v", v)
		}
	}()
	must := func(err error) {
		if err != nil {
			panic(err)
		}
	}
	var n int32
	var inner error
	var parent godi.Scope
	c := godi.NewCollection()
	must(c.AddScoped(func(s godi.Scope) *vCloser {
		return &vCloser{n: &n, inner: &inner, target: func() godi.Scope {
			if shape == "parent-from-child" {
				return parent
			}
			return s
		}}
	}))
	p, err := c.Build()
	must(err)
	defer func() { go p.Close() }() // (not waited for: a Close that waits for itself would hang the probe)
	s, err := p.CreateScope(context.Background())
	must(err)
	parent = s
	victim := s
	if shape == "parent-from-child" {
		ch, err := s.CreateScope(context.Background())
		must(err)
		victim = ch
	}
	_, err = godi.Resolve[*vCloser](victim)
	must(err)
	done := make(chan error, 1)
	go func() {
		err := s.Close()
		if shape == "twice" && err == nil {
			err = s.Close()
		}
		done <- err
	}()
	select {
	case err := <-done:
		if err != nil {
			return fmt.Sprintf("Close returned %v", err)
		}
	case <-time.After(5 * time.Second):
		return "Close never returned (it waits for itself)"
	}
	if inner != nil {
		return fmt.Sprintf("the inner Close returned %v", inner)
	}
	if got := atomic.LoadInt32(&n); got != 1 {
		return fmt.Sprintf("the instance was closed %d times", got)
	}
	return ""
}

func overlapRound(form, life, who string) (msg string) {
	defer func() {
		if v := recover(); v != nil {
			msg = fmt.Sprintf("panic: %v", v)
		}
	}()
	must := func(err error) {
		if err != nil {
			panic(err)
		}
	}
	var ca, cb int32
	made := 0 // how many disposables the constructor hands back
	hold := make(chan struct{})
	in := make(chan struct{}, 1)
	wait := func() {
		in <- struct{}{}
		<-hold
	}
	c := godi.NewCollection()
	add := c.AddScoped
	if life == "transient" {
		add = c.AddTransient
	}
	switch form {
	case "plain":
		made = 1
		must(add(func() *vA { wait(); return &vA{&ca} }))
	case "multi-return":
		made = 2
		must(add(func() (*vA, *vB) { wait(); return &vA{&ca}, &vB{&cb} }))
	case "multi-return-nil":
		made = 1
		must(add(func() (*vA, vI) { wait(); return &vA{&ca}, nil }))
	case "result":
		made = 2
		must(add(func() vOut { wait(); return vOut{A: &vA{&ca}, B: &vB{&cb}} }))
	case "result-nil-field":
		made = 1
		must(add(func() vOut { wait(); return vOut{A: &vA{&ca}} }))
	case "result-group":
		made = 2
		must(add(func() vOutG { wait(); return vOutG{A: &vA{&ca}, B: &vB{&cb}} }))
	case "as-two":
		made = 1
		must(add(func() *vA { wait(); return &vA{&ca} }, godi.As[vI](), godi.As[io.Closer]()))
	}
	p, err := c.Build()
	must(err)
	defer p.Close()
	s, err := p.CreateScope(context.Background())
	must(err)
	type res struct {
		err      error
		panic    any
		nilValue bool
	}
	done := make(chan res, 1)
	go func() {
		var r res
		defer func() {
			if v := recover(); v != nil {
				r.panic = v
			}
			done <- r
		}()
		if form == "as-two" {
			v, err := s.Get(reflect.TypeOf((*vI)(nil)).Elem())
			r.err, r.nilValue = err, err == nil && v == nil
		} else {
			v, err := s.Get(reflect.TypeOf((*vA)(nil)))
			r.err, r.nilValue = err, err == nil && v == nil
		}
	}()
	select {
	case <-in:
	case <-time.After(5 * time.Second):
		return "the resolution never reached the constructor"
	}
	closed := make(chan error, 1)
	go func() {
		if who == "provider" {
			closed <- p.Close()
		} else {
			closed <- s.Close()
		}
	}()
	closeDone := false
	select {
	case <-closed:
		closeDone = true
	case <-time.After(2 * time.Second):
		// a Close that waits for the construction is fine too: release it and wait again
	}
	close(hold)
	var r res
	select {
	case r = <-done:
	case <-time.After(5 * time.Second):
		return "the pending resolution never returned"
	}
	if r.panic != nil {
		return fmt.Sprintf("the pending resolution panicked: %v", r.panic)
	}
	if r.nilValue {
		return "the pending resolution returned neither a value nor an error (a half-initialised result)"
	}
	if r.err != nil && !errors.Is(r.err, godi.ErrScopeDisposed) && !errors.Is(r.err, godi.ErrProviderDisposed) {
		return fmt.Sprintf("the pending resolution neither completed nor reported the disposed error: %v", r.err)
	}
	if !closeDone {
		select {
		case <-closed:
		case <-time.After(5 * time.Second):
			return "Close of the scope never returned"
		}
	}
	must(p.Close())
	if got := int(atomic.LoadInt32(&ca) + atomic.LoadInt32(&cb)); got != made {
		return fmt.Sprintf("the constructor made %d disposable instances, %d Close calls were made on them after the scope and the provider were closed (resolution returned: %v)", made, got, r.err)
	}
	if atomic.LoadInt32(&ca) > 1 || atomic.LoadInt32(&cb) > 1 {
		return "an instance was closed twice"
	}
	return ""
}

// ---------------------------------------------------------------------------------------------------------------
// Create probe (C09, C11, C13): a scope whose creation overlaps the Close of what it is created from.
//
//  (a) an initializer of the child scope closes the parent scope (one goroutine): the child must be refused with the
//      disposed error or be closed with its parent - never live on below a closed parent;
//  (b) CreateScope on the provider is held inside an initializer while provider.Close starts, and is released while
//      that Close is busy inside a singleton's Close method: the scope must be refused, or closed by the time both
//      calls have returned.
// In both rounds a scoped disposable made in the new scope must have been closed exactly once when everything is over,
// and before the singleton it depends on.

type kDB struct {
	log  *oLog
	hold chan struct{}
	at   chan struct{}
}

func (d *kDB) Close() error {
	d.log.add("close db")
	if d.hold != nil {
		d.at <- struct{}{}
		<-d.hold
	}
	return nil
}

type kPlain struct{}

// kHeld: a scoped disposable whose Close can be held
type kHeld struct {
	hold chan struct{}
	at   chan struct{}
}

func (h *kHeld) Close() error {
	if h.hold != nil {
		h.at <- struct{}{}
		<-h.hold
	}
	return nil
}

type kTx struct {
	db  *kDB
	log *oLog
}

func (t *kTx) Close() error { t.log.add("close tx"); return nil }

func createProbe() ProbeReport {
	rep := ProbeReport{}
	for _, round := range []string{"initializer-closes-parent", "provider-close-overlaps-create", "scope-close-overlaps-create"} {
		rep.Rounds++
		if msg := createRound(round); msg != "" {
			rep.Bad = append(rep.Bad, round+": "+msg)
		}
	}
	return rep
}

func createRound(round string) (msg string) {
	defer func() {
		if v := recover(); v != nil {
			msg = fmt.Sprintf("panic: %v", v)
		}
	}()
	must := func(err error) {
		if err != nil {
			panic(err)
		}
	}
	lg := &oLog{ch: make(chan string, 64)}
	var parent godi.Scope
	closeParent := false
	holdInit := make(chan struct{})
	inInit := make(chan struct{}, 1)
	blockInit := false
	db := &kDB{log: lg}
	c := godi.NewCollection()
	must(c.AddSingleton(func() *kDB { return db }))
	must(c.AddScoped(func(d *kDB) *kTx { return &kTx{d, lg} }))
	must(c.AddScoped(func() *kPlain { return &kPlain{} }))
	var heldOnce *kHeld
	must(c.AddScoped(func() *kHeld {
		if h := heldOnce; h != nil {
			heldOnce = nil
			return h
		}
		return &kHeld{}
	}))
	must(c.AddScoped(func(s godi.Scope) {
		if closeParent && parent != nil {
			closeParent = false
			_ = parent.Close()
		}
		if blockInit {
			blockInit = false
			inInit <- struct{}{}
			<-holdInit
		}
	}))
	p, err := c.Build()
	must(err)
	var child godi.Scope
	var cerr error
	switch round {
	case "initializer-closes-parent":
		parent, err = p.CreateScope(context.Background())
		must(err)
		closeParent = true
		child, cerr = parent.CreateScope(context.Background()) // a context of its own: no watcher will reap it
	case "scope-close-overlaps-create":
		// the parent SCOPE is closed (and held inside the Close of something it owns) while a child's creation is held
		// inside an initializer: the child is refused or closed with the parent, never adopted by a parent that is gone
		parent, err = p.CreateScope(context.Background())
		must(err)
		held := &kHeld{hold: make(chan struct{}), at: make(chan struct{}, 1)}
		heldOnce = held
		_, err = godi.Resolve[*kHeld](parent)
		must(err)
		blockInit = true
		created := make(chan struct{})
		go func() {
			child, cerr = parent.CreateScope(context.Background())
			close(created)
		}()
		select {
		case <-inInit:
		case <-time.After(5 * time.Second):
			return "CreateScope never reached the initializer"
		}
		closed := make(chan struct{})
		go func() { _ = parent.Close(); close(closed) }()
		select {
		case <-held.at: // the parent's Close is inside the Close of its own instance
		case <-time.After(5 * time.Second):
			return "the parent's Close never reached its instance"
		}
		close(holdInit)
		select {
		case <-created:
		case <-time.After(5 * time.Second):
			return "CreateScope never returned"
		}
		close(held.hold)
		select {
		case <-closed:
		case <-time.After(5 * time.Second):
			return "the parent's Close never returned"
		}
	default:
		db.hold, db.at = make(chan struct{}), make(chan struct{}, 1)
		blockInit = true
		created := make(chan struct{})
		go func() {
			child, cerr = p.CreateScope(context.Background())
			close(created)
		}()
		select {
		case <-inInit:
		case <-time.After(5 * time.Second):
			return "CreateScope never reached the initializer"
		}
		closed := make(chan struct{})
		go func() { _ = p.Close(); close(closed) }()
		select {
		case <-db.at: // provider.Close is inside the singleton's Close
		case <-time.After(5 * time.Second):
			return "provider.Close never reached the singleton"
		}
		close(holdInit)
		select {
		case <-created:
		case <-time.After(5 * time.Second):
			return "CreateScope never returned"
		}
		close(db.hold)
		select {
		case <-closed:
		case <-time.After(5 * time.Second):
			return "provider.Close never returned"
		}
	}
	if cerr == nil && child != nil {
		// the scope was handed out: it must not be usable below / next to something that is closed
		_, e1 := godi.Resolve[*kTx](child)
		_, e2 := godi.Resolve[*kPlain](child)
		if e1 == nil || e2 == nil {
			_ = p.Close()
			var evs []string
			for len(lg.ch) > 0 {
				evs = append(evs, <-lg.ch)
			}
			return fmt.Sprintf("the new scope is alive and resolves services although what it was created from is closed (Close calls so far: %v)", evs)
		}
	} else if !errors.Is(cerr, godi.ErrScopeDisposed) && !errors.Is(cerr, godi.ErrProviderDisposed) {
		return fmt.Sprintf("CreateScope failed with %v, not with a disposed error", cerr)
	}
	_ = p.Close()
	var evs []string
	for len(lg.ch) > 0 {
		evs = append(evs, <-lg.ch)
	}
	ntx, ndb, dbAt := 0, 0, -1
	for i, e := range evs {
		switch e {
		case "close tx":
			ntx++
			if dbAt >= 0 {
				return fmt.Sprintf("a scoped instance was closed after the singleton it holds: %v", evs)
			}
		case "close db":
			ndb++
			dbAt = i
		}
	}
	if ndb != 1 || ntx > 1 {
		return fmt.Sprintf("Close calls %v", evs)
	}
	return ""
}
