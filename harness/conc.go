package main

// Concurrency harness (C09, concurrent halves of C02/C10/C12/C13, C14).
//
// Schedules are forced at the points where the container calls user code: every constructor body
// and every Close body first reports "blocked at my gate" and proceeds only when the scheduler
// releases it.  A gate-level schedule is a list of thread numbers; step i lets that thread run from
// its gate (or its start) to its next gate (or its end) while every other thread is parked, so the
// run is a deterministic interleaving that the Coq model (coq/theories/Conc.v) replays action by
// action.

import (
	"context"
	"encoding/json"
	"errors"
	"flag"
	"fmt"
	"math/rand"
	"os"
	"reflect"
	"runtime"
	"strings"
	"sync"
	"sync/atomic"
	"time"

	"github.com/junioryono/godi/v4"
)

// thread kinds
const (
	KResolveScoped    = 0 // resolve the scoped disposable service in the shared scope
	KResolveTransient = 1 // resolve the transient disposable service in the shared scope
	KCloseScope       = 2 // close the shared scope
	KCreateChild      = 3 // create a child scope of the shared scope (its initializer creates a disposable)
	KCloseProvider    = 4 // close the provider
	KCreateScope      = 5 // create a scope from the provider (initializer as above)
	KResolveRoot      = 6 // resolve the transient service from the provider (root scope)
)

type CCase struct {
	ID      int    `json:"id"`
	Threads []int  `json:"threads"` // kind of each thread
	Sched   []int  `json:"sched"`   // gate-level schedule (thread numbers)
	Obs     *CObs  `json:"obs,omitempty"`
	Crash   string `json:"crash,omitempty"`
}

type CObs struct {
	Results      []string `json:"results"` // per thread at the end of the schedule: inst:<n> | ok | err:<class> | panic | running | unstarted
	Closed       []int    `json:"closed"`  // instance numbers in the order their Close body ran, at the end of the schedule
	Created      int      `json:"created"`
	FinalResults []string `json:"final_results"` // after every parked thread was let go and the provider was closed
	FinalClosed  []int    `json:"final_closed"`
	FinalCreated int      `json:"final_created"`
	Steps        int      `json:"steps"` // schedule steps actually consumed
	Note         string   `json:"note,omitempty"`
}

type cThread struct {
	kind    int
	goCh    chan struct{} // scheduler -> thread: proceed
	evCh    chan string   // thread -> scheduler: "blocked" | "done"
	result  string
	started bool
	done    bool
}

type cWorld struct {
	mu      sync.Mutex
	created int32
	closed  []int
	cur     *cThread // the thread currently allowed to run (gates report to it)
	threads []*cThread
	free    bool // after the schedule: gates no longer block
}

var theConc *cWorld

type cInst struct{ n int }

func (c *cInst) Close() error {
	w := theConc
	w.gate()
	w.mu.Lock()
	w.closed = append(w.closed, c.n)
	w.mu.Unlock()
	return nil
}

type cFace1 interface{ Close() error }
type cFace2 interface{ Close() error }
type cScoped struct{ cInst }
type cTransient struct{ cInst }
type cPlain struct{ n int }

// gate parks the calling goroutine until the scheduler lets its thread proceed again.
func (w *cWorld) gate() {
	w.mu.Lock()
	free, t := w.free, w.cur
	w.mu.Unlock()
	if free || t == nil {
		return
	}
	t.evCh <- "blocked"
	<-t.goCh
}

func (w *cWorld) newID() int { return int(atomic.AddInt32(&w.created, 1)) - 1 }

func classOf(err error) string {
	switch {
	case err == nil:
		return "ok"
	case errors.Is(err, godi.ErrScopeDisposed):
		return "err:EScopeDisposed"
	case errors.Is(err, godi.ErrProviderDisposed):
		return "err:EProviderDisposed"
	}
	return "err:other:" + firstLine(err.Error())
}

func runCCase(c *CCase) {
	w := &cWorld{}
	theConc = w
	coll := godi.NewCollection()
	must := func(err error) {
		if err != nil {
			panic(err)
		}
	}
	must(coll.AddScoped(func() *cScoped { w.gate(); return &cScoped{cInst{w.newID()}} }, godi.As[cFace1](), godi.As[cFace2]()))
	must(coll.AddTransient(func() *cTransient { w.gate(); return &cTransient{cInst{w.newID()}} }))
	needInit := false
	for _, k := range c.Threads {
		if k == KCreateChild || k == KCreateScope {
			needInit = true
		}
	}
	var initOn int32
	if needInit {
		// a scope initializer whose (non-disposable) dependency parks the creating thread inside scope creation
		must(coll.AddTransient(func() *cPlain { w.gate(); return &cPlain{} }))
		must(coll.AddScoped(func(t *cPlain) { _ = t }))
	}
	_ = initOn
	w.free = true // Build and the shared scope are set up without gates
	p, err := coll.Build()
	must(err)
	sc, err := p.CreateScope(context.Background())
	must(err)
	setupCreated := int(atomic.LoadInt32(&w.created))
	w.mu.Lock()
	w.free = false
	w.mu.Unlock()

	tScoped := reflect.TypeOf((*cFace1)(nil)).Elem()
	tTransient := reflect.TypeOf((*cTransient)(nil))
	for _, k := range c.Threads {
		w.threads = append(w.threads, &cThread{kind: k, goCh: make(chan struct{}), evCh: make(chan string, 1)})
	}
	body := func(t *cThread) (res string) {
		defer func() {
			if v := recover(); v != nil {
				res = "panic:" + firstLine(fmt.Sprint(v))
			}
		}()
		instRes := func(v any, err error) string {
			if err != nil {
				return classOf(err)
			}
			switch x := v.(type) {
			case *cScoped:
				return fmt.Sprintf("inst:%d", x.n-setupCreated)
			case *cTransient:
				return fmt.Sprintf("inst:%d", x.n-setupCreated)
			}
			return "err:other:unexpected value"
		}
		switch t.kind {
		case KResolveScoped:
			return instRes(sc.Get(tScoped))
		case KResolveTransient:
			return instRes(sc.Get(tTransient))
		case KResolveRoot:
			return instRes(p.Get(tTransient))
		case KCloseScope:
			return classOf(sc.Close())
		case KCloseProvider:
			return classOf(p.Close())
		case KCreateChild:
			_, err := sc.CreateScope(nil)
			return classOf(err)
		case KCreateScope:
			_, err := p.CreateScope(nil)
			return classOf(err)
		}
		return "err:other:unknown thread kind"
	}
	obs := &CObs{}
	for _, ti := range c.Sched {
		if ti < 0 || ti >= len(w.threads) {
			continue
		}
		t := w.threads[ti]
		if t.done {
			continue
		}
		w.mu.Lock()
		w.cur = t
		w.mu.Unlock()
		if !t.started {
			t.started = true
			go func() {
				r := body(t)
				t.result = r
				t.evCh <- "done"
			}()
		} else {
			t.goCh <- struct{}{}
		}
		select {
		case ev := <-t.evCh:
			if ev == "done" {
				t.done = true
			}
		case <-time.After(5 * time.Second):
			obs.Note = fmt.Sprintf("thread %d neither reached a gate nor finished within 5s (deadlock?)", ti)
			t.done = true
			t.result = "hung"
		}
		obs.Steps++
	}
	// snapshot at the end of the schedule
	for _, t := range w.threads {
		switch {
		case !t.started:
			obs.Results = append(obs.Results, "unstarted")
		case !t.done:
			obs.Results = append(obs.Results, "running")
		default:
			obs.Results = append(obs.Results, t.result)
		}
	}
	w.mu.Lock()
	for _, n := range w.closed {
		obs.Closed = append(obs.Closed, n-setupCreated)
	}
	w.mu.Unlock()
	obs.Created = int(atomic.LoadInt32(&w.created)) - setupCreated
	// let everything that is still parked finish, unscheduled
	w.mu.Lock()
	w.free = true
	w.cur = nil
	w.mu.Unlock()
	for _, t := range w.threads {
		if t.started && !t.done {
			go func(t *cThread) {
				for {
					select {
					case t.goCh <- struct{}{}:
					case <-time.After(2 * time.Second):
						return
					}
				}
			}(t)
		}
	}
	deadline := time.After(5 * time.Second)
	for _, t := range w.threads {
		if t.started && !t.done {
			select {
			case ev := <-t.evCh:
				for ev != "done" {
					ev = <-t.evCh
				}
				t.done = true
			case <-deadline:
				t.result = "hung"
			}
		}
		if !t.started {
			t.result = "unstarted"
		}
		obs.FinalResults = append(obs.FinalResults, t.result)
	}
	_ = p.Close()
	time.Sleep(2 * time.Millisecond)
	w.mu.Lock()
	for _, n := range w.closed {
		obs.FinalClosed = append(obs.FinalClosed, n-setupCreated)
	}
	w.mu.Unlock()
	obs.FinalCreated = int(atomic.LoadInt32(&w.created)) - setupCreated
	c.Obs = obs
}

// ---------------------------------------------------------------- generation and Gallina

func (c CCase) G() string {
	conv := func(s string) string {
		switch {
		case strings.HasPrefix(s, "inst:"):
			return "(CRInst " + s[5:] + ")"
		case s == "ok":
			return "CROk"
		case s == "err:EScopeDisposed":
			return "CRScopeDisposed"
		case s == "err:EProviderDisposed":
			return "CRProviderDisposed"
		case strings.HasPrefix(s, "panic"):
			return "CRPanic"
		case s == "unstarted":
			return "CRUnstarted"
		case s == "running":
			return "CRRunning"
		}
		return "CROther"
	}
	return fmt.Sprintf("(%s, %s, %s, %s, %d, %s, %s, %d)", gInts(c.Threads), gInts(c.Sched), gList(c.Obs.Results, conv), gInts(c.Obs.Closed), c.Obs.Created,
		gList(c.Obs.FinalResults, conv), gInts(c.Obs.FinalClosed), c.Obs.FinalCreated)
}

func genConcCases(seed int64, n int, thorough bool) []CCase {
	rnd := rand.New(rand.NewSource(seed*31337 + 11))
	var cases []CCase
	mixes := [][]int{
		{KResolveScoped, KCloseScope},
		{KResolveTransient, KCloseScope},
		{KResolveScoped, KResolveScoped},
		{KResolveScoped, KResolveScoped, KCloseScope},
		{KResolveTransient, KResolveScoped, KCloseScope, KCloseScope},
		{KCloseScope, KCloseScope, KCloseScope},
		{KCreateChild, KCloseScope},
		{KCreateChild, KResolveTransient, KCloseScope},
		{KCreateScope, KCloseProvider},
		{KResolveRoot, KCloseProvider},
		{KResolveScoped, KCloseProvider},
		{KCreateScope, KResolveRoot, KCloseProvider, KCloseProvider},
		{KResolveTransient, KCreateChild, KCloseScope},
		{KResolveRoot, KResolveRoot, KCloseProvider},
	}
	if thorough {
		// every gate-level schedule of bounded length for the small mixes
		for _, mix := range mixes {
			if len(mix) > 3 {
				continue
			}
			depth := 7
			if len(mix) == 3 {
				depth = 6
			}
			var rec func(prefix []int)
			rec = func(prefix []int) {
				if len(prefix) == depth {
					cases = append(cases, CCase{Threads: mix, Sched: append([]int(nil), prefix...)})
					return
				}
				for t := range mix {
					rec(append(prefix, t))
				}
			}
			rec(nil)
		}
	}
	for i := 0; i < n; i++ {
		var mix []int
		if rnd.Float64() < 0.7 {
			mix = mixes[rnd.Intn(len(mixes))]
		} else {
			// (a scope closer and a provider closer are never mixed here: an owner waits, outside any gate, for a
			// close in progress, which a gate scheduler cannot drive; the stress run covers that mix)
			pool := []int{KResolveScoped, KResolveTransient, KCloseScope, KCreateChild, KCreateScope, KResolveRoot}
			if rnd.Intn(2) == 0 {
				pool = []int{KResolveScoped, KResolveTransient, KCloseProvider, KCreateChild, KCreateScope, KResolveRoot}
			}
			for k := 2 + rnd.Intn(4); k > 0; k-- {
				mix = append(mix, pool[rnd.Intn(len(pool))])
			}
		}
		var sched []int
		for k := 3 + rnd.Intn(12); k > 0; k-- {
			sched = append(sched, rnd.Intn(len(mix)))
		}
		cases = append(cases, CCase{Threads: mix, Sched: sched})
	}
	for i := range cases {
		cases[i].ID = i
	}
	return cases
}

// ---------------------------------------------------------------- race stress and leak measurements

type StressReport struct {
	Iterations   int    `json:"iterations"`
	Panics       int    `json:"panics"`
	PanicText    string `json:"panic_text,omitempty"`
	Goroutines0  int    `json:"goroutines_before"`
	Goroutines1  int    `json:"goroutines_after"`
	HeapGrowthKB int64  `json:"heap_growth_kb"`
	ScopesLeft   int    `json:"scopes_tracked_after"`
	DoubleClosed int    `json:"double_closed"`
	Unclosed     int    `json:"unclosed"`
	BadResults   int    `json:"bad_results"`
	BadText      string `json:"bad_text,omitempty"`
}

type sInst struct {
	closed int32
}

func (s *sInst) Close() error { atomic.AddInt32(&s.closed, 1); return nil }

type sScoped struct{ sInst }
type sTransient struct{ sInst }
type sSingleton struct{ sInst }

// parameter-object consumers, first resolved from several goroutines at once on a collection nobody has resolved from yet
type sIn1 struct {
	godi.In
	S *sSingleton
}
type sIn2 struct {
	godi.In
	S *sSingleton
	T *sTransient `optional:"true"`
}
type sIn3 struct {
	godi.In
	S *sScoped
}
type sIn4 struct {
	godi.In
	All []*sSingleton `group:"none"`
	S   *sSingleton
}
type sP1 struct{ sInst }
type sP2 struct{ sInst }
type sP3 struct{ sInst }
type sP4 struct{ sInst }

// stress: real parallelism, no gates; meant to run under the race detector as well.
func stress(d time.Duration, seed int64) StressReport {
	var rep StressReport
	var mu sync.Mutex
	var all []*sInst
	track := func(i *sInst) {
		mu.Lock()
		all = append(all, i)
		mu.Unlock()
	}
	newColl := func() godi.Collection {
		coll := godi.NewCollection()
		coll.AddSingleton(func() *sSingleton { x := &sSingleton{}; track(&x.sInst); return x })
		coll.AddScoped(func(s *sSingleton) *sScoped { x := &sScoped{}; track(&x.sInst); return x })
		coll.AddTransient(func(s *sSingleton) *sTransient { x := &sTransient{}; track(&x.sInst); return x })
		coll.AddScoped(func(t *sTransient) {})
		coll.AddScoped(func(in sIn1) *sP1 { x := &sP1{}; track(&x.sInst); return x })
		coll.AddTransient(func(in sIn2) *sP2 { x := &sP2{}; track(&x.sInst); return x })
		coll.AddScoped(func(in sIn3) *sP3 { x := &sP3{}; track(&x.sInst); return x })
		coll.AddTransient(func(in sIn4) *sP4 { x := &sP4{}; track(&x.sInst); return x })
		return coll
	}
	coll := newColl()
	tP := []reflect.Type{reflect.TypeOf((*sP1)(nil)), reflect.TypeOf((*sP2)(nil)), reflect.TypeOf((*sP3)(nil)), reflect.TypeOf((*sP4)(nil))}
	runtime.GC()
	rep.Goroutines0 = runtime.NumGoroutine()
	var ms0 runtime.MemStats
	runtime.ReadMemStats(&ms0)
	tS, tT, tG := reflect.TypeOf((*sScoped)(nil)), reflect.TypeOf((*sTransient)(nil)), reflect.TypeOf((*sSingleton)(nil))
	end := time.Now().Add(d)
	rnd := rand.New(rand.NewSource(seed))
	for time.Now().Before(end) {
		rep.Iterations++
		if rep.Iterations%2 == 0 {
			coll = newColl() // a cold collection: nothing has been resolved through its analysis yet
		}
		p, err := coll.Build()
		if err != nil {
			rep.BadResults++
			rep.BadText = "Build: " + firstLine(err.Error())
			continue
		}
		var wg sync.WaitGroup
		var single atomic.Pointer[sSingleton]
		worker := func(kind int) {
			defer wg.Done()
			defer func() {
				if v := recover(); v != nil {
					mu.Lock()
					rep.Panics++
					rep.PanicText = firstLine(fmt.Sprint(v))
					mu.Unlock()
				}
			}()
			sc, err := p.CreateScope(context.Background())
			if err != nil {
				if !errors.Is(err, godi.ErrProviderDisposed) {
					mu.Lock()
					rep.BadResults++
					rep.BadText = "CreateScope: " + firstLine(err.Error())
					mu.Unlock()
				}
				return
			}
			var inner sync.WaitGroup
			for k := 0; k < 3; k++ {
				inner.Add(1)
				go func(k int) {
					defer inner.Done()
					defer func() {
						if v := recover(); v != nil {
							mu.Lock()
							rep.Panics++
							rep.PanicText = firstLine(fmt.Sprint(v))
							mu.Unlock()
						}
					}()
					if _, err := sc.Get(tP[(kind+k)%4]); err != nil && !errors.Is(err, godi.ErrScopeDisposed) && !errors.Is(err, godi.ErrProviderDisposed) {
						mu.Lock()
						rep.BadResults++
						rep.BadText = firstLine(err.Error())
						mu.Unlock()
					}
					for j := 0; j < 4; j++ {
						var v any
						var err error
						switch (k + j) % 4 {
						case 0:
							v, err = sc.Get(tS)
						case 1:
							v, err = sc.Get(tT)
						case 2:
							v, err = sc.Get(tG)
							if err == nil {
								if g, ok := v.(*sSingleton); ok {
									if old := single.Swap(g); old != nil && old != g {
										mu.Lock()
										rep.BadResults++
										rep.BadText = "two different singleton instances"
										mu.Unlock()
									}
								}
							}
						default:
							var ch godi.Scope
							ch, err = sc.CreateScope(nil)
							if err == nil {
								_, _ = ch.Get(tS)
								if k%2 == 0 {
									_ = ch.Close()
								}
							}
						}
						if err != nil && !errors.Is(err, godi.ErrScopeDisposed) && !errors.Is(err, godi.ErrProviderDisposed) {
							mu.Lock()
							rep.BadResults++
							rep.BadText = firstLine(err.Error())
							mu.Unlock()
						}
						_ = v
					}
				}(k)
			}
			if kind%2 == 0 {
				inner.Wait()
			}
			_ = sc.Close()
			inner.Wait()
		}
		nw := 3 + rnd.Intn(4)
		for k := 0; k < nw; k++ {
			wg.Add(1)
			go worker(k)
		}
		if rnd.Intn(2) == 0 {
			wg.Wait()
		}
		_ = p.Close()
		wg.Wait()
		_ = p.Close()
		if n := godi.VerifScopeCount(p); n > 0 {
			rep.ScopesLeft += n
		}
	}
	// everything created must have been closed exactly once by now
	time.Sleep(20 * time.Millisecond)
	mu.Lock()
	for _, i := range all {
		switch c := atomic.LoadInt32(&i.closed); {
		case c == 0:
			rep.Unclosed++
		case c > 1:
			rep.DoubleClosed++
		}
	}
	all = nil
	mu.Unlock()
	for k := 0; k < 50 && runtime.NumGoroutine() > rep.Goroutines0; k++ {
		time.Sleep(10 * time.Millisecond)
	}
	runtime.GC()
	rep.Goroutines1 = runtime.NumGoroutine()
	var ms1 runtime.MemStats
	runtime.ReadMemStats(&ms1)
	rep.HeapGrowthKB = (int64(ms1.HeapAlloc) - int64(ms0.HeapAlloc)) / 1024
	return rep
}

// cycles: N create-use-close cycles on one provider, contexts never cancelled by the caller (C14).
type CycleReport struct {
	N            int   `json:"n"`
	Goroutines0  int   `json:"goroutines_before"`
	Goroutines1  int   `json:"goroutines_after"`
	HeapKBHalf   int64 `json:"heap_kb_at_half"`
	HeapKBEnd    int64 `json:"heap_kb_at_end"`
	ScopesLeft   int   `json:"scopes_tracked_after"`
	CtxNotDone   int   `json:"contexts_not_cancelled"`
	Unclosed     int   `json:"unclosed"`
	FailedCreate int   `json:"failed_creates"`
}

// base: 0 = every scope is created from context.Background(); 1 = from one long-lived cancellable context of the
// application that nobody cancels while the cycles run (a server's base context)
func cycles(n int, failEvery int, base int) CycleReport {
	rep := CycleReport{N: n}
	appCtx, appCancel := context.WithCancel(context.Background())
	defer appCancel()
	baseCtx := context.Background()
	if base == 1 {
		baseCtx = appCtx
	}
	// base 2: the cycles run *under one long-lived parent scope*; every child is created from a context derived from
	// the parent's, carrying a 32 KiB request payload - what a closed child keeps reachable shows in the heap
	type payloadKey struct{}
	var created, closed int64
	coll := godi.NewCollection()
	coll.AddSingleton(func() *sSingleton { return &sSingleton{} })
	type probe struct{ sInst }
	coll.AddScoped(func(s *sSingleton) *sScoped { atomic.AddInt64(&created, 1); return &sScoped{} })
	var counter int64
	var lastCtx atomic.Value
	coll.AddScoped(func(ctx context.Context) {
		lastCtx.Store(&ctx)
	})
	coll.AddScoped(func(s *sScoped) error {
		c := atomic.AddInt64(&counter, 1)
		if failEvery > 0 && c%int64(failEvery) == 0 {
			return errors.New("initializer fails")
		}
		return nil
	})
	p, err := coll.Build()
	if err != nil {
		rep.Unclosed = -1
		return rep
	}
	runtime.GC()
	rep.Goroutines0 = runtime.NumGoroutine()
	heap := func() int64 {
		runtime.GC()
		var ms runtime.MemStats
		runtime.ReadMemStats(&ms)
		return int64(ms.HeapAlloc) / 1024
	}
	tS := reflect.TypeOf((*sScoped)(nil))
	var longLived godi.Scope
	if base == 2 {
		longLived, _ = p.CreateScope(appCtx)
	}
	for i := 0; i < n; i++ {
		if i == n/2 {
			rep.HeapKBHalf = heap()
		}
		var sc godi.Scope
		var err error
		if longLived != nil {
			sc, err = longLived.CreateScope(context.WithValue(longLived.Context(), payloadKey{}, make([]byte, 32<<10)))
		} else {
			sc, err = p.CreateScope(baseCtx)
		}
		if err != nil {
			rep.FailedCreate++
			// the context derived for the scope that could not be created must not stay alive
			if cp, ok := lastCtx.Load().(*context.Context); ok && (*cp).Err() == nil {
				rep.CtxNotDone++
			}
			continue
		}
		v, _ := sc.Get(tS)
		if i%3 == 0 {
			ch, err := sc.CreateScope(nil)
			if err == nil {
				_, _ = ch.Get(tS)
			} else {
				rep.FailedCreate++
			}
		}
		ctx := sc.Context()
		_ = sc.Close()
		if ctx.Err() == nil {
			rep.CtxNotDone++
		}
		if s, ok := v.(*sScoped); ok && atomic.LoadInt32(&s.closed) != 1 {
			rep.Unclosed++
		}
	}
	_ = closed
	rep.HeapKBEnd = heap() // (with the long-lived parent still open)
	if longLived != nil {
		_ = longLived.Close()
	}
	rep.ScopesLeft = godi.VerifScopeCount(p)
	for k := 0; k < 100 && runtime.NumGoroutine() > rep.Goroutines0; k++ {
		time.Sleep(10 * time.Millisecond)
	}
	rep.Goroutines1 = runtime.NumGoroutine()
	_ = p.Close()
	return rep
}

// ---------------------------------------------------------------- command

func cmdConc(args []string) {
	fs := flag.NewFlagSet("conc", flag.ExitOnError)
	prop := fs.String("prop", "C09", "")
	seed := fs.Int64("seed", 1, "")
	n := fs.Int("n", 100, "")
	out := fs.String("out", "", "")
	thorough := fs.Bool("thorough", false, "")
	corpus := fs.String("corpus", "", "")
	child := fs.String("child", "", "")
	from := fs.Int("from", 0, "")
	stressFor := fs.Duration("stress", 0, "")
	cyc := fs.Int("cycles", 0, "")
	probe := fs.Bool("probe", false, "")
	oprobe := fs.Bool("orderprobe", false, "")
	vprobe := fs.Bool("overlapprobe", false, "")
	kprobe := fs.Bool("createprobe", false, "")
	bprobe := fs.Bool("buildprobe", false, "")
	fs.Parse(args)
	if *bprobe {
		b, _ := json.Marshal(buildProbe())
		fmt.Println(string(b))
		return
	}
	if *kprobe {
		b, _ := json.Marshal(createProbe())
		fmt.Println(string(b))
		return
	}
	if *vprobe {
		b, _ := json.Marshal(overlapProbe())
		fmt.Println(string(b))
		return
	}
	if *oprobe {
		b, _ := json.Marshal(orderProbe())
		fmt.Println(string(b))
		return
	}
	if *probe {
		b, _ := json.Marshal(isolationProbe())
		fmt.Println(string(b))
		return
	}
	if *stressFor > 0 {
		b, _ := json.Marshal(stress(*stressFor, *seed))
		fmt.Println(string(b))
		return
	}
	if *cyc > 0 {
		reps := []CycleReport{cycles(*cyc, 0, 0), cycles(*cyc, 7, 0), cycles(*cyc, 5, 1), cycles(*cyc, 6, 2)}
		b, _ := json.Marshal(reps)
		fmt.Println(string(b))
		return
	}
	if *child != "" {
		concChild(*child, *from)
		return
	}
	os.MkdirAll(*out, 0o755)
	var cases []CCase
	for _, f := range strings.Split(*corpus, ",") {
		if f == "" {
			continue
		}
		if b, err := os.ReadFile(f); err == nil {
			var cs []CCase
			if json.Unmarshal(b, &cs) == nil {
				for _, c := range cs {
					c.Obs, c.Crash = nil, ""
					cases = append(cases, c)
				}
			}
		}
	}
	ncorpus := len(cases)
	cases = append(cases, genConcCases(*seed, *n, *thorough)...)
	for i := range cases {
		cases[i].ID = i
	}
	results := runConcChildren(cases, *out)
	tag := *prop + "c"
	nfiles := 0
	shard := 400
	for start := 0; start < len(results); start += shard {
		end := start + shard
		if end > len(results) {
			end = len(results)
		}
		var b strings.Builder
		b.WriteString("From Coq Require Import NArith.\nFrom Godi Require Import Base Conc.\n")
		for _, c := range results[start:end] {
			if c.Crash != "" || c.Obs == nil {
				continue
			}
			fn := "check_conc"
			if *prop == "C02" {
				fn = "check_conc_C02"
			}
			fmt.Fprintf(&b, "Eval vm_compute in (%d%%N, %s %s).\n", c.ID, fn, c.G())
		}
		os.WriteFile(fmt.Sprintf("%s/cases_%s_%d.v", *out, tag, nfiles), []byte(b.String()), 0o644)
		nfiles++
	}
	writeJSON(*out+"/cases.json", results)
	sum := Summary{Prop: tag, Seed: *seed, Groups: len(results), Cases: len(results), Files: nfiles, Dist: map[string]int{"corpus-groups": ncorpus}}
	seen := map[string]bool{}
	for _, c := range results {
		if c.Crash != "" {
			sum.Crashed = append(sum.Crashed, c.ID)
			continue
		}
		key := fmt.Sprint(c.Threads, c.Sched)
		for _, k := range c.Threads {
			sum.Dist[fmt.Sprintf("thread-kind:%d", k)]++
		}
		for _, r := range c.Obs.Results {
			sum.Dist["result:"+strings.SplitN(r, ":", 3)[0]+":"+strings.TrimPrefix(strings.SplitN(r+":", ":", 3)[1], " ")]++
		}
		if !seen[key] {
			seen[key] = true
			sum.Distinct++
			if c.Obs.Created > 0 && len(c.Obs.Closed) > 0 {
				sum.NonTriv++
			}
		}
	}
	writeJSON(*out+"/summary.json", sum)
}

func runConcChildren(cases []CCase, dir string) []CCase {
	in := dir + "/ccases_in.json"
	outp := dir + "/ccases_out.jsonl"
	writeJSON(in, cases)
	os.Remove(outp)
	self, _ := os.Executable()
	read := func() []CCase {
		var out []CCase
		b, err := os.ReadFile(outp)
		if err != nil {
			return out
		}
		for _, line := range strings.Split(string(b), "\n") {
			if strings.TrimSpace(line) == "" {
				continue
			}
			var c CCase
			if json.Unmarshal([]byte(line), &c) == nil {
				out = append(out, c)
			}
		}
		return out
	}
	var results []CCase
	for len(results) < len(cases) {
		cmd := execCommand(self, "conc", "-child", in, "-from", fmt.Sprint(len(results)), "-out", outp)
		var stderr strings.Builder
		cmd.Stderr = &stderr
		err := cmd.Run()
		results = read()
		if len(results) >= len(cases) {
			break
		}
		c := cases[len(results)]
		msg := firstLine(stderr.String())
		if msg == "" {
			msg = fmt.Sprint(err)
		}
		c.Crash = "runner died: " + msg
		f, _ := os.OpenFile(outp, os.O_APPEND|os.O_WRONLY|os.O_CREATE, 0o644)
		b, _ := json.Marshal(c)
		f.Write(append(b, '\n'))
		f.Close()
		results = append(results, c)
	}
	os.Remove(in)
	return results
}

func concChild(in string, from int) {
	outp := ""
	for i, a := range os.Args {
		if a == "-out" && i+1 < len(os.Args) {
			outp = os.Args[i+1]
		}
	}
	b, err := os.ReadFile(in)
	if err != nil {
		die("%v", err)
	}
	var cases []CCase
	if err := json.Unmarshal(b, &cases); err != nil {
		die("%v", err)
	}
	f, err := os.OpenFile(outp, os.O_APPEND|os.O_WRONLY|os.O_CREATE, 0o644)
	if err != nil {
		die("%v", err)
	}
	defer f.Close()
	for i := from; i < len(cases); i++ {
		c := cases[i]
		done := make(chan struct{})
		go func() { runCCase(&c); close(done) }()
		select {
		case <-done:
		case <-time.After(30 * time.Second):
			fmt.Fprintf(os.Stderr, "watchdog: concurrent case %d did not finish (deadlock)\n", c.ID)
			os.Exit(3)
		}
		bb, _ := json.Marshal(c)
		f.Write(append(bb, '\n'))
	}
}
