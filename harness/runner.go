package main

// Runs a case of the case language on the real container and records what happened.

import (
	"context"
	"errors"
	"fmt"
	"io"
	"os"
	"reflect"
	"strconv"
	"strings"
	"sync"
	"time"

	"github.com/junioryono/godi/v4"
)

const ownerProv = 900

type instKey struct{ rid, inv, out int }

type provRec struct {
	p           godi.Provider
	scopes      []godi.Scope // index = handle; [0] is nil (the provider / root scope)
	scopeCtx    []int        // explicit context each scope derives from
	scopeParent []int        // parent handle of each scope (0: created from the provider)
	idToHandle  map[string]int
	newScopes   int // number of scopes the provider has numbered so far (root scope = 1)
}

type ctxRec struct {
	ctx    context.Context
	cancel context.CancelFunc
}

type cidKey struct{}
type otherKey struct{}

// PanicVal is what scripted constructor panics panic with; for every third registration the value is an error
// (`panic(fmt.Errorf(...))`, as a runtime error is), which must still come back as a constructor *panic*.
type PanicVal struct{ Rid int }
type PanicErr struct{ Rid int }

func (e *PanicErr) Error() string { return fmt.Sprintf("scripted panic (an error value) of registration %d", e.Rid) }

type Run struct {
	mu          sync.Mutex
	coll        godi.Collection
	provs       []*provRec
	cur         *provRec
	curH        int
	invs        map[int]int
	regs        map[int]*Reg
	svc         map[int]any
	regErr      map[int]error
	owner       map[instKey]int
	events      []Event
	ctxs        map[int]*ctxRec
	notes       []string
	buildCancel context.CancelFunc
	slowClose   bool
	slowFor     time.Duration // how long a slow Close body stays inside Close
	inClose     map[int]int   // owner -> Close bodies in progress (owners are scope handles of the provider in use, or ownerProv)
	closeProv   *provRec      // the provider whose scopes the owners refer to
	sharedVals  map[[2]int]godi.ModuleOption
	sharedMods  map[int][]godi.ModuleOption
}

var theRun *Run

func newRun() *Run {
	r := &Run{
		coll:    godi.NewCollection(),
		invs:    map[int]int{},
		regs:    map[int]*Reg{},
		svc:     map[int]any{},
		regErr:  map[int]error{},
		owner:   map[instKey]int{},
		ctxs:    map[int]*ctxRec{},
		inClose: map[int]int{},
		slowFor: 150 * time.Microsecond,
	}
	theRun = r
	return r
}

func (r *Run) note(format string, a ...any) {
	r.notes = append(r.notes, fmt.Sprintf(format, a...))
}

func (r *Run) errOf(rid int, kind int) error {
	if e, ok := r.regErr[rid]; ok {
		return e
	}
	var e error
	switch kind {
	case 1:
		e = &PtrErr{Rid: rid}
	case 2:
		e = ValErr{Rid: rid}
	default:
		// the constructor's own error may wrap anything, also error values the container itself uses
		switch rid % 5 {
		case 1:
			e = fmt.Errorf("scripted constructor error of registration %d: %w", rid, godi.ErrScopeDisposed)
		case 2:
			e = fmt.Errorf("scripted constructor error of registration %d: %w", rid, context.Canceled)
		case 3:
			e = fmt.Errorf("scripted constructor error of registration %d: %w", rid, godi.ErrProviderDisposed)
		default:
			e = fmt.Errorf("scripted constructor error of registration %d", rid)
		}
	}
	r.regErr[rid] = e
	return e
}

func (r *Run) onClose(o *Obj) error {
	r.mu.Lock()
	defer r.mu.Unlock()
	in := Inst{Void: o.Void, Rid: o.Rid, Inv: o.Inv, Out: o.Out, Dyn: o.Dyn}
	fail := false
	if reg := r.regs[o.Rid]; reg != nil && o.Out < len(reg.CFail) {
		fail = reg.CFail[o.Out]
	}
	own, ok := r.owner[instKey{o.Rid, o.Inv, o.Out}]
	if !ok {
		own = 7007
	}
	// C11: no owner disposes one of its own instances while a descendant scope (for the provider: any scope) is
	// still inside a Close body; the offending event is marked by an impossible owner
	if r.overlapsDescendant(own) {
		own = 7008
	}
	r.events = append(r.events, Event{Kind: "closed", Inst: &in, Ok: !fail, Owner: own})
	if r.slowClose {
		key := own
		r.inClose[key]++
		r.mu.Unlock()
		time.Sleep(r.slowFor)
		r.mu.Lock()
		r.inClose[key]--
	}
	if fail {
		// what the error is, is the instance's business (invisible to the model): an opaque error, or one that wraps
		// an error value the container itself knows about
		var cause error
		switch (o.Rid + o.Inv + o.Out) % 5 {
		case 1:
			cause = context.Canceled
		case 2:
			cause = context.DeadlineExceeded
		case 3:
			cause = io.EOF
		case 4:
			cause = os.ErrClosed
		default:
			return fmt.Errorf("scripted close error of %d/%d/%d", o.Rid, o.Inv, o.Out)
		}
		return fmt.Errorf("scripted close error of %d/%d/%d: %w", o.Rid, o.Inv, o.Out, cause)
	}
	return nil
}

// overlapsDescendant: is a Close body of a scope below owner still in progress? (called with r.mu held)
func (r *Run) overlapsDescendant(owner int) bool {
	pr := r.closeProv
	for h, n := range r.inClose {
		if n <= 0 || h == owner || h >= 7000 {
			continue
		}
		if owner == ownerProv {
			if h != ownerProv {
				return true
			}
			continue
		}
		if pr == nil || h == ownerProv {
			continue
		}
		// is h a proper descendant of owner?
		for k := h; k > 0 && k < len(pr.scopeParent); {
			k = pr.scopeParent[k]
			if k == owner {
				return true
			}
			if k == 0 {
				break
			}
		}
	}
	return false
}

// ---------------------------------------------------------------- services

func hasErr(reg *Reg) bool { return reg.Form.Kind != "inst" && reg.Form.Err }

func effectiveOutcome(reg *Reg, inv int) int {
	o := OOk
	if inv < len(reg.Script) {
		o = reg.Script[inv]
	}
	switch o {
	case OCancel:
		return OOk
	case OErr:
		if !hasErr(reg) {
			return OOk
		}
	case ONil:
		if !(reg.Form.Kind == "ctor" && len(reg.Form.Rets) == 1 && reg.Form.Rets[0] >= 16 && reg.Form.Rets[0] <= 20) {
			return OOk
		}
	}
	return o
}

func depGoType(d Dep) reflect.Type {
	t := goType(d.Ty)
	if d.Group != 0 {
		return reflect.SliceOf(t)
	}
	return t
}

func nameStr(n int) string  { return "n" + strconv.Itoa(n) }
func groupStr(g int) string { return "g" + strconv.Itoa(g) }

func paramTag(p Param) reflect.StructTag {
	if p.Skip {
		return `inject:"-"`
	}
	var parts []string
	if p.Dep.Name != 0 {
		parts = append(parts, fmt.Sprintf(`name:"%s"`, nameStr(p.Dep.Name)))
	}
	if p.Dep.Group != 0 {
		parts = append(parts, fmt.Sprintf(`group:"%s"`, groupStr(p.Dep.Group)))
	}
	if p.Dep.Opt {
		parts = append(parts, `optional:"true"`)
	}
	return reflect.StructTag(strings.Join(parts, " "))
}

func inStructType(ps []Param) reflect.Type {
	for _, p := range ps {
		if p.Emb {
			if t := embInType(ps); t != nil {
				return t
			}
			panic("no static parameter object for this embedded shape")
		}
	}
	fields := []reflect.StructField{{Name: "In", Type: reflect.TypeOf(godi.In{}), Anonymous: true}}
	for i, p := range ps {
		t := depGoType(p.Dep)
		if p.Skip {
			t = goType(p.Dep.Ty)
		}
		fields = append(fields, reflect.StructField{Name: "F" + strconv.Itoa(i), Type: t, Tag: paramTag(p)})
	}
	return reflect.StructOf(fields)
}

func outStructType(fs []Field) reflect.Type {
	for _, f := range fs {
		if f.Emb {
			if t := embOutType(fs); t != nil {
				return t
			}
			panic("no static result object for this embedded shape")
		}
	}
	fields := []reflect.StructField{{Name: "Out", Type: reflect.TypeOf(godi.Out{}), Anonymous: true}}
	for i, f := range fs {
		var parts []string
		if f.Name != 0 {
			parts = append(parts, fmt.Sprintf(`name:"%s"`, nameStr(f.Name)))
		}
		if f.Group != 0 {
			parts = append(parts, fmt.Sprintf(`group:"%s"`, groupStr(f.Group)))
		}
		fields = append(fields, reflect.StructField{Name: "R" + strconv.Itoa(i), Type: goType(f.Ty), Tag: reflect.StructTag(strings.Join(parts, " "))})
	}
	return reflect.StructOf(fields)
}

func (r *Run) instOf(v reflect.Value) (Inst, bool) {
	if !v.IsValid() {
		return Inst{}, false
	}
	switch v.Kind() {
	case reflect.Pointer, reflect.Interface:
		if v.IsNil() {
			return Inst{}, false
		}
	}
	if v.Type() == voidType {
		return Inst{Void: true}, true
	}
	inf, ok := v.Interface().(informer)
	if !ok {
		return Inst{}, false
	}
	o := inf.Info()
	return Inst{Void: o.Void, Rid: o.Rid, Inv: o.Inv, Out: o.Out, Dyn: o.Dyn}, true
}

// memberOf decodes one element of a group slice: an element its constructor left nil is the model's NIL_MEMBER.
func (r *Run) memberOf(v reflect.Value) Inst {
	if !v.IsValid() {
		return Inst{Dyn: tNilOut}
	}
	switch v.Kind() {
	case reflect.Pointer, reflect.Interface:
		if v.IsNil() {
			return Inst{Dyn: tNilOut}
		}
	}
	in, ok := r.instOf(v)
	if !ok {
		return Inst{Rid: 7002}
	}
	return in
}

func base36(n int) string { return strconv.FormatUint(uint64(n), 36) }

func (r *Run) scopeHandle(s godi.Scope) int {
	if s == nil || r.cur == nil {
		return 7000
	}
	if h, ok := r.cur.idToHandle[s.ID()]; ok {
		return h
	}
	return 7001
}

// decode turns a value the container handed to user code into an argument value of the case language.
func (r *Run) decode(v reflect.Value, ty int, group bool) AVal {
	if group {
		if !v.IsValid() || v.Kind() != reflect.Slice {
			return AVal{Kind: "zero"}
		}
		l := make([]Inst, 0, v.Len())
		for i := 0; i < v.Len(); i++ {
			l = append(l, r.memberOf(v.Index(i)))
		}
		return AVal{Kind: "list", List: l}
	}
	if !v.IsValid() {
		return AVal{Kind: "zero"}
	}
	switch v.Kind() {
	case reflect.Pointer, reflect.Interface:
		if v.IsNil() {
			return AVal{Kind: "zero"}
		}
	}
	switch ty {
	case tCtx:
		ctx, _ := v.Interface().(context.Context)
		if ctx == nil {
			return AVal{Kind: "zero"}
		}
		s, err := godi.FromContext(ctx)
		if err != nil {
			return AVal{Kind: "ctx", H: 7003}
		}
		h := r.scopeHandle(s)
		if s.Context() != ctx {
			h += 5000 // a context of that scope, but not the scope's own context
		}
		return AVal{Kind: "ctx", H: h}
	case tScope:
		s, _ := v.Interface().(godi.Scope)
		if s == nil {
			return AVal{Kind: "zero"}
		}
		return AVal{Kind: "scope", H: r.scopeHandle(s)}
	case tProv:
		p, _ := v.Interface().(godi.Provider)
		if p == nil {
			return AVal{Kind: "zero"}
		}
		if r.cur != nil && r.cur.p != nil && p != r.cur.p {
			return AVal{Kind: "scope", H: 7004} // some other provider-like thing
		}
		return AVal{Kind: "prov"}
	}
	in, ok := r.instOf(v)
	if !ok {
		return AVal{Kind: "inst", Inst: &Inst{Rid: 7005}}
	}
	return AVal{Kind: "inst", Inst: &in}
}

func (r *Run) makeOutput(reg *Reg, inv, k, staticTy int) reflect.Value {
	if k < len(reg.Dyn) && reg.Dyn[k] == tNilOut {
		return reflect.Zero(goType(staticTy))
	}
	dyn := staticTy
	if k < len(reg.Dyn) {
		dyn = reg.Dyn[k]
	}
	if dyn < 0 || dyn >= 16 {
		dyn = 0
	}
	v := newObj(dyn, Obj{Rid: reg.ID, Inv: inv, Out: k})
	own := r.curH
	if reg.Life == Singleton {
		own = ownerProv
	}
	r.owner[instKey{reg.ID, inv, k}] = own
	return v.Convert(goType(staticTy))
}

// ctorBody is what every synthesised constructor does when the container calls it.
func (r *Run) ctorBody(reg *Reg, fnType reflect.Type, args []reflect.Value) []reflect.Value {
	r.mu.Lock()
	inv := r.invs[reg.ID]
	r.invs[reg.ID]++
	f := reg.Form
	avals := make([]AVal, 0, len(f.Params))
	if f.InObj {
		sv := args[0]
		for i, p := range f.Params {
			fv := sv.Field(i + 1)
			if p.Skip {
				if fv.IsZero() {
					avals = append(avals, AVal{Kind: "zero"})
				} else {
					avals = append(avals, r.decode(fv, p.Dep.Ty, false))
				}
				continue
			}
			avals = append(avals, r.decode(fv, p.Dep.Ty, p.Dep.Group != 0))
		}
	} else {
		for i, p := range f.Params {
			avals = append(avals, r.decode(args[i], p.Dep.Ty, p.Dep.Group != 0))
		}
	}
	outcome := effectiveOutcome(reg, inv)
	r.events = append(r.events, Event{Kind: "ctor", Rid: reg.ID, Inv: inv, Args: avals, Outcome: outcome})
	if inv < len(reg.Script) && reg.Script[inv] == OCancel {
		// cancel the context of the Build in progress (no effect outside Build)
		r.events = append(r.events, Event{Kind: "cancel"})
		if r.buildCancel != nil {
			r.buildCancel()
		}
	}
	r.mu.Unlock()

	outs := make([]reflect.Value, fnType.NumOut())
	for i := range outs {
		outs[i] = reflect.Zero(fnType.Out(i))
	}
	switch outcome {
	case OPanic:
		if reg.ID%3 == 1 {
			panic(fmt.Errorf("wrapped: %w", &PanicErr{Rid: reg.ID}))
		}
		panic(PanicVal{Rid: reg.ID})
	case OErr:
		switch f.ErrKind {
		case 1:
			outs[len(outs)-1] = reflect.ValueOf(r.errOf(reg.ID, 1))
		case 2:
			outs[len(outs)-1] = reflect.ValueOf(r.errOf(reg.ID, 2))
		default:
			outs[len(outs)-1] = reflect.ValueOf(r.errOf(reg.ID, 0)).Convert(errType)
		}
		return outs
	case ONil:
		return outs
	}
	r.mu.Lock()
	defer r.mu.Unlock()
	switch f.Kind {
	case "ctor":
		for k, t := range f.Rets {
			outs[k] = r.makeOutput(reg, inv, k, t)
		}
	case "result":
		sv := reflect.New(fnType.Out(0)).Elem()
		for k, fl := range f.Fields {
			sv.Field(k + 1).Set(r.makeOutput(reg, inv, k, fl.Ty))
		}
		outs[0] = sv
	}
	return outs
}

func (r *Run) fnType(reg *Reg) reflect.Type {
	f := reg.Form
	var in []reflect.Type
	if f.InObj {
		in = []reflect.Type{inStructType(f.Params)}
	} else {
		for _, p := range f.Params {
			in = append(in, depGoType(p.Dep))
		}
	}
	var out []reflect.Type
	switch f.Kind {
	case "ctor":
		for _, t := range f.Rets {
			out = append(out, goType(t))
		}
	case "result":
		out = append(out, outStructType(f.Fields))
	}
	if f.Err {
		switch f.ErrKind {
		case 1:
			out = append(out, ptrErrTy)
		case 2:
			out = append(out, valErrTy)
		default:
			out = append(out, errType)
		}
	}
	return reflect.FuncOf(in, out, false)
}

// service builds (once per registration) the value handed to Add*.
func (r *Run) service(reg *Reg) any {
	if s, ok := r.svc[reg.ID]; ok {
		return s
	}
	r.regs[reg.ID] = reg
	var s any
	switch {
	case reg.Bad == 1:
		s = nil
	case reg.Bad == 6:
		s = (func() *P0)(nil)
	case reg.Form.Kind == "inst":
		own := ownerProv
		r.owner[instKey{reg.ID, 0, 0}] = own
		s = newObj(reg.Form.Ty, Obj{Rid: reg.ID}).Interface()
	case reg.FnKind != 0:
		s = r.staticFn(reg)
	default:
		ft := r.fnType(reg)
		s = reflect.MakeFunc(ft, func(args []reflect.Value) []reflect.Value { return r.ctorBody(reg, ft, args) }).Interface()
	}
	r.svc[reg.ID] = s
	return s
}

func asOption(i int) godi.AddOption {
	switch i {
	case 16:
		return godi.As[I0]()
	case 17:
		return godi.As[I1]()
	case 18:
		return godi.As[I2]()
	case 19:
		return godi.As[I3]()
	case 20:
		return godi.As[INone]()
	}
	return godi.As[int]() // pointer to a non-interface
}

func (r *Run) options(reg *Reg) []godi.AddOption {
	var opts []godi.AddOption
	if reg.Name != 0 {
		n := nameStr(reg.Name)
		if reg.Bad == 2 {
			n += "`"
		}
		opts = append(opts, godi.Name(n))
	} else if reg.Bad == 2 {
		opts = append(opts, godi.Name("bad`name"))
	}
	if reg.Group != 0 {
		g := groupStr(reg.Group)
		if reg.Bad == 3 {
			g += "`"
		}
		opts = append(opts, godi.Group(g))
	} else if reg.Bad == 3 {
		opts = append(opts, godi.Group("bad`group"))
	}
	for _, a := range reg.As {
		opts = append(opts, asOption(a))
	}
	if reg.Bad == 5 {
		opts = append(opts, godi.As[int]())
	}
	return opts
}

func (r *Run) add(c godi.Collection, reg *Reg) error {
	s := r.service(reg)
	opts := r.options(reg)
	switch reg.Life {
	case Singleton:
		return c.AddSingleton(s, opts...)
	case Scoped:
		return c.AddScoped(s, opts...)
	default:
		return c.AddTransient(s, opts...)
	}
}

func (r *Run) moduleOption(m Module) godi.ModuleOption {
	switch m.Kind {
	case "nil":
		return nil
	case "add":
		reg := m.Reg
		s := r.service(reg)
		opts := r.options(reg)
		switch reg.Life {
		case Singleton:
			return godi.AddSingleton(s, opts...)
		case Scoped:
			return godi.AddScoped(s, opts...)
		default:
			return godi.AddTransient(s, opts...)
		}
	case "remove":
		if o := removeOption(m.Ty); o != nil {
			return o
		}
		t := goType(m.Ty)
		return func(c godi.Collection) error { c.Remove(t); return nil }
	case "removekeyed":
		t := goType(m.Ty)
		var k any
		if m.Name != 0 {
			k = nameStr(m.Name)
		}
		if o := removeKeyedOption(m.Ty, k); o != nil {
			return o
		}
		return func(c godi.Collection) error { c.RemoveKeyed(t, k); return nil }
	case "module":
		if m.Shared > 0 {
			// several modules defined from one entry list: the very same slice is handed to NewModule each time
			if r.sharedMods == nil {
				r.sharedMods = map[int][]godi.ModuleOption{}
			}
			subs, ok := r.sharedMods[m.Shared]
			if !ok {
				subs = make([]godi.ModuleOption, len(m.Mods))
				for i, sm := range m.Mods {
					subs[i] = r.moduleOption(sm)
				}
				r.sharedMods[m.Shared] = subs
			}
			// ... and under one name the very same module value is used again (a shared sub-module listed twice)
			if r.sharedVals == nil {
				r.sharedVals = map[[2]int]godi.ModuleOption{}
			}
			if mo, ok := r.sharedVals[[2]int{m.Shared, m.Name}]; ok {
				return mo
			}
			mo := godi.NewModule("m"+strconv.Itoa(m.Name), subs...)
			r.sharedVals[[2]int{m.Shared, m.Name}] = mo
			return mo
		}
		subs := make([]godi.ModuleOption, len(m.Mods))
		for i, sm := range m.Mods {
			subs[i] = r.moduleOption(sm)
		}
		return godi.NewModule("m"+strconv.Itoa(m.Name), subs...)
	}
	panic("bad module kind " + m.Kind)
}

// ---------------------------------------------------------------- error classes

// asVal finds one of the library's error types in the chain, in the form the library hands them out and documents
// them: a pointer (`var e *godi.AlreadyRegisteredError; errors.As(err, &e)`). A wrapper that stores the value instead
// is not found by that idiom, and is not found here. (ModuleError and LifetimeError are handed out as values.)
func asVal[T error](err error) (T, bool) {
	var v T
	var p *T
	if errors.As(err, &p) && p != nil {
		return *p, true
	}
	// the two types the library hands out as values
	switch any(v).(type) {
	case godi.ModuleError, godi.LifetimeError:
		if errors.As(err, &v) {
			return v, true
		}
	}
	return v, false
}

// firstBranch follows the wrapper chain; at an errors.Join node it keeps the first error only
// (the primary failure; what is joined to it is the outcome of the clean-up).
func firstBranch(err error) error {
	for e := err; e != nil; {
		switch x := e.(type) {
		case interface{ Unwrap() []error }:
			if l := x.Unwrap(); len(l) > 0 {
				return l[0]
			}
			return err
		case interface{ Unwrap() error }:
			e = x.Unwrap()
		default:
			return err
		}
	}
	return err
}

func (r *Run) classify(err error) Result {
	res := Result{Kind: "err", Text: firstLine(err.Error())}
	if _, isMod := asVal[godi.ModuleError](err); !isMod {
		err = firstBranch(err)
	}
	for {
		me, ok := asVal[godi.ModuleError](err)
		if !ok {
			break
		}
		n, _ := strconv.Atoi(strings.TrimPrefix(me.Module, "m"))
		res.Mods = append(res.Mods, n)
		err = errors.Unwrap(error(me)) // the standard chain, not the exported field: every wrapper must be reachable by errors.As
		if err == nil {
			res.Class = "EOther"
			return res
		}
	}
	for rid, e := range r.regErr {
		if errors.Is(err, e) {
			res.Class, res.CArg = "ECtorErr", rid
			return res
		}
	}
	if pe, ok := asVal[godi.ConstructorPanicError](err); ok {
		res.Class, res.CArg = "ECtorPanic", 7006
		if pv, ok := pe.Panic.(PanicVal); ok {
			res.CArg = pv.Rid
		}
		if perr, ok := pe.Panic.(error); ok {
			var pe2 *PanicErr
			if errors.As(perr, &pe2) {
				res.CArg = pe2.Rid
			}
		}
		return res
	}
	switch {
	case isA[godi.DisposalError](err):
		// first: what the failing Close methods returned may itself wrap any error value
		de, _ := asVal[godi.DisposalError](err)
		res.Class, res.CArg = "EDisposal", len(de.Errors)
	case errors.Is(err, context.Canceled) || errors.Is(err, context.DeadlineExceeded):
		res.Class = "ECancelled"
	case errors.Is(err, godi.ErrServiceNotFound):
		res.Class = "ENotFound"
	case errors.Is(err, godi.ErrScopeDisposed):
		res.Class = "EScopeDisposed"
	case errors.Is(err, godi.ErrProviderDisposed):
		res.Class = "EProviderDisposed"
	case isA[godi.CircularDependencyError](err):
		res.Class = "ECircular"
	case isA[godi.LifetimeConflictError](err):
		res.Class = "ELifetime"
	case isA[godi.AlreadyRegisteredError](err):
		res.Class = "EAlready"
	case isA[godi.TypeMismatchError](err):
		res.Class = "ETypeMismatch"
	case errors.Is(err, godi.ErrSingletonNotInitialized):
		res.Class = "ESingletonNotInit"
	case errors.Is(err, godi.ErrServiceKeyNil):
		res.Class = "EKeyNil"
	case errors.Is(err, godi.ErrServiceTypeNil):
		res.Class = "ETypeNil"
	case isA[godi.ValidationError](err):
		res.Class = "EValidation"
	default:
		res.Class = "EOther"
	}
	return res
}

func isA[T error](err error) bool { _, ok := asVal[T](err); return ok }

func firstLine(s string) string {
	if i := strings.IndexByte(s, '\n'); i >= 0 {
		s = s[:i]
	}
	if len(s) > 160 {
		s = s[:160]
	}
	return s
}

// ---------------------------------------------------------------- operations

func (r *Run) prov(i int) *provRec {
	if i < 0 || i >= len(r.provs) {
		return nil
	}
	return r.provs[i]
}

func (r *Run) explicitCtx(c int, base context.Context) context.Context {
	if c == 0 {
		return nil
	}
	if rec, ok := r.ctxs[c]; ok {
		return rec.ctx
	}
	if base == nil {
		base = context.Background()
	}
	ctx, cancel := context.WithCancel(context.WithValue(base, cidKey{}, c))
	r.ctxs[c] = &ctxRec{ctx, cancel}
	return ctx
}

// singleton construction order = merge of the order in which singleton constructors ran and the
// order of the provider's disposables (both are subsequences of the creation order)
func mergeOrder(a, b []int) []int {
	inA := map[int]bool{}
	for _, x := range a {
		inA[x] = true
	}
	var out []int
	i, j := 0, 0
	for {
		// what only the disposables list knows about (instance values) goes as early as its place in that list allows
		for j < len(b) && !inA[b[j]] {
			out = append(out, b[j])
			j++
		}
		if i >= len(a) {
			break
		}
		x := a[i]
		out = append(out, x)
		i++
		if j < len(b) && b[j] == x {
			j++
		}
	}
	for ; j < len(b); j++ {
		if !inA[b[j]] {
			out = append(out, b[j])
		}
	}
	return out
}

// buildOrder: the oracle handed to the model. When a registration was constructed more than once in one
// Build (the same registration added to a group twice) the constructor order is used as it is.
func buildOrder(ctorOrd, dispOrd []int) []int {
	return mergeOrder(ctorOrd, dedupInts(dispOrd))
}

func dedupInts(l []int) []int {
	var out []int
	seen := map[int]bool{}
	for _, x := range l {
		if !seen[x] {
			seen[x] = true
			out = append(out, x)
		}
	}
	return out
}

func keyString(k any) string {
	switch k := k.(type) {
	case nil:
		return "none"
	case int:
		return "idx:" + strconv.Itoa(k)
	case string:
		if strings.HasPrefix(k, "v") {
			return "void"
		}
		return "name:" + strings.TrimPrefix(k, "n")
	}
	return "name:778"
}

func groupNum(g string) int {
	if g == "" {
		return 0
	}
	n, _ := strconv.Atoi(strings.TrimPrefix(g, "g"))
	return n
}

func (r *Run) closeOrder(evs []Event) []int {
	var ord []int
	for _, e := range evs {
		if e.Kind == "closed" && e.Owner != ownerProv && e.Owner >= 0 {
			ord = append(ord, e.Owner)
		}
	}
	return dedupInts(ord)
}

func (r *Run) target(pr *provRec, h int) godi.Provider {
	if h == 0 {
		return pr.p
	}
	if h < len(pr.scopes) {
		return pr.scopes[h]
	}
	return nil
}

func (r *Run) valueResult(v any, ty int, err error) Result {
	if err != nil {
		return r.classify(err)
	}
	a := r.decode(reflect.ValueOf(v), ty, false)
	return Result{Kind: "val", Val: &a}
}

// exec runs one operation and returns its result; events are collected in r.events.
func (r *Run) exec(op *Op) (res Result) {
	defer func() {
		if v := recover(); v != nil {
			res = Result{Kind: "err", Class: "EPanicked", Text: firstLine(fmt.Sprint(v))}
		}
	}()
	unitOr := func(err error) Result {
		if err != nil {
			return r.classify(err)
		}
		return Result{Kind: "unit"}
	}
	switch op.Kind {
	case "add":
		return unitOr(r.add(r.coll, op.Reg))
	case "remove":
		r.coll.Remove(goType(op.Ty))
		return Result{Kind: "unit"}
	case "removekeyed":
		var k any
		if op.Name != 0 {
			k = nameStr(op.Name)
		}
		r.coll.RemoveKeyed(goType(op.Ty), k)
		return Result{Kind: "unit"}
	case "modules":
		ms := make([]godi.ModuleOption, len(op.Mods))
		for i, m := range op.Mods {
			ms[i] = r.moduleOption(m)
		}
		return unitOr(r.coll.AddModules(ms...))
	case "contains":
		return Result{Kind: "bool", B: r.coll.Contains(goType(op.Ty))}
	case "containskeyed":
		var k any
		if op.Name != 0 {
			k = nameStr(op.Name)
		}
		return Result{Kind: "bool", B: r.coll.ContainsKeyed(goType(op.Ty), k)}
	case "count":
		return Result{Kind: "count", N: r.coll.Count()}
	case "slice":
		var ds []DescInfo
		for _, d := range r.coll.ToSlice() {
			di := DescInfo{Ty: typeNum(d.Type), Life: int(d.Lifetime), Key: "none"}
			if d.Group != "" {
				di.Group, _ = strconv.Atoi(strings.TrimPrefix(d.Group, "g"))
			}
			di.Key = keyString(d.Key)
			ds = append(ds, di)
		}
		return Result{Kind: "descs", Descs: ds}
	case "build":
		pr := &provRec{scopes: []godi.Scope{nil}, scopeCtx: []int{0}, scopeParent: []int{0}, idToHandle: map[string]int{"s1": 0}, newScopes: 1}
		r.cur, r.curH = pr, 0
		start := len(r.events)
		bctx, bcancel := context.WithCancel(context.Background())
		r.buildCancel = bcancel
		p, err := r.coll.BuildWithContext(bctx)
		r.buildCancel = nil
		defer bcancel()
		evs := r.events[start:]
		var ctorOrd, dispOrd []int
		for _, e := range evs {
			if e.Kind == "ctor" {
				if reg := r.regs[e.Rid]; reg != nil && reg.Life == Singleton {
					ctorOrd = append(ctorOrd, e.Rid)
				}
			}
		}
		if err != nil {
			for i := len(evs) - 1; i >= 0; i-- {
				if e := evs[i]; e.Kind == "closed" && e.Owner == ownerProv {
					dispOrd = append(dispOrd, e.Inst.Rid)
				}
			}
			op.Ord = buildOrder(ctorOrd, dispOrd)
			r.cur = nil
			if ce, ok := asVal[godi.CircularDependencyError](err); ok {
				var path []PathNode
				for _, n := range ce.Path {
					path = append(path, PathNode{Ty: typeNum(n.Type), Key: keyString(n.Key), Group: groupNum(n.Group)})
				}
				r.events = append(r.events, Event{Kind: "cycle", Path: path})
			}
			return r.classify(err)
		}
		for _, d := range godi.VerifSingletonDisposables(p) {
			if in, ok := r.instOf(reflect.ValueOf(d)); ok {
				dispOrd = append(dispOrd, in.Rid)
			}
		}
		op.Ord = buildOrder(ctorOrd, dispOrd)
		pr.p = p
		r.provs = append(r.provs, pr)
		return Result{Kind: "count", N: len(r.provs) - 1}
	case "createscope":
		pr := r.prov(op.P)
		if pr == nil || op.Parent >= len(pr.scopes) {
			return Result{Kind: "err", Class: "EOther", Mods: []int{98}}
		}
		r.cur = pr
		h := len(pr.scopes)
		r.curH = h
		id := "s" + base36(pr.newScopes+1)
		pr.idToHandle[id] = h
		var base context.Context
		if op.Derive && op.Parent != 0 {
			base = pr.scopes[op.Parent].Context()
		}
		ctx := r.explicitCtx(op.Ctx, base)
		var sc godi.Scope
		var err error
		// the provider numbers a scope before it knows whether creation succeeds, but only when it gets that far
		if op.Parent == 0 {
			sc, err = pr.p.CreateScope(ctx)
		} else {
			sc, err = pr.scopes[op.Parent].CreateScope(ctx)
		}
		if err != nil {
			delete(pr.idToHandle, id)
			// (decided on the classified error: a constructor's own error may wrap the disposed sentinels)
			res := r.classify(err)
			if !(res.Class == "EProviderDisposed" || res.Class == "EScopeDisposed") {
				pr.newScopes++
			}
			return res
		}
		pr.newScopes++
		if sc.ID() != id {
			r.note("scope id %s, expected %s", sc.ID(), id)
			pr.idToHandle[sc.ID()] = h
		}
		cx := op.Ctx
		if cx == 0 && op.Parent != 0 {
			cx = pr.scopeCtx[op.Parent]
		}
		pr.scopes = append(pr.scopes, sc)
		pr.scopeCtx = append(pr.scopeCtx, cx)
		pr.scopeParent = append(pr.scopeParent, op.Parent)
		return Result{Kind: "scope", H: h}
	case "resolve":
		pr := r.prov(op.P)
		if pr == nil || op.H >= len(pr.scopes) {
			return Result{Kind: "err", Class: "EOther", Mods: []int{98}}
		}
		r.cur, r.curH = pr, op.H
		t := r.target(pr, op.H)
		var v any
		var err error
		if op.Name != 0 {
			v, err = t.GetKeyed(goType(op.Ty), nameStr(op.Name))
		} else {
			v, err = t.Get(goType(op.Ty))
		}
		return r.valueResult(v, op.Ty, err)
	case "resolvegroup":
		pr := r.prov(op.P)
		if pr == nil || op.H >= len(pr.scopes) {
			return Result{Kind: "err", Class: "EOther", Mods: []int{98}}
		}
		r.cur, r.curH = pr, op.H
		g := ""
		if op.Group != 0 {
			g = groupStr(op.Group)
		}
		vs, err := r.target(pr, op.H).GetGroup(goType(op.Ty), g)
		if err != nil {
			return r.classify(err)
		}
		l := make([]Inst, 0, len(vs))
		for _, v := range vs {
			l = append(l, r.memberOf(reflect.ValueOf(v)))
		}
		return Result{Kind: "val", Val: &AVal{Kind: "list", List: l}}
	case "close":
		pr := r.prov(op.P)
		if pr == nil || op.H == 0 || op.H >= len(pr.scopes) {
			return Result{Kind: "err", Class: "EOther", Mods: []int{98}}
		}
		r.cur, r.curH = pr, op.H
		start := len(r.events)
		err := pr.scopes[op.H].Close()
		op.Ord = r.closeOrder(r.events[start:])
		return unitOr(err)
	case "closeprovider":
		pr := r.prov(op.P)
		if pr == nil {
			return Result{Kind: "unit"}
		}
		r.cur, r.curH = pr, 0
		start := len(r.events)
		err := pr.p.Close()
		op.Ord = r.closeOrder(r.events[start:])
		return unitOr(err)
	case "cancel":
		rec := r.ctxs[op.Ctx]
		start := len(r.events)
		if rec != nil {
			rec.cancel()
			deadline := time.Now().Add(3 * time.Second)
			for _, pr := range r.provs {
				for h, sc := range pr.scopes {
					if sc == nil || pr.scopeCtx[h] != op.Ctx {
						continue
					}
					for godi.VerifCacheLen(sc) != -1 && time.Now().Before(deadline) {
						time.Sleep(200 * time.Microsecond)
					}
				}
			}
		}
		op.Ord = r.closeOrder(r.events[start:])
		return Result{Kind: "unit"}
	case "stats":
		pr := r.prov(op.P)
		if pr == nil {
			return Result{Kind: "err", Class: "EOther", Mods: []int{98}}
		}
		nz := func(n int) int {
			if n < 0 {
				return 999
			}
			return n
		}
		res := Result{Kind: "stats", N: nz(godi.VerifScopeCount(pr.p))}
		for h := range pr.scopes {
			var sc godi.Scope
			if h == 0 {
				sc = godi.VerifRootScope(pr.p)
			} else {
				sc = pr.scopes[h]
			}
			if sc == nil {
				res.Stats = append(res.Stats, [3]int{999, 999, 0})
				continue
			}
			kids := nz(godi.VerifChildCount(sc))
			res.Stats = append(res.Stats, [3]int{kids, nz(godi.VerifCacheLen(sc)), nz(godi.VerifDisposableCount(sc))})
		}
		return res
	case "ctxvalue":
		pr := r.prov(op.P)
		if pr == nil || op.H >= len(pr.scopes) {
			return Result{Kind: "err", Class: "EOther", Mods: []int{98}}
		}
		if op.H == 0 {
			return Result{Kind: "count", N: 0}
		}
		n, _ := pr.scopes[op.H].Context().Value(cidKey{}).(int)
		return Result{Kind: "count", N: n}
	case "ctxdone":
		pr := r.prov(op.P)
		if pr == nil || op.H >= len(pr.scopes) {
			return Result{Kind: "err", Class: "EOther", Mods: []int{98}}
		}
		if op.H == 0 {
			return Result{Kind: "bool", B: false}
		}
		return Result{Kind: "bool", B: pr.scopes[op.H].Context().Err() != nil}
	case "fromcontext":
		pr := r.prov(op.P)
		if pr == nil || op.H >= len(pr.scopes) {
			return Result{Kind: "err", Class: "EOther", Mods: []int{98}}
		}
		if op.H == 0 {
			return Result{Kind: "scope", H: op.H}
		}
		r.cur = pr
		s, err := godi.FromContext(context.WithValue(pr.scopes[op.H].Context(), otherKey{}, 1))
		if err != nil {
			return r.classify(err)
		}
		return Result{Kind: "scope", H: r.scopeHandle(s)}
	}
	panic("unknown op " + op.Kind)
}

// runCase executes the operations of a case in order on a fresh world.
func runCase(c *Case) {
	r := newRun()
	r.slowClose = c.SlowClose
	for i := range c.Ops {
		if c.Ops[i].NoWait {
			r.slowFor = 3 * time.Millisecond // wide enough for the next operation to start inside it
		}
	}
	flatFailed := false
	skip := -1
	kept := c.Ops[:0:0]
	for i := range c.Ops {
		if c.Ops[i].Flat && flatFailed {
			continue // module processing stops at the first failing entry; so does the flat twin
		}
		if c.Ops[i].Kind == "cancel" && c.Ops[i].NoWait && i+1 < len(c.Ops) && (c.Ops[i+1].Kind == "closeprovider" || c.Ops[i+1].Kind == "close") {
			if step, ok := r.cancelThenClose(&c.Ops[i], &c.Ops[i+1]); ok {
				// for the model this is the owner's Close alone: everything the cancellation closes lies below the
				// owner and is closed during - and reported by - that Close
				kept = append(kept, c.Ops[i+1])
				c.Trace = append(c.Trace, step)
				skip = i + 1
				continue
			}
		}
		if i == skip {
			continue
		}
		start := len(r.events)
		res := r.exec(&c.Ops[i])
		if c.Ops[i].Flat && res.Kind == "err" {
			flatFailed = true
		}
		if res.Kind == "err" && len(res.Mods) == 1 && res.Mods[0] == 98 {
			continue // the generator addressed a scope or provider that was never created: not an operation
		}
		kept = append(kept, c.Ops[i])
		r.mu.Lock()
		evs := append([]Event(nil), r.events[start:]...)
		r.mu.Unlock()
		c.Trace = append(c.Trace, Step{Events: evs, Result: res})
	}
	c.Ops = kept
	// leave nothing running behind: cancel contexts, close providers
	for _, rec := range r.ctxs {
		rec.cancel()
	}
	for _, pr := range r.provs {
		_ = pr.p.Close()
	}
	if len(r.notes) > 0 {
		c.Note = strings.Join(r.notes, "; ")
	}
}

// cancelThenClose: cancel a context and, while its watcher goroutines are closing their scopes, start the Close of an
// ancestor or of the provider. Both operations become one step each, as in the sequential order; the Closed events
// are attributed by owner: scopes below the cancelled context belong to the cancellation (the model closes them there).
func (r *Run) cancelThenClose(cancel, next *Op) (Step, bool) {
	rec := r.ctxs[cancel.Ctx]
	pr := r.prov(next.P)
	if rec == nil || pr == nil {
		return Step{}, false
	}
	if next.Kind == "close" && (next.H <= 0 || next.H >= len(pr.scopes) || pr.scopes[next.H] == nil) {
		return Step{}, false
	}
	// scopes closed by the cancellation: those deriving from the context, and everything below them
	inSet := make([]bool, len(pr.scopes))
	for h := 1; h < len(pr.scopes); h++ {
		if pr.scopeCtx[h] == cancel.Ctx || (pr.scopeParent[h] > 0 && pr.scopeParent[h] < h && inSet[pr.scopeParent[h]]) {
			inSet[h] = true
		}
	}
	// all of them must lie below the owner that is about to be closed (always so for the provider)
	if next.Kind == "close" {
		for h := 1; h < len(pr.scopes); h++ {
			if !inSet[h] {
				continue
			}
			below := false
			for k := h; k > 0 && k < len(pr.scopeParent); k = pr.scopeParent[k] {
				if pr.scopeParent[k] == next.H {
					below = true
					break
				}
			}
			if !below {
				return Step{}, false
			}
		}
	}
	for _, other := range r.provs {
		if other != pr {
			for h := 1; h < len(other.scopes); h++ {
				if other.scopeCtx[h] == cancel.Ctx {
					return Step{}, false
				}
			}
		}
	}
	r.mu.Lock()
	start := len(r.events)
	r.closeProv = pr
	r.mu.Unlock()
	rec.cancel()
	// let a watcher get inside a Close body (if it has anything to close) before the owner's Close starts
	deadline := time.Now().Add(20 * time.Millisecond)
	for time.Now().Before(deadline) {
		r.mu.Lock()
		busy := false
		for h, n := range r.inClose {
			if n > 0 && h < 7000 {
				busy = true
			}
		}
		r.mu.Unlock()
		if busy {
			break
		}
		time.Sleep(50 * time.Microsecond)
	}
	res := r.exec(next)
	// now wait for the watchers, as the plain cancel does
	limit := time.Now().Add(3 * time.Second)
	for h, sc := range pr.scopes {
		if sc == nil || !inSet[h] {
			continue
		}
		for godi.VerifCacheLen(sc) != -1 && time.Now().Before(limit) {
			time.Sleep(200 * time.Microsecond)
		}
	}
	r.mu.Lock()
	all := append([]Event(nil), r.events[start:]...)
	r.closeProv = nil
	r.mu.Unlock()
	next.Ord = r.closeOrder(all)
	return Step{Events: all, Result: res}, true
}
